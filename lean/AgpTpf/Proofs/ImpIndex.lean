/-
  T1c tie for `index_fasta_file` (fasta/index.py): lemmas for the translated source `Gen.Imp.index_fasta_file_imp`, and the
  tie itself in its strong form (`index_fasta_file_imp_eq`: all four result components).

  The source keeps 13 loop variables, eight of them `None`-able; the model keeps an `IdxState`.  `toSrc st` rebuilds the
  source's variables from the model state (all `None` before the first header, all set after it), `Inv` is the invariant
  that makes the two agree (a name is never empty, `residues_per_line` is set and `line_end_bytes > 0` once a header was
  seen, every region `(start, end)` has `start < end` — so `Fragment(name, start + 1, end, 1)` never raises).

  * `forIn_abs_pure`, `forIn_abs`   a `PyRt.forIn` whose body, on states of the form `abs t`, does what a step function on `t`
                                    does, is `List.foldl` / `List.foldlM` of that step function
  * `pyGet_split_zero`              `line[1:].split()[0]` = the model's token (`dropWhile` blank, `takeWhile` non-blank)
  * `mergeRun_inv`, `closeReg_lt`   regions are non-empty intervals;  `foldl_rowStep`: the row loop of `store_info` = `regionRows`
  * `storeInfo_eq`, `indexLine_*`   the model side, in the shape of the source
  * `preHeaderOk`, `Terminated`     the shape of the header-less prefix of the file on which model and source agree
                                    (they differ on `[b"A", b"A\n"]`, see Properties/C04Imp.lean); `bLines_terminated`
  * `invL_step`                     one line keeps the invariant (model side only)
  * `index_fasta_file_imp_eq`       the simulation.  This is the only place that looks at the generated text, and it does so
                                    through `simp` with run-time facts and four rewriting steps per closure call:
                                    `forIn_abs_pure` for the two inner loops (the body hypotheses are discharged by the
                                    tactics `proc_body` / `row_body`, which only unfold `mergeRun` / `rowStep` and split cases),
                                    `ite_closeReg` for `if region_end: …append(…)`, `header_tail` for the name / line-ending
                                    part of a header line.  The only generated sub-terms that are written down are two
                                    one-expression `have`s in the sequence-line case (`hkeep`: the translation of
                                    `line[:-line_end_bytes] if line[-1] == 10 else line`, `hr0`: of `if not residues_per_line`),
                                    the shape `if _ then _ else .ok (some regs)` in `ite_closeReg`, and the order of the loop
                                    variables: of the 13 of the main loop in `SrcState` / `SrcState.pack`, of the
                                    two inner loops in `absReg` / `absRow` (nowhere else; the joins after an `if` are
                                    projected by `simp`).
-/
import AgpTpf.Gen.Imp
import AgpTpf.Model.Fasta
import AgpTpf.Proofs.C04Runs
namespace AgpTpf.ImpIndex
open AgpTpf PyRt

/-! ### loops -/

/-- a loop whose body, on every state of the form `abs t`, goes on with `abs (f t x)` is the left fold of `f` -/
theorem forIn_abs_pure {α σ τ ρ : Type} (abs : τ → σ) (f : τ → α → τ) (body : α → σ → R (Ctl σ ρ)) :
    ∀ (xs : List α) (t : τ) (s : σ), s = abs t →
      (∀ x ∈ xs, ∀ t, body x (abs t) = .ok (.next (abs (f t x)))) →
      PyRt.forIn xs s body = .ok (.fell (abs (xs.foldl f t))) := by
  intro xs
  induction xs with
  | nil => intro t s hs _; subst hs; rfl
  | cons x xs ih =>
    intro t s hs h
    subst hs
    rw [PyRt.forIn, h x (List.mem_cons_self ..) t]
    exact ih (f t x) _ rfl (fun y hy => h y (List.mem_cons_of_mem _ hy))

/-- a loop whose body simulates a fallible step function of the model (`Inv` may talk about the elements still to come) -/
theorem forIn_abs {α σ τ ρ : Type} (abs : τ → σ) (step : τ → α → R τ) (Inv : τ → List α → Prop)
    (body : α → σ → R (Ctl σ ρ))
    (h : ∀ x xs t, Inv t (x :: xs) →
      body x (abs t) = (step t x).map (fun t' => Ctl.next (abs t')) ∧ ∀ t', step t x = .ok t' → Inv t' xs) :
    ∀ (xs : List α) (t : τ) (s : σ), s = abs t → Inv t xs →
      PyRt.forIn xs s body = (xs.foldlM step t).map (fun t' => Done.fell (abs t')) ∧
      ∀ t', xs.foldlM step t = .ok t' → Inv t' [] := by
  intro xs
  induction xs with
  | nil =>
    intro t s hs hi
    subst hs
    refine ⟨rfl, ?_⟩
    intro t' ht'
    simp only [List.foldlM_nil, pure, Except.pure, Except.ok.injEq] at ht'
    subst ht'; exact hi
  | cons x xs ih =>
    intro t s hs hi
    subst hs
    obtain ⟨hb, hinv⟩ := h x xs t hi
    rw [PyRt.forIn, hb, List.foldlM_cons]
    cases hst : step t x with
    | error e => exact ⟨rfl, fun t' ht' => by cases ht'⟩
    | ok t1 =>
      have := ih t1 _ rfl (hinv t1 hst)
      exact this

/-! ### the two views of the indexer's state -/

/-- the source's 13 loop variables, in the translator's canonical order (sorted by the Lean text of their type, then by
    Python variable name, the synthetic `fh.tell()` last): `(idx_dict, asm.scaffolds, seq_regions, file_offset,
    line_end_bytes, region_end, region_start, residues_per_line, seq_length, name, nextOid, seq_buffer, fh.tell())` -/
abbrev SrcState := List (Str × FastaInfo) × List Scaffold × Option (List (Int × Int)) × Option Int × Option Int × Option Int ×
  Option Int × Option Int × Option Int × Option Str × Nat × PyRt.BytesIO × Int

/-- THE packing function of the main loop state: the 13 variables by name (the only place that spells out their order) -/
def SrcState.pack (scaffolds : List Scaffold) (fileOffset : Option Int) (idx : List (Str × FastaInfo))
    (lineEndBytes : Option Int) (name : Option Str) (nextOid : Nat) (regionEnd regionStart rpl : Option Int)
    (buf : PyRt.BytesIO) (seqLength : Option Int) (seqRegions : Option (List (Int × Int))) (pos : Int) : SrcState :=
  (idx, scaffolds, seqRegions, fileOffset, lineEndBytes, regionEnd, regionStart, rpl, seqLength, name, nextOid, buf, pos)

/-- the source's variables, from the model state: before the first header everything the Python initialises with `None` is
    `None` (except `residues_per_line`, which a header-less unterminated line sets); after it everything is set -/
def toSrc (st : IdxState) : SrcState :=
  match st.name with
  | some n => SrcState.pack st.scaffolds (some st.fileOffset) st.idx (some st.lineEndBytes) (some n) st.nextOid st.regionEnd
      (some st.regionStart) st.rpl { data := st.buffer, pos := st.buffer.length } (some st.seqLength) (some st.seqRegions) st.pos
  | none => SrcState.pack st.scaffolds none st.idx none none st.nextOid none none st.rpl
      { data := st.buffer, pos := st.buffer.length } none none st.pos

/-- `toSrc` before the first header -/
theorem toSrc_none {st : IdxState} (hn : st.name = none) :
    toSrc st = SrcState.pack st.scaffolds none st.idx none none st.nextOid none none st.rpl
      { data := st.buffer, pos := st.buffer.length } none none st.pos := by
  simp only [toSrc, hn]

/-- `toSrc` inside a record -/
theorem toSrc_some {st : IdxState} {n : Str} {r : Int} (hn : st.name = some n) (hr : st.rpl = some r) :
    toSrc st = SrcState.pack st.scaffolds (some st.fileOffset) st.idx (some st.lineEndBytes) (some n) st.nextOid st.regionEnd
      (some st.regionStart) (some r) { data := st.buffer, pos := st.buffer.length } (some st.seqLength) (some st.seqRegions)
      st.pos := by
  simp only [toSrc, hn, hr]

/-- the region variables of `process_seq_buffer`: `mergeRun` keeps them as `(region_start, region_end, seq_regions)`, the
    translated loop carries them as `(seq_regions, region_end, region_start)` -/
def absReg (t : Int × Option Int × List (Int × Int)) : Option (List (Int × Int)) × Option Int × Option Int :=
  (some t.2.2, t.2.1, some t.1)

/-- the variables of `store_info`'s row loop: `rowStep` keeps them as `(scffld, nextOid, prev)`, the translated loop carries
    them in the canonical order `(prev, nextOid, scffld)` -/
def absRow (t : Scaffold × Nat × (Int × Int)) : (Int × Int) × Nat × Scaffold := (t.2.2, t.2.1, t.1)

/-! ### small run-time facts -/

theorem ok_bind {α β : Type} (a : α) (f : α → R β) : (Except.ok a >>= f) = f a := rfl
theorem error_bind {α β : Type} (e : Err) (f : α → R β) : ((Except.error e : R α) >>= f) = .error e := rfl
theorem map_ok {α β : Type} (a : α) (f : α → β) : Except.map f (Except.ok a : R α) = .ok (f a) := rfl
theorem map_error {α β : Type} (e : Err) (f : α → β) : Except.map f (Except.error e : R α) = .error e := rfl

/-- what follows an `if` statement whose branches both fall through -/
theorem ite_ok_bind {α β : Type} (c : Prop) [Decidable c] (a b : α) (f : α → R β) :
    ((if c then (Except.ok a : R α) else Except.ok b) >>= f) = f (if c then a else b) := by
  by_cases h : c
  · rw [if_pos h, if_pos h]; rfl
  · rw [if_neg h, if_neg h]; rfl

@[simp] theorem pyGet_zero_nil {α : Type} : pyGet ([] : List α) 0 = .error .index := by
  simp [pyGet]

@[simp] theorem pyGet_zero_cons {α : Type} (x : α) (l : List α) : pyGet (x :: l) 0 = .ok x := by
  simp only [pyGet, List.length_cons]
  rw [if_neg (by omega), if_neg (by omega)]
  rfl

/-- `l[-1]` of a non-empty list is its last element -/
theorem pyGet_neg_one {α : Type} (l : List α) (h : l ≠ []) :
    ∃ x, l.getLast? = some x ∧ pyGet l (-1) = .ok x := by
  have hlen : 0 < l.length := List.length_pos_iff.mpr h
  refine ⟨l.getLast h, List.getLast?_eq_some_getLast h, ?_⟩
  have hneg : ((-1 : Int) < 0) := by omega
  simp only [pyGet, hneg, if_true]
  rw [if_neg (by omega)]
  have : (-1 + (l.length : Int)).toNat = l.length - 1 := by omega
  rw [this, List.getLast_eq_getElem, List.getElem?_eq_getElem (by omega)]

@[simp] theorem slice_one_none_cons {α : Type} (x : α) (l : List α) : PyRt.slice (x :: l) (some 1) none = l := by
  simp [PyRt.slice, PyRt.clampIdx]

/-- `line[:-k]` for `k > 0` -/
theorem slice_none_neg {α : Type} (l : List α) (k : Int) (hk : 0 < k) :
    PyRt.slice l none (some (-k)) = l.take (l.length - k.toNat) := by
  have hneg : -k < 0 := by omega
  simp only [PyRt.slice, PyRt.clampIdx, List.drop_zero, Nat.sub_zero, hneg, if_true]
  split
  · have : l.length - k.toNat = 0 := by omega
    rw [this]
  · congr 1; omega

theorem needInt_some (i : Int) : PyRt.needInt (some i) = .ok i := rfl
theorem needInt_none : PyRt.needInt none = .error .type := rfl
theorem needObj_some {α : Type} (x : α) : PyRt.needObj (some x) = .ok x := rfl
theorem needIter_some {α : Type} (x : List α) : PyRt.needIter (some x) = .ok x := rfl

/-- `seq_buffer.write(seq)` with the cursor at the end appends -/
theorem write_at_end (d x : List Nat) :
    PyRt.BytesIO.write { data := d, pos := d.length } x = { data := d ++ x, pos := (d ++ x).length } := by
  simp [PyRt.BytesIO.write]

/-- `seq_buffer.seek(0); seq_buffer.truncate(0)` -/
theorem seek_truncate (b : PyRt.BytesIO) : (b.seek 0).truncate 0 = { data := [], pos := ([] : List Nat).length } := by
  simp [PyRt.BytesIO.seek, PyRt.BytesIO.truncate]

theorem dSet_of_none {κ ν : Type} [DecidableEq κ] (d : List (κ × ν)) (k : κ) (v : ν) (h : dGet? d k = none) :
    dSet d k v = d ++ [(k, v)] := by
  induction d with
  | nil => rfl
  | cons kv d ih =>
    obtain ⟨k', v'⟩ := kv
    simp only [dGet?] at h
    by_cases hk : k' = k
    · simp [hk] at h
    · simp only [hk, if_false] at h
      simp only [dSet, hk, if_false, ih h, List.cons_append]

/-! ### `line[1:].split()[0]` -/

theorem isBWs_eq : PyRt.isBWs = isBSpace := rfl

/-- the model's header token: skip blanks, take non-blanks -/
def firstTok (l : Bytes) : Bytes := (l.dropWhile isBSpace).takeWhile (fun b => !isBSpace b)

theorem ite_cons_ne_nil {α : Type} (c : Prop) [Decidable c] (a b : α) (x y : List α) :
    (if c then a :: x else b :: y) ≠ [] := by
  by_cases h : c
  · rw [if_pos h]; simp
  · rw [if_neg h]; simp

theorem bytesSplitWs_cons_nonws (c : Nat) (cs : Bytes) (h : isBSpace c = false) : PyRt.bytesSplitWs (c :: cs) ≠ [] := by
  simp only [PyRt.bytesSplitWs, isBWs_eq, h, Bool.false_eq_true, if_false]
  cases PyRt.bytesSplitWs cs with
  | nil => simp
  | cons w ws =>
    apply ite_cons_ne_nil

theorem bytesSplitWs_firstTok (l : Bytes) :
    (PyRt.bytesSplitWs l = [] ∧ firstTok l = []) ∨ ∃ ws, PyRt.bytesSplitWs l = firstTok l :: ws ∧ firstTok l ≠ [] := by
  induction l with
  | nil => left; exact ⟨rfl, rfl⟩
  | cons c cs ih =>
    by_cases hc : isBSpace c = true
    · have h1 : PyRt.bytesSplitWs (c :: cs) = PyRt.bytesSplitWs cs := by
        simp [PyRt.bytesSplitWs, isBWs_eq, hc]
      have h2 : firstTok (c :: cs) = firstTok cs := by
        simp [firstTok, hc]
      rw [h1, h2]; exact ih
    · have hc' : isBSpace c = false := by simpa using hc
      right
      have h2 : firstTok (c :: cs) = c :: cs.takeWhile (fun b => !isBSpace b) := by
        simp [firstTok, hc']
      rw [h2]
      cases cs with
      | nil => exact ⟨[], by simp [PyRt.bytesSplitWs, isBWs_eq, hc'], by simp⟩
      | cons d ds =>
        by_cases hd : isBSpace d = true
        · -- the token ends here
          have htw : (d :: ds).takeWhile (fun b => !isBSpace b) = [] := by simp [hd]
          rw [htw]
          rcases ih with ⟨e, _⟩ | ⟨ws, e, _⟩
          · exact ⟨[], by simp only [PyRt.bytesSplitWs, isBWs_eq, hc', Bool.false_eq_true, if_false] at e ⊢; simp [e], by simp⟩
          · refine ⟨firstTok (d :: ds) :: ws, ?_, by simp⟩
            rw [PyRt.bytesSplitWs]
            simp only [isBWs_eq, hc', Bool.false_eq_true, if_false, e, hd, if_true]
        · have hd' : isBSpace d = false := by simpa using hd
          rcases ih with ⟨e, _⟩ | ⟨ws, e, _⟩
          · exact absurd e (bytesSplitWs_cons_nonws d ds hd')
          · have hft : firstTok (d :: ds) = (d :: ds).takeWhile (fun b => !isBSpace b) := by
              simp [firstTok, hd']
            refine ⟨ws, ?_, by simp⟩
            rw [PyRt.bytesSplitWs]
            simp only [isBWs_eq, hc', Bool.false_eq_true, if_false, e, hd', hft]

/-- `line[1:].split()[0]`: IndexError when there is no token, the model's token otherwise -/
theorem pyGet_split_zero (l : Bytes) :
    pyGet (PyRt.bytesSplitWs l) 0 = if (firstTok l).isEmpty then .error .index else .ok (firstTok l) := by
  rcases bytesSplitWs_firstTok l with ⟨e, h⟩ | ⟨ws, e, h⟩
  · rw [e, h]; rfl
  · rw [e, pyGet_zero_cons]
    cases hft : firstTok l with
    | nil => exact absurd hft h
    | cons _ _ => rfl

/-- `.decode()` keeps the length -/
theorem bytesToStr_isEmpty {tok : Bytes} {name : Str} (h : bytesToStr tok = .ok name) : name.isEmpty = tok.isEmpty := by
  unfold bytesToStr at h
  split at h
  · cases h; cases tok <;> rfl
  · cases h

/-! ### `process_seq_buffer`: the region triple -/

abbrev RegState := Int × Option Int × List (Int × Int)

/-- an open region and all closed ones are non-empty intervals (so `Fragment(name, start + 1, end, 1)` is accepted) -/
def RegInv (t : RegState) : Prop := (∀ r, t.2.1 = some r → t.1 < r) ∧ ∀ p ∈ t.2.2, p.1 < p.2

theorem mergeRun_inv (L : Int) (t : RegState) (run : Nat × Nat) (h : RegInv t) (hr : run.1 < run.2) :
    RegInv (mergeRun L t run) := by
  obtain ⟨rs, re, regs⟩ := t
  obtain ⟨h1, h2⟩ := h
  simp only at h1 h2
  unfold mergeRun
  simp only
  split
  · next heq =>
    refine ⟨?_, h2⟩
    intro r hr'
    simp only [Option.some.injEq] at hr'
    have := h1 _ heq
    omega
  · refine ⟨?_, ?_⟩
    · intro r hr'
      simp only [Option.some.injEq] at hr'
      omega
    · intro p hp
      simp only at hp
      cases re with
      | none => exact h2 p hp
      | some r =>
        simp only at hp
        split at hp
        · rcases List.mem_append.mp hp with hp | hp
          · exact h2 p hp
          · simp only [List.mem_singleton] at hp
            subst hp
            exact h1 r rfl
        · exact h2 p hp

theorem foldl_mergeRun_inv (L : Int) (runs : List (Nat × Nat)) (hruns : ∀ r ∈ runs, r.1 < r.2) :
    ∀ t, RegInv t → RegInv (runs.foldl (mergeRun L) t) := by
  induction runs with
  | nil => intro t h; exact h
  | cons r rs ih =>
    intro t h
    exact ih (fun x hx => hruns x (List.mem_cons_of_mem _ hx)) _
      (mergeRun_inv L t r h (hruns r (List.mem_cons_self ..)))

theorem acgtRuns_pos (b : Bytes) : ∀ r ∈ acgtRuns 0 none b, r.1 < r.2 := by
  intro r hr
  have h := C04.acgtRuns_shape b 0 none
  exact ((C04.RunsIn.pairwise h).2 r hr).2.1

/-- `if region_end: seq_regions.append((region_start, region_end))` -/
def closeReg (t : RegState) : List (Int × Int) :=
  match t.2.1 with
  | some r => if r ≠ 0 then t.2.2 ++ [(t.1, r)] else t.2.2
  | none => t.2.2

theorem closeReg_lt (t : RegState) (h : RegInv t) : ∀ p ∈ closeReg t, p.1 < p.2 := by
  obtain ⟨rs, re, regs⟩ := t
  intro p hp
  unfold closeReg at hp
  cases re with
  | none => exact h.2 p hp
  | some r =>
    simp only at hp
    split at hp
    · rcases List.mem_append.mp hp with hp | hp
      · exact h.2 p hp
      · simp only [List.mem_singleton] at hp
        subst hp
        exact h.1 r rfl
    · exact h.2 p hp

/-! ### `store_info`: the row loop -/

theorem gapType_eq : ("scaffold".toList : Str) = Gen.fastaGapType := by decide

/-- one pass of `for region in seq_regions:` on `(scffld, nextOid, prev)` -/
def rowStep (name : Str) (t : Scaffold × Nat × (Int × Int)) (region : Int × Int) : Scaffold × Nat × (Int × Int) :=
  let sc : Scaffold :=
    if region.1 ≠ t.2.2.2 then
      { t.1 with rows := t.1.rows ++ [Row.gap { length := region.1 - t.2.2.2, gapType := Gen.fastaGapType }] }
    else t.1
  ({ sc with rows := sc.rows ++ [Row.frag { oid := t.2.1, name := name, start := region.1 + 1, stop := region.2,
                                             strand := 1, tags := [] }] }, t.2.1 + 1, region)

theorem mkFragment_ok (oid : Nat) (name : Str) (s e : Int) (h : s < e) :
    mkFragment oid name (s + 1) e 1 [] = .ok { oid := oid, name := name, start := s + 1, stop := e, strand := 1, tags := [] } := by
  unfold mkFragment
  rw [if_neg (by decide), if_neg (by omega)]

theorem foldl_rowStep (name : Str) (regs : List (Int × Int)) :
    ∀ (sc : Scaffold) (oid : Nat) (prev : Int × Int),
      (regs.foldl (rowStep name) (sc, oid, prev)).1 = { sc with rows := sc.rows ++ (regionRows name oid prev.2 regs).1 } ∧
      (regs.foldl (rowStep name) (sc, oid, prev)).2.1 = (regionRows name oid prev.2 regs).2.1 ∧
      (regs.foldl (rowStep name) (sc, oid, prev)).2.2.2 = (regionRows name oid prev.2 regs).2.2 := by
  induction regs with
  | nil => intro sc oid prev; simp [regionRows]
  | cons r rest ih =>
    intro sc oid prev
    obtain ⟨s, e⟩ := r
    simp only [List.foldl_cons, regionRows]
    obtain ⟨h1, h2, h3⟩ := ih (rowStep name (sc, oid, prev) (s, e)).1 (oid + 1) (s, e)
    have hstep : rowStep name (sc, oid, prev) (s, e) = ((rowStep name (sc, oid, prev) (s, e)).1, oid + 1, (s, e)) := rfl
    rw [hstep, h1, h2, h3]
    refine ⟨?_, rfl, rfl⟩
    simp only [rowStep]
    by_cases hs : s ≠ prev.2
    · simp only [hs, if_true, ne_eq, not_false_eq_true, List.append_assoc]
    · simp only [hs, if_false, List.append_assoc, List.nil_append]

/-! ### the model side in the shape of the source -/

theorem processSeqBuffer_eq (st : IdxState) : processSeqBuffer st =
    { st with
      regionStart := ((acgtRuns 0 none st.buffer).foldl (mergeRun st.seqLength) (st.regionStart, st.regionEnd, st.seqRegions)).1,
      regionEnd := ((acgtRuns 0 none st.buffer).foldl (mergeRun st.seqLength) (st.regionStart, st.regionEnd, st.seqRegions)).2.1,
      seqRegions := ((acgtRuns 0 none st.buffer).foldl (mergeRun st.seqLength) (st.regionStart, st.regionEnd, st.seqRegions)).2.2,
      seqLength := st.seqLength + st.buffer.length, buffer := [] } := rfl

/-- the state `store_info()` leaves, given the region triple `t` that `process_seq_buffer()` computed -/
def stored (st : IdxState) (t : RegState) : IdxState :=
  let name := st.name.getD []
  let L := st.seqLength + st.buffer.length
  let rr := regionRows name st.nextOid 0 (closeReg t)
  { st with
    regionStart := t.1, regionEnd := t.2.1, seqLength := L, buffer := [],
    seqRegions := closeReg t,
    idx := st.idx ++ [(name, { length := L, fileOffset := st.fileOffset, rpl := st.rpl.getD 0,
                               mll := st.rpl.getD 0 + st.lineEndBytes })],
    scaffolds := st.scaffolds ++ [{ name := name, rows := if L - rr.2.2 ≠ 0 then rr.1 ++ [Row.gap { length := L - rr.2.2, gapType := Gen.fastaGapType }] else rr.1 }],
    nextOid := rr.2.1 }

theorem storeInfo_eq (st : IdxState) : storeInfo st =
    if (dGet? st.idx (st.name.getD [])).isSome then .error .value
    else .ok (stored st ((acgtRuns 0 none st.buffer).foldl (mergeRun st.seqLength) (st.regionStart, st.regionEnd, st.seqRegions))) := by
  unfold storeInfo
  rw [processSeqBuffer_eq]
  generalize (acgtRuns 0 none st.buffer).foldl (mergeRun st.seqLength) (st.regionStart, st.regionEnd, st.seqRegions) = t
  obtain ⟨rs, re, regs⟩ := t
  simp only [bind, Except.bind, pure, Except.pure, dHas]
  by_cases hd : (dGet? st.idx (st.name.getD [])).isSome = true
  · simp only [hd, if_true]; rfl
  · simp only [hd, Bool.false_eq_true, if_false]
    rfl

/-! ### the invariant -/

structure Inv (st : IdxState) : Prop where
  nameNe : ∀ n, st.name = some n → n ≠ []
  rplSome : ∀ n, st.name = some n → ∃ r, st.rpl = some r
  lebPos : ∀ n, st.name = some n → 0 < st.lineEndBytes
  reg : RegInv (st.regionStart, st.regionEnd, st.seqRegions)

theorem inv_init : Inv {} := by
  refine ⟨?_, ?_, ?_, ⟨?_, ?_⟩⟩ <;> intro _ h <;> cases h

theorem Inv.fold {st : IdxState} (h : Inv st) :
    RegInv ((acgtRuns 0 none st.buffer).foldl (mergeRun st.seqLength) (st.regionStart, st.regionEnd, st.seqRegions)) :=
  foldl_mergeRun_inv _ _ (acgtRuns_pos _) _ h.reg

theorem Inv.processSeqBuffer {st : IdxState} (h : Inv st) : Inv (processSeqBuffer st) := by
  rw [processSeqBuffer_eq]
  exact ⟨h.nameNe, h.rplSome, h.lebPos, h.fold⟩

theorem Inv.pos {st : IdxState} (h : Inv st) (p : Int) : Inv { st with pos := p } :=
  ⟨h.nameNe, h.rplSome, h.lebPos, h.reg⟩

/-! ### one line, model side -/

/-- `seq = line[:-line_end_bytes] if line[-1] == 10 else line` -/
def keepOf (leb : Int) (line : Bytes) : Bytes :=
  if line.getLast? = some 10 then line.take (line.length - leb.toNat) else line

/-- `residues_per_line`, `seq_buffer.write(seq)`, `fh.tell()` -/
def addKeep (st : IdxState) (n : Nat) (keep : Bytes) (r : Int) : IdxState :=
  { st with pos := st.pos + n, rpl := some (if r = 0 then (keep.length : Int) else r), buffer := st.buffer ++ keep,
            maxBuffered := max st.maxBuffered (st.buffer ++ keep).length }

/-- a sequence line inside a record -/
theorem indexLine_residue (bs : Int) (st : IdxState) (b0 : Nat) (tl : Bytes) (r : Int) (n : Str)
    (hb : b0 ≠ 62) (hr : st.rpl = some r) (hn : st.name = some n) :
    indexLine bs st (b0 :: tl) = .ok
      (if (((st.buffer ++ keepOf st.lineEndBytes (b0 :: tl)).length : Nat) : Int) > bs
        then processSeqBuffer (addKeep st (b0 :: tl).length (keepOf st.lineEndBytes (b0 :: tl)) r)
        else addKeep st (b0 :: tl).length (keepOf st.lineEndBytes (b0 :: tl)) r) := by
  unfold indexLine
  simp only [pyGet_zero_cons, hr, hn, bind, Except.bind, pure, Except.pure, hb, if_false, keepOf, addKeep]
  by_cases h0 : r = 0 <;> by_cases hl : (b0 :: tl).getLast? = some 10 <;>
    simp only [h0, hl, if_true, if_false] <;> split <;> rfl

/-- a terminated sequence line before any header, nothing buffered before: `line[:-None]` -/
theorem indexLine_pre_term (bs : Int) (st : IdxState) (b0 : Nat) (tl : Bytes)
    (hb : b0 ≠ 62) (hr : st.rpl = none) (hl : (b0 :: tl).getLast? = some 10) :
    indexLine bs st (b0 :: tl) = .error .type := by
  unfold indexLine
  simp only [pyGet_zero_cons, hr, bind, Except.bind, hb, if_false, hl, if_true]
  rfl

/-- an unterminated sequence line before any header -/
theorem indexLine_pre_open (bs : Int) (st : IdxState) (b0 : Nat) (tl : Bytes)
    (hb : b0 ≠ 62) (hn : st.name = none) (hl : (b0 :: tl).getLast? ≠ some 10) :
    indexLine bs st (b0 :: tl) =
      if (((st.buffer ++ (b0 :: tl)).length : Nat) : Int) > bs then .error .type
      else .ok (addKeep st (b0 :: tl).length (b0 :: tl) (st.rpl.getD 0)) := by
  unfold indexLine
  simp only [pyGet_zero_cons, hn, bind, Except.bind, pure, Except.pure, hb, if_false, hl, addKeep]
  cases hr : st.rpl with
  | none =>
    simp only [Option.getD_none, if_true]
    split <;> rfl
  | some r =>
    by_cases h0 : r = 0
    · simp only [h0, Option.getD_some, if_true]; split <;> rfl
    · simp only [h0, Option.getD_some, if_false]; split <;> rfl

/-- what a header line does after the previous record was stored -/
def headerPart (line : Bytes) (st : IdxState) : R IdxState :=
  if (firstTok (line.drop 1)).isEmpty then .error .index
  else bytesToStr (firstTok (line.drop 1)) >>= fun name =>
    pyGet line (-2) >>= fun b2 =>
    .ok { st with name := some name, seqLength := 0, rpl := some 0, regionStart := 0, regionEnd := none,
                  seqRegions := [], fileOffset := st.pos, lineEndBytes := if b2 = 13 then 2 else 1 }

theorem indexLine_header (bs : Int) (st : IdxState) (tl : Bytes) :
    indexLine bs st (62 :: tl) =
      (if st.name.isSome then storeInfo { st with pos := st.pos + (62 :: tl).length }
        else .ok { st with pos := st.pos + (62 :: tl).length }) >>= headerPart (62 :: tl) := by
  unfold indexLine headerPart firstTok
  simp only [pyGet_zero_cons, bind, Except.bind, pure, Except.pure, if_true, List.drop_succ_cons, List.drop_zero]
  by_cases hn : st.name.isSome = true
  · simp only [hn, if_true]
    cases storeInfo _ with
    | error e => rfl
    | ok v => dsimp only; split <;> rfl
  · simp only [hn, Bool.false_eq_true, if_false]
    split <;> rfl

/-! ### where model and source agree: the part of the file before the first header

  Before any header the source's `line_end_bytes` is `None`, so `line[:-line_end_bytes]` raises TypeError for every
  LF-terminated sequence line.  The model raises it only while `residues_per_line` is still `None`, i.e. for the FIRST
  sequence line; after an unterminated header-less line (which sets `residues_per_line`) it accepts a terminated one.
  Binary file iteration never yields that (only the last line of a file can be unterminated). -/

/-- after a header-less unterminated line: up to the first header (or empty line) no LF-terminated sequence line follows -/
def safeB : List Bytes → Bool
  | [] => true
  | l :: ls =>
    match l with
    | [] => true
    | b :: _ => if b = 62 then true else if l.getLast? = some 10 then false else safeB ls

/-- the lines before the first header: a header-less unterminated line is not followed by an LF-terminated sequence line -/
def preHeaderOk : List Bytes → Bool
  | [] => true
  | l :: ls =>
    match l with
    | [] => true
    | b :: _ => if b = 62 then true else if l.getLast? = some 10 then true else safeB ls

/-- what `for line in fh` yields: every line but the last ends with LF -/
def Terminated (lines : List Bytes) : Prop := ∀ l ∈ lines.dropLast, l.getLast? = some 10

theorem Terminated.tail {l : Bytes} {ls : List Bytes} (h : Terminated (l :: ls)) : Terminated ls := by
  intro x hx
  cases ls with
  | nil => simp at hx
  | cons y ys => exact h x (by rw [List.dropLast_cons_cons]; exact List.mem_cons_of_mem _ hx)

theorem Terminated.head {l y : Bytes} {ys : List Bytes} (h : Terminated (l :: y :: ys)) : l.getLast? = some 10 :=
  h l (by rw [List.dropLast_cons_cons]; exact List.mem_cons_self ..)

theorem terminated_single (l : Bytes) : Terminated [l] := by
  intro x hx; simp at hx

theorem terminated_cons_cons (l y : Bytes) (ys : List Bytes) :
    Terminated (l :: y :: ys) ↔ l.getLast? = some 10 ∧ Terminated (y :: ys) := by
  simp [Terminated, List.dropLast_cons_cons]

/-- binary file iteration (`bLines`) yields lines that all end with LF, except possibly the last -/
theorem bLines_terminated (file : Bytes) : Terminated (bLines file) := by
  induction file with
  | nil => intro x hx; simp [bLines] at hx
  | cons c cs ih =>
    by_cases hc : c = 10
    · subst hc
      simp only [bLines, if_true]
      cases hb : bLines cs with
      | nil => exact terminated_single _
      | cons y ys => rw [hb] at ih; exact (terminated_cons_cons _ _ _).mpr ⟨rfl, ih⟩
    · simp only [bLines, hc, if_false]
      cases hb : bLines cs with
      | nil => exact terminated_single _
      | cons l ls =>
        rw [hb] at ih
        cases ls with
        | nil => exact terminated_single _
        | cons y ys =>
          obtain ⟨h1, h2⟩ := (terminated_cons_cons _ _ _).mp ih
          refine (terminated_cons_cons _ _ _).mpr ⟨?_, h2⟩
          cases l with
          | nil => simp at h1
          | cons d ds => rw [List.getLast?_cons_cons]; exact h1

theorem preHeaderOk_of_terminated (lines : List Bytes) (h : Terminated lines) : preHeaderOk lines = true := by
  cases lines with
  | nil => rfl
  | cons l ls =>
    cases l with
    | nil => rfl
    | cons b tl =>
      simp only [preHeaderOk]
      by_cases hb : b = 62
      · simp [hb]
      · simp only [hb, if_false]
        by_cases hl : (b :: tl).getLast? = some 10
        · simp [hl]
        · simp only [hl, if_false]
          cases ls with
          | nil => rfl
          | cons y ys => exact absurd h.head hl

/-- the loop invariant: `Inv`, and in the header-less part of the file the rest of the lines is of the agreed shape -/
def InvL (st : IdxState) (rest : List Bytes) : Prop :=
  Inv st ∧ (st.name = none → (st.rpl = none → preHeaderOk rest = true) ∧ (st.rpl ≠ none → safeB rest = true))

theorem invL_init (lines : List Bytes) (h : preHeaderOk lines = true) : InvL {} lines :=
  ⟨inv_init, fun _ => ⟨fun _ => h, fun h' => absurd rfl h'⟩⟩

theorem Inv.stored {st : IdxState} (h : Inv st) (t : RegState) (ht : RegInv t) : Inv (stored st t) :=
  ⟨h.nameNe, h.rplSome, h.lebPos, ⟨ht.1, closeReg_lt t ht⟩⟩

theorem Inv.storeInfo {st st' : IdxState} (h : Inv st) (e : storeInfo st = .ok st') : Inv st' := by
  rw [storeInfo_eq] at e
  split at e
  · cases e
  · cases e; exact h.stored _ h.fold

theorem inv_headerPart {line : Bytes} {st st' : IdxState} (e : headerPart line st = .ok st') :
    Inv st' ∧ st'.name.isSome = true := by
  unfold headerPart at e
  split at e
  · cases e
  · next htok =>
    cases hs : bytesToStr (firstTok (line.drop 1)) with
    | error err => rw [hs] at e; cases e
    | ok name =>
      cases hb : pyGet line (-2) with
      | error err => rw [hs, hb] at e; cases e
      | ok b2 =>
        rw [hs, hb] at e
        simp only [ok_bind, Except.ok.injEq] at e
        subst e
        have hne : name ≠ [] := by
          intro hnil
          have := bytesToStr_isEmpty hs
          rw [hnil] at this
          exact htok this.symm
        refine ⟨⟨?_, ?_, ?_, ⟨?_, ?_⟩⟩, rfl⟩
        · intro n hn; simp only [Option.some.injEq] at hn; subst hn; exact hne
        · intro n _; exact ⟨0, rfl⟩
        · intro n _; simp only; split <;> decide
        · intro r hr; cases hr
        · intro p hp; cases hp

theorem invL_of_isSome {st : IdxState} (h : Inv st) (hs : st.name.isSome = true) (rest : List Bytes) : InvL st rest :=
  ⟨h, fun hn => by rw [hn] at hs; cases hs⟩

/-- one line keeps the invariant -/
theorem invL_step (bs : Int) {st st' : IdxState} {line : Bytes} {rest : List Bytes}
    (h : InvL st (line :: rest)) (e : indexLine bs st line = .ok st') : InvL st' rest := by
  obtain ⟨hI, hsafe⟩ := h
  cases line with
  | nil => simp [indexLine, bind, Except.bind] at e
  | cons b0 tl =>
    by_cases hb : b0 = 62
    · subst hb
      rw [indexLine_header] at e
      cases hst : (if st.name.isSome then storeInfo { st with pos := st.pos + (62 :: tl).length }
          else .ok { st with pos := st.pos + (62 :: tl).length }) with
      | error err => rw [hst] at e; cases e
      | ok st2 =>
        rw [hst, ok_bind] at e
        obtain ⟨h1, h2⟩ := inv_headerPart e
        exact invL_of_isSome h1 h2 rest
    · cases hn : st.name with
      | some n =>
        obtain ⟨r, hr⟩ := hI.rplSome n hn
        rw [indexLine_residue bs st b0 tl r n hb hr hn] at e
        simp only [Except.ok.injEq] at e
        subst e
        have hak : Inv (addKeep st (b0 :: tl).length (keepOf st.lineEndBytes (b0 :: tl)) r) :=
          ⟨hI.nameNe, fun _ _ => ⟨_, rfl⟩, hI.lebPos, hI.reg⟩
        have hname : (addKeep st (b0 :: tl).length (keepOf st.lineEndBytes (b0 :: tl)) r).name.isSome = true := by
          simp [addKeep, hn]
        split
        · refine invL_of_isSome hak.processSeqBuffer ?_ rest
          rw [processSeqBuffer_eq]; exact hname
        · exact invL_of_isSome hak hname rest
      | none =>
        obtain ⟨hA, hB⟩ := hsafe hn
        by_cases hl : (b0 :: tl).getLast? = some 10
        · cases hr : st.rpl with
          | none => rw [indexLine_pre_term bs st b0 tl hb hr hl] at e; cases e
          | some r =>
            have := hB (by rw [hr]; simp)
            simp [safeB, hb, hl] at this
        · rw [indexLine_pre_open bs st b0 tl hb hn hl] at e
          split at e
          · cases e
          · simp only [Except.ok.injEq] at e
            subst e
            refine ⟨⟨?_, ?_, ?_, hI.reg⟩, ?_⟩
            · intro n hn'; simp [addKeep, hn] at hn'
            · intro n hn'; simp [addKeep, hn] at hn'
            · intro n hn'; simp [addKeep, hn] at hn'
            · intro _
              refine ⟨fun hr' => by simp [addKeep] at hr', fun _ => ?_⟩
              cases hr : st.rpl with
              | none =>
                have := hA hr
                simpa [preHeaderOk, hb, hl] using this
              | some r =>
                have := hB (by rw [hr]; simp)
                simpa [safeB, hb, hl] using this

/-! ### pieces of the translated text -/

/-- `if region_end: seq_regions.append((region_start, region_end))` in the translated form: `c` is the truthiness test,
    `x` the `append` with its `None` checks -/
theorem ite_closeReg {c : Prop} [Decidable c] (rs : Int) (re : Option Int) (regs : List (Int × Int))
    (x : R (Option (List (Int × Int)))) (hc : c ↔ ∃ v, re = some v ∧ v ≠ 0)
    (hx : ∀ v, re = some v → v ≠ 0 → x = .ok (some (regs ++ [(rs, v)]))) :
    (if c then x else .ok (some regs)) = .ok (some (closeReg (rs, re, regs))) := by
  by_cases h : c
  · obtain ⟨v, hv, hv0⟩ := hc.mp h
    rw [if_pos h, hx v hv hv0, hv]
    simp [closeReg, hv0]
  · rw [if_neg h]
    cases re with
    | none => rfl
    | some v =>
      by_cases hv0 : v = 0
      · subst hv0; rfl
      · exact absurd (hc.mpr ⟨v, rfl, hv0⟩) h

/-- `if rem := …: scffld.add_row(Gap(rem, "scaffold"))` -/
theorem ite_scaffold (c : Prop) [Decidable c] (n : Str) (a b : List Row) :
    (if decide c = true then ({ name := n, rows := a } : Scaffold) else { name := n, rows := b }) =
      { name := n, rows := if c then a else b } := by
  by_cases h : c <;> simp [h]

/-- a loop whose body raises `e` on every element, followed by code that raises `e` too -/
theorem forIn_bind_error {α σ ρ β : Type} (e : Err) (xs : List α) (s : σ) (body : α → σ → R (Ctl σ ρ)) (k : Done σ ρ → R β)
    (hb : ∀ x s, body x s = .error e) (hk : ∀ s, k (.fell s) = .error e) : (PyRt.forIn xs s body >>= k) = .error e := by
  cases xs with
  | nil => exact hk s
  | cons x xs => rw [PyRt.forIn, hb]; rfl

/-- the body of `process_seq_buffer`'s loop, on the region triple, is `mergeRun` (`L` = the current `seq_length`) -/
macro "proc_body" L:term : tactic => `(tactic| (
  intro m _ t
  obtain ⟨rs, re, regs⟩ := t
  simp only [absReg, mergeRun, ok_bind, needInt_some, needObj_some, Int.ofNat_eq_natCast]
  by_cases h1 : re = some ($L + (m.fst : Int))
  · subst h1; simp only [decide_true, if_true, ok_bind]
  · have h1' : ¬ some ($L + (m.fst : Int)) = re := fun h => h1 h.symm
    cases re with
    | none => simp [ok_bind]
    | some v =>
      have h2 : ¬ v = $L + (m.fst : Int) := fun h => h1 (by rw [h])
      have h2' : ¬ $L + (m.fst : Int) = v := fun h => h2 h.symm
      by_cases hv : v = 0
      · subst hv; simp [h2, h2', ok_bind]
      · simp [h2, h2', hv, ok_bind, needInt_some]))

/-- the body of `store_info`'s row loop is `rowStep` (`hcl`: every region is a non-empty interval) -/
macro "row_body" hcl:term : tactic => `(tactic| (
  intro region hmem t
  obtain ⟨sc, oid, prev⟩ := t
  have hlt := $hcl region hmem
  -- the loop variable may be bound whole (`for region in …: start, end = region`) or by a tuple pattern
  -- (`for start, end in …`): destructure it, so that `region.1` and `match region with | (s, e) => …` both compute
  obtain ⟨rstart, rend⟩ := region
  replace hlt : rstart < rend := hlt
  simp only [absRow, rowStep, mkFragment_ok _ _ _ _ hlt, ok_bind, ite_ok_bind, gapType_eq]
  by_cases hg : rstart = prev.snd <;> simp [hg]))

/-- `name = line[1:].split()[0].decode()` … `line_end_bytes = 2 if line[-2] == 13 else 1`, against `headerPart` -/
macro "header_tail" tl:term : tactic => `(tactic| (
  cases htok : (firstTok $tl).isEmpty with
  | true => simp only [headerPart, List.drop_succ_cons, List.drop_zero, htok, if_true, error_bind, map_error]
  | false =>
    cases hstr : bytesToStr (firstTok $tl) with
    | error e =>
      simp only [headerPart, List.drop_succ_cons, List.drop_zero, htok, hstr, Bool.false_eq_true, if_false, error_bind, ok_bind,
        map_error]
    | ok name =>
      have hne : name.isEmpty = false := by rw [bytesToStr_isEmpty hstr]; exact htok
      cases hb2 : pyGet (62 :: $tl) (-2) with
      | error e =>
        simp only [headerPart, List.drop_succ_cons, List.drop_zero, htok, hstr, hne, hb2, Bool.false_eq_true, if_false, error_bind,
          ok_bind, map_error, Bool.not_false, Bool.not_true]
      | ok b2 =>
        simp only [headerPart, List.drop_succ_cons, List.drop_zero, htok, hstr, hne, hb2, Bool.false_eq_true, if_false, error_bind,
          ok_bind, map_ok, Bool.not_false, Bool.not_true, toSrc, SrcState.pack, stored, Option.getD_some, ite_scaffold]
        by_cases h13 : b2 = 13
        · subst h13; all_goals rfl
        · have : ¬ Int.ofNat b2 = 13 := by simp; omega
          simp only [h13, this, decide_false, Bool.false_eq_true, if_false]
          all_goals rfl))

/-! ### the whole function, source against model -/

theorem invL_final (bs : Int) : ∀ (lines : List Bytes) (st st' : IdxState), InvL st lines →
    lines.foldlM (indexLine bs) st = .ok st' → Inv st' := by
  intro lines
  induction lines with
  | nil =>
    intro st st' h e
    simp only [List.foldlM_nil, pure, Except.pure, Except.ok.injEq] at e
    subst e; exact h.1
  | cons l ls ih =>
    intro st st' h e
    rw [List.foldlM_cons] at e
    cases hst : indexLine bs st l with
    | error err => rw [hst] at e; cases e
    | ok st1 =>
      rw [hst] at e
      exact ih st1 st' (invL_step bs h hst) e

theorem indexFasta_eq (lines : List Bytes) (bs : Int) :
    indexFasta lines bs =
      lines.foldlM (indexLine bs) {} >>= fun st =>
        (if st.name.isSome then storeInfo st else .ok st) >>= fun st =>
          if st.idx.isEmpty then .error .value else .ok st := by
  unfold indexFasta
  cases lines.foldlM (indexLine bs) {} with
  | error e => rfl
  | ok st =>
    simp only [ok_bind]
    by_cases h : st.name.isSome = true
    · simp only [h, if_true]; rfl
    · simp only [h, Bool.false_eq_true, if_false]; rfl

theorem isEmpty_snoc {α : Type} (l : List α) (x : α) : (l ++ [x]).isEmpty = false := by
  cases l <;> rfl

/-- the strong form of the tie: all four components of the source's result -/
theorem index_fasta_file_imp_eq (bs : Int) (lines : List Bytes) (h0 : preHeaderOk lines = true) :
    Gen.Imp.index_fasta_file_imp 0 bs lines =
      (indexFasta lines bs).map (fun st => (st.nextOid, st.idx, st.pos, st.scaffolds)) := by
  unfold Gen.Imp.index_fasta_file_imp
  simp only []
  have key := forIn_abs (ρ := Nat × List (Str × FastaInfo) × Int × List Scaffold) toSrc (indexLine bs) InvL
  rw [(key _ ?hstep lines {} _ ?hs (invL_init lines h0)).1]
  case hs => rfl
  case hstep =>
    intro line rest st hinv
    refine ⟨?_, fun t' e => invL_step bs hinv e⟩
    obtain ⟨hI, hsafe⟩ := hinv
    cases line with
    | nil =>
      have : indexLine bs st [] = .error .index := by simp [indexLine, bind, Except.bind]
      rw [this]
      simp only [pyGet_zero_nil, map_error, error_bind]
    | cons b0 tl =>
      by_cases hb : b0 = 62
      · -- a header line
        subst hb
        have h62 : decide (Int.ofNat 62 = 62) = true := rfl
        rw [indexLine_header]
        cases hn : st.name with
        | none =>
          have hsrc := toSrc_none hn
          rw [hsrc, SrcState.pack]
          simp only [pyGet_zero_cons, map_ok, ok_bind, h62, if_true, Option.isSome_none, Bool.false_eq_true, if_false,
            slice_one_none_cons, pyGet_split_zero]
          header_tail tl
        | some n =>
          obtain ⟨r, hr⟩ := hI.rplSome n hn
          have hne : n.isEmpty = false := by
            cases n with
            | nil => exact absurd rfl (hI.nameNe _ hn)
            | cons _ _ => rfl
          have hsrc := toSrc_some hn hr
          rw [hsrc, SrcState.pack, storeInfo_eq]
          simp only [pyGet_zero_cons, map_ok, ok_bind, h62, if_true, Option.isSome_some, slice_one_none_cons,
            pyGet_split_zero, hne, Bool.not_false, hr, Option.getD_some]
          -- process_seq_buffer()
          rw [forIn_abs_pure absReg (mergeRun st.seqLength) _ _ (st.regionStart, st.regionEnd, st.seqRegions) _ ?hs ?hbody]
          case hs => rfl
          case hbody => proc_body st.seqLength
          have hreg := hI.fold
          generalize (acgtRuns 0 none st.buffer).foldl (mergeRun st.seqLength) (st.regionStart, st.regionEnd, st.seqRegions) = t
            at hreg ⊢
          obtain ⟨rs', re', regs'⟩ := t
          simp only [ok_bind, absReg, needInt_some]
          -- if region_end: seq_regions.append(...)
          rw [ite_closeReg rs' re' regs' _ ?hc ?hx]
          case hc => cases re' <;> simp
          case hx => intro v hv hv0; subst hv; simp only [ok_bind, needObj_some, needInt_some]
          have hcl := closeReg_lt _ hreg
          by_cases hdup : (dGet? st.idx n).isSome = true
          · simp only [hdup, if_true, ok_bind, error_bind, map_error]
          · simp only [hdup, Bool.false_eq_true, if_false, ok_bind, needIter_some]
            -- for region in seq_regions
            rw [forIn_abs_pure absRow (rowStep n) _ _ ({ name := n }, st.nextOid, 0, 0) _ ?hs ?hbody]
            case hs => rfl
            case hbody => row_body hcl
            obtain ⟨h1, h2, h3⟩ := foldl_rowStep n (closeReg (rs', re', regs')) { name := n } st.nextOid (0, 0)
            generalize (closeReg (rs', re', regs')).foldl (rowStep n) ({ name := n }, st.nextOid, 0, 0) = u at h1 h2 h3 ⊢
            obtain ⟨sc, oid', prev'⟩ := u
            simp only [List.nil_append] at h1 h2 h3
            subst h1 h2
            simp only [ok_bind, absRow, ite_ok_bind, h3, dSet_of_none _ _ _ (by simpa using hdup), seek_truncate, gapType_eq,
              Int.ofNat_eq_natCast]
            header_tail tl
      · -- a sequence line
        have h62 : decide (Int.ofNat b0 = 62) = false := by simp; omega
        obtain ⟨x, hx1, hx2⟩ := pyGet_neg_one (b0 :: tl) (by simp)
        cases hn : st.name with
        | none =>
          obtain ⟨hA, hB⟩ := hsafe hn
          have hsrc := toSrc_none hn
          rw [hsrc, SrcState.pack]
          by_cases hl : (b0 :: tl).getLast? = some 10
          · have hx : x = 10 := by rw [hx1] at hl; simpa using hl
            subst hx
            cases hr : st.rpl with
            | some r =>
              have := hB (by rw [hr]; simp)
              simp [safeB, hb, hl] at this
            | none =>
              rw [indexLine_pre_term bs st b0 tl hb hr hl]
              simp only [pyGet_zero_cons, hx2, map_ok, ok_bind, h62, Bool.false_eq_true, if_false, needInt_none, error_bind,
                if_true, map_error, show decide (Int.ofNat 10 = 10) = true from rfl]
          · have hx : ¬ Int.ofNat x = 10 := by
              rw [hx1] at hl; simp at hl; simp; omega
            rw [indexLine_pre_open bs st b0 tl hb hn hl]
            simp only [pyGet_zero_cons, hx2, map_ok, ok_bind, h62, hx, decide_false, Bool.false_eq_true, if_false, write_at_end,
              ite_ok_bind]
            by_cases hov : Int.ofNat (st.buffer ++ (b0 :: tl)).length > bs
            · have hov' : ((st.buffer ++ (b0 :: tl)).length : Int) > bs := hov
              rw [forIn_bind_error .type _ _ _ _ ?hb ?hk]
              case hb => intro m s; simp only [needInt_none, error_bind]
              case hk => intro s; obtain ⟨a, b, c⟩ := s; simp only [needInt_none, error_bind]
              simp only [hov, hov', decide_true, if_true, error_bind, map_error]
            · have hov' : ¬ ((st.buffer ++ (b0 :: tl)).length : Int) > bs := hov
              simp only [hov, hov', decide_false, Bool.false_eq_true, if_false, ok_bind, map_ok]
              simp only [toSrc, SrcState.pack, addKeep, hn]
              cases st.rpl with
              | none => rfl
              | some r => by_cases h : r = 0 <;> simp [h]
        | some n =>
          obtain ⟨r, hr⟩ := hI.rplSome n hn
          have hleb := hI.lebPos n hn
          have hsrc := toSrc_some hn hr
          rw [hsrc, SrcState.pack, indexLine_residue bs st b0 tl r n hb hr hn]
          have hkeep : (if decide (Int.ofNat x = 10) = true
                then (Except.ok (slice (b0 :: tl) none (some (-st.lineEndBytes))) : R Bytes) else Except.ok (b0 :: tl))
              = .ok (keepOf st.lineEndBytes (b0 :: tl)) := by
            unfold keepOf
            rw [hx1, slice_none_neg _ _ hleb]
            by_cases hx : x = 10
            · subst hx; simp
            · have : ¬ Int.ofNat x = 10 := by simp; omega
              simp only [this, decide_false, Bool.false_eq_true, if_false]
              rw [if_neg (by simpa using hx)]
          have hr0 : ((if (!decide (r ≠ 0)) = true then some (Int.ofNat (keepOf st.lineEndBytes (b0 :: tl)).length) else some r)
                : Option Int)
              = some (if r = 0 then ((keepOf st.lineEndBytes (b0 :: tl)).length : Int) else r) := by
            by_cases h : r = 0 <;> simp [h]
          simp only [pyGet_zero_cons, hx2, map_ok, ok_bind, h62, Bool.false_eq_true, if_false, needInt_some, hkeep, write_at_end]
          by_cases hov : Int.ofNat (st.buffer ++ keepOf st.lineEndBytes (b0 :: tl)).length > bs
          · have hov' : ((st.buffer ++ keepOf st.lineEndBytes (b0 :: tl)).length : Int) > bs := hov
            rw [forIn_abs_pure absReg (mergeRun st.seqLength) _ _ (st.regionStart, st.regionEnd, st.seqRegions) _ ?hs ?hbody]
            case hs => rfl
            case hbody => proc_body st.seqLength
            simp only [ite_ok_bind, ok_bind, hr0, hov, hov', decide_true, if_true, absReg, seek_truncate]
            simp only [toSrc, SrcState.pack, processSeqBuffer_eq, addKeep, hn]
            rfl
          · have hov' : ¬ ((st.buffer ++ keepOf st.lineEndBytes (b0 :: tl)).length : Int) > bs := hov
            simp only [ite_ok_bind, ok_bind, hr0, hov, hov', decide_false, Bool.false_eq_true, if_false]
            simp only [toSrc, SrcState.pack, addKeep, hn]
            rfl
  -- after the loop
  rw [indexFasta_eq]
  cases hfold : lines.foldlM (indexLine bs) {} with
  | error e => simp only [map_error, error_bind]
  | ok st =>
    have hI := invL_final bs lines {} st (invL_init lines h0) hfold
    simp only [map_ok, ok_bind]
    cases hn : st.name with
    | none =>
      have hsrc := toSrc_none hn
      rw [hsrc, SrcState.pack]
      simp only [Option.isSome_none, Bool.false_eq_true, if_false, ok_bind]
      cases st.idx.isEmpty <;> rfl
    | some n =>
      obtain ⟨r, hr⟩ := hI.rplSome n hn
      have hne : n.isEmpty = false := by
        cases n with
        | nil => exact absurd rfl (hI.nameNe _ hn)
        | cons _ _ => rfl
      have hsrc := toSrc_some hn hr
      rw [hsrc, SrcState.pack, storeInfo_eq]
      simp only [hne, Bool.not_false, if_true, Option.isSome_some, hn, Option.getD_some]
      rw [forIn_abs_pure absReg (mergeRun st.seqLength) _ _ (st.regionStart, st.regionEnd, st.seqRegions) _ ?hs ?hbody]
      case hs => rfl
      case hbody => proc_body st.seqLength
      have hreg := hI.fold
      generalize (acgtRuns 0 none st.buffer).foldl (mergeRun st.seqLength) (st.regionStart, st.regionEnd, st.seqRegions) = t
        at hreg ⊢
      obtain ⟨rs', re', regs'⟩ := t
      simp only [ok_bind, absReg, needInt_some]
      rw [ite_closeReg rs' re' regs' _ ?hc ?hx]
      case hc => cases re' <;> simp
      case hx => intro v hv hv0; subst hv; simp only [ok_bind, needObj_some, needInt_some]
      have hcl := closeReg_lt _ hreg
      by_cases hdup : (dGet? st.idx n).isSome = true
      · simp only [hdup, if_true, ok_bind, error_bind, map_error]
      · simp only [hdup, Bool.false_eq_true, if_false, ok_bind, needIter_some]
        rw [forIn_abs_pure absRow (rowStep n) _ _ ({ name := n }, st.nextOid, 0, 0) _ ?hs ?hbody]
        case hs => rfl
        case hbody => row_body hcl
        obtain ⟨h1, h2, h3⟩ := foldl_rowStep n (closeReg (rs', re', regs')) { name := n } st.nextOid (0, 0)
        generalize (closeReg (rs', re', regs')).foldl (rowStep n) ({ name := n }, st.nextOid, 0, 0) = u at h1 h2 h3 ⊢
        obtain ⟨sc, oid', prev'⟩ := u
        simp only [List.nil_append] at h1 h2 h3
        subst h1 h2
        simp only [ok_bind, absRow, ite_ok_bind, h3, dSet_of_none _ _ _ (by simpa using hdup), gapType_eq,
          Int.ofNat_eq_natCast, stored, ite_scaffold, isEmpty_snoc, Bool.not_false, if_true, Bool.false_eq_true, if_false,
          map_ok, hn, hr, Option.getD_some]

end AgpTpf.ImpIndex
