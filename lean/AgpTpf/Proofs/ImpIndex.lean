/-
  T1c tie for `index_fasta_file` (fasta/index.py): lemmas for the translated source `Gen.Imp.index_fasta_file_imp`.

  The source keeps 13 loop variables, eight of them `None`-able; the model keeps an `IdxState`.  `toSrc st` rebuilds the
  source's variables from the model state (all `None` before the first header, all set after it), `Inv` is the invariant
  that makes the two agree (a name is never empty, `residues_per_line` is set once a header was seen, every region
  `(start, end)` has `start < end` — so `Fragment(name, start + 1, end, 1)` never raises).

  * `forIn_abs_pure`, `forIn_abs`   a `PyRt.forIn` whose body, on states of the form `abs t`, does what a step function on `t`
                                    does, is `List.foldl` / `List.foldlM` of that step function
  * `foldl_rowStep`                 the row loop of `store_info` = `regionRows`
  * `mergeRun_inv`, …               the invariant is kept by `process_seq_buffer` / `store_info` / a line
  * `safeB`, `preHeaderOk`          the shape of the part of the file before the first header on which model and source agree
  The only place that looks at the generated text is `Properties/C04Imp.lean`.
-/
import AgpTpf.Gen.Imp
import AgpTpf.Model.Fasta
import AgpTpf.Proofs.C04Runs
namespace AgpTpf.ImpIndex
open AgpTpf PyRt

/-! ### loops -/

/-- a loop whose body, on every state of the form `abs t`, goes on with `abs (f t x)` is the left fold of `f` -/
theorem forIn_abs_pure {α σ τ ρ : Type} (abs : τ → σ) (f : τ → α → τ) (body : α → σ → R (Ctl σ ρ)) :
    ∀ (xs : List α) (t : τ) (s : σ), s = abs t →
      (∀ x ∈ xs, ∀ t, body x (abs t) = .ok (.next (abs (f t x)))) →
      PyRt.forIn xs s body = .ok (.fell (abs (xs.foldl f t))) := by
  intro xs
  induction xs with
  | nil => intro t s hs _; subst hs; rfl
  | cons x xs ih =>
    intro t s hs h
    subst hs
    rw [PyRt.forIn, h x (List.mem_cons_self ..) t]
    exact ih (f t x) _ rfl (fun y hy => h y (List.mem_cons_of_mem _ hy))

/-- a loop whose body simulates a fallible step function of the model (`Inv` may talk about the elements still to come) -/
theorem forIn_abs {α σ τ ρ : Type} (abs : τ → σ) (step : τ → α → R τ) (Inv : τ → List α → Prop)
    (body : α → σ → R (Ctl σ ρ))
    (h : ∀ x xs t, Inv t (x :: xs) →
      body x (abs t) = (step t x).map (fun t' => Ctl.next (abs t')) ∧ ∀ t', step t x = .ok t' → Inv t' xs) :
    ∀ (xs : List α) (t : τ) (s : σ), s = abs t → Inv t xs →
      PyRt.forIn xs s body = (xs.foldlM step t).map (fun t' => Done.fell (abs t')) ∧
      ∀ t', xs.foldlM step t = .ok t' → Inv t' [] := by
  intro xs
  induction xs with
  | nil =>
    intro t s hs hi
    subst hs
    refine ⟨rfl, ?_⟩
    intro t' ht'
    simp only [List.foldlM_nil, pure, Except.pure, Except.ok.injEq] at ht'
    subst ht'; exact hi
  | cons x xs ih =>
    intro t s hs hi
    subst hs
    obtain ⟨hb, hinv⟩ := h x xs t hi
    rw [PyRt.forIn, hb, List.foldlM_cons]
    cases hst : step t x with
    | error e => exact ⟨rfl, fun t' ht' => by cases ht'⟩
    | ok t1 =>
      have := ih t1 _ rfl (hinv t1 hst)
      exact this

/-! ### the two views of the indexer's state -/

/-- the source's 13 loop variables `(name, seq_length, residues_per_line, region_start, region_end, seq_regions, file_offset,
    line_end_bytes, idx_dict, seq_buffer, asm.scaffolds, nextOid, fh.tell())` -/
abbrev SrcState := Option Str × Option Int × Option Int × Option Int × Option Int × Option (List (Int × Int)) × Option Int ×
  Option Int × List (Str × FastaInfo) × PyRt.BytesIO × List Scaffold × Nat × Int

/-- the source's variables, from the model state: before the first header everything the Python initialises with `None` is
    `None` (except `residues_per_line`, which a header-less unterminated line sets); after it everything is set -/
def toSrc (st : IdxState) : SrcState :=
  match st.name with
  | some n => (some n, some st.seqLength, st.rpl, some st.regionStart, st.regionEnd, some st.seqRegions, some st.fileOffset,
      some st.lineEndBytes, st.idx, { data := st.buffer, pos := st.buffer.length }, st.scaffolds, st.nextOid, st.pos)
  | none => (none, none, st.rpl, none, none, none, none, none, st.idx, { data := st.buffer, pos := st.buffer.length },
      st.scaffolds, st.nextOid, st.pos)

/-- the region variables of `process_seq_buffer`, in the order the translated loop carries them -/
def absReg (t : Int × Option Int × List (Int × Int)) : Option Int × Option Int × Option (List (Int × Int)) :=
  (t.2.1, some t.1, some t.2.2)

end AgpTpf.ImpIndex
