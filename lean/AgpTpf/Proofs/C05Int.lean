/- C05 (a): decimal round trip `pyInt (intToStr n) = .ok n` -/
import AgpTpf.Model.Text
namespace AgpTpf.C05
open AgpTpf

theorem isDigit_eq (c : Char) : isDigit c = c.isDigit := by
  unfold isDigit Char.isDigit
  simp only [Char.le_def, UInt32.le_iff_toNat_le, ge_iff_le]

theorem isDigit_of_mem_natToStr {n : Nat} {c : Char} (h : c ∈ natToStr n) : isDigit c = true := by
  rw [isDigit_eq]; exact Nat.isDigit_of_mem_toDigits (by decide) (by decide) h

theorem natToStr_ne_nil (n : Nat) : natToStr n ≠ [] := Nat.toDigits_ne_nil

theorem not_isSpace_of_isDigit {c : Char} (h : isDigit c = true) : isSpace c = false := by
  unfold isDigit at h
  simp only [Char.le_def, UInt32.le_iff_toNat_le, Bool.and_eq_true, decide_eq_true_eq] at h
  unfold isSpace
  have h1 : c.toNat = c.val.toNat := rfl
  have : (48:Nat) ≤ c.toNat ∧ c.toNat ≤ 57 := by
    rw [h1]; exact h
  simp only [Bool.or_eq_false_iff, Bool.and_eq_false_iff, decide_eq_false_iff_not, beq_eq_false_iff_ne]
  omega

theorem dropWhile_eq_self_of_head {α} (p : α → Bool) (l : List α)
    (h : ∀ x, l.head? = some x → p x = false) : l.dropWhile p = l := by
  cases l with
  | nil => rfl
  | cons a t => simp [List.dropWhile, h a rfl]

/-- `rstrip` only looks at the LAST character. -/
theorem rstripBy_eq_self (p : Char → Bool) (s : Str)
    (h : ∀ x, s.getLast? = some x → p x = false) : rstripBy p s = s := by
  unfold rstripBy
  rw [dropWhile_eq_self_of_head, List.reverse_reverse]
  intro x hx; rw [List.head?_reverse] at hx; exact h x hx

theorem lstripBy_eq_self (p : Char → Bool) (s : Str)
    (h : ∀ x, s.head? = some x → p x = false) : lstripBy p s = s :=
  dropWhile_eq_self_of_head p s h

theorem stripUnderscores_go_digits (acc ds : Str) (h : ∀ c ∈ ds, isDigit c = true) :
    stripUnderscores.go true acc ds = some (acc.reverse ++ ds) := by
  induction ds generalizing acc with
  | nil => simp [stripUnderscores.go]
  | cons d ds ih =>
    have hd := h d (by simp)
    rw [stripUnderscores.go]
    simp only [hd, if_true]
    rw [ih _ (fun c hc => h c (by simp [hc]))]
    simp

theorem stripUnderscores_digits (ds : Str) (hne : ds ≠ []) (h : ∀ c ∈ ds, isDigit c = true) :
    stripUnderscores ds = some ds := by
  cases ds with
  | nil => exact absurd rfl hne
  | cons c cs =>
    have hc := h c (by simp)
    unfold stripUnderscores
    simp only [hc, Bool.not_true, Bool.false_eq_true, if_false]
    rw [stripUnderscores_go_digits _ _ (fun x hx => h x (by simp [hx]))]
    simp

theorem digitsVal_eq_ofDigitChars (acc : Nat) (ds : Str) :
    digitsVal acc ds = Nat.ofDigitChars 10 ds acc := by
  induction ds generalizing acc with
  | nil => rfl
  | cons c cs ih =>
    show digitsVal (acc * 10 + digitVal c) cs = _
    rw [ih, Nat.ofDigitChars_cons, Nat.mul_comm]; rfl

theorem digitsVal_natToStr (n : Nat) : digitsVal 0 (natToStr n) = n := by
  rw [digitsVal_eq_ofDigitChars]; exact Nat.ofDigitChars_ten_toDigits

/-- sign detection of `pyInt`, as its own function -/
def signSplit (t : Str) : Bool × Str :=
  match t with
  | '-' :: r => (true, r)
  | '+' :: r => (false, r)
  | r => (false, r)

theorem pyInt_eq (s : Str) : pyInt s =
    match stripUnderscores (signSplit (rstripBy isSpace (lstripBy isSpace s))).2 with
    | none => .error .value
    | some ds => .ok (if (signSplit (rstripBy isSpace (lstripBy isSpace s))).1 then -((digitsVal 0 ds : Nat) : Int) else (digitsVal 0 ds : Nat)) := by
  unfold pyInt signSplit
  rfl

theorem signSplit_unsigned (c : Char) (cs : Str) (h1 : c ≠ '-') (h2 : c ≠ '+') :
    signSplit (c :: cs) = (false, c :: cs) := by
  unfold signSplit
  split
  · rename_i heq; simp at heq; exact absurd heq.1 h1
  · rename_i heq; simp at heq; exact absurd heq.1 h2
  · rfl

theorem signSplit_minus (cs : Str) : signSplit ('-' :: cs) = (true, cs) := rfl

theorem pyInt_natToStr (n : Nat) : pyInt (natToStr n) = .ok (n : Int) := by
  have hne := natToStr_ne_nil n
  have hd : ∀ c ∈ natToStr n, isDigit c = true := fun c hc => isDigit_of_mem_natToStr hc
  rw [pyInt_eq, lstripBy_eq_self, rstripBy_eq_self]
  · generalize hs : natToStr n = s at *
    cases s with
    | nil => exact absurd rfl hne
    | cons c cs =>
      have hc := hd c (by simp)
      have h1 : c ≠ '-' := by intro h; subst h; revert hc; decide
      have h2 : c ≠ '+' := by intro h; subst h; revert hc; decide
      rw [signSplit_unsigned c cs h1 h2]
      simp only [stripUnderscores_digits _ hne hd]
      simp [← hs, digitsVal_natToStr]
  · intro x hx
    exact not_isSpace_of_isDigit (hd x (List.mem_of_getLast? hx))
  · intro x hx
    exact not_isSpace_of_isDigit (hd x (List.mem_of_head? hx))

theorem pyInt_intToStr (i : Int) : pyInt (intToStr i) = .ok i := by
  cases i with
  | ofNat n => exact pyInt_natToStr n
  | negSucc n =>
    have hne := natToStr_ne_nil (n + 1)
    have hd : ∀ c ∈ natToStr (n + 1), isDigit c = true := fun c hc => isDigit_of_mem_natToStr hc
    show pyInt ('-' :: natToStr (n + 1)) = _
    rw [pyInt_eq, lstripBy_eq_self, rstripBy_eq_self]
    · rw [signSplit_minus]
      simp only [stripUnderscores_digits _ hne hd, digitsVal_natToStr]
      simp [Int.negSucc_eq]
    · intro x hx
      rw [List.getLast?_cons_of_ne_nil hne] at hx
      exact not_isSpace_of_isDigit (hd x (List.mem_of_getLast? hx))
    · intro x hx
      simp at hx; subst hx; decide
end AgpTpf.C05
