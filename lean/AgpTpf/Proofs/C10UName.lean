/-
  C10 uniqueness (W5), part 2: what `ChrNamer.name_chromosomes` does to the names, for ANY number of haplotypes, in the
  form the uniqueness proof needs: frame, shape `<prefix><n><letter?><suffix>` of every new name, and "equal new names
  inside one haplotype key come from equal old names".
-/
import AgpTpf.Proofs.C10USplit
import AgpTpf.Proofs.C10GroupsNames
import AgpTpf.Proofs.C10MultiNumber
namespace AgpTpf.C10U
open AgpTpf

/-- the Pretext name does not occur inside any `_unloc_<k>` suffix -/
def UnlocFree (o : Str) : Prop := ∀ k, C10.occursIn o (C10.unlocSuffix k) = false

/-- a scaffold handed to `ChrNamer`: called `<Pretext name>` or `<Pretext name>_unloc_<k>`, the Pretext name being one
    of `N` and free of `_unloc_` look-alikes -/
def R1Shape (N : List Str) (s : Scaffold) : Prop :=
  ∃ o suf, s.originalName = some o ∧ o ∈ N ∧ s.name = o ++ suf ∧ SufOk suf ∧ UnlocFree o

/-- nothing, or the one letter `multi_chr_list` appends -/
def LetterOk (L : Str) : Prop := L = [] ∨ ∃ c, L = [c] ∧ isDigit c = false

theorem letterOk_chrLetter (c i : Nat) : LetterOk (C10.chrLetter c i) := by
  unfold C10.chrLetter
  by_cases h : c = 1
  · rw [if_pos h]; exact Or.inl rfl
  · rw [if_neg h]; exact Or.inr ⟨_, rfl, C10.letter_not_digit i⟩

/-- the `PieceShape` data of the existing C10 lemmas, from `R1Shape` -/
theorem piece_of_shape (N : List Str) (fs : List Scaffold) (sid : Nat) (hs : R1Shape N (fs.getD sid default))
    (hg : truthy (fs.getD sid default).originalName = true) :
    ∃ suf, (fs.getD sid default).name = C10.origOf fs sid ++ suf ∧ SufOk suf ∧
      C10.occursIn (C10.origOf fs sid) suf = false ∧ C10.origOf fs sid ∈ N := by
  obtain ⟨o, suf, ho, hN, hn, hsuf, hfree⟩ := hs
  have horig : C10.origOf fs sid = o := by unfold C10.origOf; rw [ho]; rfl
  refine ⟨suf, by rw [horig]; exact hn, hsuf, ?_, by rw [horig]; exact hN⟩
  rw [horig]
  rcases hsuf with rfl | ⟨k, rfl⟩
  · have hne : o ≠ [] := by rw [← horig]; exact C10.origOf_ne_nil fs sid hg
    unfold C10.occursIn
    cases o with
    | nil => exact absurd rfl hne
    | cons _ _ => rfl
  · exact hfree k

theorem nameChromosomes_error (p : Str) (fs : List Scaffold) (haps : List Str) (entries : List (Str × Nat)) (e : Err)
    (hb : buildGroups fs haps entries = .error e) : C10.nameChromosomes p fs haps entries = .error e := by
  unfold C10.nameChromosomes; rw [hb]; rfl

theorem all_truthy_or_bad (fs : List Scaffold) (entries : List (Str × Nat)) :
    (∀ e ∈ entries, truthy (fs.getD e.2 default).originalName = true) ∨
    (∃ e ∈ entries, truthy (fs.getD e.2 default).originalName = false) := by
  by_cases hb : ∃ e ∈ entries, truthy (fs.getD e.2 default).originalName = false
  · exact Or.inr hb
  · left
    intro e he
    cases ht : truthy (fs.getD e.2 default).originalName with
    | true => rfl
    | false => exact absurd ⟨e, he, ht⟩ hb

/-- what the uniqueness proof needs to know about the renamed list -/
def NamedSpec (p : Str) (fs fs' : List Scaffold) (entries : List (Str × Nat)) : Prop :=
  (∀ j, j ∉ entries.map (·.2) → fs'.getD j default = fs.getD j default) ∧
  (∀ e ∈ entries, ∃ n L suf, (fs'.getD e.2 default).name = p ++ natToStr n ++ L ++ suf ∧ LetterOk L ∧ SufOk suf) ∧
  (∀ a ∈ entries, ∀ b ∈ entries, a.1 = b.1 → (fs'.getD a.2 default).name = (fs'.getD b.2 default).name →
      (fs.getD a.2 default).name = (fs.getD b.2 default).name)

/-- one haplotype key -/
theorem named_single (p : Str) (N : List Str) (fs : List Scaffold) (h : Str) (entries : List (Str × Nat))
    (fs' : List Scaffold) (hne : entries ≠ []) (hid : (entries.map (·.2)).Nodup) (hh : ∀ e ∈ entries, e.1 = h)
    (hshape : ∀ e ∈ entries, R1Shape N (fs.getD e.2 default))
    (hok : C10.nameChromosomes p fs [h] entries = .ok fs') : NamedSpec p fs fs' entries := by
  have hg : ∀ e ∈ entries, truthy (fs.getD e.2 default).originalName = true := by
    rcases all_truthy_or_bad fs entries with hg | hb
    · exact hg
    · rw [nameChromosomes_error p fs [h] entries _ (C10.buildGroups_single_bad fs h entries hh hb)] at hok; cases hok
  rw [C10.nameChromosomes_single p fs h entries hne hh hg] at hok
  cases hok
  obtain ⟨_, hframe, _⟩ := C10.numbering_core p fs entries hid
  refine ⟨hframe, ?_, ?_⟩
  · intro e he
    obtain ⟨suf, hn, hsuf, ho, _⟩ := piece_of_shape N fs e.2 (hshape e he) (hg e he)
    obtain ⟨k, _, _, _, hfs⟩ := C10.entry_new_name p fs entries hid hg e he suf hn ho
    exact ⟨k + 1, [], suf, by rw [hfs]; simp, Or.inl rfl, hsuf⟩
  · intro a ha b hb _ heq
    obtain ⟨sa, hna, hsa, hoa, _⟩ := piece_of_shape N fs a.2 (hshape a ha) (hg a ha)
    obtain ⟨sb, hnb, hsb, hob, _⟩ := piece_of_shape N fs b.2 (hshape b hb) (hg b hb)
    obtain ⟨k, hk, _, hok, hfa⟩ := C10.entry_new_name p fs entries hid hg a ha sa hna hoa
    obtain ⟨k', hk', _, hok', hfb⟩ := C10.entry_new_name p fs entries hid hg b hb sb hnb hob
    rw [hfa, hfb] at heq
    simp only at heq
    obtain ⟨e1, e2⟩ := C10.chr_name_inj p sa sb (k + 1) (k' + 1) hsa.noDigitHd hsb.noDigitHd heq
    have ekk : k = k' := by omega
    subst ekk
    have horig : C10.origOf fs a.2 = C10.origOf fs b.2 := by rw [← hok, ← hok']
    rw [hna, hnb, horig, e2]

/-- several haplotype keys -/
theorem named_multi (p : Str) (N : List Str) (hN : N.length ≤ C10.letterBound) (fs : List Scaffold) (h1 : Str)
    (others : List Str) (hoth : others ≠ []) (entries : List (Str × Nat)) (fs' : List Scaffold)
    (hnd : (h1 :: others).Nodup) (hid : (entries.map (·.2)).Nodup) (hm : ∀ e ∈ entries, e.1 ∈ h1 :: others)
    (hshape : ∀ e ∈ entries, R1Shape N (fs.getD e.2 default))
    (hok : C10.nameChromosomes p fs (h1 :: others) entries = .ok fs') : NamedSpec p fs fs' entries := by
  have hdrop : ((h1 :: others).drop 1).isEmpty = false := by
    cases others with
    | nil => exact absurd rfl hoth
    | cons _ _ => rfl
  have hg : ∀ e ∈ entries, truthy (fs.getD e.2 default).originalName = true := by
    rcases all_truthy_or_bad fs entries with hg | hb
    · exact hg
    · rw [nameChromosomes_error p fs _ entries _ (C10.buildGroups_multi_bad fs _ hdrop entries hb)] at hok; cases hok
  have hb := C10.buildGroups_multi_ok fs _ hdrop entries hg
  have hgne : ∀ g ∈ C10.groupsSpec fs (h1 :: others) entries, g ≠ [] := by
    intro g hgm; obtain ⟨seg, _, rfl⟩ := List.mem_map.1 hgm; exact C10.segGroup_ne_nil fs h1 others seg
  obtain ⟨herr, hgood⟩ := C10.nameChromosomes_of_groups p fs _ entries _ hb hgne
  cases hge : groupsHaveErrors (C10.groupsSpec fs (h1 :: others) entries) with
  | true => rw [herr hge] at hok; cases hok
  | false =>
    rw [hgood hge] at hok
    cases hok
    have hids := C10.sortedGroups_ids_nodup fs (h1 :: others) entries hid
    obtain ⟨_, hframe, _⟩ := C10.nameGroups_spec p (C10.sortedGroups fs (C10.groupsSpec fs (h1 :: others) entries)) fs hids
    have hbound : ∀ (h : Str), ∀ seg ∈ C10.segments fs entries, (C10.hapOrigs fs h seg).length ≤ C10.letterBound := by
      intro h seg hseg
      refine Nat.le_trans (nodup_subset_length _ N (C10.hapOrigs_nodup fs h seg) ?_) hN
      intro o ho
      obtain ⟨e, he, _, heo⟩ := (C10.mem_hapOrigs fs h o seg).1 ho
      have hee := C10.segments_sub fs entries seg hseg e he
      obtain ⟨_, _, _, _, hin⟩ := piece_of_shape N fs e.2 (hshape e hee) (hg e hee)
      rw [← heo]; exact hin
    refine ⟨?_, ?_, ?_⟩
    · intro j hj
      exact hframe j (fun hmem => hj ((C10.sortedGroups_ids_mem fs (h1 :: others) entries j).1 hmem))
    · intro e he
      obtain ⟨suf, hn, hsuf, ho, _⟩ := piece_of_shape N fs e.2 (hshape e he) (hg e he)
      obtain ⟨seg, hseg, hes⟩ := C10.segments_cover fs entries e he
      obtain ⟨k, _, _, hren⟩ := C10.segment_numbered p fs (h1 :: others) hnd entries hm hid seg hseg
      have hr := hren e hes
      rw [C10.renameScaffold_piece fs e.2 _ (hg e he) suf hn ho] at hr
      refine ⟨k + 1, C10.chrLetter (C10.chrCount fs seg e) (C10.chrIndex fs seg e), suf, ?_, letterOk_chrLetter _ _, hsuf⟩
      rw [hr]; simp only [C10.chrLabel]
    · intro a ha b hb hab heq
      obtain ⟨sa, hna, hsa, hoa, _⟩ := piece_of_shape N fs a.2 (hshape a ha) (hg a ha)
      obtain ⟨sb, hnb, hsb, hob, _⟩ := piece_of_shape N fs b.2 (hshape b hb) (hg b hb)
      obtain ⟨s1, hs1, ha1⟩ := C10.segments_cover fs entries a ha
      obtain ⟨s2, hs2, hb2⟩ := C10.segments_cover fs entries b hb
      obtain ⟨k, hk, hgk, hfa⟩ := C10.segment_numbered p fs (h1 :: others) hnd entries hm hid s1 hs1
      obtain ⟨k', hk', hgk', hfb⟩ := C10.segment_numbered p fs (h1 :: others) hnd entries hm hid s2 hs2
      have hfa' := hfa a ha1
      have hfb' := hfb b hb2
      rw [C10.renameScaffold_piece fs a.2 _ (hg a ha) sa hna hoa] at hfa'
      rw [C10.renameScaffold_piece fs b.2 _ (hg b hb) sb hnb hob] at hfb'
      rw [hfa', hfb'] at heq
      simp only [C10.chrLabel, List.append_assoc] at heq
      rw [← List.append_assoc, ← List.append_assoc p] at heq
      obtain ⟨e1, e2⟩ := C10.chr_name_inj p _ _ (k + 1) (k' + 1) (C10.noDigitHd_letter _ _ _ hsa.noDigitHd)
        (C10.noDigitHd_letter _ _ _ hsb.noDigitHd) heq
      have ekk : k = k' := by omega
      subst ekk
      have hgg : C10.segGroup fs (h1 :: others) s1 = C10.segGroup fs (h1 :: others) s2 := by rw [← hgk, ← hgk']
      have hO : C10.hapOrigs fs a.1 s1 = C10.hapOrigs fs a.1 s2 := C10.hapOrigs_of_group_eq fs _ a.1 s1 s2 hgg
      have hia := C10.chrIndex_lt fs s1 a ha1
      have hib := C10.chrIndex_lt fs s2 b hb2
      have hga := C10.chrIndex_get fs s1 a ha1
      have hgb := C10.chrIndex_get fs s2 b hb2
      unfold C10.chrCount at e2 hia hib
      rw [← hab] at e2 hib hgb
      rw [← hO] at e2 hib hgb
      obtain ⟨ei, es⟩ := C10.chrLetter_inj _ _ _ sa sb (hbound a.1 s1 hs1) hia hib e2
      rw [ei, hgb] at hga
      have horig : C10.origOf fs a.2 = C10.origOf fs b.2 := (Option.some.inj hga).symm
      rw [hna, hnb, horig, es]

/-- **`name_chromosomes` inside `assemblies_with_scaffolds_fused`**, any number of haplotype keys -/
theorem named_spec (p : Str) (N : List Str) (hN : N.length ≤ C10.letterBound) (fs : List Scaffold) (haps : List Str)
    (entries : List (Str × Nat)) (fs' : List Scaffold) (hnd : haps.Nodup) (hid : (entries.map (·.2)).Nodup)
    (hm : ∀ e ∈ entries, e.1 ∈ haps) (hnil : haps = [] ↔ entries = [])
    (hshape : ∀ e ∈ entries, R1Shape N (fs.getD e.2 default))
    (hok : (if haps.isEmpty then pure fs else C10.nameChromosomes p fs haps entries) = .ok fs') :
    NamedSpec p fs fs' entries := by
  cases haps with
  | nil =>
    have he : entries = [] := hnil.1 rfl
    subst he
    simp only [List.isEmpty_nil, if_true, pure, Except.pure, Except.ok.injEq] at hok
    subst hok
    exact ⟨fun _ _ => rfl, fun e he => (by cases he), fun a ha => (by cases ha)⟩
  | cons h1 others =>
    simp only [List.isEmpty_cons, Bool.false_eq_true, if_false] at hok
    cases others with
    | nil =>
      have hne : entries ≠ [] := fun h => by have := hnil.2 h; cases this
      exact named_single p N fs h1 entries fs' hne hid (fun e he => by simpa using hm e he) hshape hok
    | cons h2 rest =>
      exact named_multi p N hN fs h1 (h2 :: rest) (by simp) entries fs' hnd hid hm hshape hok

end AgpTpf.C10U
