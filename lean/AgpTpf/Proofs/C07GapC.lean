/-
  C07, second sentence (gap rows) — part C: fused scaffolds.
    `fused_gap_rows`   every gap row of a fused scaffold is the join gap or a gap row of an input scaffold
    `fused_gap_runs`   every run `(a, G, b)` of a fused scaffold: `G = [join gap]`, or an input run (up to reversal)
-/
import AgpTpf.Proofs.C07GapB
import AgpTpf.Proofs.C07ChainD
namespace AgpTpf.C07
open AgpTpf
open AgpTpf.C11 (End leftFacing rightFacing facingEnds SameAdj)

/-- the two possible sources of a run of an output scaffold (model after fix 9be92a2) -/
def RunOK (input : List Scaffold) (g : Gap) (t : Run) : Prop :=
  t.2.1 = [g] ∨ InputRun input t

/-! ### shapes -/

theorem ntg_last (l : List Row) (h : NoTerminalGap l) (hne : l ≠ []) : ∃ B a, l = B ++ [Row.frag a] := by
  rcases C18.list_nil_or_concat l with e | ⟨B, x, e⟩
  · exact absurd e hne
  · cases x with
    | frag a => exact ⟨B, a, e⟩
    | gap g => exact absurd (by rw [e]; simp) (h.2 g)

theorem ntg_head (l : List Row) (h : NoTerminalGap l) (hne : l ≠ []) : ∃ c O, l = Row.frag c :: O := by
  cases l with
  | nil => exact absurd rfl hne
  | cons x O =>
    cases x with
    | frag c => exact ⟨c, O, rfl⟩
    | gap g => exact absurd rfl (h.1 g)

/-- runs of `built ++ (gap rows M) ++ rows` when neither part has a terminal gap: the runs of the parts and the seam
    `(last fragment of built, M, first fragment of rows)` -/
theorem gapRuns_seam (built rows : List Row) (M : List Gap) (hb : NoTerminalGap built) (hbne : built ≠ [])
    (hr : NoTerminalGap rows) (hrne : rows ≠ []) :
    ∀ t ∈ gapRuns (built ++ M.map Row.gap ++ rows), t ∈ gapRuns built ∨ t ∈ gapRuns rows ∨
      ∃ a c, built.getLast? = some (.frag a) ∧ rows.head? = some (.frag c) ∧ t = (a, M, c) := by
  obtain ⟨B, a, rfl⟩ := ntg_last built hb hbne
  obtain ⟨c, O, rfl⟩ := ntg_head rows hr hrne
  intro t ht
  have e : B ++ [Row.frag a] ++ M.map Row.gap ++ Row.frag c :: O = B ++ .frag a :: (M.map Row.gap ++ .frag c :: O) := by
    simp
  rw [e, gapRuns_join] at ht
  rcases List.mem_append.mp ht with ht | ht
  · exact Or.inl ht
  · rcases List.mem_cons.mp ht with rfl | ht
    · exact Or.inr (Or.inr ⟨a, c, by simp, rfl, rfl⟩)
    · exact Or.inr (Or.inl ht)

theorem appendRows_some (built rows : List Row) (g : Gap) (hne : built ≠ []) :
    Scaffold.appendRows built rows (some g) = built ++ [g].map Row.gap ++ rows := by
  unfold Scaffold.appendRows
  simp only
  rw [if_neg]; rfl
  simpa using hne

theorem appendRows_nil (rows : List Row) (g : Option Gap) : Scaffold.appendRows [] rows g = rows := by
  cases g <;> simp [Scaffold.appendRows]

/-- what `gaps_before_leftover` returns when something is built already and a join gap is configured -/
theorem gapsBeforeLeftover_cases (g : Gap) (built : List Row) (hne : built ≠ []) (pred : Option (Fragment × List Gap)) :
    ∃ M : List Gap, gapsBeforeLeftover (some g) built pred = M.map Row.gap ∧
      (M = [g] ∨ ∃ prev last, pred = some (prev, M) ∧ built.getLast? = some (.frag last) ∧ FacingEnd last prev) := by
  rw [gapsBeforeLeftover_eq, if_neg hne]
  split
  · next prev gaps last hl =>
    split
    · next hf => exact ⟨gaps, rfl, Or.inr ⟨prev, last, rfl, hl, hf⟩⟩
    · exact ⟨[g], rfl, Or.inl rfl⟩
  · exact ⟨[g], rfl, Or.inl rfl⟩

theorem content_gap_mem {src : List Row} {o : OverlapResult} (hc : C18.Content src o) (x : Gap)
    (h : Row.gap x ∈ o.rows) : Row.gap x ∈ src := by
  cases hc with
  | empty e _ => rw [e] at h; cases h
  | one A B s r dl dr _ hr hsh _ _ _ _ =>
    obtain ⟨f, g, rfl, _⟩ := hsh
    rw [hr] at h; simp at h
  | many A B mid s0 s1 r0 r1 dl dr hs hr h0 h1 _ _ _ _ =>
    obtain ⟨f0, g0, rfl, rfl, _⟩ := h0
    obtain ⟨f1, g1, rfl, rfl, _⟩ := h1
    rw [hr] at h
    rw [hs]
    rcases List.mem_cons.mp h with h | h
    · cases h
    · rcases List.mem_append.mp h with h | h
      · simp only [List.mem_append, List.mem_cons]
        exact Or.inl (Or.inr (Or.inr h))
      · simp at h

/-! ### G1 at the level of fused scaffolds -/

theorem fused_gap_rows (input : List Scaffold) (N0 : Nat) (g : Gap) (b : Build)
    (hc : CInv input N0 (some g) b) (hex : ∀ e ∈ b.extra, ExtraGapOK input b.found b.joinGap e) :
    ∀ s ∈ fuseByName b, ∀ x, Row.gap x ∈ s.rows → x = g ∨ ∃ sc ∈ input, Row.gap x ∈ sc.rows := by
  intro s hs
  refine (C01.fuseByName_all (fun rows => ∀ x, Row.gap x ∈ rows → x = g ∨ ∃ sc ∈ input, Row.gap x ∈ sc.rows) b ?_ ?_ s hs).1
  · intro r hr _ _
    have part : ∀ x, Row.gap x ∈ r.o.toScaffoldRows → x = g ∨ ∃ sc ∈ input, Row.gap x ∈ sc.rows := by
      intro x hx
      obtain ⟨sc, hsc, hI⟩ := (hc.store r hr).inv
      exact Or.inr ⟨sc, hsc, content_gap_mem hI.content x ((C01.gap_mem_toScaffoldRows _ _).mp hx)⟩
    have step : ∀ built, (∀ x, Row.gap x ∈ built → x = g ∨ ∃ sc ∈ input, Row.gap x ∈ sc.rows) →
        ∀ x, Row.gap x ∈ Scaffold.appendRows built r.o.toScaffoldRows b.joinGap →
          x = g ∨ ∃ sc ∈ input, Row.gap x ∈ sc.rows := by
      intro built hb x hx
      rcases C01.mem_appendRows _ _ _ _ hx with h | h | ⟨gg, h1, h2⟩
      · exact hb x h
      · exact part x h
      · rw [hc.jg] at h1; cases h1; cases h2; exact Or.inl rfl
    exact ⟨step [] (fun x hx => by cases hx), fun built _ hb => step built hb⟩
  · intro e he _
    obtain ⟨sc, hsc, hrows, hpred, _⟩ := hex e he
    have part : ∀ x, Row.gap x ∈ e.1.rows → x = g ∨ ∃ sc ∈ input, Row.gap x ∈ sc.rows := by
      intro x hx
      rcases hrows x hx with h | h
      · rw [hc.jg] at h; cases h; exact Or.inl rfl
      · exact Or.inr ⟨sc, hsc, h⟩
    refine ⟨part, fun built _ hb x hx => ?_⟩
    simp only [List.mem_append] at hx
    rcases hx with (h | h) | h
    · exact hb x h
    · obtain ⟨gg, e1, hsrc⟩ := gapsBeforeLeftover_source _ _ _ _ h
      cases e1
      rcases hsrc with h | ⟨prev, gaps, h1, h2⟩
      · rw [hc.jg] at h; cases h; exact Or.inl rfl
      · exact Or.inr ⟨sc, hsc, (hpred prev gaps h1).1 x h2⟩
    · exact part x h

/-! ### G2 at the level of fused scaffolds -/

theorem fused_gap_runs (input : List Scaffold) (N0 : Nat) (g : Gap) (b : Build)
    (hc : CInv input N0 (some g) b) (hex : ∀ e ∈ b.extra, ExtraGapOK input b.found b.joinGap e)
    (hntg : StoreNTG b.store ∧ ExtraNTG b.extra)
    (hstr : ∀ sc ∈ input, ∀ q ∈ gapRuns sc.rows, StrandPM q.1 ∧ StrandPM q.2.2) :
    ∀ s ∈ fuseByName b, ∀ t ∈ gapRuns s.rows, RunOK input g t := by
  intro s hs
  refine (C01.fuseByName_all (fun rows => NoTerminalGap rows ∧ ∀ t ∈ gapRuns rows, RunOK input g t) b ?_ ?_ s hs).1.2
  · intro r hr _ hne
    have hn2 := noTerminalGap_toScaffoldRows _ (hntg.1 r hr)
    have hne' := C01.toScaffoldRows_ne_nil _ hne
    have part : ∀ t ∈ gapRuns r.o.toScaffoldRows, RunOK input g t := by
      intro t ht
      obtain ⟨sc, hsc, hI⟩ := (hc.store r hr).inv
      obtain ⟨q, hq, hm⟩ := toScaffoldRows_runs hI.content (hstr sc hsc) t ht
      exact Or.inr ⟨sc, hsc, q, hq, hm⟩
    refine ⟨?_, fun built hbne hb => ?_⟩
    · rw [appendRows_nil]; exact ⟨hn2, part⟩
    · refine ⟨(C01.noTerminalGap_appendRows _ _ _ (Or.inr hb.1) hn2 hne').1, ?_⟩
      rw [hc.jg, appendRows_some _ _ _ hbne]
      intro t ht
      rcases gapRuns_seam built _ [g] hb.1 hbne hn2 hne' t ht with h | h | ⟨a, c, _, _, rfl⟩
      · exact hb.2 t h
      · exact part t h
      · exact Or.inl rfl
  · intro e he hne
    have hn2 := hntg.2 e he
    obtain ⟨sc, hsc, _, hpred, hruns⟩ := hex e he
    have part : ∀ t ∈ gapRuns e.1.rows, RunOK input g t := by
      intro t ht
      rcases hruns t ht with h | ⟨j, hj, h⟩
      · exact Or.inr ⟨sc, hsc, t, h, Or.inl ⟨rfl, rfl⟩⟩
      · rw [hc.jg] at hj; cases hj; exact Or.inl h
    refine ⟨⟨hn2, part⟩, fun built hbne hb => ?_⟩
    rw [hc.jg]
    obtain ⟨M, hM, hcase⟩ := gapsBeforeLeftover_cases g built hbne e.2
    rw [hM]
    refine ⟨noTerminalGap_leftover_add built _ e.1.rows hb.1 hbne hn2 hne, ?_⟩
    intro t ht
    rcases gapRuns_seam built _ M hb.1 hbne hn2 hne t ht with h | h | ⟨a, c, hla, hhd, rfl⟩
    · exact hb.2 t h
    · exact part t h
    · rcases hcase with rfl | ⟨prev, last, hp, hl, hface⟩
      · exact Or.inl rfl
      · have ea : last = a := by
          rw [hl] at hla
          injection hla with hla
          injection hla
        have hface' : FacingEnd a prev := ea ▸ hface
        have hin := (hpred prev M hp).2 c hhd
        have hl' : leftFacing a = leftFacing prev := facingEnd_leftFacing a prev (hstr sc hsc _ hin).1 hface'
        refine Or.inr ⟨sc, hsc, (prev, M, c), hin, Or.inl ⟨?_, rfl⟩⟩
        simp [facingEnds, hl']

/-- `make_stats` completed ⇒ consecutive input fragments (gap rows between them or not) have strands ±1 -/
theorem input_run_strands_of_stats (input : List Scaffold) (outs : List OutAsm) (cuts : Int) (st : Stats)
    (h : makeStats input outs cuts = .ok st) :
    ∀ sc ∈ input, ∀ q ∈ gapRuns sc.rows, StrandPM q.1 ∧ StrandPM q.2.2 := by
  obtain ⟨okI, _⟩ := (C11.makeStats_ok_iff input outs cuts).mp ⟨st, h⟩
  rintro sc hsc ⟨a, G, b⟩ hq
  obtain ⟨S, hS⟩ := okI sc hsc
  obtain ⟨pre, post, e⟩ := gapRuns_fragmentsOf sc.rows a b G hq
  exact C11.junctionSet_ok_strands sc S hS pre a b post e

end AgpTpf.C07
