/-
  Helper lemmas for C14: complement table, reverse complement, `Scaffold.reverse`, and the body of a reversed scaffold.
-/
import AgpTpf.Proofs.C03Stream
namespace AgpTpf.C14Proofs
open AgpTpf AgpTpf.StreamProofs

/-! ### the 256-entry table (regenerated from the source on every run, so re-proved against the current source) -/

theorem table_length : Gen.complementTable.length = 256 := by decide +kernel

theorem comp_lt_256 : ∀ b, b < 256 → comp b < 256 := by decide +kernel

theorem comp_comp_256 : ∀ b, b < 256 → comp (comp b) = b := by decide +kernel

/-- outside the table (`b ≥ 256`, not a byte) the model's `getD` default leaves the value alone -/
theorem comp_big (b : Nat) (h : 256 ≤ b) : comp b = b := by
  unfold comp
  rw [List.getD_eq_getElem?_getD, List.getElem?_eq_none (by rw [table_length]; exact h)]
  rfl

theorem comp_comp (b : Nat) : comp (comp b) = b := by
  by_cases h : b < 256
  · exact comp_comp_256 b h
  · rw [comp_big b (by omega), comp_big b (by omega)]

theorem revcomp_revcomp (s : Bytes) : reverseComplement (reverseComplement s) = s := by
  unfold reverseComplement
  rw [← List.map_reverse, List.reverse_reverse, List.map_map]
  have : comp ∘ comp = id := by funext b; exact comp_comp b
  rw [this, List.map_id]

theorem comp_gapByte : comp gapByte = gapByte := by decide +kernel

theorem revcomp_replicate_gap (n : Nat) :
    reverseComplement (List.replicate n gapByte) = List.replicate n gapByte := by
  simp [reverseComplement, comp_gapByte]

/-! ### `Scaffold.reverse` -/

theorem fragment_reverse_reverse (f : Fragment) : f.reverse.reverse = f := by
  cases f
  simp only [Fragment.reverse, Fragment.mk.injEq, true_and, and_true]
  omega

theorem row_reverse_reverse (r : Row) : r.reverse.reverse = r := by
  cases r with
  | frag f => simp [Row.reverse, fragment_reverse_reverse]
  | gap g => rfl

theorem row_reverse_length (r : Row) : r.reverse.length = r.length := by
  cases r with
  | frag f => simp [Row.reverse, Row.length, Fragment.reverse, Fragment.length]
  | gap g => rfl

theorem sumInts_append (a b : List Int) : sumInts (a ++ b) = sumInts a + sumInts b := by
  induction a with
  | nil => simp [sumInts]
  | cons x a ih => simp only [List.cons_append, sumInts, ih]; omega

theorem sumInts_reverse (a : List Int) : sumInts a.reverse = sumInts a := by
  induction a with
  | nil => rfl
  | cons x a ih => simp only [List.reverse_cons, sumInts_append, sumInts, ih]; omega

theorem rowsLength_reverse (rows : List Row) : rowsLength ((rows.reverse).map Row.reverse) = rowsLength rows := by
  unfold rowsLength
  rw [List.map_map]
  have : Row.length ∘ Row.reverse = Row.length := by funext r; exact row_reverse_length r
  rw [this, List.map_reverse, sumInts_reverse]

/-! ### the sequence of a reversed scaffold -/

theorem rowBody_reverse (resOf : Str → Bytes) (r : Row)
    (h : ∀ f, r = .frag f → f.strand = 1 ∨ f.strand = -1) :
    rowBody resOf r.reverse = reverseComplement (rowBody resOf r) := by
  cases r with
  | gap g => simp [Row.reverse, rowBody, revcomp_replicate_gap]
  | frag f =>
    rcases h f rfl with h1 | h1
    · simp [Row.reverse, rowBody, Fragment.reverse, h1]
    · simp [Row.reverse, rowBody, Fragment.reverse, h1, revcomp_revcomp]

theorem rowsBody_reverse (resOf : Str → Bytes) : ∀ (rows : List Row),
    (∀ f, Row.frag f ∈ rows → f.strand = 1 ∨ f.strand = -1) →
    rowsBody resOf ((rows.reverse).map Row.reverse) = reverseComplement (rowsBody resOf rows)
  | [], _ => by simp [rowsBody, reverseComplement]
  | r :: rest, h => by
    have ih := rowsBody_reverse resOf rest (fun f hf => h f (by simp [hf]))
    have hr := rowBody_reverse resOf r (fun f hf => h f (by simp [hf]))
    unfold rowsBody at *
    simp only [List.reverse_cons, List.map_append, List.flatten_append, List.map_cons, List.map_nil,
      List.flatten_cons, List.flatten_nil, List.append_nil, ih, hr, reverseComplement_append]

theorem rowOK_reverse {file : Bytes} {idx : List (Str × FastaInfo)} {resOf : Str → Bytes} (r : Row)
    (h : RowOK file idx resOf r) : RowOK file idx resOf r.reverse := by
  cases r with
  | gap g => trivial
  | frag f => exact h

end AgpTpf.C14Proofs
