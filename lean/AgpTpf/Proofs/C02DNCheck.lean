/-
  C02 (deep cuts, any number of cuts per contig), part 4: a Bool checker for `DeepCutN`, the cut count, and the rows of the
  two pieces on either side of a cut.
-/
import AgpTpf.Proofs.C02DNOut
import AgpTpf.Proofs.C02DCheck
namespace AgpTpf.C02
open AgpTpf

/-- consecutive elements pass the check -/
def adjB {α} (f : α → α → Bool) : List α → Bool
  | [] => true
  | [_] => true
  | a :: b :: t => f a b && adjB f (b :: t)

theorem adj_of_adjB {α} (f : α → α → Bool) (r : α → α → Prop) (h : ∀ a b, f a b = true → r a b) :
    ∀ (l : List α), adjB f l = true → Adj r l
  | [], _ => trivial
  | [_], _ => trivial
  | a :: b :: t, hl => by
    simp only [adjB, Bool.and_eq_true] at hl
    exact ⟨h a b hl.1, adj_of_adjB f r h (b :: t) hl.2⟩

def deepBaseB (input ptx : List Scaffold) (err : Int) : Bool :=
  decide ((input.map (·.name)).Nodup) &&
  input.all (fun sc => sc.rows.all (fun r => decide (0 ≤ r.length))) &&
  input.all (fun sc => decide ((C18.ids sc.rows).Nodup)) &&
  decide (1 ≤ err) &&
  ptx.all (scaffoldKeepB input err) &&
  input.all (fun sc => sc.fragments.all (fun f =>
    (claimedKeys input ptx).contains f.keyTuple || (decide (f.tags = []) && decide (hapPrefixOfName f.name = none))))

theorem deepBase_of_check (input ptx : List Scaffold) (err : Int) (h : deepBaseB input ptx err = true) :
    DeepBase input ptx err := by
  unfold deepBaseB at h
  simp only [Bool.and_eq_true, decide_eq_true_eq, List.all_eq_true, Bool.or_eq_true] at h
  obtain ⟨⟨⟨⟨⟨h1, h2⟩, h3⟩, h4⟩, h5⟩, h8⟩ := h
  refine ⟨h1, h2, h3, h4, fun S hS => scaffoldKeep_of_check input err S (h5 S hS), ?_⟩
  intro sc hsc f hf hc
  rcases h8 sc hsc f hf with h | h
  · rw [hc] at h; cases h
  · exact h

/-- the checker for `DeepCutN` -/
def deepCutNB (input ptx : List Scaffold) (err : Int) : Bool :=
  deepBaseB input ptx err &&
  (sitesN input ptx).all (fun x => adjB (fun a b => siteOkB input ptx err ⟨x.key, x.frag, a, b⟩) x.chain)

theorem deepCutN_of_check (input ptx : List Scaffold) (err : Int) (h : deepCutNB input ptx err = true) :
    DeepCutN input ptx err := by
  unfold deepCutNB at h
  simp only [Bool.and_eq_true, List.all_eq_true] at h
  refine ⟨deepBase_of_check input ptx err h.1, ?_⟩
  intro x hx
  exact adj_of_adjB _ _ (fun a b hab => siteOk_of_check input ptx err _ hab) _ (h.2 x hx)

/-! ### the number of cuts -/

/-- number of (piece, shared contig) incidences -/
def incidencesN (input ptx : List Scaffold) : Nat :=
  ((sharedKeys input ptx).map (fun k => (holdersOf input ptx k).length)).sum

theorem cutsN_eq (input ptx : List Scaffold) :
    cutsN input ptx = (incidencesN input ptx : Int) - ((sharedKeys input ptx).length : Int) := by
  unfold cutsN incidencesN offs sitesN
  rw [List.length_map, List.map_map]
  congr 2
  apply congrArg
  apply List.map_congr_left
  intro k hk
  obtain ⟨fnd, hget, -, -, he⟩ := site_casesN input ptx k hk
  simp only [Function.comp, he, holdersOf, hget]
  exact (C01.stableSort_perm _ _).length_eq

end AgpTpf.C02
