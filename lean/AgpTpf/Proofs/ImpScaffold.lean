/-
  Helper lemmas for `Properties/C17Imp.lean` and `Properties/C19Imp.lean`: the translated Python source of
  `Scaffold.fragment_tags`, `Scaffold.length`, `Scaffold.fragments_length` and `Assembly.all_vs_all_fragments` (with the
  callback of `find_overlapping_fragments` inlined) against the hand-written model (`Model/Basic.lean`, `Model/AsmFormat.lean`).

  Layout: (1) the loop combinator `PyRt.forIn` when no pass breaks / returns / raises = a `foldl`; (2) `PyRt.rangeUp` and
  index loops `for k in range(a, len(l)): … l[k] …` = a fold over the suffixes of `l`; (3) the folds the two functions compute;
  (4) the tie lemmas.

  The loop lemmas take the loop body as a parameter and ask only what one pass returns, so they do not depend on the text of
  the generated body.
-/
import AgpTpf.Gen.Imp
import AgpTpf.Model.AsmFormat
import AgpTpf.Proofs.AsmFormatQc
set_option linter.unusedSimpArgs false
namespace AgpTpf.ImpScaffold
open AgpTpf AgpTpf.C19 AgpTpf.AsmFormat

/-! ### 1. `for x in xs:` whose passes all fall off the end -/

/-- a loop whose every pass ends normally with the state `f s x` is `foldl f` -/
theorem forIn_next {α σ ρ : Type} (body : α → σ → R (PyRt.Ctl σ ρ)) (f : σ → α → σ)
    (h : ∀ x s, body x s = .ok (.next (f s x))) (l : List α) (s : σ) :
    PyRt.forIn l s body = .ok (.fell (l.foldl f s)) := by
  induction l generalizing s with
  | nil => rfl
  | cons x t ih => simp only [PyRt.forIn, h, ih, List.foldl_cons]

/-- `if p x: s = g(s, x)` over a list is `g` folded over the elements that pass the test -/
theorem foldl_ite_eq_filter {α σ : Type} (p : α → Bool) (g : σ → α → σ) (l : List α) (s : σ) :
    l.foldl (fun acc x => if p x = true then g acc x else acc) s = (l.filter p).foldl g s := by
  induction l generalizing s with
  | nil => rfl
  | cons x t ih =>
    cases hp : p x <;> simp [List.filter, hp, ih]

/-- `if p x: out.append(h x)` over a list appends the images of the elements that pass the test -/
theorem foldl_ite_append {α β : Type} (p : α → Bool) (g : α → β) (l : List α) (s : List β) :
    l.foldl (fun acc x => if p x = true then acc ++ [g x] else acc) s = s ++ (l.filter p).map g := by
  induction l generalizing s with
  | nil => simp
  | cons x t ih =>
    cases hp : p x <;> simp [List.filter, hp, ih]

/-- `for x in xs: out.extend(g x)` -/
theorem foldl_append_flatMap {α β : Type} (g : α → List β) (l : List α) (s : List β) :
    l.foldl (fun acc x => acc ++ g x) s = s ++ l.flatMap g := by
  induction l generalizing s with
  | nil => simp
  | cons x t ih => simp [ih, List.flatMap_cons, List.append_assoc]

/-! ### 2. `range(a, b)` and index loops -/

theorem rangeUp_nil (a b : Int) (h : b ≤ a) : PyRt.rangeUp a b = [] := by
  have : (b - a).toNat = 0 := by omega
  simp [PyRt.rangeUp, this]

theorem rangeUp_cons (a b : Int) (h : a < b) : PyRt.rangeUp a b = a :: PyRt.rangeUp (a + 1) b := by
  obtain ⟨m, hm⟩ : ∃ m : Nat, (b - a).toNat = m + 1 := ⟨(b - a).toNat - 1, by omega⟩
  have hm' : (b - (a + 1)).toNat = m := by omega
  simp only [PyRt.rangeUp, hm, hm', List.range_succ_eq_map, List.map_cons, List.map_map]
  congr 1
  · simp
  · refine List.map_congr_left ?_
    intro k _
    simp only [Function.comp, Int.ofNat_eq_natCast]
    omega

/-- `l[k]` for an index `k` that is in range (a non-negative Python index) -/
theorem pyGet_natCast {α : Type} (l : List α) (k : Nat) (x : α) (h : l[k]? = some x) : pyGet l (k : Int) = .ok x := by
  have hk : k < l.length := (List.getElem?_eq_some_iff.1 h).1
  have h1 : ¬ ((k : Int) < 0) := by omega
  have h2 : ¬ ((k : Int) < 0 ∨ (l.length : Int) ≤ (k : Int)) := by omega
  unfold pyGet
  simp only [h1, if_false, false_or, Int.toNat_natCast, h]
  rw [if_neg (by omega)]

/-- the state after visiting the elements of a list one after the other, each together with the elements after it -/
def foldTails {α σ : Type} (f : σ → α → List α → σ) : σ → List α → σ
  | s, [] => s
  | s, x :: r => foldTails f (f s x r) r

/-- `for k in range(a, len(l)):` whose pass for index `k` ends normally in a state that depends on `l[k]` and `l[k+1:]` only -/
theorem forIn_rangeUp_foldTails {α σ ρ : Type} (l : List α) (body : Int → σ → R (PyRt.Ctl σ ρ)) (f : σ → α → List α → σ)
    (h : ∀ (k : Nat) (x : α) (s : σ), l[k]? = some x → body (k : Int) s = .ok (.next (f s x (l.drop (k + 1)))))
    (a : Nat) (s : σ) :
    PyRt.forIn (PyRt.rangeUp (a : Int) (l.length : Int)) s body = .ok (.fell (foldTails f s (l.drop a))) := by
  generalize hd : l.length - a = d
  induction d generalizing a s with
  | zero =>
    have hle : l.length ≤ a := by omega
    rw [rangeUp_nil _ _ (by omega), List.drop_eq_nil_of_le hle]
    rfl
  | succ d ih =>
    have hlt : a < l.length := by omega
    have hx : l[a]? = some l[a] := List.getElem?_eq_getElem hlt
    rw [rangeUp_cons _ _ (by omega), List.drop_eq_getElem_cons hlt]
    simp only [PyRt.forIn, h a _ s hx, foldTails]
    have := ih (a + 1) (f s l[a] (List.drop (a + 1) l)) (by omega)
    rw [← this]
    congr 2

/-- the same when the pass does not look at the later elements: a `foldl` over `l[a:]` -/
theorem forIn_rangeUp_foldl {α σ ρ : Type} (l : List α) (body : Int → σ → R (PyRt.Ctl σ ρ)) (f : σ → α → σ)
    (h : ∀ (k : Nat) (x : α) (s : σ), l[k]? = some x → body (k : Int) s = .ok (.next (f s x)))
    (a : Nat) (s : σ) :
    PyRt.forIn (PyRt.rangeUp (a : Int) (l.length : Int)) s body = .ok (.fell ((l.drop a).foldl f s)) := by
  rw [forIn_rangeUp_foldTails l body (fun s x _ => f s x) h a s]
  congr 2
  generalize l.drop a = t
  induction t generalizing s with
  | nil => rfl
  | cons x r ih => simp only [foldTails, List.foldl_cons, ih]

/-! ### 3. what the loops of the two functions compute -/

/-- the pairs `(x, y)` with `x` before `y` and `x.1` overlapping `y.1`, in scan order, whatever rides along with the fragments -/
def ovPairs {β : Type} : List (Fragment × β) → List ((Fragment × β) × (Fragment × β))
  | [] => []
  | x :: r => ((r.filter (fun y => x.1.overlaps y.1)).map (fun y => (x, y))) ++ ovPairs r

theorem foldTails_ovPairs {β : Type} (l : List (Fragment × β)) (s : List ((Fragment × β) × (Fragment × β))) :
    foldTails (fun acc x r => acc ++ (r.filter (fun y => x.1.overlaps y.1)).map (fun y => (x, y))) s l = s ++ ovPairs l := by
  induction l generalizing s with
  | nil => simp [foldTails, ovPairs]
  | cons x r ih => simp only [foldTails, ovPairs, ih, List.append_assoc]

theorem ovPairs_eq_filter_allPairs {β : Type} (l : List (Fragment × β)) :
    ovPairs l = (allPairs l).filter (fun p => p.1.1.overlaps p.2.1) := by
  induction l with
  | nil => rfl
  | cons x r ih =>
    simp only [ovPairs, allPairs, List.filter_append, ih, List.filter_map]
    rfl

/-- reducing what rides along (the scaffold object → its name) commutes with the scan -/
theorem ovPairs_map {β γ : Type} (g : β → γ) (l : List (Fragment × β)) :
    (ovPairs l).map (fun p => ((p.1.1, g p.1.2), (p.2.1, g p.2.2))) = ovPairs (l.map (fun x => (x.1, g x.2))) := by
  induction l with
  | nil => rfl
  | cons x r ih =>
    simp only [ovPairs, List.map_cons, List.map_append, ih, List.map_map, List.filter_map]
    rfl

theorem overlappingPairsNamed_eq_ovPairs (l : List (Fragment × Str)) :
    overlappingPairsNamed l = (ovPairs l).map mkOvPair := by
  induction l with
  | nil => rfl
  | cons x r ih =>
    simp only [overlappingPairsNamed, ovPairs, List.map_append, ih, List.map_map]
    rfl

/-- the list `frags` of `all_vs_all_fragments`: every fragment with its scaffold OBJECT, scaffold after scaffold -/
def fragsWithScaffoldObj (scaffolds : List Scaffold) : List (Fragment × Scaffold) :=
  scaffolds.flatMap (fun s => s.fragments.map (fun f => (f, s)))

theorem fragsWithScaffoldObj_names (a : Assembly) :
    (fragsWithScaffoldObj a.scaffolds).map (fun x => (x.1, x.2.name)) = a.fragmentsWithScaffold := by
  unfold fragsWithScaffoldObj Assembly.fragmentsWithScaffold
  induction a.scaffolds with
  | nil => rfl
  | cons s t ih => simp only [List.flatMap_cons, List.map_append, ih, List.map_map]; rfl

/-! ### 4. the tie lemmas -/

theorem fragment_tags_tie (s : Scaffold) : Gen.Imp.Scaffold_fragment_tags s = .ok s.fragmentTags := by
  unfold Gen.Imp.Scaffold_fragment_tags Scaffold.fragmentTags
  dsimp only
  rw [forIn_next (f := fun acc (f : Fragment) => (f.tags.filter (fun t => !t.isEmpty)).foldl sAdd acc)]
  · rfl
  · intro frag ts
    rw [forIn_next (f := fun acc (t : Str) => if (!t.isEmpty) = true then sAdd acc t else acc)]
    · simp only [foldl_ite_eq_filter]; rfl
    · intro t acc
      by_cases ht : (!t.isEmpty) = true <;> simp only [ht, if_true, if_false] <;> rfl

theorem scaffold_length_tie (s : Scaffold) : Gen.Imp.Scaffold_length_imp s = .ok s.length := by
  simp only [Gen.Imp.Scaffold_length_imp, PyRt.sum, Scaffold.length, rowsLength]

theorem scaffold_fragments_length_tie (s : Scaffold) : Gen.Imp.Scaffold_fragments_length s = .ok s.fragmentsLength := by
  simp only [Gen.Imp.Scaffold_fragments_length, PyRt.sum, Scaffold.fragmentsLength]

/-- the scan of the source over the scaffold objects: all position pairs `i < j` of `frags` whose fragments overlap -/
theorem all_vs_all_tie (scaffolds : List Scaffold) :
    Gen.Imp.Assembly_all_vs_all_fragments_detect scaffolds = .ok (ovPairs (fragsWithScaffoldObj scaffolds)) := by
  unfold Gen.Imp.Assembly_all_vs_all_fragments_detect fragsWithScaffoldObj
  dsimp only
  rw [forIn_next (f := fun acc (s : Scaffold) => acc ++ s.fragments.map (fun x => (x, s))) (h := fun _ _ => rfl)]
  simp only [foldl_append_flatMap, List.nil_append, bind, Except.bind, Int.ofNat_eq_natCast]
  generalize List.flatMap (fun s : Scaffold => s.fragments.map (fun x => (x, s))) scaffolds = frags
  have key := forIn_rangeUp_foldTails (ρ := List ((Fragment × Scaffold) × (Fragment × Scaffold))) frags
    (f := fun acc x r => acc ++ (r.filter (fun y => x.1.overlaps y.1)).map (fun y => (x, y)))
  rw [show (0 : Int) = ((0 : Nat) : Int) from rfl, key]
  · simp only [List.drop_zero, foldTails_ovPairs, List.nil_append]
  · intro k x acc hx
    have hk : (k : Int) + 1 = ((k + 1 : Nat) : Int) := by omega
    rw [hk, forIn_rangeUp_foldl (f := fun acc y => if x.1.overlaps y.1 = true then acc ++ [(x, y)] else acc)]
    · simp only [foldl_ite_append]
    · intro j y acc' hy
      simp only [pyGet_natCast frags k x hx, pyGet_natCast frags j y hy, bind, Except.bind]
      cases ho : x.1.overlaps y.1 <;> simp only [Bool.false_eq_true, if_true, if_false]

end AgpTpf.ImpScaffold
