/-
  T1c helper lemmas for the five small kernels (add_scaffold, qc_sub_fragments, append_scaffold, to_scaffold,
  Fragment.reverse): loop lemmas over `PyRt.forIn`, `PyRt.slice l none (some (-1))`, `PyRt.enumerate` + `pyGet (i+1)`.
  Nothing here mentions a generated term: the lemmas are about the run-time combinators and the model functions only.
-/
import AgpTpf.Model.PyRt
import AgpTpf.Model.Lookup
import AgpTpf.Model.Remap
namespace AgpTpf.ImpSmall
open AgpTpf

/-! ### the join of an `if` whose branches both fall through: `(if c then .ok a else .ok b) >>= f` -/

theorem ok_bind {α β : Type} (a : α) (f : α → R β) : ((Except.ok a : R α) >>= f) = f a := rfl

theorem ite_ok_bind {α β : Type} (c : Prop) [Decidable c] (a b : α) (f : α → R β) :
    ((if c then (Except.ok a : R α) else Except.ok b) >>= f) = f (if c then a else b) := by
  split <;> rfl

/-! ### `forIn` with a body that never fails, never breaks and never returns is a `foldl` -/

theorem forIn_pure {α σ ρ : Type} (step : α → σ → σ) (body : α → σ → R (PyRt.Ctl σ ρ))
    (hbody : ∀ x s, body x s = .ok (.next (step x s))) (xs : List α) (s : σ) :
    PyRt.forIn xs s body = .ok (.fell (xs.foldl (fun s x => step x s) s)) := by
  induction xs generalizing s with
  | nil => rfl
  | cons x xs ih => simp only [PyRt.forIn, hbody, List.foldl_cons]; exact ih _

/-! ### add_scaffold: the cumulative-end loop -/

/-- the loop state of `add_scaffold` as the translator packs it (carried variables ordered by type, then name: `idx : List Int`, `end : Int`) -/
abbrev idxPack (e : Int) (idx : List Int) : List Int × Int := (idx, e)

/-- one pass of `end += row.length; idx.append(end)` -/
def idxStep (row : Row) (s : List Int × Int) : List Int × Int := idxPack (s.2 + row.length) (s.1 ++ [s.2 + row.length])

theorem foldl_idxStep (rows : List Row) (e : Int) (idx : List Int) :
    rows.foldl (fun s x => idxStep x s) (idxPack e idx) = idxPack (e + rowsLength rows) (idx ++ cumEnds e rows) := by
  induction rows generalizing e idx with
  | nil => simp [rowsLength, sumInts, cumEnds]
  | cons r rs ih =>
    rw [List.foldl_cons, show idxStep r (idxPack e idx) = idxPack (e + r.length) (idx ++ [e + r.length]) from rfl, ih]
    simp only [cumEnds, rowsLength, List.map_cons, sumInts, List.append_assoc, List.cons_append,
      List.nil_append, idxPack]
    rw [Int.add_assoc]

/-! ### append_scaffold -/

theorem appendRows_some (rows othr : List Row) (g : Gap) :
    Scaffold.appendRows rows othr (some g) = (if (!rows.isEmpty) = true then rows ++ [Row.gap g] else rows) ++ othr := by
  unfold Scaffold.appendRows
  cases rows <;> simp

/-- `append_scaffold(othr, gap)` on the rows, for an arbitrary row object `gap` (Python: `if gap and self.rows: self.add_row(gap)`,
    then `self.rows.extend(othr.rows)`) -/
def appendRowsRow (rows othr : List Row) (gap : Option Row) : List Row :=
  match gap with
  | some r => if rows.isEmpty then othr else rows ++ [r] ++ othr
  | none => rows ++ othr

/-- the same, written as the two statements of the Python -/
theorem appendRowsRow_eq (rows othr : List Row) (gap : Option Row) :
    appendRowsRow rows othr gap
      = (match gap with
         | some r => if rows.isEmpty then rows else rows ++ [r]
         | none => rows) ++ othr := by
  unfold appendRowsRow
  cases gap with
  | none => rfl
  | some r => cases rows <;> simp

theorem appendRowsRow_some (rows othr : List Row) (r : Row) :
    appendRowsRow rows othr (some r) = (if (!rows.isEmpty) = true then rows ++ [r] else rows) ++ othr := by
  unfold appendRowsRow
  cases rows <;> simp

/-- with a Gap (or None) it is the model's `appendRows` -/
theorem appendRowsRow_gap (rows othr : List Row) (g : Option Gap) :
    appendRowsRow rows othr (g.map Row.gap) = Scaffold.appendRows rows othr g := by
  cases g <;> rfl

/-! ### qc_sub_fragments -/

/-- the sort key `(frag.start, frag.end)` compared as Python compares tuples is the model's `lexLe` -/
theorem lexLe2_key_eq_lexLe :
    (fun (a b : Fragment) => PyRt.lexLe2 (a.start, a.stop) (b.start, b.stop)) = lexLe := by
  funext a b
  unfold PyRt.lexLe2 lexLe
  by_cases h1 : a.start < b.start
  · simp [h1]
  · by_cases h2 : a.start > b.start
    · have : ¬ a.start = b.start := by omega
      simp [h1, h2, this]
    · have : a.start = b.start := by omega
      simp [this]

/-- `l[:-1]` -/
theorem slice_none_neg_one {α : Type} (l : List α) : PyRt.slice l none (some (-1)) = l.dropLast := by
  unfold PyRt.slice PyRt.clampIdx
  simp only [List.drop_zero, Nat.sub_zero]
  rw [List.dropLast_eq_take]
  congr 1
  cases l with
  | nil => simp
  | cons x xs =>
    simp only [List.length_cons]
    have h0 : (-1 : Int) < 0 := by decide
    have h : ¬ ((-1 : Int) + ((xs.length + 1 : Nat) : Int) < 0) := by omega
    simp only [h0, if_true]
    rw [if_neg h]
    omega

theorem pyGet_nat {α : Type} (l : List α) (k : Nat) (x : α) (h : l[k]? = some x) : pyGet l (k : Int) = .ok x := by
  have hk : k < l.length := by
    rcases Nat.lt_or_ge k l.length with h' | h'
    · exact h'
    · rw [List.getElem?_eq_none h'] at h; cases h
  unfold pyGet
  have h1 : ¬ ((k : Int) < 0) := by omega
  have h2 : ¬ ((k : Int) < 0 ∨ (l.length : Int) ≤ (k : Int)) := by omega
  simp only [h1, if_false, Int.toNat_natCast, h, false_or]
  rw [if_neg (show ¬ ((l.length : Int) ≤ (k : Int)) by omega)]

/-- consecutive pairs `(l[i], l[i+1])` -/
def consPairs {α : Type} (l : List α) : List (α × α) := l.zip (l.drop 1)

/-- `for i, a in enumerate(xs): b = L[i + 1]; <pure step on a b>` where `xs` is a stretch of `L` starting at
    position `k` and followed by one more element: a fold over the consecutive pairs of that stretch. -/
theorem forIn_enum_next {α σ ρ : Type} (L : List α) (step : α → α → σ → σ)
    (body : Int × α → σ → R (PyRt.Ctl σ ρ))
    (hbody : ∀ (i : Int) (a b : α) (s : σ), pyGet L (i + 1) = .ok b → body (i, a) s = .ok (.next (step a b s)))
    (xs : List α) (z : α) (k : Nat) (hL : L.drop k = xs ++ [z]) (s : σ) :
    PyRt.forIn (PyRt.enumerateFrom (k : Int) xs) s body
      = .ok (.fell ((consPairs (xs ++ [z])).foldl (fun s p => step p.1 p.2 s) s)) := by
  induction xs generalizing k s with
  | nil => simp [PyRt.enumerateFrom, PyRt.forIn, consPairs]
  | cons x xs ih =>
    have hL' : L.drop (k + 1) = xs ++ [z] := by
      have : L.drop (k + 1) = (L.drop k).drop 1 := by rw [List.drop_drop]
      rw [this, hL]; rfl
    -- the element after `x`
    obtain ⟨y, hy⟩ : ∃ y, (xs ++ [z])[0]? = some y := by
      cases xs <;> simp
    have hget : L[k + 1]? = some y := by
      have : (L.drop (k + 1))[0]? = some y := by rw [hL']; exact hy
      simpa [List.getElem?_drop] using this
    have hpy : pyGet L ((k : Int) + 1) = .ok y := by
      have := pyGet_nat L (k + 1) y hget
      simpa using this
    have hzip : consPairs (x :: (xs ++ [z])) = (x, y) :: consPairs (xs ++ [z]) := by
      unfold consPairs
      generalize xs ++ [z] = t at hy
      cases t with
      | nil => simp at hy
      | cons w ws =>
        simp only [List.length_cons, Nat.zero_lt_succ, List.getElem?_eq_getElem, List.getElem_cons_zero,
          Option.some.injEq] at hy
        subst hy
        simp
    simp only [PyRt.enumerateFrom, PyRt.forIn, hbody (k : Int) x y s hpy]
    have hk : ((k : Int) + 1) = ((k + 1 : Nat) : Int) := by omega
    rw [hk, ih (k + 1) hL']
    simp only [List.cons_append] at hzip ⊢
    rw [hzip, List.foldl_cons]

/-- the whole first loop of `qc_sub_fragments`: `for i, a in enumerate(L[:-1]): b = L[i + 1]; …` -/
theorem forIn_enum_dropLast {α σ ρ : Type} (L : List α) (step : α → α → σ → σ)
    (body : Int × α → σ → R (PyRt.Ctl σ ρ))
    (hbody : ∀ (i : Int) (a b : α) (s : σ), pyGet L (i + 1) = .ok b → body (i, a) s = .ok (.next (step a b s)))
    (s : σ) :
    PyRt.forIn (PyRt.enumerate (PyRt.slice L none (some (-1)))) s body
      = .ok (.fell ((consPairs L).foldl (fun s p => step p.1 p.2 s) s)) := by
  rw [slice_none_neg_one]
  by_cases hne : L = []
  · subst hne; rfl
  · have hL : L.drop 0 = L.dropLast ++ [L.getLast hne] := by
      rw [List.drop_zero, List.dropLast_concat_getLast]
    have := forIn_enum_next L step body hbody L.dropLast (L.getLast hne) 0 hL s
    rw [List.dropLast_concat_getLast] at this
    exact this

/-! ### positional form of the same loop: WHAT the k-th pass computes, whatever the iterable is

`for i, a in enumerate(L[:-1]): b = L[i + 1]` and `for i in range(len(L) - 1): a = L[i]; b = L[i + 1]` are the same loop: the k-th
item of the iterable leads the body to the k-th consecutive pair of `L`.  `forIn_consPairs` asks for exactly that (plus the number
of items); the facts below say what the k-th item of each iterable is, so that `simp` can close the hypothesis on the spot. -/

/-- a loop whose k-th pass (on the k-th item of `xs`) is `step` on the k-th element of `ys` is the fold of `step` over `ys` -/
theorem forIn_getElem {ι β σ ρ : Type} (ys : List β) (step : β → σ → σ) (xs : List ι)
    (body : ι → σ → R (PyRt.Ctl σ ρ)) (hlen : xs.length = ys.length)
    (hbody : ∀ (k : Nat) (h1 : k < xs.length) (h2 : k < ys.length) (s : σ), body xs[k] s = .ok (.next (step ys[k] s)))
    (s : σ) :
    PyRt.forIn xs s body = .ok (.fell (ys.foldl (fun s y => step y s) s)) := by
  induction xs generalizing ys s with
  | nil =>
    cases ys with
    | nil => rfl
    | cons y ys => simp at hlen
  | cons x xs ih =>
    cases ys with
    | nil => simp at hlen
    | cons y ys =>
      have h0 := hbody 0 (by simp) (by simp) s
      simp only [List.getElem_cons_zero] at h0
      simp only [PyRt.forIn, h0, List.foldl_cons]
      refine ih ys (by simpa using hlen) ?_ _
      intro k h1 h2 s'
      have := hbody (k + 1) (by simpa using h1) (by simpa using h2) s'
      simpa only [List.getElem_cons_succ] using this

theorem consPairs_length {α : Type} (L : List α) : (consPairs L).length = L.length - 1 := by
  unfold consPairs
  simp only [List.length_zip, List.length_drop]
  omega

theorem consPairs_getElem {α : Type} (L : List α) (k : Nat) (h : k < (consPairs L).length) :
    (consPairs L)[k] = (L[k]'(by rw [consPairs_length] at h; omega), L[k + 1]'(by rw [consPairs_length] at h; omega)) := by
  have h' : k < (L.zip (L.drop 1)).length := h
  show (L.zip (L.drop 1))[k]'h' = _
  simp only [List.getElem_zip, List.getElem_drop]
  congr 2
  omega

/-- a loop over ANY iterable with `len(L) - 1` items whose k-th pass is `step L[k] L[k + 1]`: the fold over consecutive pairs -/
theorem forIn_consPairs {ι α σ ρ : Type} (L : List α) (step : α → α → σ → σ) (xs : List ι)
    (body : ι → σ → R (PyRt.Ctl σ ρ)) (hlen : xs.length = L.length - 1)
    (hbody : ∀ (k : Nat) (h1 : k < xs.length) (h2 : k + 1 < L.length) (s : σ),
      body xs[k] s = .ok (.next (step L[k] L[k + 1] s)))
    (s : σ) :
    PyRt.forIn xs s body = .ok (.fell ((consPairs L).foldl (fun s p => step p.1 p.2 s) s)) := by
  refine forIn_getElem (consPairs L) (fun p s => step p.1 p.2 s) xs body (by rw [hlen, consPairs_length]) ?_ s
  intro k h1 h2 s'
  rw [consPairs_getElem L k h2]
  exact hbody k h1 (by rw [consPairs_length] at h2; omega) s'

/-! the k-th item of `enumerate(l)`, of `l[:-1]`, of `range(a, b)`; `l[k]`, `l[k + 1]` for a position `k` -/

theorem length_enumerateFrom {α : Type} (i : Int) (l : List α) : (PyRt.enumerateFrom i l).length = l.length := by
  induction l generalizing i with
  | nil => rfl
  | cons x xs ih => simp only [PyRt.enumerateFrom, List.length_cons, ih]

theorem length_enumerate {α : Type} (l : List α) : (PyRt.enumerate l).length = l.length := length_enumerateFrom 0 l

theorem getElem_enumerateFrom {α : Type} (i : Int) (l : List α) (k : Nat) (h : k < (PyRt.enumerateFrom i l).length) :
    (PyRt.enumerateFrom i l)[k] = (i + (k : Int), l[k]'(by rw [length_enumerateFrom] at h; exact h)) := by
  induction l generalizing i k with
  | nil => simp [PyRt.enumerateFrom] at h
  | cons x xs ih =>
    cases k with
    | zero => simp [PyRt.enumerateFrom]
    | succ k =>
      simp only [PyRt.enumerateFrom, List.getElem_cons_succ]
      rw [ih]
      congr 1
      omega

theorem getElem_enumerate {α : Type} (l : List α) (k : Nat) (h : k < (PyRt.enumerate l).length) :
    (PyRt.enumerate l)[k] = ((k : Int), l[k]'(by rw [length_enumerate] at h; exact h)) := by
  have h' : k < (PyRt.enumerateFrom 0 l).length := h
  show (PyRt.enumerateFrom 0 l)[k]'h' = _
  rw [getElem_enumerateFrom]
  congr 1
  omega

theorem length_slice_none_neg_one {α : Type} (l : List α) : (PyRt.slice l none (some (-1))).length = l.length - 1 := by
  rw [slice_none_neg_one, List.length_dropLast]

theorem getElem_slice_none_neg_one {α : Type} (l : List α) (k : Nat) (h : k < (PyRt.slice l none (some (-1))).length) :
    (PyRt.slice l none (some (-1)))[k] = l[k]'(by rw [length_slice_none_neg_one] at h; omega) := by
  simp only [slice_none_neg_one, List.getElem_dropLast]

theorem length_rangeUp (a b : Int) : (PyRt.rangeUp a b).length = (b - a).toNat := by
  simp [PyRt.rangeUp]

theorem getElem_rangeUp (a b : Int) (k : Nat) (h : k < (PyRt.rangeUp a b).length) : (PyRt.rangeUp a b)[k] = a + (k : Int) := by
  simp [PyRt.rangeUp]

theorem pyGet_natCast {α : Type} (l : List α) (k : Nat) (h : k < l.length) : pyGet l (k : Int) = .ok l[k] :=
  pyGet_nat l k l[k] (List.getElem?_eq_getElem h)

theorem pyGet_natCast_succ {α : Type} (l : List α) (k : Nat) (h : k + 1 < l.length) : pyGet l ((k : Int) + 1) = .ok l[k + 1] := by
  have := pyGet_natCast l (k + 1) h
  simpa using this

/-- the state of the first loop as the translator packs it (carried variables ordered by type, then by name:
    `pairs_with_gaps : List …`, `abut_count : Int`, `overlap_count : Int`).  Everything below goes through `QSt.pack` and the three
    named projections, so a change of the order is repaired here only. -/
abbrev QSt : Type := List (Fragment × Fragment × Option Int) × Int × Int
namespace QSt
abbrev pack (abut over : Int) (pairs : List (Fragment × Fragment × Option Int)) : QSt := (pairs, abut, over)
abbrev abut (s : QSt) : Int := s.2.1
abbrev over (s : QSt) : Int := s.2.2
abbrev pairs (s : QSt) : List (Fragment × Fragment × Option Int) := s.1
theorem eta (s : QSt) : s = pack s.abut s.over s.pairs := rfl
@[simp] theorem abut_pack (a o : Int) (p : List (Fragment × Fragment × Option Int)) : (pack a o p).abut = a := rfl
@[simp] theorem over_pack (a o : Int) (p : List (Fragment × Fragment × Option Int)) : (pack a o p).over = o := rfl
@[simp] theorem pairs_pack (a o : Int) (p : List (Fragment × Fragment × Option Int)) : (pack a o p).pairs = p := rfl
end QSt

/-- what one pass of the first loop does to `(abut_count, overlap_count, pairs_with_gaps)` -/
def qcStep (a b : Fragment) (s : QSt) : QSt :=
  QSt.pack (if a.abuts b then s.abut + 1 else s.abut)
   (if a.overlaps b then s.over + 1 else s.over)
   (if (match a.gapBetween b with | some v => decide (v ≠ 0) | none => false) then s.pairs ++ [(a, b, a.gapBetween b)] else s.pairs)

theorem foldl_qcStep (pairs : List (Fragment × Fragment)) (s : QSt) :
    let r := pairs.foldl (fun s p => qcStep p.1 p.2 s) s
    r.abut = s.abut + ((pairs.filter (fun p => p.1.abuts p.2)).length : Int) ∧
    r.over = s.over + ((pairs.filter (fun p => p.1.overlaps p.2)).length : Int) ∧
    r.pairs.length = s.pairs.length +
      (pairs.filter (fun p => match p.1.gapBetween p.2 with | some g => g ≠ 0 | none => false)).length := by
  induction pairs generalizing s with
  | nil => simp
  | cons p ps ih =>
    simp only [List.foldl_cons]
    obtain ⟨h1, h2, h3⟩ := ih (qcStep p.1 p.2 s)
    simp only [h1, h2, h3, List.filter_cons]
    refine ⟨?_, ?_, ?_⟩
    · unfold qcStep; by_cases h : p.1.abuts p.2 <;> simp [h] <;> omega
    · unfold qcStep; by_cases h : p.1.overlaps p.2 <;> simp [h] <;> omega
    · unfold qcStep
      cases hg : p.1.gapBetween p.2 with
      | none => simp
      | some v =>
        by_cases hv : v = 0
        · simp [hv]
        · simp [hv]; omega

/-- the three counts `qcPasses` looks at, named (so that proofs can treat them as opaque numbers) -/
def abutCount (subs : List Fragment) : Nat :=
  ((consPairs (stableSort lexLe subs)).filter (fun p => p.1.abuts p.2)).length
def overCount (subs : List Fragment) : Nat :=
  ((consPairs (stableSort lexLe subs)).filter (fun p => p.1.overlaps p.2)).length
def gapCount (subs : List Fragment) : Nat :=
  ((consPairs (stableSort lexLe subs)).filter
    (fun p => match p.1.gapBetween p.2 with | some g => g ≠ 0 | none => false)).length

theorem qcPasses_eq (orig : Fragment) (subs : List Fragment) :
    qcPasses orig subs =
      (decide (orig.length = sumInts (subs.map Fragment.length)) && overCount subs == 0 &&
        (abutCount subs : Int) == (subs.length : Int) - 1 && gapCount subs == 0) := rfl

/-- the state after the first loop of `qc_sub_fragments`, started from `abut_count = 0, overlap_count = 0, pairs_with_gaps = []` -/
theorem qc_loop_counts (subs : List Fragment) :
    let r := (consPairs (stableSort lexLe subs)).foldl (fun s p => qcStep p.1 p.2 s) (QSt.pack 0 0 [])
    r.abut = (abutCount subs : Int) ∧ r.over = (overCount subs : Int) ∧ r.pairs.length = gapCount subs := by
  obtain ⟨h1, h2, h3⟩ := foldl_qcStep (consPairs (stableSort lexLe subs)) (QSt.pack 0 0 [])
  simp only [QSt.abut_pack, QSt.over_pack, QSt.pairs_pack, Int.zero_add, List.length_nil, Nat.zero_add] at h1 h2 h3
  exact ⟨h1, h2, h3⟩

/-- the second loop (`for … in pairs_with_gaps: msg += …`) -/
theorem foldl_const_true {α : Type} (xs : List α) (m : Bool) :
    xs.foldl (fun (_ : Bool) (_ : α) => true) m = (m || !xs.isEmpty) := by
  cases xs with
  | nil => simp
  | cons x xs =>
    simp only [List.foldl_cons, List.isEmpty_cons, Bool.not_false, Bool.or_true]
    induction xs with
    | nil => rfl
    | cons y ys ih => simpa using ih

end AgpTpf.ImpSmall
