/-
  C03, last sentences — the FASTA branch of `write_assemblies` / `write_assembly` (scripts/pretext_to_asm.py) as a
  function from the named assemblies to the list of (file name, content) pairs, and its closed form.

  Python mirrored by `writeAssemblyFasta` (one assembly) and `writtenFiles` (the `for asm in out_assemblies.values()`
  loop):
      output_file = out_dir / f"{asm.name}{crtd}{suffix}"          -- `outputFileName`
      out_fh = get_output_filehandle(output_file, clobber, "b")
      FastaStream(out_fh, fai).write_assembly(out_asm)              -- `streamAssembly`
      output_agp = output_file.with_suffix(".agp")                  -- `agpBesideName`
      format_agp(out_asm, get_output_filehandle(output_agp, clobber))   -- `formatAgp`
  Header lines: the assembly objects the CLI writes are built by `Assembly(self.name, curated=curated)`
  (`assemblies_with_scaffolds_fused`) or `Assembly("merge")` (`merge_assemblies`): `header=None`, i.e. `[]`, and nothing
  in `tola` appends to the header of an output assembly afterwards (`add_header_line` is only called by the parsers).
  So the `.agp` written beside a `.fa` has NO `# …` header lines (`cliHeader`).
-/
import AgpTpf.Properties.C01
import AgpTpf.Properties.C03
import AgpTpf.Properties.C06Built
import AgpTpf.Properties.C16Plan
namespace AgpTpf.C03
open AgpTpf AgpTpf.StreamProofs AgpTpf.WrapProofs AgpTpf.CliNames AgpTpf.CliPlan

/-! ### the model of the FASTA branch -/

/-- what one output file holds: the bytes of a binary file, or the lines written to a text file -/
inductive FileContent where
  | bytes (b : Bytes)
  | text (lines : List Str)
  deriving DecidableEq, Repr

/-- `Assembly.header` of every assembly object `pretext-to-asm` writes (see the file comment) -/
def cliHeader : List Str := []

/-- the `Assembly` object behind a named assembly -/
def asmOfNamed (n : NamedAsm) : Assembly :=
  { name := n.name, header := cliHeader, scaffolds := n.scaffolds, curated := n.curated }

/-- `write_assembly(fai, out_asm, output_file, "FASTA", clobber)`: the `.fa` file, then the `.agp` beside it.
    `file`, `idx` = the input FASTA and its index (`fai`), `bs` = the index's buffer size, `w` = `line_length`
    (the CLI uses the default 60). -/
def writeAssemblyFasta (file : Bytes) (idx : List (Str × FastaInfo)) (bs w : Int) (suffix : Str) (n : NamedAsm) :
    R (List (Str × FileContent)) := do
  let f := outputFileName n suffix
  let lg ← streamAssembly file idx bs w n.scaffolds
  let g ← agpBesideName f
  let agp ← formatAgp (asmOfNamed n)
  pure [(f, .bytes lg.out), (g, .text agp)]

/-- `write_assemblies(fai, "FASTA", out_dir, suffix, out_assemblies, clobber)`: the loop over the dict values -/
def writtenFiles (file : Bytes) (idx : List (Str × FastaInfo)) (bs w : Int) (suffix : Str) :
    List NamedAsm → R (List (Str × FileContent))
  | [] => .ok []
  | n :: rest => do
    let own ← writeAssemblyFasta file idx bs w suffix n
    let more ← writtenFiles file idx bs w suffix rest
    pure (own ++ more)

/-- `name_assemblies` (a dict: `namedDict`) followed by `write_assemblies` -/
def cliWrittenFiles (file : Bytes) (idx : List (Str × FastaInfo)) (bs w : Int) (outs : List OutAsm)
    (root version suffix : Str) : R (List (Str × FileContent)) := do
  let named ← nameAssemblies outs root version
  writtenFiles file idx bs w suffix (namedDict named)

/-! ### the closed form -/

/-- the FASTA text of a list of scaffolds: one record per scaffold, in order -/
def fastaOf (w : Int) (resOf : Str → Bytes) (scs : List Scaffold) : Bytes :=
  (scs.map (fun sc => recordBytes w sc.name (rowsBody resOf sc.rows))).flatten

/-- the lines `format_agp` writes for a named assembly (`[]` if it raised) -/
def agpLinesOf (n : NamedAsm) : List Str :=
  match formatAgp (asmOfNamed n) with
  | .ok t => t
  | .error _ => []

/-- the two files of one named assembly -/
def specFilesOf (w : Int) (resOf : Str → Bytes) (suffix : Str) (n : NamedAsm) : List (Str × FileContent) :=
  [(outputFileName n suffix, .bytes (fastaOf w resOf n.scaffolds)),
   (stemStr n ++ ".agp".toList, .text (agpLinesOf n))]

theorem writeAssemblyFasta_spec {bs w : Int} (hbs : 1 ≤ bs) (hw : 1 ≤ w) (file : Bytes) (idx : List (Str × FastaInfo))
    (resOf : Str → Bytes) (x : Str) (hx : x ≠ []) (hdot : '.' ∉ x) (n : NamedAsm)
    (hok : ∀ sc ∈ n.scaffolds, ∀ r ∈ sc.rows, RowOK file idx resOf r)
    (hgood : ∀ sc ∈ n.scaffolds, C06.RowsGood sc.rows) (hend : EndsSY n.name) :
    writeAssemblyFasta file idx bs w ('.' :: x) n = .ok (specFilesOf w resOf ('.' :: x) n) := by
  obtain ⟨lg, h1, h2⟩ := fasta_file_is_agp_applied hbs hw file idx resOf n.scaffolds hok
  obtain ⟨bodies, h3, -⟩ := C06.formatAgp_good (asmOfNamed n) hgood
  have h4 : agpBesideName (outputFileName n ('.' :: x)) = .ok (stemStr n ++ ".agp".toList) := by
    rw [outputFileName_eq]
    exact agpBesideName_append (stemStr n) x (stemStr_ne_nil n hend) hx hdot
  unfold writeAssemblyFasta specFilesOf agpLinesOf fastaOf
  simp only [h1, h3, h4, bind, Except.bind, pure, Except.pure, h2]

theorem writtenFiles_spec {bs w : Int} (hbs : 1 ≤ bs) (hw : 1 ≤ w) (file : Bytes) (idx : List (Str × FastaInfo))
    (resOf : Str → Bytes) (x : Str) (hx : x ≠ []) (hdot : '.' ∉ x) :
    ∀ (l : List NamedAsm), (∀ n ∈ l, ∀ sc ∈ n.scaffolds, ∀ r ∈ sc.rows, RowOK file idx resOf r) →
      (∀ n ∈ l, ∀ sc ∈ n.scaffolds, C06.RowsGood sc.rows) → (∀ n ∈ l, EndsSY n.name) →
      writtenFiles file idx bs w ('.' :: x) l = .ok (l.flatMap (specFilesOf w resOf ('.' :: x)))
  | [], _, _, _ => rfl
  | n :: rest, hok, hgood, hend => by
    have ih := writtenFiles_spec hbs hw file idx resOf x hx hdot rest
      (fun m hm => hok m (by simp [hm])) (fun m hm => hgood m (by simp [hm])) (fun m hm => hend m (by simp [hm]))
    have h1 := writeAssemblyFasta_spec hbs hw file idx resOf x hx hdot n (hok n (by simp)) (hgood n (by simp))
      (hend n (by simp))
    unfold writtenFiles
    simp only [h1, ih, bind, Except.bind, pure, Except.pure, List.flatMap_cons]

/-- the names of the files written are the FASTA part of the output plan (`CliPlan.assemblyFiles`) -/
theorem specFiles_names (w : Int) (resOf : Str → Bytes) (suffix : Str) (l : List NamedAsm) :
    (l.flatMap (specFilesOf w resOf suffix)).map (·.1) = l.flatMap (filesOf .FASTA suffix) := by
  induction l with
  | nil => rfl
  | cons n rest ih =>
    simp only [List.flatMap_cons, List.map_append, ih]
    rfl

/-! ### the rows of everything `remap` returns lie within the input records -/

theorem fragOK_sub {file : Bytes} {idx : List (Str × FastaInfo)} {resOf : Str → Bytes} {F f : Fragment}
    (hF : FragOK file idx resOf F) (hn : F.name = f.name) (h1 : F.start ≤ f.start) (h2 : f.start ≤ f.stop)
    (h3 : f.stop ≤ F.stop) : FragOK file idx resOf f := by
  obtain ⟨info, hi, hr, a1, _, a3⟩ := hF
  unfold FragOK
  rw [← hn]
  exact ⟨info, hi, hr, by omega, h2, by omega⟩

/-- `InputWithin file idx resOf input`: every contig fragment of the input assembly names an indexed record of the
    FASTA and lies within it -/
def InputWithin (file : Bytes) (idx : List (Str × FastaInfo)) (resOf : Str → Bytes) (input : List Scaffold) : Prop :=
  ∀ F ∈ C01.inputFrags input, FragOK file idx resOf F

theorem remap_rows_ok (file : Bytes) (idx : List (Str × FastaInfo)) (resOf : Str → Bytes)
    (input ptx : List Scaffold) (prefix_ : Str) (joinGap : Option Gap) (err : Int)
    (outs : List OutAsm) (stats : Stats) (hwf : C01.WFInput input)
    (h : remap input ptx prefix_ joinGap err = .ok (outs, stats))
    (hin : InputWithin file idx resOf input) :
    ∀ a ∈ outs, ∀ s ∈ a.scaffolds, ∀ r ∈ s.rows, RowOK file idx resOf r := by
  intro a ha s hs r hr
  cases r with
  | gap g => trivial
  | frag f =>
    have hp := (C01.remap_partitions input ptx prefix_ joinGap err outs stats hwf h).2
    have hm : f.keyTuple ∈ C01.outputTriples outs := by
      unfold C01.outputTriples
      refine List.mem_flatMap.mpr ⟨s, List.mem_flatMap.mpr ⟨a, ha, hs⟩, ?_⟩
      exact List.mem_map.mpr ⟨f, C01.mem_fragmentsOf.mpr hr, rfl⟩
    obtain ⟨h1, F, hF, hn, h2, h3⟩ := hp _ hm
    exact fragOK_sub (hin F hF) hn h2 h1 h3

/-- a scaffold of a named assembly is a scaffold of an output assembly of `remap` -/
theorem named_scaffold_origin (outs : List OutAsm) (root version : Str) (named : List NamedAsm)
    (hn : nameAssemblies outs root version = .ok named) (n : NamedAsm) (hnm : n ∈ named) (s : Scaffold)
    (hs : s ∈ n.scaffolds) : ∃ a ∈ outs, s ∈ a.scaffolds := by
  have hmem : s ∈ allNamedScaffolds named := List.mem_flatMap.mpr ⟨n, hnm, hs⟩
  have hmem' : s ∈ allScaffolds outs := (C09.name_assemblies_conserves outs root version named hn).1.mem_iff.mp hmem
  exact List.mem_flatMap.mp hmem'

end AgpTpf.C03
