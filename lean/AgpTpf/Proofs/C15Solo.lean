/- C15 — an indexing run that nobody disturbs: it rebuilds both cache files (either protocol) -/
import AgpTpf.Proofs.C15
namespace AgpTpf.C15
open AgpTpf.Cache

/-- the complete `.fai` / `.agp` a solo indexing run started in `s0` leaves behind -/
def fullFai (s0 : State) : FileV :=
  { src := s0.fastaContent, written := s0.faiTotal, total := s0.faiTotal, mtime := s0.clock }
def fullAgp (s0 : State) : FileV :=
  { src := s0.fastaContent, written := s0.agpTotal, total := s0.agpTotal, mtime := s0.clock }

/-- progress invariant of an indexing run that nobody disturbs -/
def soloQ (s0 : State) (fai agp : Option FileV) : PC → Prop
  | .start => (newer fai s0.fastaMtime && newer agp s0.fastaMtime) = false
  | .statted m => m = s0.fastaMtime ∧ (newer fai s0.fastaMtime && newer agp s0.fastaMtime) = false
  | .faiOk m => m = s0.fastaMtime ∧ newer agp s0.fastaMtime = false
  | .index0 => True
  | .readFasta c => c = s0.fastaContent
  | .writingFai c k _ => c = s0.fastaContent ∧ k ≤ s0.faiTotal
  | .faiClosed c t => c = s0.fastaContent ∧ t = s0.clock
  | .faiDone c => c = s0.fastaContent ∧ fai = some (fullFai s0)
  | .writingAgp c k _ => c = s0.fastaContent ∧ k ≤ s0.agpTotal ∧ fai = some (fullFai s0)
  | .agpClosed c t => c = s0.fastaContent ∧ t = s0.clock ∧ fai = some (fullFai s0)
  | .done r c => r = .indexed s0.fastaContent ∧ c = s0.fastaContent ∧ fai = some (fullFai s0) ∧
      agp = some (fullAgp s0)
  | _ => False

/-- upper bound on the number of file operations still to do -/
def soloMu (s0 : State) : PC → Nat
  | .start => s0.faiTotal + s0.agpTotal + 10
  | .statted _ => s0.faiTotal + s0.agpTotal + 9
  | .faiOk _ => s0.faiTotal + s0.agpTotal + 8
  | .index0 => s0.faiTotal + s0.agpTotal + 7
  | .readFasta _ => s0.faiTotal + s0.agpTotal + 6
  | .writingFai _ k _ => (s0.faiTotal - k) + s0.agpTotal + 5
  | .faiClosed _ _ => s0.agpTotal + 4
  | .faiDone _ => s0.agpTotal + 3
  | .writingAgp _ k _ => (s0.agpTotal - k) + 2
  | .agpClosed _ _ => 1
  | _ => 0

def SoloAt (s0 : State) (p m : Nat) (s : State) : Prop :=
  s.atomic = s0.atomic ∧ s.faiTotal = s0.faiTotal ∧ s.agpTotal = s0.agpTotal ∧ s.clock = s0.clock ∧
  s.fastaContent = s0.fastaContent ∧ s.fastaMtime = s0.fastaMtime ∧
  ∃ pc, s.procs[p]? = some pc ∧ soloQ s0 s.fai s.agp pc ∧ soloMu s0 pc ≤ m

theorem solo_step (s0 : State) (p m : Nat) (s : State) (h : SoloAt s0 p m s) :
    SoloAt s0 p (m - 1) (applyOp s (.step p)) := by
  obtain ⟨f1, f2, f3, f4, f5, f6, pc, hpc, hq, hm⟩ := h
  have hlt : p < s.procs.length := (List.getElem?_eq_some_iff.1 hpc).1
  have hset : ∀ x, (s.procs.set p x)[p]? = some x := fun x => by simp [hlt]
  cases hA : s0.atomic <;> cases pc <;> simp only [soloQ] at hq <;>
    simp only [applyOp, hpc, stepProc, f1, f2, f3, f4, f5, hA] <;>
    (try split) <;>
    simp only [SoloAt, f1, f2, f3, f4, f5, f6, hA, hset, true_and, Option.some.injEq, exists_eq_left', if_true, Bool.false_eq_true, if_false] <;>
    simp only [soloMu, soloQ] at hm ⊢ <;>
    (try simp only [fullFai, fullAgp] at hq ⊢) <;>
    (try obtain ⟨hq1, hq2⟩ := hq) <;> (try subst hq1) <;>
    (first | omega | (simp_all; omega) | (simp_all; done))


theorem solo_run (s0 : State) (p m : Nat) (s : State) (h : SoloAt s0 p m s) (n : Nat) :
    SoloAt s0 p (m - n) (run s (List.replicate n (.step p))) := by
  induction n generalizing s m with
  | zero => simpa [run] using h
  | succ n ih =>
    have := ih (m - 1) _ (solo_step s0 p m s h)
    simpa [run, List.replicate_succ, Nat.sub_sub, Nat.add_comm] using this

theorem solo_done (s0 : State) (p : Nat) (s : State) (h : SoloAt s0 p 0 s) :
    s.procs[p]? = some (.done (.indexed s0.fastaContent) s0.fastaContent) ∧
    s.fai = some (fullFai s0) ∧ s.agp = some (fullAgp s0) ∧
    s.fastaContent = s0.fastaContent ∧ s.fastaMtime = s0.fastaMtime ∧ s.clock = s0.clock := by
  obtain ⟨f1, f2, f3, f4, f5, f6, pc, hpc, hq, hm⟩ := h
  cases pc <;> simp only [soloQ, soloMu] at hq hm <;> try omega
  obtain ⟨rfl, rfl, hf, ha⟩ := hq
  exact ⟨hpc, hf, ha, f5, f6, f4⟩

end AgpTpf.C15
