/-
  C10, chromosome numbering with several haplotypes, part 5: what the split loop of `assembliesFused` guarantees about
  `haplotypes_seen`, and the first haplotype's length of the group built from a segment.
-/
import AgpTpf.Model.Remap
import AgpTpf.Proofs.C09Split
import AgpTpf.Proofs.C10GroupsOut
import AgpTpf.Proofs.C10GroupsNumber
import AgpTpf.Proofs.C10MultiDict
import AgpTpf.Proofs.C10MultiName
namespace AgpTpf.C10
open AgpTpf Dict

theorem splitFold_haps_nodup (prefix_ : Str) : ∀ (l : List Nat) (acc : C09.SplitSt), acc.2.2.1.Nodup →
    (l.foldl (C09.splitStep prefix_) acc).2.2.1.Nodup := by
  intro l
  induction l with
  | nil => intro acc h; exact h
  | cons sid r ih =>
    intro acc h
    simp only [List.foldl_cons]
    apply ih
    rcases splitStep_entries prefix_ acc sid with ⟨_, e2⟩ | ⟨h', _, e2⟩
    · rw [e2]; exact h
    · rw [e2]; exact sAdd_nodup _ _ h

/-- `haplotypes_seen` has no duplicates -/
theorem splitLoop_haps_nodup (prefix_ : Str) (fs : List Scaffold) : (C09.splitLoop prefix_ fs).2.2.1.Nodup := by
  unfold C09.splitLoop
  exact splitFold_haps_nodup prefix_ _ _ List.nodup_nil

/-- total fragments length of the first haplotype's scaffolds of a segment -/
def firstHapLength (fs : List Scaffold) (h1 : Str) (seg : List Entry) : Int :=
  sumInts ((hapEntries h1 seg).map (fun e => (fs.getD e.2 default).fragmentsLength))

/-- when the first haplotype has exactly one chromosome in the group, `length_of_first_haplotype` is the summed
    `fragments_length` of all its scaffolds in the segment (the chromosome and its unlocs) -/
theorem firstLen_segGroup (fs : List Scaffold) (h1 : Str) (others : List Str) (seg : List Entry)
    (h : (hapOrigs fs h1 seg).length = 1) :
    firstLen fs (segGroup fs (h1 :: others) seg) = firstHapLength fs h1 seg := by
  obtain ⟨rest, hg⟩ := segGroup_head fs h1 others seg
  match hO : hapOrigs fs h1 seg, h with
  | [o], _ =>
    have hc : hapChrs fs h1 seg = [(o, idsOf fs h1 o seg)] := by unfold hapChrs; rw [hO]; rfl
    rw [hg, hc, firstLen_single]
    have hall : ∀ e ∈ hapEntries h1 seg, origOf fs e.2 = o := by
      intro e he
      obtain ⟨he1, he2⟩ := (mem_hapEntries h1 seg e).1 he
      have : origOf fs e.2 ∈ hapOrigs fs h1 seg := (mem_hapOrigs fs h1 _ seg).2 ⟨e, he1, he2, rfl⟩
      rw [hO] at this
      simpa using this
    have hids : idsOf fs h1 o seg = (hapEntries h1 seg).map (·.2) := by
      unfold idsOf
      rw [List.filter_eq_self.2 (fun e he => by simpa using hall e he)]
    rw [hids, List.map_map]
    rfl

end AgpTpf.C10
