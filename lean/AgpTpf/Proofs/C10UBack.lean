/-
  C10 uniqueness (W5), part 3 (the back half): if the fused scaffolds (`scaffolds_fused_by_name`) satisfy `FusedOk`,
  every output assembly of `assemblies_with_scaffolds_fused` has pairwise different scaffold names.
-/
import AgpTpf.Proofs.C10UName
namespace AgpTpf.C10U
open AgpTpf

/-- the key `scaffolds_fused_by_name` fuses by -/
def tri (s : Scaffold) : Option Str × Option Str × Str := (s.tag, s.haplotype, s.name)

/-- the three tag words that name an output assembly -/
def tagWords : List (Option Str) := [some sContaminant, some sFalseDuplicate, some sHaplotig]

/-- what one fused scaffold must look like (`p` the chromosome prefix, `N` the Pretext scaffold names) -/
structure ScOk (p : Str) (N : List Str) (s : Scaffold) : Prop where
  hapNe : s.haplotype ≠ some []
  hapNoTag : s.haplotype ∉ tagWords
  tagCases : s.tag = none ∨ s.tag ∈ tagWords
  taggedRank : s.tag ≠ none → s.rank ≠ 1 ∧ s.rank ≠ 2
  r1 : s.tag = none → s.rank = 1 → R1Shape N s
  r2 : s.tag = none → s.rank = 2 →
    ∃ t suf, s.name = t ++ suf ∧ isChrNameTag t = true ∧ isNumLetter t = false ∧ SufOk suf ∧ p.isPrefixOf s.name = false
  r3 : s.tag = none → s.rank ≠ 1 → s.rank ≠ 2 → p.isPrefixOf s.name = false

/-- what the fused list must look like -/
structure FusedOk (G : Option Str → Prop) (p : Str) (N : List Str) (fs : List Scaffold) : Prop where
  sc : ∀ s ∈ fs, ScOk p N s
  triples : (fs.map tri).Nodup
  /-- in the tagged assemblies with a key in `G`, equal names mean equal haplotypes (hence the same scaffold) -/
  tagged : ∀ s ∈ fs, ∀ s' ∈ fs, s.tag ≠ none → G s.tag → s.tag = s'.tag → s.name = s'.name → s.haplotype = s'.haplotype

theorem getD_mem {α} (l : List α) (j : Nat) (d : α) (h : j < l.length) : l.getD j d ∈ l := by
  rw [List.getD_eq_getElem?_getD, List.getElem?_eq_getElem h]
  exact List.getElem_mem h

theorem nodup_map_getD_inj {α β} (f : α → β) (l : List α) (d : α) (hnd : (l.map f).Nodup) (i j : Nat)
    (hi : i < l.length) (hj : j < l.length) (h : f (l.getD i d) = f (l.getD j d)) : i = j := by
  rw [List.getD_eq_getElem?_getD, List.getElem?_eq_getElem hi, List.getD_eq_getElem?_getD,
    List.getElem?_eq_getElem hj] at h
  simp only [Option.getD_some] at h
  rw [List.Nodup, List.pairwise_map] at hnd
  have hp := List.pairwise_iff_getElem.1 hnd
  rcases Nat.lt_trichotomy i j with hlt | heq | hgt
  · exact absurd h (hp i j hi hj hlt)
  · exact heq
  · exact absurd h.symm (hp j i hj hi hgt)

theorem truthy_of_tagWord {t : Option Str} (h : t ∈ tagWords) : truthy t = true := by
  simp only [tagWords, List.mem_cons, List.not_mem_nil, or_false] at h
  rcases h with rfl | rfl | rfl <;> rfl

/-- the assembly key of a tagged scaffold is its tag -/
theorem key_tagged {p : Str} {N : List Str} {s : Scaffold} (hs : ScOk p N s) (ht : s.tag ≠ none) :
    (C09.asmKey s).1 = s.tag ∧ s.tag ∈ tagWords := by
  rcases hs.tagCases with h | h
  · exact absurd h ht
  · refine ⟨?_, h⟩
    unfold C09.asmKey; rw [if_pos (truthy_of_tagWord h)]

/-- the assembly key of an untagged scaffold is its haplotype (`none` when it has none), never a tag word -/
theorem key_untagged {p : Str} {N : List Str} {s : Scaffold} (hs : ScOk p N s) (ht : s.tag = none) :
    (C09.asmKey s).1 = s.haplotype ∧ (C09.asmKey s).1 ∉ tagWords := by
  have hk : (C09.asmKey s).1 = s.haplotype := by
    unfold C09.asmKey
    rw [ht, if_neg (by simp [truthy])]
    rcases C10.truthy_cases s.haplotype with ⟨h1, _⟩ | ⟨h1, h2⟩
    · rw [if_pos h1]
    · rw [if_neg (by simp [h1])]
      rcases h2 with h2 | h2
      · rw [h2]
      · exact absurd h2 hs.hapNe
  exact ⟨hk, by rw [hk]; exact hs.hapNoTag⟩

/-- **Uniqueness from the fused list.**  `N` lists the Pretext scaffold names (at most `letterBound` of them); `G` the
    assembly keys the statement is about (all curated assemblies qualify whatever `G` says about tag words). -/
theorem fused_names_nodup (G : Option Str → Prop) (input : List Scaffold) (b : Build) (outs : List OutAsm)
    (stats : Stats) (N : List Str)
    (hN : N.length ≤ C10.letterBound) (hok : FusedOk G b.namer.autosomePrefix N (fuseByName b))
    (h : assembliesFused input b = .ok (outs, stats)) :
    ∀ a ∈ outs, G a.key → (a.scaffolds.map (·.name)).Nodup := by
  rw [C09.assembliesFused_eq] at h
  have hsp := splitLoop_spec b.namer.autosomePrefix (fuseByName b)
  have hmem := mem_entries b.namer.autosomePrefix (fuseByName b)
  have hnil := splitLoop_haps_nil_iff b.namer.autosomePrefix (fuseByName b)
  have hinv := C10.splitLoop_entries b.namer.autosomePrefix (fuseByName b)
  have hhnd := C10.splitLoop_haps_nodup b.namer.autosomePrefix (fuseByName b)
  have hids := asm_ids b.namer.autosomePrefix (fuseByName b)
  generalize C09.splitLoop b.namer.autosomePrefix (fuseByName b) = st at h hsp hmem hnil hinv hhnd hids
  obtain ⟨asms, entries, haps, fs1⟩ := st
  generalize hp : b.namer.autosomePrefix = p at *
  generalize hfs : fuseByName b = fs at *
  simp only at hsp hmem hnil hhnd hids
  obtain ⟨hfs1, _⟩ := hsp
  obtain ⟨hid, hm, _⟩ := hinv
  simp only at hid hm
  obtain ⟨fs', hname, htail⟩ := C10.finishAssemblies_named input b asms entries haps fs1 _ h
  rw [hp] at hname
  have hsc : ∀ j, j < fs.length → ScOk p N (fs.getD j default) := fun j hj => hok.sc _ (getD_mem fs j default hj)
  -- rank-1 scaffolds are untagged
  have hr1tag : ∀ j, j < fs.length → (fs.getD j default).rank = 1 → (fs.getD j default).tag = none := by
    intro j hj hr
    cases ht : (fs.getD j default).tag with
    | none => rfl
    | some t => exact absurd hr ((hsc j hj).taggedRank (by rw [ht]; simp)).1
  have hshape : ∀ e ∈ entries, R1Shape N (fs1.getD e.2 default) := by
    intro e he
    obtain ⟨h1, h2, _⟩ := (hmem e).1 he
    rw [hfs1, pfx_name_of_ne _ _ (by omega)]
    exact (hsc e.2 h1).r1 (hr1tag e.2 h1 h2) h2
  obtain ⟨hframe, hnew, hinj⟩ := named_spec p N hN fs1 haps entries fs' hhnd hid hm hnil hshape hname
  -- the final name of every scaffold, by class
  have hnotentry : ∀ j, (fs.getD j default).rank ≠ 1 → j ∉ entries.map (·.2) := by
    intro j hr hmem'
    obtain ⟨e, he, rfl⟩ := List.mem_map.1 hmem'
    exact hr ((hmem e).1 he).2.1
  have hfinal_other : ∀ j, (fs.getD j default).rank ≠ 1 →
      (fs'.getD j default).name = (pfx p (fs.getD j default)).name := by
    intro j hr; rw [hframe j (hnotentry j hr), hfs1]
  -- the pairwise claim
  have hclaim : ∀ i j, i < fs.length → j < fs.length → G (C09.asmKey (fs.getD i default)).1 →
      (C09.asmKey (fs.getD i default)).1 = (C09.asmKey (fs.getD j default)).1 →
      (fs'.getD i default).name = (fs'.getD j default).name → i = j := by
    intro i j hi hj hG hkey heq
    have Si := hsc i hi
    have Sj := hsc j hj
    -- it suffices to show equal names and equal haplotypes for equal tags
    have finish : (fs.getD i default).tag = (fs.getD j default).tag →
        (fs.getD i default).haplotype = (fs.getD j default).haplotype →
        (fs.getD i default).name = (fs.getD j default).name → i = j := by
      intro e1 e2 e3
      exact nodup_map_getD_inj tri fs default hok.triples i j hi hj (by unfold tri; rw [e1, e2, e3])
    by_cases hti : (fs.getD i default).tag = none
    · by_cases htj : (fs.getD j default).tag = none
      · -- both untagged: same haplotype
        have hhap : (fs.getD i default).haplotype = (fs.getD j default).haplotype := by
          rw [← (key_untagged Si hti).1, ← (key_untagged Sj htj).1]; exact hkey
        -- classes by rank
        by_cases hi1 : (fs.getD i default).rank = 1
        · have hei : (pyStrOpt (C09.asmKey (fs.getD i default)).1, i) ∈ entries := (hmem _).2 ⟨hi, hi1, rfl⟩
          obtain ⟨n, L, suf, hni, hL, hsuf⟩ := hnew _ hei
          simp only at hni
          by_cases hj1 : (fs.getD j default).rank = 1
          · have hej : (pyStrOpt (C09.asmKey (fs.getD j default)).1, j) ∈ entries := (hmem _).2 ⟨hj, hj1, rfl⟩
            have := hinj _ hei _ hej (by simp only; rw [hkey]) heq
            simp only at this
            rw [hfs1, hfs1, pfx_name_of_ne _ _ (by omega), pfx_name_of_ne _ _ (by omega)] at this
            exact finish (hti.trans htj.symm) hhap this
          · exfalso
            rw [hni, hfinal_other j hj1] at heq
            by_cases hj2 : (fs.getD j default).rank = 2
            · obtain ⟨t, suf', hn, htag, hnl, hsuf', hpre⟩ := Sj.r2 htj hj2
              have : pfx p (fs.getD j default) = { fs.getD j default with name := p ++ (fs.getD j default).name } := by
                unfold pfx; rw [if_pos ⟨hj2, by rw [hpre]; simp⟩]
              rw [this] at heq
              simp only at heq
              rw [hn, List.append_assoc, List.append_assoc] at heq
              have := List.append_cancel_left heq
              rw [← List.append_assoc] at this
              exact num_ne_tag n L suf t suf' hL hsuf hsuf' htag hnl this
            · have hpre := Sj.r3 htj hj1 hj2
              rw [pfx_name_of_ne _ _ hj2] at heq
              rw [← heq] at hpre
              rw [List.append_assoc, List.append_assoc, isPrefixOf_append_self] at hpre
              cases hpre
        · rw [hfinal_other i hi1] at heq
          by_cases hj1 : (fs.getD j default).rank = 1
          · exfalso
            have hej : (pyStrOpt (C09.asmKey (fs.getD j default)).1, j) ∈ entries := (hmem _).2 ⟨hj, hj1, rfl⟩
            obtain ⟨n, L, suf, hnj, hL, hsuf⟩ := hnew _ hej
            simp only at hnj
            rw [hnj] at heq
            by_cases hi2 : (fs.getD i default).rank = 2
            · obtain ⟨t, suf', hn, htag, hnl, hsuf', hpre⟩ := Si.r2 hti hi2
              have : pfx p (fs.getD i default) = { fs.getD i default with name := p ++ (fs.getD i default).name } := by
                unfold pfx; rw [if_pos ⟨hi2, by rw [hpre]; simp⟩]
              rw [this] at heq
              simp only at heq
              rw [hn, List.append_assoc, List.append_assoc] at heq
              have := List.append_cancel_left heq
              rw [← List.append_assoc] at this
              exact num_ne_tag n L suf t suf' hL hsuf hsuf' htag hnl this.symm
            · have hpre := Si.r3 hti hi1 hi2
              rw [pfx_name_of_ne _ _ hi2] at heq
              rw [heq] at hpre
              rw [List.append_assoc, List.append_assoc, isPrefixOf_append_self] at hpre
              cases hpre
          · rw [hfinal_other j hj1] at heq
            by_cases hi2 : (fs.getD i default).rank = 2
            · obtain ⟨_, _, _, _, _, _, hprei⟩ := Si.r2 hti hi2
              have ei : pfx p (fs.getD i default) = { fs.getD i default with name := p ++ (fs.getD i default).name } := by
                unfold pfx; rw [if_pos ⟨hi2, by rw [hprei]; simp⟩]
              rw [ei] at heq
              simp only at heq
              by_cases hj2 : (fs.getD j default).rank = 2
              · obtain ⟨_, _, _, _, _, _, hprej⟩ := Sj.r2 htj hj2
                have ej : pfx p (fs.getD j default) = { fs.getD j default with name := p ++ (fs.getD j default).name } := by
                  unfold pfx; rw [if_pos ⟨hj2, by rw [hprej]; simp⟩]
                rw [ej] at heq
                simp only at heq
                exact finish (hti.trans htj.symm) hhap (List.append_cancel_left heq)
              · exfalso
                have hpre := Sj.r3 htj hj1 hj2
                rw [pfx_name_of_ne _ _ hj2] at heq
                rw [← heq, isPrefixOf_append_self] at hpre
                cases hpre
            · rw [pfx_name_of_ne _ _ hi2] at heq
              by_cases hj2 : (fs.getD j default).rank = 2
              · exfalso
                obtain ⟨_, _, _, _, _, _, hprej⟩ := Sj.r2 htj hj2
                have ej : pfx p (fs.getD j default) = { fs.getD j default with name := p ++ (fs.getD j default).name } := by
                  unfold pfx; rw [if_pos ⟨hj2, by rw [hprej]; simp⟩]
                rw [ej] at heq
                simp only at heq
                have hpre := Si.r3 hti hi1 hi2
                rw [heq, isPrefixOf_append_self] at hpre
                cases hpre
              · rw [pfx_name_of_ne _ _ hj2] at heq
                exact finish (hti.trans htj.symm) hhap heq
      · -- untagged / tagged cannot share a key
        exfalso
        have h1 := (key_untagged Si hti).2
        have h2 := key_tagged Sj htj
        rw [hkey, h2.1] at h1
        exact h1 h2.2
    · by_cases htj : (fs.getD j default).tag = none
      · exfalso
        have h1 := (key_untagged Sj htj).2
        have h2 := key_tagged Si hti
        rw [← hkey, h2.1] at h1
        exact h1 h2.2
      · -- both tagged: same tag, names untouched
        have htag : (fs.getD i default).tag = (fs.getD j default).tag := by
          rw [← (key_tagged Si hti).1, ← (key_tagged Sj htj).1]; exact hkey
        have hri := Si.taggedRank hti
        have hrj := Sj.taggedRank htj
        rw [hfinal_other i hri.1, hfinal_other j hrj.1, pfx_name_of_ne _ _ hri.2, pfx_name_of_ne _ _ hrj.2] at heq
        exact finish htag
          (hok.tagged _ (getD_mem fs i default hi) _ (getD_mem fs j default hj) hti
            (by rw [← (key_tagged Si hti).1]; exact hG) htag heq) heq
  -- every output assembly
  intro a ha hGa
  obtain ⟨asm, hasm, hk, _, hscs⟩ := C10.outsTail_mem input b asms fs' outs stats htail a ha
  rw [hscs]
  have hperm : ((C20.smartSorted (asm.2.2.map (fun sid => fs'.getD sid default))).map (·.name)).Perm
      ((asm.2.2.map (fun sid => fs'.getD sid default)).map (·.name)) :=
    (C20.stableSort_perm _ _).map _
  rw [hperm.nodup_iff, List.map_map, hids asm hasm]
  rw [List.Nodup, List.pairwise_map]
  have hnd : ((List.range fs.length).filter
      (fun j => (C09.asmKey (fs.getD j default)).1 = asm.1)).Pairwise (· ≠ ·) :=
    (List.nodup_range (n := fs.length)).sublist List.filter_sublist
  refine hnd.imp_of_mem ?_
  intro i j hi hj hij heq
  simp only [List.mem_filter, List.mem_range, decide_eq_true_eq] at hi hj
  exact hij (hclaim i j hi.1 hj.1 (by rw [hi.2, ← hk]; exact hGa) (hi.2.trans hj.2.symm) heq)

end AgpTpf.C10U
