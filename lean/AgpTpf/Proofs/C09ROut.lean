/-
  C09 routing, part 3 (R3): from the fused scaffolds to the output assemblies, and back.
  * every fragment row of a fused scaffold is a row of one of the parts fused under its `(tag, haplotype, name)` key;
  * the split loop / chromosome naming change only names; `sortAsms` keeps keys and permutes members;
  * hence: fused scaffold `s` sits (renamed at most) in the output assembly keyed `routeKey s.tag s.haplotype`, and every
    scaffold of every output assembly is such an `s`.
-/
import AgpTpf.Model.Remap
import AgpTpf.Properties.C09
import AgpTpf.Proofs.C01Fuse
import AgpTpf.Proofs.C07Pipeline
namespace AgpTpf.C09
open AgpTpf Dict

/-! ### sources of the rows of a fused scaffold -/

/-- every row the step adds is an old row, a row of the item, or a gap -/
def ItemSrc (it : Item) : Prop := ∀ built row, row ∈ it.add built → row ∈ built ∨ row ∈ it.rows ∨ row.isGap = true

theorem fuseStep_src (Q : FKey → Row → Prop) (acc : List (FKey × Scaffold)) (it : Item) (hs : ItemSrc it)
    (hq : ∀ row ∈ it.rows, Q it.key row)
    (ha : ∀ p ∈ acc, ∀ row ∈ p.2.rows, row.isGap = true ∨ Q p.1 row) :
    ∀ p ∈ fuseStep acc it, ∀ row ∈ p.2.rows, row.isGap = true ∨ Q p.1 row := by
  intro p hp row hrow
  cases hg : dGet? acc it.key with
  | none =>
    rw [fuseStep_none acc it hg] at hp
    rcases List.mem_append.1 hp with hp | hp
    · exact ha p hp row hrow
    · simp only [List.mem_cons, List.not_mem_nil, or_false] at hp
      subst hp
      rcases hs [] row hrow with h | h | h
      · cases h
      · exact Or.inr (hq row h)
      · exact Or.inl h
  | some s =>
    rw [fuseStep_some acc it s hg] at hp
    rcases mem_dSet _ _ _ _ hp with hp | hp
    · subst hp
      rcases hs s.rows row hrow with h | h | h
      · exact ha (it.key, s) (dGet?_mem _ _ _ hg) row h
      · exact Or.inr (hq row h)
      · exact Or.inl h
    · exact ha p hp row hrow

theorem fuseFold_src (Q : FKey → Row → Prop) (items : List Item) (hs : ∀ it ∈ items, ItemSrc it)
    (hq : ∀ it ∈ items, ∀ row ∈ it.rows, Q it.key row) :
    ∀ acc, (∀ p ∈ acc, ∀ row ∈ p.2.rows, row.isGap = true ∨ Q p.1 row) →
      ∀ p ∈ items.foldl fuseStep acc, ∀ row ∈ p.2.rows, row.isGap = true ∨ Q p.1 row := by
  induction items with
  | nil => intro acc ha; exact ha
  | cons it r ih =>
    intro acc ha
    simp only [List.foldl_cons]
    exact ih (fun x hx => hs x (by simp [hx])) (fun x hx => hq x (by simp [hx])) _
      (fuseStep_src Q acc it (hs it (by simp)) (hq it (by simp)) ha)

theorem itemOfRes_src (b : Build) (r : Res) (it : Item) (h : itemOfRes b r = some it) : ItemSrc it := by
  unfold itemOfRes at h
  split at h
  · cases h
  · cases h
    intro built row hrow
    rcases C01.mem_appendRows _ _ _ _ hrow with h | h | ⟨gg, _, h2⟩
    · exact Or.inl h
    · exact Or.inr (Or.inl h)
    · subst h2; exact Or.inr (Or.inr rfl)

theorem itemOfExtra_src (b : Build) (e : Scaffold × Option (Fragment × List Gap)) (it : Item)
    (h : itemOfExtra b e = some it) : ItemSrc it := by
  unfold itemOfExtra at h
  split at h
  · cases h
  · cases h
    intro built row hrow
    simp only [List.mem_append] at hrow
    rcases hrow with (h | h) | h
    · exact Or.inl h
    · obtain ⟨gg, e1, _⟩ := C07.gapsBeforeLeftover_source _ _ _ _ h
      subst e1; exact Or.inr (Or.inr rfl)
    · exact Or.inr (Or.inl h)

/-- where a row of the fused scaffold keyed `k` comes from -/
def RowSrc (b : Build) (k : FKey) (row : Row) : Prop :=
  (∃ r ∈ b.store, r.added = true ∧ r.o.rows ≠ [] ∧ (r.o.tag, r.o.haplotype, r.o.name) = k ∧ row ∈ r.o.toScaffoldRows) ∨
  (∃ e ∈ b.extra, e.1.rows ≠ [] ∧ triple e.1 = k ∧ row ∈ e.1.rows)

/-- **Fusing invents no fragment and moves none between keys**: every row of a fused scaffold is a gap or a row of a
    stored result / left-over scaffold with the fused scaffold's own `(tag, haplotype, name)`. -/
theorem fuse_rows_source (b : Build) :
    ∀ s ∈ fuseByName b, ∀ row ∈ s.rows, row.isGap = true ∨ RowSrc b (triple s) row := by
  have hok := (fuseFold_spec (fuseItems b) (fuseItems_ok b) [] ⟨by simp, by simp⟩).1
  have hsrc : ∀ it ∈ fuseItems b, ItemSrc it := by
    intro it h
    unfold fuseItems at h
    rcases List.mem_append.1 h with h | h
    · obtain ⟨r, _, hr⟩ := List.mem_filterMap.1 h
      exact itemOfRes_src b r it hr
    · obtain ⟨e, _, he⟩ := List.mem_filterMap.1 h
      exact itemOfExtra_src b e it he
  have hq : ∀ it ∈ fuseItems b, ∀ row ∈ it.rows, RowSrc b it.key row := by
    intro it h row hrow
    unfold fuseItems at h
    rcases List.mem_append.1 h with h | h
    · obtain ⟨r, hr, hir⟩ := List.mem_filterMap.1 h
      left
      unfold itemOfRes at hir
      split at hir
      · cases hir
      · rename_i hc
        cases hir
        refine ⟨r, hr, ?_, ?_, rfl, hrow⟩
        · cases hra : r.added
          · exact absurd (.inl (by simp [hra])) hc
          · rfl
        · intro h0; exact hc (.inr (by simp [h0]))
    · obtain ⟨e, he, hie⟩ := List.mem_filterMap.1 h
      right
      unfold itemOfExtra at hie
      split at hie
      · cases hie
      · rename_i hc
        cases hie
        exact ⟨e, he, fun h0 => hc (by simp [h0]), rfl, hrow⟩
  have hall := fuseFold_src (RowSrc b) (fuseItems b) hsrc hq [] (by intro p hp; cases hp)
  intro s hs row hrow
  rw [fuseByName_eq] at hs
  obtain ⟨p, hp, rfl⟩ := List.mem_map.1 hs
  have hkey : triple p.2 = p.1 := hok.1 p hp
  rw [hkey]
  exact hall p hp row hrow

/-! ### the key of the output assembly -/

/-- the key of the output assembly a scaffold with this tag and haplotype is filed under: the tag if truthy, else the
    haplotype if truthy, else `none` (the primary assembly) -/
def routeKey (tag hap : Option Str) : Option Str :=
  if truthy tag then tag else if truthy hap then hap else none

theorem asmKey_fst (s : Scaffold) : (asmKey s).1 = routeKey s.tag s.haplotype := by
  unfold asmKey routeKey
  split
  · rfl
  · split <;> rfl

/-! ### split loop and chromosome naming change names only -/

/-- a scaffold with its name blanked: what the split loop and `name_chromosomes` never change -/
def noName (s : Scaffold) : Scaffold := { s with name := [] }

theorem noName_fields {s s' : Scaffold} (h : noName s' = noName s) :
    s'.rows = s.rows ∧ s'.tag = s.tag ∧ s'.haplotype = s.haplotype ∧ s'.rank = s.rank ∧
    s'.originalName = s.originalName ∧ s'.originalTags = s.originalTags := by
  have h1 := congrArg Scaffold.rows h
  have h2 := congrArg Scaffold.tag h
  have h3 := congrArg Scaffold.haplotype h
  have h4 := congrArg Scaffold.rank h
  have h5 := congrArg Scaffold.originalName h
  have h6 := congrArg Scaffold.originalTags h
  exact ⟨h1, h2, h3, h4, h5, h6⟩

theorem splitStep_noName (prefix_ : Str) (acc : C07.SplitAcc) (sid : Nat) :
    (C07.splitStep prefix_ acc sid).2.2.2.map noName = acc.2.2.2.map noName := by
  obtain ⟨asms, entries, haps, fs⟩ := acc
  unfold C07.splitStep
  dsimp only
  split
  · rfl
  · split
    · dsimp only
      split
      · rfl
      · exact C01.map_setAt_same noName fs sid { fs.getD sid default with name := prefix_ ++ (fs.getD sid default).name } rfl
    · rfl

theorem nameGroup_noName (fs : List Scaffold) (g : GroupData) (prefix_ : Str) (n : Nat) :
    (nameGroup fs g prefix_ n).map noName = fs.map noName := by
  unfold nameGroup
  refine C07.foldl_inv (fun x : List Scaffold => x.map noName = fs.map noName) _ g ?_ fs rfl
  intro a h ha
  refine C07.foldl_inv (fun x : List Scaffold => x.map noName = fs.map noName) _ _ ?_ a ha
  intro a2 p ha2
  refine C07.foldl_inv (fun x : List Scaffold => x.map noName = fs.map noName) _ _ ?_ a2 ha2
  intro a3 sid ha3
  rw [← ha3]
  exact C01.map_setAt_same noName a3 sid
    { a3.getD sid default with name := replaceAll p.1.1 p.2 ((a3.getD sid default).name.length + 1) (a3.getD sid default).name } rfl

theorem nameChromosomes_noName (fs fs' : List Scaffold) (haps : List Str) (entries : List (Str × Nat)) (prefix_ : Str)
    (h : C07.nameChromosomes fs haps entries prefix_ = .ok fs') : fs'.map noName = fs.map noName := by
  unfold C07.nameChromosomes at h
  split at h
  · simp only [pure, Except.pure, Except.ok.injEq] at h; subst h; rfl
  · simp only [bind, Except.bind] at h
    split at h
    · cases h
    · split at h
      · cases h
      · split at h
        · cases h
        · simp only [pure, Except.pure, Except.ok.injEq] at h
          subst h
          refine C07.foldl_inv (fun x : List Scaffold => x.map noName = fs.map noName) _ _ ?_ fs rfl
          intro a p ha
          rw [nameGroup_noName]; exact ha

theorem getD_of_map_eq {α β} (g : α → β) (l1 l2 : List α) (d : α) (h : l1.map g = l2.map g) (i : Nat) :
    g (l1.getD i d) = g (l2.getD i d) := by
  have h1 : (l1.map g).getD i (g d) = g (l1.getD i d) := by
    simp only [List.getD_eq_getElem?_getD, List.getElem?_map]
    cases l1[i]? <;> rfl
  have h2 : (l2.map g).getD i (g d) = g (l2.getD i d) := by
    simp only [List.getD_eq_getElem?_getD, List.getElem?_map]
    cases l2[i]? <;> rfl
  rw [← h1, ← h2, h]

/-! ### `sortAsms`: keys kept, members permuted -/

/-- output assembly `a` was made from dict entry `a0` over the (renamed) scaffold list `fs` -/
def FromEntry (fs : List Scaffold) (a0 : Option Str × Bool × List Nat) (a : OutAsm) : Prop :=
  a.key = a0.1 ∧ a.curated = a0.2.1 ∧ a.scaffolds.Perm (a0.2.2.map (fun sid => fs.getD sid default))

theorem sortAsms_entries (fs : List Scaffold) (asms : List (Option Str × Bool × List Nat)) (outs : List OutAsm)
    (h : C07.sortAsms fs asms = .ok outs) :
    (∀ a ∈ outs, ∃ a0 ∈ asms, FromEntry fs a0 a) ∧ (∀ a0 ∈ asms, ∃ a ∈ outs, FromEntry fs a0 a) := by
  unfold C07.sortAsms at h
  induction asms generalizing outs with
  | nil =>
    simp only [List.mapM_nil, pure, Except.pure, Except.ok.injEq] at h; subst h
    exact ⟨fun a ha => (by cases ha), fun a ha => (by cases ha)⟩
  | cons a0 t ih =>
    rw [List.mapM_cons] at h
    simp only [bind, Except.bind] at h
    split at h
    · cases h
    · next o ho =>
      split at h
      · cases h
      · next os hos =>
        simp only [pure, Except.pure, Except.ok.injEq] at h
        subst h
        have hfe : FromEntry fs a0 o := by
          split at ho
          · cases ho
          · next scs hscs =>
            simp only [pure, Except.pure, Except.ok.injEq] at ho
            subst ho
            exact ⟨rfl, rfl, C07.smartSort_perm _ _ hscs⟩
        obtain ⟨i1, i2⟩ := ih os hos
        constructor
        · intro a ha
          rcases List.mem_cons.mp ha with rfl | ha
          · exact ⟨a0, List.mem_cons_self .., hfe⟩
          · obtain ⟨x, hx, hf⟩ := i1 a ha
            exact ⟨x, List.mem_cons_of_mem _ hx, hf⟩
        · intro x hx
          rcases List.mem_cons.mp hx with rfl | hx
          · exact ⟨o, List.mem_cons_self .., hfe⟩
          · obtain ⟨a, ha, hf⟩ := i2 x hx
            exact ⟨a, List.mem_cons_of_mem _ ha, hf⟩

theorem splitStep_same : C07.splitStep = C09.splitStep := rfl

/-! ### fused scaffolds ↔ output assemblies -/

/-- **Every fused scaffold sits in the output assembly keyed by `routeKey`, every output scaffold is a fused scaffold.**
    `noName s' = noName s`: the output scaffold `s'` is `s` up to renaming (chromosome prefix / chromosome names). -/
theorem assembliesFused_route (input : List Scaffold) (b : Build) (outs : List OutAsm) (stats : Stats)
    (h : assembliesFused input b = .ok (outs, stats)) :
    (outs.map (·.key)).Nodup ∧
    (∀ s ∈ fuseByName b, ∃ a ∈ outs, a.key = routeKey s.tag s.haplotype ∧ ∃ s' ∈ a.scaffolds, noName s' = noName s) ∧
    (∀ a ∈ outs, ∀ s' ∈ a.scaffolds, ∃ s ∈ fuseByName b, noName s' = noName s ∧ a.key = routeKey s.tag s.haplotype) := by
  obtain ⟨res, fs2, hres, hname, hsort⟩ := C07.assembliesFused_ok input b outs stats h
  have hfs1 : res.2.2.2.map noName = (fuseByName b).map noName := by
    rw [hres]
    exact C07.foldl_inv (fun x : C07.SplitAcc => x.2.2.2.map noName = (fuseByName b).map noName) _ _
      (fun a x ha => by rw [splitStep_noName]; exact ha) _ rfl
  have hfs2 : fs2.map noName = (fuseByName b).map noName := (nameChromosomes_noName _ _ _ _ _ hname).trans hfs1
  have hget : ∀ i, noName (fs2.getD i default) = noName ((fuseByName b).getD i default) :=
    fun i => getD_of_map_eq noName _ _ default hfs2 i
  have hasms : res.1 = asmsOf b.namer.autosomePrefix (fuseByName b) := by
    rw [hres, splitStep_same]; rfl
  obtain ⟨o1, o2⟩ := sortAsms_entries fs2 res.1 outs hsort
  -- the grouping invariant of the dict
  have hg := ginv_fold (fun j => (asmKey ((fuseByName b).getD j default)).1)
    (fun j => (asmKey ((fuseByName b).getD j default)).2)
    (List.range (fuseByName b).length) [] [] ⟨by simp, by intro k c ids h; simp [dGet?] at h, by simp⟩
  have hasm2 : asmsOf b.namer.autosomePrefix (fuseByName b) = (List.range (fuseByName b).length).foldl
      (fun asms j => addAsm asms ((asmKey ((fuseByName b).getD j default)).1, (asmKey ((fuseByName b).getD j default)).2) j) [] :=
    splitLoop_asms b.namer.autosomePrefix (fuseByName b)
  rw [← hasm2, List.nil_append, ← hasms] at hg
  obtain ⟨g1, g2, _⟩ := hg
  have hkeys : outs.map (·.key) = res.1.map (·.1) := by
    have := assembliesFused_keys input b outs stats h
    rw [← hasms] at this
    have e1 : outs.map (·.key) = (outs.map (fun a => (a.key, a.curated))).map (·.1) := by rw [List.map_map]; rfl
    have e2 : res.1.map (·.1) = (res.1.map (fun a => (a.1, a.2.1))).map (·.1) := by rw [List.map_map]; rfl
    rw [e1, e2, this]
  refine ⟨hkeys ▸ g1, ?_, ?_⟩
  · intro s hs
    obtain ⟨sid, hsid, hsget⟩ := List.getElem_of_mem hs
    have hsd : (fuseByName b).getD sid default = s := by
      rw [List.getD_eq_getElem?_getD, List.getElem?_eq_getElem hsid, hsget]; rfl
    obtain ⟨c, ids, first, hd, _, hin, _⟩ := assembly_key b.namer.autosomePrefix (fuseByName b) sid hsid
    rw [hsd, ← hasms] at hd
    have hm : ((asmKey s).1, c, ids) ∈ res.1 := dGet?_mem _ _ _ hd
    obtain ⟨a, ha, hk, _, hp⟩ := o2 _ hm
    refine ⟨a, ha, by rw [hk]; exact asmKey_fst s, fs2.getD sid default, ?_, by rw [hget sid, hsd]⟩
    exact hp.mem_iff.mpr (List.mem_map.mpr ⟨sid, hin, rfl⟩)
  · intro a ha s' hs'
    obtain ⟨a0, ha0, hk, _, hp⟩ := o1 a ha
    obtain ⟨k, c, ids⟩ := a0
    have hmem : s' ∈ ids.map (fun sid => fs2.getD sid default) := hp.mem_iff.mp hs'
    obtain ⟨sid, hsid, rfl⟩ := List.mem_map.mp hmem
    have hd : dGet? res.1 k = some (c, ids) := dGet?_of_mem_nodup _ _ _ g1 ha0
    obtain ⟨e1, _⟩ := g2 k c ids hd
    rw [e1] at hsid
    obtain ⟨hr, hkk⟩ := List.mem_filter.1 hsid
    have hlt : sid < (fuseByName b).length := List.mem_range.1 hr
    have hkk' : (asmKey ((fuseByName b).getD sid default)).1 = k := by simpa using hkk
    refine ⟨(fuseByName b).getD sid default, ?_, hget sid, ?_⟩
    · rw [List.getD_eq_getElem?_getD, List.getElem?_eq_getElem hlt]; exact List.getElem_mem hlt
    · rw [hk]; show k = _; rw [← hkk', asmKey_fst]

/-- under `NoClash`, the assembly that holds a tagged fused scaffold is not curated, the others are -/
theorem assembliesFused_curated (input : List Scaffold) (b : Build) (outs : List OutAsm) (stats : Stats)
    (h : assembliesFused input b = .ok (outs, stats)) (hnc : NoClash (fuseByName b)) :
    ∀ s ∈ fuseByName b, ∀ a ∈ outs, a.key = routeKey s.tag s.haplotype → a.curated = !truthy s.tag := by
  intro s hs a ha hk
  obtain ⟨sid, hsid, hsget⟩ := List.getElem_of_mem hs
  have hsd : (fuseByName b).getD sid default = s := by
    rw [List.getD_eq_getElem?_getD, List.getElem?_eq_getElem hsid, hsget]; rfl
  have hkc := assembliesFused_keys input b outs stats h
  have hnd : ((asmsOf b.namer.autosomePrefix (fuseByName b)).map (·.1)).Nodup :=
    (assembly_key b.namer.autosomePrefix (fuseByName b) sid hsid).choose_spec.choose_spec.choose_spec.2.2.2.2.2.2.2.2
  have hin : (a.key, a.curated) ∈ (asmsOf b.namer.autosomePrefix (fuseByName b)).map (fun a => (a.1, a.2.1)) := by
    rw [← hkc]; exact List.mem_map.mpr ⟨a, ha, rfl⟩
  obtain ⟨x, hx, hxe⟩ := List.mem_map.mp hin
  obtain ⟨xk, xc, xids⟩ := x
  simp only [Prod.mk.injEq] at hxe
  obtain ⟨hx1, hx2⟩ := hxe
  have hdx : dGet? (asmsOf b.namer.autosomePrefix (fuseByName b)) a.key = some (a.curated, xids) := by
    apply dGet?_of_mem_nodup _ _ _ hnd
    rw [← hx1, ← hx2]; exact hx
  obtain ⟨n1, n2, n3⟩ := assembly_key_noclash b.namer.autosomePrefix (fuseByName b) sid hsid hnc
  simp only [hsd] at n1 n2 n3
  rw [hk] at hdx
  unfold routeKey at hdx
  by_cases ht : truthy s.tag = true
  · rw [if_pos ht] at hdx
    obtain ⟨ids, hd, _⟩ := n1 ht
    rw [hd] at hdx
    simp only [Option.some.injEq, Prod.mk.injEq] at hdx
    rw [← hdx.1, ht]; rfl
  · rw [if_neg ht] at hdx
    have htf : truthy s.tag = false := by simpa using ht
    by_cases hh : truthy s.haplotype = true
    · rw [if_pos hh] at hdx
      obtain ⟨ids, hd, _⟩ := n2 ht hh
      rw [hd] at hdx
      simp only [Option.some.injEq, Prod.mk.injEq] at hdx
      rw [← hdx.1, htf]; rfl
    · rw [if_neg hh] at hdx
      obtain ⟨ids, hd, _⟩ := n3 ht hh
      rw [hd] at hdx
      simp only [Option.some.injEq, Prod.mk.injEq] at hdx
      rw [← hdx.1, htf]; rfl

end AgpTpf.C09
