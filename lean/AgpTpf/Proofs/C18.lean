/-
  C18 — helper definitions and lemmas (overlap results: span / content invariant).
  Definitions used by the statements in `Properties/C18.lean`:
    `ids`, `Short`, `Content`, `Inv`, `runOps`, `FreshRun`.
-/
import AgpTpf.Model.Lookup
namespace AgpTpf.C18
open AgpTpf OverlapResult

/-- decidable equality of results, so that concrete runs can be checked by `decide` (only used in `example`s) -/
scoped instance instDecEqExcept {ε α} [DecidableEq ε] [DecidableEq α] : DecidableEq (Except ε α)
  | .ok a, .ok b => if h : a = b then isTrue (by rw [h]) else isFalse (fun h' => h (by cases h'; rfl))
  | .error a, .error b => if h : a = b then isTrue (by rw [h]) else isFalse (fun h' => h (by cases h'; rfl))
  | .ok _, .error _ => isFalse (fun h => by cases h)
  | .error _, .ok _ => isFalse (fun h => by cases h)

/-! ### basic list / length facts -/

theorem rowsLength_nil : rowsLength [] = 0 := rfl
theorem rowsLength_cons (r : Row) (l : List Row) : rowsLength (r :: l) = r.length + rowsLength l := rfl
theorem rowsLength_append (a b : List Row) : rowsLength (a ++ b) = rowsLength a + rowsLength b := by
  induction a with
  | nil => simp [rowsLength_nil]
  | cons r a ih => simp only [List.cons_append, rowsLength_cons, ih]; omega
theorem rowsLength_singleton (r : Row) : rowsLength [r] = r.length := by
  simp [rowsLength_cons, rowsLength_nil]

theorem pyGet_zero_cons {α} (x : α) (l : List α) : pyGet (x :: l) 0 = .ok x := by
  unfold pyGet; simp

theorem pyGet_neg_one_concat {α} (x : α) (l : List α) : pyGet (l ++ [x]) (-1) = .ok x := by
  unfold pyGet
  simp only [List.length_append, List.length_singleton]
  have h1 : ((-1 : Int) + ((l.length + 1 : Nat) : Int)) = (l.length : Int) := by omega
  rw [h1]
  simp
  omega

theorem pyGet_nil {α} (i : Int) : pyGet ([] : List α) i = .error .index := by
  unfold pyGet; simp

theorem pyGet_zero_ok {α} {l : List α} {x : α} (h : pyGet l 0 = .ok x) : ∃ t, l = x :: t := by
  cases l with
  | nil => rw [pyGet_nil] at h; cases h
  | cons y t => rw [pyGet_zero_cons] at h; cases h; exact ⟨t, rfl⟩

theorem list_nil_or_concat {α} (l : List α) : l = [] ∨ ∃ t x, l = t ++ [x] := by
  rcases List.eq_nil_or_concat l with h | ⟨t, x, h⟩
  · exact Or.inl h
  · exact Or.inr ⟨t, x, by simpa using h⟩

theorem pyGet_neg_one_ok {α} {l : List α} {x : α} (h : pyGet l (-1) = .ok x) : ∃ t, l = t ++ [x] := by
  rcases list_nil_or_concat l with rfl | ⟨t, y, rfl⟩
  · rw [pyGet_nil] at h; cases h
  · rw [pyGet_neg_one_concat] at h; cases h; exact ⟨t, rfl⟩

/-- a non-empty list is a singleton or has a first element, a middle and a last element -/
theorem list_shape {α} (l : List α) : l = [] ∨ (∃ x, l = [x]) ∨ ∃ x m y, l = x :: m ++ [y] := by
  cases l with
  | nil => exact Or.inl rfl
  | cons x t =>
    rcases list_nil_or_concat t with rfl | ⟨m, y, rfl⟩
    · exact Or.inr (Or.inl ⟨x, rfl⟩)
    · exact Or.inr (Or.inr ⟨x, m, y, by simp⟩)

theorem setLast_concat {α} (l : List α) (x y : α) : setLast (l ++ [x]) y = l ++ [y] := by
  unfold setLast; simp

theorem setLast_singleton {α} (x y : α) : setLast [x] y = [y] := setLast_concat [] x y

/-- `G ++ x :: T = M ++ [y]`: either `x` is the last element or `T` ends in `y`. -/
theorem append_cons_eq_concat {α} {G T M : List α} {x y : α} (h : G ++ x :: T = M ++ [y]) :
    (T = [] ∧ G = M ∧ x = y) ∨ ∃ T', T = T' ++ [y] ∧ M = G ++ x :: T' := by
  rcases list_nil_or_concat T with rfl | ⟨T', z, rfl⟩
  · left
    have := List.append_inj' h (by simp)
    simp at this; exact ⟨rfl, this.1, this.2⟩
  · right
    have h' : (G ++ x :: T') ++ [z] = M ++ [y] := by simpa using h
    have := List.append_inj' h' (by simp)
    simp at this
    exact ⟨T', by rw [this.2], this.1.symm⟩

/-! ### object ids -/

/-- object identities of the fragments in a row list -/
def ids (rows : List Row) : List Nat := (fragmentsOf rows).map (·.oid)

theorem fragmentsOf_append (a b : List Row) : fragmentsOf (a ++ b) = fragmentsOf a ++ fragmentsOf b := by
  induction a with
  | nil => rfl
  | cons r a ih => cases r <;> simp [fragmentsOf, ih]

theorem ids_append (a b : List Row) : ids (a ++ b) = ids a ++ ids b := by
  simp [ids, fragmentsOf_append]
theorem ids_cons_frag (f : Fragment) (l : List Row) : ids (.frag f :: l) = f.oid :: ids l := rfl
theorem ids_cons_gap (g : Gap) (l : List Row) : ids (.gap g :: l) = ids l := rfl
theorem ids_nil : ids [] = [] := rfl


/-! ### the invariant -/

/-- `r` is the source row `s` (a fragment) with `dl` scaffold positions removed at its left (scaffold-start) side
    and `dr` at its right side.  Strand-aware exactly as the code is: on a plus-strand fragment the left side is
    `fragment.start`; on any other strand (−1 and, as the code treats it, 0) the left side is `fragment.end`.
    Name and strand are kept; identity and tags may differ (a trimmed fragment is a new object tagged `Cut`). -/
def Short (r s : Row) (dl dr : Int) : Prop :=
  ∃ f g, r = .frag f ∧ s = .frag g ∧ f.name = g.name ∧ f.strand = g.strand ∧
    (if g.strand = 1 then f.start = g.start + dl ∧ f.stop = g.stop - dr
     else f.start = g.start + dr ∧ f.stop = g.stop - dl)

/-- content part of the invariant (items (2),(3),(4) of the property):
    * no rows left and the span is empty (`stop = start − 1`), or
    * one row: the source is `A ++ s :: B`, the row is `s` shortened by `dl ≥ 0` / `dr ≥ 0` at its two ends,
      `start = 1 + |A| + dl`, `stop = |A| + |s| − dr`, or
    * several rows: the source is `A ++ s0 :: mid ++ s1 :: B`, the rows are `r0 :: mid ++ [r1]` (the inner rows are the
      source rows themselves), `r0` is `s0` shortened only at its outer (left) end by `dl`, `r1` is `s1` shortened only at
      its outer (right) end by `dr`, and `start`/`stop` are the scaffold coordinates of what is left.
    (`|·|` = `rowsLength`; `A.length` is the index `i` of the first remaining row in the source.) -/
inductive Content (src : List Row) (o : OverlapResult) : Prop
  | empty : o.rows = [] → o.stop = o.start - 1 → Content src o
  | one (A B : List Row) (s r : Row) (dl dr : Int) :
      src = A ++ s :: B → o.rows = [r] → Short r s dl dr → 0 ≤ dl → 0 ≤ dr →
      o.start = 1 + rowsLength A + dl → o.stop = rowsLength A + s.length - dr → Content src o
  | many (A B mid : List Row) (s0 s1 r0 r1 : Row) (dl dr : Int) :
      src = A ++ s0 :: mid ++ s1 :: B → o.rows = r0 :: mid ++ [r1] → Short r0 s0 dl 0 → Short r1 s1 0 dr →
      0 ≤ dl → 0 ≤ dr →
      o.start = 1 + rowsLength A + dl →
      o.stop = rowsLength A + s0.length + rowsLength mid + s1.length - dr → Content src o

/-- no terminal gap -/
def NoTerminalGap (rows : List Row) : Prop :=
  rows = [] ∨ ((∃ f t, rows = .frag f :: t) ∧ (∃ f t, rows = t ++ [.frag f]))

/-- The invariant of C18. -/
structure Inv (src : List Row) (o : OverlapResult) : Prop where
  /-- (1) reported span = total length of the rows -/
  span : o.stop - o.start + 1 = rowsLength o.rows
  /-- (2) no terminal gap -/
  noTerminalGap : NoTerminalGap o.rows
  /-- (3)+(4) contiguous run of the source, only terminal fragments shortened, span = source coordinates -/
  content : Content src o
  /-- the fragment objects in the result are pairwise distinct objects -/
  distinct : (ids o.rows).Nodup

theorem Short.length {r s : Row} {dl dr : Int} (h : Short r s dl dr) : r.length = s.length - dl - dr := by
  obtain ⟨f, g, rfl, rfl, _, _, h⟩ := h
  simp only [Row.length, Fragment.length]
  split at h <;> omega

theorem Short.refl (f : Fragment) : Short (.frag f) (.frag f) 0 0 :=
  ⟨f, f, rfl, rfl, rfl, rfl, by simp⟩

theorem Content.span {src o} (h : Content src o) : o.stop - o.start + 1 = rowsLength o.rows := by
  cases h with
  | empty h h' => rw [h, rowsLength_nil]; omega
  | one A B s r dl dr hs hr hsh h0 h1 hst hen =>
    rw [hr, rowsLength_singleton, hsh.length]; omega
  | many A B mid s0 s1 r0 r1 dl dr hs hr h0 h1 _ _ hst hen =>
    rw [hr, List.cons_append, rowsLength_cons, rowsLength_append, rowsLength_singleton, h0.length, h1.length]; omega


theorem Content.noTerminalGap {src o} (h : Content src o) : NoTerminalGap o.rows := by
  cases h with
  | empty h h' => exact Or.inl h
  | one A B s r dl dr hs hr hsh h0 h1 hst hen =>
    obtain ⟨f, g, rfl, _⟩ := hsh
    exact Or.inr ⟨⟨f, [], hr⟩, ⟨f, [], hr⟩⟩
  | many A B mid s0 s1 r0 r1 dl dr hs hr h0 h1 _ _ hst hen =>
    obtain ⟨f0, g0, rfl, _⟩ := h0
    obtain ⟨f1, g1, rfl, _⟩ := h1
    exact Or.inr ⟨⟨f0, _, hr⟩, ⟨f1, .frag f0 :: mid, by rw [hr]⟩⟩

theorem Inv.mk' {src o} (h : Content src o) (hd : (ids o.rows).Nodup) : Inv src o :=
  ⟨h.span, h.noTerminalGap, h, hd⟩

/-! ### popLeadingGaps -/

theorem popLeadingGaps_spec (L : List Row) (st : Int) :
    ∃ G T, L = G ++ T ∧ (∀ r ∈ G, r.isGap = true) ∧ popLeadingGaps L st = (T, st + rowsLength G) ∧
      (T = [] ∨ ∃ f T', T = .frag f :: T') := by
  induction L generalizing st with
  | nil => exact ⟨[], [], rfl, by simp, by simp [popLeadingGaps, rowsLength_nil], Or.inl rfl⟩
  | cons r L ih =>
    cases r with
    | frag f =>
      exact ⟨[], .frag f :: L, rfl, by simp, by simp [popLeadingGaps, rowsLength_nil], Or.inr ⟨f, L, rfl⟩⟩
    | gap g =>
      obtain ⟨G, T, hL, hG, hp, hT⟩ := ih (st + g.length)
      refine ⟨.gap g :: G, T, by simp [hL], ?_, ?_, hT⟩
      · intro r hr
        rcases List.mem_cons.mp hr with rfl | hr
        · rfl
        · exact hG r hr
      · simp only [popLeadingGaps, hp, rowsLength_cons, Row.length]
        congr 1; omega

theorem ids_gaps {G : List Row} (h : ∀ r ∈ G, r.isGap = true) : ids G = [] := by
  induction G with
  | nil => rfl
  | cons r G ih =>
    cases r with
    | frag f => have := h (.frag f) (by simp); simp [Row.isGap] at this
    | gap g => rw [ids_cons_gap]; exact ih (fun r hr => h r (List.mem_cons_of_mem _ hr))


/-! ### discardStart -/

theorem discardStart_rows {o o' : OverlapResult} (h : discardStart o = .ok o') :
    ∃ P, o.rows = P ++ o'.rows ∧ o'.stop = o.stop ∧ o'.bait = o.bait := by
  unfold discardStart at h
  split at h
  · cases h
  · rename_i d r hr
    obtain ⟨G, T, hL, hG, hp, hT⟩ := popLeadingGaps_spec r (o.start + d.length)
    rw [hp] at h
    simp only [Except.ok.injEq] at h
    subst h
    exact ⟨d :: G, by simp [hr, hL], rfl, rfl⟩

theorem nodup_of_append_right {a b : List Row} (h : (ids (a ++ b)).Nodup) : (ids b).Nodup := by
  rw [ids_append] at h; exact (List.nodup_append.mp h).2.1
theorem nodup_of_append_left {a b : List Row} (h : (ids (a ++ b)).Nodup) : (ids a).Nodup := by
  rw [ids_append] at h; exact (List.nodup_append.mp h).1

theorem content_discardStart {src o o'} (hc : Content src o) (h : discardStart o = .ok o') : Content src o' := by
  unfold discardStart at h
  cases hc with
  | empty hr _ => rw [hr] at h; cases h
  | one A B s r dl dr hs hr hsh h0 h1 hst hen =>
    rw [hr] at h
    simp only [popLeadingGaps, Except.ok.injEq] at h
    subst h
    refine Content.empty rfl ?_
    have := hsh.length
    simp only; omega
  | many A B mid s0 s1 r0 r1 dl dr hs hr hs0 hs1 h0 h1 hst hen =>
    rw [hr] at h
    obtain ⟨G, T, hL, hG, hp, hT⟩ := popLeadingGaps_spec (mid ++ [r1]) (o.start + r0.length)
    simp only [List.cons_append] at h
    rw [hp] at h
    simp only [Except.ok.injEq] at h
    subst h
    have hl0 := hs0.length
    obtain ⟨f1, g1, hr1, hg1, _⟩ := id hs1
    rcases hT with rfl | ⟨f, T', rfl⟩
    · -- impossible: the last row is a fragment
      exfalso
      have : r1 ∈ G := by
        have : r1 ∈ mid ++ [r1] := by simp
        rw [hL] at this; simpa using this
      have := hG r1 this
      rw [hr1] at this; simp [Row.isGap] at this
    · rcases append_cons_eq_concat hL.symm with ⟨rfl, rfl, hx⟩ | ⟨T'', rfl, rfl⟩
      · -- only the last row is left
        refine Content.one (A ++ s0 :: G) B s1 r1 0 dr (by simp [hs]) (by simp [hx]) hs1 (by omega) h1 ?_ ?_
        · simp only [rowsLength_append, rowsLength_cons]; omega
        · simp only [rowsLength_append, rowsLength_cons]; omega
      · refine Content.many (A ++ s0 :: G) B T'' (.frag f) s1 (.frag f) r1 0 dr (by simp [hs]) (by simp)
          (Short.refl f) hs1 (by omega) h1 ?_ ?_
        · simp only [rowsLength_append, rowsLength_cons]; omega
        · simp only [rowsLength_append, rowsLength_cons] at hen ⊢; omega

theorem inv_discardStart {src o o'} (hI : Inv src o) (h : discardStart o = .ok o') : Inv src o' := by
  obtain ⟨P, hP, _, _⟩ := discardStart_rows h
  refine Inv.mk' (content_discardStart hI.content h) ?_
  have := hI.distinct
  rw [hP] at this
  exact nodup_of_append_right this


/-! ### discardEnd -/

theorem rowsLength_reverse (l : List Row) : rowsLength l.reverse = rowsLength l := by
  induction l with
  | nil => rfl
  | cons r l ih => rw [List.reverse_cons, rowsLength_append, rowsLength_singleton, rowsLength_cons, ih]; omega

theorem discardEnd_rows {o o' : OverlapResult} (h : discardEnd o = .ok o') :
    ∃ P, o.rows = o'.rows ++ P ∧ o'.start = o.start ∧ o'.bait = o.bait := by
  unfold discardEnd at h
  split at h
  · cases h
  · rename_i d r hr
    obtain ⟨G, T, hL, hG, hp, hT⟩ := popLeadingGaps_spec r d.length
    rw [hp] at h
    simp only [Except.ok.injEq] at h
    subst h
    refine ⟨G.reverse ++ [d], ?_, rfl, rfl⟩
    have := congrArg List.reverse hr
    simp only [List.reverse_reverse, List.reverse_cons, hL, List.reverse_append] at this
    simp [this]

theorem content_discardEnd {src o o'} (hc : Content src o) (h : discardEnd o = .ok o') : Content src o' := by
  unfold discardEnd at h
  cases hc with
  | empty hr _ => rw [hr] at h; cases h
  | one A B s r dl dr hs hr hsh h0 h1 hst hen =>
    rw [hr] at h
    simp only [List.reverse_cons, List.reverse_nil, List.nil_append, popLeadingGaps, Except.ok.injEq] at h
    subst h
    refine Content.empty rfl ?_
    have := hsh.length
    simp only; omega
  | many A B mid s0 s1 r0 r1 dl dr hs hr hs0 hs1 h0 h1 hst hen =>
    rw [hr] at h
    obtain ⟨G, T, hL, hG, hp, hT⟩ := popLeadingGaps_spec (mid.reverse ++ [r0]) r1.length
    simp only [List.cons_append, List.reverse_cons, List.reverse_append, List.reverse_nil, List.nil_append,
      ] at h
    rw [hp] at h
    simp only [Except.ok.injEq] at h
    subst h
    have hl1 := hs1.length
    obtain ⟨f0, g0, hr0, hg0, _⟩ := id hs0
    rcases hT with rfl | ⟨f, T', rfl⟩
    · exfalso
      have : r0 ∈ G := by
        have : r0 ∈ mid.reverse ++ [r0] := by simp
        rw [hL] at this; simpa using this
      have := hG r0 this
      rw [hr0] at this; simp [Row.isGap] at this
    · rcases append_cons_eq_concat hL.symm with ⟨rfl, hG', hx⟩ | ⟨T'', rfl, hm⟩
      · -- only the first row is left
        subst hG'
        refine Content.one A (mid ++ s1 :: B) s0 r0 dl 0 (by simp [hs]) (by simp [hx]) hs0 h0 (by omega) hst ?_
        simp only [rowsLength_reverse]; omega
      · have hm' : mid = T''.reverse ++ .frag f :: G.reverse := by
          have := congrArg List.reverse hm
          simpa using this
        subst hm'
        refine Content.many A (G.reverse ++ s1 :: B) T''.reverse s0 (.frag f) r0 (.frag f) dl 0 (by simp [hs])
          (by simp) hs0 (Short.refl f) h0 (by omega) hst ?_
        simp only [rowsLength_append, rowsLength_cons, rowsLength_reverse] at hen ⊢; omega

theorem inv_discardEnd {src o o'} (hI : Inv src o) (h : discardEnd o = .ok o') : Inv src o' := by
  obtain ⟨P, hP, _, _⟩ := discardEnd_rows h
  refine Inv.mk' (content_discardEnd hI.content h) ?_
  have := hI.distinct
  rw [hP] at this
  exact nodup_of_append_left this


/-! ### trimLargeOverhangs: a composition of the two discards -/

theorem trimLarge_cases {o o' : OverlapResult} {e : Int} (h : trimLargeOverhangs o e = .ok o') :
    o' = o ∨ discardStart o = .ok o' ∨ discardEnd o = .ok o' ∨
      ∃ o1, discardStart o = .ok o1 ∧ discardEnd o1 = .ok o' := by
  unfold trimLargeOverhangs at h
  split at h
  · cases h; exact Or.inl rfl
  · -- first phase
    have key : ∀ (o1 : OverlapResult) (d : Bool), (o1 = o ∨ discardStart o = .ok o1) →
        (if (d = true ∧ o1.rows.isEmpty = true) then (pure o1 : R OverlapResult)
         else if o1.endOverhang > e then do
           let ov ← o1.endRowBaitOverlap
           if ov < e then o1.discardEnd else pure o1
         else pure o1) = .ok o' →
        o' = o ∨ discardStart o = .ok o' ∨ discardEnd o = .ok o' ∨
          ∃ o1, discardStart o = .ok o1 ∧ discardEnd o1 = .ok o' := by
      intro o1 d h1 h2
      split at h2
      · cases h2
        rcases h1 with rfl | h1
        · exact Or.inl rfl
        · exact Or.inr (Or.inl h1)
      · split at h2
        · cases hov : o1.endRowBaitOverlap with
          | error err => rw [hov] at h2; cases h2
          | ok ov =>
            rw [hov] at h2
            simp only [bind, Except.bind] at h2
            split at h2
            · rcases h1 with rfl | h1
              · exact Or.inr (Or.inr (Or.inl h2))
              · exact Or.inr (Or.inr (Or.inr ⟨o1, h1, h2⟩))
            · cases h2
              rcases h1 with rfl | h1
              · exact Or.inl rfl
              · exact Or.inr (Or.inl h1)
        · cases h2
          rcases h1 with rfl | h1
          · exact Or.inl rfl
          · exact Or.inr (Or.inl h1)
    split at h
    · cases hov : o.startRowBaitOverlap with
      | error err => rw [hov] at h; cases h
      | ok ov =>
        rw [hov] at h
        simp only [bind, Except.bind] at h
        split at h
        · cases hd : o.discardStart with
          | error err => rw [hd] at h; cases h
          | ok o1 =>
            rw [hd] at h
            have := key o1 true (Or.inr hd) h
            rw [hd] at this
            exact this
        · exact key o false (Or.inl rfl) h
    · exact key o false (Or.inl rfl) h


/-! ### trimFragment -/

/-- What an accepted `trim_fragment` does, given whether the fragment is the first (`a`) / last (`b`) row:
    `d1`, `d2` are the amounts cut at the start / end of the result. -/
theorem trimFragment_spec {o : OverlapResult} {trim : Fragment} {ks ke : Bool} {oid : Nat}
    {o' : OverlapResult} {new : Fragment} {a b : Bool}
    (hs : firstIs o trim = .ok a) (he : lastIs o trim = .ok b)
    (h : trimFragment o trim ks ke oid = .ok (o', new)) :
    ∃ d1 d2 : Int,
      d1 = (if a = true ∧ o.startOverhang > 0 ∧ ks = false then o.startOverhang else 0) ∧
      d2 = (if b = true ∧ o.endOverhang > 0 ∧ ke = false then o.endOverhang else 0) ∧
      (a = true ∨ b = true) ∧
      o'.start = o.start + d1 ∧ o'.stop = o.stop - d2 ∧ o'.bait = o.bait ∧
      new.name = trim.name ∧ new.strand = trim.strand ∧ new.oid = oid ∧ new.start ≤ new.stop ∧
      (if trim.strand = 1 then new.start = trim.start + d1 ∧ new.stop = trim.stop - d2
        else new.start = trim.start + d2 ∧ new.stop = trim.stop - d1) ∧
      o'.rows = (if b = true then setLast o.rows (.frag new) else
                  match o.rows with
                  | [] => []
                  | _ :: r => .frag new :: r) := by
  unfold trimFragment at h
  have he' : ∀ x, lastIs { o with start := x } trim = .ok b := fun x => he
  simp only [hs, bind, Except.bind, pure, Except.pure, endOverhang, startOverhang] at h ⊢
  by_cases c1 : o.start < o.bait.start <;> by_cases c2 : o.bait.stop < o.stop <;>
  by_cases c3 : trim.strand = 1 <;> cases a <;> cases b <;> cases ks <;> cases ke <;>
  simp [c1, c2, c3, he', mkFragment] at h ⊢
  all_goals (split at h <;> simp at h)
  all_goals (obtain ⟨rfl, rfl⟩ := h; rename_i heq; (repeat' split at heq) <;>
    first
    | (simp at heq; done)
    | (simp at heq; subst heq; (try simp); first | omega | exact ⟨by omega, rfl⟩))

theorem trim_d_nonneg {c : Prop} [Decidable c] {x : Int} {p : Prop} [Decidable p] :
    0 ≤ (if c ∧ x > 0 ∧ p then x else 0) := by
  split
  · omega
  · omega

theorem Short.update {f new : Fragment} {s : Row} {dl dr d1 d2 : Int} (h : Short (.frag f) s dl dr)
    (hn : new.name = f.name) (hst : new.strand = f.strand)
    (hc : if f.strand = 1 then new.start = f.start + d1 ∧ new.stop = f.stop - d2
          else new.start = f.start + d2 ∧ new.stop = f.stop - d1) :
    Short (.frag new) s (dl + d1) (dr + d2) := by
  obtain ⟨f', g, hf, rfl, hname, hstrand, hcoord⟩ := h
  cases hf
  refine ⟨new, g, rfl, rfl, by rw [hn, hname], by rw [hst, hstrand], ?_⟩
  rw [hstrand] at hc
  split at hcoord <;> simp_all <;> omega

theorem firstIs_cons (o : OverlapResult) (f : Fragment) (r : Row) (t : List Row) (h : o.rows = r :: t) :
    firstIs o f = .ok (rowIs r f) := by
  unfold firstIs; rw [h, pyGet_zero_cons]; rfl

theorem lastIs_concat (o : OverlapResult) (f : Fragment) (r : Row) (t : List Row) (h : o.rows = t ++ [r]) :
    lastIs o f = .ok (rowIs r f) := by
  unfold lastIs; rw [h, pyGet_neg_one_concat]; rfl

theorem rowIs_self (f : Fragment) : rowIs (.frag f) f = true := by simp [rowIs]

theorem applyOp_trimFirst {o o' : OverlapResult} {ks ke : Bool} {oid : Nat}
    (h : applyOp o (.trimFirst ks ke) oid = .ok o') :
    ∃ f t new, o.rows = .frag f :: t ∧ trimFragment o f ks ke oid = .ok (o', new) := by
  unfold applyOp at h
  simp only [bind, Except.bind] at h
  cases hp : pyGet o.rows 0 with
  | error e => rw [hp] at h; cases h
  | ok r =>
    rw [hp] at h
    obtain ⟨t, ht⟩ := pyGet_zero_ok hp
    cases r with
    | gap g => cases h
    | frag f =>
      simp only at h
      cases ht' : trimFragment o f ks ke oid with
      | error e => rw [ht'] at h; cases h
      | ok p =>
        rw [ht'] at h
        obtain ⟨o1, new⟩ := p
        simp only [pure, Except.pure, Except.ok.injEq] at h
        subst h
        exact ⟨f, t, new, ht, ht'⟩

theorem applyOp_trimLast {o o' : OverlapResult} {ks ke : Bool} {oid : Nat}
    (h : applyOp o (.trimLast ks ke) oid = .ok o') :
    ∃ f t new, o.rows = t ++ [.frag f] ∧ trimFragment o f ks ke oid = .ok (o', new) := by
  unfold applyOp at h
  simp only [bind, Except.bind] at h
  cases hp : pyGet o.rows (-1) with
  | error e => rw [hp] at h; cases h
  | ok r =>
    rw [hp] at h
    obtain ⟨t, ht⟩ := pyGet_neg_one_ok hp
    cases r with
    | gap g => cases h
    | frag f =>
      simp only at h
      cases ht' : trimFragment o f ks ke oid with
      | error e => rw [ht'] at h; cases h
      | ok p =>
        rw [ht'] at h
        obtain ⟨o1, new⟩ := p
        simp only [pure, Except.pure, Except.ok.injEq] at h
        subst h
        exact ⟨f, t, new, ht, ht'⟩


theorem inv_trimFragment_first {src o o'} {f new : Fragment} {t : List Row} {ks ke : Bool} {oid : Nat}
    (hI : Inv src o) (hr : o.rows = .frag f :: t) (hfresh : oid ∉ ids o.rows)
    (h : trimFragment o f ks ke oid = .ok (o', new)) : Inv src o' := by
  have hfirst : firstIs o f = .ok true := by rw [firstIs_cons o f _ _ hr, rowIs_self]
  have hdist := hI.distinct
  cases hI.content with
  | empty hr' _ => rw [hr'] at hr; cases hr
  | one A B s r dl dr hs hr' hsh h0 h1 hst hen =>
    rw [hr'] at hr
    cases hr
    have hlast : lastIs o f = .ok true := by rw [lastIs_concat o f (.frag f) [] hr', rowIs_self]
    obtain ⟨d1, d2, hd1, hd2, _, hst', hen', _, hn, hstr, hoid, _, hco, hrows⟩ := trimFragment_spec hfirst hlast h
    have p1 : 0 ≤ d1 := by rw [hd1]; exact trim_d_nonneg
    have p2 : 0 ≤ d2 := by rw [hd2]; exact trim_d_nonneg
    simp only [if_true, hr', setLast_singleton] at hrows
    refine Inv.mk' (Content.one A B s (.frag new) (dl + d1) (dr + d2) hs hrows (hsh.update hn hstr hco)
      (by omega) (by omega) (by omega) (by omega)) ?_
    rw [hrows]; simp [ids_cons_frag, ids_nil]
  | many A B mid s0 s1 r0 r1 dl dr hs hr' hs0 hs1 h0 h1 hst hen =>
    rw [hr'] at hr
    simp only [List.cons_append, List.cons.injEq] at hr
    obtain ⟨rfl, rfl⟩ := hr
    obtain ⟨f1, g1, rfl, hg1, _⟩ := id hs1
    rw [hr'] at hdist hfresh
    simp only [List.cons_append, ids_cons_frag, ids_append, ids_nil] at hdist hfresh
    have hne : f1.oid ≠ f.oid := by
      intro he
      simp [he] at hdist
    have hlast : lastIs o f = .ok false := by
      rw [lastIs_concat o f (.frag f1) (.frag f :: mid) hr']
      simp [rowIs, hne]
    obtain ⟨d1, d2, hd1, hd2, _, hst', hen', _, hn, hstr, hoid, _, hco, hrows⟩ := trimFragment_spec hfirst hlast h
    have p1 : 0 ≤ d1 := by rw [hd1]; exact trim_d_nonneg
    have p2 : d2 = 0 := by rw [hd2]; simp
    subst p2
    simp only [hr', List.cons_append] at hrows
    simp only [Bool.false_eq_true, if_false] at hrows
    have := hs0.update (d1 := d1) (d2 := 0) hn hstr hco
    simp only [Int.add_zero] at this
    refine Inv.mk' (Content.many A B mid s0 s1 (.frag new) (.frag f1) (dl + d1) dr hs hrows this hs1
      (by omega) h1 (by omega) (by omega)) ?_
    rw [hrows]
    simp only [ids_cons_frag, ids_append, ids_nil, hoid]
    simp only [List.nodup_cons] at hdist ⊢
    simp only [List.mem_cons, not_or] at hfresh
    exact ⟨hfresh.2, hdist.2⟩

theorem inv_trimFragment_last {src o o'} {f new : Fragment} {t : List Row} {ks ke : Bool} {oid : Nat}
    (hI : Inv src o) (hr : o.rows = t ++ [.frag f]) (hfresh : oid ∉ ids o.rows)
    (h : trimFragment o f ks ke oid = .ok (o', new)) : Inv src o' := by
  have hlast : lastIs o f = .ok true := by rw [lastIs_concat o f _ _ hr, rowIs_self]
  have hdist := hI.distinct
  cases hI.content with
  | empty hr' _ => rw [hr'] at hr; simp at hr
  | one A B s r dl dr hs hr' hsh h0 h1 hst hen =>
    rw [hr'] at hr
    have hr2 : [] ++ [r] = t ++ [.frag f] := hr
    have := List.append_inj' hr2 rfl
    obtain ⟨rfl, hrf⟩ := this
    simp only [List.cons.injEq, and_true] at hrf
    subst hrf
    have hfirst : firstIs o f = .ok true := by rw [firstIs_cons o f (.frag f) [] hr', rowIs_self]
    obtain ⟨d1, d2, hd1, hd2, _, hst', hen', _, hn, hstr, hoid, _, hco, hrows⟩ := trimFragment_spec hfirst hlast h
    have p1 : 0 ≤ d1 := by rw [hd1]; exact trim_d_nonneg
    have p2 : 0 ≤ d2 := by rw [hd2]; exact trim_d_nonneg
    simp only [if_true, hr', setLast_singleton] at hrows
    refine Inv.mk' (Content.one A B s (.frag new) (dl + d1) (dr + d2) hs hrows (hsh.update hn hstr hco)
      (by omega) (by omega) (by omega) (by omega)) ?_
    rw [hrows]; simp [ids_cons_frag, ids_nil]
  | many A B mid s0 s1 r0 r1 dl dr hs hr' hs0 hs1 h0 h1 hst hen =>
    rw [hr'] at hr
    have hr2 : (r0 :: mid) ++ [r1] = t ++ [.frag f] := by simpa using hr
    have := List.append_inj' hr2 rfl
    obtain ⟨rfl, hrf⟩ := this
    simp only [List.cons.injEq, and_true] at hrf
    subst hrf
    obtain ⟨f0, g0, rfl, hg0, _⟩ := id hs0
    rw [hr'] at hdist hfresh
    simp only [List.cons_append, ids_cons_frag, ids_append, ids_nil] at hdist hfresh
    have hne : f0.oid ≠ f.oid := by
      intro he
      simp [he] at hdist
    have hfirst : firstIs o f = .ok false := by
      rw [firstIs_cons o f (.frag f0) (mid ++ [.frag f]) (by simpa using hr')]
      simp [rowIs, hne]
    obtain ⟨d1, d2, hd1, hd2, _, hst', hen', _, hn, hstr, hoid, _, hco, hrows⟩ := trimFragment_spec hfirst hlast h
    have p1 : 0 ≤ d2 := by rw [hd2]; exact trim_d_nonneg
    have p2 : d1 = 0 := by rw [hd1]; simp
    subst p2
    have hr3 : o.rows = (.frag f0 :: mid) ++ [.frag f] := by simpa using hr'
    simp only [if_true, hr3, setLast_concat] at hrows
    have := hs1.update (d1 := 0) (d2 := d2) hn hstr hco
    simp only [Int.zero_add] at this
    refine Inv.mk' (Content.many A B mid s0 s1 (.frag f0) (.frag new) dl (dr + d2) hs (by simpa using hrows) hs0 this
      h0 (by omega) (by omega) (by omega)) ?_
    rw [hrows]
    simp only [List.cons_append, ids_cons_frag, ids_append, ids_nil, hoid]
    simp only [List.mem_cons, not_or, List.mem_append] at hfresh
    simp only [List.nodup_cons, List.nodup_append] at hdist ⊢
    grind

theorem cumEnds_getElem? (acc : Int) (rows : List Row) (k : Nat) (hk : k < rows.length) :
    (cumEnds acc rows)[k]? = some (acc + rowsLength (rows.take (k + 1))) := by
  induction rows generalizing acc k with
  | nil => simp at hk
  | cons r rows ih =>
    cases k with
    | zero => simp [cumEnds, rowsLength_cons, rowsLength_nil]
    | succ k =>
      simp only [cumEnds, List.getElem?_cons_succ, List.take_succ_cons, rowsLength_cons]
      rw [ih (acc + r.length) k (by simpa using hk)]
      congr 1; omega

theorem cumEnds_length (acc : Int) (rows : List Row) : (cumEnds acc rows).length = rows.length := by
  induction rows generalizing acc with
  | nil => rfl
  | cons r rs ih => simp [cumEnds, ih]

theorem pyGet_nonneg_ok {α} {l : List α} {i : Int} {x : α} (h : pyGet l i = .ok x) (hi : 0 ≤ i) :
    l[i.toNat]? = some x ∧ i.toNat < l.length := by
  unfold pyGet at h
  simp only [show ¬ i < 0 by omega, if_false] at h
  split at h
  · cases h
  · rename_i hc
    split at h
    · rename_i y hy
      cases h
      exact ⟨hy, by omega⟩
    · cases h

theorem skipGapsRight_spec (rows : List Row) (fuel : Nat) (i j i' : Int)
    (h : skipGapsRight rows fuel i j = .ok i') :
    i ≤ i' ∧ (i' ≤ j → ∃ r, pyGet rows i' = .ok r ∧ r.isGap = false) := by
  induction fuel generalizing i with
  | zero => simp [skipGapsRight] at h
  | succ fuel ih =>
    unfold skipGapsRight at h
    split at h
    · cases hp : pyGet rows i with
      | error e => rw [hp] at h; cases h
      | ok r =>
        rw [hp] at h
        simp only [bind, Except.bind] at h
        split at h
        · have := ih (i + 1) h
          exact ⟨by omega, this.2⟩
        · cases h
          exact ⟨by omega, fun _ => ⟨r, hp, by simpa using ‹¬ r.isGap = true›⟩⟩
    · cases h
      exact ⟨by omega, fun hh => by omega⟩

theorem skipGapsLeft_spec (rows : List Row) (fuel : Nat) (i j j' : Int)
    (h : skipGapsLeft rows fuel i j = .ok j') :
    j' ≤ j ∧ (i ≤ j' → ∃ r, pyGet rows j' = .ok r ∧ r.isGap = false) := by
  induction fuel generalizing j with
  | zero => simp [skipGapsLeft] at h
  | succ fuel ih =>
    unfold skipGapsLeft at h
    split at h
    · cases hp : pyGet rows j with
      | error e => rw [hp] at h; cases h
      | ok r =>
        rw [hp] at h
        simp only [bind, Except.bind] at h
        split at h
        · have := ih (j - 1) h
          exact ⟨by omega, this.2⟩
        · cases h
          exact ⟨by omega, fun _ => ⟨r, hp, by simpa using ‹¬ r.isGap = true›⟩⟩
    · cases h
      exact ⟨by omega, fun hh => by omega⟩

theorem findOverlaps_spec {src : List Row} {bait : Fragment} {o : OverlapResult}
    (h : findOverlaps src bait = .ok (some o)) :
    ∃ i j : Nat, i ≤ j ∧ j < src.length ∧
      (∃ r, src[i]? = some r ∧ r.isGap = false) ∧ (∃ r, src[j]? = some r ∧ r.isGap = false) ∧
      o.rows = (src.drop i).take (j + 1 - i) ∧
      o.start = 1 + rowsLength (src.take i) ∧ o.stop = rowsLength (src.take (j + 1)) ∧ o.bait = bait := by
  unfold findOverlaps at h
  split at h
  · cases h
  · simp only at h
    split at h
    · cases h
    · rename_i ovr hb
      simp only [bind, Except.bind] at h
      generalize hi0 : extendLeft (buildIndex src) bait.start ovr ovr = iOvr at h
      generalize hj0 : extendRight (buildIndex src) bait.stop ((buildIndex src).length - (ovr + 1)) ovr = jOvr at h
      cases hi : skipGapsRight src (src.length + 2) (iOvr : Int) (jOvr : Int) with
      | error e => rw [hi] at h; cases h
      | ok i =>
        rw [hi] at h
        simp only at h
        cases hj : skipGapsLeft src (src.length + 2) i (jOvr : Int) with
        | error e => rw [hj] at h; cases h
        | ok j =>
          rw [hj] at h
          simp only at h
          split at h
          · cases h
          · rename_i hij
            have hij : i ≤ j := by simpa using hij
            cases hen : pyGet (buildIndex src) j with
            | error e => rw [hen] at h; cases h
            | ok en =>
              rw [hen] at h
              simp only [pure, Except.pure, Except.ok.injEq, Option.some.injEq] at h
              subst h
              obtain ⟨hi1, hi2⟩ := skipGapsRight_spec _ _ _ _ _ hi
              obtain ⟨hj1, hj2⟩ := skipGapsLeft_spec _ _ _ _ _ hj
              have hi0' : 0 ≤ i := by omega
              obtain ⟨ri, hri, hgi⟩ := hi2 (by omega)
              obtain ⟨rj, hrj, hgj⟩ := hj2 hij
              obtain ⟨hri1, hri2⟩ := pyGet_nonneg_ok hri hi0'
              obtain ⟨hrj1, hrj2⟩ := pyGet_nonneg_ok hrj (by omega)
              obtain ⟨hen1, hen2⟩ := pyGet_nonneg_ok hen (by omega)
              refine ⟨i.toNat, j.toNat, by omega, hrj2, ⟨ri, hri1, hgi⟩, ⟨rj, hrj1, hgj⟩, ?_, ?_, ?_, rfl⟩
              · simp only [pySlice]
                congr 1
                omega
              · simp only
                split
                · rename_i hz
                  subst hz
                  simp [rowsLength_nil]
                · rename_i hz
                  have : (i - 1).toNat < src.length := by omega
                  simp only [idxAt, buildIndex, List.getD_eq_getElem?_getD, cumEnds_getElem? 0 src _ this]
                  simp only [Option.getD_some]
                  have : (i - 1).toNat + 1 = i.toNat := by omega
                  rw [this]; omega
              · simp only
                rw [buildIndex, cumEnds_getElem? 0 src _ hrj2] at hen1
                simp only [Option.some.injEq] at hen1
                omega

theorem not_gap_frag {r : Row} (h : r.isGap = false) : ∃ f, r = .frag f := by
  cases r with
  | frag f => exact ⟨f, rfl⟩
  | gap g => simp [Row.isGap] at h

theorem inv_lookup' {src : List Row} {bait : Fragment} {o : OverlapResult}
    (hd : (ids src).Nodup) (h : findOverlaps src bait = .ok (some o)) : Inv src o := by
  obtain ⟨i, j, hij, hj, ⟨ri, hri, hgi⟩, ⟨rj, hrj, hgj⟩, hrows, hst, hen, _⟩ := findOverlaps_spec h
  obtain ⟨fi, rfl⟩ := not_gap_frag hgi
  obtain ⟨fj, rfl⟩ := not_gap_frag hgj
  have hsrc : src = src.take i ++ o.rows ++ src.drop (j + 1) := by
    rw [hrows]
    have h1 : src.drop (j + 1) = ((src.drop i).drop (j + 1 - i)) := by
      rw [List.drop_drop]; congr 1; omega
    rw [h1, List.append_assoc, List.take_append_drop, List.take_append_drop]
  have hlen : o.rows.length = j + 1 - i := by
    rw [hrows, List.length_take, List.length_drop]; omega
  have htake : src.take (j + 1) = src.take i ++ o.rows := by
    rw [hrows, ← List.take_add]; congr 1; omega
  have h0 : o.rows[0]? = some (.frag fi) := by
    rw [hrows, List.getElem?_take]; simp [hri]; omega
  have hl : o.rows[j - i]? = some (.frag fj) := by
    rw [hrows, List.getElem?_take, List.getElem?_drop]
    have : i + (j - i) = j := by omega
    simp [this, hrj]; omega
  have hdist : (ids o.rows).Nodup := by
    rw [hsrc] at hd
    exact nodup_of_append_right (nodup_of_append_left hd)
  refine Inv.mk' ?_ hdist
  rw [htake, rowsLength_append] at hen
  rcases list_shape o.rows with hr | ⟨x, hr⟩ | ⟨x, m, y, hr⟩
  · rw [hr] at hlen; simp at hlen; omega
  · rw [hr] at h0 hsrc hen
    simp at h0; subst h0
    refine Content.one (src.take i) (src.drop (j + 1)) (.frag fi) (.frag fi) 0 0 (by simpa using hsrc) hr
      (Short.refl fi) (by omega) (by omega) (by omega) ?_
    rw [rowsLength_singleton] at hen; omega
  · rw [hr] at h0 hsrc hen hl hlen
    simp at h0; subst h0
    have : j - i = m.length + 1 := by simp at hlen; omega
    rw [this] at hl
    simp at hl
    subst hl
    refine Content.many (src.take i) (src.drop (j + 1)) m (.frag fi) (.frag fj) (.frag fi) (.frag fj) 0 0
      (by simpa using hsrc) hr (Short.refl fi) (Short.refl fj) (by omega) (by omega) (by omega) ?_
    simp only [List.cons_append, rowsLength_cons, rowsLength_append, rowsLength_nil] at hen
    omega

/-- the operations that create a new Fragment object (and so consume a fresh object id) -/
def needsId : OvOp → Bool
  | .trimFirst _ _ => true
  | .trimLast _ _ => true
  | _ => false

theorem inv_trimLarge {src o o'} {e : Int} (hI : Inv src o) (h : trimLargeOverhangs o e = .ok o') : Inv src o' := by
  rcases trimLarge_cases h with rfl | h1 | h1 | ⟨o1, h1, h2⟩
  · exact hI
  · exact inv_discardStart hI h1
  · exact inv_discardEnd hI h1
  · exact inv_discardEnd (inv_discardStart hI h1) h2

theorem inv_step' {src o o'} {op : OvOp} {oid : Nat} (hI : Inv src o)
    (hfresh : needsId op = true → oid ∉ ids o.rows) (h : applyOp o op oid = .ok o') : Inv src o' := by
  cases op with
  | discardStart => exact inv_discardStart hI h
  | discardEnd => exact inv_discardEnd hI h
  | trimLarge e => exact inv_trimLarge hI h
  | trimFirst ks ke =>
    obtain ⟨f, t, new, hr, ht⟩ := applyOp_trimFirst h
    exact inv_trimFragment_first hI hr (hfresh rfl) ht
  | trimLast ks ke =>
    obtain ⟨f, t, new, hr, ht⟩ := applyOp_trimLast h
    exact inv_trimFragment_last hI hr (hfresh rfl) ht

/-! ids after a step -/

theorem trimFragment_ids {o o' : OverlapResult} {f new : Fragment} {ks ke : Bool} {oid : Nat}
    (hne : o.rows ≠ []) (h : trimFragment o f ks ke oid = .ok (o', new)) :
    ∀ x ∈ ids o'.rows, x ∈ ids o.rows ∨ x = oid := by
  rcases list_nil_or_concat o.rows with hr | ⟨t, r, hr⟩
  · exact absurd hr hne
  · obtain ⟨r0, t0, hr0⟩ : ∃ r0 t0, o.rows = r0 :: t0 := by
      cases hc : o.rows with
      | nil => exact absurd hc hne
      | cons a b => exact ⟨a, b, rfl⟩
    obtain ⟨d1, d2, _, _, _, _, _, _, _, _, hoid, _, _, hrows⟩ :=
      trimFragment_spec (firstIs_cons o f r0 t0 hr0) (lastIs_concat o f r t hr) h
    intro x hx
    rw [hrows] at hx
    split at hx
    · rw [hr, setLast_concat, ids_append, ids_cons_frag, ids_nil] at hx
      rw [hr, ids_append]
      simp only [List.mem_append, List.mem_singleton] at hx ⊢
      rcases hx with hx | hx
      · exact Or.inl (Or.inl hx)
      · exact Or.inr (by rw [hx, hoid])
    · rw [hr0] at hx
      simp only [ids_cons_frag, List.mem_cons] at hx
      rcases hx with hx | hx
      · exact Or.inr (by rw [hx, hoid])
      · left
        rw [hr0]
        cases r0 with
        | frag g => rw [ids_cons_frag]; exact List.mem_cons_of_mem _ hx
        | gap g => rw [ids_cons_gap]; exact hx

theorem ids_step {o o' : OverlapResult} {op : OvOp} {oid : Nat} (h : applyOp o op oid = .ok o') :
    ∀ x ∈ ids o'.rows, x ∈ ids o.rows ∨ x = oid := by
  have hS : ∀ {a b : OverlapResult}, discardStart a = .ok b → ∀ x ∈ ids b.rows, x ∈ ids a.rows := by
    intro a b hab x hx
    obtain ⟨P, hP, _⟩ := discardStart_rows hab
    rw [hP, ids_append]; exact List.mem_append_right _ hx
  have hE : ∀ {a b : OverlapResult}, discardEnd a = .ok b → ∀ x ∈ ids b.rows, x ∈ ids a.rows := by
    intro a b hab x hx
    obtain ⟨P, hP, _⟩ := discardEnd_rows hab
    rw [hP, ids_append]; exact List.mem_append_left _ hx
  cases op with
  | discardStart => exact fun x hx => Or.inl (hS h x hx)
  | discardEnd => exact fun x hx => Or.inl (hE h x hx)
  | trimLarge e =>
    intro x hx
    left
    rcases trimLarge_cases h with rfl | h1 | h1 | ⟨o1, h1, h2⟩
    · exact hx
    · exact hS h1 x hx
    · exact hE h1 x hx
    · exact hS h1 x (hE h2 x hx)
  | trimFirst ks ke =>
    obtain ⟨f, t, new, hr, ht⟩ := applyOp_trimFirst h
    exact trimFragment_ids (by rw [hr]; simp) ht
  | trimLast ks ke =>
    obtain ⟨f, t, new, hr, ht⟩ := applyOp_trimLast h
    exact trimFragment_ids (by rw [hr]; simp) ht

/-- run a sequence of operations; each comes with the object id of the Fragment it may create.
    The first rejected operation ends the run with its error. -/
def runOps (o : OverlapResult) : List (OvOp × Nat) → R OverlapResult
  | [] => .ok o
  | (op, oid) :: rest => do
    let o1 ← applyOp o op oid
    runOps o1 rest

theorem inv_ops' {src : List Row} (ops : List (OvOp × Nat)) {o o' : OverlapResult} (hI : Inv src o)
    (hnd : (ops.map (·.2)).Nodup) (hfresh : ∀ x ∈ ops.map (·.2), x ∉ ids o.rows)
    (h : runOps o ops = .ok o') : Inv src o' := by
  induction ops generalizing o with
  | nil => simp only [runOps, Except.ok.injEq] at h; subst h; exact hI
  | cons p rest ih =>
    obtain ⟨op, oid⟩ := p
    simp only [runOps, bind, Except.bind] at h
    cases h1 : applyOp o op oid with
    | error e => rw [h1] at h; cases h
    | ok o1 =>
      rw [h1] at h
      simp only [List.map_cons, List.nodup_cons] at hnd
      have hI1 : Inv src o1 := inv_step' hI (fun _ => hfresh oid (by simp)) h1
      refine ih hI1 hnd.2 ?_ h
      intro x hx hx1
      rcases ids_step h1 x hx1 with h2 | h2
      · exact hfresh x (by simp [hx]) h2
      · subst h2; exact hnd.1 hx

end AgpTpf.C18
