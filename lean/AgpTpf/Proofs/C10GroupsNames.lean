/-
  C10, single-haplotype chromosome numbering, part 4: the generated names `<prefix><n><suffix>` are read back uniquely,
  hence the new names of all numbered scaffolds are pairwise different; position lemma for sorted outputs.
-/
import AgpTpf.Model.Remap
import AgpTpf.Proofs.C10Groups
import AgpTpf.Proofs.C10GroupsBuild
import AgpTpf.Proofs.C10GroupsNumber
import AgpTpf.Proofs.C20Names
namespace AgpTpf.C10
open AgpTpf

/-- the remainder is empty or starts with a non-digit (same as `C20.NoDigitHead`) -/
def NoDigitHd (s : Str) : Prop := ∀ c, s.head? = some c → isDigit c = false

theorem digits_split : ∀ (a b s s' : Str), (∀ c ∈ a, isDigit c = true) → (∀ c ∈ b, isDigit c = true) →
    NoDigitHd s → NoDigitHd s' → a ++ s = b ++ s' → a = b ∧ s = s' := by
  intro a
  induction a with
  | nil =>
    intro b s s' _ hb hs _ e
    cases b with
    | nil => exact ⟨rfl, by simpa using e⟩
    | cons y b' =>
      exfalso
      simp only [List.nil_append, List.cons_append] at e
      have := hs y (by rw [e]; rfl)
      rw [hb y (by simp)] at this; cases this
  | cons x a' ih =>
    intro b s s' ha hb hs hs' e
    cases b with
    | nil =>
      exfalso
      simp only [List.nil_append, List.cons_append] at e
      have := hs' x (by rw [← e]; rfl)
      rw [ha x (by simp)] at this; cases this
    | cons y b' =>
      simp only [List.cons_append, List.cons.injEq] at e
      obtain ⟨e1, e2⟩ := ih b' s s' (fun c hc => ha c (by simp [hc])) (fun c hc => hb c (by simp [hc])) hs hs' e.2
      exact ⟨by rw [e.1, e1], e2⟩

theorem natToStr_inj' (a b : Nat) (h : natToStr a = natToStr b) : a = b := by
  have ha := @Nat.ofDigitChars_ten_toDigits a
  have hb := @Nat.ofDigitChars_ten_toDigits b
  unfold natToStr at h
  rw [h] at ha
  exact ha.symm.trans hb

/-- **generated names are read back uniquely**: `<prefix><i><s> = <prefix><j><s'>` forces `i = j` and `s = s'` when the
    remainders do not start with a digit (`[]`, `_unloc_<k>`, …). -/
theorem chr_name_inj (p s s' : Str) (i j : Nat) (hs : NoDigitHd s) (hs' : NoDigitHd s')
    (e : p ++ natToStr i ++ s = p ++ natToStr j ++ s') : i = j ∧ s = s' := by
  rw [List.append_assoc, List.append_assoc] at e
  obtain ⟨e1, e2⟩ := digits_split _ _ s s' (C20.natToStr_allDigits i) (C20.natToStr_allDigits j) hs hs'
    (List.append_cancel_left e)
  exact ⟨natToStr_inj' i j e1, e2⟩

def unlocSuffix (k : Nat) : Str := ['_', 'u', 'n', 'l', 'o', 'c', '_'] ++ natToStr k

theorem noDigitHd_nil : NoDigitHd [] := by intro c h; cases h
theorem noDigitHd_unloc (k : Nat) : NoDigitHd (unlocSuffix k) := by
  intro c h
  simp [unlocSuffix] at h
  subst h; decide

theorem unlocSuffix_inj (k k' : Nat) (h : unlocSuffix k = unlocSuffix k') : k = k' :=
  natToStr_inj' k k' (List.append_cancel_left h)

/-- a Pretext scaffold name containing a character that is neither a digit nor one of `_ u n l o c` does not occur
    inside an `_unloc_<k>` suffix (e.g. every `Scaffold_<n>`, because of the `S`) -/
theorem not_occurs_unloc (orig : Str) (k : Nat) (c : Char) (hc : c ∈ orig) (hd : isDigit c = false)
    (hu : c ∉ ['_', 'u', 'n', 'l', 'o', 'c']) : occursIn orig (unlocSuffix k) = false := by
  apply occursIn_false_of_mem orig _ c hc
  intro hm
  unfold unlocSuffix at hm
  rcases List.mem_append.1 hm with h | h
  · apply hu
    simp only [List.mem_cons, List.not_mem_nil, or_false] at h ⊢
    rcases h with h | h | h | h | h | h | h <;> simp [h]
  · rw [C20.natToStr_allDigits k c h] at hd; cases hd

/-! ### all new names are different -/

/-- the pieces of one Pretext scaffold: name = Pretext name ++ remainder (`[]` for the chromosome itself,
    `_unloc_<k>` for an unloc), the Pretext name does not occur again in the remainder -/
def PieceShape (fs : List Scaffold) (sid : Nat) : Prop :=
  ∃ suf, (fs.getD sid default).name = origOf fs sid ++ suf ∧ NoDigitHd suf ∧ occursIn (origOf fs sid) suf = false

theorem origOf_ne_nil (fs : List Scaffold) (sid : Nat) (h : truthy (fs.getD sid default).originalName = true) :
    origOf fs sid ≠ [] := by
  rcases truthy_cases (fs.getD sid default).originalName with ⟨_, c, r, e⟩ | ⟨e, _⟩
  · unfold origOf; rw [e]; simp
  · rw [e] at h; cases h

/-- new name of a piece of the run at position `k` -/
theorem renamed_piece (fs : List Scaffold) (sid : Nat) (new : Str)
    (hg : truthy (fs.getD sid default).originalName = true) (suf : Str)
    (hn : (fs.getD sid default).name = origOf fs sid ++ suf) (ho : occursIn (origOf fs sid) suf = false) :
    (renameScaffold (origOf fs sid) new (fs.getD sid default)).name = new ++ suf := by
  unfold renameScaffold
  simp only
  rw [hn]
  exact replaceAll_prefix_noOcc _ _ (origOf_ne_nil fs sid hg) _ suf ho

/-- every entry gets the name `<prefix><k+1><suf>` with `k` the position of its run among the sorted runs -/
theorem entry_new_name (prefix_ : Str) (fs : List Scaffold) (entries : List (Str × Nat))
    (hnd : (entries.map (·.2)).Nodup) (hg : ∀ e ∈ entries, truthy (fs.getD e.2 default).originalName = true)
    (e : Str × Nat) (he : e ∈ entries) (suf : Str)
    (hn : (fs.getD e.2 default).name = origOf fs e.2 ++ suf) (ho : occursIn (origOf fs e.2) suf = false) :
    let sorted := sortedRuns fs (groupRuns (origPairs fs entries))
    let fs' := nameRuns prefix_ ((List.range sorted.length).zip sorted) fs
    ∃ k, ∃ hk : k < sorted.length, e.2 ∈ sorted[k].2 ∧ sorted[k].1 = origOf fs e.2 ∧
      (fs'.getD e.2 default) = { fs.getD e.2 default with name := prefix_ ++ natToStr (k + 1) ++ suf } := by
  intro sorted fs'
  obtain ⟨r, hr, hr1, hr2⟩ := runs_cover fs entries e he
  have hrs : r ∈ sorted := (sortedRuns_perm fs _).mem_iff.2 hr
  obtain ⟨k, hk, hkr⟩ := List.mem_iff_getElem.1 hrs
  refine ⟨k, hk, by rw [hkr]; exact hr2, by rw [hkr]; exact hr1, ?_⟩
  have h3 := (numbering_core prefix_ fs entries hnd).2.2 k hk e.2 (by rw [hkr]; exact hr2)
  show fs'.getD e.2 default = _
  rw [h3, hkr, hr1]
  have := renamed_piece fs e.2 (prefix_ ++ natToStr (k + 1)) (hg e he) suf hn ho
  unfold renameScaffold at this ⊢
  simp only at this
  rw [this]

/-- two ids in the same sorted run / in different sorted runs -/
theorem sorted_run_unique (fs : List Scaffold) (entries : List (Str × Nat)) (hnd : (entries.map (·.2)).Nodup)
    (k k' : Nat) (hk : k < (sortedRuns fs (groupRuns (origPairs fs entries))).length)
    (hk' : k' < (sortedRuns fs (groupRuns (origPairs fs entries))).length) (j : Nat)
    (hj : j ∈ ((sortedRuns fs (groupRuns (origPairs fs entries)))[k]).2)
    (hj' : j ∈ ((sortedRuns fs (groupRuns (origPairs fs entries)))[k']).2) : k = k' := by
  have hnd' := sortedRuns_ids_nodup fs entries hnd
  generalize sortedRuns fs (groupRuns (origPairs fs entries)) = sorted at *
  rw [List.Nodup, List.pairwise_flatMap] at hnd'
  have hp := List.pairwise_iff_getElem.1 hnd'.2
  rcases Nat.lt_trichotomy k k' with h | h | h
  · exact absurd rfl (hp k k' hk hk' h j hj j hj')
  · exact h
  · exact absurd rfl (hp k' k hk' hk h j hj' j hj)

/-- **all numbered scaffolds get pairwise different names** -/
theorem new_names_nodup (prefix_ : Str) (fs : List Scaffold) (entries : List (Str × Nat))
    (hnd : (entries.map (·.2)).Nodup) (hg : ∀ e ∈ entries, truthy (fs.getD e.2 default).originalName = true)
    (hshape : ∀ e ∈ entries, PieceShape fs e.2)
    (hdist : ∀ e ∈ entries, ∀ e' ∈ entries, e.2 ≠ e'.2 → origOf fs e.2 = origOf fs e'.2 →
      (fs.getD e.2 default).name ≠ (fs.getD e'.2 default).name) :
    let sorted := sortedRuns fs (groupRuns (origPairs fs entries))
    let fs' := nameRuns prefix_ ((List.range sorted.length).zip sorted) fs
    (entries.map (fun e => (fs'.getD e.2 default).name)).Nodup := by
  intro sorted fs'
  rw [List.Nodup, List.pairwise_map]
  have hp : entries.Pairwise (fun a b => a.2 ≠ b.2) := by
    have := hnd; rw [List.Nodup, List.pairwise_map] at this; exact this
  refine hp.imp_of_mem ?_
  intro a b ha hb hab heq
  obtain ⟨sa, hna, hda, hoa⟩ := hshape a ha
  obtain ⟨sb, hnb, hdb, hob⟩ := hshape b hb
  obtain ⟨k, hk, hmk, hok, hfa⟩ := entry_new_name prefix_ fs entries hnd hg a ha sa hna hoa
  obtain ⟨k', hk', hmk', hok', hfb⟩ := entry_new_name prefix_ fs entries hnd hg b hb sb hnb hob
  have heq' : (fs'.getD a.2 default).name = (fs'.getD b.2 default).name := heq
  rw [hfa, hfb] at heq'
  simp only at heq'
  obtain ⟨e1, e2⟩ := chr_name_inj prefix_ sa sb (k + 1) (k' + 1) hda hdb heq'
  have ekk : k = k' := by omega
  subst ekk
  have horig : origOf fs a.2 = origOf fs b.2 := by rw [← hok, ← hok']
  apply hdist a ha b hb hab horig
  rw [hna, hnb, horig, e2]

/-! ### positions in a sorted output -/

/-- in a list sorted by `(rank, key)` an element with a strictly smaller key (same rank) stands strictly earlier -/
theorem sorted_position (out : List Scaffold)
    (hs : out.Pairwise (fun a b => a.rank = b.rank → keyLe (C20.keyOf a.name) (C20.keyOf b.name) = true))
    (i j : Nat) (hi : i < out.length) (hj : j < out.length) (hr : out[i].rank = out[j].rank)
    (hlt : C20.keyLt (C20.keyOf out[i].name) (C20.keyOf out[j].name)) : i < j := by
  have hp := List.pairwise_iff_getElem.1 hs
  rcases Nat.lt_trichotomy i j with h | h | h
  · exact h
  · subst h
    have := C20.keyLe_refl' (C20.keyOf out[i].name)
    rw [hlt.2] at this; cases this
  · have := hp j i hj hi h hr.symm
    rw [hlt.2] at this; cases this

end AgpTpf.C10
