/-
  C07, second sentence (gap rows) — part B: the runs of a left-over scaffold (`missingRows`), and what
  `add_missing_scaffolds_from_input` records, carried to the build returned by `remap_to_input_assembly`.
-/
import AgpTpf.Proofs.C07GapA
import AgpTpf.Proofs.C07ChainC
namespace AgpTpf.C07
open AgpTpf
open AgpTpf.C01 (foldlM_inv)

/-- row is a fragment that is NOT registered in `found` (a left-over contig) -/
def rowMissing (found : List (Key × Found)) : Option Row → Bool
  | some (.frag f) => !dHas found f.keyTuple
  | _ => false

/-- row is a fragment that IS registered in `found` -/
def rowFound (found : List (Key × Found)) : Option Row → Bool
  | some (.frag f) => dHas found f.keyTuple
  | _ => false

/-- where a run of a left-over scaffold comes from -/
def RunSrc (found : List (Key × Found)) (jg : Option Gap) (rows : List Row) (t : Run) : Prop :=
  t ∈ gapRuns rows ∨ (∃ j, jg = some j ∧ t.2.1 = [j])

def MissInv (found : List (Key × Found)) (jg : Option Gap) (rows : List Row) (s : Nat) (out : List Row)
    (la : Option Nat) : Prop :=
  (match la with
   | none => out = []
   | some l => l < s ∧ ∃ fl O, rows[l]? = some (.frag fl) ∧ dHas found fl.keyTuple = false ∧ out = O ++ [.frag fl] ∧
       ∀ k, l < k → k < s → rowMissing found rows[k]? = false) ∧
  ∀ t ∈ gapRuns out, RunSrc found jg rows t

theorem missInv_skip {found jg rows s out la} (h : MissInv found jg rows s out la)
    (hs : rowMissing found rows[s]? = false) : MissInv found jg rows (s + 1) out la := by
  refine ⟨?_, h.2⟩
  cases la with
  | none => exact h.1
  | some l =>
    obtain ⟨hl, fl, O, h1, h2, h3, h4⟩ := h.1
    refine ⟨by omega, fl, O, h1, h2, h3, fun k hk1 hk2 => ?_⟩
    by_cases hk : k = s
    · rw [hk]; exact hs
    · exact h4 k hk1 (by omega)

theorem all_isGap_map (l : List Row) (h : l.all Row.isGap = true) : ∃ M : List Gap, l = M.map Row.gap := by
  induction l with
  | nil => exact ⟨[], rfl⟩
  | cons x t ih =>
    simp only [List.all_cons, Bool.and_eq_true] at h
    obtain ⟨M, rfl⟩ := ih h.2
    cases x with
    | gap g => exact ⟨g :: M, rfl⟩
    | frag f => simp [Row.isGap] at h

theorem exists_frag_of_not_all_gap (l : List Row) (h : ¬ l.all Row.isGap = true) :
    ∃ (idx : Nat) (f : Fragment), l[idx]? = some (Row.frag f) := by
  induction l with
  | nil => simp at h
  | cons x t ih =>
    cases x with
    | frag f => exact ⟨0, f, rfl⟩
    | gap g =>
      simp only [List.all_cons, Row.isGap, Bool.true_and] at h
      obtain ⟨idx, f, e⟩ := ih h
      exact ⟨idx + 1, f, by simpa using e⟩

theorem missStep_inv (b : Build) (rows : List Row) (s : Nat) (row : Row) (hrow : rows[s]? = some row)
    (out : List Row) (la fi : Option Nat) (acc' : List Row × Option Nat × Option Nat)
    (hinv : MissInv b.found b.joinGap rows s out la)
    (h : C01.missStep b rows (out, la, fi) (s, row) = .ok acc') :
    MissInv b.found b.joinGap rows (s + 1) acc'.1 acc'.2.1 := by
  cases row with
  | gap g =>
    rw [C01.missStep_gap] at h
    cases h
    exact missInv_skip hinv (by rw [hrow]; rfl)
  | frag f =>
    by_cases hf : dHas b.found f.keyTuple = true
    · rw [C01.missStep_found _ _ _ _ _ hf] at h
      cases h
      exact missInv_skip hinv (by rw [hrow]; simp [rowMissing, hf])
    · have hf' : dHas b.found f.keyTuple = false := by simpa using hf
      rw [C01.missStep_missing _ _ _ _ _ _ _ hf'] at h
      cases hsep : C01.sepBefore b rows la s with
      | error e => rw [hsep] at h; cases h
      | ok sep =>
        rw [hsep] at h
        simp only [Except.map, Except.ok.injEq] at h
        subst h
        simp only
        -- the new last-added state
        have hfirst : s < s + 1 ∧ ∃ fl O, rows[s]? = some (.frag fl) ∧ dHas b.found fl.keyTuple = false ∧
            out ++ sep ++ [Row.frag f] = O ++ [.frag fl] ∧ ∀ k, s < k → k < s + 1 → rowMissing b.found rows[k]? = false :=
          ⟨Nat.lt_succ_self _, f, out ++ sep, hrow, hf', rfl, fun k h1 h2 => by omega⟩
        refine ⟨hfirst, ?_⟩
        cases la with
        | none =>
          have hout : out = [] := hinv.1
          unfold C01.sepBefore at hsep
          simp only [Except.ok.injEq] at hsep
          subst hsep; subst hout
          intro t ht
          simp [gapRuns, headRun, nextFrag] at ht
        | some l =>
          obtain ⟨hl, fl, O, h1, h2, h3, h4⟩ := hinv.1
          have hmissl : rowMissing b.found rows[l]? = true := by rw [h1]; simp [rowMissing, h2]
          have hmisss : rowMissing b.found rows[s]? = true := by rw [hrow]; simp [rowMissing, hf']
          -- the separator is a list of gap rows `M`, and the run `(fl, M, f)` has a source
          have hM : ∃ M : List Gap, sep = M.map Row.gap ∧ RunSrc b.found b.joinGap rows (fl, M, f) := by
            unfold C01.sepBefore at hsep
            simp only at hsep
            by_cases c1 : l = s - 1
            · rw [if_pos c1] at hsep
              cases hsep
              refine ⟨[], rfl, Or.inl ?_⟩
              refine mem_gapRuns_of_index rows l s fl f [] h1 hrow hl ?_
              have : s - (l + 1) = 0 := by omega
              rw [this]; rfl
            · rw [if_neg c1] at hsep
              by_cases c2 : ((rows.drop (l + 1)).take (s - (l + 1))).all Row.isGap = true
              · rw [if_pos c2] at hsep
                cases hsep
                obtain ⟨M, hMe⟩ := all_isGap_map _ c2
                exact ⟨M, hMe, Or.inl (mem_gapRuns_of_index rows l s fl f M h1 hrow hl hMe)⟩
              · rw [if_neg c2] at hsep
                obtain ⟨idx, fk, hk⟩ := exists_frag_of_not_all_gap _ c2
                have hidx : idx < s - (l + 1) := by
                  have := (List.getElem?_eq_some_iff.mp hk).1
                  simp only [List.length_take] at this
                  omega
                rw [List.getElem?_take, if_pos hidx, List.getElem?_drop] at hk
                have hkfound : rowFound b.found rows[l + 1 + idx]? = true := by
                  have := h4 (l + 1 + idx) (by omega) (by omega)
                  rw [hk] at this ⊢
                  simpa [rowMissing, rowFound] using this
                cases hj : b.joinGap with
                | none => rw [hj] at hsep; cases hsep
                | some j =>
                  rw [hj] at hsep
                  simp only [Except.ok.injEq] at hsep
                  subst hsep
                  exact ⟨[j], rfl, Or.inr ⟨j, rfl, rfl⟩⟩
          obtain ⟨M, rfl, hsrc⟩ := hM
          intro t ht
          have e : out ++ M.map Row.gap ++ [Row.frag f] = O ++ .frag fl :: (M.map Row.gap ++ .frag f :: []) := by
            rw [h3]; simp
          rw [e, gapRuns_join] at ht
          rcases List.mem_append.mp ht with ht | ht
          · exact hinv.2 t (h3 ▸ ht)
          · rcases List.mem_cons.mp ht with rfl | ht
            · exact hsrc
            · simp [gapRuns, headRun, nextFrag] at ht

theorem missFold (b : Build) (rows : List Row) : ∀ (n s : Nat), s + n = rows.length →
    ∀ (out : List Row) (la fi : Option Nat) (out' : List Row) (la' fi' : Option Nat),
    MissInv b.found b.joinGap rows s out la →
    ((List.range' s n).zip (rows.drop s)).foldlM (C01.missStep b rows) (out, la, fi) = .ok (out', la', fi') →
    MissInv b.found b.joinGap rows (s + n) out' la' := by
  intro n
  induction n with
  | zero =>
    intro s _ out la fi out' la' fi' hinv h
    simp only [List.range'_zero, List.zip_nil_left, List.foldlM_nil, pure, Except.pure, Except.ok.injEq,
      Prod.mk.injEq] at h
    obtain ⟨rfl, rfl, rfl⟩ := h
    exact hinv
  | succ n ih =>
    intro s hs out la fi out' la' fi' hinv h
    have hlt : s < rows.length := by omega
    rw [List.range'_succ, List.drop_eq_getElem_cons hlt, List.zip_cons_cons, List.foldlM_cons] at h
    cases hstep : C01.missStep b rows (out, la, fi) (s, rows[s]) with
    | error e => rw [hstep] at h; simp [bind, Except.bind] at h
    | ok acc1 =>
      rw [hstep] at h
      simp only [bind, Except.bind] at h
      obtain ⟨o1, l1, f1⟩ := acc1
      have h1 := missStep_inv b rows s rows[s] (List.getElem?_eq_getElem hlt) out la fi _ hinv hstep
      have := ih (s + 1) (by omega) o1 l1 f1 out' la' fi' h1 h
      have e : s + 1 + n = s + (n + 1) := by omega
      rw [← e]; exact this

/-- every run of the left-over scaffold built from one input scaffold is a run of that input scaffold (same gap rows),
    or carries the join gap (model after fix 9be92a2: there is no fall-back rule any more) -/
theorem missingRows_runs (b : Build) (rows out : List Row) (first : Option Nat)
    (h : missingRows b rows = .ok (out, first)) : ∀ t ∈ gapRuns out, RunSrc b.found b.joinGap rows t := by
  rw [C01.missingRows_eq] at h
  cases hf : ((List.range rows.length).zip rows).foldlM (C01.missStep b rows) ([], none, none) with
  | error e => rw [hf] at h; simp [bind, Except.bind] at h
  | ok r =>
    obtain ⟨o, la, fi⟩ := r
    rw [hf] at h
    simp only [bind, Except.bind, pure, Except.pure, Except.ok.injEq, Prod.mk.injEq] at h
    obtain ⟨rfl, rfl⟩ := h
    rw [List.range_eq_range'] at hf
    have hf' : ((List.range' 0 rows.length).zip (rows.drop 0)).foldlM (C01.missStep b rows) ([], none, none) =
        .ok (o, la, fi) := by simpa using hf
    exact (missFold b rows rows.length 0 (by omega) [] none none o la fi
      ⟨rfl, fun t ht => by cases ht⟩ hf').2

/-! ### what `add_missing_scaffolds_from_input` records -/

/-- the gap-row facts about a left-over scaffold `e.1` with recorded predecessor `e.2` -/
def ExtraGapOK (input : List Scaffold) (found : List (Key × Found)) (jg : Option Gap)
    (e : Scaffold × Option (Fragment × List Gap)) : Prop :=
  ∃ sc ∈ input,
    (∀ x, Row.gap x ∈ e.1.rows → jg = some x ∨ Row.gap x ∈ sc.rows) ∧
    (∀ prev gaps, e.2 = some (prev, gaps) →
      (∀ x ∈ gaps, Row.gap x ∈ sc.rows) ∧ ∀ c, e.1.rows.head? = some (.frag c) → (prev, gaps, c) ∈ gapRuns sc.rows) ∧
    (∀ t ∈ gapRuns e.1.rows, RunSrc found jg sc.rows t)

theorem extraGapOK_new (input : List Scaffold) (b : Build) (sc : Scaffold) (hsc : sc ∈ input) (rows : List Row)
    (first : Option Nat) (pred : Option (Fragment × List Gap))
    (hp : pred = match first with | some i => inputPredecessor sc.rows i | none => none)
    (hv : missingRows b sc.rows = .ok (rows, first)) (new : Scaffold) (hnew : new.rows = rows) :
    ExtraGapOK input b.found b.joinGap (new, pred) := by
  have hpred' : ∀ prev gaps, pred = some (prev, gaps) →
      ∃ i, first = some i ∧ inputPredecessor sc.rows i = some (prev, gaps) := by
    intro prev gaps hq
    rw [hp] at hq
    cases first with
    | none => cases hq
    | some i => exact ⟨i, rfl, hq⟩
  clear hp
  obtain ⟨_, h2, _, _, _, _⟩ := C01.missingRows_spec _ _ _ _ hv
  refine ⟨sc, hsc, ?_, ?_, ?_⟩
  · intro x hx
    simp only [hnew] at hx
    rcases h2 x hx with ⟨j, i, f, _, _, _, hg, _⟩ | hj
    · exact Or.inr (List.mem_of_getElem? hg)
    · exact Or.inl hj
  · intro prev gaps hpred
    simp only at hpred
    obtain ⟨i, hfirst, hpred⟩ := hpred' prev gaps hpred
    · -- `i` is a row index (the first left-over fragment, if the scaffold has a head)
      have hi : i ≤ sc.rows.length := by
        obtain ⟨_, _, _, _, _, h6⟩ := C01.missingRows_spec _ _ _ _ hv
        rw [hfirst] at h6
        cases hfind : ((List.range sc.rows.length).zip sc.rows).find? (C01.isMissing b) with
        | none => rw [hfind] at h6; cases h6
        | some p =>
          rw [hfind] at h6
          simp only [Option.map_some, Option.some.injEq] at h6
          have := C01.zip_range_getElem? sc.rows _ (List.mem_of_find?_eq_some hfind)
          have := (List.getElem?_eq_some_iff.mp this).1
          omega
      obtain ⟨j, hj, hprev, hgaps⟩ := inputPredecessor_spec sc.rows i prev gaps hpred hi
      refine ⟨?_, ?_⟩
      · intro x hx
        have : Row.gap x ∈ (sc.rows.drop (j + 1)).take (i - (j + 1)) := by
          rw [hgaps]; exact List.mem_map_of_mem hx
        exact (List.drop_subset _ _) ((List.take_subset _ _) this)
      · intro c hc
        simp only [hnew] at hc
        have hrow := first_missing_head _ _ _ _ hv i hfirst c hc
        exact mem_gapRuns_of_index sc.rows j i prev c gaps hprev hrow hj hgaps
  · intro t ht
    simp only [hnew] at ht
    exact missingRows_runs b sc.rows rows first hv t ht

/-- `add_missing_scaffolds_from_input` leaves store, registry and join gap alone and appends only `ExtraGapOK`
    left-over scaffolds -/
theorem addMissing_gaps (input : List Scaffold) (b b' : Build)
    (he : ∀ e ∈ b.extra, ExtraGapOK input b.found b.joinGap e)
    (h : addMissing input b = .ok b') :
    b'.found = b.found ∧ b'.joinGap = b.joinGap ∧ b'.store = b.store ∧
      ∀ e ∈ b'.extra, ExtraGapOK input b.found b.joinGap e := by
  unfold addMissing at h
  have gen : ∀ (l : List Scaffold), (∀ sc ∈ l, sc ∈ input) → ∀ (a a' : Build),
      (a.found = b.found ∧ a.joinGap = b.joinGap ∧ a.store = b.store ∧
        ∀ e ∈ a.extra, ExtraGapOK input b.found b.joinGap e) →
      l.foldlM (fun (b : Build) sc => do
        let (rows, first) ← missingRows b sc.rows
        if rows.isEmpty then pure b
        else do
          let tags := ({ name := sc.name, rows := rows } : Scaffold).fragmentTags
          let n ← makeScaffoldName b.namer sc.name rows tags
          let tag := if n.targetTags ∧ ¬ sc.fragmentTags.contains sTarget then some sContaminant else none
          let new : Scaffold := { name := sc.name, rows := rows, rank := 3, tag := tag, haplotype := n.currentHaplotype }
          let pred := match first with | some i => inputPredecessor sc.rows i | none => none
          pure { b with namer := n, extra := b.extra ++ [(new, pred)] }) a = .ok a' →
      (a'.found = b.found ∧ a'.joinGap = b.joinGap ∧ a'.store = b.store ∧
        ∀ e ∈ a'.extra, ExtraGapOK input b.found b.joinGap e) := by
    intro l
    induction l with
    | nil =>
      intro _ a a' ha hfold
      simp only [List.foldlM_nil, pure, Except.pure, Except.ok.injEq] at hfold
      subst hfold; exact ha
    | cons sc t ih =>
      intro hl a a' ha hfold
      rw [List.foldlM_cons] at hfold
      simp only [bind, Except.bind] at hfold
      split at hfold
      · cases hfold
      · next a1 hstep =>
        refine ih (fun s hs => hl s (List.mem_cons_of_mem _ hs)) a1 a' ?_ hfold
        have hscin : sc ∈ input := hl sc (List.mem_cons_self ..)
        obtain ⟨hx1, hx2, hx3, hx4⟩ := ha
        split at hstep
        · cases hstep
        · next v hv =>
          obtain ⟨rows, first⟩ := v
          simp only at hstep
          split at hstep
          · simp only [pure, Except.pure, Except.ok.injEq] at hstep; subst hstep; exact ⟨hx1, hx2, hx3, hx4⟩
          · split at hstep
            · cases hstep
            · simp only [pure, Except.pure, Except.ok.injEq] at hstep
              subst hstep
              refine ⟨hx1, hx2, hx3, ?_⟩
              intro e hemem
              rcases List.mem_append.mp hemem with hemem | hemem
              · exact hx4 e hemem
              · simp only [List.mem_cons, List.not_mem_nil, or_false] at hemem
                subst hemem
                rw [← hx1, ← hx2]
                exact extraGapOK_new input a sc hscin rows first _ rfl hv _ rfl
  exact gen input (fun _ hs => hs) b b' ⟨rfl, rfl, rfl, he⟩ h

/-- the build returned by `remap_to_input_assembly` is `add_missing…` of a build without left-over scaffolds -/
theorem remapToInput_addMissing (input ptx : List Scaffold) (prefix_ : Str) (joinGap : Option Gap) (err : Int)
    (b : Build) (h : remapToInput input ptx prefix_ joinGap err = .ok b) :
    ∃ b0 : Build, b0.extra = [] ∧ addMissing input b0 = .ok b := by
  unfold remapToInput at h
  simp only [bind, Except.bind] at h
  split at h
  · cases h
  · split at h
    · cases h
    · next b1 hb1 =>
      split at h
      · cases h
      · next b2 hb2 =>
        split at h
        · cases h
        · next b3 hb3 =>
          refine ⟨_, ?_, h⟩
          have e1 := (findAssemblyOverlaps_ntg input ptx _ b1 (fun r hr => by cases hr) hb1)
          have e2 := discardOverhanging_ntg _ _ _ e1.1 hb2
          have e3 := cutRemaining_ntg _ _ e2.1 hb3
          show b3.extra = []
          rw [e3.2, e2.2, e1.2]

/-- after `remap_to_input_assembly` every left-over scaffold is `ExtraGapOK` (w.r.t. the final registry) -/
theorem remapToInput_extraGaps (input ptx : List Scaffold) (prefix_ : Str) (joinGap : Option Gap) (err : Int)
    (b : Build) (h : remapToInput input ptx prefix_ joinGap err = .ok b) :
    ∀ e ∈ b.extra, ExtraGapOK input b.found b.joinGap e := by
  obtain ⟨b0, h0, hadd⟩ := remapToInput_addMissing input ptx prefix_ joinGap err b h
  obtain ⟨e1, e2, _, e4⟩ := addMissing_gaps input b0 b (by rw [h0]; intro e he; cases he) hadd
  rw [e1, e2]; exact e4

end AgpTpf.C07
