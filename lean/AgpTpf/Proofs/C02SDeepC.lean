/-
  C02 (script model), part 13: two consecutive pieces of an input scaffold that both meet a contig cut deep inside form a
  cut site in the sense of `SiteOk` (`Proofs/C02DHyp.lean`).
-/
import AgpTpf.Proofs.C02SDeepB
namespace AgpTpf.C02
open AgpTpf AgpTpf.Pretext
open AgpTpf.C12 (rowSpan meets meets_iff)

/-- what is known about the piece at map position `n` when it is a piece of scaffold `i` with span `ab` -/
theorem holder_facts {input : List Scaffold} {s : Script} (hw : WfScript input s) (hin : InputBase input) {i : Nat}
    {sc : Scaffold} {c : ScafScript} (hsc : input[i]? = some sc) (hc : s.scafs[i]? = some c) {n : Nat}
    {bx : Bool × Placed} {ab : Nat × Nat} (hn : (itemsT s)[n]? = some bx) (hi : bx.2.sc = i)
    (hab : (c.spans s.p s.q)[bx.2.k]? = some ab) {r : Nat} (hm : meets sc.rows ab.1 ab.2 r = true) :
    ∃ x, (allPieces (ptxOf input s))[n]? = some x ∧ x.2.start = (ab.1 : Int) ∧ x.2.stop = (ab.2 : Int) ∧
      c.present = true ∧ ab ∈ spansFrom s.p s.q 0 (c.cuts ++ [c.T]) ∧
      findOverlaps sc.rows x.2 = .ok (some (pieceO input x.2)) := by
  obtain ⟨x, hx, hpf⟩ := piece_at' hw hn
  obtain ⟨pf, sc', c', ab', hpf', hsc', hc', hp, hab', habm, hname, hstart, hstop, -, -⟩ :=
    pieceFrag_some hw bx.1 (mem_itemsT (mem_of_getElem? hn))
  rw [hpf] at hpf'; cases hpf'
  rw [hi] at hsc' hc'
  rw [hsc] at hsc'; cases hsc'
  rw [hc] at hc'; cases hc'
  rw [hab] at hab'; cases hab'
  have hmem : sc ∈ input := mem_of_getElem? hsc
  have hm' : meets sc.rows x.2.start x.2.stop r = true := by rw [hstart, hstop]; exact hm
  obtain ⟨-, hfo⟩ := lookupPiece_of_meets hin.names hmem hname (hin.lens sc hmem) r hm'
  rw [spans_present hp] at habm
  exact ⟨x, hx, hstart, hstop, hp, habm, hfo⟩

/-- **one cut site.**  Pieces at map positions `a`, `b` are pieces `aba`, `abb` of input scaffold `i`, `abb` beginning one
    base after `aba` ends, and both meet the contig `F` in row `r`: then `(a, b)` is a cut site of `F`. -/
theorem site_ok {input : List Scaffold} {s : Script} (hw : WfScript input s) (hin : InputBase input)
    (hd : DeepScript input s) {i : Nat} {sc : Scaffold} {c : ScafScript} (hsc : input[i]? = some sc)
    (hc : s.scafs[i]? = some c) {r : Nat} {F : Fragment} (hr : sc.rows[r]? = some (.frag F))
    (hstr : F.strand = 1 ∨ F.strand = -1) {a b : Nat} {bxa bxb : Bool × Placed} {aba abb : Nat × Nat}
    (ha : (itemsT s)[a]? = some bxa) (hai : bxa.2.sc = i) (haab : (c.spans s.p s.q)[bxa.2.k]? = some aba)
    (ham : meets sc.rows aba.1 aba.2 r = true)
    (hb : (itemsT s)[b]? = some bxb) (hbi : bxb.2.sc = i) (hbab : (c.spans s.p s.q)[bxb.2.k]? = some abb)
    (hbm : meets sc.rows abb.1 abb.2 r = true) (habut : aba.2 + 1 = abb.1) :
    SiteOk input (ptxOf input s) (errLen s.p s.q : Int) ⟨F.keyTuple, F, a, b⟩ := by
  have hmem : sc ∈ input := mem_of_getElem? hsc
  have hlen := hin.lens sc hmem
  obtain ⟨xa, hxa, hsa, hea, hp, hma, hfoa⟩ := holder_facts hw hin hsc hc ha hai haab ham
  obtain ⟨xb, hxb, hsb, heb, -, hmb, hfob⟩ := holder_facts hw hin hsc hc hb hbi hbab hbm
  obtain ⟨hpa, hla⟩ := pieceAt_of_getElem? hxa
  obtain ⟨hpb, hlb⟩ := pieceAt_of_getElem? hxb
  have hwf := hw.scaf _ sc c hsc hc
  have hinc := wf_inc hwf hp
  have hbda := spansFrom_bounds hw.hq hw.hpq hinc hma
  have hbdb := spansFrom_bounds hw.hq hw.hpq hinc hmb
  obtain ⟨_, _, hra1, hra2⟩ := (meets_iff _ _ _ _).1 ham
  obtain ⟨_, _, hrb1, hrb2⟩ := (meets_iff _ _ _ _).1 hbm
  have hlr := rowSpan_len sc.rows r _ hr
  simp only [Row.length] at hlr
  have he2 := errLen_ge_two s.p s.q hw.hq hw.hpq
  -- the cut `aba.2 | aba.2 + 1` is an interior cut, deep inside row `r`
  obtain ⟨t, ht, het⟩ : ∃ t ∈ c.cuts, aba.2 = coord s.p s.q t := by
    rcases (mem_spansFrom hma).2 with e | h
    · omega
    · exact h
  have hcs := hd _ sc c hsc hc hp
  have hdeep : 3 * (errLen s.p s.q : Int) < (aba.2 : Int) - (rowSpan sc.rows r).1 + 1 ∧
      3 * (errLen s.p s.q : Int) < (rowSpan sc.rows r).2 - (aba.2 : Int) := by
    rcases hcs.cuts t ht r F hr with h | h | h
    · rw [← het] at h; omega
    · rw [← het] at h; omega
    · rw [← het] at h; exact h
  have hlonga := span_long hw.hq hw.hpq hwf hp (List.ne_nil_of_mem ht) hma
  have hlongb := span_long hw.hq hw.hpq hwf hp (List.ne_nil_of_mem ht) hmb
  -- the lookup results
  obtain ⟨ia, ja, fia, fja, hija, hfia, hfja, hia, hja, halla, hba, hsta, hspa, -, ⟨ta, hrowsa⟩, hlena⟩ :=
    lookup_ends hlen hfoa
  obtain ⟨ib, jb, fib, fjb, hijb, hfib, hfjb, hib, hjb, hallb, hbb, hstb, hspb, ⟨tb, hrowsb⟩, -, hlenb⟩ :=
    lookup_ends hlen hfob
  rw [hsa, hea] at hia hja halla
  rw [hsb, heb] at hib hjb hallb
  obtain ⟨_, _, hia1, hia2⟩ := (meets_iff _ _ _ _).1 hia
  obtain ⟨_, _, hja1, hja2⟩ := (meets_iff _ _ _ _).1 hja
  obtain ⟨_, _, hib1, hib2⟩ := (meets_iff _ _ _ _).1 hib
  obtain ⟨_, _, hjb1, hjb2⟩ := (meets_iff _ _ _ _).1 hjb
  -- row `r` is the last row of `a`'s result and the first row of `b`'s
  have hjar : ja = r := by
    have h1 := (halla r ham).2
    by_cases h : r < ja
    · have := rowSpan_lt sc.rows hlen h; omega
    · omega
  have hibr : ib = r := by
    have h1 := (hallb r hbm).1
    by_cases h : ib < r
    · have := rowSpan_lt sc.rows hlen h; omega
    · omega
  subst hjar
  subst hibr
  rw [hr] at hfja hfib
  cases hfja; cases hfib
  refine ⟨?_, ?_, ?_, ?_, ?_, ?_, ?_, ?_, ?_, hstr⟩
  · -- ne
    show a ≠ b
    intro e
    subst e
    rw [ha] at hb; cases hb
    rw [haab] at hbab; cases hbab
    omega
  · exact hla
  · exact hlb
  · show (pieceO input (pieceAt (ptxOf input s) a).2).rows.getLast? = some (.frag F)
    rw [hpa, hrowsa, List.getLast?_concat]
  · show (pieceO input (pieceAt (ptxOf input s) b).2).rows.head? = some (.frag F)
    rw [hpb, hrowsb]; rfl
  · show (pieceAt (ptxOf input s) a).2.stop + 1 = (pieceAt (ptxOf input s) b).2.start
    rw [hpa, hpb, hea, hsb]; omega
  · show (pieceO input (pieceAt (ptxOf input s) a).2).stop - F.length + 1 =
      (pieceO input (pieceAt (ptxOf input s) b).2).start
    rw [hpa, hpb, hspa, hstb]; omega
  · -- deepA
    show ∃ ov, (pieceO input (pieceAt (ptxOf input s) a).2).endRowBaitOverlap = .ok ov ∧
      (3 * (errLen s.p s.q : Int) < ov ∨
        ((pieceO input (pieceAt (ptxOf input s) a).2).rows.length = 1 ∧ (errLen s.p s.q : Int) ≤ ov))
    rw [hpa, endRowOverlap_eq hrowsa, hba, hspa, hsa, hea]
    refine ⟨_, rfl, ?_⟩
    by_cases hin' : (aba.1 : Int) ≤ (rowSpan sc.rows ib).1
    · left; split <;> omega
    · right
      have hiar : ia = ib := by
        have h1 := (halla ib ham).1
        by_cases h : ia < ib
        · have := rowSpan_lt sc.rows hlen h; omega
        · omega
      refine ⟨by rw [hlena, hiar]; omega, ?_⟩
      split <;> omega
  · -- deepB
    show ∃ ov, (pieceO input (pieceAt (ptxOf input s) b).2).startRowBaitOverlap = .ok ov ∧
      (3 * (errLen s.p s.q : Int) < ov ∨
        ((pieceO input (pieceAt (ptxOf input s) b).2).rows.length = 1 ∧ (errLen s.p s.q : Int) ≤ ov))
    rw [hpb, startRowOverlap_eq hrowsb, hbb, hstb, hsb, heb]
    refine ⟨_, rfl, ?_⟩
    by_cases hin' : (rowSpan sc.rows ib).2 ≤ (abb.2 : Int)
    · left; split <;> omega
    · right
      have hjbr : jb = ib := by
        have h1 := (hallb ib hbm).2
        by_cases h : ib < jb
        · have := rowSpan_lt sc.rows hlen h; omega
        · omega
      refine ⟨by rw [hlenb, hjbr]; omega, ?_⟩
      split <;> omega

end AgpTpf.C02
