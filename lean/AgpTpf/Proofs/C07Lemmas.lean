/-
  Helper lemmas for C07: `gapBeforeLeftover`, `inputPredecessor`, `discardStart` / `discardEnd`.
-/
import AgpTpf.Proofs.C01Fuse
namespace AgpTpf.C07
open AgpTpf

/-- `last` (the last row built so far) is the facing end of the recorded input predecessor `prev` -/
def FacingEnd (last prev : Fragment) : Prop :=
  last.name = prev.name ∧ last.strand = prev.strand ∧
  (if prev.strand = -1 then last.start else last.stop) = (if prev.strand = -1 then prev.start else prev.stop)

instance (last prev : Fragment) : Decidable (FacingEnd last prev) := by unfold FacingEnd; infer_instance

theorem gapBeforeLeftover_eq (jg : Option Gap) (built : List Row) (pred : Option (Fragment × Option Gap)) :
    gapBeforeLeftover jg built pred =
      match pred, built.getLast? with
      | some (prev, gap), some (.frag last) => if FacingEnd last prev then gap else jg
      | _, _ => jg := by
  unfold gapBeforeLeftover FacingEnd
  rw [← List.head?_reverse]
  cases pred with
  | none => rfl
  | some p =>
    obtain ⟨prev, gap⟩ := p
    cases built.reverse with
    | nil => rfl
    | cons x t => cases x <;> rfl

theorem gapBeforeLeftover_none_iff (j : Gap) (built : List Row) (pred : Option (Fragment × Option Gap)) :
    gapBeforeLeftover (some j) built pred = none ↔
      ∃ prev last, pred = some (prev, none) ∧ built.getLast? = some (.frag last) ∧ FacingEnd last prev := by
  rw [gapBeforeLeftover_eq]
  constructor
  · intro h
    split at h
    · next prev gap last hl =>
      split at h
      · next hf => subst h; exact ⟨prev, last, rfl, hl, hf⟩
      · cases h
    · cases h
  · rintro ⟨prev, last, rfl, hl, hf⟩
    rw [hl]; simp [hf]

/-- every gap `gapBeforeLeftover` can return is the join gap or the recorded input gap -/
theorem gapBeforeLeftover_source (jg : Option Gap) (built : List Row) (pred : Option (Fragment × Option Gap)) (g : Gap)
    (h : gapBeforeLeftover jg built pred = some g) :
    jg = some g ∨ ∃ prev, pred = some (prev, some g) := by
  rw [gapBeforeLeftover_eq] at h
  split at h
  · next prev gap last hl =>
    split at h
    · subst h; exact Or.inr ⟨prev, rfl⟩
    · exact Or.inl h
  · exact Or.inl h

/-! ### `input_predecessor` -/

theorem inputPredecessor_go_spec (l : List Row) (acc : Option Gap) (f : Fragment) (g : Option Gap)
    (h : inputPredecessor.go acc l = some (f, g)) :
    ∃ k, l[k]? = some (.frag f) ∧ (∀ j, j < k → ∃ gg, l[j]? = some (.gap gg)) ∧
      g = (match acc with | some a => some a | none => (l.take k).head?.bind (fun r => match r with | .gap x => some x | .frag _ => none)) := by
  induction l generalizing acc with
  | nil => simp [inputPredecessor.go] at h
  | cons x t ih =>
    cases x with
    | frag f' =>
      simp only [inputPredecessor.go, Option.some.injEq, Prod.mk.injEq] at h
      obtain ⟨rfl, rfl⟩ := h
      refine ⟨0, rfl, fun j hj => by omega, ?_⟩
      cases acc <;> simp
    | gap g' =>
      simp only [inputPredecessor.go] at h
      obtain ⟨k, h1, h2, h3⟩ := ih _ h
      refine ⟨k + 1, by simpa using h1, ?_, ?_⟩
      · intro j hj
        cases j with
        | zero => exact ⟨g', rfl⟩
        | succ j' => simpa using h2 j' (by omega)
      · rw [h3]; cases acc <;> simp

/-- the recorded predecessor has no gap exactly when the fragment row directly in front is that predecessor -/
theorem inputPredecessor_none_gap (rows : List Row) (i : Nat) (f : Fragment)
    (h : inputPredecessor rows i = some (f, none)) (hi : i ≤ rows.length) :
    0 < i ∧ rows[i - 1]? = some (.frag f) := by
  unfold inputPredecessor at h
  obtain ⟨k, h1, h2, h3⟩ := inputPredecessor_go_spec _ _ _ _ h
  simp only at h3
  have hk0 : k = 0 := by
    cases k with
    | zero => rfl
    | succ k' =>
      exfalso
      obtain ⟨gg, hg⟩ := h2 0 (by omega)
      cases hh : (List.take i rows).reverse with
      | nil => rw [hh] at hg; simp at hg
      | cons x t =>
        rw [hh] at hg h3
        simp only [List.getElem?_cons_zero, Option.some.injEq] at hg
        subst hg
        simp [List.take_succ_cons] at h3
  subst hk0
  rw [List.getElem?_reverse] at h1
  · simp only [List.length_take, Nat.sub_zero] at h1
    have hmin : min i rows.length = i := by omega
    rw [hmin, List.getElem?_take] at h1
    split at h1
    · next hlt => exact ⟨by omega, h1⟩
    · cases h1
  · cases hh : (List.take i rows).reverse with
    | nil => rw [hh] at h1; simp at h1
    | cons x t =>
      have : ((List.take i rows).reverse).length = (x :: t).length := by rw [hh]
      simp only [List.length_reverse] at this
      rw [this]; simp

/-! ### `discard_start` / `discard_end` never leave a terminal gap -/

theorem popLeadingGaps_spec (r : List Row) (st : Int) :
    (∀ g, (OverlapResult.popLeadingGaps r st).1.head? ≠ some (.gap g)) ∧
    (OverlapResult.popLeadingGaps r st).1 <:+ r ∧
    (∀ x ∈ r.take (r.length - (OverlapResult.popLeadingGaps r st).1.length), ∃ g, x = Row.gap g) := by
  induction r generalizing st with
  | nil => simp [OverlapResult.popLeadingGaps]
  | cons x t ih =>
    cases x with
    | frag f => simp [OverlapResult.popLeadingGaps]
    | gap g =>
      simp only [OverlapResult.popLeadingGaps]
      obtain ⟨h1, h2, h3⟩ := ih (st + g.length)
      refine ⟨h1, List.IsSuffix.trans h2 (List.suffix_cons _ _), ?_⟩
      have hle : (OverlapResult.popLeadingGaps t (st + g.length)).1.length ≤ t.length := h2.length_le
      have : (Row.gap g :: t).length - (OverlapResult.popLeadingGaps t (st + g.length)).1.length
          = (t.length - (OverlapResult.popLeadingGaps t (st + g.length)).1.length) + 1 := by
        simp only [List.length_cons]; omega
      rw [this, List.take_succ_cons]
      intro x hx
      rcases List.mem_cons.mp hx with rfl | hx
      · exact ⟨g, rfl⟩
      · exact h3 x hx


theorem suffix_getLast? {l₁ l₂ : List Row} (h : l₁ <:+ l₂) (hne : l₁ ≠ []) : l₁.getLast? = l₂.getLast? := by
  obtain ⟨t, rfl⟩ := h
  rw [List.getLast?_append]
  cases hh : l₁.getLast? with
  | none => exact absurd (List.getLast?_eq_none_iff.mp hh) hne
  | some x => rfl

theorem prefix_head? {l₁ l₂ : List Row} (h : l₁ <+: l₂) (hne : l₁ ≠ []) : l₁.head? = l₂.head? := by
  obtain ⟨t, rfl⟩ := h
  cases l₁ with
  | nil => exact absurd rfl hne
  | cons x r => rfl

theorem discardStart_rows (o o' : OverlapResult) (h : o.discardStart = .ok o') :
    ∃ d r, o.rows = d :: r ∧ o'.rows = (OverlapResult.popLeadingGaps r (o.start + d.length)).1 := by
  unfold OverlapResult.discardStart at h
  split at h
  · cases h
  · next d r hr => cases h; exact ⟨d, r, hr, rfl⟩

theorem discardEnd_rows (o o' : OverlapResult) (h : o.discardEnd = .ok o') :
    ∃ d r, o.rows.reverse = d :: r ∧ o'.rows = (OverlapResult.popLeadingGaps r d.length).1.reverse := by
  unfold OverlapResult.discardEnd at h
  split at h
  · cases h
  · next d r hr => cases h; exact ⟨d, r, hr, rfl⟩

theorem discardEnd_removed (d : Row) (pre K : List Row) (p3 : ∀ x ∈ pre, ∃ g, x = Row.gap g) :
    ∀ x ∈ ((d :: (pre ++ K)).reverse.drop K.reverse.length).take ((d :: (pre ++ K)).reverse.length - 1 - K.reverse.length),
      ∃ g, x = Row.gap g := by
  have e : (d :: (pre ++ K)).reverse = K.reverse ++ (pre.reverse ++ [d]) := by simp
  have e2 : (K.reverse ++ (pre.reverse ++ [d])).length - 1 - K.reverse.length = pre.reverse.length := by
    simp only [List.length_append, List.length_reverse, List.length_cons, List.length_nil]; omega
  rw [e, List.drop_left, e2, List.take_left]
  intro x hx
  exact p3 x (List.mem_reverse.mp hx)

theorem take_sub_suffix (pre K : List Row) : (pre ++ K).take ((pre ++ K).length - K.length) = pre := by
  have : (pre ++ K).length - K.length = pre.length := by simp
  rw [this, List.take_left]

theorem adjPairs_cons (x : Row) (t : List Row) : adjPairs (x :: t) = seam [x] t ++ adjPairs t := by
  have := adjPairs_append [x] t
  simpa using this

/-- mirror a pair as `Scaffold.reverse` / `to_scaffold` does -/
def mirror (p : Fragment × Fragment) : Fragment × Fragment := (p.2.reverse, p.1.reverse)

theorem adjPairs_reverse_map (l : List Row) :
    adjPairs (l.reverse.map Row.reverse) = (adjPairs l).reverse.map mirror := by
  induction l with
  | nil => rfl
  | cons x t ih =>
    rw [List.reverse_cons, List.map_append, adjPairs_append, ih, adjPairs_cons]
    simp only [List.map_cons, List.map_nil, adjPairs_single, List.append_nil, List.reverse_append, List.map_append]
    congr 1
    unfold seam
    simp only [List.getLast?_map, List.getLast?_reverse, List.head?_cons, List.getLast?_singleton]
    cases x with
    | gap g => cases t.head? with
      | none => rfl
      | some y => cases y <;> rfl
    | frag a => cases t.head? with
      | none => rfl
      | some y => cases y <;> rfl

theorem noTerminalGap_reverse_map (l : List Row) (h : NoTerminalGap l) : NoTerminalGap (l.reverse.map Row.reverse) := by
  constructor
  · intro g hg
    rw [List.head?_map, List.head?_reverse] at hg
    cases hl : l.getLast? with
    | none => rw [hl] at hg; cases hg
    | some y =>
      rw [hl] at hg
      cases y with
      | gap g' => exact h.2 g' hl
      | frag f => simp [Row.reverse] at hg
  · intro g hg
    rw [List.getLast?_map, List.getLast?_reverse] at hg
    cases hl : l.head? with
    | none => rw [hl] at hg; cases hg
    | some y =>
      rw [hl] at hg
      cases y with
      | gap g' => exact h.1 g' hl
      | frag f => simp [Row.reverse] at hg

theorem noTerminalGap_toScaffoldRows (o : OverlapResult) (h : NoTerminalGap o.rows) : NoTerminalGap o.toScaffoldRows := by
  unfold OverlapResult.toScaffoldRows
  split
  · exact noTerminalGap_reverse_map _ h
  · exact h


end AgpTpf.C07
