/-
  Helper lemmas for C07: `gapsBeforeLeftover`, `inputPredecessor`, `discardStart` / `discardEnd`.
-/
import AgpTpf.Proofs.C01Fuse
namespace AgpTpf.C07
open AgpTpf

/-- `last` (the last row built so far) is the facing end of the recorded input predecessor `prev` -/
def FacingEnd (last prev : Fragment) : Prop :=
  last.name = prev.name ∧ last.strand = prev.strand ∧
  (if prev.strand = -1 then last.start else last.stop) = (if prev.strand = -1 then prev.start else prev.stop)

instance (last prev : Fragment) : Decidable (FacingEnd last prev) := by unfold FacingEnd; infer_instance

/-- the default separator: the join gap as a row, if one is configured -/
def joinRows (jg : Option Gap) : List Row := match jg with | some g => [Row.gap g] | none => []

theorem gapsBeforeLeftover_eq (jg : Option Gap) (built : List Row) (pred : Option (Fragment × List Gap)) :
    gapsBeforeLeftover jg built pred =
      if built = [] then []
      else match pred, built.getLast? with
        | some (prev, gaps), some (.frag last) => if FacingEnd last prev then gaps.map Row.gap else joinRows jg
        | _, _ => joinRows jg := by
  unfold gapsBeforeLeftover FacingEnd joinRows
  rw [← List.head?_reverse]
  by_cases hb : built = []
  · subst hb; rfl
  · have hb' : ¬ built.isEmpty = true := by simpa using hb
    rw [if_neg hb', if_neg hb]
    cases pred with
    | none => rfl
    | some p =>
      obtain ⟨prev, gaps⟩ := p
      cases built.reverse with
      | nil => rfl
      | cons x t => cases x <;> rfl

/-- With a join gap configured and something built already, a left-over scaffold is appended with NO separator row
    only when the last built row is the facing end of its recorded input predecessor and the input had no gap row
    between them. -/
theorem gapsBeforeLeftover_nil_iff (j : Gap) (built : List Row) (hne : built ≠ []) (pred : Option (Fragment × List Gap)) :
    gapsBeforeLeftover (some j) built pred = [] ↔
      ∃ prev last, pred = some (prev, []) ∧ built.getLast? = some (.frag last) ∧ FacingEnd last prev := by
  rw [gapsBeforeLeftover_eq, if_neg hne]
  constructor
  · intro h
    split at h
    · next prev gaps last hl =>
      split at h
      · next hf =>
        have : gaps = [] := by simpa using h
        subst this; exact ⟨prev, last, rfl, hl, hf⟩
      · simp [joinRows] at h
    · simp [joinRows] at h
  · rintro ⟨prev, last, rfl, hl, hf⟩
    rw [hl]; simp [hf]

/-- every row `gapsBeforeLeftover` returns is a gap row: the join gap or one of the recorded input gap rows -/
theorem gapsBeforeLeftover_source (jg : Option Gap) (built : List Row) (pred : Option (Fragment × List Gap)) :
    ∀ x ∈ gapsBeforeLeftover jg built pred,
      ∃ g, x = Row.gap g ∧ (jg = some g ∨ ∃ prev gaps, pred = some (prev, gaps) ∧ g ∈ gaps) :=
  C01.gapsBeforeLeftover_rows jg built pred

/-! ### `input_predecessor` -/

theorem inputPredecessor_go_spec (l : List Row) (acc : List Gap) (f : Fragment) (gaps : List Gap)
    (h : inputPredecessor.go acc l = some (f, gaps)) :
    ∃ k, l[k]? = some (.frag f) ∧ (l.take k).reverse ++ acc.map Row.gap = gaps.map Row.gap := by
  induction l generalizing acc with
  | nil => simp [inputPredecessor.go] at h
  | cons x t ih =>
    cases x with
    | frag f' =>
      simp only [inputPredecessor.go, Option.some.injEq, Prod.mk.injEq] at h
      obtain ⟨rfl, rfl⟩ := h
      exact ⟨0, rfl, by simp⟩
    | gap g' =>
      simp only [inputPredecessor.go] at h
      obtain ⟨k, h1, h2⟩ := ih _ h
      refine ⟨k + 1, by simpa using h1, ?_⟩
      rw [← h2]; simp

/-- `input_predecessor(scaffold, i) = (f, gaps)`: `f` is a fragment row `j < i` and `gaps` are exactly the rows
    `j+1 … i-1` (all gap rows, in scaffold order) -/
theorem inputPredecessor_spec (rows : List Row) (i : Nat) (f : Fragment) (gaps : List Gap)
    (h : inputPredecessor rows i = some (f, gaps)) (hi : i ≤ rows.length) :
    ∃ j, j < i ∧ rows[j]? = some (.frag f) ∧ (rows.drop (j + 1)).take (i - (j + 1)) = gaps.map Row.gap := by
  unfold inputPredecessor at h
  obtain ⟨k, h1, h2⟩ := inputPredecessor_go_spec _ _ _ _ h
  simp only [List.map_nil, List.append_nil] at h2
  have hlen : (List.take i rows).length = i := by simp; omega
  have hk : k < i := by
    have := (List.getElem?_eq_some_iff.mp h1).1
    simpa [hlen] using this
  rw [List.getElem?_reverse (by rw [hlen]; exact hk), hlen, List.getElem?_take, if_pos (by omega)] at h1
  refine ⟨i - 1 - k, by omega, h1, ?_⟩
  rw [← h2, List.take_reverse, List.reverse_reverse, hlen, List.drop_take]
  have e1 : i - 1 - k + 1 = i - k := by omega
  have e2 : i - (i - k) = k := by omega
  rw [e1, e2]

/-- the recorded predecessor has no gap rows exactly when the fragment row directly in front is that predecessor -/
theorem inputPredecessor_none_gap (rows : List Row) (i : Nat) (f : Fragment)
    (h : inputPredecessor rows i = some (f, [])) (hi : i ≤ rows.length) :
    0 < i ∧ rows[i - 1]? = some (.frag f) := by
  obtain ⟨j, hj, hf, hg⟩ := inputPredecessor_spec rows i f [] h hi
  have hlen := congrArg List.length hg
  simp only [List.length_take, List.length_drop, List.map_nil, List.length_nil] at hlen
  have hjl : j < rows.length := (List.getElem?_eq_some_iff.mp hf).1
  have : j = i - 1 := by omega
  subst this
  exact ⟨by omega, hf⟩

/-! ### `discard_start` / `discard_end` never leave a terminal gap -/

theorem popLeadingGaps_spec (r : List Row) (st : Int) :
    (∀ g, (OverlapResult.popLeadingGaps r st).1.head? ≠ some (.gap g)) ∧
    (OverlapResult.popLeadingGaps r st).1 <:+ r ∧
    (∀ x ∈ r.take (r.length - (OverlapResult.popLeadingGaps r st).1.length), ∃ g, x = Row.gap g) := by
  induction r generalizing st with
  | nil => simp [OverlapResult.popLeadingGaps]
  | cons x t ih =>
    cases x with
    | frag f => simp [OverlapResult.popLeadingGaps]
    | gap g =>
      simp only [OverlapResult.popLeadingGaps]
      obtain ⟨h1, h2, h3⟩ := ih (st + g.length)
      refine ⟨h1, List.IsSuffix.trans h2 (List.suffix_cons _ _), ?_⟩
      have hle : (OverlapResult.popLeadingGaps t (st + g.length)).1.length ≤ t.length := h2.length_le
      have : (Row.gap g :: t).length - (OverlapResult.popLeadingGaps t (st + g.length)).1.length
          = (t.length - (OverlapResult.popLeadingGaps t (st + g.length)).1.length) + 1 := by
        simp only [List.length_cons]; omega
      rw [this, List.take_succ_cons]
      intro x hx
      rcases List.mem_cons.mp hx with rfl | hx
      · exact ⟨g, rfl⟩
      · exact h3 x hx


theorem suffix_getLast? {l₁ l₂ : List Row} (h : l₁ <:+ l₂) (hne : l₁ ≠ []) : l₁.getLast? = l₂.getLast? := by
  obtain ⟨t, rfl⟩ := h
  rw [List.getLast?_append]
  cases hh : l₁.getLast? with
  | none => exact absurd (List.getLast?_eq_none_iff.mp hh) hne
  | some x => rfl

theorem prefix_head? {l₁ l₂ : List Row} (h : l₁ <+: l₂) (hne : l₁ ≠ []) : l₁.head? = l₂.head? := by
  obtain ⟨t, rfl⟩ := h
  cases l₁ with
  | nil => exact absurd rfl hne
  | cons x r => rfl

theorem discardStart_rows (o o' : OverlapResult) (h : o.discardStart = .ok o') :
    ∃ d r, o.rows = d :: r ∧ o'.rows = (OverlapResult.popLeadingGaps r (o.start + d.length)).1 := by
  unfold OverlapResult.discardStart at h
  split at h
  · cases h
  · next d r hr => cases h; exact ⟨d, r, hr, rfl⟩

theorem discardEnd_rows (o o' : OverlapResult) (h : o.discardEnd = .ok o') :
    ∃ d r, o.rows.reverse = d :: r ∧ o'.rows = (OverlapResult.popLeadingGaps r d.length).1.reverse := by
  unfold OverlapResult.discardEnd at h
  split at h
  · cases h
  · next d r hr => cases h; exact ⟨d, r, hr, rfl⟩

theorem discardEnd_removed (d : Row) (pre K : List Row) (p3 : ∀ x ∈ pre, ∃ g, x = Row.gap g) :
    ∀ x ∈ ((d :: (pre ++ K)).reverse.drop K.reverse.length).take ((d :: (pre ++ K)).reverse.length - 1 - K.reverse.length),
      ∃ g, x = Row.gap g := by
  have e : (d :: (pre ++ K)).reverse = K.reverse ++ (pre.reverse ++ [d]) := by simp
  have e2 : (K.reverse ++ (pre.reverse ++ [d])).length - 1 - K.reverse.length = pre.reverse.length := by
    simp only [List.length_append, List.length_reverse, List.length_cons, List.length_nil]; omega
  rw [e, List.drop_left, e2, List.take_left]
  intro x hx
  exact p3 x (List.mem_reverse.mp hx)

theorem take_sub_suffix (pre K : List Row) : (pre ++ K).take ((pre ++ K).length - K.length) = pre := by
  have : (pre ++ K).length - K.length = pre.length := by simp
  rw [this, List.take_left]

theorem adjPairs_cons (x : Row) (t : List Row) : adjPairs (x :: t) = seam [x] t ++ adjPairs t := by
  have := adjPairs_append [x] t
  simpa using this

/-- mirror a pair as `Scaffold.reverse` / `to_scaffold` does -/
def mirror (p : Fragment × Fragment) : Fragment × Fragment := (p.2.reverse, p.1.reverse)

theorem adjPairs_reverse_map (l : List Row) :
    adjPairs (l.reverse.map Row.reverse) = (adjPairs l).reverse.map mirror := by
  induction l with
  | nil => rfl
  | cons x t ih =>
    rw [List.reverse_cons, List.map_append, adjPairs_append, ih, adjPairs_cons]
    simp only [List.map_cons, List.map_nil, adjPairs_single, List.append_nil, List.reverse_append, List.map_append]
    congr 1
    unfold seam
    simp only [List.getLast?_map, List.getLast?_reverse, List.head?_cons, List.getLast?_singleton]
    cases x with
    | gap g => cases t.head? with
      | none => rfl
      | some y => cases y <;> rfl
    | frag a => cases t.head? with
      | none => rfl
      | some y => cases y <;> rfl

theorem noTerminalGap_reverse_map (l : List Row) (h : NoTerminalGap l) : NoTerminalGap (l.reverse.map Row.reverse) := by
  constructor
  · intro g hg
    rw [List.head?_map, List.head?_reverse] at hg
    cases hl : l.getLast? with
    | none => rw [hl] at hg; cases hg
    | some y =>
      rw [hl] at hg
      cases y with
      | gap g' => exact h.2 g' hl
      | frag f => simp [Row.reverse] at hg
  · intro g hg
    rw [List.getLast?_map, List.getLast?_reverse] at hg
    cases hl : l.head? with
    | none => rw [hl] at hg; cases hg
    | some y =>
      rw [hl] at hg
      cases y with
      | gap g' => exact h.1 g' hl
      | frag f => simp [Row.reverse] at hg

theorem noTerminalGap_toScaffoldRows (o : OverlapResult) (h : NoTerminalGap o.rows) : NoTerminalGap o.toScaffoldRows := by
  unfold OverlapResult.toScaffoldRows
  split
  · exact noTerminalGap_reverse_map _ h
  · exact h


end AgpTpf.C07
