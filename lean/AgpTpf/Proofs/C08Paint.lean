/-
  C08 helpers, part 7 (painted variant, build): every Pretext scaffold is one whole forward piece tagged `Painted`.
-/
import AgpTpf.Proofs.C08Remap
namespace AgpTpf.C08
open AgpTpf

/-- the painted piece: as `Piece.bait`, with the tag `Painted` -/
def Piece.pbait (p : Piece) : Fragment :=
  { oid := p.oid, name := p.sc.name, start := 1, stop := p.stop, strand := 1, tags := [sPainted] }

def Piece.pptx (p : Piece) : Scaffold := { name := p.pname, rows := [.frag p.pbait] }

/-- what the build stores for a painted piece: the rows of the input scaffold under the PRETEXT scaffold's name, rank 1 -/
def Piece.pres (p : Piece) : Res :=
  { o := { bait := p.pbait, start := 1, stop := p.sc.length, rows := p.sc.rows, name := p.pname, tag := none,
           haplotype := none, rank := 1, originalName := some p.pname, originalTags := some [sPainted] },
    added := true }

def namedPainted (n : Namer) (nm : Str) : Namer :=
  { n with currentHaplotype := none, currentScaffoldName := some nm, currentRank := 1, unlocN := 0, unlocScaffolds := [] }

theorem namedPainted_plain {n : Namer} (h : NamerPlain n) (nm : Str) : NamerPlain (namedPainted n nm) :=
  ⟨h.target, h.primary, h.haplotig⟩

theorem makeScaffoldName_painted (n : Namer) (scName nm : Str) (rows : List Row) (hp : n.primaryHaplotype = none)
    (hfr : firstRowName rows = .ok nm) (hhap : hapPrefixOfName nm = none) :
    makeScaffoldName n scName rows [sPainted] = .ok (namedPainted n scName) := by
  unfold makeScaffoldName
  simp [scanTag, hfr, hhap, hp, truthy, bind, Except.bind, pure, Except.pure, namedPainted]

theorem labelScaffold_painted (n : Namer) (o : OverlapResult) (sid : Nat) (bait : Fragment) (orig nm : Str)
    (ht : bait.tags = [sPainted]) (htar : n.targetTags = false) (hcur : n.currentScaffoldName = some nm) :
    labelScaffold n o sid bait [sPainted] orig =
      .ok (n, { o with name := nm, tag := o.tag, haplotype := n.currentHaplotype, rank := n.currentRank,
                       originalName := some orig, originalTags := some [sPainted] }) := by
  unfold labelScaffold
  have h1 : sContaminant ≠ sPainted := by decide
  have h2 : sFalseDuplicate ≠ sPainted := by decide
  have h3 : sHaplotig ≠ sPainted := by decide
  have h4 : sUnloc ≠ sPainted := by decide
  simp [ht, htar, hcur, h1, h2, h3, h4, bind, Except.bind, pure, Except.pure]

theorem processBait_painted (input : List Scaffold) (p : Piece) (b : Build)
    (hn : (input.map (·.name)).Nodup) (hok : PieceOk input b.err p) (herr : 0 ≤ b.err)
    (hcur : b.namer.currentScaffoldName = some p.pname) (hrank : b.namer.currentRank = 1)
    (hhap : b.namer.currentHaplotype = none) (htar : b.namer.targetTags = false)
    (hnd : (p.sc.fragments.map Fragment.keyTuple).Nodup)
    (hfresh : ∀ f ∈ p.sc.fragments, f.keyTuple ∉ b.found.map (·.1)) :
    processBait input [sPainted] p.pname b p.pbait =
      .ok { b with store := b.store ++ [p.pres], found := b.found ++ foundEntries b.store.length p.sc.fragments } := by
  unfold processBait
  have h1 : lookupScaffold input p.pbait.name = .ok p.sc := lookupScaffold_ok input p.sc hn hok.mem
  have h2 := findOverlaps_whole p.sc.rows p.pbait hok.wf rfl hok.reach
  have hne : p.sc.rows.isEmpty = false := by
    have := hok.wf.ne
    cases h : p.sc.rows <;> simp_all
  simp only [h1, h2, bind, Except.bind]
  rw [labelScaffold_painted b.namer _ _ p.pbait p.pname p.pname rfl htar hcur]
  simp only []
  rw [trimLargeOverhangs_id]
  · simp only [hne, Bool.false_eq_true, if_false, pure, Except.pure]
    rw [storeFragmentsFound_fresh]
    · simp [Piece.pres, hhap, hrank, Scaffold.length, Scaffold.fragments]
    · exact hnd
    · exact hfresh
  · show p.pbait.start - 1 ≤ b.err
    simp [Piece.pbait]; exact herr
  · show rowsLength p.sc.rows - p.pbait.stop ≤ b.err
    exact hok.close

theorem pptx_fragmentTags (p : Piece) : p.pptx.fragmentTags = [sPainted] := by
  simp [Piece.pptx, Scaffold.fragmentTags, Scaffold.fragments, fragmentsOf, Piece.pbait, sAdd, sPainted]

theorem faoStep_painted (input : List Scaffold) (p : Piece) (b : Build)
    (hn : (input.map (·.name)).Nodup) (hok : PieceOk input b.err p) (herr : 0 ≤ b.err)
    (hplain : NamerPlain b.namer)
    (hnd : (p.sc.fragments.map Fragment.keyTuple).Nodup)
    (hfresh : ∀ f ∈ p.sc.fragments, f.keyTuple ∉ b.found.map (·.1)) :
    faoStep input b p.pptx =
      .ok { b with namer := namedPainted b.namer p.pname, store := b.store ++ [p.pres],
                   found := b.found ++ foundEntries b.store.length p.sc.fragments } := by
  unfold faoStep
  rw [pptx_fragmentTags]
  have h1 : makeScaffoldName b.namer p.pname p.pptx.rows [sPainted] = .ok (namedPainted b.namer p.pname) :=
    makeScaffoldName_painted b.namer _ p.sc.name _ hplain.primary (firstRowName_cons_frag _ _) hok.noHap
  have h2 := processBait_painted input p { b with namer := namedPainted b.namer p.pname } hn hok herr rfl rfl rfl
    hplain.target hnd hfresh
  have h3 : p.pptx.fragments = [p.pbait] := rfl
  have h4 : p.pptx.name = p.pname := rfl
  simp only [h3, h4, bind, Except.bind, List.foldlM_cons, List.foldlM_nil, pure, Except.pure, h1, h2]
  simp [namedPainted, renameBySize_nil]

theorem findAssemblyOverlaps_painted (input : List Scaffold) (pieces : List Piece) (b : Build)
    (hn : (input.map (·.name)).Nodup) (hk : KeysDistinct input) (herr : 0 ≤ b.err)
    (hok : ∀ p ∈ pieces, PieceOk input b.err p)
    (hpn : (pieces.map (·.sc.name)).Nodup)
    (hplain : NamerPlain b.namer)
    (hfound : ∀ p ∈ pieces, ∀ f ∈ p.sc.fragments, f.keyTuple ∉ b.found.map (·.1)) :
    ∃ b', findAssemblyOverlaps input (pieces.map Piece.pptx) b = .ok b' ∧
      b'.store = b.store ++ pieces.map Piece.pres ∧
      b'.found.map (·.1) = b.found.map (·.1) ++ (pieces.flatMap (·.sc.fragments)).map Fragment.keyTuple ∧
      b'.multi = b.multi ∧ b'.extra = b.extra ∧ b'.cuts = b.cuts ∧ b'.joinGap = b.joinGap ∧ b'.err = b.err ∧
      NamerPlain b'.namer ∧ b'.namer.autosomePrefix = b.namer.autosomePrefix := by
  rw [findAssemblyOverlaps_eq]
  induction pieces generalizing b with
  | nil => exact ⟨b, rfl, by simp, by simp, rfl, rfl, rfl, rfl, rfl, hplain, rfl⟩
  | cons p r ih =>
    have hp := hok p (by simp)
    simp only [List.map_cons, List.nodup_cons] at hpn
    have hstep := faoStep_painted input p b hn hp herr hplain (hk.within _ hp.mem) (hfound p (by simp))
    simp only [List.map_cons, List.foldlM_cons, hstep, bind, Except.bind]
    obtain ⟨b', e, h1, h2, h3, h4, h5, h6, h7, h8, h9⟩ :=
      ih { b with namer := namedPainted b.namer p.pname, store := b.store ++ [p.pres],
                  found := b.found ++ foundEntries b.store.length p.sc.fragments }
        herr (fun q hq => hok q (by simp [hq])) hpn.2 (namedPainted_plain hplain _) (by
          intro q hq f hf
          simp only [List.map_append, List.mem_append, not_or]
          refine ⟨hfound q (by simp [hq]) f hf, ?_⟩
          intro hmem
          simp only [foundEntries, List.map_map, List.mem_map, Function.comp] at hmem
          obtain ⟨g, hg, e⟩ := hmem
          have hq' := hok q (by simp [hq])
          have hne : p.sc.name ≠ q.sc.name := fun e => hpn.1 (e ▸ List.mem_map_of_mem (f := fun x : Piece => x.sc.name) hq)
          exact hk.across p.sc q.sc hp.mem hq'.mem hne g hg f hf e)
    refine ⟨b', e, ?_, ?_, h3, h4, h5, h6, h7, h8, h9⟩
    · rw [h1]; simp
    · rw [h2]; simp [foundEntries, List.flatMap_cons, Function.comp_def]

/-- **N3, painted.** -/
theorem remapToInput_painted (input : List Scaffold) (pieces : List Piece) (prefix_ : Str) (joinGap : Option Gap)
    (err : Int) (hu : Unedited input pieces err) :
    ∃ b, remapToInput input (pieces.map Piece.pptx) prefix_ joinGap err = .ok b ∧
      b.store = pieces.map Piece.pres ∧
      b.extra = (absentOf input pieces).map (fun sc => (absentOut sc, none)) ∧
      b.multi = [] ∧ b.cuts = 0 ∧ b.joinGap = joinGap ∧ b.namer.autosomePrefix = prefix_ := by
  unfold remapToInput
  have hdup := dupCheck_ok input [] hu.names (by simp)
  simp only [bind, Except.bind, hdup]
  generalize (input.flatMap Scaffold.fragments).foldl (fun m f => max m (f.oid + 1)) 0 = oid0
  obtain ⟨b1, e1, hstore, hfound, hmulti, hextra, hcuts, hjg, herr, hplain, hpre⟩ :=
    findAssemblyOverlaps_painted input pieces
      { namer := { autosomePrefix := prefix_ }, nextOid := oid0, joinGap := joinGap, err := err }
      hu.names hu.keys hu.err0 hu.piecesOk hu.once ⟨rfl, rfl, rfl⟩ (by intro p _ f _; simp)
  simp only [e1]
  have hm1 : b1.multi = [] := hmulti
  simp only [discardOverhanging_nil _ b1 hm1, cutRemaining_nil b1 hm1, hplain.haplotig, renameBySize_nil]
  have hkeys : ∀ k, k ∈ b1.found.map (·.1) ↔ ∃ p ∈ pieces, ∃ f ∈ p.sc.fragments, f.keyTuple = k := by
    intro k
    rw [hfound]
    simp only [List.map_nil, List.nil_append, List.mem_map, List.mem_flatMap]
    constructor
    · rintro ⟨f, ⟨p, hp, hf⟩, e⟩; exact ⟨p, hp, f, hf, e⟩
    · rintro ⟨p, hp, f, hf, e⟩; exact ⟨f, ⟨p, hp, hf⟩, e⟩
  obtain ⟨b2, e2, gextra, gstore, -, gmulti, gcuts, gjg, -, -, gpre⟩ :=
    addMissing_unedited (isPresent pieces) input
      { namer := b1.namer, store := b1.store, found := b1.found, multi := [], extra := b1.extra, cuts := b1.cuts,
        nextOid := b1.nextOid, joinGap := b1.joinGap, err := b1.err } hplain
      (by
        intro sc hsc hpr f hf
        obtain ⟨p, hp, hname⟩ := (isPresent_iff pieces sc).1 hpr
        have : p.sc = sc := eq_of_name_eq input hu.names _ _ (hu.piecesOk p hp).mem hsc hname
        exact dHas_true_of_mem _ _ ((hkeys _).2 ⟨p, hp, f, this ▸ hf, rfl⟩))
      (by
        intro sc hsc hpr
        refine ⟨hu.absent sc hsc hpr, ?_⟩
        intro f hf
        apply dHas_false_of_not_mem
        intro hmem
        obtain ⟨p, hp, g, hg, e⟩ := (hkeys _).1 hmem
        have hne : p.sc.name ≠ sc.name := by
          intro e'
          have : isPresent pieces sc = true := (isPresent_iff pieces sc).2 ⟨p, hp, e'⟩
          rw [hpr] at this; cases this
        exact hu.keys.across p.sc sc (hu.piecesOk p hp).mem hsc hne g hg f hf e)
  rw [addMissing_eq, e2]
  refine ⟨b2, rfl, ?_, ?_, gmulti, ?_, ?_, ?_⟩
  · rw [gstore, hstore]; simp
  · rw [gextra, hextra]; simp [absentOf]
  · rw [gcuts, hcuts]
  · rw [gjg, hjg]
  · rw [gpre, hpre]

end AgpTpf.C08
