/-
  T1c helper lemmas for `cut_fragments` (assembly/build_assembly.py): the `for i, x in enumerate(xs)` loop whose body may raise is a
  `List.foldlM` carrying the index; an invariant of a `foldlM`; the model's `cutFragments` written with a named step function.
  Nothing here mentions a generated term: the lemmas are about the run-time combinators and the model functions only.
-/
import AgpTpf.Model.PyRt
import AgpTpf.Model.PyRtHeap
import AgpTpf.Model.Lookup
import AgpTpf.Model.Remap
namespace AgpTpf.ImpCut
open AgpTpf

/-! ### `R` plumbing -/

theorem ok_bind {α β : Type} (a : α) (f : α → R β) : ((Except.ok a : R α) >>= f) = f a := rfl
theorem error_bind {α β : Type} (e : Err) (f : α → R β) : ((Except.error e : R α) >>= f) = .error e := rfl
theorem ok_map {α β : Type} (a : α) (f : α → β) : (Except.ok a : R α).map f = .ok (f a) := rfl
theorem error_map {α β : Type} (e : Err) (f : α → β) : (Except.error e : R α).map f = .error e := rfl

/-- `x >>= fun t => .ok t` (what the translator emits for a value that is used at once) is `x` -/
theorem bind_ok {α : Type} (x : R α) : (x >>= fun t => (Except.ok t : R α)) = x := by
  cases x <;> rfl

/-- `.map f` is `>>= pure ∘ f` -/
theorem map_eq_bind_pure {α β : Type} (x : R α) (f : α → β) : x.map f = (x >>= fun a => pure (f a)) := by
  cases x <;> rfl

/-! ### `for i, x in enumerate(xs): body` with a body that falls through or raises = `foldlM` with the index in the state -/

/-- `A` = the model's accumulator, `idx` the loop counter it carries, `π` the variables the translated body assigns -/
theorem forIn_enumFrom_foldlM {α σ ρ A : Type} (idx : A → Nat) (π : A → σ)
    (body : Int × α → σ → R (PyRt.Ctl σ ρ)) (step : A → α → R A)
    (hbody : ∀ a x, body ((idx a : Int), x) (π a) = (step a x).map (fun a' => PyRt.Ctl.next (π a')))
    (hidx : ∀ a x a', step a x = .ok a' → idx a' = idx a + 1)
    (xs : List α) (a : A) :
    PyRt.forIn (PyRt.enumerateFrom (idx a : Int) xs) (π a) body
      = (xs.foldlM step a).map (fun a' => PyRt.Done.fell (π a')) := by
  induction xs generalizing a with
  | nil => rfl
  | cons x xs ih =>
    rw [PyRt.enumerateFrom, PyRt.forIn, hbody, List.foldlM_cons]
    cases hs : step a x with
    | error e => rfl
    | ok a' =>
      have h1 : ((idx a : Int) + 1) = (idx a' : Int) := by rw [hidx a x a' hs]; rfl
      simp only [ok_map, ok_bind]
      rw [h1]
      exact ih a'

/-- an invariant of every pass is an invariant of the `foldlM` -/
theorem foldlM_inv {α A : Type} (P : A → Prop) (step : A → α → R A)
    (hstep : ∀ a x a', P a → step a x = .ok a' → P a') (xs : List α) (a a' : A)
    (ha : P a) (h : xs.foldlM step a = .ok a') : P a' := by
  induction xs generalizing a with
  | nil => cases h; exact ha
  | cons x xs ih =>
    rw [List.foldlM_cons] at h
    cases hs : step a x with
    | error e => rw [hs] at h; cases h
    | ok a1 => rw [hs] at h; exact ih a1 (hstep a x a1 ha hs) h

/-! ### the loop counter as `int` and as `Nat` -/

theorem decide_cast_eq_zero (i : Nat) : decide ((i : Int) = 0) = (i == 0) := by
  cases i
  · rfl
  · simp; omega
theorem decide_cast_eq_cast (i n : Nat) : decide ((i : Int) = (n : Int)) = (i == n) := by
  by_cases h : i = n
  · subst h; simp
  · have : ¬ ((i : Int) = (n : Int)) := by omega
    simp [h, this]

/-- `last_i = len(xs) - 1` for a non-empty list is the model's truncating `xs.length - 1` -/
theorem last_cast {α : Type} (xs : List α) (h : xs ≠ []) : ((xs.length : Int) - 1) = ((xs.length - 1 : Nat) : Int) := by
  have : 0 < xs.length := List.length_pos_iff.mpr h
  omega

/-! ### the model's `cutFragments` with its loop body named -/

/-- the key of the sort, paired with the holder -/
def cutKey (store : List Res) (f : Fragment) (sid : Nat) : R (Int × Nat) := do
  let k ← (getRes store sid).fragmentStartIfTrimmed f
  pure (k, sid)

/-- one pass of the cutting loop (the `fun acc sid => …` of `cutFragments`) -/
def cutStep (f : Fragment) (last : Nat) (acc : Build × List Fragment × Nat) (sid : Nat) : R (Build × List Fragment × Nat) := do
  let (b, subs, i) := acc
  let r := b.store.getD sid default
  let ks := i == 0
  let ke := i == last
  let (ks, ke) := if f.strand = -1 then (ke, ks) else (ks, ke)
  let (o, new) ← r.o.trimFragment f ks ke b.nextOid
  pure ({ b with store := setAt b.store sid { r with o := o }, nextOid := b.nextOid + 1 }, subs ++ [new], i + 1)

/-- what `cutFragments` does after the loop: the QC, then the `cuts` counter -/
def cutFinish (f : Fragment) (acc : Build × List Fragment × Nat) : R Build :=
  if qcPasses f acc.2.1 then .ok { acc.1 with cuts := acc.1.cuts + ((acc.2.1.length : Int) - 1) } else .error .value

/-- the holders in the order of `fragment_start_if_trimmed` -/
def cutOrder (keyed : List (Int × Nat)) : List Nat :=
  (stableSort (fun (a c : Int × Nat) => decide (a.1 ≤ c.1)) keyed).map (·.2)

theorem cutFragments_eq (b : Build) (fnd : Found) :
    cutFragments b fnd =
      (fnd.scaffolds.mapM (cutKey b.store fnd.fragment)) >>= fun keyed =>
      ((cutOrder keyed).foldlM (cutStep fnd.fragment ((cutOrder keyed).length - 1)) (b, [], 0)) >>= cutFinish fnd.fragment := by
  unfold cutFragments
  dsimp only
  congr 1
  funext keyed
  congr 1
  funext acc
  obtain ⟨b', subs, i⟩ := acc
  unfold cutFinish
  by_cases h : qcPasses fnd.fragment subs = true
  · simp only [h, not_true_eq_false, if_false, if_true]; rfl
  · simp only [h]; rfl

/-- the keep-start / keep-end flags of pass `i` (swapped for a minus-strand contig) -/
def cutFlags (f : Fragment) (last i : Nat) : Bool × Bool :=
  if f.strand = -1 then (i == last, i == 0) else (i == 0, i == last)

theorem cutStep_eq (f : Fragment) (last : Nat) (b : Build) (subs : List Fragment) (i sid : Nat) :
    cutStep f last (b, subs, i) sid =
      ((b.store.getD sid default).o.trimFragment f (cutFlags f last i).1 (cutFlags f last i).2 b.nextOid) >>= fun p =>
      .ok ({ b with store := PyRt.updRes b.store sid p.1, nextOid := b.nextOid + 1 }, subs ++ [p.2], i + 1) := by
  unfold cutStep cutFlags
  dsimp only
  split <;> rfl

/-- a pass moves the counter on by one -/
theorem cutStep_idx (f : Fragment) (last : Nat) (a : Build × List Fragment × Nat) (sid : Nat)
    (a' : Build × List Fragment × Nat) (h : cutStep f last a sid = .ok a') : a'.2.2 = a.2.2 + 1 := by
  obtain ⟨b, subs, i⟩ := a
  rw [cutStep_eq] at h
  cases ht : OverlapResult.trimFragment (b.store.getD sid default).o f (cutFlags f last i).1 (cutFlags f last i).2 b.nextOid with
  | error e => rw [ht] at h; cases h
  | ok p => rw [ht] at h; cases h; rfl

/-- a pass changes only the store and the object-id counter of the build state -/
theorem cutStep_frame (b0 : Build) (f : Fragment) (last : Nat) (a : Build × List Fragment × Nat) (sid : Nat)
    (a' : Build × List Fragment × Nat)
    (ha : a.1 = { b0 with store := a.1.store, nextOid := a.1.nextOid })
    (h : cutStep f last a sid = .ok a') : a'.1 = { b0 with store := a'.1.store, nextOid := a'.1.nextOid } := by
  obtain ⟨b, subs, i⟩ := a
  rw [cutStep_eq] at h
  dsimp only at ha
  cases ht : OverlapResult.trimFragment (b.store.getD sid default).o f (cutFlags f last i).1 (cutFlags f last i).2 b.nextOid with
  | error e => rw [ht] at h; cases h
  | ok p =>
    rw [ht] at h; cases h
    dsimp only
    rw [ha]

theorem cutLoop_frame (b : Build) (f : Fragment) (last : Nat) (xs : List Nat) (subs : List Fragment) (i : Nat)
    (a' : Build × List Fragment × Nat) (h : xs.foldlM (cutStep f last) (b, subs, i) = .ok a') :
    a'.1 = { b with store := a'.1.store, nextOid := a'.1.nextOid } :=
  foldlM_inv (fun a => a.1 = { b with store := a.1.store, nextOid := a.1.nextOid }) (cutStep f last)
    (fun a x a' ha hs => cutStep_frame b f last a x a' ha hs) xs (b, subs, i) a' rfl h

/-! ### the two halves of the tie, stated without any generated term -/

/-- `sorted(holders, key=lambda s: s.fragment_start_if_trimmed(frgmnt))` is the model's key pass followed by `cutOrder` -/
theorem sortedByM_cutKey (store : List Res) (f : Fragment) (xs : List Nat) :
    PyRt.sortedByM (fun s => (getRes store s).fragmentStartIfTrimmed f) xs = (xs.mapM (cutKey store f)).map cutOrder := by
  unfold PyRt.sortedByM cutOrder
  have hk : (fun (x : Nat) => ((getRes store x).fragmentStartIfTrimmed f).map (fun d => (d, x))) = cutKey store f := by
    funext x
    unfold cutKey
    rw [map_eq_bind_pure]
  rw [hk]

/-- a loop body over the three variables `sub_fragments`, `store`, `nextOid` — packed into the loop state `σ` by `π`, in whatever order
    the translator carries them — that computes the flags of pass `i` (only a non-empty list has passes), calls `trim_fragment` on
    holder `sid` with a fresh object id, writes the trimmed result back and appends the piece — run over `enumerate(xs)` from
    `π [] b.store b.nextOid` — is the model's `foldlM` of `cutStep` -/
theorem cutLoop_is_forIn {ρ σ : Type} (π : List Fragment → List Res → Nat → σ) (f : Fragment) (last : Nat)
    (body : Int × Nat → σ → R (PyRt.Ctl σ ρ))
    (xs : List Nat)
    (hbody : xs ≠ [] → ∀ (i sid : Nat) (subs : List Fragment) (store : List Res) (oid : Nat),
      body ((i : Int), sid) (π subs store oid) =
        ((getRes store sid).trimFragment f (cutFlags f last i).1 (cutFlags f last i).2 oid) >>= fun p =>
          .ok (.next (π (subs ++ [p.2]) (PyRt.updRes store sid p.1) (oid + 1))))
    (b : Build) :
    PyRt.forIn (PyRt.enumerate xs) (π [] b.store b.nextOid) body
      = (xs.foldlM (cutStep f last) (b, [], 0)).map (fun a => PyRt.Done.fell (π a.2.1 a.1.store a.1.nextOid)) := by
  by_cases hne : xs = []
  · subst hne; rfl
  replace hbody := hbody hne
  refine forIn_enumFrom_foldlM (fun a => a.2.2) (fun a => π a.2.1 a.1.store a.1.nextOid) body (cutStep f last) ?_
    (cutStep_idx f last) xs (b, [], 0)
  intro a sid
  obtain ⟨b', subs, i⟩ := a
  rw [hbody, cutStep_eq]
  unfold getRes
  cases OverlapResult.trimFragment (b'.store.getD sid default).o f (cutFlags f last i).1 (cutFlags f last i).2 b'.nextOid <;> rfl

/-- after the loop the counter `cuts` is still the one of the start -/
theorem cutLoop_cuts (b : Build) (f : Fragment) (last : Nat) (xs : List Nat) (subs : List Fragment) (i : Nat)
    (a' : Build × List Fragment × Nat) (h : xs.foldlM (cutStep f last) (b, subs, i) = .ok a') : a'.1.cuts = b.cuts := by
  rw [cutLoop_frame b f last xs subs i a' h]

/-- … and so is everything but the store and the object-id counter after the whole of `cutFragments` but `cuts` -/
theorem cutFragments_frame (b b' : Build) (fnd : Found) (h : cutFragments b fnd = .ok b') :
    b' = { b with store := b'.store, nextOid := b'.nextOid, cuts := b'.cuts } := by
  rw [cutFragments_eq] at h
  cases hk : fnd.scaffolds.mapM (cutKey b.store fnd.fragment) with
  | error e => rw [hk] at h; cases h
  | ok keyed =>
    rw [hk, ok_bind] at h
    cases hl : (cutOrder keyed).foldlM (cutStep fnd.fragment ((cutOrder keyed).length - 1)) (b, [], 0) with
    | error e => rw [hl] at h; cases h
    | ok a =>
      rw [hl, ok_bind] at h
      have hf := cutLoop_frame b fnd.fragment _ _ _ _ a hl
      unfold cutFinish at h
      split at h
      · cases h
        dsimp only
        rw [hf]
      · cases h

end AgpTpf.ImpCut
