/-
  C08 helpers, part 2 (front half of stage N3): `find_assembly_overlaps` on an unedited Pretext map.
  One Pretext scaffold = one untagged forward piece `[1, E]` of one input scaffold.
-/
import AgpTpf.Proofs.C08Lookup
import AgpTpf.Proofs.C09Dict
import AgpTpf.Model.Remap
namespace AgpTpf.C08
open AgpTpf

/-! ### the unedited map -/

/-- one Pretext scaffold of an unedited map: it presents the input scaffold `sc` whole as the piece `[1, stop]` -/
structure Piece where
  pname : Str            -- name of the Pretext scaffold (e.g. `Scaffold_7`)
  sc : Scaffold          -- the input scaffold it shows
  stop : Int             -- the (texel-rounded) end coordinate Pretext reports
  oid : Nat := 0
  deriving Repr

/-- the single row of the Pretext scaffold: forward, from base 1, no tags -/
def Piece.bait (p : Piece) : Fragment :=
  { oid := p.oid, name := p.sc.name, start := 1, stop := p.stop, strand := 1, tags := [] }

def Piece.ptx (p : Piece) : Scaffold := { name := p.pname, rows := [.frag p.bait] }

/-- what the build stores for the piece: all rows of the input scaffold, named like the input scaffold
    (an unpainted Pretext scaffold takes the name of its first row = the bait = the input scaffold), rank 3, no tag,
    no haplotype -/
def Piece.res (p : Piece) : Res :=
  { o := { bait := p.bait, start := 1, stop := p.sc.length, rows := p.sc.rows, name := p.sc.name, tag := none,
           haplotype := none, rank := 3, originalName := some p.pname, originalTags := some [] },
    added := true }

/-- hypotheses on one piece (N1 + N2 + naming) -/
structure PieceOk (input : List Scaffold) (err : Int) (p : Piece) : Prop where
  mem : p.sc ∈ input
  wf : WfRows p.sc.rows
  reach : lastFragmentStart p.sc.rows ≤ p.stop          -- the piece reaches into the last contig
  close : p.sc.length - p.stop ≤ err                   -- Pretext's rounding of the scaffold end
  noHap : hapPrefixOfName p.sc.name = none             -- the name does not look like `<hap>_…_<n>`

/-- registry entries written for a result with id `sid` -/
def foundEntries (sid : Nat) (frags : List Fragment) : List (Key × Found) :=
  frags.map (fun f => (f.keyTuple, { fragment := f, scaffolds := [sid] }))

/-! ### the namer stays plain -/

structure NamerPlain (n : Namer) : Prop where
  target : n.targetTags = false
  primary : n.primaryHaplotype = none
  haplotig : n.haplotigScaffolds = []

/-- `make_scaffold_name` for an untagged, unpainted scaffold whose first row is called `nm` -/
def namedPlain (n : Namer) (nm : Str) : Namer :=
  { n with currentHaplotype := none, currentScaffoldName := some nm, currentRank := 3, unlocN := 0, unlocScaffolds := [] }

theorem namedPlain_plain {n : Namer} (h : NamerPlain n) (nm : Str) : NamerPlain (namedPlain n nm) :=
  ⟨h.target, h.primary, h.haplotig⟩

theorem makeScaffoldName_plain (n : Namer) (scName nm : Str) (rows : List Row) (hp : n.primaryHaplotype = none)
    (hfr : firstRowName rows = .ok nm) (hhap : hapPrefixOfName nm = none) :
    makeScaffoldName n scName rows [] = .ok (namedPlain n nm) := by
  unfold makeScaffoldName
  simp [hfr, hhap, hp, truthy, bind, Except.bind, pure, Except.pure, namedPlain]

theorem firstRowName_cons_frag (f : Fragment) (r : List Row) : firstRowName (.frag f :: r) = .ok f.name := by
  unfold firstRowName pyGet
  have h : ¬ ((r.length : Int) + 1 ≤ 0) := by omega
  simp [bind, Except.bind, pure, Except.pure, h]

/-! ### lookup of the scaffold by name -/

theorem find?_name (input : List Scaffold) (sc : Scaffold) (hn : (input.map (·.name)).Nodup) (hm : sc ∈ input) :
    input.find? (fun s => s.name = sc.name) = some sc := by
  induction input with
  | nil => cases hm
  | cons a r ih =>
    simp only [List.map_cons, List.nodup_cons] at hn
    rcases List.mem_cons.1 hm with rfl | hm
    · simp
    · have : a.name ≠ sc.name := fun e => hn.1 (e ▸ List.mem_map_of_mem hm)
      simp only [List.find?_cons, this, decide_false]
      exact ih hn.2 hm

theorem lookupScaffold_ok (input : List Scaffold) (sc : Scaffold) (hn : (input.map (·.name)).Nodup) (hm : sc ∈ input) :
    lookupScaffold input sc.name = .ok sc := by
  unfold lookupScaffold
  rw [find?_name input sc hn hm]

/-! ### registering fresh keys -/

theorem storeFragmentsFound_fresh (b : Build) (sid : Nat) (frags : List Fragment)
    (hnd : (frags.map Fragment.keyTuple).Nodup)
    (hfresh : ∀ f ∈ frags, f.keyTuple ∉ b.found.map (·.1)) :
    storeFragmentsFound b sid frags = { b with found := b.found ++ foundEntries sid frags } := by
  unfold storeFragmentsFound
  induction frags generalizing b with
  | nil => simp [foundEntries]
  | cons f r ih =>
    simp only [List.map_cons, List.nodup_cons] at hnd
    have h0 : dGet? b.found f.keyTuple = none := (Dict.dGet?_none_iff _ _).2 (hfresh f (by simp))
    simp only [List.foldl_cons, h0]
    rw [ih _ hnd.2]
    · simp [foundEntries]
    · intro g hg
      simp only [List.map_append, List.map_cons, List.map_nil, List.mem_append, List.mem_singleton, not_or]
      refine ⟨hfresh g (by simp [hg]), ?_⟩
      intro e
      exact hnd.1 (e ▸ List.mem_map_of_mem hg)

theorem renameBySize_nil (store : List Res) : renameBySize store [] = store := by
  unfold renameBySize; simp

/-! ### one piece -/

theorem labelScaffold_plain (n : Namer) (o : OverlapResult) (sid : Nat) (bait : Fragment) (orig nm : Str)
    (ht : bait.tags = []) (htar : n.targetTags = false) (hcur : n.currentScaffoldName = some nm) :
    labelScaffold n o sid bait [] orig =
      .ok (n, { o with name := nm, tag := o.tag, haplotype := n.currentHaplotype, rank := n.currentRank,
                       originalName := some orig, originalTags := some [] }) := by
  unfold labelScaffold
  simp [ht, htar, hcur, bind, Except.bind, pure, Except.pure]

/-- `process_bait` on the piece of an unedited map: the whole input scaffold is stored under a new id, its contigs are
    registered, nothing else changes -/
theorem processBait_piece (input : List Scaffold) (p : Piece) (b : Build)
    (hn : (input.map (·.name)).Nodup) (hok : PieceOk input b.err p) (herr : 0 ≤ b.err)
    (hcur : b.namer.currentScaffoldName = some p.sc.name) (hrank : b.namer.currentRank = 3)
    (hhap : b.namer.currentHaplotype = none) (htar : b.namer.targetTags = false)
    (hnd : (p.sc.fragments.map Fragment.keyTuple).Nodup)
    (hfresh : ∀ f ∈ p.sc.fragments, f.keyTuple ∉ b.found.map (·.1)) :
    processBait input [] p.pname b p.bait =
      .ok { b with store := b.store ++ [p.res], found := b.found ++ foundEntries b.store.length p.sc.fragments } := by
  unfold processBait
  have h1 : lookupScaffold input p.bait.name = .ok p.sc := lookupScaffold_ok input p.sc hn hok.mem
  have h2 := findOverlaps_whole p.sc.rows p.bait hok.wf rfl hok.reach
  have hne : p.sc.rows.isEmpty = false := by
    have := hok.wf.ne
    cases h : p.sc.rows <;> simp_all
  simp only [h1, h2, bind, Except.bind]
  rw [labelScaffold_plain b.namer _ _ p.bait p.pname p.sc.name rfl htar hcur]
  simp only []
  rw [trimLargeOverhangs_id]
  · simp only [hne, Bool.false_eq_true, if_false, pure, Except.pure]
    rw [storeFragmentsFound_fresh]
    · simp [Piece.res, hhap, hrank, Scaffold.length, Scaffold.fragments]
    · exact hnd
    · exact hfresh
  · show p.bait.start - 1 ≤ b.err
    simp [Piece.bait]; exact herr
  · show rowsLength p.sc.rows - p.bait.stop ≤ b.err
    exact hok.close

/-- the loop body of `find_assembly_overlaps` (verbatim) -/
def faoStep (input : List Scaffold) (b : Build) (ps : Scaffold) : R Build := do
  let tags := ps.fragmentTags
  let n ← makeScaffoldName b.namer ps.name ps.rows tags
  let b := { b with namer := n }
  let b ← ps.fragments.foldlM (processBait input tags ps.name) b
  pure { b with store := renameBySize b.store b.namer.unlocScaffolds }

theorem findAssemblyOverlaps_eq (input ptx : List Scaffold) (b : Build) :
    findAssemblyOverlaps input ptx b = ptx.foldlM (faoStep input) b := rfl

theorem ptx_fragmentTags (p : Piece) : p.ptx.fragmentTags = [] := rfl

theorem faoStep_piece (input : List Scaffold) (p : Piece) (b : Build)
    (hn : (input.map (·.name)).Nodup) (hok : PieceOk input b.err p) (herr : 0 ≤ b.err)
    (hplain : NamerPlain b.namer)
    (hnd : (p.sc.fragments.map Fragment.keyTuple).Nodup)
    (hfresh : ∀ f ∈ p.sc.fragments, f.keyTuple ∉ b.found.map (·.1)) :
    faoStep input b p.ptx =
      .ok { b with namer := namedPlain b.namer p.sc.name, store := b.store ++ [p.res],
                   found := b.found ++ foundEntries b.store.length p.sc.fragments } := by
  unfold faoStep
  rw [ptx_fragmentTags]
  have h1 : makeScaffoldName b.namer p.pname p.ptx.rows [] = .ok (namedPlain b.namer p.sc.name) :=
    makeScaffoldName_plain b.namer _ p.sc.name _ hplain.primary (firstRowName_cons_frag _ _) hok.noHap
  have h2 := processBait_piece input p { b with namer := namedPlain b.namer p.sc.name } hn hok herr rfl rfl rfl
    hplain.target hnd hfresh
  have h3 : p.ptx.fragments = [p.bait] := rfl
  have h4 : p.ptx.name = p.pname := rfl
  simp only [h3, h4, bind, Except.bind, List.foldlM_cons, List.foldlM_nil, pure, Except.pure, h1, h2]
  simp [namedPlain, renameBySize_nil]

/-! ### distinct contig keys -/

/-- no `(name, start, end)` triple occurs twice in the whole input -/
def KeysDistinct (input : List Scaffold) : Prop :=
  ((input.flatMap Scaffold.fragments).map Fragment.keyTuple).Nodup

theorem KeysDistinct.within {input : List Scaffold} (h : KeysDistinct input) (sc : Scaffold) (hm : sc ∈ input) :
    (sc.fragments.map Fragment.keyTuple).Nodup := by
  unfold KeysDistinct at h
  induction input with
  | nil => cases hm
  | cons a r ih =>
    rw [List.flatMap_cons, List.map_append, List.nodup_append] at h
    rcases List.mem_cons.1 hm with rfl | hm
    · exact h.1
    · exact ih h.2.1 hm

theorem KeysDistinct.across {input : List Scaffold} (h : KeysDistinct input) (sc sc' : Scaffold)
    (hm : sc ∈ input) (hm' : sc' ∈ input) (hne : sc.name ≠ sc'.name) :
    ∀ f ∈ sc.fragments, ∀ g ∈ sc'.fragments, f.keyTuple ≠ g.keyTuple := by
  unfold KeysDistinct at h
  induction input with
  | nil => cases hm
  | cons a r ih =>
    rw [List.flatMap_cons, List.map_append, List.nodup_append] at h
    obtain ⟨-, h2, h3⟩ := h
    have inr : ∀ s ∈ r, ∀ g ∈ s.fragments, g.keyTuple ∈ (r.flatMap Scaffold.fragments).map Fragment.keyTuple := by
      intro s hs g hg
      exact List.mem_map_of_mem (List.mem_flatMap.2 ⟨s, hs, hg⟩)
    intro f hf g hg
    rcases List.mem_cons.1 hm with rfl | hm1 <;> rcases List.mem_cons.1 hm' with rfl | hm1'
    · exact absurd rfl hne
    · exact h3 _ (List.mem_map_of_mem hf) _ (inr _ hm1' g hg)
    · exact fun e => h3 _ (List.mem_map_of_mem hg) _ (inr _ hm1 f hf) e.symm
    · exact ih h2 hm1 hm1' f hf g hg

/-! ### the whole Pretext assembly -/

/-- `find_assembly_overlaps` on an unedited map: one stored result per piece, holding all rows of its input scaffold;
    every contig of a presented scaffold registered once (so nothing is shared: `multi` stays empty). -/
theorem findAssemblyOverlaps_unedited (input : List Scaffold) (pieces : List Piece) (b : Build)
    (hn : (input.map (·.name)).Nodup) (hk : KeysDistinct input) (herr : 0 ≤ b.err)
    (hok : ∀ p ∈ pieces, PieceOk input b.err p)
    (hpn : (pieces.map (·.sc.name)).Nodup)
    (hplain : NamerPlain b.namer)
    (hfound : ∀ p ∈ pieces, ∀ f ∈ p.sc.fragments, f.keyTuple ∉ b.found.map (·.1)) :
    ∃ b', findAssemblyOverlaps input (pieces.map Piece.ptx) b = .ok b' ∧
      b'.store = b.store ++ pieces.map Piece.res ∧
      b'.found.map (·.1) = b.found.map (·.1) ++ (pieces.flatMap (·.sc.fragments)).map Fragment.keyTuple ∧
      b'.multi = b.multi ∧ b'.extra = b.extra ∧ b'.cuts = b.cuts ∧ b'.joinGap = b.joinGap ∧ b'.err = b.err ∧
      NamerPlain b'.namer ∧ b'.namer.autosomePrefix = b.namer.autosomePrefix := by
  rw [findAssemblyOverlaps_eq]
  induction pieces generalizing b with
  | nil => exact ⟨b, rfl, by simp, by simp, rfl, rfl, rfl, rfl, rfl, hplain, rfl⟩
  | cons p r ih =>
    have hp := hok p (by simp)
    simp only [List.map_cons, List.nodup_cons] at hpn
    have hstep := faoStep_piece input p b hn hp herr hplain (hk.within _ hp.mem) (hfound p (by simp))
    simp only [List.map_cons, List.foldlM_cons, hstep, bind, Except.bind]
    obtain ⟨b', e, h1, h2, h3, h4, h5, h6, h7, h8, h9⟩ :=
      ih { b with namer := namedPlain b.namer p.sc.name, store := b.store ++ [p.res],
                  found := b.found ++ foundEntries b.store.length p.sc.fragments }
        herr (fun q hq => hok q (by simp [hq])) hpn.2 (namedPlain_plain hplain _) (by
          intro q hq f hf
          simp only [List.map_append, List.mem_append, not_or]
          refine ⟨hfound q (by simp [hq]) f hf, ?_⟩
          intro hmem
          simp only [foundEntries, List.map_map, List.mem_map, Function.comp] at hmem
          obtain ⟨g, hg, e⟩ := hmem
          have hq' := hok q (by simp [hq])
          have hne : p.sc.name ≠ q.sc.name := fun e => hpn.1 (e ▸ List.mem_map_of_mem (f := fun x : Piece => x.sc.name) hq)
          exact hk.across p.sc q.sc hp.mem hq'.mem hne g hg f hf e)
    refine ⟨b', e, ?_, ?_, h3, h4, h5, h6, h7, h8, h9⟩
    · rw [h1]; simp
    · rw [h2]; simp [foundEntries, List.flatMap_cons, Function.comp_def]

end AgpTpf.C08
