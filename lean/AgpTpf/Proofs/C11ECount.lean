/-
  C11 end to end, helpers: counting the rows of the build returned by `remap_to_input_assembly`.

    * generic facts about `sumInts` (linearity, indicator sums over duplicate-free lists, double counting);
    * `cut_fragments` / the cutting loop replace rows one for one: the NUMBER of fragment rows of the store is unchanged;
    * `mid_count`: under the registry invariant `Mid` (C01), Σ over the multiply-found keys of (holders − 1)
      = #store rows + #unregistered input fragments − #input fragments;
    * `remapToInput_cuts`: the cut counter of the returned build = #store rows + #left-over rows − #input fragments.
-/
import AgpTpf.Proofs.C01MiddleFinal
import AgpTpf.Proofs.C11Cuts
import AgpTpf.Proofs.C07ChainD
namespace AgpTpf.C11
open AgpTpf
open AgpTpf.C01 (WFInput inputFrags Mid RowsOK storeFrags extraFrags holders hasKey covers)

/-! ### `sumInts` -/

theorem sumInts_map_add {α} (f g : α → Int) (l : List α) :
    sumInts (l.map (fun x => f x + g x)) = sumInts (l.map f) + sumInts (l.map g) := by
  induction l with
  | nil => rfl
  | cons a t ih => simp only [List.map_cons, sumInts, ih]; omega

theorem sumInts_map_lin3 {α} (f g h : α → Int) (l : List α) :
    sumInts (l.map (fun x => f x + g x - h x)) = sumInts (l.map f) + sumInts (l.map g) - sumInts (l.map h) := by
  induction l with
  | nil => rfl
  | cons a t ih => simp only [List.map_cons, sumInts, ih]; omega

theorem sumInts_map_zero {α} (l : List α) : sumInts (l.map (fun _ => (0 : Int))) = 0 := by
  induction l with
  | nil => rfl
  | cons a t ih => simp only [List.map_cons, sumInts, ih]; omega

theorem sumInts_map_one {α} (l : List α) : sumInts (l.map (fun _ => (1 : Int))) = (l.length : Int) := by
  induction l with
  | nil => rfl
  | cons a t ih => simp only [List.map_cons, sumInts, ih, List.length_cons]; omega

theorem sumInts_map_nonneg {α} (f : α → Int) (l : List α) (h : ∀ x ∈ l, 0 ≤ f x) : 0 ≤ sumInts (l.map f) := by
  induction l with
  | nil => simp [sumInts]
  | cons a t ih =>
    simp only [List.map_cons, sumInts]
    have h1 := h a (List.mem_cons_self ..)
    have h2 := ih (fun x hx => h x (List.mem_cons_of_mem _ hx))
    omega

theorem sumInts_map_congr {α} (f g : α → Int) (l : List α) (h : ∀ x ∈ l, f x = g x) :
    sumInts (l.map f) = sumInts (l.map g) := congrArg sumInts (List.map_congr_left h)

theorem countP_eq_sumInts {α} (p : α → Bool) (l : List α) :
    (l.countP p : Int) = sumInts (l.map (fun x => if p x then 1 else 0)) := by
  induction l with
  | nil => rfl
  | cons a t ih =>
    rw [List.countP_cons, List.map_cons, sumInts, ← ih]
    split <;> simp <;> omega

/-- the indicator of one value, summed over a duplicate-free list -/
theorem sumInts_indicator {κ} [DecidableEq κ] (c : Int) (k : κ) : ∀ (ks : List κ), ks.Nodup →
    sumInts (ks.map (fun k' => if k = k' then c else 0)) = if k ∈ ks then c else 0
  | [], _ => by simp [sumInts]
  | a :: t, h => by
    rw [List.nodup_cons] at h
    rw [List.map_cons, sumInts, sumInts_indicator c k t h.2]
    by_cases e : k = a
    · subst e
      simp [h.1]
    · have : ¬ (k = a ∨ k ∈ t) ↔ k ∉ t := by simp [e]
      by_cases m : k ∈ t <;> simp [e, m]

/-- summing `c` over the members of a duplicate-free sub-collection `m` of the duplicate-free list `ks` -/
theorem sumInts_restrict {κ} [DecidableEq κ] (c : κ → Int) (ks : List κ) (hks : ks.Nodup) : ∀ (m : List κ), m.Nodup →
    (∀ k ∈ m, k ∈ ks) → sumInts (ks.map (fun k => if k ∈ m then c k else 0)) = sumInts (m.map c)
  | [], _, _ => by simp [sumInts, sumInts_map_zero]
  | k0 :: m', hm, hsub => by
    rw [List.nodup_cons] at hm
    have hpt : ∀ k ∈ ks, (if k ∈ k0 :: m' then c k else 0) =
        (if k0 = k then c k0 else 0) + (if k ∈ m' then c k else 0) := by
      intro k _
      by_cases e : k0 = k
      · subst e; simp [hm.1]
      · have e' : ¬ k = k0 := fun h => e h.symm
        by_cases m : k ∈ m' <;> simp [e, e', m]
    rw [sumInts_map_congr _ _ ks hpt, sumInts_map_add, sumInts_indicator (c k0) k0 ks hks,
      sumInts_restrict c ks hks m' hm.2 (fun k hk => hsub k (List.mem_cons_of_mem _ hk)),
      if_pos (hsub k0 (List.mem_cons_self ..)), List.map_cons, sumInts]

/-- double counting: if every element of `l` is in exactly one of the classes `p F`, `F ∈ u`, the classes' sizes add up
    to the length of `l` -/
theorem length_eq_sum_countP {α β} (p : β → α → Bool) (u : List β) : ∀ (l : List α),
    (∀ t ∈ l, sumInts (u.map (fun F => if p F t then 1 else 0)) = 1) →
    (l.length : Int) = sumInts (u.map (fun F => (l.countP (p F) : Int)))
  | [], _ => by simp [sumInts_map_zero]
  | t :: r, h => by
    have ih := length_eq_sum_countP p u r (fun x hx => h x (List.mem_cons_of_mem _ hx))
    have hpt : ∀ F ∈ u, (((t :: r).countP (p F) : Nat) : Int) = (r.countP (p F) : Int) + (if p F t then 1 else 0) := by
      intro F _
      rw [List.countP_cons]
      split <;> simp
    rw [sumInts_map_congr _ _ u hpt, sumInts_map_add, ← ih, h t (List.mem_cons_self ..), List.length_cons]
    omega

/-! ### cutting keeps the number of fragment rows -/

/-- `cut_fragments` for one registry entry replaces, in every holder, one row by one row -/
theorem cutFragments_length (input : List Scaffold) (hwf : WFInput input) (n0 : Nat)
    (hbelow : ∀ f ∈ inputFrags input, f.oid < n0) (b b' : Build) (fnd : Found) (hF : fnd.fragment ∈ inputFrags input)
    (hrows : RowsOK input n0 b.store) (hn : n0 ≤ b.nextOid)
    (hA : ∀ sid ∈ fnd.scaffolds, (b.store.map (·.added))[sid]? = some true)
    (h : cutFragments b fnd = .ok b') :
    (storeFrags b'.store).length = (storeFrags b.store).length := by
  obtain ⟨ordered, b1, subs, m, ho, hf, _, rfl⟩ := C01.cutFragments_ok b b' fnd h
  have hperm := C01.cutOrder_perm b fnd ordered ho
  have hfin := C01.foldlM_inv_mem
    (fun (st : Build × List Fragment × Nat) => RowsOK input n0 st.1.store ∧ n0 ≤ st.1.nextOid ∧
      st.1.store.map (·.added) = b.store.map (·.added) ∧ (storeFrags st.1.store).length = (storeFrags b.store).length)
    _ ordered (by
      intro st sid st' hsid hP hstep
      obtain ⟨bc, sc, ic⟩ := st
      obtain ⟨bc', sc', ic'⟩ := st'
      simp only at hP ⊢
      obtain ⟨p1, p2, p3, p4⟩ := hP
      have hA' : (bc.store.map (·.added))[sid]? = some true := by
        rw [p3]; exact hA sid (hperm.subset hsid)
      obtain ⟨new, _, _, q1, q2, q3, _, _, q6⟩ :=
        C01.cutStep_account input hwf n0 hbelow fnd.fragment hF _ bc sc ic sid bc' sc' ic' p1 p2 hA' hstep
      refine ⟨q1, q2, q3.trans p3, ?_⟩
      have := q6 (fun _ => true)
      simp at this
      omega)
    (b, [], 0) (b1, subs, m) ⟨hrows, hn, rfl, rfl⟩ hf
  exact hfin.2.2.2

/-- the cutting loop (`cut_remaining_fragments` before `multi` is cleared) on a build satisfying the registry invariant:
    registry and left-overs untouched, the number of fragment rows of the store unchanged -/
theorem cutKeys_length (input : List Scaffold) (hwf : WFInput input) (n0 : Nat)
    (hbelow : ∀ f ∈ inputFrags input, f.oid < n0) (b2 bm : Build) (hm : Mid input b2) (hn0 : n0 ≤ b2.nextOid)
    (h : b2.multi.foldlM C01.cutKey b2 = .ok bm) :
    bm.found = b2.found ∧ bm.extra = b2.extra ∧ (storeFrags bm.store).length = (storeFrags b2.store).length := by
  have hrows0 : RowsOK input n0 b2.store := by
    intro r hr g hg
    obtain ⟨sc, hsc, hinf⟩ := hm.slices r hr
    exact Or.inl (C01.mem_inputFrags.mpr ⟨sc, hsc, C01.fragmentsOf_infix hinf g hg⟩)
  have hfin := C01.foldlM_inv_mem
    (fun (x : Build) => RowsOK input n0 x.store ∧ n0 ≤ x.nextOid ∧ x.store.map (·.added) = b2.store.map (·.added) ∧
      x.found = b2.found ∧ x.extra = b2.extra ∧ (storeFrags x.store).length = (storeFrags b2.store).length)
    C01.cutKey b2.multi (by
      intro x k x' hk hP hstep
      obtain ⟨p1, p2, p3, p4, p5, p6⟩ := hP
      unfold C01.cutKey at hstep
      rw [p4] at hstep
      have h2 : 2 ≤ (holders b2 k).length := (hm.registry.2 k).mp hk
      cases hf : dGet? b2.found k with
      | none => simp [holders, hf] at h2
      | some fnd =>
        rw [hf] at hstep
        simp only at hstep
        obtain ⟨_, hFin⟩ := hm.foundOK k fnd hf
        have hh : holders b2 k = fnd.scaffolds := by simp [holders, hf]
        have hA : ∀ sid ∈ fnd.scaffolds, (x.store.map (·.added))[sid]? = some true := by
          intro sid hsid
          obtain ⟨r, hr, hadd⟩ := hm.holder_added (k := k) (hh ▸ hsid)
          rw [p3, List.getElem?_map, hr]; simp [hadd]
        obtain ⟨a1, a2, a3, a4, a4', _⟩ :=
          C01.cutFragments_account input hwf n0 hbelow x x' fnd hFin p1 p2 hA hstep
        have a5 := cutFragments_length input hwf n0 hbelow x x' fnd hFin p1 p2 hA hstep
        exact ⟨a1, a2, a3.trans p3, a4.trans p4, a4'.trans p5, a5.trans p6⟩)
    b2 bm ⟨hrows0, hn0, rfl, rfl, rfl, rfl⟩ h
  exact ⟨hfin.2.2.2.1, hfin.2.2.2.2.1, hfin.2.2.2.2.2⟩

/-! ### the counting identity under the registry invariant -/

/-- per key: holders + (1 if unregistered) − 1 = pieces − 1 for a multiply-found key, 0 for every other key -/
theorem key_term (b : Build) (hreg : C01.RegistryInv b) (k : Key) :
    ((holders b k).length : Int) + (if dHas b.found k then 0 else 1) - 1 =
      if k ∈ b.multi then cutsOfKey b.found k else 0 := by
  have hmul := hreg.2 k
  cases hf : dGet? b.found k with
  | none =>
    have hh : holders b k = [] := by simp [holders, hf]
    have hnm : k ∉ b.multi := by
      intro hmem; have := hmul.mp hmem; rw [hh] at this; simp at this
    simp [hh, dHas, hf, hnm]
  | some fnd =>
    have hh : holders b k = fnd.scaffolds := by simp [holders, hf]
    have hpos : 0 < fnd.scaffolds.length := List.length_pos_iff.mpr (hreg.1 k fnd hf)
    rw [hh] at hmul ⊢
    by_cases hmem : k ∈ b.multi
    · simp only [dHas, hf, Option.isSome_some, ↓reduceIte, hmem, cutsOfKey]
      omega
    · have : ¬ 2 ≤ fnd.scaffolds.length := fun h2 => hmem (hmul.mpr h2)
      simp only [dHas, hf, Option.isSome_some, ↓reduceIte, hmem]
      omega

/-- Under the registry invariant, for a well-formed input:
    Σ_{k ∈ multi} (holders(k) − 1) = #fragment rows of the store + #input fragments with unregistered key − #input fragments. -/
theorem mid_count (input : List Scaffold) (hwf : WFInput input) (b : Build) (hm : Mid input b) :
    sumInts (b.multi.map (cutsOfKey b.found)) =
      ((storeFrags b.store).length : Int) +
        (((inputFrags input).filter (fun f => !dHas b.found f.keyTuple)).length : Int) -
        ((inputFrags input).length : Int) := by
  have hnd : ((inputFrags input).map Fragment.keyTuple).Nodup := hwf.2.2.1
  -- store rows, counted per key
  have hA : ((storeFrags b.store).length : Int) =
      sumInts (((inputFrags input).map Fragment.keyTuple).map (fun k => ((holders b k).length : Int))) := by
    have := length_eq_sum_countP (fun (k : Key) (g : Fragment) => hasKey k g)
      ((inputFrags input).map Fragment.keyTuple) (storeFrags b.store) (by
        intro g hg
        have hgin := hm.store_input g hg
        have h1 := sumInts_indicator (1 : Int) g.keyTuple _ hnd
        rw [if_pos (List.mem_map_of_mem hgin)] at h1
        refine Eq.trans ?_ h1
        apply sumInts_map_congr
        intro k _
        simp [hasKey])
    rw [this]
    apply sumInts_map_congr
    intro k _
    rw [hm.total]
  -- left-overs, counted per key
  have hB : (((inputFrags input).filter (fun f => !dHas b.found f.keyTuple)).length : Int) =
      sumInts (((inputFrags input).map Fragment.keyTuple).map (fun k => if dHas b.found k then (0 : Int) else 1)) := by
    rw [← List.countP_eq_length_filter, countP_eq_sumInts, List.map_map]
    apply sumInts_map_congr
    intro f _
    simp only [Function.comp]
    cases dHas b.found f.keyTuple <;> simp
  have hC : ((inputFrags input).length : Int) =
      sumInts (((inputFrags input).map Fragment.keyTuple).map (fun _ => (1 : Int))) := by
    rw [sumInts_map_one, List.length_map]
  rw [hA, hB, hC, ← sumInts_map_lin3]
  rw [sumInts_map_congr _ _ _ (fun k _ => key_term b hm.registry k)]
  have hr := sumInts_restrict (cutsOfKey b.found) _ hnd b.multi hm.multiNodup ?sub
  · rw [← hr]
    apply sumInts_map_congr
    intro k _
    congr
  · intro k hk
    have h2 : 2 ≤ (holders b k).length := (hm.registry.2 k).mp hk
    cases hf : dGet? b.found k with
    | none => simp [holders, hf] at h2
    | some fnd =>
      obtain ⟨hkey, hin⟩ := hm.foundOK k fnd hf
      rw [← hkey]
      exact List.mem_map_of_mem hin

/-- every multiply-found key contributes at least one cut -/
theorem cutsOfKey_pos (b : Build) (hreg : C01.RegistryInv b) (k : Key) (hk : k ∈ b.multi) : 1 ≤ cutsOfKey b.found k := by
  have h2 : 2 ≤ (holders b k).length := (hreg.2 k).mp hk
  unfold cutsOfKey
  cases hf : dGet? b.found k with
  | none => simp [holders, hf] at h2
  | some fnd =>
    have hh : holders b k = fnd.scaffolds := by simp [holders, hf]
    rw [hh] at h2
    simp only
    omega

/-! ### `add_missing` does not touch the counter -/

theorem addMissing_cuts (input : List Scaffold) (b b' : Build) (h : addMissing input b = .ok b') : b'.cuts = b.cuts := by
  unfold addMissing at h
  refine C01.foldlM_inv (fun x => x.cuts = b.cuts) _ input ?_ b b' rfl h
  intro a sc a' ha hstep
  simp only [bind, Except.bind] at hstep
  split at hstep
  · cases hstep
  · next v hv =>
    obtain ⟨rows, first⟩ := v
    simp only at hstep
    split at hstep
    · simp only [pure, Except.pure, Except.ok.injEq] at hstep
      subst hstep; exact ha
    · split at hstep
      · cases hstep
      · simp only [pure, Except.pure, Except.ok.injEq] at hstep
        subst hstep; exact ha

/-! ### `remap_to_input_assembly` -/

/-- For a well-formed input, whenever `remap_to_input_assembly` returns a build: its cut counter is
    (#fragment rows held by the stored results) + (#fragment rows of the left-over scaffolds) − (#input fragments),
    and it is the sum, over the multiply-found contigs, of (pieces − 1) ≥ 1 each. -/
theorem remapToInput_cuts (input ptx : List Scaffold) (prefix_ : Str) (joinGap : Option Gap) (err : Int) (b : Build)
    (hwf : WFInput input) (h : remapToInput input ptx prefix_ joinGap err = .ok b) :
    b.cuts = ((storeFrags b.store).length : Int) + ((extraFrags b.extra).length : Int) - ((inputFrags input).length : Int) ∧
    0 ≤ b.cuts := by
  obtain ⟨b1, b2, b3, hb1, hb2, hb3, hb4⟩ := C01.remapToInput_chain _ _ _ _ _ _ h
  obtain ⟨hm1, hx1, _, _, hc1⟩ :=
    C01.reg_after_find_aux input ptx (C01.freshBuild input prefix_ joinGap err) b1 ⟨rfl, rfl, rfl⟩ hb1
  have hn1 : b1.nextOid = (C01.freshBuild input prefix_ joinGap err).nextOid := C01.findAssemblyOverlaps_nextOid _ _ _ _ hb1
  obtain ⟨hm2, _, hn2, hx2, _, _, hc2, _⟩ := C01.discardOverhanging_mid input hwf _ b1 b2 hm1 hb2
  have hcuts3 := cutRemaining_cuts b2 b3 hb3
  have hcuts : b.cuts = sumInts (b2.multi.map (cutsOfKey b2.found)) := by
    rw [addMissing_cuts _ _ _ hb4]
    simp only
    rw [hcuts3, hc2, hc1]
    simp [C01.freshBuild]
  have hbelow : ∀ f ∈ inputFrags input, f.oid < (C01.freshBuild input prefix_ joinGap err).nextOid :=
    (C01.foldl_max_oid (input.flatMap Scaffold.fragments) 0).2
  have hn0 : (C01.freshBuild input prefix_ joinGap err).nextOid ≤ b2.nextOid := by rw [hn2, hn1]; exact Nat.le_refl _
  rw [C01.cutRemaining_eq'] at hb3
  simp only [bind, Except.bind] at hb3
  split at hb3
  · cases hb3
  · next bm hbm =>
    simp only [pure, Except.pure, Except.ok.injEq] at hb3
    subst hb3
    obtain ⟨f3, x3, l3⟩ := cutKeys_length input hwf _ hbelow b2 bm hm2 hn0 hbm
    obtain ⟨e1, e2, e3⟩ := C01.addMissing_spec input _ b hb4
    simp only at e1 e2 e3
    have hextra0 : bm.extra = [] := by rw [x3, hx2, hx1]; rfl
    have hS : storeFrags b.store = storeFrags bm.store := by
      rw [e1]; exact C01.storeFrags_of_core _ _ (C01.renameBySize_core _ _)
    have hE : extraFrags b.extra = (inputFrags input).filter (fun f => !dHas b2.found f.keyTuple) := by
      rw [e3, hextra0, f3]; simp [extraFrags]
    constructor
    · rw [hcuts, hS, l3, hE]
      exact mid_count input hwf b2 hm2
    · rw [hcuts]
      apply sumInts_map_nonneg
      intro k hk
      have := cutsOfKey_pos b2 hm2.registry k hk
      omega

/-! ### from the build to the outputs of `remap` -/

theorem remap_split (input ptx : List Scaffold) (prefix_ : Str) (joinGap : Option Gap) (err : Int)
    (outs : List OutAsm) (stats : Stats) (h : remap input ptx prefix_ joinGap err = .ok (outs, stats)) :
    ∃ b, remapToInput input ptx prefix_ joinGap err = .ok b ∧ assembliesFused input b = .ok (outs, stats) := by
  unfold remap at h
  simp only [bind, Except.bind] at h
  split at h
  · cases h
  · next b hb => exact ⟨b, hb, h⟩

/-- the counter reported in the statistics is the build's counter -/
theorem remap_stats_cuts (input : List Scaffold) (b : Build) (outs : List OutAsm) (stats : Stats)
    (h : assembliesFused input b = .ok (outs, stats)) : stats.cuts = b.cuts := by
  obtain ⟨_, _, _, _, hc, _, _⟩ := makeStats_ok input outs b.cuts stats (C07.assembliesFused_stats input b outs stats h)
  exact hc

theorem length_flatMap_keysOf (l : List Scaffold) :
    (l.flatMap (fun s => C01.keysOf s.rows)).length = (l.flatMap Scaffold.fragments).length := by
  induction l with
  | nil => rfl
  | cons s t ih =>
    simp only [List.flatMap_cons, List.length_append, ← ih, C01.keysOf, Scaffold.fragments, List.length_map]

end AgpTpf.C11
