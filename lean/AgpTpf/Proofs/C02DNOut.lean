/-
  C02 (deep cuts, any number of cuts per contig), part 3: `remap_to_input_assembly`, fusing, output.
  (The same steps as `Proofs/C02DOut.lean`, for the store `expectedStoreDeepN`.)
-/
import AgpTpf.Proofs.C02DNCut
namespace AgpTpf.C02
open AgpTpf OverlapResult
open AgpTpf.C08 (NamerPlain dupCheck_ok renameBySize_nil addMissing_eq PlainSc filterMap_map_some junctionSet_ok_of_strands)
open AgpTpf.C09 (Item fuseStep itemOfRes itemOfExtra fuseItems fuseAcc fuseByName_eq)

/-! ### `remap_to_input_assembly` -/

theorem remapToInput_deepN (input ptx : List Scaffold) (prefix_ : Str) (jg : Gap) (err : Int)
    (hd : DeepCutN input ptx err) :
    ∃ b, remapToInput input ptx prefix_ (some jg) err = .ok b ∧
      b.store = expectedStoreDeepN input ptx ∧
      b.extra = expectedExtra (claimedKeys input ptx) jg input ∧
      b.multi = [] ∧ b.cuts = cutsN input ptx ∧ b.joinGap = some jg ∧ b.namer.autosomePrefix = prefix_ := by
  unfold remapToInput
  have hdup := dupCheck_ok input [] hd.base.names (by simp)
  simp only [bind, Except.bind, hdup]
  obtain ⟨b1, e1, hstore, hreg, hplain, hpre, hextra, hcuts, hjg, herr, hoid⟩ :=
    findAssemblyOverlaps_deep input ptx
      { namer := { autosomePrefix := prefix_ }, nextOid := oid0 input, joinGap := some jg, err := err }
      hd.base.lens hd.base.scaffolds ⟨rfl, rfl, rfl⟩
  have hs1 : b1.store = expectedStore input ptx := by simpa using hstore
  have hreg' : (b1.found, b1.multi) = regOf input ptx := hreg
  have hf1 : b1.found = (regOf input ptx).1 := by rw [← hreg']
  have hm1 : b1.multi = sharedKeys input ptx := by unfold sharedKeys; rw [← hreg']
  have e1' : findAssemblyOverlaps input ptx
      { namer := { autosomePrefix := prefix_ },
        nextOid := (input.flatMap Scaffold.fragments).foldl (fun m f => max m (f.oid + 1)) 0,
        joinGap := some jg, err := err } = .ok b1 := e1
  simp only [e1']
  have hdo := discardOverhanging_deepN hd b1 hs1 hf1 hm1 herr (totalRows b1.store + 1)
  have hdo' : discardOverhanging (totalRows b1.store + 2) b1 = .ok b1 := hdo
  simp only [hdo']
  obtain ⟨b3, e3, hstore3, hmulti3, hcuts3, hfound3, hnamer3, hextra3, hjg3, herr3⟩ :=
    cutRemaining_deepN hd b1 hs1 hf1 hm1 hoid
  simp only [e3]
  have hhap : b3.namer.haplotigScaffolds = [] := by rw [hnamer3]; exact hplain.haplotig
  simp only [hhap, renameBySize_nil]
  have hkeys : ∀ k, dHas b3.found k = (claimedKeys input ptx).contains k := by
    intro k; rw [hfound3, hf1]; exact regOf_has input ptx k
  obtain ⟨b4, e4, gextra, gstore, gmulti, gcuts, gjg, gpre⟩ :=
    addMissing_aligned (claimedKeys input ptx) jg input
      { namer := b3.namer, store := b3.store, found := b3.found, multi := b3.multi, extra := b3.extra, cuts := b3.cuts,
        nextOid := b3.nextOid, joinGap := b3.joinGap, err := b3.err } (by rw [hnamer3]; exact hplain)
      (by rw [hjg3]; exact hjg) hkeys hd.base.unclaimed
  rw [addMissing_eq, e4]
  refine ⟨b4, rfl, ?_, ?_, ?_, ?_, ?_, ?_⟩
  · rw [gstore]; exact hstore3
  · rw [gextra]; show b3.extra ++ _ = _; rw [hextra3, hextra]; simp
  · rw [gmulti]; exact hmulti3
  · rw [gcuts]; show b3.cuts = _; rw [hcuts3, hcuts]; simp
  · rw [gjg]; show b3.joinGap = _; rw [hjg3, hjg]
  · rw [gpre]; show b3.namer.autosomePrefix = _; rw [hnamer3, hpre]

/-! ### fusing -/

def storeItemDeepN (input ptx : List Scaffold) (jg : Gap) (S : Scaffold) (q : Fragment × Nat) : Item :=
  { key := (none, none, outName S)
    proto := { name := outName S, tag := none, haplotype := none, rank := 3,
               originalName := some S.name, originalTags := some [] }
    rows := (cutPieceN input ptx q.2 q.1).toScaffoldRows
    add := fun built => Scaffold.appendRows built (cutPieceN input ptx q.2 q.1).toScaffoldRows (some jg) }

theorem itemOfRes_deepN (b : Build) (input ptx : List Scaffold) (jg : Gap) (S : Scaffold) (q : Fragment × Nat)
    (hj : b.joinGap = some jg) (hne : (pieceO input q.1).rows ≠ []) :
    itemOfRes b (resDeepN input (oid0 input) (withOffsets 0 (sitesN input ptx)) ((S, q.1), q.2)) =
      some (storeItemDeepN input ptx jg S q) := by
  unfold itemOfRes resDeepN
  simp only [cutO_labelled]
  have hne' : (cutPieceN input ptx q.2 q.1).rows ≠ [] := cutO_rows_ne _ _ _ hne
  have h1 : (labelled S (cutPieceN input ptx q.2 q.1)).rows.isEmpty = false := by
    show (cutPieceN input ptx q.2 q.1).rows.isEmpty = false
    cases h : (cutPieceN input ptx q.2 q.1).rows <;> simp_all
  split
  · next h =>
    exfalso
    rcases h with h | h
    · exact h trivial
    · exact Bool.noConfusion (h1.symm.trans h)
  · rw [hj]; rfl

def NoClashDeepN (input ptx : List Scaffold) (jg : Gap) : Prop :=
  ((expectedScaffoldsDeepN input ptx jg).map (·.name)).Nodup

def groupOfGN (input ptx : List Scaffold) (jg : Gap) (g : Scaffold × List (Fragment × Nat)) : Group :=
  ((none, none, outName g.1),
   { name := outName g.1, tag := none, haplotype := none, rank := 3, originalName := some g.1.name,
     originalTags := some [] },
   g.2.map (storeItemDeepN input ptx jg g.1))

theorem groupOfGN_scaffold (input ptx : List Scaffold) (jg : Gap) (g : Scaffold × List (Fragment × Nat)) :
    (groupOfGN input ptx jg g).scaffold = pretextOutDeepN input ptx jg g := by
  simp only [Group.scaffold, groupOfGN, pretextOutDeepN, expectedRowsDeepN, storeItemDeepN, List.foldl_map]

theorem fuseByName_deepN (input ptx : List Scaffold) (jg : Gap) (err : Int) (hd : DeepCutN input ptx err)
    (hnc : NoClashDeepN input ptx jg) (b : Build) (hj : b.joinGap = some jg)
    (hstore : b.store = expectedStoreDeepN input ptx)
    (hextra : b.extra = expectedExtra (claimedKeys input ptx) jg input) :
    fuseByName b = expectedScaffoldsDeepN input ptx jg := by
  have hrowsne : ∀ g ∈ groupsFrom 0 ptx, ∀ q ∈ g.2, (pieceO input q.1).rows ≠ [] := by
    intro g hg q hq
    obtain ⟨hS, m, hm⟩ := groupsFrom_mem hg
    rw [hm] at hq
    obtain ⟨q1, q2⟩ := q
    have hp : q1 ∈ g.1.fragments := by
      have := (List.mem_zipIdx hq).2.2
      rw [this]; exact List.getElem_mem _
    exact (pieceFacts input q1 hd.base.lens hd.base.oids ((hd.base.scaffolds _ hS).pieces q1 hp).found).ne
  rw [fuseByName_eq]
  unfold fuseAcc fuseItems
  rw [hstore, hextra]
  have e1 : (expectedStoreDeepN input ptx).filterMap (itemOfRes b) =
      ((groupsFrom 0 ptx).map (groupOfGN input ptx jg)).flatMap (·.2.2) := by
    unfold expectedStoreDeepN storeDeepN
    rw [allPieces_zipIdx, List.map_flatMap, List.filterMap_flatMap, List.flatMap_map]
    apply flatMap_congr'
    intro g hg
    rw [List.map_map]
    exact filterMap_map_some _ _ _ _ (fun q hq => itemOfRes_deepN b input ptx jg g.1 q hj (hrowsne g hg q hq))
  have e2 : (expectedExtra (claimedKeys input ptx) jg input).filterMap (itemOfExtra b) =
      ((expectedExtra (claimedKeys input ptx) jg input).map (groupOfE jg)).flatMap (·.2.2) := by
    rw [List.flatMap_map]
    have h := filterMap_map_some (fun e => e) (itemOfExtra b) (extraItem jg) (expectedExtra (claimedKeys input ptx) jg input)
      (fun e he => by
        obtain ⟨sc, -, hsc⟩ := expectedExtra_mem he
        exact itemOfExtra_entry b jg e hj (leftoverEntry_fields hsc).2.2.1)
    rw [List.map_id'] at h
    rw [h]
    show _ = (expectedExtra (claimedKeys input ptx) jg input).flatMap (fun e => [extraItem jg e])
    generalize expectedExtra (claimedKeys input ptx) jg input = l
    induction l with
    | nil => rfl
    | cons a r ih => simp [ih]
  rw [e1, e2, ← List.flatMap_append]
  rw [foldl_fuseStep_groups _ []]
  · simp only [List.nil_append, List.map_append, List.map_map, expectedScaffoldsDeepN]
    congr 1
    · apply List.map_congr_left
      intro g _
      exact groupOfGN_scaffold input ptx jg g
  · intro g hg
    rcases List.mem_append.1 hg with h | h
    · obtain ⟨g0, hg0, rfl⟩ := List.mem_map.1 h
      obtain ⟨hS, m, hm⟩ := groupsFrom_mem hg0
      obtain ⟨f0, r0, hrows⟩ := (hd.base.scaffolds _ hS).head
      refine ⟨?_, ?_⟩
      · show g0.2.map (storeItemDeepN input ptx jg g0.1) ≠ []
        rw [hm]
        simp [Scaffold.fragments, hrows, fragmentsOf]
      · intro it hit
        obtain ⟨p, -, rfl⟩ := List.mem_map.1 hit
        exact ⟨rfl, rfl⟩
    · obtain ⟨e, -, rfl⟩ := List.mem_map.1 h
      refine ⟨by simp [groupOfE], ?_⟩
      intro it hit
      simp only [groupOfE, List.mem_singleton] at hit
      subst hit
      exact ⟨rfl, rfl⟩
  · have hkeys : ((groupsFrom 0 ptx).map (groupOfGN input ptx jg) ++
          (expectedExtra (claimedKeys input ptx) jg input).map (groupOfE jg)).map (·.1) =
        ((expectedScaffoldsDeepN input ptx jg).map (·.name)).map (fun n => ((none : Option Str), (none : Option Str), n)) := by
      simp only [List.map_append, List.map_map, expectedScaffoldsDeepN]
      congr 1
      apply List.map_congr_left
      intro e he
      obtain ⟨sc, -, hsc⟩ := expectedExtra_mem he
      obtain ⟨-, -, -, h4, h5, -⟩ := leftoverEntry_fields hsc
      simp [Function.comp, groupOfE, h4, h5]
    rw [hkeys]
    exact List.Pairwise.map _ (fun a b h e => h (by simpa using e)) hnc
  · intro g _; simp

/-! ### the output assemblies -/

theorem expectedScaffoldsDeepN_plain (input ptx : List Scaffold) (jg : Gap) :
    ∀ s ∈ expectedScaffoldsDeepN input ptx jg, PlainSc s := by
  intro s hs
  unfold expectedScaffoldsDeepN at hs
  rcases List.mem_append.1 hs with h | h
  · obtain ⟨g, -, rfl⟩ := List.mem_map.1 h; exact ⟨rfl, rfl, rfl⟩
  · obtain ⟨e, he, rfl⟩ := List.mem_map.1 h
    obtain ⟨sc, -, hsc⟩ := expectedExtra_mem he
    obtain ⟨-, -, -, h4, h5, h6⟩ := leftoverEntry_fields hsc
    exact ⟨h4, h5, h6⟩

theorem expectedScaffoldsDeepN_junctions (input ptx : List Scaffold) (jg : Gap) (err : Int) (hd : DeepCutN input ptx err)
    (hstr : ∀ sc ∈ input, ∀ f ∈ sc.fragments, f.strand = 1 ∨ f.strand = -1) :
    ∀ s ∈ expectedScaffoldsDeepN input ptx jg, ∃ J, s.junctionSet = .ok J := by
  intro s hs
  apply junctionSet_ok_of_strands
  unfold expectedScaffoldsDeepN at hs
  rcases List.mem_append.1 hs with h | h
  · obtain ⟨g, hg, rfl⟩ := List.mem_map.1 h
    obtain ⟨hS, m, hm⟩ := groupsFrom_mem hg
    show StrandsOk (expectedRowsDeepN input ptx jg g.2)
    unfold expectedRowsDeepN
    have := foldl_appendRows_strands jg (g.2.map (fun q => (cutPieceN input ptx q.2 q.1).toScaffoldRows)) [] ?_
      (by intro f hf; simp [fragmentsOf] at hf)
    · rwa [List.foldl_map] at this
    · intro r hr
      obtain ⟨q, hq, rfl⟩ := List.mem_map.1 hr
      apply toScaffoldRows_strandsOk
      apply cutO_strands
      rw [hm] at hq
      obtain ⟨q1, q2⟩ := q
      have hp : q1 ∈ g.1.fragments := by
        have := (List.mem_zipIdx hq).2.2
        rw [this]; exact List.getElem_mem _
      obtain ⟨sc, hsc, hinf⟩ := (pieceFacts input q1 hd.base.lens hd.base.oids ((hd.base.scaffolds _ hS).pieces q1 hp).found).slice
      intro f hf
      exact hstr sc hsc f (C01.fragmentsOf_infix hinf f hf)
  · obtain ⟨e, he, rfl⟩ := List.mem_map.1 h
    obtain ⟨sc, hsc, hle⟩ := expectedExtra_mem he
    obtain ⟨-, hrows, -⟩ := leftoverEntry_fields hle
    intro f hf
    rw [Scaffold.fragments, hrows, (leftover_spec _ jg sc.rows).1, List.mem_filter] at hf
    exact hstr sc hsc f hf.1

/-- **the whole remap of a deep-cut map** -/
theorem remap_deepN (input ptx : List Scaffold) (prefix_ : Str) (jg : Gap) (err : Int)
    (hd : DeepCutN input ptx err) (hnc : NoClashDeepN input ptx jg)
    (hstr : ∀ sc ∈ input, ∀ f ∈ sc.fragments, f.strand = 1 ∨ f.strand = -1) :
    ∃ stats, remap input ptx prefix_ (some jg) err = .ok (primaryOnly (expectedScaffoldsDeepN input ptx jg), stats) ∧
      stats.cuts = cutsN input ptx := by
  obtain ⟨b, hb, hstore, hextra, -, hcuts, hjg, -⟩ := remapToInput_deepN input ptx prefix_ jg err hd
  have hfs := fuseByName_deepN input ptx jg err hd hnc b hjg hstore hextra
  obtain ⟨st, hst, hc⟩ := assembliesFused_plain input b _ hfs (expectedScaffoldsDeepN_plain input ptx jg)
    (fun sc hsc => junctionSet_ok_of_strands sc (hstr sc hsc))
    (expectedScaffoldsDeepN_junctions input ptx jg err hd hstr)
  refine ⟨st, ?_, by rw [hc, hcuts]⟩
  unfold remap
  simp only [hb, bind, Except.bind, hst]

end AgpTpf.C02
