/-
  The FASTA indexer (`FastaIndex.index_fasta_file`, fasta/index.py; model `indexFasta`): memory bound of the
  sequence buffer — helper for C13.
-/
import AgpTpf.Model.Fasta
namespace AgpTpf.IndexProofs
open AgpTpf
universe u

theorem storeInfo_buf (st0 st' : IdxState) (h : storeInfo st0 = .ok st') :
    st'.buffer = [] ∧ st'.maxBuffered = st0.maxBuffered := by
  unfold storeInfo at h
  simp only [bind, Except.bind, pure, Except.pure, throw, throwThe, MonadExceptOf.throw] at h
  split at h
  · cases h
  · cases h
    simp [processSeqBuffer]

/-- the part of a sequence line that is kept (line terminator sliced off) is no longer than the line -/
theorem keep_le (line : Bytes) (k : Nat) :
    (if line.getLast? = some 10 then line.take (line.length - k) else line).length ≤ line.length := by
  split
  · simp only [List.length_take]; omega
  · exact Nat.le_refl _

/-- invariant of the line loop: after every line the buffer holds at most `bs` residues, and it never held more
    than `bs` plus one line. -/
def BufInv (bs : Int) (m : Nat) (st : IdxState) : Prop :=
  (st.buffer.length : Int) ≤ bs ∧ st.maxBuffered ≤ bs.toNat + m

theorem bind_ok {α : Type u} {β : Type} {x : Except Err α} {f : α → R β} {b : β} (h : Except.bind x f = .ok b) :
    ∃ a, x = .ok a ∧ f a = .ok b := by
  cases x with
  | error e => cases h
  | ok a => exact ⟨a, rfl, h⟩

theorem ite_throw_ok {β : Type} {c : Prop} [Decidable c] {e : Err} {y : R β} {b : β}
    (h : (if c then Except.error e else y) = .ok b) : ¬ c ∧ y = .ok b := by
  split at h
  · cases h
  · exact ⟨‹_›, h⟩

/-! ### `indexLine` as a composition of its parts -/

def bumpPos (a : IdxState) (n : Nat) : IdxState := { a with pos := a.pos + n }
def resetHdr (v : IdxState) (name : Str) (b2 : Nat) : IdxState :=
  { v with name := some name, seqLength := 0, rpl := some 0, regionStart := 0, regionEnd := none,
           seqRegions := [], fileOffset := v.pos, lineEndBytes := if b2 = 13 then 2 else 1 }
/-- a header line after the previous record was stored: token, name, line ending -/
def hdrTail (line : Bytes) (v : IdxState) : R IdxState := do
  let tok := ((line.drop 1).dropWhile isBSpace).takeWhile (fun b => !isBSpace b)
  if tok.isEmpty then throw .index
  let name ← bytesToStr tok
  let b2 ← pyGet line (-2)
  pure (resetHdr v name b2)
def keepOf (leb : Int) (line : Bytes) : Bytes :=
  if line.getLast? = some 10 then line.take (line.length - leb.toNat) else line
def setRpl (a : IdxState) (r : Int) (k : Nat) : IdxState := if r = 0 then { a with rpl := some (k : Int) } else a
/-- the `residues_per_line` bookkeeping of a sequence line (`rpl = none`: no header seen yet) -/
def rplStep (s : IdxState) (rpl : Option Int) (line keep : Bytes) : R IdxState :=
  match rpl with
  | none => if line.getLast? = some 10 then .error .type else .ok { s with rpl := some (keep.length : Int) }
  | some r => .ok (setRpl s r keep.length)
def withBuf (a : IdxState) (keep : Bytes) : IdxState := { a with buffer := a.buffer ++ keep }
/-- append to the buffer, record its size, flush when it exceeds `bs` (TypeError before any header) -/
def addBufM (bs : Int) (a : IdxState) (keep : Bytes) : R IdxState :=
  let st := withBuf a keep
  let st := { st with maxBuffered := max st.maxBuffered st.buffer.length }
  if (st.buffer.length : Int) > bs then
    if st.name.isNone then .error .type else .ok (processSeqBuffer st)
  else .ok st

theorem addBufM_eq (bs : Int) (a : IdxState) (keep : Bytes) :
    addBufM bs a keep =
      if ((a.buffer ++ keep).length : Int) > bs then
        (if a.name.isNone then .error .type
         else .ok (processSeqBuffer { a with buffer := a.buffer ++ keep,
                                             maxBuffered := max a.maxBuffered (a.buffer ++ keep).length }))
      else .ok { a with buffer := a.buffer ++ keep, maxBuffered := max a.maxBuffered (a.buffer ++ keep).length } := rfl

theorem indexLine_eq (bs : Int) (a : IdxState) (line : Bytes) :
    indexLine bs a line =
      (pyGet line 0).bind fun b0 =>
        if b0 = 62 then
          (if a.name.isSome then storeInfo (bumpPos a line.length) else .ok (bumpPos a line.length)).bind (hdrTail line)
        else
          (rplStep (bumpPos a line.length) a.rpl line (keepOf a.lineEndBytes line)).bind
            (fun s => addBufM bs s (keepOf a.lineEndBytes line)) := by
  unfold indexLine
  simp only [bind, pure, Except.pure, throw, throwThe, MonadExceptOf.throw]
  cases pyGet line 0 with
  | error e => rfl
  | ok b0 =>
    simp only [Except.bind]
    split
    · split <;> rfl
    · cases hr : a.rpl with
      | none =>
        by_cases hl : line.getLast? = some 10
        · simp only [rplStep, hl, if_true]
        · simp only [rplStep, hl, if_false, addBufM, withBuf, bumpPos, keepOf, hr]
      | some r =>
        by_cases h0 : r = 0
        · simp only [rplStep, setRpl, h0, if_true, addBufM, withBuf, bumpPos, keepOf, hr]
          rfl
        · simp only [rplStep, setRpl, h0, if_false, addBufM, withBuf, bumpPos, keepOf, hr]
          rfl

theorem hdrTail_buf (line : Bytes) (v st' : IdxState) (h : hdrTail line v = .ok st') :
    st'.buffer = v.buffer ∧ st'.maxBuffered = v.maxBuffered := by
  unfold hdrTail at h
  simp only [bind, pure, Except.pure, throw, throwThe, MonadExceptOf.throw] at h
  split at h
  · obtain ⟨_, hx, _⟩ := bind_ok h
    cases hx
  · obtain ⟨nm, _, h⟩ := bind_ok h
    obtain ⟨b2, _, h⟩ := bind_ok h
    cases h
    exact ⟨rfl, rfl⟩

theorem rplStep_buf (s s' : IdxState) (rpl : Option Int) (line keep : Bytes) (h : rplStep s rpl line keep = .ok s') :
    s'.buffer = s.buffer ∧ s'.maxBuffered = s.maxBuffered ∧ s'.name = s.name := by
  unfold rplStep at h
  split at h
  · split at h
    · cases h
    · cases h; exact ⟨rfl, rfl, rfl⟩
  · cases h
    unfold setRpl
    split <;> exact ⟨rfl, rfl, rfl⟩

theorem indexLine_inv (bs : Int) (hbs : 0 ≤ bs) (m : Nat) (st st' : IdxState) (line : Bytes) (hl : line.length ≤ m)
    (hI : BufInv bs m st) (h : indexLine bs st line = .ok st') : BufInv bs m st' := by
  obtain ⟨hI1, hI2⟩ := hI
  rw [indexLine_eq] at h
  obtain ⟨b0, hp, h⟩ := bind_ok h
  split at h
  · obtain ⟨v, hs, h⟩ := bind_ok h
    have ⟨h1, h2⟩ := hdrTail_buf line v st' h
    split at hs
    · have ⟨hv1, hv2⟩ := storeInfo_buf _ _ hs
      simp only [BufInv, h1, h2, hv1, hv2, List.length_nil]
      exact ⟨by omega, hI2⟩
    · cases hs
      simp only [BufInv, h1, h2]
      exact ⟨hI1, hI2⟩
  · obtain ⟨v, hs, h⟩ := bind_ok h
    have hk : (keepOf st.lineEndBytes line).length ≤ line.length := keep_le line st.lineEndBytes.toNat
    generalize keepOf st.lineEndBytes line = keep at *
    have ⟨hv1, hv2, _⟩ := rplStep_buf _ _ _ _ _ hs
    have hb : v.buffer = st.buffer := hv1
    have hm' : v.maxBuffered = st.maxBuffered := hv2
    rw [addBufM_eq] at h
    by_cases hgt : ((v.buffer ++ keep).length : Int) > bs
    · rw [if_pos hgt] at h
      by_cases hn : v.name.isNone = true
      · rw [if_pos hn] at h; cases h
      · rw [if_neg hn] at h
        cases h
        simp only [BufInv, processSeqBuffer, List.length_nil, List.length_append, hb, hm']
        constructor <;> omega
    · rw [if_neg hgt] at h
      cases h
      simp only [BufInv, List.length_append, hb, hm'] at hgt ⊢
      constructor <;> omega

theorem foldlM_inv {σ α : Type} (I : σ → Prop) (f : σ → α → R σ) :
    ∀ (l : List α) (s s' : σ), (∀ x ∈ l, ∀ a b, I a → f a x = .ok b → I b) → I s → l.foldlM f s = .ok s' → I s'
  | [], s, s', _, hs, h => by
    simp only [List.foldlM_nil, pure, Except.pure] at h
    cases h; exact hs
  | x :: l, s, s', hf, hs, h => by
    simp only [List.foldlM_cons, bind, Except.bind] at h
    cases hx : f s x with
    | error e => rw [hx] at h; cases h
    | ok s1 =>
      rw [hx] at h
      exact foldlM_inv I f l s1 s' (fun y hy => hf y (by simp [hy])) (hf x (by simp) s s1 hs hx) h

/-- While indexing with buffer size `bs ≥ 0` a file whose lines (as read in binary mode, terminator included) are at
    most `m` bytes long, the sequence buffer never holds more than `bs + m` residues. -/
theorem indexFasta_maxBuffered (lines : List Bytes) (bs : Int) (hbs : 0 ≤ bs) (m : Nat)
    (hm : ∀ l ∈ lines, l.length ≤ m) (st : IdxState) (h : indexFasta lines bs = .ok st) :
    st.maxBuffered ≤ bs.toNat + m := by
  unfold indexFasta at h
  simp only [bind, pure, Except.pure, throw, throwThe, MonadExceptOf.throw] at h
  obtain ⟨s1, hf, h⟩ := bind_ok h
  have hi : BufInv bs m s1 :=
    foldlM_inv (BufInv bs m) (indexLine bs) lines {} s1
      (fun x hx a b ha hab => indexLine_inv bs hbs m a b x (hm x hx) ha hab)
      ⟨by simpa using hbs, by simp⟩ hf
  split at h
  · obtain ⟨s2, hs, h⟩ := bind_ok h
    obtain ⟨_, h⟩ := ite_throw_ok h
    cases h
    rw [(storeInfo_buf _ _ hs).2]; exact hi.2
  · obtain ⟨s2, hs, h⟩ := bind_ok h
    cases hs
    obtain ⟨_, h⟩ := ite_throw_ok h
    cases h
    exact hi.2

end AgpTpf.IndexProofs
