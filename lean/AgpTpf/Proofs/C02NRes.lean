/-
  C02 "remapping never fails" (task W7-C02NOERR), helper part 9: THE OVERHANG RESOLVER NEVER RAISES.
  Every operation of a resolver round succeeds on a non-empty result; under the registry invariant `Mid` every premise
  points at a non-empty result for as long as it is pending (`FInv.valid`), and the bookkeeping finds the holder it
  removes.
-/
import AgpTpf.Proofs.C02NSeq
namespace AgpTpf.C02
open AgpTpf OverlapResult
open AgpTpf.C01 (WFInput Mid FInv Valid holders)

/-! ### single operations on a non-empty result -/

theorem baitOverlap_ok {p : Premise} {store : List Res} (h : (getRes store p.sid).rows ≠ []) :
    ∃ v, p.baitOverlap store = .ok v := by
  unfold Premise.baitOverlap
  cases p.kind with
  | start =>
    simp only [startRowBaitOverlap]
    cases hr : (getRes store p.sid).rows with
    | nil => exact absurd hr h
    | cons x t => rw [C18.pyGet_zero_cons]; exact ⟨_, rfl⟩
  | stop =>
    simp only [endRowBaitOverlap]
    rcases C18.list_nil_or_concat (getRes store p.sid).rows with hr | ⟨t, x, hr⟩
    · exact absurd hr h
    · rw [hr, C18.pyGet_neg_one_concat]; exact ⟨_, rfl⟩

theorem apply_ok {p : Premise} {store : List Res} (h : (getRes store p.sid).rows ≠ []) :
    ∃ s, p.apply store = .ok s := by
  unfold Premise.apply
  have e : (store.getD p.sid default).o = getRes store p.sid := rfl
  cases p.kind with
  | start =>
    simp only [e, discardStart]
    cases hr : (getRes store p.sid).rows with
    | nil => exact absurd hr h
    | cons x t => exact ⟨_, rfl⟩
  | stop =>
    simp only [e, discardEnd]
    cases hr : (getRes store p.sid).rows.reverse with
    | nil => exact absurd (List.reverse_eq_nil_iff.mp hr) h
    | cons x t => exact ⟨_, rfl⟩

theorem delta_ok' {p : Premise} {store : List Res} (h : (getRes store p.sid).rows ≠ []) :
    ∃ d, p.delta store = .ok d := by
  obtain ⟨a, ha⟩ := improves_ok_of_rows h
  exact ⟨_, delta_eq ha⟩

theorem improves_ok {p : Premise} {store : List Res} {err : Int} (h : (getRes store p.sid).rows ≠ []) :
    ∃ v, p.improves store err = .ok v := by
  obtain ⟨a, _, hv⟩ := improves_value (err := err) h
  exact ⟨_, hv⟩

theorem mapM_ok_of_forall' {α β} (g : α → R β) : ∀ (l : List α), (∀ a ∈ l, ∃ v, g a = .ok v) → ∃ vs, l.mapM g = .ok vs
  | [], _ => ⟨[], rfl⟩
  | a :: t, h => by
    obtain ⟨v, hv⟩ := h a (by simp)
    obtain ⟨vs, hvs⟩ := mapM_ok_of_forall' g t (fun x hx => h x (by simp [hx]))
    exact ⟨v :: vs, by simp only [List.mapM_cons, hv, hvs, bind, Except.bind, pure, Except.pure]⟩

theorem sortPrems_ok {store : List Res} {ps : List Premise} (h : ∀ p ∈ ps, (getRes store p.sid).rows ≠ []) :
    ∃ sorted, sortPremsByDelta store ps = .ok sorted := by
  unfold sortPremsByDelta
  obtain ⟨keyed, hk⟩ := mapM_ok_of_forall' (fun p : Premise => do let d ← p.delta store; pure (d, p)) ps (by
    intro p hp
    obtain ⟨d, hd⟩ := delta_ok' (h p hp)
    exact ⟨(d, p), by simp only [hd, bind, Except.bind, pure, Except.pure]⟩)
  simp only [bind, Except.bind, pure, Except.pure] at hk ⊢
  rw [hk]
  exact ⟨_, rfl⟩

/-- **one premise list of `make_fixes` never raises** when all its premises point at non-empty results -/
theorem fixOne_ok {err : Int} {store : List Res} {fixes ps : List Premise}
    (h : ∀ p ∈ ps, (getRes store p.sid).rows ≠ []) : ∃ st', fixOne err (store, fixes) ps = .ok st' := by
  rw [C01.fixOne_eq]
  have hrest : ∃ st', C01.fixRest err store fixes ps = .ok st' := by
    unfold C01.fixRest
    split
    · obtain ⟨sorted, hs⟩ := sortPrems_ok h
      have hmem := C01.sortPrems_mem store ps sorted hs
      simp only [hs, bind, Except.bind]
      split
      · next bst nxt t =>
        obtain ⟨v1, h1⟩ := improves_ok (err := err) (h bst (hmem bst (by simp)))
        obtain ⟨v2, h2⟩ := improves_ok (err := err) (h nxt (hmem nxt (by simp)))
        obtain ⟨s, hs'⟩ := apply_ok (h bst (hmem bst (by simp)))
        simp only [h1, h2]
        cases v1 <;> cases v2 <;> simp [hs', pure, Except.pure]
      · exact ⟨_, rfl⟩
    · exact ⟨_, rfl⟩
  have htwo : ∃ two, C01.fixTwo err store fixes ps = .ok two := by
    unfold C01.fixTwo
    split
    · next frst scnd =>
      obtain ⟨fo, hfo⟩ := baitOverlap_ok (h frst (by simp))
      obtain ⟨so, hso⟩ := baitOverlap_ok (h scnd (by simp))
      obtain ⟨s1, hs1⟩ := apply_ok (h frst (by simp))
      obtain ⟨s2, hs2⟩ := apply_ok (h scnd (by simp))
      simp only [hfo, hso, hs1, hs2, bind, Except.bind, pure, Except.pure]
      by_cases c1 : fo < err
      · by_cases c2 : so < err
        · by_cases c3 : fo < so
          · simp [c1, c2, c3]
          · simp [c1, c2, c3]
        · simp [c1, c2]
      · simp [c1]
    · exact ⟨_, rfl⟩
  obtain ⟨two, htwo⟩ := htwo
  simp only [htwo, bind, Except.bind]
  cases two with
  | some r => exact ⟨r, rfl⟩
  | none => exact hrest

theorem valid_rows_ne {store : List Res} {p : Premise} (h : Valid store p) : (getRes store p.sid).rows ≠ [] := by
  obtain ⟨r, hr, _, hk⟩ := h
  have : getRes store p.sid = r.o := by unfold getRes; rw [C01.getD_of_getElem? hr]
  rw [this]
  intro e
  rw [e] at hk
  cases hkind : p.kind <;> rw [hkind] at hk <;> simp at hk

/-- **the `make_fixes` loop never raises** -/
theorem fixFold_ok (input : List Scaffold) (b : Build) (err : Int) :
    ∀ (rest : List (Key × List Premise)) (store : List Res) (fixes : List Premise),
      FInv input b rest store fixes →
      ∃ st', rest.foldlM (fun st e => fixOne err st e.2) (store, fixes) = .ok st' ∧ FInv input b [] st'.1 st'.2
  | [], store, fixes, hF => ⟨(store, fixes), rfl, hF⟩
  | e :: rest, store, fixes, hF => by
    obtain ⟨st1, h1⟩ := fixOne_ok (err := err) (store := store) (fixes := fixes) (ps := e.2)
      (fun p hp => valid_rows_ne (hF.valid e (List.mem_cons_self ..) p hp).1)
    obtain ⟨store1, fixes1⟩ := st1
    have hF1 := finv_step input b err e rest store fixes store1 fixes1 hF h1
    obtain ⟨st', h2, hF'⟩ := fixFold_ok input b err rest store1 fixes1 hF1
    exact ⟨st', by rw [List.foldlM_cons]; simp only [h1, bind, Except.bind]; exact h2, hF'⟩

/-! ### collecting the premises -/

theorem foldlM_ok_of_forall {α β} (f : β → α → R β) : ∀ (l : List α), (∀ a, ∀ x ∈ l, ∃ a', f a x = .ok a') →
    ∀ a0, ∃ a', l.foldlM f a0 = .ok a'
  | [], _, a0 => ⟨a0, rfl⟩
  | x :: t, h, a0 => by
    obtain ⟨a1, h1⟩ := h a0 x (by simp)
    obtain ⟨a', h'⟩ := foldlM_ok_of_forall f t (fun a y hy => h a y (by simp [hy])) a1
    exact ⟨a', by rw [List.foldlM_cons]; simp only [h1, bind, Except.bind]; exact h'⟩

theorem addPremise_total {store : List Res} {f : Fragment} {sid : Nat} (h : (getRes store sid).rows ≠ [])
    (prems : List (Key × List Premise)) : ∃ prems', addPremise store prems f sid = .ok prems' := by
  unfold addPremise
  obtain ⟨a, ha⟩ := firstIs_ok_of_ne f h
  obtain ⟨c, hc⟩ := lastIs_ok_of_ne f h
  simp only [ha, hc, bind, Except.bind, pure, Except.pure]
  cases a <;> cases c <;> exact ⟨_, rfl⟩

theorem holder_rows_ne {input : List Scaffold} {b : Build} (hm : Mid input b) {k : Key} {sid : Nat}
    (h : sid ∈ holders b k) : (getRes b.store sid).rows ≠ [] := by
  have hpos := List.count_pos_iff.mpr h
  rw [hm.counts] at hpos
  unfold C01.holdCount at hpos
  cases hs : b.store[sid]? with
  | none => rw [hs] at hpos; simp at hpos
  | some r =>
    rw [hs] at hpos
    simp only at hpos
    have : getRes b.store sid = r.o := by unfold getRes; rw [C01.getD_of_getElem? hs]
    rw [this]
    intro e
    unfold C01.resFrags at hpos
    rw [e] at hpos
    split at hpos <;> simp [fragmentsOf] at hpos

theorem collectPremises_total {input : List Scaffold} {b : Build} (hm : Mid input b) :
    ∃ prems, C01.collectPremises b = .ok prems := by
  unfold C01.collectPremises
  apply foldlM_ok_of_forall
  intro prems k _
  cases hf : dGet? b.found k with
  | none => exact ⟨prems, rfl⟩
  | some fnd =>
    simp only
    apply foldlM_ok_of_forall
    intro pr sid hsid
    have hh : holders b k = fnd.scaffolds := by unfold holders; rw [hf]
    exact addPremise_total (holder_rows_ne hm (k := k) (by rw [hh]; exact hsid)) pr

/-! ### the bookkeeping -/

theorem removeFirst_of_mem : ∀ (l : List Nat) (x : Nat), x ∈ l → ∃ rest, removeFirst l x = some rest
  | [], x, h => by cases h
  | y :: r, x, h => by
    unfold removeFirst
    by_cases e : y = x
    · exact ⟨r, by rw [if_pos e]⟩
    · have hx : x ∈ r := by
        rcases List.mem_cons.mp h with e' | h'
        · exact absurd e'.symm e
        · exact h'
      obtain ⟨rest, hr⟩ := removeFirst_of_mem r x hx
      exact ⟨y :: rest, by rw [if_neg e, hr]; rfl⟩

/-- the bookkeeping never raises when every fix names a holder of its key and no two fixes share a key -/
theorem bookkeeping_ok (found0 : List (Key × Found)) :
    ∀ (fixes : List Premise) (bc : Build),
      (fixes.map (fun p => p.fragment.keyTuple)).Nodup →
      (∀ p ∈ fixes, dGet? bc.found p.fragment.keyTuple = dGet? found0 p.fragment.keyTuple) →
      (∀ p ∈ fixes, ∀ fnd, dGet? found0 p.fragment.keyTuple = some fnd → p.sid ∈ fnd.scaffolds) →
      ∃ b', fixes.foldlM applyFixBookkeeping bc = .ok b'
  | [], bc, _, _, _ => ⟨bc, rfl⟩
  | p :: t, bc, hnd, hsame, hmem => by
    rw [List.map_cons, List.nodup_cons] at hnd
    have hstep : ∃ bc1, applyFixBookkeeping bc p = .ok bc1 ∧
        ∀ q ∈ t, dGet? bc1.found q.fragment.keyTuple = dGet? found0 q.fragment.keyTuple := by
      unfold applyFixBookkeeping
      simp only
      split
      · cases hf : dGet? bc.found p.fragment.keyTuple with
        | none => exact ⟨bc, rfl, fun q hq => hsame q (by simp [hq])⟩
        | some fnd =>
          simp only
          have hf0 : dGet? found0 p.fragment.keyTuple = some fnd := by rw [← hsame p (by simp)]; exact hf
          obtain ⟨rest, hr⟩ := removeFirst_of_mem _ _ (hmem p (by simp) fnd hf0)
          rw [hr]
          simp only
          refine ⟨_, rfl, ?_⟩
          intro q hq
          have hne : p.fragment.keyTuple ≠ q.fragment.keyTuple := by
            intro e
            exact hnd.1 (by rw [e]; exact List.mem_map_of_mem (f := fun p : Premise => p.fragment.keyTuple) hq)
          have hq' := hsame q (by simp [hq])
          split
          · simp only [C01.dGet?_dSet_other _ _ _ _ hne]; exact hq'
          · simp only [C01.dGet?_dSet_other _ _ _ _ hne]; exact hq'
      · exact ⟨bc, rfl, fun q hq => hsame q (by simp [hq])⟩
    obtain ⟨bc1, h1, hs1⟩ := hstep
    obtain ⟨b', h'⟩ := bookkeeping_ok found0 t bc1 hnd.2 hs1 (fun q hq => hmem q (by simp [hq]))
    exact ⟨b', by rw [List.foldlM_cons]; simp only [h1, bind, Except.bind]; exact h'⟩

/-! ### one round, and the row count -/

theorem sum_foldl_add (l : List Nat) (a : Nat) : l.foldl (· + ·) a = a + l.foldl (· + ·) 0 := by
  induction l generalizing a with
  | nil => simp
  | cons x t ih => rw [List.foldl_cons, ih, List.foldl_cons, ih (0 + x)]; omega

theorem totalRows_cons (r : Res) (t : List Res) : totalRows (r :: t) = r.o.rows.length + totalRows t := by
  unfold totalRows
  rw [List.map_cons, List.foldl_cons, sum_foldl_add]; omega

theorem totalRows_set : ∀ (store : List Res) (i : Nat) (r x : Res), store[i]? = some r →
    totalRows (store.set i x) + r.o.rows.length = totalRows store + x.o.rows.length
  | [], i, r, x, h => by simp at h
  | y :: t, 0, r, x, h => by
    simp only [List.getElem?_cons_zero, Option.some.injEq] at h
    subst h
    rw [List.set_cons_zero, totalRows_cons, totalRows_cons]; omega
  | y :: t, i + 1, r, x, h => by
    simp only [List.getElem?_cons_succ] at h
    have := totalRows_set t i r x h
    rw [List.set_cons_succ, totalRows_cons, totalRows_cons]; omega

/-- applying a valid premise removes at least one row -/
theorem apply_fewer_rows {store store1 : List Res} {p : Premise} (hv : Valid store p) (happ : p.apply store = .ok store1) :
    totalRows store1 < totalRows store := by
  obtain ⟨r, hr, _, _⟩ := hv
  have hgetD : store.getD p.sid default = r := C01.getD_of_getElem? hr
  have hgetRes : getRes store p.sid = r.o := by unfold getRes; rw [hgetD]
  obtain ⟨_, _, o', hdisc, hset⟩ := apply_only_touches happ
  rw [hgetRes] at hdisc
  rw [hgetD] at hset
  have hlt : o'.rows.length < r.o.rows.length := by
    cases hkind : p.kind with
    | start =>
      rw [hkind] at hdisc
      obtain ⟨d, G, hrows, _⟩ := discardStart_full hdisc
      rw [hrows]; simp; omega
    | stop =>
      rw [hkind] at hdisc
      obtain ⟨d, G, hrows, _⟩ := discardEnd_full hdisc
      rw [hrows]; simp
  have := totalRows_set store p.sid r { r with o := o' } hr
  rw [hset]
  dsimp only at this ⊢
  omega

theorem fixFold_rows (input : List Scaffold) (b : Build) (err : Int) :
    ∀ (rest : List (Key × List Premise)) (store : List Res) (fixes : List Premise) (st' : List Res × List Premise),
      FInv input b rest store fixes →
      rest.foldlM (fun st e => fixOne err st e.2) (store, fixes) = .ok st' →
      totalRows st'.1 + st'.2.length ≤ totalRows store + fixes.length
  | [], store, fixes, st', _, h => by
    simp only [List.foldlM_nil, pure, Except.pure, Except.ok.injEq] at h
    subst h; exact Nat.le_refl _
  | e :: rest, store, fixes, st', hF, h => by
    rw [List.foldlM_cons] at h
    simp only [bind, Except.bind] at h
    split at h
    · cases h
    · next st1 hst1 =>
      obtain ⟨store1, fixes1⟩ := st1
      have hF1 := finv_step input b err e rest store fixes store1 fixes1 hF hst1
      have ih := fixFold_rows input b err rest store1 fixes1 st' hF1 h
      have hstep : totalRows store1 + fixes1.length ≤ totalRows store + fixes.length := by
        rcases fixOne_guarded hst1 with ⟨rfl, rfl⟩ | ⟨p, hp, happ, hfx, _⟩
        · exact Nat.le_refl _
        · have := apply_fewer_rows (hF.valid e (List.mem_cons_self ..) p hp).1 happ
          rw [hfx]; simp; omega
      omega

/-- **a round of the resolver never raises**; a productive round removes at least one row -/
theorem resolverRound_ok {input : List Scaffold} (hwf : WFInput input) {b : Build} (hm : Mid input b) :
    ∃ r, resolverRound b = .ok r ∧ ∀ b', r = some b' → totalRows b'.store < totalRows b.store := by
  rw [C01.resolverRound_eq]
  obtain ⟨prems, hprems⟩ := collectPremises_total hm
  obtain ⟨hpn, hpv⟩ := C01.collectPremises_ok input hwf b hm prems hprems
  have hinit : FInv input b prems b.store [] :=
    ⟨by simp, by simp, hpv, hpn, by simp, (by intro p hp; cases hp), hm.slices⟩
  obtain ⟨⟨store, fixes⟩, hfold, hF'⟩ := fixFold_ok input b b.err prems b.store [] hinit
  have hrows := fixFold_rows input b b.err prems b.store [] (store, fixes) hinit hfold
  dsimp only at hF' hrows
  simp only [hprems, bind, Except.bind]
  rw [List.foldlM_map, hfold]
  simp only
  by_cases hemp : fixes.isEmpty = true
  · rw [if_pos hemp]
    exact ⟨none, rfl, fun b' h => by cases h⟩
  · rw [if_neg hemp]
    have hbk : ∃ b2, fixes.foldlM applyFixBookkeeping { b with store := store } = .ok b2 := by
      apply bookkeeping_ok b.found fixes { b with store := store } hF'.fixNodup (fun p _ => rfl)
      intro p hp fnd hf
      have hc := hF'.counts p.fragment.keyTuple p.sid
      have hpos : 0 < fixes.countP (C01.fixAt p.fragment.keyTuple p.sid) :=
        List.countP_pos_iff.mpr ⟨p, hp, by simp [C01.fixAt]⟩
      have hh : holders b p.fragment.keyTuple = fnd.scaffolds := by unfold holders; rw [hf]
      have hcnt := hm.counts p.fragment.keyTuple p.sid
      rw [hh] at hcnt
      exact List.count_pos_iff.mp (by omega)
    obtain ⟨b2, hb2⟩ := hbk
    simp only [hb2, pure, Except.pure]
    refine ⟨some b2, rfl, ?_⟩
    intro b' hb'
    cases hb'
    have hst : b2.store = store := by
      have := C01.foldlM_inv (fun x : Build => x.store = store) _ fixes
        (fun x p x' hx hs' => by
          obtain ⟨q1, _⟩ := C07.applyFixBookkeeping_fields (fun _ => True) x x' p hs' (fun _ _ => trivial)
          exact q1.trans hx)
        { b with store := store } b2 rfl hb2
      exact this
    rw [hst]
    have hlen : 0 < fixes.length := by
      cases fixes with
      | nil => simp at hemp
      | cons _ _ => simp
    simp only [List.length_nil] at hrows
    omega

/-- **`discard_overhanging_fragments` never raises** once it has more fuel than there are rows in the store — in
    particular with the `totalRows + 2` the pipeline gives it -/
theorem discardOverhanging_ok {input : List Scaffold} (hwf : WFInput input) :
    ∀ (fuel : Nat) (b : Build), Mid input b → totalRows b.store < fuel → ∃ b', discardOverhanging fuel b = .ok b'
  | 0, _, _, h => by omega
  | fuel + 1, b, hm, hlt => by
    unfold discardOverhanging
    split
    · exact ⟨b, rfl⟩
    · obtain ⟨r, hr, hdec⟩ := resolverRound_ok hwf hm
      simp only [hr, bind, Except.bind]
      cases r with
      | none => exact ⟨b, rfl⟩
      | some b1 =>
        simp only
        have hlt1 := hdec b1 rfl
        obtain ⟨hm1, _⟩ := C01.reg_resolver_round_aux input hwf b b1 hm hr
        exact discardOverhanging_ok hwf fuel b1 hm1 (by omega)

end AgpTpf.C02
