/-
  C02 — helper lemmas for M1: `errLengthOfText` (the `1 + floor(bp_per_texel)` of `BuildAssembly.error_length`,
  computed from the decimal text of the Pretext header).
-/
import AgpTpf.Model.Remap
import AgpTpf.Proofs.C05Int
namespace AgpTpf.C02
open AgpTpf

/-- every character is an ASCII digit -/
def AllDigits (s : Str) : Prop := ∀ c ∈ s, isDigit c = true

theorem allDigits_iff_all (s : Str) : AllDigits s ↔ s.all isDigit = true := by
  simp [AllDigits, List.all_eq_true]

theorem allDigits_natToStr (n : Nat) : AllDigits (natToStr n) :=
  fun _ hc => C05.isDigit_of_mem_natToStr hc

theorem allDigits_takeWhile (t : Str) : AllDigits (t.takeWhile isDigit) := by
  induction t with
  | nil => intro c hc; cases hc
  | cons a t ih =>
    intro c hc
    by_cases ha : isDigit a = true
    · simp only [List.takeWhile, ha] at hc
      rcases List.mem_cons.mp hc with rfl | hc
      · exact ha
      · exact ih c hc
    · simp only [List.takeWhile, Bool.not_eq_true] at hc ha
      rw [ha] at hc; cases hc

theorem takeWhile_digits_self {ip : Str} (h : AllDigits ip) : ip.takeWhile isDigit = ip := by
  induction ip with
  | nil => rfl
  | cons c cs ih =>
    have hc := h c (by simp)
    simp only [List.takeWhile, hc]
    rw [ih (fun x hx => h x (by simp [hx]))]

theorem dropWhile_digits_self {ip : Str} (h : AllDigits ip) : ip.dropWhile isDigit = [] := by
  induction ip with
  | nil => rfl
  | cons c cs ih =>
    have hc := h c (by simp)
    simp only [List.dropWhile, hc]
    exact ih (fun x hx => h x (by simp [hx]))

theorem isDigit_dot : isDigit '.' = false := by decide

theorem takeWhile_digits_dot {ip : Str} (fr : Str) (h : AllDigits ip) :
    (ip ++ '.' :: fr).takeWhile isDigit = ip := by
  rw [List.takeWhile_append_of_pos (by simpa [AllDigits] using h)]
  simp [List.takeWhile, isDigit_dot]

theorem dropWhile_digits_dot {ip : Str} (fr : Str) (h : AllDigits ip) :
    (ip ++ '.' :: fr).dropWhile isDigit = '.' :: fr := by
  rw [List.dropWhile_append_of_pos (by simpa [AllDigits] using h)]
  simp [List.dropWhile, isDigit_dot]

/-- the two accepted shapes: `ip` (non-empty digits) or `ip.fr` (digits either side of ONE dot, not both empty) -/
def DecimalShape (t ip fr : Str) : Prop :=
  AllDigits ip ∧ AllDigits fr ∧
  ((t = ip ∧ fr = [] ∧ ip ≠ []) ∨ (t = ip ++ '.' :: fr ∧ (ip ≠ [] ∨ fr ≠ [])))

theorem errLength_int {ip : Str} (h : AllDigits ip) (hne : ip ≠ []) :
    errLengthOfText ip = .ok (1 + (digitsVal 0 ip : Int)) := by
  unfold errLengthOfText
  simp only [takeWhile_digits_self h, dropWhile_digits_self h]
  cases ip with
  | nil => exact absurd rfl hne
  | cons c cs => simp

theorem errLength_frac {ip fr : Str} (h : AllDigits ip) (hf : AllDigits fr) (hne : ip ≠ [] ∨ fr ≠ []) :
    errLengthOfText (ip ++ '.' :: fr) = .ok (1 + (digitsVal 0 ip : Int)) := by
  unfold errLengthOfText
  simp only [takeWhile_digits_dot fr h, dropWhile_digits_dot fr h]
  have hfa : fr.all isDigit = true := (allDigits_iff_all fr).mp hf
  have : (fr.all isDigit && (!ip.isEmpty || !fr.isEmpty)) = true := by
    rw [hfa]
    rcases hne with h1 | h1
    · cases ip with
      | nil => exact absurd rfl h1
      | cons _ _ => simp
    · cases fr with
      | nil => exact absurd rfl h1
      | cons _ _ => simp
  simp only [this, if_true]

theorem errLength_of_shape {t ip fr : Str} (h : DecimalShape t ip fr) :
    errLengthOfText t = .ok (1 + (digitsVal 0 ip : Int)) := by
  obtain ⟨h1, h2, (⟨rfl, _, hne⟩ | ⟨rfl, hne⟩)⟩ := h
  · exact errLength_int h1 hne
  · exact errLength_frac h1 h2 hne

/-- whatever the text: either it has the shape (and then `ip` is its leading digit run), or ValueError -/
theorem errLength_cases (t : Str) :
    (∃ fr, DecimalShape t (t.takeWhile isDigit) fr) ∨
    ((¬ ∃ ip fr, DecimalShape t ip fr) ∧ errLengthOfText t = .error .value) := by
  have hsplit : t = t.takeWhile isDigit ++ t.dropWhile isDigit := List.takeWhile_append_dropWhile.symm
  have hip := allDigits_takeWhile t
  -- uniqueness of the decomposition
  have huniq : ∀ ip fr, DecimalShape t ip fr →
      t.takeWhile isDigit = ip ∧ (t.dropWhile isDigit = [] ∧ fr = [] ∧ ip ≠ [] ∨
        t.dropWhile isDigit = '.' :: fr ∧ (ip ≠ [] ∨ fr ≠ [])) := by
    rintro ip fr ⟨h1, h2, (⟨rfl, rfl, hne⟩ | ⟨rfl, hne⟩)⟩
    · exact ⟨takeWhile_digits_self h1, Or.inl ⟨dropWhile_digits_self h1, rfl, hne⟩⟩
    · exact ⟨takeWhile_digits_dot fr h1, Or.inr ⟨dropWhile_digits_dot fr h1, hne⟩⟩
  cases hrest : t.dropWhile isDigit with
  | nil =>
    by_cases hne : t.takeWhile isDigit = []
    · right
      refine ⟨?_, ?_⟩
      · rintro ⟨ip, fr, hs⟩
        obtain ⟨e1, (⟨_, _, e3⟩ | ⟨e2, _⟩)⟩ := huniq ip fr hs
        · exact e3 (e1 ▸ hne)
        · rw [hrest] at e2; cases e2
      · unfold errLengthOfText; simp [hrest, hne]
    · left
      refine ⟨[], hip, by simp [AllDigits], Or.inl ⟨?_, rfl, hne⟩⟩
      rw [hrest, List.append_nil] at hsplit; exact hsplit
  | cons c fr =>
    by_cases hc : c = '.'
    · subst hc
      by_cases hok : AllDigits fr ∧ (t.takeWhile isDigit ≠ [] ∨ fr ≠ [])
      · left
        exact ⟨fr, hip, hok.1, Or.inr ⟨by rw [hrest] at hsplit; exact hsplit, hok.2⟩⟩
      · right
        refine ⟨?_, ?_⟩
        · rintro ⟨ip, fr', hs⟩
          have hs' := hs
          obtain ⟨e1, (⟨e2, _, _⟩ | ⟨e2, e3⟩)⟩ := huniq ip fr' hs
          · rw [hrest] at e2; cases e2
          · rw [hrest] at e2
            simp only [List.cons.injEq, true_and] at e2
            subst e2
            exact hok ⟨hs'.2.1, e1 ▸ e3⟩
        · unfold errLengthOfText
          simp only [hrest]
          have : (fr.all isDigit && (!(t.takeWhile isDigit).isEmpty || !fr.isEmpty)) = false := by
            rw [Bool.eq_false_iff]
            intro hb
            simp only [Bool.and_eq_true, Bool.or_eq_true, Bool.not_eq_true', List.isEmpty_eq_false_iff] at hb
            exact hok ⟨(allDigits_iff_all fr).mpr hb.1, hb.2⟩
          simp [this]
    · right
      refine ⟨?_, ?_⟩
      · rintro ⟨ip, fr', hs⟩
        obtain ⟨_, (⟨e2, _, _⟩ | ⟨e2, _⟩)⟩ := huniq ip fr' hs
        · rw [hrest] at e2; cases e2
        · rw [hrest] at e2
          simp only [List.cons.injEq] at e2
          exact hc e2.1
      · unfold errLengthOfText
        simp only [hrest]
        split
        · rename_i heq; cases heq
        · rename_i heq; simp only [List.cons.injEq] at heq; exact absurd heq.1 hc
        · simp

end AgpTpf.C02
