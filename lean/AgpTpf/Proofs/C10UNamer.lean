/-
  C10 uniqueness (W5), part 6: what `ScaffoldNamer.make_scaffold_name` leaves in the namer —
  the current scaffold name / rank (chromosome-name tag → rank 2; Painted → rank 1, the Pretext name; otherwise rank 3,
  the first row's name) and the current haplotype (never the empty string, never one of the three tag words, provided
  no name's haplotype prefix is a tag word; `None` when there is no haplotype tag and no haplotype prefix).
-/
import AgpTpf.Proofs.C17
import AgpTpf.Proofs.C10
import AgpTpf.Proofs.C10UFuse
namespace AgpTpf.C10U
open AgpTpf

def tagWordStrs : List Str := [sContaminant, sFalseDuplicate, sHaplotig]

/-- a haplotype spelling that can never be confused with an assembly tag -/
def HapWordOk (h : Str) : Prop := h ≠ [] ∧ h ∉ tagWordStrs

/-- `None`, or a non-empty string that is not a tag word -/
def HapOk (o : Option Str) : Prop := o = none ∨ ∃ h, o = some h ∧ HapWordOk h

theorem HapOk.ne_nil {o : Option Str} (h : HapOk o) : o ≠ some [] := by
  rcases h with rfl | ⟨x, rfl, hx⟩
  · simp
  · intro e; exact hx.1 (Option.some.inj e)

theorem HapOk.not_tagWord {o : Option Str} (h : HapOk o) : o ∉ tagWords := by
  rcases h with rfl | ⟨x, rfl, hx⟩
  · simp [tagWords]
  · intro e
    apply hx.2
    simp only [tagWords, List.mem_cons, Option.some.injEq, List.not_mem_nil, or_false] at e
    simp only [tagWordStrs, List.mem_cons, List.not_mem_nil, or_false]
    exact e

theorem hapWordOk_primary : HapWordOk sPrimary := ⟨by decide, by decide⟩

/-- the namer's haplotype dictionary and primary haplotype hold acceptable spellings only -/
def NamerGood (n : Namer) : Prop :=
  (∀ kv ∈ n.haplotypeLc, HapWordOk kv.2) ∧ (∀ v, n.primaryHaplotype = some v → HapWordOk v)

theorem getSet_good (n : Namer) (t : Str) (hn : NamerGood n) (ht : HapWordOk t) :
    NamerGood (n.getSetHaplotype t).1 ∧ HapWordOk (n.getSetHaplotype t).2 := by
  unfold Namer.getSetHaplotype dSetDefault
  cases hg : dGet? n.haplotypeLc (lowerStr t) with
  | none =>
    refine ⟨⟨?_, hn.2⟩, ht⟩
    intro kv hkv
    simp only [List.mem_append, List.mem_singleton] at hkv
    rcases hkv with h | h
    · exact hn.1 kv h
    · subst h; exact ht
  | some w => exact ⟨hn, hn.1 _ (C17.dGet?_mem _ _ _ hg)⟩

/-! ### tag classes -/

theorem tagClass_painted (t : Str) : C17.tagClass t = .painted ↔ t = sPainted := by
  unfold C17.tagClass
  by_cases h1 : t = sPainted
  · simp [h1]
  · simp only [if_neg h1]
    constructor
    · intro h
      split at h
      · cases h
      · split at h
        · cases h
        · split at h
          · cases h
          · split at h <;> cases h
    · intro h; exact absurd h h1

theorem tagClass_target (t : Str) : C17.tagClass t = .target ↔ t = sTarget := by
  unfold C17.tagClass
  have c1 : sTarget ≠ sPainted := by decide
  by_cases h1 : t = sPainted
  · subst h1; simp; exact fun h => c1 h.symm
  by_cases h2 : t = sTarget
  · simp [h2, c1]
  · simp only [if_neg h1, if_neg h2]
    constructor
    · intro h
      split at h
      · cases h
      · split at h
        · cases h
        · split at h <;> cases h
    · intro h; exact absurd h h2

theorem tagClass_chr (t : Str) (h : C17.tagClass t = .chr) : isChrNameTag t = true := by
  unfold C17.tagClass at h
  split at h
  · cases h
  · split at h
    · cases h
    · split at h
      · cases h
      · split at h
        · assumption
        · split at h <;> cases h

theorem tagClass_hap (t : Str) (h : C17.tagClass t = .hap) : t ∉ tagWordStrs := by
  unfold C17.tagClass at h
  split at h
  · cases h
  · split at h
    · cases h
    · split at h
      · cases h
      · split at h
        · cases h
        · split at h
          · rename_i hk
            intro hm
            apply hk
            simp only [tagWordStrs, List.mem_cons, List.not_mem_nil, or_false] at hm
            rcases hm with rfl | rfl | rfl <;> decide
          · cases h

/-! ### the tag scan -/

structure ScanInv (n0 : Namer) (seen : List Str) (st : Namer × TagScan) : Prop where
  good : NamerGood st.1
  painted : st.2.isPainted = true ↔ sPainted ∈ seen
  nameRank : (st.2.rank = none ∧ st.2.scaffoldName = none) ∨
    ∃ t, st.2.scaffoldName = some t ∧ st.2.rank = some 2 ∧ t ∈ seen ∧ isChrNameTag t = true
  hap : HapOk st.2.haplotype
  hapFree : (∀ t ∈ seen, C17.tagClass t ≠ .hap) → st.2.haplotype = none
  target : st.1.targetTags = true → n0.targetTags = true ∨ sTarget ∈ seen

theorem scanTag_inv (n0 : Namer) (seen : List Str) (st st' : Namer × TagScan) (t : Str) (ht : t ≠ [])
    (hinv : ScanInv n0 seen st) (h : scanTag st t = .ok st') : ScanInv n0 (seen ++ [t]) st' := by
  obtain ⟨n, s⟩ := st
  rw [C17.scanTag_eq] at h
  obtain ⟨g, pa, nr, hp, hf, tg⟩ := hinv
  simp only at g pa nr hp hf tg
  have mem_snoc : ∀ x : Str, x ∈ seen ++ [t] ↔ x ∈ seen ∨ x = t := by intro x; simp
  have nr' : (s.rank = none ∧ s.scaffoldName = none) ∨
      ∃ u, s.scaffoldName = some u ∧ s.rank = some 2 ∧ u ∈ seen ++ [t] ∧ isChrNameTag u = true := by
    rcases nr with h0 | ⟨u, a, b, c, d⟩
    · exact Or.inl h0
    · exact Or.inr ⟨u, a, b, (mem_snoc u).2 (Or.inl c), d⟩
  have tg' : n.targetTags = true → n0.targetTags = true ∨ sTarget ∈ seen ++ [t] := by
    intro h; rcases tg h with h | h
    · exact Or.inl h
    · exact Or.inr ((mem_snoc _).2 (Or.inl h))
  cases hc : C17.tagClass t <;> simp only [hc] at h
  case painted =>
    cases h
    have : t = sPainted := (tagClass_painted t).1 hc
    refine ⟨g, ?_, nr', hp, ?_, tg'⟩
    · simp only; constructor
      · intro _; exact (mem_snoc _).2 (Or.inr this.symm)
      · intro _; first | rfl | trivial
    · intro hall; exact hf (fun x hx => hall x ((mem_snoc x).2 (Or.inl hx)))
  all_goals
    have hnp : t ≠ sPainted := by
      intro e; have := (tagClass_painted t).2 e; rw [hc] at this; cases this
    have pa' : ∀ v : Bool, (v = true ↔ sPainted ∈ seen) → (v = true ↔ sPainted ∈ seen ++ [t]) := by
      intro v hv
      rw [mem_snoc, hv]
      constructor
      · exact Or.inl
      · rintro (h | h)
        · exact h
        · exact absurd h.symm hnp
  case target =>
    cases h
    have : t = sTarget := (tagClass_target t).1 hc
    refine ⟨g, pa' _ pa, nr', hp, ?_, ?_⟩
    · intro hall; exact hf (fun x hx => hall x ((mem_snoc x).2 (Or.inl hx)))
    · intro _; exact Or.inr ((mem_snoc _).2 (Or.inr this.symm))
  case primary =>
    cases h
    refine ⟨g, pa' _ pa, nr', hp, ?_, tg'⟩
    intro hall; exact hf (fun x hx => hall x ((mem_snoc x).2 (Or.inl hx)))
  case chr =>
    split at h
    · cases h
    · cases h
      refine ⟨g, pa' _ pa, Or.inr ⟨t, rfl, rfl, (mem_snoc t).2 (Or.inr rfl), tagClass_chr t hc⟩, hp, ?_, tg'⟩
      intro hall; exact hf (fun x hx => hall x ((mem_snoc x).2 (Or.inl hx)))
  case hap =>
    split at h
    · cases h
    · cases h
      obtain ⟨g1, g2⟩ := getSet_good n t g ⟨ht, tagClass_hap t hc⟩
      refine ⟨g1, pa' _ pa, nr', Or.inr ⟨_, rfl, g2⟩, ?_, ?_⟩
      · intro hall; exact absurd hc (hall t ((mem_snoc t).2 (Or.inr rfl)))
      · intro h; exact tg' h
  case other =>
    cases h
    refine ⟨g, pa' _ pa, nr', hp, ?_, tg'⟩
    intro hall; exact hf (fun x hx => hall x ((mem_snoc x).2 (Or.inl hx)))

theorem foldlM_scanTag_inv (n0 : Namer) (tags : List Str) : ∀ (seen : List Str) (st st' : Namer × TagScan),
    [] ∉ tags → ScanInv n0 seen st → tags.foldlM scanTag st = .ok st' → ScanInv n0 (seen ++ tags) st' := by
  induction tags with
  | nil => intro seen st st' _ hinv h; cases h; simpa using hinv
  | cons t r ih =>
    intro seen st st' hne hinv h
    rw [List.foldlM_cons, C17.bind_eq_ok] at h
    obtain ⟨st1, h1, h2⟩ := h
    have ht : t ≠ [] := fun e => hne (by simp [e])
    have := ih (seen ++ [t]) st1 st' (fun e => hne (by simp [e])) (scanTag_inv n0 seen st st1 t ht hinv h1) h2
    simpa using this

/-! ### `make_scaffold_name` -/

/-- the facts about the namer state the labelling of one Pretext scaffold relies on -/
structure NameFacts (n n' : Namer) (scName : Str) (rows : List Row) (tags : List Str) : Prop where
  good : NamerGood n'
  hapN : n'.haplotigN = n.haplotigN
  hapS : n'.haplotigScaffolds = n.haplotigScaffolds
  pre : n'.autosomePrefix = n.autosomePrefix
  unlocN : n'.unlocN = 0
  unlocS : n'.unlocScaffolds = []
  target : n'.targetTags = true → n.targetTags = true ∨ sTarget ∈ tags
  hap : HapOk n'.currentHaplotype
  hapFree : (∀ t ∈ tags, C17.tagClass t ≠ .hap) → (∀ nm, firstRowName rows = .ok nm → hapPrefixOfName nm = none) →
    n'.currentHaplotype = none
  cur : ∃ c, n'.currentScaffoldName = some c ∧
    ((n'.currentRank = 2 ∧ c ∈ tags ∧ isChrNameTag c = true) ∨
     (n'.currentRank = 1 ∧ c = scName ∧ sPainted ∈ tags) ∨
     (n'.currentRank = 3 ∧ firstRowName rows = .ok c ∧ sPainted ∉ tags))

theorem truthy_some_iff (h : Str) : truthy (some h) = true ↔ h ≠ [] := C17.truthy_some h

theorem makeScaffoldName_facts (n n' : Namer) (scName : Str) (rows : List Row) (tags : List Str)
    (hne : [] ∉ tags) (hn : NamerGood n)
    (hnames : ∀ nm g, firstRowName rows = .ok nm → hapPrefixOfName nm = some g → g ∉ tagWordStrs)
    (h : makeScaffoldName n scName rows tags = .ok n') : NameFacts n n' scName rows tags := by
  obtain ⟨⟨c1, c2, c3⟩, c4, c5⟩ := C10.makeScaffoldName_counters n n' scName rows tags h
  rw [C17.makeScaffoldName_eq, C17.bind_eq_ok] at h
  obtain ⟨⟨n1, s⟩, h1, h⟩ := h
  rw [C17.bind_eq_ok] at h
  obtain ⟨⟨n2, hap⟩, h2, h⟩ := h
  rw [C17.bind_eq_ok] at h
  obtain ⟨n3, h3, h⟩ := h
  rw [C17.bind_eq_ok] at h
  obtain ⟨p, h4, h⟩ := h
  cases h
  have hscan := foldlM_scanTag_inv n tags [] (n, {}) (n1, s) hne
    ⟨hn, by simp, Or.inl ⟨rfl, rfl⟩, Or.inl rfl, fun _ => rfl, fun h => Or.inl h⟩ h1
  simp only [List.nil_append] at hscan
  obtain ⟨g1, pa, nr, hp, hf, tg⟩ := hscan
  simp only at g1 pa nr hp hf tg
  -- haplotype stage
  have k2 : NamerGood n2 ∧ HapOk hap ∧ n2.targetTags = n1.targetTags ∧
      ((∀ t ∈ tags, C17.tagClass t ≠ .hap) → (∀ nm, firstRowName rows = .ok nm → hapPrefixOfName nm = none) →
        hap = none) := by
    unfold C17.hapStage at h2
    split at h2
    · cases h2
      exact ⟨g1, hp, rfl, fun hall _ => hf hall⟩
    · rw [C17.bind_eq_ok] at h2
      obtain ⟨nm, hnm, h2⟩ := h2
      split at h2
      · rename_i g hg
        cases h2
        obtain ⟨q1, q2⟩ := getSet_good n1 g g1 ⟨C17.hapPrefixOfName_ne_nil nm g hg, hnames nm g hnm hg⟩
        refine ⟨q1, Or.inr ⟨_, rfl, q2⟩, rfl, ?_⟩
        intro _ hnone
        rw [hnone nm hnm] at hg; cases hg
      · cases h2
        exact ⟨g1, Or.inl rfl, rfl, fun _ _ => rfl⟩
  obtain ⟨g2, hhap, t2, hfree⟩ := k2
  -- primary stage
  have k3 : NamerGood n3 ∧ n3.targetTags = n2.targetTags := by
    simp only at h3
    unfold C17.primStage at h3
    by_cases hc : (s.primaryTag = true ∧ ¬truthy n2.primaryHaplotype = true)
    · rw [if_pos hc] at h3
      cases hap with
      | none => cases h3
      | some h0 =>
        simp only at h3
        split at h3
        · cases h3
        · cases h3
          have hw : HapWordOk h0 := by
            rcases hhap with e | ⟨x, e, hx⟩
            · cases e
            · cases e; exact hx
          obtain ⟨q1, q2⟩ := getSet_good n2 h0 g2 hw
          refine ⟨⟨q1.1, ?_⟩, rfl⟩
          intro v hv
          simp only [Option.some.injEq] at hv
          subst hv; exact q2
    · rw [if_neg hc] at h3
      cases h3; exact ⟨g2, rfl⟩
  obtain ⟨g3, t3⟩ := k3
  -- the current haplotype
  have hcur : HapOk (C17.finishName n3 hap p).currentHaplotype ∧
      (hap = none → (C17.finishName n3 hap p).currentHaplotype = none) := by
    unfold C17.finishName
    simp only
    split
    · split
      · rename_i hprim heq
        refine ⟨Or.inr ⟨_, rfl, hapWordOk_primary⟩, ?_⟩
        intro hnone
        rw [hnone] at heq
        rw [← heq] at hprim; cases hprim
      · exact ⟨hhap, fun h => h⟩
    · exact ⟨hhap, fun h => h⟩
  -- the name stage
  have hname : ∃ c, (C17.finishName n3 hap p).currentScaffoldName = some c ∧
      (((C17.finishName n3 hap p).currentRank = 2 ∧ c ∈ tags ∧ isChrNameTag c = true) ∨
       ((C17.finishName n3 hap p).currentRank = 1 ∧ c = scName ∧ sPainted ∈ tags) ∨
       ((C17.finishName n3 hap p).currentRank = 3 ∧ firstRowName rows = .ok c ∧ sPainted ∉ tags)) := by
    refine ⟨p.1, rfl, ?_⟩
    show (p.2 = 2 ∧ p.1 ∈ tags ∧ isChrNameTag p.1 = true) ∨ (p.2 = 1 ∧ p.1 = scName ∧ sPainted ∈ tags) ∨
      (p.2 = 3 ∧ firstRowName rows = .ok p.1 ∧ sPainted ∉ tags)
    unfold C17.nameStage at h4
    split at h4
    · rename_i htr
      cases h4
      rcases nr with ⟨_, h0⟩ | ⟨u, a, b, c, d⟩
      · rw [h0] at htr; cases htr
      · left; rw [a, b]; exact ⟨rfl, c, d⟩
    · rename_i htr
      split at h4
      · rename_i hpa
        cases h4
        right; left
        refine ⟨?_, rfl, pa.1 hpa⟩
        rcases nr with ⟨h0, _⟩ | ⟨u, a, b, c, d⟩
        · rw [h0]
        · exfalso
          rw [a] at htr
          exact htr ((truthy_some_iff u).2 (C17.isChrNameTag_ne_nil u d))
      · rename_i hpa
        rw [C17.bind_eq_ok] at h4
        obtain ⟨nm, hnm, h4⟩ := h4
        cases h4
        right; right
        exact ⟨rfl, hnm, fun hm => hpa (pa.2 hm)⟩
  refine ⟨g3, c1, c2, c3, c4, c5, ?_, hcur.1, ?_, hname⟩
  · intro htgt
    have : n1.targetTags = true := by
      have e : (C17.finishName n3 hap p).targetTags = n3.targetTags := rfl
      rw [e, t3, t2] at htgt; exact htgt
    exact tg this
  · intro hall hnone
    exact hcur.2 (hfree hall hnone)

end AgpTpf.C10U
