/-
  C07, second sentence (gap rows) — part A: the runs of gap rows between consecutive fragments of a row list.
    `gapRuns rows`   all `(a, G, b)`: fragment `a`, then exactly the gap rows `G` (possibly none), then fragment `b`
    list lemmas (append / infix / join / decomposition / reversal), the C18 content invariant read on runs,
    `InputRun` — a run whose facing ends and gap rows are those of a run of an input scaffold (up to reversal).
-/
import AgpTpf.Proofs.C07ChainA
namespace AgpTpf.C07
open AgpTpf
open AgpTpf.C11 (End leftFacing rightFacing facingEnds SameAdj)

/-- `(a, G, b)`: fragment `a`, the gap rows `G` that follow it, the next fragment `b` -/
abbrev Run := Fragment × List Gap × Fragment

/-- the leading gap rows and the first fragment of a row list -/
def nextFrag : List Row → Option (List Gap × Fragment)
  | [] => none
  | .gap g :: r => (nextFrag r).map (fun p => (g :: p.1, p.2))
  | .frag b :: _ => some ([], b)

def headRun (a : Fragment) (r : List Row) : List Run :=
  match nextFrag r with
  | some (G, b) => [(a, G, b)]
  | none => []

/-- all runs `(a, G, b)` of consecutive fragments with the gap rows between them, in order -/
def gapRuns : List Row → List Run
  | [] => []
  | .gap _ :: r => gapRuns r
  | .frag a :: r => headRun a r ++ gapRuns r

theorem nextFrag_gaps (M : List Gap) (l : List Row) :
    nextFrag (M.map Row.gap ++ l) = (nextFrag l).map (fun p => (M ++ p.1, p.2)) := by
  induction M with
  | nil => cases h : nextFrag l <;> simp [h]
  | cons g M ih =>
    simp only [List.map_cons, List.cons_append, nextFrag, ih]
    cases nextFrag l <;> simp

theorem nextFrag_gaps_frag (M : List Gap) (b : Fragment) (O : List Row) :
    nextFrag (M.map Row.gap ++ .frag b :: O) = some (M, b) := by
  rw [nextFrag_gaps]; simp [nextFrag]

theorem nextFrag_spec (l : List Row) (G : List Gap) (b : Fragment) (h : nextFrag l = some (G, b)) :
    ∃ O, l = G.map Row.gap ++ .frag b :: O := by
  induction l generalizing G with
  | nil => cases h
  | cons x t ih =>
    cases x with
    | frag c =>
      simp only [nextFrag, Option.some.injEq, Prod.mk.injEq] at h
      obtain ⟨rfl, rfl⟩ := h
      exact ⟨t, rfl⟩
    | gap g =>
      simp only [nextFrag] at h
      cases hn : nextFrag t with
      | none => rw [hn] at h; cases h
      | some p =>
        obtain ⟨G', b'⟩ := p
        rw [hn] at h
        simp only [Option.map_some, Option.some.injEq, Prod.mk.injEq] at h
        obtain ⟨rfl, rfl⟩ := h
        obtain ⟨O, rfl⟩ := ih G' hn
        exact ⟨O, rfl⟩

theorem nextFrag_append (l s : List Row) (p : List Gap × Fragment) (h : nextFrag l = some p) :
    nextFrag (l ++ s) = some p := by
  induction l generalizing p with
  | nil => cases h
  | cons x t ih =>
    cases x with
    | frag c => exact h
    | gap g =>
      simp only [List.cons_append, nextFrag] at h ⊢
      cases hn : nextFrag t with
      | none => rw [hn] at h; cases h
      | some q => rw [ih q hn]; rw [hn] at h; exact h

theorem nextFrag_append_frag (B : List Row) (a : Fragment) (rest : List Row) :
    nextFrag (B ++ .frag a :: rest) = nextFrag (B ++ [.frag a]) := by
  induction B with
  | nil => rfl
  | cons x t ih =>
    cases x with
    | frag c => rfl
    | gap g => simp only [List.cons_append, nextFrag, ih]

theorem gapRuns_gaps (M : List Gap) (l : List Row) : gapRuns (M.map Row.gap ++ l) = gapRuns l := by
  induction M with
  | nil => rfl
  | cons g M ih => simpa [gapRuns] using ih

theorem gapRuns_frag_cons (a : Fragment) (r : List Row) : gapRuns (.frag a :: r) = headRun a r ++ gapRuns r := rfl
theorem gapRuns_gap_cons (g : Gap) (r : List Row) : gapRuns (.gap g :: r) = gapRuns r := rfl

/-- the runs of `… a G b …`: those up to `a`, the run `(a, G, b)`, those from `b` on -/
theorem gapRuns_join (B O : List Row) (a b : Fragment) (M : List Gap) :
    gapRuns (B ++ .frag a :: (M.map Row.gap ++ .frag b :: O)) =
      gapRuns (B ++ [.frag a]) ++ (a, M, b) :: gapRuns (.frag b :: O) := by
  induction B with
  | nil =>
    simp only [List.nil_append, gapRuns_frag_cons, headRun, nextFrag_gaps_frag, gapRuns_gaps, nextFrag, gapRuns,
      List.append_nil, List.cons_append]
  | cons x t ih =>
    cases x with
    | gap g => simp only [List.cons_append, gapRuns_gap_cons]; exact ih
    | frag c =>
      simp only [List.cons_append, gapRuns_frag_cons, ih, List.append_assoc]
      unfold headRun
      rw [nextFrag_append_frag]

theorem mem_gapRuns_cons (x : Row) (l : List Row) (t : Run) (h : t ∈ gapRuns l) : t ∈ gapRuns (x :: l) := by
  cases x with
  | gap g => exact h
  | frag c => rw [gapRuns_frag_cons]; exact List.mem_append_right _ h

theorem gapRuns_suffix (p l : List Row) (t : Run) (h : t ∈ gapRuns l) : t ∈ gapRuns (p ++ l) := by
  induction p with
  | nil => exact h
  | cons x p ih => exact mem_gapRuns_cons x _ t ih

theorem gapRuns_prefix (l s : List Row) (t : Run) (h : t ∈ gapRuns l) : t ∈ gapRuns (l ++ s) := by
  induction l with
  | nil => cases h
  | cons x r ih =>
    cases x with
    | gap g => exact ih h
    | frag c =>
      rw [gapRuns_frag_cons] at h
      rw [List.cons_append, gapRuns_frag_cons]
      rcases List.mem_append.mp h with h | h
      · refine List.mem_append_left _ ?_
        unfold headRun at h ⊢
        cases hn : nextFrag r with
        | none => rw [hn] at h; cases h
        | some q => rw [nextFrag_append r s q hn]; rw [hn] at h; exact h
      · exact List.mem_append_right _ (ih h)

/-- runs inside a contiguous run of rows are runs of the whole list -/
theorem gapRuns_infix {l src : List Row} (h : l <:+: src) : ∀ t ∈ gapRuns l, t ∈ gapRuns src := by
  obtain ⟨p, s, rfl⟩ := h
  intro t ht
  rw [List.append_assoc]
  exact gapRuns_suffix p _ t (gapRuns_prefix l s t ht)

/-- a run is a decomposition `… a G b …` of the list -/
theorem gapRuns_decomp (rows : List Row) (a b : Fragment) (M : List Gap) (h : (a, M, b) ∈ gapRuns rows) :
    ∃ B O, rows = B ++ .frag a :: (M.map Row.gap ++ .frag b :: O) := by
  induction rows with
  | nil => cases h
  | cons x r ih =>
    cases x with
    | gap g =>
      obtain ⟨B, O, e⟩ := ih h
      exact ⟨.gap g :: B, O, by rw [e]; rfl⟩
    | frag c =>
      rw [gapRuns_frag_cons] at h
      rcases List.mem_append.mp h with h | h
      · unfold headRun at h
        cases hn : nextFrag r with
        | none => rw [hn] at h; cases h
        | some q =>
          obtain ⟨G, b'⟩ := q
          rw [hn] at h
          simp only [List.mem_cons, Prod.mk.injEq, List.not_mem_nil, or_false] at h
          obtain ⟨rfl, rfl, rfl⟩ := h
          obtain ⟨O, e⟩ := nextFrag_spec r _ _ hn
          exact ⟨[], O, by rw [e]; rfl⟩
      · obtain ⟨B, O, e⟩ := ih h
        exact ⟨.frag c :: B, O, by rw [e]; rfl⟩

theorem mem_gapRuns_of_decomp (B O : List Row) (a b : Fragment) (M : List Gap) :
    (a, M, b) ∈ gapRuns (B ++ .frag a :: (M.map Row.gap ++ .frag b :: O)) := by
  rw [gapRuns_join]; simp

theorem mem_gapRuns_iff (rows : List Row) (a b : Fragment) (M : List Gap) :
    (a, M, b) ∈ gapRuns rows ↔ ∃ B O, rows = B ++ .frag a :: (M.map Row.gap ++ .frag b :: O) :=
  ⟨gapRuns_decomp rows a b M, fun ⟨B, O, e⟩ => e ▸ mem_gapRuns_of_decomp B O a b M⟩

/-- index form: rows `l` and `i` are fragments and everything between is the gap rows `M` -/
theorem mem_gapRuns_of_index (rows : List Row) (l i : Nat) (a b : Fragment) (M : List Gap)
    (h1 : rows[l]? = some (.frag a)) (h2 : rows[i]? = some (.frag b)) (hli : l < i)
    (hM : (rows.drop (l + 1)).take (i - (l + 1)) = M.map Row.gap) : (a, M, b) ∈ gapRuns rows := by
  obtain ⟨hl, e1⟩ := List.getElem?_eq_some_iff.mp h1
  obtain ⟨hi, e2⟩ := List.getElem?_eq_some_iff.mp h2
  have d1 : rows.drop l = .frag a :: rows.drop (l + 1) := by rw [List.drop_eq_getElem_cons hl, e1]
  have d2 : rows.drop i = .frag b :: rows.drop (i + 1) := by rw [List.drop_eq_getElem_cons hi, e2]
  have d3 : rows.drop (l + 1) = M.map Row.gap ++ .frag b :: rows.drop (i + 1) := by
    rw [← hM, ← d2]
    have : i = (l + 1) + (i - (l + 1)) := by omega
    conv => rhs; rhs; rw [this, ← List.drop_drop]
    exact (List.take_append_drop _ _).symm
  have : rows = rows.take l ++ .frag a :: (M.map Row.gap ++ .frag b :: rows.drop (i + 1)) := by
    rw [← d3, ← d1, List.take_append_drop]
  rw [this]
  exact mem_gapRuns_of_decomp _ _ _ _ _

theorem fragmentsOf_gaps (M : List Gap) (l : List Row) : fragmentsOf (M.map Row.gap ++ l) = fragmentsOf l := by
  induction M with
  | nil => rfl
  | cons g M ih => simpa [fragmentsOf] using ih

/-- the two fragments of a run are consecutive in the fragment list -/
theorem gapRuns_fragmentsOf (rows : List Row) (a b : Fragment) (M : List Gap) (h : (a, M, b) ∈ gapRuns rows) :
    ∃ pre post, fragmentsOf rows = pre ++ a :: b :: post := by
  obtain ⟨B, O, rfl⟩ := gapRuns_decomp rows a b M h
  refine ⟨fragmentsOf B, fragmentsOf O, ?_⟩
  rw [C18.fragmentsOf_append]
  simp only [fragmentsOf, fragmentsOf_gaps]

/-- gapless runs are the adjacencies of `adjPairs` -/
theorem gapRuns_nil_iff_adjPairs (rows : List Row) (a b : Fragment) :
    (a, [], b) ∈ gapRuns rows ↔ (a, b) ∈ adjPairs rows := by
  rw [mem_gapRuns_iff, mem_adjPairs_iff]
  constructor
  · rintro ⟨B, O, rfl⟩
    refine ⟨B.length, by simp, ?_⟩
    rw [List.getElem?_append_right (by omega)]
    simp
  · rintro ⟨i, h1, h2⟩
    obtain ⟨hl, e1⟩ := List.getElem?_eq_some_iff.mp h1
    obtain ⟨hi, e2⟩ := List.getElem?_eq_some_iff.mp h2
    refine ⟨rows.take i, rows.drop (i + 2), ?_⟩
    have d1 : rows.drop i = .frag a :: rows.drop (i + 1) := by rw [List.drop_eq_getElem_cons hl, e1]
    have d2 : rows.drop (i + 1) = .frag b :: rows.drop (i + 2) := by rw [List.drop_eq_getElem_cons hi, e2]
    simp only [List.map_nil, List.nil_append]
    rw [← d2, ← d1, List.take_append_drop]

/-! ### reversal -/

theorem row_reverse_reverse (x : Row) : x.reverse.reverse = x := by
  cases x with
  | gap g => rfl
  | frag f =>
    obtain ⟨oid, name, start, stop, strand, tags⟩ := f
    show Row.frag ({ oid, name, start, stop, strand := -1 * (-1 * strand), tags } : Fragment) = _
    have : -1 * (-1 * strand) = strand := by omega
    rw [this]

theorem fragment_reverse_reverse (f : Fragment) : f.reverse.reverse = f := by
  have := row_reverse_reverse (.frag f)
  simpa [Row.reverse] using this

/-- a run read from the other side -/
def mirrorRun (t : Run) : Run := (t.2.2.reverse, t.2.1.reverse, t.1.reverse)

theorem map_reverse_reverse_rows (l : List Row) : (l.reverse.map Row.reverse).reverse.map Row.reverse = l := by
  have : (Row.reverse ∘ Row.reverse) = id := by funext x; exact row_reverse_reverse x
  rw [← List.map_reverse, List.map_map, this, List.map_id, List.reverse_reverse]

/-- reversing a row list (order and strands) mirrors its runs: the gap rows come in reverse order -/
theorem gapRuns_reverse_map (l : List Row) :
    ∀ t ∈ gapRuns (l.reverse.map Row.reverse), ∃ q ∈ gapRuns l, t = mirrorRun q := by
  rintro ⟨a, M, b⟩ ht
  obtain ⟨B, O, e⟩ := gapRuns_decomp _ a b M ht
  have hl : l = (O.reverse.map Row.reverse) ++ .frag b.reverse ::
      (M.reverse.map Row.gap ++ .frag a.reverse :: (B.reverse.map Row.reverse)) := by
    rw [← map_reverse_reverse_rows l, e]
    simp only [List.reverse_append, List.reverse_cons, List.map_append, List.map_cons, Row.reverse,
      List.append_assoc, List.cons_append, List.nil_append, List.map_reverse, List.map_map]
    have : (Row.reverse ∘ Row.gap) = Row.gap := by funext g; rfl
    rw [this]
  refine ⟨(b.reverse, M.reverse, a.reverse), ?_, ?_⟩
  · rw [hl]; exact mem_gapRuns_of_decomp _ _ _ _ _
  · simp [mirrorRun, fragment_reverse_reverse]

/-! ### the C18 content invariant, read on runs -/

/-- the source run a run `(a, G, b)` of a result comes from: same gap rows, same facing ends, same strands -/
def FromRun (src : List Row) (t : Run) : Prop :=
  ∃ a0 b0, (a0, t.2.1, b0) ∈ gapRuns src ∧ leftFacing t.1 = leftFacing a0 ∧ rightFacing t.2.2 = rightFacing b0 ∧
    t.1.strand = a0.strand ∧ t.2.2.strand = b0.strand

theorem nextFrag_last_replaced (mid : List Row) (f1 g1 : Fragment) (G : List Gap) (b : Fragment)
    (h : nextFrag (mid ++ [.frag f1]) = some (G, b)) :
    nextFrag (mid ++ [.frag g1]) = some (G, b) ∨ (b = f1 ∧ nextFrag (mid ++ [.frag g1]) = some (G, g1)) := by
  induction mid generalizing G with
  | nil =>
    simp only [List.nil_append, nextFrag, Option.some.injEq, Prod.mk.injEq] at h
    obtain ⟨rfl, rfl⟩ := h
    exact Or.inr ⟨rfl, rfl⟩
  | cons x t ih =>
    cases x with
    | frag c => exact Or.inl h
    | gap g =>
      simp only [List.cons_append, nextFrag] at h ⊢
      cases hn : nextFrag (t ++ [.frag f1]) with
      | none => rw [hn] at h; cases h
      | some q =>
        obtain ⟨G', b'⟩ := q
        rw [hn] at h
        simp only [Option.map_some, Option.some.injEq, Prod.mk.injEq] at h
        obtain ⟨rfl, rfl⟩ := h
        rcases ih G' hn with e | ⟨e1, e2⟩
        · left; rw [e]; rfl
        · right; rw [e2]; exact ⟨e1, rfl⟩

theorem gapRuns_last_replaced (mid : List Row) (f1 g1 : Fragment) (a b : Fragment) (G : List Gap)
    (h : (a, G, b) ∈ gapRuns (mid ++ [.frag f1])) :
    (a, G, b) ∈ gapRuns (mid ++ [.frag g1]) ∨ (b = f1 ∧ (a, G, g1) ∈ gapRuns (mid ++ [.frag g1])) := by
  induction mid with
  | nil => simp [gapRuns, headRun, nextFrag] at h
  | cons x t ih =>
    cases x with
    | gap g => exact ih h
    | frag c =>
      simp only [List.cons_append, gapRuns_frag_cons] at h ⊢
      rcases List.mem_append.mp h with h | h
      · unfold headRun at h
        cases hn : nextFrag (t ++ [.frag f1]) with
        | none => rw [hn] at h; cases h
        | some q =>
          obtain ⟨G', b'⟩ := q
          rw [hn] at h
          simp only [List.mem_cons, Prod.mk.injEq, List.not_mem_nil, or_false] at h
          obtain ⟨rfl, rfl, rfl⟩ := h
          rcases nextFrag_last_replaced t f1 g1 _ _ hn with e | ⟨e1, e2⟩
          · left; refine List.mem_append_left _ ?_; unfold headRun; rw [e]; simp
          · right; refine ⟨e1, List.mem_append_left _ ?_⟩; unfold headRun; rw [e2]; simp
      · rcases ih h with e | ⟨e1, e2⟩
        · exact Or.inl (List.mem_append_right _ e)
        · exact Or.inr ⟨e1, List.mem_append_right _ e2⟩

/-- in a result satisfying the C18 content invariant every run has the gap rows, facing ends and strands of a run
    of the source scaffold -/
theorem content_runs {src : List Row} {o : OverlapResult} (hc : C18.Content src o) :
    ∀ t ∈ gapRuns o.rows, FromRun src t := by
  rintro ⟨a, G, b⟩ ht
  cases hc with
  | empty h _ => rw [h] at ht; cases ht
  | one A B s r dl dr _ hr hsh _ _ _ _ =>
    obtain ⟨f, g, rfl, _⟩ := hsh
    rw [hr] at ht; simp [gapRuns, headRun, nextFrag] at ht
  | many A B mid s0 s1 r0 r1 dl dr hs hr h0 h1 _ _ _ _ =>
    obtain ⟨f0, g0, rfl, rfl, _⟩ := id h0
    obtain ⟨f1, g1, rfl, rfl, _⟩ := id h1
    have hinf : (Row.frag g0 :: (mid ++ [Row.frag g1])) <:+: src := ⟨A, B, by rw [hs]; simp⟩
    have hsrc := gapRuns_infix hinf
    obtain ⟨hl0, hst0⟩ := short_left h0
    obtain ⟨hr1, hst1⟩ := short_right h1
    rw [hr, List.cons_append, gapRuns_frag_cons] at ht
    -- the right-hand fragment: itself, or the shortened last row
    have right : ∀ a', (a', G, b) ∈ gapRuns (mid ++ [Row.frag g1]) ∨ (b = f1 ∧ (a', G, g1) ∈ gapRuns (mid ++ [Row.frag g1])) →
        ∃ b0, (a', G, b0) ∈ gapRuns (mid ++ [Row.frag g1]) ∧ rightFacing b = rightFacing b0 ∧ b.strand = b0.strand := by
      rintro a' (e | ⟨e1, e2⟩)
      · exact ⟨b, e, rfl, rfl⟩
      · exact ⟨g1, e2, by rw [e1]; exact hr1, by rw [e1]; exact hst1⟩
    rcases List.mem_append.mp ht with ht | ht
    · unfold headRun at ht
      cases hn : nextFrag (mid ++ [Row.frag f1]) with
      | none => rw [hn] at ht; cases ht
      | some q =>
        obtain ⟨G', b'⟩ := q
        rw [hn] at ht
        simp only [List.mem_cons, Prod.mk.injEq, List.not_mem_nil, or_false] at ht
        obtain ⟨rfl, rfl, rfl⟩ := ht
        have hh : ∃ b0, nextFrag (mid ++ [Row.frag g1]) = some (G, b0) ∧ rightFacing b = rightFacing b0 ∧
            b.strand = b0.strand := by
          rcases nextFrag_last_replaced mid f1 g1 _ _ hn with e | ⟨e1, e2⟩
          · exact ⟨b, e, rfl, rfl⟩
          · exact ⟨g1, e2, by rw [e1]; exact hr1, by rw [e1]; exact hst1⟩
        obtain ⟨b0, e, p1, p2⟩ := hh
        refine ⟨g0, b0, hsrc _ ?_, hl0, p1, hst0, p2⟩
        rw [gapRuns_frag_cons]
        refine List.mem_append_left _ ?_
        unfold headRun; rw [e]; simp
    · obtain ⟨b0, e, p1, p2⟩ := right a (gapRuns_last_replaced mid f1 g1 a b G ht)
      exact ⟨a, b0, hsrc _ (mem_gapRuns_cons _ _ _ e), rfl, p1, rfl, p2⟩

/-! ### runs of the input, up to reversal -/

/-- `t` has the facing ends and gap rows of `q`, read in the same direction or from the other side -/
def RunMatch (t q : Run) : Prop :=
  (facingEnds t.1 t.2.2 = facingEnds q.1 q.2.2 ∧ t.2.1 = q.2.1) ∨
  (facingEnds t.1 t.2.2 = (facingEnds q.1 q.2.2).swap ∧ t.2.1 = q.2.1.reverse)

instance (t q : Run) : Decidable (RunMatch t q) := by unfold RunMatch; infer_instance

/-- `t`'s two fragments are (by their facing contig ends) consecutive fragments of one input scaffold, and `t`'s gap rows
    are exactly the gap rows the input has between them (in reverse order if the pair is traversed in reverse) -/
def InputRun (input : List Scaffold) (t : Run) : Prop := ∃ sc ∈ input, ∃ q ∈ gapRuns sc.rows, RunMatch t q

instance (input : List Scaffold) (t : Run) : Decidable (InputRun input t) := by unfold InputRun; infer_instance

theorem runMatch_mirror (q : Run) (h1 : StrandPM q.1) (h2 : StrandPM q.2.2) : RunMatch (mirrorRun q) q := by
  obtain ⟨a, G, b⟩ := q
  right
  refine ⟨?_, rfl⟩
  have := facingEnds_mirror a b h1 h2
  simpa [mirror, mirrorRun] using this

/-- runs of `to_scaffold`'s rows, traced to the source scaffold -/
theorem toScaffoldRows_runs {src : List Row} {o : OverlapResult} (hc : C18.Content src o)
    (hsrc : ∀ q ∈ gapRuns src, StrandPM q.1 ∧ StrandPM q.2.2) :
    ∀ t ∈ gapRuns o.toScaffoldRows, ∃ q ∈ gapRuns src, RunMatch t q := by
  have key : ∀ t ∈ gapRuns o.rows, ∃ q ∈ gapRuns src, facingEnds t.1 t.2.2 = facingEnds q.1 q.2.2 ∧ t.2.1 = q.2.1 ∧
      StrandPM t.1 ∧ StrandPM t.2.2 := by
    intro t ht
    obtain ⟨a0, b0, h0, e1, e2, s1, s2⟩ := content_runs hc t ht
    obtain ⟨p1, p2⟩ := hsrc _ h0
    refine ⟨(a0, t.2.1, b0), h0, by simp [facingEnds, e1, e2], rfl, ?_, ?_⟩
    · unfold StrandPM; rw [s1]; exact p1
    · unfold StrandPM; rw [s2]; exact p2
  intro t ht
  unfold OverlapResult.toScaffoldRows at ht
  split at ht
  · obtain ⟨q, hq, rfl⟩ := gapRuns_reverse_map _ t ht
    obtain ⟨q0, hq0, e1, e2, sa, sb⟩ := key q hq
    refine ⟨q0, hq0, ?_⟩
    have hm := runMatch_mirror q sa sb
    unfold RunMatch at hm ⊢
    rw [← e1, ← e2]; exact hm
  · obtain ⟨q0, hq0, e1, e2, _, _⟩ := key t ht
    exact ⟨q0, hq0, Or.inl ⟨e1, e2⟩⟩

end AgpTpf.C07
