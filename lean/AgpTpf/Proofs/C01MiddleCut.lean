/-
  C01, the middle of `remap_to_input_assembly` — part 4 (L3): `cut_fragments` / `cutRemaining` replace, in every
  holder of a multiply-found contig, the contig's row by a piece; the pieces tile the contig, so afterwards every base
  of that contig is held by exactly one row of the store.
-/
import AgpTpf.Proofs.C01MiddleRound
import AgpTpf.Proofs.C01Cut
namespace AgpTpf.C01
open AgpTpf

/-- every fragment in a row of the store is a fragment of the input, or a piece of one whose object id is `≥ n0` -/
def RowsOK (input : List Scaffold) (n0 : Nat) (store : List Res) : Prop :=
  ∀ r ∈ store, ∀ g ∈ fragmentsOf r.o.rows,
    g ∈ inputFrags input ∨ (n0 ≤ g.oid ∧ ∃ F ∈ inputFrags input, PieceOf F g)

/-- what `trim_fragment` does to the rows: the terminal row that IS `trim` (same object) is replaced by the new piece -/
theorem trimFragment_replace (o : OverlapResult) (trim : Fragment) (ks ke : Bool) (oid : Nat)
    (o' : OverlapResult) (new : Fragment) (h : o.trimFragment trim ks ke oid = .ok (o', new)) :
    (∃ t g, o.rows = t ++ [.frag g] ∧ g.oid = trim.oid ∧ o'.rows = t ++ [.frag new]) ∨
    (∃ t g, o.rows = .frag g :: t ∧ g.oid = trim.oid ∧ o'.rows = .frag new :: t) := by
  unfold OverlapResult.trimFragment at h
  simp only [bind, Except.bind, pure, Except.pure] at h
  split at h
  · cases h
  · rename_i atStart hs
    split at h
    · cases h
    · rename_i atEnd he
      split at h
      · cases h
      · rename_i hne
        split at h
        · cases h
        · rename_i nf hmk
          cases h
          simp only
          cases atEnd with
          | true =>
            left
            obtain ⟨g, t, hrows, hg⟩ := lastIs_true he
            simp only at hrows
            refine ⟨t, g, hrows, hg, ?_⟩
            simp only [↓reduceIte, hrows]
            exact C18.setLast_concat t _ _
          | false =>
            right
            cases atStart with
            | true =>
              obtain ⟨g, t, hrows, hg⟩ := firstIs_true hs
              refine ⟨t, g, hrows, hg, ?_⟩
              simp only [Bool.false_eq_true, ↓reduceIte, hrows]
            | false => simp at hne

theorem getElem?_of_map_added {store : List Res} {sid : Nat} (h : (store.map (·.added))[sid]? = some true) :
    ∃ r, store[sid]? = some r ∧ r.added = true := by
  rw [List.getElem?_map] at h
  cases hs : store[sid]? with
  | none => rw [hs] at h; cases h
  | some r => rw [hs] at h; simp only [Option.map_some, Option.some.injEq] at h; exact ⟨r, rfl, h⟩

theorem ind_add (c : Bool) (a b : Nat) : (if c = true then a + b else 0) = (if c = true then a else 0) + (if c = true then b else 0) := by
  cases c <;> simp

/-- one holder: the row that is `F` is replaced by a new piece of `F` -/
theorem cutStep_account (input : List Scaffold) (hwf : WFInput input) (n0 : Nat) (hbelow : ∀ f ∈ inputFrags input, f.oid < n0)
    (F : Fragment) (hF : F ∈ inputFrags input) (last : Nat) (b : Build) (subs : List Fragment) (i sid : Nat)
    (b' : Build) (subs' : List Fragment) (i' : Nat)
    (hrows : RowsOK input n0 b.store) (hn : n0 ≤ b.nextOid) (hA : (b.store.map (·.added))[sid]? = some true)
    (h : cutStep F last (b, subs, i) sid = .ok (b', subs', i')) :
    ∃ new, subs' = subs ++ [new] ∧ PieceOf F new ∧ RowsOK input n0 b'.store ∧ n0 ≤ b'.nextOid ∧
      b'.store.map (·.added) = b.store.map (·.added) ∧ b'.found = b.found ∧ b'.extra = b.extra ∧
      ∀ q : Fragment → Bool, (storeFrags b'.store).countP q + (if q F then 1 else 0) =
        (storeFrags b.store).countP q + (if q new then 1 else 0) := by
  obtain ⟨r, hr, hadd⟩ := getElem?_of_map_added hA
  unfold cutStep at h
  simp only [bind, Except.bind] at h
  rw [getD_of_getElem? hr] at h
  split at h
  · cases h
  · next v hv =>
    obtain ⟨o, new⟩ := v
    simp only [pure, Except.pure, Except.ok.injEq, Prod.mk.injEq] at h
    obtain ⟨rfl, rfl, rfl⟩ := h
    obtain ⟨h1, h2, h3, h4, h5, h6⟩ := trim_within_aux _ _ _ _ _ _ _ hv
    have hpiece : PieceOf F new := ⟨h1, h2, h3, h4, h5⟩
    have hgF : ∀ g, g ∈ fragmentsOf r.o.rows → g.oid = F.oid → g = F := by
      intro g hg hoid
      rcases hrows r (List.mem_of_getElem? hr) g hg with hin | ⟨hge, _⟩
      · exact hwf.oid_inj hin hF hoid
      · have := hbelow F hF; omega
    have hnewok : new ∈ inputFrags input ∨ (n0 ≤ new.oid ∧ ∃ F' ∈ inputFrags input, PieceOf F' new) :=
      Or.inr ⟨by omega, F, hF, hpiece⟩
    have hset := fun q => storeFrags_set_count q b.store sid r { r with o := o } hr
    refine ⟨new, rfl, hpiece, ?_, by simp only; omega, ?_, rfl, rfl, ?_⟩
    · -- RowsOK
      intro x hx g hg
      rcases C07.mem_setAt _ _ _ _ hx with hx | rfl
      · exact hrows x hx g hg
      · simp only at hg
        rcases trimFragment_replace _ _ _ _ _ _ _ hv with ⟨t, g0, e1, _, e2⟩ | ⟨t, g0, e1, _, e2⟩
        · rw [e2, fragmentsOf_append] at hg
          rcases List.mem_append.mp hg with hg | hg
          · exact hrows r (List.mem_of_getElem? hr) g (by rw [e1, fragmentsOf_append]; exact List.mem_append_left _ hg)
          · simp only [fragmentsOf, List.mem_cons, List.not_mem_nil, or_false] at hg
            subst hg; exact hnewok
        · rw [e2] at hg
          simp only [fragmentsOf, List.mem_cons] at hg
          rcases hg with rfl | hg
          · exact hnewok
          · exact hrows r (List.mem_of_getElem? hr) g (by rw [e1]; simp only [fragmentsOf]; exact List.mem_cons_of_mem _ hg)
    · exact map_setAt_same (·.added) b.store sid { r with o := o } (by rw [getD_of_getElem? hr])
    · intro q
      have hs := hset q
      simp only [setAt]
      have e_r : resFrags r = fragmentsOf r.o.rows := by simp [resFrags, hadd]
      have e_r' : resFrags { r with o := o } = fragmentsOf o.rows := by simp [resFrags, hadd]
      rw [e_r, e_r'] at hs
      rcases trimFragment_replace _ _ _ _ _ _ _ hv with ⟨t, g0, e1, eo, e2⟩ | ⟨t, g0, e1, eo, e2⟩
      · have := hgF g0 (by rw [e1, fragmentsOf_append]; simp [fragmentsOf]) eo
        subst this
        rw [e1, e2] at hs
        simp only [fragmentsOf_append, fragmentsOf, List.countP_append, List.countP_cons, List.countP_nil] at hs
        omega
      · have := hgF g0 (by rw [e1]; simp [fragmentsOf]) eo
        subst this
        rw [e1, e2] at hs
        simp only [fragmentsOf, List.countP_cons] at hs
        omega

theorem cutOrder_perm (b : Build) (fnd : Found) (ordered : List Nat) (h : cutOrder b fnd = .ok ordered) :
    ordered.Perm fnd.scaffolds := by
  unfold cutOrder at h
  simp only [bind, Except.bind] at h
  split at h
  · cases h
  · next keyed hk =>
    simp only [pure, Except.pure, Except.ok.injEq] at h
    subst h
    have h1 : keyed.map (·.2) = fnd.scaffolds :=
      C07.mapM_keyed_snd (fun sid => (getRes b.store sid).fragmentStartIfTrimmed fnd.fragment) fnd.scaffolds keyed hk
    rw [← h1]
    exact (stableSort_perm _ keyed).map (·.2)

/-- name-aware cover count of pieces of one contig fragment -/
theorem countP_covers_pieces (F : Fragment) (subs : List Fragment) (hname : ∀ s ∈ subs, s.name = F.name) (n : Str) (x : Int) :
    subs.countP (covers n x) = if F.name = n then coverCount subs x else 0 := by
  induction subs with
  | nil => simp [coverCount]
  | cons s t ih =>
    have hs := hname s (List.mem_cons_self ..)
    rw [List.countP_cons, ih (fun y hy => hname y (List.mem_cons_of_mem _ hy)), coverCount_cons]
    by_cases e : F.name = n
    · by_cases c : s.start ≤ x ∧ x ≤ s.stop
      · simp only [e, ↓reduceIte, covers, hs, c, and_self, decide_true]
        omega
      · simp only [e, ↓reduceIte, covers, hs, true_and, c, decide_false, Bool.false_eq_true]
        omega
    · have : covers n x s = false := by simp [covers, hs, e]
      simp [e, this]

/-- loop invariant of `cut_fragments` -/
def CutP (input : List Scaffold) (n0 : Nat) (b : Build) (fnd : Found) (st : Build × List Fragment × Nat) : Prop :=
    RowsOK input n0 st.1.store ∧ n0 ≤ st.1.nextOid ∧ st.1.store.map (·.added) = b.store.map (·.added) ∧
    st.1.found = b.found ∧ st.1.extra = b.extra ∧ (∀ s ∈ st.2.1, PieceOf fnd.fragment s) ∧
    ∀ q : Fragment → Bool, (storeFrags st.1.store).countP q + (if q fnd.fragment then st.2.1.length else 0) =
      (storeFrags b.store).countP q + st.2.1.countP q

/-- `cut_fragments` for one registry entry: the number of store rows covering base `x` of contig `n` changes from
    (number of holders) to 1 on the cut fragment and not at all elsewhere -/
theorem cutFragments_account (input : List Scaffold) (hwf : WFInput input) (n0 : Nat)
    (hbelow : ∀ f ∈ inputFrags input, f.oid < n0) (b b' : Build) (fnd : Found) (hF : fnd.fragment ∈ inputFrags input)
    (hrows : RowsOK input n0 b.store) (hn : n0 ≤ b.nextOid)
    (hA : ∀ sid ∈ fnd.scaffolds, (b.store.map (·.added))[sid]? = some true)
    (h : cutFragments b fnd = .ok b') :
    RowsOK input n0 b'.store ∧ n0 ≤ b'.nextOid ∧ b'.store.map (·.added) = b.store.map (·.added) ∧
    b'.found = b.found ∧ b'.extra = b.extra ∧
    ∀ n x, (storeFrags b'.store).countP (covers n x) + (if covers n x fnd.fragment then fnd.scaffolds.length else 0) =
      (storeFrags b.store).countP (covers n x) + (if covers n x fnd.fragment then 1 else 0) := by
  obtain ⟨ordered, b1, subs, m, ho, hf, hq, rfl⟩ := cutFragments_ok b b' fnd h
  have hperm := cutOrder_perm b fnd ordered ho
  have hfin : CutP input n0 b fnd (b1, subs, m) := by
    refine foldlM_inv_mem (CutP input n0 b fnd) _ ordered ?_ (b, [], 0) (b1, subs, m)
      ⟨hrows, hn, rfl, rfl, rfl, by simp, by simp⟩ hf
    intro st sid st' hsid hP hstep
    obtain ⟨bc, sc, ic⟩ := st
    obtain ⟨bc', sc', ic'⟩ := st'
    simp only [CutP] at hP ⊢
    obtain ⟨p1, p2, p3, p4, p4', p5, p6⟩ := hP
    have hA' : (bc.store.map (·.added))[sid]? = some true := by
      rw [p3]; exact hA sid (hperm.subset hsid)
    obtain ⟨new, rfl, hpc, q1, q2, q3, q4, q5, q6⟩ :=
      cutStep_account input hwf n0 hbelow fnd.fragment hF _ bc sc ic sid bc' sc' ic' p1 p2 hA' hstep
    refine ⟨q1, q2, q3.trans p3, q4.trans p4, q5.trans p4', ?_, ?_⟩
    · intro s hs
      rcases List.mem_append.mp hs with hs | hs
      · exact p5 s hs
      · simp only [List.mem_cons, List.not_mem_nil, or_false] at hs; subst hs; exact hpc
    · intro q
      have a1 := q6 q
      have a2 := p6 q
      simp only [List.length_append, List.length_cons, List.length_nil, List.countP_append, List.countP_cons,
        List.countP_nil, Nat.zero_add]
      rw [ind_add]
      omega
  simp only [CutP] at hfin
  obtain ⟨r1, r2, r3, r4, r4', r5, r6⟩ := hfin
  refine ⟨r1, r2, r3, r4, r4', ?_⟩
  intro n x
  have hlen : subs.length = fnd.scaffolds.length := by
    obtain ⟨news, hsubs, hl, _, _⟩ := foldlM_cutStep _ _ _ _ _ _ _ _ _ hf
    simp only [List.nil_append] at hsubs
    rw [hsubs, hl, hperm.length_eq]
  have htile := (qc_tiles_aux fnd.fragment subs (fun s hs => (r5 s hs).2.2.1) hq).2.2.2.2.2
      (fun s hs => ⟨(r5 s hs).1, (r5 s hs).2.1⟩) x
  have hcnt := countP_covers_pieces fnd.fragment subs (fun s hs => (r5 s hs).2.2.2.1) n x
  have a := r6 (covers n x)
  rw [hlen, hcnt, htile] at a
  simp only
  rw [a]
  congr 1
  by_cases e : fnd.fragment.name = n
  · by_cases c : fnd.fragment.start ≤ x ∧ x ≤ fnd.fragment.stop
    · simp [covers, e, c]
    · simp [covers, e, c]
  · simp [covers, e]

/-! ### `cutRemaining` -/

/-- loop body of `cutRemaining` (verbatim) -/
def cutKey (b : Build) (k : Key) : R Build :=
  match dGet? b.found k with
  | some fnd => cutFragments b fnd
  | none => pure b

theorem cutRemaining_eq' (b : Build) :
    cutRemaining b = (do let b ← b.multi.foldlM cutKey b; pure { b with multi := [] }) := rfl

/-- state of the cutting loop relative to the build `b1` it started from; `done` are the keys already cut -/
structure CInv (input : List Scaffold) (n0 : Nat) (b1 : Build) (done : List Key) (b : Build) : Prop where
  rows : RowsOK input n0 b.store
  oid : n0 ≤ b.nextOid
  added : b.store.map (·.added) = b1.store.map (·.added)
  found : b.found = b1.found
  extra : b.extra = b1.extra
  cut : ∀ n x, ∀ k ∈ done, ∀ fnd, dGet? b1.found k = some fnd → covers n x fnd.fragment = true →
    (storeFrags b.store).countP (covers n x) = 1
  uncut : ∀ n x, (∀ k ∈ done, ∀ fnd, dGet? b1.found k = some fnd → covers n x fnd.fragment = false) →
    (storeFrags b.store).countP (covers n x) = (storeFrags b1.store).countP (covers n x)

theorem Mid.store_input {input b} (hm : Mid input b) : ∀ g ∈ storeFrags b.store, g ∈ inputFrags input := by
  intro g hg
  unfold storeFrags at hg
  obtain ⟨r, hr, hgr⟩ := List.mem_flatMap.mp hg
  unfold resFrags at hgr
  split at hgr
  · obtain ⟨sc, hsc, hinf⟩ := hm.slices r hr
    exact mem_inputFrags.mpr ⟨sc, hsc, fragmentsOf_infix hinf g hgr⟩
  · cases hgr

/-- before cutting, the rows of the store that cover a base of an input fragment `F` are exactly the rows holding `F`:
    as many as `F`'s key has holders -/
theorem Mid.cover_eq_holders {input b} (hm : Mid input b) (hwf : WFInput input) (F : Fragment)
    (hF : F ∈ inputFrags input) (n : Str) (x : Int) (hc : covers n x F = true) :
    (storeFrags b.store).countP (covers n x) = (holders b F.keyTuple).length := by
  rw [hm.total]
  apply List.countP_congr
  intro g hg
  have hgin := hm.store_input g hg
  constructor
  · intro hcg
    have := hwf.cover_unique hgin hF hcg hc
    subst this; simp [hasKey]
  · intro hk
    have : g = F := hwf.key_inj hgin hF (by simpa [hasKey] using hk)
    subst this; exact hc

theorem cutFold (input : List Scaffold) (hwf : WFInput input) (n0 : Nat) (hbelow : ∀ f ∈ inputFrags input, f.oid < n0)
    (b1 : Build) (hm : Mid input b1) : ∀ (ks done : List Key) (b b' : Build),
    CInv input n0 b1 done b → ks.Nodup → (∀ k ∈ ks, k ∉ done) → (∀ k ∈ ks, k ∈ b1.multi) →
    ks.foldlM cutKey b = .ok b' → CInv input n0 b1 (done ++ ks) b'
  | [], done, b, b', hc, _, _, _, h => by
    simp only [List.foldlM_nil, pure, Except.pure, Except.ok.injEq] at h
    subst h; simpa using hc
  | k :: ks, done, b, b', hc, hnd, hnot, hmul, h => by
    rw [List.foldlM_cons] at h
    simp only [bind, Except.bind] at h
    split at h
    · cases h
    · next bm hbm =>
      rw [List.nodup_cons] at hnd
      have hkm : k ∈ b1.multi := hmul k (List.mem_cons_self ..)
      have h2 : 2 ≤ (holders b1 k).length := (hm.registry.2 k).mp hkm
      have hstep : CInv input n0 b1 (done ++ [k]) bm := by
        unfold cutKey at hbm
        rw [hc.found] at hbm
        cases hf : dGet? b1.found k with
        | none => simp [holders, hf] at h2
        | some fnd =>
          rw [hf] at hbm
          simp only at hbm
          obtain ⟨hkey, hFin⟩ := hm.foundOK k fnd hf
          have hh : holders b1 k = fnd.scaffolds := by simp [holders, hf]
          have hA : ∀ sid ∈ fnd.scaffolds, (b.store.map (·.added))[sid]? = some true := by
            intro sid hsid
            obtain ⟨r, hr, hadd⟩ := hm.holder_added (k := k) (hh ▸ hsid)
            rw [hc.added, List.getElem?_map, hr]; simp [hadd]
          obtain ⟨a1, a2, a3, a4, a4', a5⟩ := cutFragments_account input hwf n0 hbelow b bm fnd hFin hc.rows hc.oid hA hbm
          -- a fragment recorded for a done key differs from this one
          have hother : ∀ n x, ∀ k' ∈ done, ∀ fnd', dGet? b1.found k' = some fnd' → covers n x fnd'.fragment = true →
              covers n x fnd.fragment = false := by
            intro n x k' hk' fnd' hf' hc'
            cases hcf : covers n x fnd.fragment with
            | false => rfl
            | true =>
              exfalso
              obtain ⟨hkey', hFin'⟩ := hm.foundOK k' fnd' hf'
              have := hwf.cover_unique hFin' hFin hc' hcf
              apply hnot k (List.mem_cons_self ..)
              rw [← hkey, ← this, hkey']; exact hk'
          refine ⟨a1, a2, a3.trans hc.added, a4.trans hc.found, a4'.trans hc.extra, ?_, ?_⟩
          · intro n x k' hk' fnd' hf' hc'
            have e := a5 n x
            rcases List.mem_append.mp hk' with hk' | hk'
            · have hno := hother n x k' hk' fnd' hf' hc'
              rw [hno] at e
              simp only [Bool.false_eq_true, ↓reduceIte, Nat.add_zero] at e
              rw [e]; exact hc.cut n x k' hk' fnd' hf' hc'
            · simp only [List.mem_cons, List.not_mem_nil, or_false] at hk'
              subst hk'
              rw [hf] at hf'; cases hf'
              rw [hc'] at e
              simp only [↓reduceIte] at e
              have hun := hc.uncut n x (fun k'' hk'' fnd'' hf'' => by
                cases hcc : covers n x fnd''.fragment with
                | false => rfl
                | true =>
                  have := hother n x k'' hk'' fnd'' hf'' hcc
                  rw [hc'] at this; cases this)
              have hcov := hm.cover_eq_holders hwf fnd.fragment hFin n x hc'
              rw [hkey, hh] at hcov
              omega
          · intro n x hall
            have e := a5 n x
            have hno : covers n x fnd.fragment = false := hall k (by simp) fnd hf
            rw [hno] at e
            simp only [Bool.false_eq_true, ↓reduceIte, Nat.add_zero] at e
            rw [e]
            exact hc.uncut n x (fun k' hk' => hall k' (List.mem_append_left _ hk'))
      have := cutFold input hwf n0 hbelow b1 hm ks (done ++ [k]) bm b' hstep hnd.2
        (fun k' hk' hmem => by
          rcases List.mem_append.mp hmem with hmem | hmem
          · exact hnot k' (List.mem_cons_of_mem _ hk') hmem
          · simp only [List.mem_cons, List.not_mem_nil, or_false] at hmem
            subst hmem; exact hnd.1 hk')
        (fun k' hk' => hmul k' (List.mem_cons_of_mem _ hk')) h
      simpa using this

end AgpTpf.C01
