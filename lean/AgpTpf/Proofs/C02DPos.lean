/-
  C02 (deep cuts), part 8: where the cut falls (`deep_cut_position`), and every cut piece is a contiguous run of its
  output scaffold.
-/
import AgpTpf.Proofs.C02DCheck
namespace AgpTpf.C02
open AgpTpf OverlapResult

theorem site_eq_of_frag {input ptx : List Scaffold} {err : Int} (hd : DeepCut input ptx err) (x y : Site)
    (hx : x ∈ sites input ptx) (hy : y ∈ sites input ptx) (h : y.frag = x.frag) : y = x := by
  have hk := frag_eq_key_eq hd x y hx hy h
  rw [(site_key hd x hx).2.1, (site_key hd y hy).2.1, hk]

/-- the start of piece `a` of a site is cut (at another site) only if its result has at least two rows -/
theorem start_cut_at_a {input ptx : List Scaffold} {err : Int} (hd : DeepCut input ptx err) (x : Site)
    (hx : x ∈ sites input ptx) (l : List (Site × Nat)) (hl : ∀ y ∈ l, y.1 ∈ sites input ptx) (base : Nat) :
    ∀ oid', startCutIn base l x.a = some oid' →
      base ≤ oid' ∧ ∀ G r, (pieceO input (pieceAt ptx x.a).2).rows = .frag G :: r → r ≠ [] := by
  have hok := hd.sitesOk x hx
  intro oid' hs
  unfold startCutIn at hs
  cases hf : l.find? (fun y => y.1.b = x.a) with
  | none => rw [hf] at hs; cases hs
  | some y =>
    rw [hf] at hs
    simp only [Option.map_some, Option.some.injEq] at hs
    have hy := hl y (List.mem_of_find?_eq_some hf)
    have hyb : y.1.b = x.a := by simpa using List.find?_some hf
    refine ⟨by rw [← hs]; unfold oidB; omega, ?_⟩
    intro G r hr hr0
    subst hr0
    have h1 := (hd.sitesOk y.1 hy).headB
    rw [hyb, hr] at h1
    have h2 := hok.lastA
    rw [hr] at h2
    simp only [List.head?_cons, List.getLast?_singleton, Option.some.injEq, Row.frag.injEq] at h1 h2
    have := site_eq_of_frag hd x y.1 hx hy (h1.symm.trans h2)
    rw [this] at hyb
    exact hok.ne hyb.symm

theorem end_cut_at_b {input ptx : List Scaffold} {err : Int} (hd : DeepCut input ptx err) (x : Site)
    (hx : x ∈ sites input ptx) (l : List (Site × Nat)) (hl : ∀ y ∈ l, y.1 ∈ sites input ptx) (base : Nat) :
    ∀ oid', endCutIn base l x.b = some oid' →
      base ≤ oid' ∧ ∀ H t, (pieceO input (pieceAt ptx x.b).2).rows = t ++ [.frag H] → t ≠ [] := by
  have hok := hd.sitesOk x hx
  intro oid' hs
  unfold endCutIn at hs
  cases hf : l.find? (fun y => y.1.a = x.b) with
  | none => rw [hf] at hs; cases hs
  | some y =>
    rw [hf] at hs
    simp only [Option.map_some, Option.some.injEq] at hs
    have hy := hl y (List.mem_of_find?_eq_some hf)
    have hya : y.1.a = x.b := by simpa using List.find?_some hf
    refine ⟨by rw [← hs]; unfold oidA; omega, ?_⟩
    intro H t hr ht0
    subst ht0
    have h1 := (hd.sitesOk y.1 hy).lastA
    rw [hya, hr] at h1
    have h2 := hok.headB
    rw [hr] at h2
    simp only [List.nil_append, List.head?_cons, List.getLast?_singleton, Option.some.injEq, Row.frag.injEq] at h1 h2
    have := site_eq_of_frag hd x y.1 hx hy (h1.symm.trans h2)
    rw [this] at hya
    exact hok.ne hya

theorem zipIdx_sites_mem {input ptx : List Scaffold} (y : Site × Nat) (hy : y ∈ (sites input ptx).zipIdx) :
    y.1 ∈ sites input ptx := by
  obtain ⟨y1, y2⟩ := y
  obtain ⟨_, h⟩ := List.mem_zipIdx' hy
  rw [h]; exact List.getElem_mem _

theorem exists_zipIdx_of_mem {α} {l : List α} {x : α} (h : x ∈ l) : ∃ j, (x, j) ∈ l.zipIdx := by
  obtain ⟨j, hj, rfl⟩ := List.getElem_of_mem h
  exact ⟨j, by rw [List.mem_zipIdx_iff_getElem?]; simp [hj]⟩

/-- the rows of the two pieces of a site after cutting -/
theorem cut_rows_of_site {input ptx : List Scaffold} {err : Int} (hd : DeepCut input ptx err) (x : Site)
    (hx : x ∈ sites input ptx) :
    (∃ ta e, (cutPiece input ptx x.a (pieceAt ptx x.a).2).rows =
      ta ++ [.frag (cutFragEnd x.frag ((pieceO input (pieceAt ptx x.a).2).stop - (pieceAt ptx x.a).2.stop) e)]) ∧
    (∃ rb s, (cutPiece input ptx x.b (pieceAt ptx x.b).2).rows =
      .frag (cutFragStart x.frag ((pieceAt ptx x.b).2.start - (pieceO input (pieceAt ptx x.b).2).start) s) :: rb) := by
  have hok := hd.sitesOk x hx
  obtain ⟨-, hfa⟩ := hd.piece x.a hok.inA
  obtain ⟨-, hfb⟩ := hd.piece x.b hok.inB
  obtain ⟨ta, hta⟩ := List.getLast?_eq_some_iff.1 hok.lastA
  obtain ⟨Ga, ra, hGa⟩ := hfa.head
  obtain ⟨rb, hrb⟩ := List.head?_eq_some_iff.1 hok.headB
  obtain ⟨Hb, tb, hHb⟩ := hfb.last
  have hFoid : x.frag.oid < oid0 input := by
    obtain ⟨sc, hsc, hinf⟩ := hfa.slice
    exact oid_lt_oid0 input sc hsc _ hinf _ (by rw [hta, C18.ids_append]; simp [C18.ids, fragmentsOf])
  obtain ⟨j, hj⟩ := exists_zipIdx_of_mem hx
  constructor
  · -- piece a: the end is cut
    obtain ⟨e, he⟩ : ∃ e, endCutIn (oid0 input) (sites input ptx).zipIdx x.a = some e := by
      unfold endCutIn
      cases hf : (sites input ptx).zipIdx.find? (fun y => y.1.a = x.a) with
      | some y => exact ⟨_, rfl⟩
      | none =>
        have := List.find?_eq_none.1 hf (x, j) hj
        simp at this
    obtain ⟨⟨ta', hrows⟩, hstop, hbait, -⟩ := cutO_a_facts (pieceO input (pieceAt ptx x.a).2) x.frag Ga ra ta
      (startCutIn (oid0 input) (sites input ptx).zipIdx x.a) (oid0 input) hGa hta hfa.distinct hFoid
      (fun oid' h => by
        have := start_cut_at_a hd x hx _ (fun y hy => zipIdx_sites_mem y hy) (oid0 input) oid' h
        exact ⟨this.1, this.2 Ga ra hGa⟩)
    refine ⟨ta', e, ?_⟩
    show (cutO _ _ _).rows = _
    rw [he]
    show (trimEndSpec e (cutO (startCutIn (oid0 input) (sites input ptx).zipIdx x.a) none
      (pieceO input (pieceAt ptx x.a).2))).rows = _
    unfold trimEndSpec
    rw [hrows]
    simp only [List.reverse_append, List.reverse_cons, List.reverse_nil, List.nil_append, List.cons_append,
      List.reverse_reverse, hstop, hbait, hfa.bait]
  · obtain ⟨s, hs⟩ : ∃ s, startCutIn (oid0 input) (sites input ptx).zipIdx x.b = some s := by
      unfold startCutIn
      cases hf : (sites input ptx).zipIdx.find? (fun y => y.1.b = x.b) with
      | some y => exact ⟨_, rfl⟩
      | none =>
        have := List.find?_eq_none.1 hf (x, j) hj
        simp at this
    have h1 : (trimStartSpec s (pieceO input (pieceAt ptx x.b).2)).rows =
        .frag (cutFragStart x.frag ((pieceAt ptx x.b).2.start - (pieceO input (pieceAt ptx x.b).2).start) s) :: rb := by
      unfold trimStartSpec
      rw [hrb, hfb.bait]
    cases hec : endCutIn (oid0 input) (sites input ptx).zipIdx x.b with
    | none =>
      refine ⟨rb, s, ?_⟩
      show (cutO _ _ _).rows = _
      rw [hs, hec]
      exact h1
    | some e =>
      have htb := (end_cut_at_b hd x hx _ (fun y hy => zipIdx_sites_mem y hy) (oid0 input) e hec).2 Hb tb hHb
      obtain ⟨m, hm⟩ : ∃ m, rb = m ++ [.frag Hb] := by
        cases tb with
        | nil => exact absurd rfl htb
        | cons y t' =>
          rw [hrb] at hHb
          simp only [List.cons_append, List.cons.injEq] at hHb
          exact ⟨t', hHb.2⟩
      refine ⟨m ++ [.frag (cutFragEnd Hb ((pieceO input (pieceAt ptx x.b).2).stop -
        (pieceO input (pieceAt ptx x.b).2).bait.stop) e)], s, ?_⟩
      show (cutO _ _ _).rows = _
      rw [hs, hec]
      show (trimEndSpec e (trimStartSpec s (pieceO input (pieceAt ptx x.b).2))).rows = _
      rw [← trimStart_trimEnd_comm _ x.frag Hb m s e (by rw [← hm]; exact hrb)]
      have h2 : (trimEndSpec e (pieceO input (pieceAt ptx x.b).2)) =
          { pieceO input (pieceAt ptx x.b).2 with
            stop := (pieceO input (pieceAt ptx x.b).2).bait.stop,
            rows := .frag x.frag :: (m ++ [.frag (cutFragEnd Hb ((pieceO input (pieceAt ptx x.b).2).stop -
              (pieceO input (pieceAt ptx x.b).2).bait.stop) e)]) } := by
        unfold trimEndSpec
        rw [hrb, hm]
        simp
      rw [h2]
      unfold trimStartSpec
      simp only [hfb.bait]

/-- every cut piece is one contiguous run of the rows of its Pretext scaffold's output -/
theorem cut_piece_infix (input ptx : List Scaffold) (jg : Gap) (qs : List (Fragment × Nat)) (q : Fragment × Nat)
    (hq : q ∈ qs) : (cutPiece input ptx q.2 q.1).toScaffoldRows <:+: expectedRowsDeep input ptx jg qs := by
  unfold expectedRowsDeep
  have key : ∀ (ps : List (Fragment × Nat)) (built : List Row), q ∈ ps →
      (cutPiece input ptx q.2 q.1).toScaffoldRows <:+:
        ps.foldl (fun built p => Scaffold.appendRows built (cutPiece input ptx p.2 p.1).toScaffoldRows (some jg)) built := by
    intro ps
    induction ps with
    | nil => intro _ h; cases h
    | cons p r ih =>
      intro built h
      simp only [List.foldl_cons]
      rcases List.mem_cons.1 h with rfl | h
      · have mono : ∀ (l : List (Fragment × Nat)) (b : List Row), b <:+:
            l.foldl (fun built p => Scaffold.appendRows built (cutPiece input ptx p.2 p.1).toScaffoldRows (some jg)) b := by
          intro l
          induction l with
          | nil => intro b; exact List.infix_refl _
          | cons y t iht =>
            intro b
            simp only [List.foldl_cons]
            exact (C09.appendRows_prefix b _ _).isInfix.trans (iht _)
        exact (C09.appendRows_suffix built _ _).isInfix.trans (mono r _)
      · exact ih _ h
  exact key qs [] hq

end AgpTpf.C02
