/-
  C10, single-haplotype chromosome numbering, part 1:
  `replaceAll` (Python `str.replace`) lemmas and what `nameGroup` does to a one-haplotype group.
-/
import AgpTpf.Model.Remap
import AgpTpf.Proofs.C09Split
namespace AgpTpf.C10
open AgpTpf

/-! ### `replaceAll` -/

/-- `old in s` (Python substring test) -/
def occursIn (old : Str) : Str → Bool
  | [] => old.isEmpty
  | c :: cs => old.isPrefixOf (c :: cs) || occursIn old cs

theorem isPrefixOf_iff (a b : Str) : a.isPrefixOf b = true ↔ ∃ t, b = a ++ t := by
  rw [List.isPrefixOf_iff_prefix]
  constructor
  · rintro ⟨t, ht⟩; exact ⟨t, ht.symm⟩
  · rintro ⟨t, ht⟩; exact ⟨t, ht.symm⟩

theorem occursIn_iff (old : Str) : ∀ s : Str, occursIn old s = true ↔ ∃ pre post, s = pre ++ old ++ post := by
  intro s
  induction s with
  | nil =>
    unfold occursIn
    constructor
    · intro h
      have : old = [] := by cases old <;> simp_all
      subst this; exact ⟨[], [], rfl⟩
    · rintro ⟨pre, post, h⟩
      have h' := congrArg List.length h
      simp only [List.length_nil, List.length_append] at h'
      have : old.length = 0 := by omega
      cases old with
      | nil => rfl
      | cons _ _ => simp at this
  | cons c cs ih =>
    unfold occursIn
    rw [Bool.or_eq_true, isPrefixOf_iff, ih]
    constructor
    · rintro (⟨t, ht⟩ | ⟨pre, post, h⟩)
      · exact ⟨[], t, by simpa using ht⟩
      · exact ⟨c :: pre, post, by simp [h]⟩
    · rintro ⟨pre, post, h⟩
      cases pre with
      | nil => left; exact ⟨post, by simpa using h⟩
      | cons p pre =>
        right
        simp only [List.cons_append, List.cons.injEq] at h
        exact ⟨pre, post, by simpa using h.2⟩

/-- a character of `old` that is absent from `s` rules out any occurrence -/
theorem occursIn_false_of_mem (old s : Str) (c : Char) (hc : c ∈ old) (hs : c ∉ s) : occursIn old s = false := by
  cases h : occursIn old s with
  | false => rfl
  | true =>
    obtain ⟨pre, post, e⟩ := (occursIn_iff old s).1 h
    exact absurd (by rw [e]; simp [hc]) hs

theorem occursIn_tail {old : Str} {c : Char} {cs : Str} (h : occursIn old (c :: cs) = false) :
    old.isPrefixOf (c :: cs) = false ∧ occursIn old cs = false := by
  unfold occursIn at h
  simpa [Bool.or_eq_false_iff] using h

/-- `replace` is the identity on a string in which `old` does not occur -/
theorem replaceAll_noOcc (old new : Str) : ∀ (fuel : Nat) (s : Str), occursIn old s = false →
    replaceAll old new fuel s = s := by
  intro fuel
  induction fuel with
  | zero => intro s _; cases s <;> rfl
  | succ f ih =>
    intro s hs
    cases s with
    | nil => rfl
    | cons c cs =>
      obtain ⟨h1, h2⟩ := occursIn_tail hs
      unfold replaceAll
      rw [if_neg (by rw [h1]; simp), ih cs h2]

/-- the first occurrence at the head is replaced and the scan continues behind it -/
theorem replaceAll_prefix (old new : Str) (hne : old ≠ []) (fuel : Nat) (rest : Str) :
    replaceAll old new (fuel + 1) (old ++ rest) = new ++ replaceAll old new fuel rest := by
  cases old with
  | nil => exact absurd rfl hne
  | cons o os =>
    have hp : (o :: os).isPrefixOf (o :: (os ++ rest)) = true := by
      rw [isPrefixOf_iff]; exact ⟨rest, rfl⟩
    show replaceAll (o :: os) new (fuel + 1) (o :: (os ++ rest)) = _
    conv => lhs; unfold replaceAll
    have hd : List.drop (o :: os).length (o :: (os ++ rest)) = rest := by simp
    rw [if_pos ⟨hp, by simp⟩, hd]

/-- enough fuel is enough: the result does not depend on it -/
theorem replaceAll_fuel (old new : Str) : ∀ (fuel fuel' : Nat) (s : Str), s.length ≤ fuel → s.length ≤ fuel' →
    replaceAll old new fuel s = replaceAll old new fuel' s := by
  intro fuel
  induction fuel with
  | zero =>
    intro fuel' s h _
    have : s = [] := by cases s with | nil => rfl | cons _ _ => simp at h
    subst this
    cases fuel' <;> rfl
  | succ f ih =>
    intro fuel' s h h'
    cases s with
    | nil => cases fuel' <;> rfl
    | cons c cs =>
      cases fuel' with
      | zero => simp at h'
      | succ f' =>
        simp only [List.length_cons] at h h'
        unfold replaceAll
        split
        · rename_i hc
          have hol : 1 ≤ old.length := by
            cases old with
            | nil => exact absurd hc.2 (by simp)
            | cons _ _ => simp
          have hd : ((c :: cs).drop old.length).length ≤ cs.length := by
            simp only [List.length_drop, List.length_cons]; omega
          rw [ih f' _ (by omega) (by omega)]
        · rw [ih f' cs (by omega) (by omega)]

/-- a name equal to `old` becomes `new` -/
theorem replaceAll_self (old new : Str) (hne : old ≠ []) (fuel : Nat) :
    replaceAll old new (fuel + 1) old = new := by
  have := replaceAll_prefix old new hne fuel []
  rw [List.append_nil] at this
  rw [this]
  have : replaceAll old new fuel [] = [] := by cases fuel <;> rfl
  rw [this, List.append_nil]

/-- a name `old ++ rest` with no further occurrence of `old` in `rest` becomes `new ++ rest` -/
theorem replaceAll_prefix_noOcc (old new : Str) (hne : old ≠ []) (fuel : Nat) (rest : Str)
    (h : occursIn old rest = false) : replaceAll old new (fuel + 1) (old ++ rest) = new ++ rest := by
  rw [replaceAll_prefix old new hne, replaceAll_noOcc old new fuel rest h]

/-! ### `nameGroup` on a one-haplotype, one-name group -/

/-- what `ChrGroup.name_chromosome` does to one scaffold -/
def renameScaffold (old new : Str) (s : Scaffold) : Scaffold :=
  { s with name := replaceAll old new (s.name.length + 1) s.name }

def renameAt (old new : Str) (fs : List Scaffold) (sid : Nat) : List Scaffold :=
  setAt fs sid (renameScaffold old new (fs.getD sid default))

theorem multiChrList_one (c : Str) : multiChrList c 1 = [c] := rfl

theorem nameGroup_single_eq (fs : List Scaffold) (h orig : Str) (ids : List Nat) (prefix_ : Str) (n : Nat) :
    nameGroup fs [(h, [(orig, ids)])] prefix_ n = ids.foldl (renameAt orig (prefix_ ++ natToStr n)) fs := rfl

theorem renameAt_length (old new : Str) (fs : List Scaffold) (sid : Nat) :
    (renameAt old new fs sid).length = fs.length := by simp [renameAt, setAt]

theorem renameAt_getD (old new : Str) (fs : List Scaffold) (sid j : Nat) :
    (renameAt old new fs sid).getD j default =
      if sid = j then renameScaffold old new (fs.getD j default) else fs.getD j default := by
  unfold renameAt
  rw [C09.getD_setAt]
  by_cases e : sid = j
  · subst e
    by_cases hl : sid < fs.length
    · simp [hl]
    · have hd : fs.getD sid default = default := by
        simp [List.getD_eq_getElem?_getD, List.getElem?_eq_none (Nat.le_of_not_lt hl)]
      simp only [hl, and_false, if_false, if_true, hd]
      -- the default scaffold has the empty name, on which `replace` does nothing
      rfl
  · simp [e]

theorem foldl_renameAt (old new : Str) : ∀ (ids : List Nat) (fs : List Scaffold), ids.Nodup →
    (ids.foldl (renameAt old new) fs).length = fs.length ∧
    (∀ j, j ∉ ids → (ids.foldl (renameAt old new) fs).getD j default = fs.getD j default) ∧
    (∀ j, j ∈ ids → (ids.foldl (renameAt old new) fs).getD j default = renameScaffold old new (fs.getD j default)) := by
  intro ids
  induction ids with
  | nil => intro fs _; exact ⟨rfl, fun _ _ => rfl, fun _ h => by cases h⟩
  | cons i r ih =>
    intro fs hnd
    rw [List.nodup_cons] at hnd
    obtain ⟨a, b, c⟩ := ih (renameAt old new fs i) hnd.2
    simp only [List.foldl_cons]
    refine ⟨a.trans (renameAt_length _ _ _ _), ?_, ?_⟩
    · intro j hj
      simp only [List.mem_cons, not_or] at hj
      rw [b j hj.2, renameAt_getD, if_neg (fun e => hj.1 e.symm)]
    · intro j hj
      rcases List.mem_cons.1 hj with e | hj
      · subst e; rw [b j hnd.1, renameAt_getD, if_pos rfl]
      · have hne : i ≠ j := fun e => hnd.1 (e ▸ hj)
        rw [c j hj, renameAt_getD, if_neg hne]

/-- without the `Nodup` hypothesis: scaffolds outside `ids` are still untouched and the list keeps its length -/
theorem foldl_renameAt_frame (old new : Str) : ∀ (ids : List Nat) (fs : List Scaffold),
    (ids.foldl (renameAt old new) fs).length = fs.length ∧
    (∀ j, j ∉ ids → (ids.foldl (renameAt old new) fs).getD j default = fs.getD j default) := by
  intro ids
  induction ids with
  | nil => intro fs; exact ⟨rfl, fun _ _ => rfl⟩
  | cons i r ih =>
    intro fs
    obtain ⟨a, b⟩ := ih (renameAt old new fs i)
    simp only [List.foldl_cons]
    refine ⟨a.trans (renameAt_length _ _ _ _), ?_⟩
    intro j hj
    simp only [List.mem_cons, not_or] at hj
    rw [b j hj.2, renameAt_getD, if_neg (fun e => hj.1 e.symm)]

end AgpTpf.C10
