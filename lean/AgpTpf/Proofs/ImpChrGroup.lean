/-
  T1c phase 2 / C10 — helper lemmas for the tie between the translated `ChrGroup` methods (`Gen/Imp2.lean`:
  `ChrGroup___init__`, `ChrGroup_haplotype_dict`, `ChrGroup_add_scaffold_to_haplotype`, `ChrGroup_original_tags_of_haplotype_scaffold`,
  `ChrGroup_length_of_first_haplotype`, `ChrGroup_multi_chr_list`, `ChrGroup_max_hap_set_count`, `ChrGroup_name_chromosome`) and the
  group functions of the model (`Model/Remap.lean`: `newGroup`, `groupAdd`, `groupFirstLength`, `multiChrList`, `nameGroup`).

  0. THE SHARED ABSTRACTION (used by the other phase-2 groups too): `absHapSet`, `absG`, `KeysSome`, `KeysNonEmpty`.
  1. `PyRt.forIn` without `break` / `return` is a `foldl` / `foldlM` (the body is a parameter; a side goal asks what one pass returns).
  2. insertion-ordered dictionaries under the abstraction (`dGet?` / `dSet` commute with `absG` / `absHapSet`).
  3. one section per kernel: the generated definition in normal form (the only proofs that unfold a generated definition), then the tie.
-/
import AgpTpf.Gen.Imp2
import AgpTpf.Proofs.ImpScaffold
set_option linter.unusedSimpArgs false
set_option linter.unusedVariables false
namespace AgpTpf.ImpChrGroup
open AgpTpf

/-! ### 0. the abstraction: source `ChrGroup.data` ↦ model `GroupData` -/

/-- one haplotype's dictionary `original name → scaffold references`: the source keys are what `Scaffold.original_name` holds
    (`Option Str`), the model's are `Str`.  `some k ↦ k`; a `None` key maps to `[]` (unreachable: `build_groups` raises ValueError before it
    stores a None / empty name — the invariant `KeysSome` / `KeysNonEmpty` says so). -/
def absHapSet (hs : PyRt.HapSet) : List (Str × List Nat) := hs.map (fun e => (e.1.getD [], e.2))

/-- `ChrGroup.data` ↦ the model's `GroupData` -/
def absG (d : PyRt.GData) : GroupData := d.map (fun kv => (kv.1, absHapSet kv.2))

/-- every original-name key of one haplotype dictionary is a string (not None) -/
def HapKeysSome (hs : PyRt.HapSet) : Prop := ∀ e ∈ hs, ∃ s, e.1 = some s

/-- every original-name key in `ChrGroup.data` is a string (not None) -/
def KeysSome (d : PyRt.GData) : Prop := ∀ kv ∈ d, HapKeysSome kv.2

/-- every original-name key in `ChrGroup.data` is a NON-EMPTY string (what `build_groups` guarantees: it raises ValueError on a scaffold
    whose `original_name` is None or "") -/
def KeysNonEmpty (d : PyRt.GData) : Prop := ∀ kv ∈ d, ∀ e ∈ kv.2, ∃ c r, e.1 = some (c :: r)

theorem KeysNonEmpty.keysSome {d : PyRt.GData} (h : KeysNonEmpty d) : KeysSome d := by
  intro kv hkv e he
  obtain ⟨c, r, hcr⟩ := h kv hkv e he
  exact ⟨_, hcr⟩

/-- a checker for concrete values (`by decide`) -/
def keysNonEmptyB (d : PyRt.GData) : Bool :=
  d.all (fun kv => kv.2.all (fun e => match e.1 with | some (_ :: _) => true | _ => false))

theorem keysNonEmpty_of_B (d : PyRt.GData) (h : keysNonEmptyB d = true) : KeysNonEmpty d := by
  intro kv hkv e he
  have h1 := List.all_eq_true.mp h kv hkv
  have h2 := List.all_eq_true.mp h1 e he
  match hk : e.1 with
  | some (c :: r) => exact ⟨c, r, rfl⟩
  | some [] => rw [hk] at h2; cases h2
  | none => rw [hk] at h2; cases h2

theorem keysSome_nil : KeysSome [] := by intro kv h; cases h

theorem absG_length (d : PyRt.GData) : (absG d).length = d.length := by simp [absG]
theorem absHapSet_length (hs : PyRt.HapSet) : (absHapSet hs).length = hs.length := by simp [absHapSet]

/-! ### 1. `PyRt.forIn` without `break` / `return` -/

/-- a body that only updates the loop state: the loop is a `foldl` -/
theorem forIn_foldl {α σ ρ : Type} (f : σ → α → σ) (body : α → σ → R (PyRt.Ctl σ ρ))
    (hbody : ∀ x s, body x s = .ok (.next (f s x))) (xs : List α) (s : σ) :
    PyRt.forIn xs s body = .ok (.fell (xs.foldl f s)) := by
  induction xs generalizing s with
  | nil => rfl
  | cons x xs ih => rw [PyRt.forIn, hbody]; exact ih _

/-- a body that may raise and otherwise updates the loop state: the loop is a `foldlM` -/
theorem forIn_foldlM {α σ ρ : Type} (g : σ → α → R σ) (body : α → σ → R (PyRt.Ctl σ ρ))
    (hbody : ∀ x s, body x s = (g s x >>= fun s' => .ok (.next s'))) (xs : List α) (s : σ) :
    PyRt.forIn xs s body = (xs.foldlM g s >>= fun s' => .ok (.fell s')) := by
  induction xs generalizing s with
  | nil => rfl
  | cons x xs ih =>
    rw [PyRt.forIn, hbody, List.foldlM_cons]
    cases g s x with
    | error e => rfl
    | ok s' => exact ih s'

/-- a `foldlM` whose steps never raise is a `foldl` -/
theorem foldlM_ok {α σ : Type} (g : σ → α → R σ) (f : σ → α → σ) (xs : List α)
    (h : ∀ x ∈ xs, ∀ s, g s x = .ok (f s x)) (s : σ) : xs.foldlM g s = .ok (xs.foldl f s) := by
  induction xs generalizing s with
  | nil => rfl
  | cons x xs ih =>
    rw [List.foldlM_cons, h x (by simp)]
    exact ih (fun y hy => h y (by simp [hy])) _

/-- a `foldlM` with a step that raises `e` (whatever the state) where every step either succeeds or raises `e`: the fold raises `e` -/
theorem foldlM_error {α σ : Type} (g : σ → α → R σ) (e : Err) (xs : List α)
    (hall : ∀ x s e', g s x = .error e' → e' = e) (hbad : ∃ x ∈ xs, ∀ s, g s x = .error e) (s : σ) :
    xs.foldlM g s = .error e := by
  induction xs generalizing s with
  | nil => obtain ⟨x, hx, _⟩ := hbad; cases hx
  | cons x xs ih =>
    rw [List.foldlM_cons]
    cases hg : g s x with
    | error e' => rw [hall x s e' hg]; rfl
    | ok s' =>
      obtain ⟨y, hy, hyb⟩ := hbad
      rcases List.mem_cons.mp hy with rfl | hy'
      · rw [hyb s] at hg; cases hg
      · exact ih ⟨y, hy', hyb⟩ s'

/-! ### 2. dictionaries under the abstraction -/

theorem dGet?_mapVal {κ ν μ : Type} [DecidableEq κ] (f : ν → μ) (d : List (κ × ν)) (k : κ) :
    dGet? (d.map (fun e => (e.1, f e.2))) k = (dGet? d k).map f := by
  induction d with
  | nil => rfl
  | cons p d ih =>
    obtain ⟨k', v'⟩ := p
    simp only [List.map_cons, dGet?]
    split <;> simp [ih]

theorem dSet_mapVal {κ ν μ : Type} [DecidableEq κ] (f : ν → μ) (d : List (κ × ν)) (k : κ) (v : ν) :
    (dSet d k v).map (fun e => (e.1, f e.2)) = dSet (d.map (fun e => (e.1, f e.2))) k (f v) := by
  induction d with
  | nil => rfl
  | cons p d ih =>
    obtain ⟨k', v'⟩ := p
    simp only [List.map_cons, dSet]
    split <;> simp [ih]

/-- `data.get(hap)` under the abstraction -/
theorem dGet?_absG (d : PyRt.GData) (hap : Str) : dGet? (absG d) hap = (dGet? d hap).map absHapSet :=
  dGet?_mapVal absHapSet d hap

/-- `data[hap] = hs` under the abstraction -/
theorem absG_dSet (d : PyRt.GData) (hap : Str) (hs : PyRt.HapSet) : absG (dSet d hap hs) = dSet (absG d) hap (absHapSet hs) :=
  dSet_mapVal absHapSet d hap hs

/-- `hs.get(orig)` under the abstraction, for string keys -/
theorem dGet?_absHapSet (hs : PyRt.HapSet) (h : HapKeysSome hs) (orig : Str) :
    dGet? (absHapSet hs) orig = dGet? hs (some orig) := by
  induction hs with
  | nil => rfl
  | cons e hs ih =>
    obtain ⟨k, v⟩ := e
    obtain ⟨s, hs'⟩ := h (k, v) (by simp)
    simp only at hs'; subst hs'
    have ih' := ih (fun e he => h e (by simp [he]))
    simp only [absHapSet, List.map_cons, dGet?, Option.getD_some, Option.some.injEq] at ih' ⊢
    split <;> simp_all

/-- `hs[orig] = v` under the abstraction, for string keys -/
theorem absHapSet_dSet (hs : PyRt.HapSet) (h : HapKeysSome hs) (orig : Str) (v : List Nat) :
    absHapSet (dSet hs (some orig) v) = dSet (absHapSet hs) orig v := by
  induction hs with
  | nil => rfl
  | cons e hs ih =>
    obtain ⟨k, v'⟩ := e
    obtain ⟨s, hs'⟩ := h (k, v') (by simp)
    simp only at hs'; subst hs'
    have ih' := ih (fun e he => h e (by simp [he]))
    simp only [absHapSet, List.map_cons, dSet, Option.getD_some, Option.some.injEq] at ih' ⊢
    split <;> simp_all

/-- a property of the keys survives `d[k] = v` when `k` has it -/
theorem forall_keys_dSet {κ ν : Type} [DecidableEq κ] (P : κ → Prop) (d : List (κ × ν)) (h : ∀ e ∈ d, P e.1) (k : κ) (v : ν) (hk : P k) :
    ∀ e ∈ dSet d k v, P e.1 := by
  induction d with
  | nil => intro e he; simp [dSet] at he; subst he; exact hk
  | cons p d ih =>
    obtain ⟨k', v'⟩ := p
    have ih' := ih (fun e he => h e (by simp [he]))
    intro e he
    simp only [dSet] at he
    split at he
    · rcases List.mem_cons.mp he with rfl | he'
      · exact h (k', v') (by simp)
      · exact h e (by simp [he'])
    · rcases List.mem_cons.mp he with rfl | he'
      · exact h (k', v') (by simp)
      · exact ih' e he'

/-- a property of the values survives `d[k] = v` when `v` has it -/
theorem forall_vals_dSet {κ ν : Type} [DecidableEq κ] (Q : ν → Prop) (d : List (κ × ν)) (h : ∀ e ∈ d, Q e.2) (k : κ) (v : ν) (hv : Q v) :
    ∀ e ∈ dSet d k v, Q e.2 := by
  induction d with
  | nil => intro e he; simp [dSet] at he; subst he; exact hv
  | cons p d ih =>
    obtain ⟨k', v'⟩ := p
    have ih' := ih (fun e he => h e (by simp [he]))
    intro e he
    simp only [dSet] at he
    split at he
    · rcases List.mem_cons.mp he with rfl | he'
      · exact hv
      · exact h e (by simp [he'])
    · rcases List.mem_cons.mp he with rfl | he'
      · exact h (k', v') (by simp)
      · exact ih' e he'

theorem mem_of_dGet? {κ ν : Type} [DecidableEq κ] (d : List (κ × ν)) (k : κ) (v : ν) (h : dGet? d k = some v) : (k, v) ∈ d := by
  induction d with
  | nil => cases h
  | cons p d ih =>
    obtain ⟨k', v'⟩ := p
    simp only [dGet?] at h
    split at h
    · next hk => cases h; subst hk; simp
    · exact List.mem_cons_of_mem _ (ih h)

theorem dSet_absent {κ ν : Type} [DecidableEq κ] (d : List (κ × ν)) (k : κ) (v : ν) (h : dGet? d k = none) :
    dSet d k v = d ++ [(k, v)] := by
  induction d with
  | nil => rfl
  | cons p d ih =>
    obtain ⟨k', v'⟩ := p
    simp only [dGet?] at h
    split at h
    · cases h
    · next hk => simp [dSet, hk, ih h]

/-! ### 3.1 `ChrGroup.__init__` -/

/-- `for hap in haplotypes: data[hap] = {}` -/
def initData (keys : List Str) : PyRt.GData := keys.foldl (fun d h => dSet d h []) []

theorem init_nf (haps : List (Str × Bool)) : Gen.Imp.ChrGroup___init__ haps = .ok (initData (haps.map (·.1))) := by
  unfold Gen.Imp.ChrGroup___init__
  simp only []
  rw [forIn_foldl (fun (d : PyRt.GData) (h : Str) => dSet d h []) _ (fun _ _ => rfl)]
  rfl

theorem dSet_emptyVal_sAdd (s : List Str) (h : Str) :
    dSet (s.map (fun k => (k, ([] : PyRt.HapSet)))) h [] = (sAdd s h).map (fun k => (k, [])) := by
  unfold sAdd
  induction s with
  | nil => rfl
  | cons k s ih =>
    simp only [List.map_cons, dSet]
    by_cases hk : k = h
    · subst hk; simp
    · have hk' : ¬ h = k := fun e => hk e.symm
      simp only [hk, if_false, List.mem_cons, hk', false_or]
      rw [ih]
      split <;> simp

theorem foldl_dSet_emptyVal (keys s : List Str) :
    keys.foldl (fun (d : PyRt.GData) h => dSet d h []) (s.map (fun k => (k, []))) = (keys.foldl sAdd s).map (fun k => (k, [])) := by
  induction keys generalizing s with
  | nil => rfl
  | cons k keys ih => rw [List.foldl_cons, List.foldl_cons, dSet_emptyVal_sAdd, ih]

/-- the keys in first-occurrence order, each with an empty dictionary -/
theorem initData_eq (keys : List Str) : initData keys = (keys.foldl sAdd []).map (fun k => (k, [])) :=
  foldl_dSet_emptyVal keys []

theorem foldl_sAdd_nodup (keys s : List Str) (h : (s ++ keys).Nodup) : keys.foldl sAdd s = s ++ keys := by
  induction keys generalizing s with
  | nil => simp
  | cons k keys ih =>
    have hk : k ∉ s := by
      intro hm
      exact (List.nodup_append.mp h).2.2 _ hm _ (by simp) rfl
    rw [List.foldl_cons, sAdd, if_neg hk, ih]
    · simp
    · simpa [List.append_assoc] using h

theorem absG_emptyVals (keys : List Str) : absG (keys.map (fun k => (k, []))) = newGroup keys := by
  simp [absG, newGroup, absHapSet, Function.comp_def]

theorem keysSome_emptyVals (keys : List Str) : KeysSome (keys.map (fun k => (k, []))) := by
  intro kv hkv
  obtain ⟨k, _, rfl⟩ := List.mem_map.mp hkv
  intro e he; cases he

theorem keysNonEmpty_emptyVals (keys : List Str) : KeysNonEmpty (keys.map (fun k => (k, []))) := by
  intro kv hkv
  obtain ⟨k, _, rfl⟩ := List.mem_map.mp hkv
  intro e he; cases he

/-! ### 3.2 `ChrGroup.multi_chr_list` -/

/-- one pass of `for ltr in range(ord("A"), ord("A") + multi_count): chr_list.append(chr_name + chr(ltr))` -/
def chrStep (name : Str) (acc : List Str) (ltr : Int) : R (List Str) := PyRt.chr ltr >>= fun t => .ok (acc ++ [name ++ t])

theorem multi_chr_list_nf (name : Str) (n : Int) :
    Gen.Imp.ChrGroup_multi_chr_list name n =
      if n = 1 then .ok [name] else (PyRt.rangeUp 65 (65 + n)).foldlM (chrStep name) [] := by
  unfold Gen.Imp.ChrGroup_multi_chr_list
  by_cases h : n = 1
  · simp [h]
  · simp only [h, decide_false, if_false, Bool.false_eq_true]
    rw [forIn_foldlM (chrStep name) _ (by intro x s; unfold chrStep; cases PyRt.chr x <;> rfl)]
    cases List.foldlM (chrStep name) [] (PyRt.rangeUp 65 (65 + n)) <;> rfl

/-- the largest count for which every `chr(ord("A") + k)`, `k < count`, exists: `0x110000 - ord("A")` -/
def chrBound : Int := 1114047

theorem mem_rangeUp (a b x : Int) (h : x ∈ PyRt.rangeUp a b) : a ≤ x ∧ x < b := by
  unfold PyRt.rangeUp at h
  obtain ⟨k, hk, rfl⟩ := List.mem_map.mp h
  have := List.mem_range.mp hk
  have e : Int.ofNat k = (k : Int) := rfl
  rw [e]; omega

theorem foldl_append_singleton {α β : Type} (f : α → β) (xs : List α) (s : List β) :
    xs.foldl (fun acc x => acc ++ [f x]) s = s ++ xs.map f := by
  induction xs generalizing s with
  | nil => simp
  | cons x xs ih => simp [ih]

theorem multiChrList_length (name : Str) (k : Nat) : (multiChrList name k).length = k := by
  unfold multiChrList
  split
  · next h => simp [h]
  · simp

/-- below the bound `chr` never fails: the model's list -/
theorem multi_chr_list_tie (name : Str) (n : Int) (h : n ≤ chrBound) :
    Gen.Imp.ChrGroup_multi_chr_list name n = .ok (multiChrList name n.toNat) := by
  rw [multi_chr_list_nf]
  unfold multiChrList
  by_cases h1 : n = 1
  · subst h1; rfl
  · have h1' : ¬ n.toNat = 1 := by omega
    rw [if_neg h1, if_neg h1']
    rw [foldlM_ok (chrStep name) (fun acc ltr => acc ++ [name ++ [Char.ofNat ltr.toNat]])]
    · rw [foldl_append_singleton]
      unfold PyRt.rangeUp
      have : ((65 : Int) + n - 65).toNat = n.toNat := by omega
      rw [this, List.map_map, List.nil_append]
      congr 1
    · intro x hx s
      have := mem_rangeUp _ _ _ hx
      unfold chrBound at h
      have hc : (0 ≤ x ∧ x < 0x110000) := by omega
      simp only [chrStep, PyRt.chr, hc, and_self, if_true]
      rfl

/-- above the bound the loop reaches `chr(0x110000)`: ValueError -/
theorem multi_chr_list_error (name : Str) (n : Int) (h : chrBound < n) :
    Gen.Imp.ChrGroup_multi_chr_list name n = .error .value := by
  rw [multi_chr_list_nf]
  unfold chrBound at h
  rw [if_neg (by omega)]
  apply foldlM_error
  · intro x s e' he
    unfold chrStep PyRt.chr at he
    split at he
    · cases he
    · cases he; rfl
  · refine ⟨0x110000, ?_, ?_⟩
    · unfold PyRt.rangeUp
      refine List.mem_map.mpr ⟨1114047, List.mem_range.mpr (by omega), by decide⟩
    · intro s; rfl

/-! ### 3.3 `ChrGroup.add_scaffold_to_haplotype` -/

theorem add_scaffold_nf (heap_b : List Scaffold) (data : PyRt.GData) (hap : Str) (sid : Nat) :
    Gen.Imp.ChrGroup_add_scaffold_to_haplotype heap_b data hap sid =
      PyRt.gdataAppend data hap (PyRt.bsGet heap_b sid).originalName sid := by
  unfold Gen.Imp.ChrGroup_add_scaffold_to_haplotype
  cases PyRt.gdataAppend data hap (PyRt.bsGet heap_b sid).originalName sid <;> rfl

/-- the value `gdataAppend` stores for a known haplotype -/
def appended (data : PyRt.GData) (hap : Str) (hs : PyRt.HapSet) (orig : Option Str) (sid : Nat) : PyRt.GData :=
  dSet data hap (dSet hs orig (((dGet? hs orig).getD []) ++ [sid]))

theorem gdataAppend_known (data : PyRt.GData) (hap : Str) (hs : PyRt.HapSet) (orig : Option Str) (sid : Nat)
    (hh : dGet? data hap = some hs) : PyRt.gdataAppend data hap orig sid = .ok (appended data hap hs orig sid) := by
  simp [PyRt.gdataAppend, hh, appended]

theorem gdataAppend_unknown (data : PyRt.GData) (hap : Str) (orig : Option Str) (sid : Nat)
    (hh : dGet? data hap = none) : PyRt.gdataAppend data hap orig sid = .error .attribute := by
  simp [PyRt.gdataAppend, hh]

theorem absG_appended (data : PyRt.GData) (hap : Str) (hs : PyRt.HapSet) (orig : Str) (sid : Nat)
    (hk : KeysSome data) (hh : dGet? data hap = some hs) :
    absG (appended data hap hs (some orig) sid) = groupAdd (absG data) hap orig sid := by
  have hhs : HapKeysSome hs := hk (hap, hs) (mem_of_dGet? _ _ _ hh)
  unfold appended groupAdd
  simp only [absG_dSet, absHapSet_dSet hs hhs, dGet?_absG, hh, Option.map_some, Option.getD_some, dGet?_absHapSet hs hhs]

theorem keysSome_appended (data : PyRt.GData) (hap : Str) (hs : PyRt.HapSet) (orig : Str) (sid : Nat)
    (hk : KeysSome data) (hh : dGet? data hap = some hs) : KeysSome (appended data hap hs (some orig) sid) := by
  have hhs : HapKeysSome hs := hk (hap, hs) (mem_of_dGet? _ _ _ hh)
  exact forall_vals_dSet HapKeysSome data hk hap _ (forall_keys_dSet (fun k => ∃ s, k = some s) hs hhs (some orig) _ ⟨orig, rfl⟩)

theorem keysNonEmpty_appended (data : PyRt.GData) (hap : Str) (hs : PyRt.HapSet) (c : Char) (r : Str) (sid : Nat)
    (hk : KeysNonEmpty data) (hh : dGet? data hap = some hs) : KeysNonEmpty (appended data hap hs (some (c :: r)) sid) := by
  have hhs := hk (hap, hs) (mem_of_dGet? _ _ _ hh)
  exact forall_vals_dSet (fun (hs : PyRt.HapSet) => ∀ e ∈ hs, ∃ c r, e.1 = some (c :: r)) data hk hap _
    (forall_keys_dSet (fun k => ∃ c r, k = some (c :: r)) hs hhs (some (c :: r)) _ ⟨c, r, rfl⟩)

/-- the model's `groupAdd` on an unknown haplotype silently creates it -/
theorem groupAdd_unknown (data : PyRt.GData) (hap orig : Str) (sid : Nat) (hh : dGet? data hap = none) :
    groupAdd (absG data) hap orig sid = absG data ++ [(hap, [(orig, [sid])])] := by
  unfold groupAdd
  have : dGet? (absG data) hap = none := by rw [dGet?_absG, hh]; rfl
  rw [dSet_absent _ _ _ this, this]
  rfl

/-! ### 3.4 `ChrGroup.original_tags_of_haplotype_scaffold` -/

/-- what `buildGroups` (Model/Remap.lean) computes inline where the source calls `original_tags_of_haplotype_scaffold(hap, last_orig)`:
    `hd` is `(dGet? cur hap).getD []`, `lo` is `lastOrig.getD []` -/
def origTagsModel (fs : List Scaffold) (hd : List (Str × List Nat)) (lo : Str) : R (List Str) :=
  match dGet? hd lo with
  | none => .error .key
  | some ids => pyGet ids 0 >>= fun first => .ok (((fs.getD first default).originalTags).getD [])

theorem original_tags_nf (heap_b : List Scaffold) (hap : Str) (last : Option Str) (data : PyRt.GData) :
    Gen.Imp.ChrGroup_original_tags_of_haplotype_scaffold heap_b hap last data =
      (PyRt.needArg (dGet? data hap) >>= fun hs => PyRt.dictGet hs last >>= fun ids => pyGet ids 0 >>= fun first =>
        .ok (((PyRt.bsGet heap_b first).originalTags).getD [])) := rfl

theorem bsGet_eq_getD (heap : List Scaffold) (i : Nat) : PyRt.bsGet heap i = heap.getD i default := rfl

theorem original_tags_known (heap_b : List Scaffold) (hap : Str) (last : Option Str) (data : PyRt.GData) (hs : PyRt.HapSet)
    (hh : dGet? data hap = some hs) :
    Gen.Imp.ChrGroup_original_tags_of_haplotype_scaffold heap_b hap last data =
      (match dGet? hs last with
       | none => .error .key
       | some ids => pyGet ids 0 >>= fun first => .ok (((heap_b.getD first default).originalTags).getD [])) := by
  rw [original_tags_nf, hh]
  simp only [PyRt.needArg, PyRt.dictGet, bsGet_eq_getD, bind, Except.bind]
  generalize dGet? hs last = o
  cases o <;> rfl

theorem dGet?_none_key (hs : PyRt.HapSet) (h : HapKeysSome hs) : dGet? hs none = none := by
  induction hs with
  | nil => rfl
  | cons e hs ih =>
    obtain ⟨k, v⟩ := e
    obtain ⟨s, hs'⟩ := h (k, v) (by simp)
    simp only at hs'; subst hs'
    simp only [dGet?]
    rw [if_neg (by simp)]
    exact ih (fun e he => h e (by simp [he]))

theorem dGet?_absHapSet_nil (hs : PyRt.HapSet) (h : ∀ e ∈ hs, ∃ c r, e.1 = some (c :: r)) : dGet? (absHapSet hs) [] = none := by
  induction hs with
  | nil => rfl
  | cons e hs ih =>
    obtain ⟨k, v⟩ := e
    obtain ⟨c, r, hs'⟩ := h (k, v) (by simp)
    simp only at hs'; subst hs'
    simp only [absHapSet, List.map_cons, dGet?, Option.getD_some]
    rw [if_neg (by simp)]
    exact ih (fun e he => h e (by simp [he]))

/-! ### 3.5 `ChrGroup.length_of_first_haplotype` -/

theorem foldl_add_sumInts {α : Type} (f : α → Int) (xs : List α) (s : Int) :
    xs.foldl (fun acc x => acc + f x) s = s + sumInts (xs.map f) := by
  induction xs generalizing s with
  | nil => simp [sumInts]
  | cons x xs ih => simp only [List.foldl_cons, ih, List.map_cons, sumInts]; omega

theorem length_of_first_tie (heap_b : List Scaffold) (data : PyRt.GData) :
    Gen.Imp.ChrGroup_length_of_first_haplotype heap_b data = groupFirstLength heap_b (absG data) := by
  unfold Gen.Imp.ChrGroup_length_of_first_haplotype
  match data with
  | [] => rfl
  | (hap, []) :: rest => rfl
  | (hap, [(orig, ids)]) :: rest =>
    simp only [List.map_cons, PyRt.unpackHead, bind, Except.bind, List.map_nil, List.isEmpty_nil, Bool.not_true, Bool.false_eq_true,
      if_false, PyRt.dictGet, dGet?, if_true]
    rw [forIn_foldl (fun (acc : Int) (i : Nat) => acc + (PyRt.bsGet heap_b i).fragmentsLength) _
      (by intro x s; rw [ImpScaffold.scaffold_fragments_length_tie])]
    simp [foldl_add_sumInts, absG, absHapSet, groupFirstLength, bsGet_eq_getD]
  | (hap, (orig, ids) :: e :: others) :: rest =>
    simp [PyRt.unpackHead, bind, Except.bind, PyRt.dictGet, dGet?, absG, absHapSet, groupFirstLength]

/-! ### 3.6 `ChrGroup.max_hap_set_count` -/

theorem max_hap_set_count_nf (data : PyRt.GData) :
    Gen.Imp.ChrGroup_max_hap_set_count data = PyRt.maxList (data.map (fun kv => (kv.2.length : Int))) := by
  unfold Gen.Imp.ChrGroup_max_hap_set_count
  have e : (data.map (fun kv => kv.2)).map (fun (hs : PyRt.HapSet) => Int.ofNat hs.length) = data.map (fun kv => (kv.2.length : Int)) := by
    rw [List.map_map]; rfl
  rw [e]
  generalize PyRt.maxList _ = r
  cases r <;> rfl

theorem foldl_max_spec (x : Int) (xs : List Int) : (∀ y ∈ x :: xs, y ≤ xs.foldl max x) ∧ xs.foldl max x ∈ x :: xs := by
  induction xs generalizing x with
  | nil => simp
  | cons y ys ih =>
    obtain ⟨h1, h2⟩ := ih (max x y)
    simp only [List.foldl_cons]
    refine ⟨?_, ?_⟩
    · intro z hz
      have hm := h1 (max x y) (by simp)
      rcases List.mem_cons.mp hz with rfl | hz
      · omega
      · rcases List.mem_cons.mp hz with rfl | hz
        · omega
        · exact h1 z (by simp [hz])
    · rcases List.mem_cons.mp h2 with h | h
      · rw [h]
        by_cases hxy : x ≤ y
        · have : max x y = y := by omega
          simp [this]
        · have : max x y = x := by omega
          simp [this]
      · simp [h]

/-! ### 3.7 `ChrGroup.name_chromosome` -/

/-- `scffld.name = scffld.name.replace(orig, this_chr)` through a reference -/
def renameOne (o new : Str) (heap : List Scaffold) (sid : Nat) : List Scaffold :=
  PyRt.bsSet heap sid (fun sc => { sc with name := PyRt.strReplace (PyRt.bsGet heap sid).name o new })

/-- `for scffld in scffld_list: …` (a None `orig` makes `str.replace` raise TypeError — in the first pass, so only for a non-empty list) -/
def renameIds (orig : Option Str) (new : Str) (heap : List Scaffold) (ids : List Nat) : R (List Scaffold) :=
  ids.foldlM (fun heap sid => PyRt.needArg orig >>= fun o => .ok (renameOne o new heap sid)) heap

/-- the state of the loop `for orig, scffld_list in hap_set.items()` in the translator's order (by type, then by name): `(heap_b, chr_names)`.
    Everything below goes through `rnPack` / `rnNames` / `rnHeap`; a change of the tuple order is repaired here only. -/
abbrev RnSt := List Scaffold × List Str
@[reducible] def rnPack (names : List Str) (heap : List Scaffold) : RnSt := (heap, names)
@[reducible] def rnNames (st : RnSt) : List Str := st.2
@[reducible] def rnHeap (st : RnSt) : List Scaffold := st.1
@[simp] theorem rnNames_pack (names : List Str) (heap : List Scaffold) : rnNames (rnPack names heap) = names := rfl
@[simp] theorem rnHeap_pack (names : List Str) (heap : List Scaffold) : rnHeap (rnPack names heap) = heap := rfl

/-- one pass of `for orig, scffld_list in hap_set.items()`; the state is `rnPack chr_names heap_b` -/
def renameEntry (st : RnSt) (e : Option Str × List Nat) : R RnSt :=
  PyRt.pop (rnNames st) 0 >>= fun pp => renameIds e.1 pp.1 (rnHeap st) e.2 >>= fun heap => .ok (rnPack pp.2 heap)

/-- one pass of `for hap_set in self.data.values()` -/
def renameHap (name : Str) (heap : List Scaffold) (hs : PyRt.HapSet) : R (List Scaffold) :=
  Gen.Imp.ChrGroup_multi_chr_list name (Int.ofNat hs.length) >>= fun names =>
    hs.foldlM renameEntry (rnPack names heap) >>= fun st => .ok (rnHeap st)

theorem name_chromosome_nf (heap_b : List Scaffold) (pre : Str) (n : Int) (data : PyRt.GData) :
    Gen.Imp.ChrGroup_name_chromosome heap_b pre n data = (data.map (fun kv => kv.2)).foldlM (renameHap (pre ++ intToStr n)) heap_b := by
  unfold Gen.Imp.ChrGroup_name_chromosome
  rw [forIn_foldlM (renameHap (pre ++ intToStr n))]
  · generalize List.foldlM (m := R) _ _ _ = r
    cases r <;> rfl
  · intro hs heap
    unfold renameHap
    generalize Gen.Imp.ChrGroup_multi_chr_list _ _ = r
    cases r with
    | error e => rfl
    | ok names =>
      simp only [bind, Except.bind]
      rw [forIn_foldlM renameEntry]
      · generalize List.foldlM (m := R) _ _ _ = r
        cases r <;> rfl
      · intro e st
        obtain ⟨orig, ids⟩ := e
        obtain ⟨heap, names⟩ := st
        unfold renameEntry
        simp only []
        generalize PyRt.pop names 0 = r
        cases r with
        | error e => rfl
        | ok pp =>
          simp only [bind, Except.bind]
          unfold renameIds
          rw [forIn_foldlM (fun heap sid => PyRt.needArg orig >>= fun o => .ok (renameOne o pp.1 heap sid))]
          · generalize List.foldlM (m := R) _ _ _ = r
            cases r <;> rfl
          · intro sid heap
            cases orig <;> rfl

/-- the model's innermost step of `nameGroup` -/
def mRenameOne (o new : Str) (fs : List Scaffold) (sid : Nat) : List Scaffold :=
  let s := fs.getD sid default
  AgpTpf.setAt fs sid { s with name := replaceAll o new (s.name.length + 1) s.name }
/-- the model's middle step: one (original name, ids) entry zipped with its chromosome name -/
def mRenameEntry (fs : List Scaffold) (p : (Str × List Nat) × Str) : List Scaffold := p.1.2.foldl (mRenameOne p.1.1 p.2) fs
/-- the model's outer step: one haplotype -/
def mRenameHap (name : Str) (fs : List Scaffold) (h : Str × List (Str × List Nat)) : List Scaffold :=
  (h.2.zip (multiChrList name h.2.length)).foldl mRenameEntry fs

theorem nameGroup_eq (fs : List Scaffold) (g : GroupData) (pre : Str) (n : Nat) :
    nameGroup fs g pre n = g.foldl (mRenameHap (pre ++ natToStr n)) fs := rfl

/-- for a non-empty `orig`, `str.replace` is the model's `replaceAll`; a reference outside the arena is a no-op on both sides -/
theorem renameOne_eq (o new : Str) (ho : o ≠ []) (heap : List Scaffold) (sid : Nat) :
    renameOne o new heap sid = mRenameOne o new heap sid := by
  have he : o.isEmpty = false := by cases o <;> simp_all
  unfold renameOne mRenameOne PyRt.bsSet PyRt.bsGet AgpTpf.setAt PyRt.strReplace
  simp only [he, Bool.false_eq_true, if_false]
  cases hx : heap[sid]? with
  | none =>
    have : heap.length ≤ sid := by simpa using hx
    simp [List.set_eq_of_length_le this]
  | some x =>
    simp [List.getD, hx]

theorem renameIds_some (o new : Str) (ho : o ≠ []) (heap : List Scaffold) (ids : List Nat) :
    renameIds (some o) new heap ids = .ok (ids.foldl (mRenameOne o new) heap) := by
  unfold renameIds
  exact foldlM_ok _ _ _ (fun sid _ heap => by
    show Except.ok (renameOne o new heap sid) = _
    rw [renameOne_eq o new ho]) heap

/-- the keys the renaming loop really uses (those with a non-empty list of scaffolds) are non-empty strings -/
def HapNamed (hs : PyRt.HapSet) : Prop := ∀ e ∈ hs, e.2 ≠ [] → ∃ c r, e.1 = some (c :: r)

theorem renameIds_named (k : Option Str) (ids : List Nat) (h : ids ≠ [] → ∃ c r, k = some (c :: r)) (new : Str) (heap : List Scaffold) :
    renameIds k new heap ids = .ok (ids.foldl (mRenameOne (k.getD []) new) heap) := by
  cases ids with
  | nil => rfl
  | cons i ids =>
    obtain ⟨c, r, rfl⟩ := h (by simp)
    exact renameIds_some _ _ (by simp) _ _

theorem pop_zero_cons {α : Type} (x : α) (xs : List α) : PyRt.pop (x :: xs) 0 = .ok (x, xs) := by
  unfold PyRt.pop
  have : ¬ ((((x :: xs).length : Nat) : Int) ≤ 0) := by rw [List.length_cons]; omega
  simp [this]

/-- the middle loop: `chr_names` has (at least) one name per entry, so `pop(0)` never fails; the loop is the model's fold over the zip -/
theorem foldlM_renameEntry (hs : PyRt.HapSet) (hn : HapNamed hs) (names : List Str) (hl : hs.length ≤ names.length) (heap : List Scaffold) :
    hs.foldlM renameEntry (rnPack names heap) = .ok (rnPack (names.drop hs.length) (((absHapSet hs).zip names).foldl mRenameEntry heap)) := by
  induction hs generalizing names heap with
  | nil => rfl
  | cons e hs ih =>
    obtain ⟨k, ids⟩ := e
    cases names with
    | nil => simp at hl
    | cons nm rest =>
      rw [List.foldlM_cons]
      have h1 : renameEntry (rnPack (nm :: rest) heap) (k, ids) = .ok (rnPack rest (ids.foldl (mRenameOne (k.getD []) nm) heap)) := by
        unfold renameEntry
        simp only [rnNames_pack, rnHeap_pack, pop_zero_cons, renameIds_named k ids (hn (k, ids) (by simp)), bind, Except.bind]
      rw [h1]
      simp only [bind, Except.bind]
      rw [ih (fun e he => hn e (by simp [he])) rest (by simpa using hl)]
      rfl

theorem renameHap_tie (name : Str) (heap : List Scaffold) (hap : Str) (hs : PyRt.HapSet) (hn : HapNamed hs)
    (hb : (hs.length : Int) ≤ chrBound) : renameHap name heap hs = .ok (mRenameHap name heap (hap, absHapSet hs)) := by
  unfold renameHap mRenameHap
  rw [multi_chr_list_tie name (Int.ofNat hs.length) hb]
  have e : (Int.ofNat hs.length).toNat = hs.length := rfl
  simp only [bind, Except.bind, e]
  rw [foldlM_renameEntry hs hn _ (by rw [multiChrList_length]; exact Nat.le_refl _)]
  simp [absHapSet_length]

theorem intToStr_nonneg (n : Int) (h : 0 ≤ n) : intToStr n = natToStr n.toNat := by
  obtain ⟨k, rfl⟩ := Int.eq_ofNat_of_zero_le h
  rfl

theorem name_chromosome_tie (heap_b : List Scaffold) (pre : Str) (n : Int) (data : PyRt.GData) (hn0 : 0 ≤ n)
    (hnamed : ∀ kv ∈ data, HapNamed kv.2) (hb : ∀ kv ∈ data, (kv.2.length : Int) ≤ chrBound) :
    Gen.Imp.ChrGroup_name_chromosome heap_b pre n data = .ok (nameGroup heap_b (absG data) pre n.toNat) := by
  rw [name_chromosome_nf, nameGroup_eq, intToStr_nonneg n hn0]
  rw [foldlM_ok (renameHap (pre ++ natToStr n.toNat)) (fun fs hs => mRenameHap (pre ++ natToStr n.toNat) fs ([], absHapSet hs))]
  · unfold absG
    rw [List.foldl_map, List.foldl_map]
    rfl
  · intro hs hhs heap
    obtain ⟨kv, hkv, rfl⟩ := List.mem_map.mp hhs
    exact renameHap_tie _ heap [] kv.2 (hnamed kv hkv) (hb kv hkv)

theorem KeysNonEmpty.named {d : PyRt.GData} (h : KeysNonEmpty d) : ∀ kv ∈ d, HapNamed kv.2 :=
  fun kv hkv e he _ => h kv hkv e he

/-! ### 3.8 the ties in the form `Properties/C10ImpGroup.lean` states them -/

theorem dHas_true {κ ν : Type} [DecidableEq κ] (d : List (κ × ν)) (k : κ) (h : dHas d k = true) : ∃ v, dGet? d k = some v := by
  unfold dHas at h
  cases hd : dGet? d k with
  | none => rw [hd] at h; cases h
  | some v => exact ⟨v, rfl⟩

theorem dHas_false {κ ν : Type} [DecidableEq κ] (d : List (κ × ν)) (k : κ) (h : dHas d k = false) : dGet? d k = none := by
  unfold dHas at h
  cases hd : dGet? d k with
  | none => rfl
  | some v => rw [hd] at h; cases h

/-- the test `build_groups` makes (`if hap_dict:` — a non-empty dictionary) implies that the haplotype is a key -/
theorem dHas_of_absG_ne (data : PyRt.GData) (hap : Str) (h : (dGet? (absG data) hap).getD [] ≠ []) : dHas data hap = true := by
  unfold dHas
  rw [dGet?_absG] at h
  cases hd : dGet? data hap with
  | none => rw [hd] at h; exact absurd rfl h
  | some v => rfl

/-- the inline code of `buildGroups` with its continuation, as a bind on `origTagsModel` -/
theorem origTagsModel_bind {β : Type} (fs : List Scaffold) (hd : List (Str × List Nat)) (lo : Str) (k : List Str → R β) :
    (match dGet? hd lo with
     | none => (throw Err.key : R β)
     | some ids => do
       let first ← pyGet ids 0
       k (((fs.getD first default).originalTags).getD [])) = origTagsModel fs hd lo >>= k := by
  unfold origTagsModel
  cases dGet? hd lo with
  | none => rfl
  | some ids =>
    simp only []
    cases pyGet ids 0 <;> rfl

theorem original_tags_tie (heap_b : List Scaffold) (hap lo : Str) (data : PyRt.GData) (hk : KeysSome data) (hh : dHas data hap = true) :
    Gen.Imp.ChrGroup_original_tags_of_haplotype_scaffold heap_b hap (some lo) data =
      origTagsModel heap_b ((dGet? (absG data) hap).getD []) lo := by
  obtain ⟨hs, hhs⟩ := dHas_true _ _ hh
  have hks : HapKeysSome hs := hk (hap, hs) (mem_of_dGet? _ _ _ hhs)
  rw [original_tags_known _ _ _ _ hs hhs, dGet?_absG, hhs]
  unfold origTagsModel
  simp only [Option.map_some, Option.getD_some, dGet?_absHapSet hs hks]

theorem original_tags_tie_opt (heap_b : List Scaffold) (hap : Str) (last : Option Str) (data : PyRt.GData) (hk : KeysNonEmpty data)
    (hh : dHas data hap = true) :
    Gen.Imp.ChrGroup_original_tags_of_haplotype_scaffold heap_b hap last data =
      origTagsModel heap_b ((dGet? (absG data) hap).getD []) (last.getD []) := by
  cases last with
  | some lo => exact original_tags_tie heap_b hap lo data hk.keysSome hh
  | none =>
    obtain ⟨hs, hhs⟩ := dHas_true _ _ hh
    have hne := hk (hap, hs) (mem_of_dGet? _ _ _ hhs)
    have hks : HapKeysSome hs := hk.keysSome (hap, hs) (mem_of_dGet? _ _ _ hhs)
    rw [original_tags_known _ _ _ _ hs hhs, dGet?_absG, hhs]
    unfold origTagsModel
    simp only [Option.map_some, Option.getD_some, Option.getD_none, dGet?_none_key hs hks, dGet?_absHapSet_nil hs hne]

theorem original_tags_unknown (heap_b : List Scaffold) (hap : Str) (last : Option Str) (lo : Str) (data : PyRt.GData) (hh : dHas data hap = false) :
    Gen.Imp.ChrGroup_original_tags_of_haplotype_scaffold heap_b hap last data = .error .type ∧
    origTagsModel heap_b ((dGet? (absG data) hap).getD []) lo = .error .key := by
  have hn := dHas_false _ _ hh
  constructor
  · rw [original_tags_nf, hn]; rfl
  · rw [dGet?_absG, hn]; rfl

theorem max_hap_set_count_empty : Gen.Imp.ChrGroup_max_hap_set_count [] = .error .value := rfl

theorem max_hap_set_count_spec (data : PyRt.GData) (hne : data ≠ []) :
    ∃ m : Int, Gen.Imp.ChrGroup_max_hap_set_count data = .ok m ∧ (∀ kv ∈ data, (kv.2.length : Int) ≤ m) ∧
      ∃ kv ∈ data, (kv.2.length : Int) = m := by
  rw [max_hap_set_count_nf]
  cases data with
  | nil => exact absurd rfl hne
  | cons kv rest =>
    obtain ⟨h1, h2⟩ := foldl_max_spec (kv.2.length : Int) (rest.map (fun kv => (kv.2.length : Int)))
    refine ⟨_, rfl, ?_, ?_⟩
    · intro kv' hkv'
      exact h1 _ (by rw [← List.map_cons (f := fun (kv : Str × PyRt.HapSet) => (kv.2.length : Int))]; exact List.mem_map.mpr ⟨kv', hkv', rfl⟩)
    · rw [← List.map_cons (f := fun (kv : Str × PyRt.HapSet) => (kv.2.length : Int))] at h2
      obtain ⟨kv', hkv', he⟩ := List.mem_map.mp h2
      exact ⟨kv', hkv', he⟩

end AgpTpf.ImpChrGroup
