/-
  T1c helper lemmas for `FastaStream.write_assembly` (C03): the translated source (`Gen.Imp.FastaStream_write_assembly`, a `for` loop
  over `assembly.scaffolds` that calls the translated `write_scaffold` and appends what each call wrote) against the model
  (`streamAssembly`, a `foldlM` over the scaffolds that appends the `out` of each `streamScaffold`).

  Both sides are brought to the same normal form: `mapM` of the per-record writer over the scaffolds (the first failing record is the
  exception), then the concatenation of the records.  The loop lemma is about an ARBITRARY body that meets an equational spec; nothing
  below quotes a generated sub-term.
-/
import AgpTpf.Gen.Imp3
import AgpTpf.Proofs.ImpStream
namespace AgpTpf.ImpWriteAsm
open AgpTpf AgpTpf.PyRt

/-! ### `for x in xs: self.call(x)` where every call appends to one output -/

/-- a `for` loop whose body runs `call x` (which may raise) and appends what it wrote to the carried output: the calls are a `mapM`
    (the first one that raises is the result), the output is what was there before plus the concatenation of what the calls wrote -/
theorem forIn_append_calls {α ρ : Type} (call : α → R Bytes) (xs : List α) (out : Bytes) (body : α → Bytes → R (Ctl Bytes ρ))
    (h : ∀ x ∈ xs, ∀ out, body x out = (call x).map (fun o => .next (out ++ o))) :
    PyRt.forIn xs out body = (xs.mapM call).map (fun os => .fell (out ++ os.flatten)) := by
  induction xs generalizing out with
  | nil => simp [PyRt.forIn, pure, Except.pure, Except.map]
  | cons x xs ih =>
    simp only [PyRt.forIn, h x (List.mem_cons_self ..), List.mapM_cons]
    cases call x with
    | error e => rfl
    | ok o =>
      simp only [Except.map, bind, Except.bind]
      rw [ih _ (fun y hy => h y (List.mem_cons_of_mem _ hy))]
      cases List.mapM call xs with
      | error e => rfl
      | ok os => simp [Except.map, pure, Except.pure]

/-- the same for a `foldlM` over logs whose step appends the `out` of a per-element computation `rec` to the accumulated `out` -/
theorem foldlM_out {α : Type} (f : StreamLog → α → R StreamLog) (rec : α → R Bytes)
    (h : ∀ acc x, (f acc x).map (·.out) = (rec x).map (fun o => acc.out ++ o)) (xs : List α) (acc : StreamLog) :
    (xs.foldlM f acc).map (·.out) = (xs.mapM rec).map (fun os => acc.out ++ os.flatten) := by
  induction xs generalizing acc with
  | nil => simp [pure, Except.pure, Except.map]
  | cons x xs ih =>
    simp only [List.foldlM_cons, List.mapM_cons]
    have hx := h acc x
    cases hf : f acc x with
    | error e =>
      cases hr : rec x with
      | error e' => rw [hf, hr] at hx; simp only [Except.map] at hx; cases hx; rfl
      | ok o => rw [hf, hr] at hx; simp [Except.map] at hx
    | ok lg =>
      cases hr : rec x with
      | error e' => rw [hf, hr] at hx; simp [Except.map] at hx
      | ok o =>
        rw [hf, hr] at hx
        simp only [Except.map, Except.ok.injEq] at hx
        simp only [bind, Except.bind]
        rw [ih lg, hx]
        cases List.mapM rec xs with
        | error e => rfl
        | ok os => simp [Except.map, pure, Except.pure]

/-! ### the model: `streamAssembly` writes the records of `streamScaffold` one after the other -/

/-- the bytes `streamAssembly` writes: the records `streamScaffold` writes for the scaffolds, in order, concatenated; the first
    scaffold whose record fails is the exception.  Every record starts from a fresh `StreamLog` (`want = w`: `streamScaffold` takes
    no log), so nothing but `out` (and the two observation lists) is carried from one record to the next. -/
theorem streamAssembly_out (file : Bytes) (idx : List (Str × FastaInfo)) (bs w : Int) (scs : List Scaffold) :
    (streamAssembly file idx bs w scs).map (·.out) =
      (scs.mapM (fun sc => (streamScaffold file idx bs w sc).map (·.out))).map List.flatten := by
  unfold streamAssembly
  rw [foldlM_out _ (fun sc => (streamScaffold file idx bs w sc).map (·.out))]
  · cases List.mapM (fun sc => (streamScaffold file idx bs w sc).map (·.out)) scs with
    | error e => rfl
    | ok os => simp [Except.map]
  · intro acc sc
    cases streamScaffold file idx bs w sc <;> rfl

/-! ### the translated source: `write_assembly` is `write_scaffold` on every scaffold, outputs concatenated -/

/-- for ANY two chunk iterators, line length, gap character and fuel: the translated `write_assembly` returns the concatenation of
    what the translated `write_scaffold` returns for the scaffolds of the assembly, in order; the first call that raises is the
    exception (what earlier calls wrote is in the file, but the call has no result — on both sides of every tie below) -/
theorem write_assembly_eq_mapM (fuel : Nat) (a : Assembly) (gapIt : Row → List Nat → List BytesIO)
    (seqIt : Row → R (List BytesIO)) (w : Int) (gc : List Nat) :
    Gen.Imp.FastaStream_write_assembly fuel a gapIt seqIt w gc =
      (a.scaffolds.mapM (fun sc => Gen.Imp.FastaStream_write_scaffold fuel sc w gc gapIt seqIt)).map List.flatten := by
  unfold Gen.Imp.FastaStream_write_assembly
  dsimp only
  rw [forIn_append_calls (fun sc => Gen.Imp.FastaStream_write_scaffold fuel sc w gc gapIt seqIt)]
  · cases List.mapM (fun sc => Gen.Imp.FastaStream_write_scaffold fuel sc w gc gapIt seqIt) a.scaffolds with
    | error e => rfl
    | ok os => simp [Except.map, bind, Except.bind]
  · intro sc _ out
    cases Gen.Imp.FastaStream_write_scaffold fuel sc w gc gapIt seqIt <;> rfl

/-- two per-scaffold writers that agree on every scaffold of the list give the same file -/
theorem mapM_flatten_congr {α : Type} (f g : α → R Bytes) (xs : List α) (h : ∀ x ∈ xs, f x = g x) :
    (xs.mapM f).map List.flatten = (xs.mapM g).map List.flatten := by
  congr 1
  induction xs with
  | nil => rfl
  | cons x xs ih =>
    simp only [List.mapM_cons, h x (List.mem_cons_self ..), ih (fun y hy => h y (List.mem_cons_of_mem _ hy))]

/-- a `mapM` all of whose steps succeed with a known value -/
theorem mapM_of_ok {α β : Type} (f : α → R β) (v : α → β) (xs : List α) (h : ∀ x ∈ xs, f x = .ok (v x)) :
    xs.mapM f = .ok (xs.map v) := by
  induction xs with
  | nil => rfl
  | cons x xs ih =>
    simp only [List.mapM_cons, h x (List.mem_cons_self ..), ih (fun y hy => h y (List.mem_cons_of_mem _ hy)), List.map_cons]
    rfl

end AgpTpf.ImpWriteAsm
