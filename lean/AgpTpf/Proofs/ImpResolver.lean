/-
  Helper lemmas for `Properties/C02Imp.lean`: the translated Python source of the overhang resolver
  (`Gen.Imp.StartOverhangPremise_*`, `Gen.Imp.EndOverhangPremise_*`, `Gen.Imp.OverhangResolver_add_overhang_premise`,
  `Gen.Imp.OverhangResolver_make_fixes_imp`) against the hand-written model (`Model/Remap.lean`: `Premise.*`, `addPremise`,
  `sortPremsByDelta`, `fixOne`, `resolverRound`).

  Layout: (1) `Except` plumbing and the loop combinators (`PyRt.forIn` whose body never breaks / returns = `List.foldlM`; folds
  that thread an unchanged store; fold invariants); (2) run-time support at the indices the source uses (`pyGet` at `0`, `1`,
  `-1`); (3) the eight subclass methods; (4) `add_overhang_premise`; (5) `sorted(key=…)` = `sortPremsByDelta`, and the sorted list
  is as long as its input (so `best_to_worst[0]`, `best_to_worst[1]` exist when `prem_count > 1`); (6) `make_fixes`;
  (7) premise lists are never empty; (8) `resolverRound` written with the translated source functions.

  None of the proofs mentions a generated sub-term literally: the generated definitions are unfolded by name and the goals are
  closed by case analysis on the model-level quantities (`p.baitOverlap store`, `sortPremsByDelta store ps`, …) followed by `simp`.
-/
import AgpTpf.Gen.Imp
set_option linter.unusedSimpArgs false
set_option linter.unusedVariables false
namespace AgpTpf.ImpResolver
open AgpTpf

/-! ### 1. `Except` plumbing, loops and folds -/

theorem bind_ok_self {α : Type} (x : R α) : (x >>= fun t => (Except.ok t : R α)) = x := by
  cases x <;> rfl

theorem bind_ok_pair {α β : Type} (x : R α) (s : β) :
    (x >>= fun t => (Except.ok (s, t) : R (β × α))) = x.map (fun v => (s, v)) := by
  cases x <;> rfl

/-- a `for` loop whose body always falls off its end (no `break`, no `return`) is a monadic left fold -/
theorem forIn_of_next {α σ ρ : Type} (f : σ → α → R σ) (body : α → σ → R (PyRt.Ctl σ ρ))
    (h : ∀ x s, body x s = (f s x).map PyRt.Ctl.next) :
    ∀ (xs : List α) (s : σ), PyRt.forIn xs s body = (xs.foldlM f s).map PyRt.Done.fell := by
  intro xs
  induction xs with
  | nil => intro s; rfl
  | cons x xs ih =>
    intro s
    simp only [PyRt.forIn, h, List.foldlM_cons]
    cases f s x with
    | error e => rfl
    | ok s' => simpa [Except.map, bind, Except.bind] using ih s'

/-- the same when the loop carries the fold's state in another layout (`toSrc`: e.g. the components of the loop-state tuple in the
    translator's order, whatever that order is) -/
theorem forIn_of_next_via {α σ σ' ρ : Type} (toSrc : σ → σ') (f : σ → α → R σ) (body : α → σ' → R (PyRt.Ctl σ' ρ))
    (h : ∀ x s, body x (toSrc s) = (f s x).map (fun s' => PyRt.Ctl.next (toSrc s'))) :
    ∀ (xs : List α) (s : σ),
      PyRt.forIn xs (toSrc s) body = (xs.foldlM f s).map (fun s' => PyRt.Done.fell (toSrc s')) := by
  intro xs
  induction xs with
  | nil => intro s; rfl
  | cons x xs ih =>
    intro s
    simp only [PyRt.forIn, h, List.foldlM_cons]
    cases f s x with
    | error e => rfl
    | ok s' => simpa [Except.map, bind, Except.bind] using ih s'

/-- an invariant of the step function is an invariant of a successful `foldlM` -/
theorem foldlM_inv {α σ : Type} (P : σ → Prop) (f : σ → α → R σ)
    (hf : ∀ s x s', P s → f s x = .ok s' → P s') :
    ∀ (xs : List α) (s s' : σ), P s → xs.foldlM f s = .ok s' → P s' := by
  intro xs
  induction xs with
  | nil => intro s s' hs h; simp [pure, Except.pure] at h; subst h; exact hs
  | cons x xs ih =>
    intro s s' hs h
    rw [List.foldlM_cons] at h
    cases hx : f s x with
    | error e => simp [hx, bind, Except.bind] at h
    | ok s1 =>
      simp only [hx, bind, Except.bind] at h
      exact ih s1 s' (hf s x s1 hs hx) h

/-- a fold that threads an unchanged component `c` next to the state is the fold of the state alone -/
theorem foldlM_pair {α σ τ : Type} (c : τ) (f : σ → α → R σ) (g : τ × σ → α → R (τ × σ))
    (h : ∀ s x, g (c, s) x = (f s x).map (fun p => (c, p))) :
    ∀ (xs : List α) (s : σ), xs.foldlM g (c, s) = (xs.foldlM f s).map (fun p => (c, p)) := by
  intro xs
  induction xs with
  | nil => intro s; rfl
  | cons x xs ih =>
    intro s
    simp only [List.foldlM_cons, h]
    cases f s x with
    | error e => rfl
    | ok s' => simpa [Except.map, bind, Except.bind] using ih s'

/-! ### 2. `pyGet` at the indices the source uses -/

@[simp] theorem pyGet_zero_cons {α : Type} (x : α) (l : List α) : pyGet (x :: l) 0 = .ok x := by
  simp [pyGet]

@[simp] theorem pyGet_one_cons {α : Type} (x y : α) (l : List α) : pyGet (x :: y :: l) 1 = .ok y := by
  simp [pyGet]; omega

theorem pyGet_neg_one_snoc {α : Type} (l : List α) (x : α) : pyGet (l ++ [x]) (-1) = .ok x := by
  have h1 : ((-1 : Int) + ((l ++ [x]).length : Int)).toNat = l.length := by simp; omega
  have h2 : ¬ ((-1 : Int) + ((l ++ [x]).length : Int) < 0 ∨ ((l ++ [x]).length : Int) ≤ -1 + ((l ++ [x]).length : Int)) := by
    simp; omega
  simp only [pyGet, show ((-1 : Int) < 0) from by omega, if_true, h1, h2, if_false]
  simp

/-- a list that has a first element has a last element (`rows[0]` succeeded ⇒ `rows[-1]` succeeds) -/
theorem pyGet_neg_one_of_zero {α : Type} {l : List α} {x : α} (h : pyGet l 0 = .ok x) : ∃ y, pyGet l (-1) = .ok y := by
  rcases List.eq_nil_or_concat l with rfl | ⟨l', y, rfl⟩
  · simp [pyGet] at h
  · exact ⟨y, by simpa using pyGet_neg_one_snoc l' y⟩

/-! ### 3. the subclass methods are the branches of the model's dispatching functions -/

theorem start_bait_overlap (store : List Res) (sid : Nat) (f : Fragment) :
    Gen.Imp.StartOverhangPremise_bait_overlap store sid
      = (Premise.baitOverlap { kind := .start, sid := sid, fragment := f } store).map (fun v => (store, v)) := by
  simp only [Gen.Imp.StartOverhangPremise_bait_overlap, Premise.baitOverlap, bind_ok_pair]

theorem start_overhang_if_applied (store : List Res) (sid : Nat) (f : Fragment) :
    Gen.Imp.StartOverhangPremise_overhang_if_applied store sid
      = (Premise.overhangIfApplied { kind := .start, sid := sid, fragment := f } store).map (fun v => (store, v)) := by
  simp only [Gen.Imp.StartOverhangPremise_overhang_if_applied, Premise.overhangIfApplied, bind_ok_pair]

theorem start_delta (store : List Res) (sid : Nat) (f : Fragment) :
    Gen.Imp.StartOverhangPremise_overhang_error_delta_if_applied store sid
      = (Premise.delta { kind := .start, sid := sid, fragment := f } store).map (fun v => (store, v)) := by
  simp only [Gen.Imp.StartOverhangPremise_overhang_error_delta_if_applied, Premise.delta, Premise.overhangIfApplied, iabs]
  cases OverlapResult.overhangIfStartRemoved (getRes store sid) <;> rfl

theorem start_apply (store : List Res) (sid : Nat) (f : Fragment) :
    Gen.Imp.StartOverhangPremise_apply store sid
      = Premise.apply { kind := .start, sid := sid, fragment := f } store := by
  simp only [Gen.Imp.StartOverhangPremise_apply, Premise.apply, PyRt.updRes, getRes]
  cases OverlapResult.discardStart (store.getD sid default).o <;> rfl

theorem end_bait_overlap (store : List Res) (sid : Nat) (f : Fragment) :
    Gen.Imp.EndOverhangPremise_bait_overlap store sid
      = (Premise.baitOverlap { kind := .stop, sid := sid, fragment := f } store).map (fun v => (store, v)) := by
  simp only [Gen.Imp.EndOverhangPremise_bait_overlap, Premise.baitOverlap, bind_ok_pair]

theorem end_overhang_if_applied (store : List Res) (sid : Nat) (f : Fragment) :
    Gen.Imp.EndOverhangPremise_overhang_if_applied store sid
      = (Premise.overhangIfApplied { kind := .stop, sid := sid, fragment := f } store).map (fun v => (store, v)) := by
  simp only [Gen.Imp.EndOverhangPremise_overhang_if_applied, Premise.overhangIfApplied, bind_ok_pair]

theorem end_delta (store : List Res) (sid : Nat) (f : Fragment) :
    Gen.Imp.EndOverhangPremise_overhang_error_delta_if_applied store sid
      = (Premise.delta { kind := .stop, sid := sid, fragment := f } store).map (fun v => (store, v)) := by
  simp only [Gen.Imp.EndOverhangPremise_overhang_error_delta_if_applied, Premise.delta, Premise.overhangIfApplied, iabs]
  cases OverlapResult.overhangIfEndRemoved (getRes store sid) <;> rfl

theorem end_apply (store : List Res) (sid : Nat) (f : Fragment) :
    Gen.Imp.EndOverhangPremise_apply store sid
      = Premise.apply { kind := .stop, sid := sid, fragment := f } store := by
  simp only [Gen.Imp.EndOverhangPremise_apply, Premise.apply, PyRt.updRes, getRes]
  cases OverlapResult.discardEnd (store.getD sid default).o <;> rfl

/-! ### 4. `add_overhang_premise` -/

theorem rowIsFrag_eq (r : Row) (f : Fragment) : PyRt.rowIsFrag r f = OverlapResult.rowIs r f := by
  cases r <;> rfl

/-- NB the model evaluates `rows[-1] is fragment` even when `rows[0] is fragment` holds (the nested `(← …)` of its `do` block is
    lifted in front of the outer `if`), the source only in the `elif`.  No difference is observable: `rows[0]` succeeded, so
    `rows` is not empty and `rows[-1]` succeeds too (`pyGet_neg_one_of_zero`). -/
theorem add_premise_tie (store : List Res) (prems : List (Key × List Premise)) (f : Fragment) (sid : Nat) :
    Gen.Imp.OverhangResolver_add_overhang_premise store prems f sid
      = (addPremise store prems f sid).map (fun p => (store, p)) := by
  simp only [Gen.Imp.OverhangResolver_add_overhang_premise, addPremise, OverlapResult.firstIs, OverlapResult.lastIs,
    rowIsFrag_eq]
  cases h0 : pyGet (getRes store sid).rows 0 with
  | error e => rfl
  | ok r0 =>
    by_cases c0 : OverlapResult.rowIs r0 f = true
    · obtain ⟨y, hy⟩ := pyGet_neg_one_of_zero h0
      simp [bind, Except.bind, Except.map, pure, Except.pure, c0, hy]
    · cases h1 : pyGet (getRes store sid).rows (-1) with
      | error e => simp [bind, Except.bind, Except.map, pure, Except.pure, c0, h1]
      | ok r1 =>
        by_cases c1 : OverlapResult.rowIs r1 f = true
        · simp [bind, Except.bind, Except.map, pure, Except.pure, c0, c1, h1]
        · simp [bind, Except.bind, Except.map, pure, Except.pure, c0, c1, h1]

/-! ### 5. `sorted(prem_list, key=lambda x: x.overhang_error_delta_if_applied)` -/

/-- stated for the plain key function; the `>>= fun t => .ok t` the translator wraps around the key is removed by
    `bind_ok_self` first -/
theorem sortedByM_delta (store : List Res) (ps : List Premise) :
    PyRt.sortedByM (fun (x : Premise) => Premise.delta x store) ps = sortPremsByDelta store ps := by
  simp only [PyRt.sortedByM, sortPremsByDelta]
  have hf : (fun x => Except.map (fun d => (d, x)) (Premise.delta x store))
      = (fun p => do let d ← Premise.delta p store; pure (d, p)) := by
    funext p; cases Premise.delta p store <;> rfl
  rw [hf]
  cases List.mapM (fun p => do let d ← Premise.delta p store; pure (d, p)) ps <;> rfl

theorem insertBy_length {α : Type} (le : α → α → Bool) (x : α) (l : List α) :
    (insertBy le x l).length = l.length + 1 := by
  induction l with
  | nil => rfl
  | cons y ys ih => simp only [insertBy]; split <;> simp [ih]

theorem stableSort_length {α : Type} (le : α → α → Bool) (l : List α) : (stableSort le l).length = l.length := by
  induction l with
  | nil => rfl
  | cons y ys ih => simp [stableSort, insertBy_length, ih]

theorem mapM_ok_length {α β : Type} (f : α → R β) :
    ∀ (l : List α) (r : List β), l.mapM f = .ok r → r.length = l.length := by
  intro l
  induction l with
  | nil => intro r h; simp [pure, Except.pure] at h; subst h; rfl
  | cons x xs ih =>
    intro r h
    rw [List.mapM_cons] at h
    cases hx : f x with
    | error e => simp [hx, bind, Except.bind] at h
    | ok y =>
      cases hxs : xs.mapM f with
      | error e => simp [hx, hxs, bind, Except.bind] at h
      | ok ys =>
        simp [hx, hxs, bind, Except.bind, pure, Except.pure] at h
        subst h; simp [ih ys hxs]

theorem sortPremsByDelta_length {store : List Res} {ps sorted : List Premise}
    (h : sortPremsByDelta store ps = .ok sorted) : sorted.length = ps.length := by
  simp only [sortPremsByDelta] at h
  cases hk : List.mapM (fun p => do let d ← Premise.delta p store; pure (d, p)) ps with
  | error e => rw [hk] at h; simp [bind, Except.bind] at h
  | ok keyed =>
    rw [hk] at h
    simp [bind, Except.bind, pure, Except.pure] at h
    subst h
    simp [stableSort_length, mapM_ok_length _ _ _ hk]

/-- with `prem_count > 1` the sorted list has a best and a next-best element: `best_to_worst[0]`, `best_to_worst[1]` exist, and
    the model's `| _ => pure (store, fixes)` branch is dead -/
theorem sorted_two {store : List Res} {ps v : List Premise} (h : sortPremsByDelta store ps = .ok v)
    (hlen : 1 < ps.length) : ∃ bst nxt tl, v = bst :: nxt :: tl := by
  have := sortPremsByDelta_length h
  match v, this with
  | [], h' => simp at h'; omega
  | [_], h' => simp at h'; omega
  | bst :: nxt :: tl, _ => exact ⟨bst, nxt, tl, rfl⟩

/-! ### 6. `make_fixes` -/

/-- unfold the monad plumbing of one pass through the loop body, using every fact in the context -/
local macro "pass_simp" : tactic =>
  `(tactic| simp [fixOne, bind, Except.bind, Except.map, pure, Except.pure, PyRt.unpack2, *])

/-- `pass_simp` for a list of unknown length: an `if` on the count of premises is decided by `omega` -/
local macro "pass_simp_count" : tactic =>
  `(tactic| simp (disch := omega) [fixOne, bind, Except.bind, Except.map, pure, Except.pure, PyRt.unpack2, if_pos, if_neg, *])

/-- case analysis along the control flow of the `prem_count == 2` branch -/
local macro "two_cases" a:term "," b:term "," store:term "," err:term : tactic => `(tactic| (
  rcases ha : Premise.baitOverlap $a $store with ea | fo
  · pass_simp
  · by_cases h1 : fo < $err
    · rcases hb : Premise.baitOverlap $b $store with eb | so
      · pass_simp
      · by_cases h2 : so < $err
        · by_cases h3 : fo < so
          · rcases hA : Premise.apply $a $store with eA | sA <;> pass_simp
          · rcases hB : Premise.apply $b $store with eB | sB <;> pass_simp
        · pass_simp
    · pass_simp))

/-- case analysis along the control flow of the `prem_count > 1` branch; `fin` finishes each case -/
local macro "sort_cases" ps:term "," store:term "," err:term "," fin:tacticSeq : tactic => `(tactic| (
  rcases hs : sortPremsByDelta $store $ps with es | v
  · ($fin)
  · obtain ⟨bst, nxt, tl, rfl⟩ := sorted_two hs (by simp)
    rcases hbi : Premise.improves bst $store $err with ebi | _ | _
    · ($fin)
    · ($fin)
    · rcases hni : Premise.improves nxt $store $err with eni | _ | _
      · ($fin)
      · rcases hba : Premise.apply bst $store with eba | sba <;> ($fin)
      · ($fin)))

/-- one pass through the body of `for prem_list in self.premises_by_fragment_key.values():` is `fixOne`, the whole loop the fold -/
theorem make_fixes_tie (store : List Res) (prems : List (Key × List Premise)) (err : Int) :
    Gen.Imp.OverhangResolver_make_fixes_imp store prems err = (prems.map (·.2)).foldlM (fixOne err) (store, []) := by
  unfold Gen.Imp.OverhangResolver_make_fixes_imp
  try simp only []
  -- the loop carries `store` and `fixes_made` in the translator's (canonical) order, the model's `fixOne` as `(store, fixes)`:
  -- whichever of the two orders the generated tuple has, `forIn_of_next_via` relates them
  first
    | rw [forIn_of_next_via (fun p => p) (fixOne err) _ ?_ _ (store, [])]
    | rw [forIn_of_next_via (fun p => (p.2, p.1)) (fixOne err) _ ?_ _ (store, [])]
  · cases List.foldlM (fixOne err) (store, []) (prems.map (·.2)) <;> rfl
  · intro ps s
    obtain ⟨store, fixes⟩ := s
    simp only [bind_ok_self, sortedByM_delta]
    match ps with
    | [] => pass_simp
    | [a] => pass_simp
    | [a, b] => sort_cases [a, b], store, err, (two_cases a, b, store, err)
    | a :: b :: c :: r =>
      -- three or more premises: whatever way the source spells its tests on the count (`prem_count == 2`, `len(prem_list) > 1`,
      -- `prem_count >= 2`, …), they are linear facts about `r.length + 3` and `omega` decides them
      sort_cases (a :: b :: c :: r), store, err, pass_simp_count

/-! ### 7. premise lists are never empty (`setdefault(fk, []).append(premise)` never leaves one) -/

def AllNonempty (prems : List (Key × List Premise)) : Prop := ∀ kv ∈ prems, kv.2 ≠ []

theorem allNonempty_nil : AllNonempty [] := by intro kv h; cases h

theorem dSet_nonempty (prems : List (Key × List Premise)) (k : Key) (v : List Premise) (hv : v ≠ [])
    (h : AllNonempty prems) : AllNonempty (dSet prems k v) := by
  induction prems with
  | nil => intro kv hkv; simp [dSet] at hkv; subst hkv; exact hv
  | cons p r ih =>
    obtain ⟨k', v'⟩ := p
    have hr : AllNonempty r := fun kv hkv => h kv (List.mem_cons_of_mem _ hkv)
    intro kv hkv
    simp only [dSet] at hkv
    split at hkv
    · rcases List.mem_cons.mp hkv with rfl | hm
      · exact hv
      · exact hr kv hm
    · rcases List.mem_cons.mp hkv with rfl | hm
      · exact h _ (List.mem_cons_self)
      · exact ih hr kv hm

theorem addPremise_nonempty {store : List Res} {prems prems' : List (Key × List Premise)} {f : Fragment} {sid : Nat}
    (h : AllNonempty prems) (h' : addPremise store prems f sid = .ok prems') : AllNonempty prems' := by
  simp only [addPremise] at h'
  cases h0 : (getRes store sid).firstIs f with
  | error e => simp [h0, bind, Except.bind] at h'
  | ok b0 =>
    cases h1 : (getRes store sid).lastIs f with
    | error e => cases b0 <;> simp [h0, h1, bind, Except.bind, pure, Except.pure] at h'
    | ok b1 =>
      cases b0 <;> cases b1 <;> simp [h0, h1, bind, Except.bind, pure, Except.pure] at h' <;> subst h'
      · exact h
      all_goals exact dSet_nonempty _ _ _ (by simp) h

/-! ### 8. one resolver round, written with the translated source functions -/

/-- the premise dictionary one resolver round builds: the first statement of `resolverRound` (`resolverRound_eq` below) -/
def roundPrems (b : Build) : R (List (Key × List Premise)) :=
  b.multi.foldlM (fun prems k =>
    match dGet? b.found k with
    | none => pure prems
    | some fnd => fnd.scaffolds.foldlM (fun prems sid => addPremise b.store prems fnd.fragment sid) prems) []

/-- the same loop nest calling the translated `add_overhang_premise` (which hands back the store it was given) -/
def roundPremsSrc (b : Build) : R (List Res × List (Key × List Premise)) :=
  b.multi.foldlM (fun sp k =>
    match dGet? b.found k with
    | none => pure sp
    | some fnd => fnd.scaffolds.foldlM
        (fun sp sid => Gen.Imp.OverhangResolver_add_overhang_premise sp.1 sp.2 fnd.fragment sid) sp) (b.store, [])

/-- one resolver round with both resolver methods replaced by their translated source -/
def resolverRoundSrc (b : Build) : R (Option Build) := do
  let (st, prems) ← roundPremsSrc b
  let (store, fixes) ← Gen.Imp.OverhangResolver_make_fixes_imp st prems b.err
  if fixes.isEmpty then pure none
  else do
    let b ← fixes.foldlM applyFixBookkeeping { b with store := store }
    pure (some b)

theorem resolverRound_eq (b : Build) :
    resolverRound b = (do
      let prems ← roundPrems b
      let (store, fixes) ← (prems.map (·.2)).foldlM (fixOne b.err) (b.store, [])
      if fixes.isEmpty then pure none
      else do
        let b ← fixes.foldlM applyFixBookkeeping { b with store := store }
        pure (some b)) := rfl

theorem roundPremsSrc_eq (b : Build) : roundPremsSrc b = (roundPrems b).map (fun p => (b.store, p)) := by
  unfold roundPremsSrc roundPrems
  apply foldlM_pair
  intro prems k
  cases dGet? b.found k with
  | none => rfl
  | some fnd =>
    simp only []
    apply foldlM_pair
    intro prems sid
    exact add_premise_tie b.store prems fnd.fragment sid

theorem roundPrems_nonempty {b : Build} {prems : List (Key × List Premise)} (h : roundPrems b = .ok prems) :
    AllNonempty prems := by
  refine foldlM_inv AllNonempty _ ?_ b.multi [] prems allNonempty_nil h
  intro s k s' hs hk
  cases hd : dGet? b.found k with
  | none => simp [hd, pure, Except.pure] at hk; subst hk; exact hs
  | some fnd =>
    simp only [hd] at hk
    exact foldlM_inv AllNonempty _ (fun s sid s' hs h => addPremise_nonempty hs h) fnd.scaffolds s s' hs hk

theorem resolverRoundSrc_eq (b : Build) : resolverRoundSrc b = resolverRound b := by
  rw [resolverRound_eq, resolverRoundSrc, roundPremsSrc_eq]
  cases roundPrems b with
  | error e => rfl
  | ok prems =>
    simp only [Except.map, make_fixes_tie]
    rfl

end AgpTpf.ImpResolver
