/- C05 (f): TPF whole-assembly round trip -/
import AgpTpf.Proofs.C05AgpText
namespace AgpTpf.C05
open AgpTpf AgpTpf.C06

def dropTagsAssembly (a : Assembly) : Assembly :=
  { a with scaffolds := a.scaffolds.map (fun s => { s with rows := s.rows.map Row.dropTags }) }

/-- a TPF gap line names no scaffold: it goes to whatever scaffold is current, so a scaffold must start with
    a fragment (else its leading gap is re-homed to the previous scaffold, or is an error at the file start) -/
def FirstIsFrag (rows : List Row) : Prop :=
  match rows with
  | .frag _ :: _ => True
  | _ => False

instance (rows : List Row) : Decidable (FirstIsFrag rows) := by
  unfold FirstIsFrag
  cases rows with
  | nil => infer_instance
  | cons r t => cases r <;> infer_instance

/-- Assemblies TPF carries (up to tags): see `TpfRowOk`, `TpfScafNameOk`, `FirstIsFrag`, `NamesChain`. -/
def WFTpf (a : Assembly) : Prop :=
  (∀ h ∈ a.header, HeaderOk h) ∧ NamesChain [] a.scaffolds ∧
  ∀ s ∈ a.scaffolds, TpfScafNameOk s.name ∧ FirstIsFrag s.rows ∧ ∀ r ∈ s.rows, TpfRowOk r

instance (a : Assembly) : Decidable (WFTpf a) := by unfold WFTpf; infer_instance

theorem formatTpfRow_ok (name : Str) (r : Row) (hr : TpfRowOk r) : ∃ line, formatTpfRow name r = .ok line := by
  cases r with
  | gap g => exact ⟨_, rfl⟩
  | frag f =>
    obtain ⟨ss, hss, _⟩ := strandStr_tpf f.strand hr.2.2.2.2.2
    exact ⟨_, by simp only [formatTpfRow, hss]; rfl⟩

theorem parseTpfLine_in_scaffold (name : Str) (row : Row) (line : Str) (hn : TpfScafNameOk name)
    (hr : TpfRowOk row) (hl : formatTpfRow name row = .ok line) (st : ParseState) (hin : InScaffold name st) :
    parseTpfLine st line = stepRow name st (Row.dropTags row) := by
  cases row with
  | gap g =>
    rw [parseTpfLine_gap st name g line hr hin.2 hl, stepRow, switchScaffold_same _ _ hin.1]; rfl
  | frag f => exact parseTpfLine_frag st name f line hn hr hl

theorem scaffoldLines_tpf (s : Scaffold) (ls : List Str) (hn : TpfScafNameOk s.name)
    (hfirst : FirstIsFrag s.rows) (hr : ∀ r ∈ s.rows, TpfRowOk r)
    (hc : s.rows.mapM (formatTpfRow s.name) = .ok ls) :
    ScaffoldLines parseTpfLine s (s.rows.map Row.dropTags) ls := by
  have hall := ((mapM_ok_iff _ _ _).1 hc).flip
  unfold ScaffoldLines
  cases hrows : s.rows with
  | nil => rw [hrows] at hfirst; exact hfirst.elim
  | cons row rows =>
    rw [hrows] at hall hfirst hr
    cases ls with
    | nil => exact hall.elim
    | cons line lines =>
      obtain ⟨h1, h2⟩ := hall
      cases row with
      | gap g => exact hfirst.elim
      | frag f =>
        refine ⟨fun st => parseTpfLine_frag st s.name f line hn (hr _ (by simp)) h1, ?_⟩
        apply Forall2.map_right
        refine Forall2.imp_mem ?_ h2
        intro l r hrm hl st hin
        exact parseTpfLine_in_scaffold s.name r l hn (hr r (by simp [hrm])) hl st hin

/-- (f, TPF) the reader rebuilds the assembly without its tags -/
theorem tpf_roundtrip_lines (a : Assembly) (h : WFTpf a) :
    ∃ lines, formatTpf a = .ok lines ∧ parseTpf lines = .ok (canonAssembly (dropTagsAssembly a)) := by
  obtain ⟨hh, hch, hsc⟩ := h
  obtain ⟨bodies, hb, hall⟩ := mapM_ok_of_forall (fun s : Scaffold => s.rows.mapM (formatTpfRow s.name))
    (fun s ls => s.rows.mapM (formatTpfRow s.name) = .ok ls) a.scaffolds (by
      intro s hs
      obtain ⟨ls, hls, _⟩ := mapM_ok_of_forall (formatTpfRow s.name) (fun _ _ => True) s.rows
        (fun r hr => by obtain ⟨l, hl⟩ := formatTpfRow_ok s.name r ((hsc s hs).2.2 r hr); exact ⟨l, hl, trivial⟩)
      exact ⟨ls, hls, hls⟩)
  have hfmt : formatTpf a = .ok (a.header.map (fun h => Gen.tpfHeaderPrefix ++ h ++ ['\n']) ++ bodies.flatten) := by
    unfold formatTpf; rw [hb]; rfl
  refine ⟨_, hfmt, ?_⟩
  unfold parseTpf
  rw [List.foldlM_append, fold_headers parseTpfLine Gen.tpfHeaderPrefix parseTpfLine_header a.header hh]
  have hlines : Forall2 (fun s ls => ScaffoldLines parseTpfLine s (s.rows.map Row.dropTags) ls) a.scaffolds bodies := by
    refine Forall2.imp_mem_left ?_ hall
    intro s ls hs hc
    exact scaffoldLines_tpf s ls (hsc s hs).1 (hsc s hs).2.1 (hsc s hs).2.2 hc
  obtain ⟨st', h1, h2, h3⟩ := fold_scaffolds parseTpfLine (fun s => s.rows.map Row.dropTags) a.scaffolds _
    { header := [] ++ a.header } hlines hch
  simp only [bind, Except.bind]
  have e : ({ header := ([] : List Str) ++ a.header } : ParseState) =
      { ({} : ParseState) with header := ({} : ParseState).header ++ a.header } := rfl
  rw [← e, h1]
  simp only [pure, Except.pure, canonAssembly, dropTagsAssembly]
  rw [h2, h3]
  simp

theorem tpfLine_lineOk (name : Str) (row : Row) (line : Str) (hn : '\n' ∉ name) (hr : RowNoNl row)
    (hl : formatTpfRow name row = .ok line) : LineOk line := by
  cases row with
  | gap g =>
    rw [formatTpfRow_eq_cols_gap] at hl; cases hl
    apply lineOfCols_lineOk
    intro c hc
    simp only [List.mem_cons, List.not_mem_nil, or_false] at hc
    rcases hc with rfl | rfl | rfl
    · decide
    · exact tpfGapTypeToText_no '\n' (by decide) (by decide) _ hr
    · exact intToStr_no_nl _
  | frag f =>
    simp only [formatTpfRow, bind, Except.bind] at hl
    cases hss : strandStr Gen.tpfStrandStr f.strand with
    | error e => rw [hss] at hl; cases hl
    | ok ss =>
      rw [hss] at hl
      simp only [pure, Except.pure, Except.ok.injEq] at hl
      subst hl
      have hmem := pyGet_mem _ _ _ hss
      have hssn : '\n' ∉ ss := by
        simp only [Gen.tpfStrandStr, List.mem_cons, List.not_mem_nil, or_false] at hmem
        rcases hmem with rfl | rfl | rfl <;> decide
      apply lineOfCols_lineOk
      intro c hc
      simp only [List.mem_cons, List.not_mem_nil, or_false] at hc
      rcases hc with rfl | rfl | rfl | rfl
      · decide
      · have := intToStr_no_nl f.start; have := intToStr_no_nl f.stop; have := hr.1
        simp [*]
      · exact hn
      · exact hssn

/-- (f, TPF, text level) -/
theorem tpf_roundtrip_text (a : Assembly) (h : WFTpf a) (hnl : NoNewlines a) :
    ∃ lines, formatTpf a = .ok lines ∧ pyLines lines.flatten = lines ∧
      parseTpf (pyLines lines.flatten) = .ok (canonAssembly (dropTagsAssembly a)) := by
  obtain ⟨lines, h1, h2⟩ := tpf_roundtrip_lines a h
  have hpl : pyLines lines.flatten = lines := by
    apply pyLines_flatten
    unfold formatTpf at h1
    simp only [bind, Except.bind] at h1
    cases hb : a.scaffolds.mapM (fun s => s.rows.mapM (formatTpfRow s.name)) with
    | error e => rw [hb] at h1; cases h1
    | ok bodies =>
      rw [hb] at h1
      simp only [pure, Except.pure, Except.ok.injEq] at h1
      subst h1
      intro l hl
      rw [List.mem_append] at hl
      rcases hl with hl | hl
      · rw [List.mem_map] at hl
        obtain ⟨hd, hdm, rfl⟩ := hl
        exact headerLine_lineOk _ _ (by decide) (h.1 hd hdm)
      · rw [List.mem_flatten] at hl
        obtain ⟨body, hbm, hlb⟩ := hl
        have := mem_flatten_of_forall2 (Q := fun (ls : List Str) => ∀ l ∈ ls, LineOk l) ((mapM_ok_iff _ _ _).1 hb) (by
          intro s ls hs hc
          exact mem_flatten_of_forall2 (Q := LineOk) ((mapM_ok_iff _ _ _).1 hc) (by
            intro row line hrow hline
            exact tpfLine_lineOk s.name row line (hnl s hs).1 ((hnl s hs).2 row hrow) hline))
        exact this body hbm l hlb
  exact ⟨lines, h1, hpl, by rw [hpl]; exact h2⟩

/-! ### the TPF writer looks at neither tags nor object ids -/

theorem formatTpfRow_dropTags (name : Str) (r : Row) : formatTpfRow name (Row.dropTags r) = formatTpfRow name r := by
  cases r <;> rfl

theorem mapM_formatTpfRow_renum (name : Str) (k : Nat) (rows : List Row) :
    (renumRows k rows).mapM (formatTpfRow name) = rows.mapM (formatTpfRow name) := by
  induction rows generalizing k with
  | nil => rfl
  | cons r t ih =>
    cases r with
    | gap g => simp only [renumRows, List.mapM_cons, ih]
    | frag f =>
      simp only [renumRows, List.mapM_cons, ih]
      rfl

theorem formatTpf_canon (a : Assembly) : formatTpf (canonAssembly a) = formatTpf a := by
  unfold formatTpf canonAssembly
  simp only
  rw [mapM_congr_forall2 _ (fun s => s.rows.mapM (formatTpfRow s.name)) _ a.scaffolds
    (canonScaffolds_forall2 _ (fun s k => mapM_formatTpfRow_renum s.name k s.rows) 0 a.scaffolds)]

theorem formatTpf_dropTags (a : Assembly) : formatTpf (dropTagsAssembly a) = formatTpf a := by
  unfold formatTpf dropTagsAssembly
  simp only [List.mapM_map]
  congr 2
  funext s
  simp only [Function.comp, List.mapM_map]
  congr 1
  funext r
  exact formatTpfRow_dropTags s.name r

end AgpTpf.C05
