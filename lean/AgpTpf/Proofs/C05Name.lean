/- C05 (d): the TPF name pattern `(.+):(\d+)-(\d+)$` -/
import AgpTpf.Proofs.C05Int
namespace AgpTpf.C05
open AgpTpf

theorem splitLastColon_append (name coords : Str) (h : ':' ∉ coords) :
    splitLastColon (name ++ ':' :: coords) = some (name, coords) := by
  unfold splitLastColon
  have hr : (name ++ ':' :: coords).reverse = coords.reverse ++ ':' :: name.reverse := by simp
  have hp : ∀ a ∈ coords.reverse, (decide (a ≠ ':')) = true := by
    intro a ha; simp at ha ⊢; intro e; exact h (e ▸ ha)
  simp only [hr]
  rw [List.takeWhile_append_of_pos hp, List.dropWhile_append_of_pos hp]
  simp

/-- general form: digits `d1`, `d2` -/
theorem tpfNameMatch_digits (name d1 d2 : Str) (hn : name ≠ []) (hnl : '\n' ∉ name)
    (h1 : d1 ≠ []) (h2 : d2 ≠ []) (hd1 : ∀ c ∈ d1, isDigit c = true) (hd2 : ∀ c ∈ d2, isDigit c = true) :
    tpfNameMatch (name ++ [':'] ++ d1 ++ ['-'] ++ d2) = some (name, d1, d2) := by
  have hcol : ∀ d : Str, (∀ c ∈ d, isDigit c = true) → ':' ∉ d := by
    intro d hd hm; have := hd _ hm; revert this; decide
  have hc : ':' ∉ d1 ++ '-' :: d2 := by
    intro hm; simp at hm
    rcases hm with hm | hm
    · exact hcol d1 hd1 hm
    · exact hcol d2 hd2 hm
  have e : name ++ [':'] ++ d1 ++ ['-'] ++ d2 = name ++ ':' :: (d1 ++ '-' :: d2) := by simp
  unfold tpfNameMatch
  rw [e, splitLastColon_append _ _ hc]
  dsimp only
  have hm : ¬ (isDigit '-' = true) := by decide
  rw [List.takeWhile_append_of_pos hd1, List.dropWhile_append_of_pos hd1]
  simp only [List.dropWhile_cons_of_neg hm, List.takeWhile_cons_of_neg hm, List.append_nil]
  have a1 : name.isEmpty = false := by cases name <;> simp_all
  have a2 : d1.isEmpty = false := by cases d1 <;> simp_all
  have a3 : d2.isEmpty = false := by cases d2 <;> simp_all
  have a4 : d2.all isDigit = true := by simpa using hd2
  have a5 : name.contains '\n' = false := by simpa using hnl
  simp [a1, a2, a3, a4, hnl]

/-- (d) "last colon wins": names may contain ':' and '-'. -/
theorem tpfNameMatch_format (name : Str) (s e : Nat) (hn : name ≠ []) (hnl : '\n' ∉ name) :
    tpfNameMatch (name ++ [':'] ++ natToStr s ++ ['-'] ++ natToStr e) = some (name, natToStr s, natToStr e) :=
  tpfNameMatch_digits name _ _ hn hnl (natToStr_ne_nil s) (natToStr_ne_nil e)
    (fun _ h => isDigit_of_mem_natToStr h) (fun _ h => isDigit_of_mem_natToStr h)

example : tpfNameMatch "a:1-2:b-c:10-20".toList = some ("a:1-2:b-c".toList, "10".toList, "20".toList) := by decide

/-- FINDING: a negative start cannot be carried by TPF (`-5` is not `\d+`): the line is rejected. -/
example : tpfNameMatch ("ctg".toList ++ [':'] ++ intToStr (-5) ++ ['-'] ++ intToStr 7) = none := by decide

end AgpTpf.C05
