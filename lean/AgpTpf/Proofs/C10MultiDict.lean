/-
  C10, chromosome numbering with several haplotypes, part 1: the `ChrGroup.data` dictionary built from a segment of
  `ChrNamer.scaffolds` (`segGroup`), characterised explicitly:
    * `dGet_segGroup`  : the haplotype dict of `h` is `hapChrs fs h seg` — the distinct Pretext names of the `h`-entries in
                         first-occurrence order, each with the ids of its scaffolds in order;
    * `segGroup_eq`    : for duplicate-free `haps` containing every entry's key the whole group is
                         `haps.map (fun h => (h, hapChrs fs h seg))`;
    * `groupIds_segGroup` : the ids stored in the group are a permutation of the segment's ids.
-/
import AgpTpf.Model.Remap
import AgpTpf.Proofs.C09Dict
import AgpTpf.Proofs.C10GroupsBuild
import AgpTpf.Proofs.C10GroupsOut
namespace AgpTpf.C10
open AgpTpf Dict

/-- `(haplotype key, scaffold id)` as handed to `ChrNamer.add_scaffold` -/
abbrev Entry := Str × Nat
/-- one haplotype's dict of a `ChrGroup`: Pretext name → scaffold ids -/
abbrev ChrDict := List (Str × List Nat)

theorem snoc_induction {α} {P : List α → Prop} (nil : P []) (snoc : ∀ l a, P l → P (l ++ [a])) : ∀ l, P l := by
  intro l
  have : ∀ r : List α, P r.reverse := by
    intro r
    induction r with
    | nil => exact nil
    | cons a r ih => rw [List.reverse_cons]; exact snoc _ _ ih
  have h := this l.reverse
  rwa [List.reverse_reverse] at h

/-! ### generic dict facts -/

section dict
variable {κ ν : Type} [DecidableEq κ]

theorem dGet?_map_key (ks : List κ) (f : κ → ν) (k : κ) :
    dGet? (ks.map (fun k' => (k', f k'))) k = if k ∈ ks then some (f k) else none := by
  induction ks with
  | nil => simp [dGet?]
  | cons a r ih =>
    simp only [List.map_cons, dGet?, ih, List.mem_cons]
    by_cases e : a = k
    · subst e; simp
    · have e' : ¬ k = a := fun h => e h.symm
      simp [e, e']

theorem dSet_of_none (d : List (κ × ν)) (k : κ) (v : ν) (h : dGet? d k = none) : dSet d k v = d ++ [(k, v)] := by
  induction d with
  | nil => rfl
  | cons p r ih =>
    obtain ⟨k', v'⟩ := p
    unfold dGet? at h
    by_cases e : k' = k
    · simp [e] at h
    · simp only [e, if_false] at h
      simp [dSet, e, ih h]

theorem dSet_split (d : List (κ × ν)) (k : κ) (v old : ν) (h : dGet? d k = some old) :
    ∃ A B, d = A ++ (k, old) :: B ∧ dSet d k v = A ++ (k, v) :: B := by
  induction d with
  | nil => simp [dGet?] at h
  | cons p r ih =>
    obtain ⟨k', v'⟩ := p
    unfold dGet? at h
    by_cases e : k' = k
    · subst e
      simp only [if_true, Option.some.injEq] at h
      subst h
      exact ⟨[], r, rfl, by simp [dSet]⟩
    · simp only [e, if_false] at h
      obtain ⟨A, B, h1, h2⟩ := ih h
      exact ⟨(k', v') :: A, B, by rw [h1]; rfl, by simp [dSet, e, h2]⟩

theorem dSet_map_mem (ks : List κ) (f : κ → ν) (k : κ) (v : ν) (hnd : ks.Nodup) (hk : k ∈ ks) :
    dSet (ks.map (fun k' => (k', f k'))) k v = ks.map (fun k' => (k', if k' = k then v else f k')) := by
  induction ks with
  | nil => cases hk
  | cons a r ih =>
    rw [List.nodup_cons] at hnd
    simp only [List.map_cons, dSet]
    by_cases e : a = k
    · subst e
      simp only [if_true, List.cons.injEq, true_and]
      apply List.map_congr_left
      intro x hx
      have : x ≠ a := fun h => hnd.1 (h ▸ hx)
      simp [this]
    · simp only [e, if_false]
      rcases List.mem_cons.1 hk with h | h
      · exact absurd h.symm e
      · rw [ih hnd.2 h]

theorem dSet_map_not_mem (ks : List κ) (f : κ → ν) (k : κ) (v : ν) (hk : k ∉ ks) :
    dSet (ks.map (fun k' => (k', f k'))) k v = ks.map (fun k' => (k', f k')) ++ [(k, v)] := by
  apply dSet_of_none
  rw [dGet?_map_key, if_neg hk]

theorem dGet?_dSet (d : List (κ × ν)) (k k' : κ) (v : ν) :
    dGet? (dSet d k v) k' = if k = k' then some v else dGet? d k' := by
  by_cases e : k = k'
  · subst e; rw [if_pos rfl, dGet?_dSet_self]
  · rw [if_neg e, dGet?_dSet_ne _ _ _ _ e]

/-- the head key of a dict is never moved by `dSet` -/
theorem dSet_head (k0 : κ) (v0 : ν) (r : List (κ × ν)) (k : κ) (v : ν) :
    ∃ v1 r1, dSet ((k0, v0) :: r) k v = (k0, v1) :: r1 := by
  unfold dSet
  by_cases e : k0 = k
  · exact ⟨v, r, by simp [e]⟩
  · exact ⟨v0, dSet r k v, by simp [e]⟩

end dict

/-! ### the specification of one group -/

/-- the entries of a segment under haplotype key `h` -/
def hapEntries (h : Str) (seg : List Entry) : List Entry := seg.filter (fun e => e.1 = h)

/-- ids of the scaffolds of haplotype `h` with Pretext name `o` in the segment, in order -/
def idsOf (fs : List Scaffold) (h o : Str) (seg : List Entry) : List Nat :=
  ((hapEntries h seg).filter (fun e => origOf fs e.2 = o)).map (·.2)

/-- distinct Pretext names of haplotype `h` in the segment, in order of first occurrence -/
def hapOrigs (fs : List Scaffold) (h : Str) (seg : List Entry) : List Str :=
  (hapEntries h seg).foldl (fun acc e => sAdd acc (origOf fs e.2)) []

/-- `group.data[h]`: one `(Pretext name, ids)` item per chromosome of `h` in the group -/
def hapChrs (fs : List Scaffold) (h : Str) (seg : List Entry) : ChrDict :=
  (hapOrigs fs h seg).map (fun o => (o, idsOf fs h o seg))

/-- the `ChrGroup.data` built by adding the entries of `seg` in order to a fresh group -/
def segGroup (fs : List Scaffold) (haps : List Str) (seg : List Entry) : GroupData :=
  seg.foldl (fun g e => groupAdd g e.1 (origOf fs e.2) e.2) (newGroup haps)

def addChr (d : ChrDict) (o : Str) (sid : Nat) : ChrDict := dSet d o ((dGet? d o).getD [] ++ [sid])

theorem groupAdd_eq (g : GroupData) (hap o : Str) (sid : Nat) :
    groupAdd g hap o sid = dSet g hap (addChr ((dGet? g hap).getD []) o sid) := rfl

theorem segGroup_nil (fs : List Scaffold) (haps : List Str) : segGroup fs haps [] = newGroup haps := rfl

theorem segGroup_snoc (fs : List Scaffold) (haps : List Str) (seg : List Entry) (e : Entry) :
    segGroup fs haps (seg ++ [e]) = groupAdd (segGroup fs haps seg) e.1 (origOf fs e.2) e.2 := by
  unfold segGroup; rw [List.foldl_append]; rfl

theorem hapEntries_snoc (h : Str) (seg : List Entry) (e : Entry) :
    hapEntries h (seg ++ [e]) = if e.1 = h then hapEntries h seg ++ [e] else hapEntries h seg := by
  unfold hapEntries
  rw [List.filter_append]
  by_cases c : e.1 = h <;> simp [c]

theorem hapOrigs_snoc_same (fs : List Scaffold) (seg : List Entry) (e : Entry) :
    hapOrigs fs e.1 (seg ++ [e]) = sAdd (hapOrigs fs e.1 seg) (origOf fs e.2) := by
  unfold hapOrigs
  rw [hapEntries_snoc, if_pos rfl, List.foldl_append]; rfl

theorem hapOrigs_snoc_other (fs : List Scaffold) (h : Str) (seg : List Entry) (e : Entry) (hne : e.1 ≠ h) :
    hapOrigs fs h (seg ++ [e]) = hapOrigs fs h seg := by
  unfold hapOrigs; rw [hapEntries_snoc, if_neg hne]

theorem idsOf_snoc (fs : List Scaffold) (h o : Str) (seg : List Entry) (e : Entry) :
    idsOf fs h o (seg ++ [e]) = idsOf fs h o seg ++ (if e.1 = h ∧ origOf fs e.2 = o then [e.2] else []) := by
  unfold idsOf
  rw [hapEntries_snoc]
  by_cases c : e.1 = h
  · by_cases c2 : origOf fs e.2 = o <;> simp [c, c2, List.filter_append]
  · simp [c]

theorem sAdd_nodup {α} [DecidableEq α] (s : List α) (x : α) (h : s.Nodup) : (sAdd s x).Nodup := by
  unfold sAdd
  split
  · exact h
  · rename_i hx
    rw [List.nodup_append]
    exact ⟨h, by simp, fun a ha b hb => by simp only [List.mem_singleton] at hb; subst hb; exact fun e => hx (e ▸ ha)⟩

theorem foldl_sAdd_nodup {α β} [DecidableEq α] (f : β → α) : ∀ (l : List β) (s : List α), s.Nodup →
    (l.foldl (fun acc e => sAdd acc (f e)) s).Nodup := by
  intro l
  induction l with
  | nil => intro s h; exact h
  | cons a r ih => intro s h; exact ih _ (sAdd_nodup s (f a) h)

theorem foldl_sAdd_mem {α β} [DecidableEq α] (f : β → α) : ∀ (l : List β) (s : List α) (x : α),
    x ∈ l.foldl (fun acc e => sAdd acc (f e)) s ↔ x ∈ s ∨ ∃ e ∈ l, f e = x := by
  intro l
  induction l with
  | nil => intro s x; simp
  | cons a r ih =>
    intro s x
    simp only [List.foldl_cons]
    rw [ih, mem_sAdd]
    constructor
    · rintro ((h | h) | ⟨e, he, h⟩)
      · exact Or.inl h
      · exact Or.inr ⟨a, by simp, h.symm⟩
      · exact Or.inr ⟨e, List.mem_cons_of_mem _ he, h⟩
    · rintro (h | ⟨e, he, h⟩)
      · exact Or.inl (Or.inl h)
      · rcases List.mem_cons.1 he with e1 | he
        · subst e1; exact Or.inl (Or.inr h.symm)
        · exact Or.inr ⟨e, he, h⟩

theorem hapOrigs_nodup (fs : List Scaffold) (h : Str) (seg : List Entry) : (hapOrigs fs h seg).Nodup :=
  foldl_sAdd_nodup _ _ _ List.nodup_nil

theorem mem_hapEntries (h : Str) (seg : List Entry) (e : Entry) : e ∈ hapEntries h seg ↔ e ∈ seg ∧ e.1 = h := by
  unfold hapEntries; simp

theorem mem_hapOrigs (fs : List Scaffold) (h o : Str) (seg : List Entry) :
    o ∈ hapOrigs fs h seg ↔ ∃ e ∈ seg, e.1 = h ∧ origOf fs e.2 = o := by
  unfold hapOrigs
  rw [foldl_sAdd_mem]
  simp only [List.not_mem_nil, false_or, mem_hapEntries]
  constructor
  · rintro ⟨e, ⟨h1, h2⟩, h3⟩; exact ⟨e, h1, h2, h3⟩
  · rintro ⟨e, h1, h2, h3⟩; exact ⟨e, ⟨h1, h2⟩, h3⟩

theorem mem_idsOf (fs : List Scaffold) (h o : Str) (seg : List Entry) (j : Nat) :
    j ∈ idsOf fs h o seg ↔ ∃ e ∈ seg, e.1 = h ∧ origOf fs e.2 = o ∧ e.2 = j := by
  unfold idsOf
  simp only [List.mem_map, List.mem_filter, mem_hapEntries, decide_eq_true_eq]
  constructor
  · rintro ⟨e, ⟨⟨h1, h2⟩, h3⟩, h4⟩; exact ⟨e, h1, h2, h3, h4⟩
  · rintro ⟨e, h1, h2, h3, h4⟩; exact ⟨e, ⟨⟨h1, h2⟩, h3⟩, h4⟩

theorem idsOf_nil_of_not_mem (fs : List Scaffold) (h o : Str) (seg : List Entry) (hn : o ∉ hapOrigs fs h seg) :
    idsOf fs h o seg = [] := by
  rw [List.eq_nil_iff_forall_not_mem]
  intro j hj
  obtain ⟨e, h1, h2, h3, _⟩ := (mem_idsOf fs h o seg j).1 hj
  exact hn ((mem_hapOrigs fs h o seg).2 ⟨e, h1, h2, h3⟩)

theorem idsOf_ne_nil_of_mem (fs : List Scaffold) (h o : Str) (seg : List Entry) (hm : o ∈ hapOrigs fs h seg) :
    idsOf fs h o seg ≠ [] := by
  obtain ⟨e, h1, h2, h3⟩ := (mem_hapOrigs fs h o seg).1 hm
  intro hnil
  have : e.2 ∈ idsOf fs h o seg := (mem_idsOf fs h o seg e.2).2 ⟨e, h1, h2, h3, rfl⟩
  rw [hnil] at this; cases this

/-- adding one scaffold of haplotype `e.1` to that haplotype's dict -/
theorem addChr_hapChrs (fs : List Scaffold) (seg : List Entry) (e : Entry) :
    addChr (hapChrs fs e.1 seg) (origOf fs e.2) e.2 = hapChrs fs e.1 (seg ++ [e]) := by
  unfold addChr hapChrs
  rw [hapOrigs_snoc_same, dGet?_map_key]
  by_cases hm : origOf fs e.2 ∈ hapOrigs fs e.1 seg
  · rw [if_pos hm, dSet_map_mem _ _ _ _ (hapOrigs_nodup fs e.1 seg) hm]
    have hs : sAdd (hapOrigs fs e.1 seg) (origOf fs e.2) = hapOrigs fs e.1 seg := by unfold sAdd; rw [if_pos hm]
    rw [hs]
    apply List.map_congr_left
    intro o _
    rw [idsOf_snoc]
    by_cases c : o = origOf fs e.2
    · subst c; simp
    · have c' : ¬ origOf fs e.2 = o := fun h => c h.symm
      simp [c, c']
  · rw [if_neg hm, dSet_map_not_mem _ _ _ _ hm]
    have hs : sAdd (hapOrigs fs e.1 seg) (origOf fs e.2) = hapOrigs fs e.1 seg ++ [origOf fs e.2] := by
      unfold sAdd; rw [if_neg hm]
    rw [hs, List.map_append]
    congr 1
    · apply List.map_congr_left
      intro o ho
      rw [idsOf_snoc]
      have c' : ¬ origOf fs e.2 = o := fun h => hm (h ▸ ho)
      simp [c']
    · simp only [List.map_cons, List.map_nil, List.cons.injEq, Prod.mk.injEq, true_and, and_true]
      rw [idsOf_snoc, idsOf_nil_of_not_mem fs e.1 _ seg hm]
      simp

theorem hapChrs_snoc_other (fs : List Scaffold) (h : Str) (seg : List Entry) (e : Entry) (hne : e.1 ≠ h) :
    hapChrs fs h (seg ++ [e]) = hapChrs fs h seg := by
  unfold hapChrs
  rw [hapOrigs_snoc_other fs h seg e hne]
  apply List.map_congr_left
  intro o _
  rw [idsOf_snoc]; simp [hne]

theorem dGet_newGroup (haps : List Str) (h : Str) : (dGet? (newGroup haps) h).getD [] = [] := by
  unfold newGroup
  rw [dGet?_map_key]
  split <;> rfl

/-- **the haplotype dict of `h` in the group built from `seg`** (any `haps`, any keys) -/
theorem dGet_segGroup (fs : List Scaffold) (haps : List Str) (h : Str) (seg : List Entry) :
    (dGet? (segGroup fs haps seg) h).getD [] = hapChrs fs h seg := by
  induction seg using snoc_induction with
  | nil => rw [segGroup_nil, dGet_newGroup]; rfl
  | snoc seg e ih =>
    rw [segGroup_snoc, groupAdd_eq, dGet?_dSet]
    by_cases c : e.1 = h
    · subst c
      rw [if_pos rfl, ih]
      exact addChr_hapChrs fs seg e
    · rw [if_neg c, ih, hapChrs_snoc_other fs h seg e c]

/-- **the whole group**, for duplicate-free `haplotypes_seen` containing the key of every entry -/
theorem segGroup_eq (fs : List Scaffold) (haps : List Str) (hnd : haps.Nodup) (seg : List Entry)
    (hm : ∀ e ∈ seg, e.1 ∈ haps) :
    segGroup fs haps seg = haps.map (fun h => (h, hapChrs fs h seg)) := by
  induction seg using snoc_induction with
  | nil =>
    rw [segGroup_nil]; rfl
  | snoc seg e ih =>
    have ih' := ih (fun x hx => hm x (by simp [hx]))
    have he : e.1 ∈ haps := hm e (by simp)
    rw [segGroup_snoc, groupAdd_eq, dGet_segGroup, ih', dSet_map_mem _ _ _ _ hnd he]
    apply List.map_congr_left
    intro h _
    by_cases c : h = e.1
    · subst c; rw [if_pos rfl, addChr_hapChrs]
    · rw [if_neg c, hapChrs_snoc_other fs h seg e (fun x => c x.symm)]

/-- the first haplotype's item is the head of the group (no side condition) -/
theorem segGroup_head (fs : List Scaffold) (h1 : Str) (others : List Str) (seg : List Entry) :
    ∃ rest, segGroup fs (h1 :: others) seg = (h1, hapChrs fs h1 seg) :: rest := by
  have hshape : ∃ d rest, segGroup fs (h1 :: others) seg = (h1, d) :: rest := by
    induction seg using snoc_induction with
    | nil => exact ⟨[], newGroup others, rfl⟩
    | snoc seg e ih =>
      obtain ⟨d, rest, hd⟩ := ih
      rw [segGroup_snoc, groupAdd_eq, hd]
      exact dSet_head _ _ _ _ _
  obtain ⟨d, rest, hd⟩ := hshape
  have := dGet_segGroup fs (h1 :: others) h1 seg
  rw [hd] at this
  simp only [dGet?, if_true, Option.getD_some] at this
  exact ⟨rest, by rw [hd, this]⟩

theorem segGroup_ne_nil (fs : List Scaffold) (h1 : Str) (others : List Str) (seg : List Entry) :
    segGroup fs (h1 :: others) seg ≠ [] := by
  obtain ⟨rest, h⟩ := segGroup_head fs h1 others seg
  rw [h]; simp

theorem hapOrigs_eq_nil_iff (fs : List Scaffold) (h : Str) (seg : List Entry) :
    hapOrigs fs h seg = [] ↔ ∀ e ∈ seg, e.1 ≠ h := by
  rw [List.eq_nil_iff_forall_not_mem]
  constructor
  · intro hn e he hh
    exact hn (origOf fs e.2) ((mem_hapOrigs fs h _ seg).2 ⟨e, he, hh, rfl⟩)
  · intro hn o ho
    obtain ⟨e, he, hh, _⟩ := (mem_hapOrigs fs h o seg).1 ho
    exact hn e he hh

theorem hapChrs_isEmpty (fs : List Scaffold) (h : Str) (seg : List Entry) :
    (hapChrs fs h seg).isEmpty = !(seg.any (fun x => decide (x.1 = h))) := by
  unfold hapChrs
  rw [List.isEmpty_map]
  by_cases c : hapOrigs fs h seg = []
  · rw [c]
    have := (hapOrigs_eq_nil_iff fs h seg).1 c
    have ha : seg.any (fun x => decide (x.1 = h)) = false := by
      rw [List.any_eq_false]; intro x hx; simpa using this x hx
    rw [ha]; rfl
  · have hne : (hapOrigs fs h seg).isEmpty = false := by
      cases hc : hapOrigs fs h seg with
      | nil => exact absurd hc c
      | cons _ _ => rfl
    rw [hne]
    have : ¬ ∀ e ∈ seg, e.1 ≠ h := fun hh => c ((hapOrigs_eq_nil_iff fs h seg).2 hh)
    have ha : seg.any (fun x => decide (x.1 = h)) = true := by
      rw [List.any_eq_true]
      apply Classical.byContradiction
      intro hcon
      apply this
      intro e he hh
      exact hcon ⟨e, he, by simpa using hh⟩
    rw [ha]; rfl

theorem dGet_hapChrs (fs : List Scaffold) (h o : Str) (seg : List Entry) :
    dGet? (hapChrs fs h seg) o = if o ∈ hapOrigs fs h seg then some (idsOf fs h o seg) else none := by
  unfold hapChrs
  rw [dGet?_map_key]
  by_cases c : o ∈ hapOrigs fs h seg <;> simp [c]

/-! ### the scaffold ids stored in a group -/

def chrIds (d : ChrDict) : List Nat := d.flatMap (·.2)
def groupIds (g : GroupData) : List Nat := g.flatMap (fun h => chrIds h.2)

theorem perm_snoc_middle {α} [DecidableEq α] (A old B : List α) (x : α) :
    (A ++ (old ++ [x]) ++ B).Perm (x :: (A ++ old ++ B)) := by
  rw [List.perm_iff_count]
  intro a
  simp only [List.count_append, List.count_cons, List.count_nil]
  omega

theorem chrIds_addChr (d : ChrDict) (o : Str) (sid : Nat) : (chrIds (addChr d o sid)).Perm (sid :: chrIds d) := by
  unfold addChr
  cases hg : dGet? d o with
  | none =>
    rw [dSet_of_none _ _ _ hg]
    unfold chrIds
    simp only [Option.getD_none, List.nil_append, List.flatMap_append, List.flatMap_cons, List.flatMap_nil,
      List.append_nil]
    exact List.perm_append_singleton _ _
  | some old =>
    obtain ⟨A, B, h1, h2⟩ := dSet_split d o (old ++ [sid]) old hg
    simp only [Option.getD_some]
    rw [h2]
    conv => rhs; rw [h1]
    unfold chrIds
    simp only [List.flatMap_append, List.flatMap_cons]
    have := perm_snoc_middle (A.flatMap (·.2)) old (B.flatMap (·.2)) sid
    simpa [List.append_assoc] using this

theorem groupIds_groupAdd (g : GroupData) (hap o : Str) (sid : Nat) :
    (groupIds (groupAdd g hap o sid)).Perm (sid :: groupIds g) := by
  rw [groupAdd_eq]
  cases hg : dGet? g hap with
  | none =>
    rw [dSet_of_none _ _ _ hg]
    unfold groupIds
    simp only [Option.getD_none, List.flatMap_append, List.flatMap_cons, List.flatMap_nil, List.append_nil]
    have h1 := chrIds_addChr [] o sid
    have h2 : chrIds ([] : ChrDict) = [] := rfl
    rw [h2] at h1
    exact (List.Perm.append_left _ h1).trans (List.perm_append_singleton _ _)
  | some old =>
    obtain ⟨A, B, h1, h2⟩ := dSet_split g hap (addChr old o sid) old hg
    simp only [Option.getD_some]
    rw [h2]
    conv => rhs; rw [h1]
    unfold groupIds
    simp only [List.flatMap_append, List.flatMap_cons]
    have hp := chrIds_addChr old o sid
    refine (List.Perm.append_left _ (List.Perm.append_right _ hp)).trans ?_
    simp only [List.cons_append]
    exact List.perm_middle

theorem groupIds_newGroup (haps : List Str) : groupIds (newGroup haps) = [] := by
  unfold groupIds newGroup
  induction haps with
  | nil => rfl
  | cons a r ih => simp [chrIds]

/-- the ids stored in the group are those of the segment -/
theorem groupIds_segGroup (fs : List Scaffold) (haps : List Str) (seg : List Entry) :
    (groupIds (segGroup fs haps seg)).Perm (seg.map (·.2)) := by
  induction seg using snoc_induction with
  | nil => rw [segGroup_nil, groupIds_newGroup]; exact List.Perm.refl _
  | snoc seg e ih =>
    rw [segGroup_snoc, List.map_append]
    refine (groupIds_groupAdd _ _ _ _).trans ?_
    refine (List.Perm.cons _ ih).trans ?_
    simpa using (List.perm_append_singleton e.2 (seg.map (·.2))).symm

end AgpTpf.C10
