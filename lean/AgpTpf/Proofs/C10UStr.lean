/-
  C10 uniqueness (W5), part 0: string facts.
    * `<number><letter?><suffix>` never equals `<chromosome-name tag><suffix>` unless the tag is `<digits><one capital>`
    * `isPrefixOf` bookkeeping, a duplicate-free list inside another list is not longer
-/
import AgpTpf.Model.Remap
import AgpTpf.Proofs.C10GroupsNames
import AgpTpf.Proofs.C10MultiNumber
namespace AgpTpf.C10U
open AgpTpf

/-- the remainder after the Pretext / tag name: nothing (the chromosome itself) or `_unloc_<k>` -/
def SufOk (suf : Str) : Prop := suf = [] ∨ ∃ k, suf = C10.unlocSuffix k

theorem SufOk.noDigitHd {suf : Str} (h : SufOk suf) : C10.NoDigitHd suf := by
  rcases h with rfl | ⟨k, rfl⟩
  · exact C10.noDigitHd_nil
  · exact C10.noDigitHd_unloc k

/-- a tag of the shape `<digits><ONE more character>` — the shape of `<n><letter>` that `multi_chr_list` generates -/
def isNumLetter (t : Str) : Bool := !(t.takeWhile isDigit).isEmpty && (t.dropWhile isDigit).length == 1

theorem isUpper_not_digit {c : Char} (h : isUpper c = true) : isDigit c = false := by
  cases hd : isDigit c with
  | false => rfl
  | true =>
    have h1 := (C20.isDigit_iff c).1 hd
    unfold isUpper at h
    simp only [Bool.and_eq_true, decide_eq_true_eq] at h
    have : 'A'.toNat ≤ c.toNat := h.1
    have h65 : 'A'.toNat = 65 := by decide
    omega

theorem noDigitHd_dropWhile (t s : Str) (hs : C10.NoDigitHd s) : C10.NoDigitHd (t.dropWhile isDigit ++ s) := by
  induction t with
  | nil => simpa using hs
  | cons c r ih =>
    rw [List.dropWhile_cons]
    split
    · exact ih
    · rename_i hc
      intro x hx
      simp only [List.cons_append, List.head?_cons, Option.some.injEq] at hx
      subst hx
      simpa using hc

theorem takeWhile_allDigits (t : Str) : ∀ c ∈ t.takeWhile isDigit, isDigit c = true := by
  intro c hc
  exact List.all_eq_true.1 (List.all_takeWhile (l := t) (p := isDigit)) c hc

theorem takeWhile_nil_of_head {c : Char} {r : Str} (h : isDigit c = false) : (c :: r).takeWhile isDigit = [] := by
  rw [List.takeWhile_cons, h]; rfl

/-- **a generated autosome name is never a name-tagged chromosome's name**, unless the tag is `<digits><one capital>`:
    `<n> ++ L ++ suf ≠ t ++ suf'` for `L` empty or one non-digit character (the `A`, `B`, … of `multi_chr_list`),
    `suf`, `suf'` empty or `_unloc_<k>`, `t` matching `[A-Z]\d*|[IVX_]+|\d+[A-Z]+`. -/
theorem num_ne_tag (n : Nat) (L suf t suf' : Str) (hL : L = [] ∨ ∃ c, L = [c] ∧ isDigit c = false)
    (hs : SufOk suf) (hs' : SufOk suf') (ht : isChrNameTag t = true) (hnl : isNumLetter t = false) :
    natToStr n ++ L ++ suf ≠ t ++ suf' := by
  intro e
  have hsplit : t = t.takeWhile isDigit ++ t.dropWhile isDigit := (List.takeWhile_append_dropWhile).symm
  have hLs : C10.NoDigitHd (L ++ suf) := by
    rcases hL with rfl | ⟨c, rfl, hc⟩
    · simpa using hs.noDigitHd
    · intro x hx
      simp only [List.cons_append, List.head?_cons, Option.some.injEq] at hx
      subst hx; exact hc
  have e' : natToStr n ++ (L ++ suf) = t.takeWhile isDigit ++ (t.dropWhile isDigit ++ suf') := by
    rw [← List.append_assoc, ← List.append_assoc, List.takeWhile_append_dropWhile]; exact e
  obtain ⟨e1, e2⟩ := C10.digits_split _ _ _ _ (C20.natToStr_allDigits n) (takeWhile_allDigits t) hLs
    (noDigitHd_dropWhile t suf' hs'.noDigitHd) e'
  have hne : t.takeWhile isDigit ≠ [] := by rw [← e1]; exact C20.natToStr_ne_nil n
  -- the three shapes of a chromosome-name tag
  unfold isChrNameTag at ht
  simp only [Bool.or_eq_true] at ht
  rcases ht with (h1 | h2) | h3
  · -- `[A-Z]\d*`
    cases t with
    | nil => cases h1
    | cons c r =>
      simp only [Bool.and_eq_true] at h1
      exact hne (takeWhile_nil_of_head (isUpper_not_digit h1.1))
  · -- `[IVX_]+`
    cases t with
    | nil => simp at h2
    | cons c r =>
      simp only [Bool.and_eq_true, List.all_cons] at h2
      have hc := h2.2.1
      have : isDigit c = false := by
        simp only [Bool.or_eq_true, decide_eq_true_eq] at hc
        rcases hc with ((rfl | rfl) | rfl) | rfl <;> decide
      exact hne (takeWhile_nil_of_head this)
  · -- `\d+[A-Z]+`
    simp only [Bool.and_eq_true, Bool.not_eq_true', List.isEmpty_eq_false_iff] at h3
    obtain ⟨⟨_, hu⟩, hall⟩ := h3
    have hup : ∀ x ∈ t.dropWhile isDigit, isUpper x = true := by
      intro x hx; exact List.all_eq_true.1 hall x hx
    have hlen : (t.dropWhile isDigit).length ≠ 1 := by
      intro h1
      unfold isNumLetter at hnl
      rw [h1] at hnl
      cases hte : (t.takeWhile isDigit) with
      | nil => exact hne hte
      | cons a b => rw [hte] at hnl; simp at hnl
    have hunder : isUpper '_' = false := by decide
    cases hdw : t.dropWhile isDigit with
    | nil => exact hu hdw
    | cons x r =>
      cases r with
      | nil => rw [hdw] at hlen; exact hlen rfl
      | cons y r' =>
        rw [hdw] at e2 hup
        have hx := hup x (by simp)
        have hy := hup y (by simp)
        rcases hL with rfl | ⟨c, rfl, _⟩
        · rcases hs with rfl | ⟨k, rfl⟩
          · simp at e2
          · simp only [C10.unlocSuffix, List.nil_append, List.cons_append, List.cons.injEq] at e2
            rw [← e2.1] at hx; rw [hunder] at hx; cases hx
        · rcases hs with rfl | ⟨k, rfl⟩
          · simp at e2
          · simp only [C10.unlocSuffix, List.cons_append, List.nil_append, List.cons.injEq] at e2
            rw [← e2.2.1] at hy; rw [hunder] at hy; cases hy

/-! ### prefixes -/

theorem isPrefixOf_append_self (p x : Str) : p.isPrefixOf (p ++ x) = true :=
  (C10.isPrefixOf_iff p (p ++ x)).2 ⟨x, rfl⟩

theorem isPrefixOf_append_assoc3 (p a b : Str) : p.isPrefixOf (p ++ a ++ b) = true := by
  rw [List.append_assoc]; exact isPrefixOf_append_self p _

/-! ### counting -/

theorem nodup_subset_length {α} [DecidableEq α] : ∀ (l l' : List α), l.Nodup → (∀ x ∈ l, x ∈ l') → l.length ≤ l'.length := by
  intro l
  induction l with
  | nil => intro l' _ _; simp
  | cons a r ih =>
    intro l' hnd hsub
    rw [List.nodup_cons] at hnd
    have ha : a ∈ l' := hsub a (by simp)
    have hr : ∀ x ∈ r, x ∈ l'.erase a := by
      intro x hx
      have hxa : x ≠ a := fun h => hnd.1 (h ▸ hx)
      exact (List.mem_erase_of_ne hxa).2 (hsub x (by simp [hx]))
    have := ih (l'.erase a) hnd.2 hr
    rw [List.length_erase_of_mem ha] at this
    have hpos : 0 < l'.length := List.length_pos_of_mem ha
    simp only [List.length_cons]
    omega

end AgpTpf.C10U
