/- asm-format glue: what both readers guarantee about scaffold NAMES: two scaffolds that follow each other are
   differently named (a line with the current name never opens a new scaffold) and no scaffold is empty.
   Nothing more: the same name can come back later (`s1, s2, s1`). -/
import AgpTpf.Proofs.AsmFormatRun
namespace AgpTpf.AsmFormat
open AgpTpf AgpTpf.C05

/-- neighbours differ -/
def AdjDiff : List Str → Prop
  | a :: b :: r => a ≠ b ∧ AdjDiff (b :: r)
  | _ => True

instance : ∀ l : List Str, Decidable (AdjDiff l)
  | [] => isTrue trivial
  | [_] => isTrue trivial
  | a :: b :: r => by
    unfold AdjDiff
    have := instDecidableAdjDiff (b :: r)
    infer_instance

theorem AdjDiff_snoc (l : List Str) (x y : Str) (h : AdjDiff (l ++ [x])) (hxy : x ≠ y) : AdjDiff (l ++ [x] ++ [y]) := by
  induction l with
  | nil => exact ⟨hxy, trivial⟩
  | cons a t ih =>
    cases t with
    | nil => exact ⟨h.1, hxy, trivial⟩
    | cons b t' => exact ⟨h.1, ih h.2⟩

def scNames (scs : List Scaffold) : List Str := scs.map (·.name)

/-- the reader state: neighbours differ; once a scaffold is open it is the last one and `scaffold_name` is its name;
    before that there is none -/
structure NamesInv (st : ParseState) : Prop where
  chain : AdjDiff (scNames st.scaffolds)
  last : st.haveScaffold = true → ∃ pre sc, st.scaffolds = pre ++ [sc] ∧ sc.name = st.currentName
  none : st.haveScaffold = false → st.scaffolds = []

theorem switchScaffold_namesInv (st : ParseState) (name : Str) (h : NamesInv st) : NamesInv (st.switchScaffold name) := by
  unfold ParseState.switchScaffold
  by_cases hn : name ≠ st.currentName
  · rw [if_pos hn]
    refine ⟨?_, fun _ => ⟨st.scaffolds, { name := name }, rfl, rfl⟩, fun hc => by cases hc⟩
    show AdjDiff (scNames (st.scaffolds ++ [{ name := name }]))
    cases hh : st.haveScaffold with
    | false => rw [h.none hh]; trivial
    | true =>
      obtain ⟨pre, sc, e, hname⟩ := h.last hh
      have hc := h.chain
      rw [e] at hc ⊢
      simp only [scNames, List.map_append, List.map_cons, List.map_nil] at hc ⊢
      exact AdjDiff_snoc _ _ _ hc (by rw [hname]; exact fun e => hn e.symm)
  · rw [if_neg hn]; exact h

theorem addRow_namesInv {st : ParseState} {r : Row} {st' : ParseState} (h : NamesInv st) (ha : st.addRow r = .ok st') :
    NamesInv st' := by
  obtain ⟨hh, pre, sc, h1, h2⟩ := addRow_ok ha
  subst h2
  obtain ⟨pre', sc', e', hname⟩ := h.last hh
  rw [h1] at e'
  obtain ⟨ep, es⟩ := List.append_inj' e' rfl
  simp only [List.cons.injEq, and_true] at es
  subst ep es
  refine ⟨?_, fun _ => ⟨pre, _, rfl, hname⟩, fun hc => by rw [hh] at hc; cases hc⟩
  have hc := h.chain
  rw [h1] at hc
  simpa [scNames] using hc

theorem namesInv_congr {st st' : ParseState} (h : NamesInv st) (e1 : st'.scaffolds = st.scaffolds)
    (e2 : st'.currentName = st.currentName) (e3 : st'.haveScaffold = st.haveScaffold) : NamesInv st' :=
  ⟨by rw [e1]; exact h.chain, fun hh => by rw [e1, e2]; exact h.last (e3 ▸ hh), fun hh => by rw [e1]; exact h.none (e3 ▸ hh)⟩

theorem parseAgpLine_namesInv (st : ParseState) (line : Str) (st' : ParseState) (hp : NamesInv st)
    (h : parseAgpLine st line = .ok st') : NamesInv st' := by
  rw [parseAgpLine_eq] at h
  by_cases hb : isBlankLine line = true
  · rw [if_pos hb] at h; cases h; exact hp
  · rw [if_neg hb] at h
    by_cases h2 : startsWith ['#', '#'] line = true
    · rw [if_pos h2] at h; cases h; exact hp
    · rw [if_neg h2] at h
      by_cases h1 : startsWith ['#'] line = true
      · rw [if_pos h1] at h
        split at h <;> (cases h; exact namesInv_congr hp rfl rfl rfl)
      · rw [if_neg h1] at h
        obtain ⟨name, r, st'', ha, e1, _, e2, e3⟩ := agpFields_row h
        exact namesInv_congr (addRow_namesInv (switchScaffold_namesInv st name hp) ha) e1 e2 e3

theorem parseTpfLine_namesInv (st : ParseState) (line : Str) (st' : ParseState) (hp : NamesInv st)
    (h : parseTpfLine st line = .ok st') : NamesInv st' := by
  rw [parseTpfLine_eq] at h
  by_cases hb : isBlankLine line = true
  · rw [if_pos hb] at h; cases h; exact hp
  · rw [if_neg hb] at h
    by_cases h1 : startsWith ['#'] line = true
    · rw [if_pos h1] at h
      split at h <;> (cases h; exact namesInv_congr hp rfl rfl rfl)
    · rw [if_neg h1] at h
      obtain ⟨st0, r, st'', h0, ha, e1, _, e2, e3⟩ := tpfFields_row h
      rcases h0 with rfl | ⟨name, rfl⟩
      · exact namesInv_congr (addRow_namesInv hp ha) e1 e2 e3
      · exact namesInv_congr (addRow_namesInv (switchScaffold_namesInv st name hp) ha) e1 e2 e3

theorem namesInv_init : NamesInv {} := ⟨trivial, fun h => (by cases h), fun _ => rfl⟩

/-- PARSER GUARANTEE: scaffolds that follow each other in a parsed assembly are differently named -/
theorem parseFh_adjDiff {inFmt : Fmt} {n : Str} {lines : List Str} {asm : Assembly}
    (h : parseFh inFmt n lines = .ok asm) : AdjDiff (scNames asm.scaffolds) := by
  obtain ⟨a, h1 | h1, rfl⟩ := parseFh_ok h
  · obtain ⟨st, hf, rfl⟩ := parseAgp_ok h1.2
    exact (foldlM_invariant parseAgpLine NamesInv parseAgpLine_namesInv lines {} st namesInv_init hf).chain
  · obtain ⟨st, hf, rfl⟩ := parseTpf_ok h1.2
    exact (foldlM_invariant parseTpfLine NamesInv parseTpfLine_namesInv lines {} st namesInv_init hf).chain

end AgpTpf.AsmFormat
