/-
  C10 uniqueness (W5), part 13: the two simple instances of the general theorem —
    * no condition on the tagged assemblies (then the statement covers every assembly whose key is not Contaminant /
      FalseDuplicate), and
    * clause 7, first form (`TaggedOneHaplotype`): Contaminant / FalseDuplicate scaffolds carry no haplotype.
-/
import AgpTpf.Proofs.C10UMain
namespace AgpTpf.C10U
open AgpTpf

/-- no condition, no namer invariant -/
def parFree : Par := { Q := fun _ => True, NI := fun _ => True, ni_core := fun _ _ _ h => h }

/-- Contaminant / FalseDuplicate scaffolds carry no haplotype -/
def parNoHap : Par := { Q := fun E => E.haplotype = none, NI := fun _ => True, ni_core := fun _ _ _ h => h }

theorem ptxCallback_free (input ptx : List Scaffold) : PtxCallback parFree input ptx :=
  fun _ _ _ _ _ _ _ _ _ => ⟨trivial, fun _ _ _ _ _ _ _ _ => trivial⟩

theorem leftCallback_free (input ptx : List Scaffold) : LeftCallback parFree input ptx :=
  fun _ _ _ _ _ _ _ _ _ _ _ => ⟨trivial, fun _ => trivial⟩

theorem ptxCallback_noHap (input ptx : List Scaffold) (HT : C10.TaggedOneHaplotype input ptx) :
    PtxCallback parNoHap input ptx := by
  intro ps hps n n' _ _ htgt hfacts _
  refine ⟨trivial, ?_⟩
  intro c _ tg _ suf _ _ hsp
  show n'.currentHaplotype = none
  have hmay : C10.mayBeTagged ((ptx ++ input).any C10.hasTarget) ps = true := by
    unfold C10.mayBeTagged
    rcases hsp with h | ⟨h1, h2⟩
    · rw [Bool.or_eq_true]; exact Or.inl h
    · rw [Bool.or_eq_true]; right
      rcases hfacts.target h1 with h | h
      · rw [htgt h]
        unfold C10.hasTarget
        simpa using h2
      · exfalso; apply h2; rw [List.contains_iff_mem]; exact h
  have hfree := HT.pieces ps hps hmay
  unfold C10.hapFreeSc at hfree
  rw [Bool.and_eq_true] at hfree
  apply hfacts.hapFree
  · intro t ht hcl
    have := List.all_eq_true.1 hfree.1 t ht
    unfold C10.isHapTag at this
    simp only [hcl, decide_true, Bool.not_true] at this
    cases this
  · intro nm hnm
    obtain ⟨f, r, hr, hf⟩ := firstRowName_ok _ _ hnm
    have := hfree.2
    rw [hr] at this
    simp only [List.head?_cons] at this
    rw [← hf]
    cases hh : hapPrefixOfName f.name with
    | none => rfl
    | some g => rw [hh] at this; cases this

theorem leftCallback_noHap (input ptx : List Scaffold) (HT : C10.TaggedOneHaplotype input ptx) :
    LeftCallback parNoHap input ptx := by
  intro sc hsc rows n n' _ _ htgt hsub hfacts _
  refine ⟨trivial, ?_⟩
  intro htt
  show n'.currentHaplotype = none
  have hfirstmem : ∀ nm, firstRowName rows = .ok nm → ∃ f ∈ sc.fragments, f.name = nm := by
    intro nm hnm
    obtain ⟨f, r, hr, hf⟩ := firstRowName_ok _ _ hnm
    exact ⟨f, hsub f (by rw [hr]; simp [fragmentsOf]), hf⟩
  have htagsub : ∀ t ∈ ({ name := sc.name, rows := rows } : Scaffold).fragmentTags,
      ∃ f ∈ sc.fragments, t ∈ f.tags ∧ t ≠ [] := by
    intro t ht
    obtain ⟨f, hf, h1, h2⟩ := (mem_fragmentTags _ t).1 ht
    exact ⟨f, hsub f hf, h1, h2⟩
  have htarget : (ptx ++ input).any C10.hasTarget = true := by
    rcases hfacts.target htt with h | h
    · exact htgt h
    · obtain ⟨f, hf, h1, h2⟩ := htagsub _ h
      exact any_hasTarget_of_mem _ sc (List.mem_append.2 (Or.inr hsc)) ((mem_fragmentTags sc _).2 ⟨f, hf, h1, h2⟩)
  have hall := HT.leftovers htarget sc hsc
  apply hfacts.hapFree
  · intro t ht hcl
    obtain ⟨f, hf, h1, h2⟩ := htagsub t ht
    have := hall f hf
    unfold C10.fragHapFree at this
    rw [Bool.and_eq_true] at this
    have := List.all_eq_true.1 this.1 t h1
    unfold C10.isHapTag at this
    simp only [hcl, decide_true, Bool.not_true, Bool.or_false, List.isEmpty_iff] at this
    exact h2 this
  · intro nm hnm
    obtain ⟨f, hf, hfn⟩ := hfirstmem nm hnm
    have := hall f hf
    unfold C10.fragHapFree at this
    rw [Bool.and_eq_true] at this
    rw [← hfn]
    cases hh : hapPrefixOfName f.name with
    | none => rfl
    | some g => rw [hh] at this; exact absurd this.2 (by simp)

/-- every output assembly, under `TaggedOneHaplotype` -/
theorem remap_unique_noHap (input ptx : List Scaffold) (p : Str) (jg : Option Gap) (err : Int) (outs : List OutAsm)
    (stats : Stats) (h : remap input ptx p jg err = .ok (outs, stats)) (H : C10.NamesOutsideGenerated input ptx p)
    (HT : C10.TaggedOneHaplotype input ptx) : ∀ a ∈ outs, (a.scaffolds.map (·.name)).Nodup :=
  fun a ha => remap_names_unique_gen parNoHap (fun _ => True)
    (fun _ _ _ E E' (h1 : E.haplotype = none) (h2 : E'.haplotype = none) _ => h1.trans h2.symm)
    input ptx p jg err outs stats h H trivial (ptxCallback_noHap input ptx HT) (leftCallback_noHap input ptx HT) a ha trivial

/-- every output assembly whose key is not Contaminant / FalseDuplicate, without clause 7 -/
theorem remap_unique_curated (input ptx : List Scaffold) (p : Str) (jg : Option Gap) (err : Int) (outs : List OutAsm)
    (stats : Stats) (h : remap input ptx p jg err = .ok (outs, stats)) (H : C10.NamesOutsideGenerated input ptx p) :
    ∀ a ∈ outs, a.key ≠ some sContaminant → a.key ≠ some sFalseDuplicate → (a.scaffolds.map (·.name)).Nodup :=
  fun a ha h1 h2 => remap_names_unique_gen parFree (fun k => k ≠ some sContaminant ∧ k ≠ some sFalseDuplicate)
    (fun k hk hc => by rcases hc with hc | hc; exact absurd hc hk.1; exact absurd hc hk.2)
    input ptx p jg err outs stats h H trivial (ptxCallback_free input ptx) (leftCallback_free input ptx) a ha ⟨h1, h2⟩

end AgpTpf.C10U
