/-
  C10, chromosome numbering with several haplotypes, part 4: from the segments to the new names —
  every segment gets one number; letters inside a haplotype set; uniqueness inside one haplotype.
-/
import AgpTpf.Model.Remap
import AgpTpf.Proofs.C10GroupsNames
import AgpTpf.Proofs.C10MultiDict
import AgpTpf.Proofs.C10MultiBuild
import AgpTpf.Proofs.C10MultiName
namespace AgpTpf.C10
open AgpTpf Dict

/-! ### the ids of all groups -/

theorem flatMap_perm_pointwise {α β} (l : List α) (f g : α → List β) (h : ∀ a ∈ l, (f a).Perm (g a)) :
    (l.flatMap f).Perm (l.flatMap g) := by
  induction l with
  | nil => exact List.Perm.refl _
  | cons a r ih =>
    simp only [List.flatMap_cons]
    exact List.Perm.append (h a (by simp)) (ih (fun x hx => h x (List.mem_cons_of_mem _ hx)))

theorem groupsSpec_ids (fs : List Scaffold) (haps : List Str) (entries : List Entry) :
    ((groupsSpec fs haps entries).flatMap groupIds).Perm (entries.map (·.2)) := by
  unfold groupsSpec
  rw [List.flatMap_map]
  refine (flatMap_perm_pointwise _ _ (fun s => s.map (·.2)) (fun s _ => groupIds_segGroup fs haps s)).trans ?_
  have h := (segments_spec fs entries).1
  conv => rhs; rw [← h]
  rw [List.flatMap_def, List.map_flatten]

theorem sortedGroups_ids_nodup (fs : List Scaffold) (haps : List Str) (entries : List Entry)
    (hid : (entries.map (·.2)).Nodup) :
    ((sortedGroups fs (groupsSpec fs haps entries)).flatMap groupIds).Nodup := by
  have hp := (sortedGroups_perm fs (groupsSpec fs haps entries)).flatMap_right groupIds
  rw [hp.nodup_iff, (groupsSpec_ids fs haps entries).nodup_iff]
  exact hid

theorem sortedGroups_ids_mem (fs : List Scaffold) (haps : List Str) (entries : List Entry) (j : Nat) :
    j ∈ (sortedGroups fs (groupsSpec fs haps entries)).flatMap groupIds ↔ j ∈ entries.map (·.2) := by
  have hp := (sortedGroups_perm fs (groupsSpec fs haps entries)).flatMap_right groupIds
  rw [hp.mem_iff, (groupsSpec_ids fs haps entries).mem_iff]

/-- the groups are pairwise different (so every segment has exactly one position among the sorted groups) -/
theorem groupsSpec_nodup (fs : List Scaffold) (haps : List Str) (entries : List Entry)
    (hid : (entries.map (·.2)).Nodup) : (groupsSpec fs haps entries).Nodup := by
  by_cases hne : entries = []
  · subst hne
    have : groupsSpec fs haps [] = [segGroup fs haps []] := rfl
    rw [this]; simp
  · have h1 : ((groupsSpec fs haps entries).flatMap groupIds).Nodup :=
      (groupsSpec_ids fs haps entries).nodup_iff.2 hid
    rw [List.Nodup, List.pairwise_flatMap] at h1
    refine h1.2.imp_of_mem ?_
    intro g1 g2 hg1 _ hdis heq
    obtain ⟨s, hs, rfl⟩ := List.mem_map.1 hg1
    have hsne := (segments_spec fs entries).2.2.2 hne s hs
    obtain ⟨e, he⟩ := List.exists_mem_of_ne_nil s hsne
    have hx : e.2 ∈ groupIds (segGroup fs haps s) :=
      (groupIds_segGroup fs haps s).mem_iff.2 (List.mem_map.2 ⟨e, he, rfl⟩)
    exact hdis e.2 hx e.2 (heq ▸ hx) rfl

theorem sortedGroups_nodup (fs : List Scaffold) (haps : List Str) (entries : List Entry)
    (hid : (entries.map (·.2)).Nodup) : (sortedGroups fs (groupsSpec fs haps entries)).Nodup :=
  (sortedGroups_perm fs _).nodup_iff.2 (groupsSpec_nodup fs haps entries hid)

/-! ### `nameGroups_spec` with `[i]?` -/

theorem nameGroups_at (prefix_ : Str) (gs : List GroupData) (fs : List Scaffold)
    (hnd : (gs.flatMap groupIds).Nodup) (k : Nat) (hk : k < gs.length) (h : Str) (chrs : ChrDict)
    (hhc : (h, chrs) ∈ gs[k]) (i : Nat) (o : Str) (ids : List Nat) (hi : chrs[i]? = some (o, ids)) (j : Nat)
    (hj : j ∈ ids) :
    (nameGroups prefix_ ((List.range gs.length).zip gs) fs).getD j default =
      renameScaffold o (chrLabel (prefix_ ++ natToStr (k + 1)) chrs.length i) (fs.getD j default) := by
  obtain ⟨hil, hie⟩ := List.getElem?_eq_some_iff.1 hi
  have := (nameGroups_spec prefix_ gs fs hnd).2.2 k hk (h, chrs) hhc i hil j (by rw [hie]; exact hj)
  rw [this, hie]

/-! ### every segment gets one number -/

theorem hapChrs_length (fs : List Scaffold) (h : Str) (seg : List Entry) :
    (hapChrs fs h seg).length = (hapOrigs fs h seg).length := by unfold hapChrs; simp

theorem hapChrs_keys (fs : List Scaffold) (h : Str) (seg : List Entry) :
    (hapChrs fs h seg).map (·.1) = hapOrigs fs h seg := by
  unfold hapChrs; rw [List.map_map]; exact List.map_id _

/-- position of a scaffold's chromosome inside its haplotype set of the group built from `seg` -/
def chrIndex (fs : List Scaffold) (seg : List Entry) (e : Entry) : Nat :=
  (hapOrigs fs e.1 seg).idxOf (origOf fs e.2)

/-- number of chromosomes of `e`'s haplotype in the group built from `seg` -/
def chrCount (fs : List Scaffold) (seg : List Entry) (e : Entry) : Nat := (hapOrigs fs e.1 seg).length

theorem chrIndex_lt (fs : List Scaffold) (seg : List Entry) (e : Entry) (he : e ∈ seg) :
    chrIndex fs seg e < chrCount fs seg e :=
  List.idxOf_lt_length_of_mem ((mem_hapOrigs fs e.1 _ seg).2 ⟨e, he, rfl, rfl⟩)

theorem chrIndex_get (fs : List Scaffold) (seg : List Entry) (e : Entry) (he : e ∈ seg) :
    (hapOrigs fs e.1 seg)[chrIndex fs seg e]? = some (origOf fs e.2) := by
  have hlt := chrIndex_lt fs seg e he
  rw [List.getElem?_eq_getElem hlt]
  exact congrArg some (List.getElem_idxOf hlt)

/-- **one number per segment.**  `sorted[k]` is the group of `seg`, and every scaffold of `seg` is renamed with that
    `k`: its Pretext name is replaced by `prefix ++ str(k+1) ++ letter`. -/
theorem segment_numbered (prefix_ : Str) (fs : List Scaffold) (haps : List Str) (hnd : haps.Nodup)
    (entries : List Entry) (hm : ∀ e ∈ entries, e.1 ∈ haps) (hid : (entries.map (·.2)).Nodup)
    (seg : List Entry) (hseg : seg ∈ segments fs entries) :
    let sorted := sortedGroups fs (groupsSpec fs haps entries)
    let fs' := nameGroups prefix_ ((List.range sorted.length).zip sorted) fs
    ∃ k, ∃ hk : k < sorted.length, sorted[k] = segGroup fs haps seg ∧
      ∀ e ∈ seg, fs'.getD e.2 default =
        renameScaffold (origOf fs e.2)
          (chrLabel (prefix_ ++ natToStr (k + 1)) (chrCount fs seg e) (chrIndex fs seg e)) (fs.getD e.2 default) := by
  intro sorted fs'
  have hg : segGroup fs haps seg ∈ groupsSpec fs haps entries := List.mem_map.2 ⟨seg, hseg, rfl⟩
  have hgs : segGroup fs haps seg ∈ sorted := (sortedGroups_perm fs _).mem_iff.2 hg
  obtain ⟨k, hk, hkr⟩ := List.mem_iff_getElem.1 hgs
  refine ⟨k, hk, hkr, ?_⟩
  intro e he
  have hmem : ∀ x ∈ seg, x.1 ∈ haps := fun x hx => hm x (segments_sub fs entries seg hseg x hx)
  have hsg := segGroup_eq fs haps hnd seg hmem
  have hhc : (e.1, hapChrs fs e.1 seg) ∈ sorted[k] := by
    rw [hkr, hsg]; exact List.mem_map.2 ⟨e.1, hmem e he, rfl⟩
  have hi : (hapChrs fs e.1 seg)[chrIndex fs seg e]? = some (origOf fs e.2, idsOf fs e.1 (origOf fs e.2) seg) := by
    unfold hapChrs
    rw [List.getElem?_map, chrIndex_get fs seg e he]; rfl
  have hj : e.2 ∈ idsOf fs e.1 (origOf fs e.2) seg := (mem_idsOf fs e.1 _ seg e.2).2 ⟨e, he, rfl, rfl, rfl⟩
  have := nameGroups_at prefix_ sorted fs (sortedGroups_ids_nodup fs haps entries hid) k hk e.1 _ hhc _ _ _ hi e.2 hj
  rw [hapChrs_length] at this
  exact this

theorem renameScaffold_piece (fs : List Scaffold) (sid : Nat) (new : Str)
    (hg : truthy (fs.getD sid default).originalName = true) (suf : Str)
    (hn : (fs.getD sid default).name = origOf fs sid ++ suf) (ho : occursIn (origOf fs sid) suf = false) :
    renameScaffold (origOf fs sid) new (fs.getD sid default) = { fs.getD sid default with name := new ++ suf } := by
  have := renamed_piece fs sid new hg suf hn ho
  unfold renameScaffold at this ⊢
  simp only at this
  rw [this]

/-! ### letters -/

theorem toNat_ofNat_valid (n : Nat) (hv : n.isValidChar) : (Char.ofNat n).toNat = n := by
  unfold Char.ofNat
  rw [dif_pos hv]
  rfl

theorem ofNat_invalid (n : Nat) (hv : ¬ n.isValidChar) : Char.ofNat n = Char.ofNat 0 := by
  unfold Char.ofNat
  rw [dif_neg hv]
  rfl

/-- a letter suffix is never a digit -/
theorem letter_not_digit (i : Nat) : isDigit (Char.ofNat (65 + i)) = false := by
  by_cases hv : (65 + i).isValidChar
  · cases hd : isDigit (Char.ofNat (65 + i)) with
    | false => rfl
    | true =>
      have := (C20.isDigit_iff _).1 hd
      rw [toNat_ofNat_valid _ hv] at this
      omega
  · rw [ofNat_invalid _ hv]; decide

/-- the largest number of chromosomes per haplotype set for which `chr(ord("A") + i)` stays below the surrogate range
    (where the model's `Char.ofNat` is no longer injective) -/
def letterBound : Nat := 55231

theorem letter_inj (i j : Nat) (hi : i < letterBound) (hj : j < letterBound)
    (h : Char.ofNat (65 + i) = Char.ofNat (65 + j)) : i = j := by
  unfold letterBound at hi hj
  have h1 := toNat_ofNat_valid (65 + i) (Or.inl (by omega))
  have h2 := toNat_ofNat_valid (65 + j) (Or.inl (by omega))
  rw [h] at h1
  omega

theorem noDigitHd_letter (c i : Nat) (suf : Str) (hs : NoDigitHd suf) : NoDigitHd (chrLetter c i ++ suf) := by
  unfold chrLetter
  by_cases h : c = 1
  · rw [if_pos h]; exact hs
  · rw [if_neg h]
    intro ch hch
    simp only [List.cons_append, List.nil_append, List.head?_cons, Option.some.injEq] at hch
    subst hch
    exact letter_not_digit i

theorem chrLetter_inj (c i j : Nat) (s s' : Str) (hc : c ≤ letterBound) (hi : i < c) (hj : j < c)
    (h : chrLetter c i ++ s = chrLetter c j ++ s') : i = j ∧ s = s' := by
  unfold chrLetter at h
  by_cases h1 : c = 1
  · rw [if_pos h1, if_pos h1] at h
    exact ⟨by omega, by simpa using h⟩
  · rw [if_neg h1, if_neg h1] at h
    simp only [List.cons_append, List.nil_append, List.cons.injEq] at h
    exact ⟨letter_inj i j (by omega) (by omega) h.1, h.2⟩

/-! ### uniqueness inside one haplotype -/

/-- two entries of the same haplotype whose groups are equal sit in the same haplotype set -/
theorem hapOrigs_of_group_eq (fs : List Scaffold) (haps : List Str) (h : Str) (s1 s2 : List Entry)
    (hg : segGroup fs haps s1 = segGroup fs haps s2) : hapOrigs fs h s1 = hapOrigs fs h s2 := by
  have h1 := dGet_segGroup fs haps h s1
  have h2 := dGet_segGroup fs haps h s2
  rw [hg, h2] at h1
  rw [← hapChrs_keys fs h s1, ← hapChrs_keys fs h s2, h1]

theorem new_names_nodup_multi (prefix_ : Str) (fs : List Scaffold) (haps : List Str) (hnd : haps.Nodup)
    (entries : List Entry) (hm : ∀ e ∈ entries, e.1 ∈ haps) (hid : (entries.map (·.2)).Nodup)
    (hg : ∀ e ∈ entries, truthy (fs.getD e.2 default).originalName = true)
    (hshape : ∀ e ∈ entries, PieceShape fs e.2)
    (hdist : ∀ e ∈ entries, ∀ e' ∈ entries, e.2 ≠ e'.2 → origOf fs e.2 = origOf fs e'.2 →
      (fs.getD e.2 default).name ≠ (fs.getD e'.2 default).name)
    (h : Str) (hbound : ∀ seg ∈ segments fs entries, (hapOrigs fs h seg).length ≤ letterBound) :
    let sorted := sortedGroups fs (groupsSpec fs haps entries)
    let fs' := nameGroups prefix_ ((List.range sorted.length).zip sorted) fs
    ((entries.filter (fun e => e.1 = h)).map (fun e => (fs'.getD e.2 default).name)).Nodup := by
  intro sorted fs'
  rw [List.Nodup, List.pairwise_map]
  have hp : entries.Pairwise (fun a b => a.2 ≠ b.2) := by
    have := hid; rw [List.Nodup, List.pairwise_map] at this; exact this
  have hp' : (entries.filter (fun e => e.1 = h)).Pairwise (fun a b => a.2 ≠ b.2) := hp.sublist List.filter_sublist
  refine hp'.imp_of_mem ?_
  intro a b ha hb hab heq
  simp only [List.mem_filter, decide_eq_true_eq] at ha hb
  obtain ⟨ha, hah⟩ := ha
  obtain ⟨hb, hbh⟩ := hb
  obtain ⟨sa, hna, hda, hoa⟩ := hshape a ha
  obtain ⟨sb, hnb, hdb, hob⟩ := hshape b hb
  obtain ⟨s1, hs1, ha1⟩ := segments_cover fs entries a ha
  obtain ⟨s2, hs2, hb2⟩ := segments_cover fs entries b hb
  obtain ⟨k, hk, hgk, hfa⟩ := segment_numbered prefix_ fs haps hnd entries hm hid s1 hs1
  obtain ⟨k', hk', hgk', hfb⟩ := segment_numbered prefix_ fs haps hnd entries hm hid s2 hs2
  have hfa' := hfa a ha1
  have hfb' := hfb b hb2
  rw [renameScaffold_piece fs a.2 _ (hg a ha) sa hna hoa] at hfa'
  rw [renameScaffold_piece fs b.2 _ (hg b hb) sb hnb hob] at hfb'
  have heq' : (fs'.getD a.2 default).name = (fs'.getD b.2 default).name := heq
  rw [hfa', hfb'] at heq'
  simp only [chrLabel, List.append_assoc] at heq'
  rw [← List.append_assoc, ← List.append_assoc prefix_] at heq'
  obtain ⟨e1, e2⟩ := chr_name_inj prefix_ _ _ (k + 1) (k' + 1) (noDigitHd_letter _ _ _ hda) (noDigitHd_letter _ _ _ hdb) heq'
  have ekk : k = k' := by omega
  subst ekk
  have hgg : segGroup fs haps s1 = segGroup fs haps s2 := by rw [← hgk, ← hgk']
  have hO : hapOrigs fs h s1 = hapOrigs fs h s2 := hapOrigs_of_group_eq fs haps h s1 s2 hgg
  have hia := chrIndex_lt fs s1 a ha1
  have hib := chrIndex_lt fs s2 b hb2
  have hga := chrIndex_get fs s1 a ha1
  have hgb := chrIndex_get fs s2 b hb2
  unfold chrCount at e2 hia hib
  rw [hah] at e2 hia hga
  rw [hbh] at e2 hib hgb
  rw [← hO] at e2 hib hgb
  obtain ⟨ei, es⟩ := chrLetter_inj _ _ _ sa sb (hbound s1 hs1) hia hib e2
  rw [ei, hgb] at hga
  have horig : origOf fs a.2 = origOf fs b.2 := (Option.some.inj hga).symm
  apply hdist a ha b hb hab horig
  rw [hna, hnb, horig, es]

end AgpTpf.C10
