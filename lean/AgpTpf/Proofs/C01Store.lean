/-
  Helper lemmas for C01 stage S5 (registry of found fragments) and insertion-ordered dict facts.
-/
import AgpTpf.Model.Remap
namespace AgpTpf.C01
open AgpTpf

/-! ### insertion-ordered dict facts -/
section dict
variable {κ ν : Type} [DecidableEq κ]

theorem dGet?_dSet_self (d : List (κ × ν)) (k : κ) (v : ν) : dGet? (dSet d k v) k = some v := by
  induction d with
  | nil => simp [dSet, dGet?]
  | cons p r ih =>
    obtain ⟨k', v'⟩ := p
    simp only [dSet]
    split
    · next h => simp [dGet?, h]
    · next h => simp [dGet?, h, ih]

theorem dGet?_dSet_other (d : List (κ × ν)) (k k2 : κ) (v : ν) (hne : k ≠ k2) :
    dGet? (dSet d k v) k2 = dGet? d k2 := by
  induction d with
  | nil => simp [dSet, dGet?, hne]
  | cons p r ih =>
    obtain ⟨k', v'⟩ := p
    simp only [dSet]
    split
    · next h => subst h; simp [dGet?, hne]
    · next h => simp only [dGet?, ih]

theorem dGet?_append_new (d : List (κ × ν)) (k k2 : κ) (v : ν) (hnone : dGet? d k = none) :
    dGet? (d ++ [(k, v)]) k2 = if k = k2 then some v else dGet? d k2 := by
  induction d with
  | nil => simp [dGet?]
  | cons p r ih =>
    obtain ⟨k', v'⟩ := p
    simp only [dGet?] at hnone
    split at hnone
    · cases hnone
    · next h =>
      simp only [List.cons_append, dGet?]
      split
      · next h2 => subst h2; rw [if_neg (fun e => h e.symm)]
      · exact ih hnone
end dict

theorem mem_sAdd {α} [DecidableEq α] (s : List α) (x y : α) : y ∈ sAdd s x ↔ y ∈ s ∨ y = x := by
  unfold sAdd
  split
  · next h => constructor
              · exact Or.inl
              · rintro (h' | rfl); exact h'; exact h
  · simp

/-- the holder list recorded for key `k` (`[]` when the key is not registered) -/
def holders (b : Build) (k : Key) : List Nat :=
  match dGet? b.found k with
  | some fnd => fnd.scaffolds
  | none => []

/-- registry invariant: registered keys have at least one holder, and `multi` is exactly the set of keys with ≥ 2 holders -/
def RegistryInv (b : Build) : Prop :=
  (∀ k fnd, dGet? b.found k = some fnd → fnd.scaffolds ≠ []) ∧
  (∀ k, k ∈ b.multi ↔ 2 ≤ (holders b k).length)

/-- one iteration of the `store_fragments_found` loop -/
def storeOne (sid : Nat) (b : Build) (ff : Fragment) : Build :=
  let k := ff.keyTuple
  match dGet? b.found k with
  | some fnd => { b with multi := sAdd b.multi k,
                         found := dSet b.found k { fnd with scaffolds := fnd.scaffolds ++ [sid] } }
  | none => { b with found := b.found ++ [(k, { fragment := ff, scaffolds := [sid] })] }

theorem storeFragmentsFound_eq (b : Build) (sid : Nat) (frags : List Fragment) :
    storeFragmentsFound b sid frags = frags.foldl (storeOne sid) b := rfl

theorem storeOne_some (sid : Nat) (b : Build) (ff : Fragment) (fnd : Found) (h : dGet? b.found ff.keyTuple = some fnd) :
    storeOne sid b ff = { b with multi := sAdd b.multi (ff.keyTuple), found := dSet b.found (ff.keyTuple) ({ fnd with scaffolds := fnd.scaffolds ++ [sid] }) } := by
  unfold storeOne; simp only [h]

theorem storeOne_none (sid : Nat) (b : Build) (ff : Fragment) (h : dGet? b.found ff.keyTuple = none) :
    storeOne sid b ff = { b with found := b.found ++ [(ff.keyTuple, { fragment := ff, scaffolds := [sid] })] } := by
  unfold storeOne; simp only [h]

theorem storeOne_holders (sid : Nat) (b : Build) (ff : Fragment) (k : Key) :
    holders (storeOne sid b ff) k = holders b k ++ (if ff.keyTuple = k then [sid] else []) := by
  cases h : dGet? b.found ff.keyTuple with
  | some fnd =>
    rw [storeOne_some _ _ _ _ h]
    unfold holders
    simp only
    by_cases hk : ff.keyTuple = k
    · subst hk; simp [dGet?_dSet_self, h]
    · simp [dGet?_dSet_other _ _ _ _ hk, hk]
  | none =>
    rw [storeOne_none _ _ _ h]
    unfold holders
    simp only
    rw [dGet?_append_new _ _ _ _ h]
    by_cases hk : ff.keyTuple = k
    · subst hk; simp [h]
    · simp [hk]

/-- a key is registered after the step iff it was before or it is the stored fragment's key -/
theorem storeOne_registered (sid : Nat) (b : Build) (ff : Fragment) (k : Key) :
    (dGet? (storeOne sid b ff).found k).isSome = ((dGet? b.found k).isSome || decide (ff.keyTuple = k)) := by
  cases h : dGet? b.found ff.keyTuple with
  | some fnd =>
    rw [storeOne_some _ _ _ _ h]
    simp only
    by_cases hk : ff.keyTuple = k
    · subst hk; simp [dGet?_dSet_self, h]
    · simp [dGet?_dSet_other _ _ _ _ hk, hk]
  | none =>
    rw [storeOne_none _ _ _ h]
    simp only
    rw [dGet?_append_new _ _ _ _ h]
    by_cases hk : ff.keyTuple = k
    · subst hk; simp [h]
    · simp [hk]

theorem storeOne_inv (sid : Nat) (b : Build) (ff : Fragment) (hinv : RegistryInv b) : RegistryInv (storeOne sid b ff) := by
  obtain ⟨h1, h2⟩ := hinv
  constructor
  · intro k fnd hf
    have hh := storeOne_holders sid b ff k
    have hr := storeOne_registered sid b ff k
    unfold holders at hh
    rw [hf] at hh hr
    simp only at hh
    intro e
    rw [e] at hh
    cases hb : dGet? b.found k with
    | some f0 =>
      rw [hb] at hh
      have := h1 k f0 hb
      simp only at hh
      cases hs : f0.scaffolds with
      | nil => exact this hs
      | cons a r => rw [hs] at hh; simp at hh
    | none =>
      rw [hb] at hh hr
      simp only [List.nil_append] at hh
      split at hh
      · cases hh
      · next hne => simp [hne] at hr
  · intro k
    rw [storeOne_holders]
    cases hq : dGet? b.found ff.keyTuple with
    | some fq =>
      rw [storeOne_some _ _ _ _ hq]
      simp only [mem_sAdd, h2 k]
      by_cases hk : ff.keyTuple = k
      · subst hk
        have hne := h1 _ _ hq
        have : holders b ff.keyTuple = fq.scaffolds := by unfold holders; rw [hq]
        rw [this]
        have : 0 < fq.scaffolds.length := List.length_pos_iff.mpr hne
        simp; omega
      · have : ¬ k = ff.keyTuple := fun e => hk e.symm
        simp [hk, this]
    | none =>
      rw [storeOne_none _ _ _ hq]
      simp only [h2 k]
      by_cases hk : ff.keyTuple = k
      · subst hk
        have : holders b ff.keyTuple = [] := by unfold holders; rw [hq]
        rw [this]; simp
      · simp [hk]

theorem storeOne_other_fields (sid : Nat) (b : Build) (ff : Fragment) :
    (storeOne sid b ff).store = b.store ∧ (storeOne sid b ff).extra = b.extra ∧ (storeOne sid b ff).namer = b.namer ∧
    (storeOne sid b ff).cuts = b.cuts ∧ (storeOne sid b ff).nextOid = b.nextOid ∧
    (storeOne sid b ff).joinGap = b.joinGap ∧ (storeOne sid b ff).err = b.err := by
  cases h : dGet? b.found ff.keyTuple with
  | some fnd => rw [storeOne_some _ _ _ _ h]; simp
  | none => rw [storeOne_none _ _ _ h]; simp


/-! ### the whole loop -/

theorem foldl_storeOne_holders (sid : Nat) (frags : List Fragment) (b : Build) (k : Key) :
    holders (frags.foldl (storeOne sid) b) k =
      holders b k ++ List.replicate (frags.countP (fun f => decide (f.keyTuple = k))) sid := by
  induction frags generalizing b with
  | nil => simp
  | cons f r ih =>
    rw [List.foldl_cons, ih, storeOne_holders, List.countP_cons]
    by_cases hk : f.keyTuple = k
    · simp only [hk, ↓reduceIte, decide_true, List.append_assoc]
      rw [List.replicate_succ]; rfl
    · simp [hk]

theorem foldl_storeOne_inv (sid : Nat) (frags : List Fragment) (b : Build) (h : RegistryInv b) :
    RegistryInv (frags.foldl (storeOne sid) b) := by
  induction frags generalizing b with
  | nil => exact h
  | cons f r ih => exact ih _ (storeOne_inv sid b f h)

theorem foldl_storeOne_registered (sid : Nat) (frags : List Fragment) (b : Build) (k : Key) :
    (dGet? (frags.foldl (storeOne sid) b).found k).isSome =
      ((dGet? b.found k).isSome || frags.any (fun f => decide (f.keyTuple = k))) := by
  induction frags generalizing b with
  | nil => simp
  | cons f r ih =>
    rw [List.foldl_cons, ih, storeOne_registered, List.any_cons, Bool.or_assoc]

theorem foldl_storeOne_other_fields (sid : Nat) (frags : List Fragment) (b : Build) :
    let b' := frags.foldl (storeOne sid) b
    b'.store = b.store ∧ b'.extra = b.extra ∧ b'.namer = b.namer ∧ b'.cuts = b.cuts ∧ b'.nextOid = b.nextOid ∧
    b'.joinGap = b.joinGap ∧ b'.err = b.err := by
  induction frags generalizing b with
  | nil => simp
  | cons f r ih =>
    have h1 := storeOne_other_fields sid b f
    have h2 := ih (storeOne sid b f)
    simp only [List.foldl_cons] at h2 ⊢
    obtain ⟨a1, a2, a3, a4, a5, a6, a7⟩ := h1
    obtain ⟨c1, c2, c3, c4, c5, c6, c7⟩ := h2
    exact ⟨c1.trans a1, c2.trans a2, c3.trans a3, c4.trans a4, c5.trans a5, c6.trans a6, c7.trans a7⟩

/-- the fragment object recorded for an already registered key never changes; a new key records the first
    fragment of `frags` that has it -/
theorem storeOne_fragment_kept (sid : Nat) (b : Build) (ff : Fragment) (k : Key) (fnd : Found)
    (h : dGet? b.found k = some fnd) :
    ∃ fnd', dGet? (storeOne sid b ff).found k = some fnd' ∧ fnd'.fragment = fnd.fragment := by
  cases hq : dGet? b.found ff.keyTuple with
  | some fq =>
    rw [storeOne_some _ _ _ _ hq]
    simp only
    by_cases hk : ff.keyTuple = k
    · subst hk; rw [dGet?_dSet_self]; rw [hq] at h; cases h; exact ⟨_, rfl, rfl⟩
    · rw [dGet?_dSet_other _ _ _ _ hk]; exact ⟨fnd, h, rfl⟩
  | none =>
    rw [storeOne_none _ _ _ hq]
    simp only
    rw [dGet?_append_new _ _ _ _ hq]
    by_cases hk : ff.keyTuple = k
    · subst hk; rw [hq] at h; cases h
    · rw [if_neg hk]; exact ⟨fnd, h, rfl⟩

end AgpTpf.C01
