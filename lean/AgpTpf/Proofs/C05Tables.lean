/- C05 (c): gap-type and strand tables -/
import AgpTpf.Model.Text
namespace AgpTpf.C05
open AgpTpf

/-- per-character translation (`str.translate` of a `maketrans(frm, to)` table) -/
def trChar (frm to : Str) (c : Char) : Char :=
  match dGet? (frm.zip to) c with | some d => d | none => c

theorem translate_eq_map (frm to s : Str) : translate frm to s = s.map (trChar frm to) := rfl

theorem dGet?_zip_none {frm to : Str} {c : Char} (h : c ∉ frm) : dGet? (frm.zip to) c = none := by
  induction frm generalizing to with
  | nil => rfl
  | cons a as ih =>
    cases to with
    | nil => rfl
    | cons b bs =>
      have h1 : a ≠ c := fun e => h (by simp [e])
      have h2 : c ∉ as := fun e => h (by simp [e])
      simp [List.zip_cons_cons, dGet?, h1, ih h2]

theorem trChar_not_mem {frm to : Str} {c : Char} (h : c ∉ frm) : trChar frm to c = c := by
  unfold trChar; rw [dGet?_zip_none h]

theorem mem_lowerFrom {c : Char} (h : c ∈ Gen.lowerFrom) : isUpper c = true ∨ c = '-' := by
  simp only [Gen.lowerFrom, List.mem_cons, List.not_mem_nil, or_false] at h
  rcases h with h|h|h|h|h|h|h|h|h|h|h|h|h|h|h|h|h|h|h|h|h|h|h|h|h|h|h <;> subst h <;> decide

theorem mem_upperFrom {c : Char} (h : c ∈ Gen.upperFrom) : isLower c = true ∨ c = '_' := by
  simp only [Gen.upperFrom, List.mem_cons, List.not_mem_nil, or_false] at h
  rcases h with h|h|h|h|h|h|h|h|h|h|h|h|h|h|h|h|h|h|h|h|h|h|h|h|h|h|h <;> subst h <;> decide

/-- lower(upper(c)) = c unless `c` is an upper-case letter or '-'. -/
theorem lower_upper_char (c : Char) (h1 : isUpper c = false) (h2 : c ≠ '-') :
    trChar Gen.lowerFrom Gen.lowerTo (trChar Gen.upperFrom Gen.upperTo c) = c := by
  by_cases hm : c ∈ Gen.upperFrom
  · simp only [Gen.upperFrom, List.mem_cons, List.not_mem_nil, or_false] at hm
    rcases hm with h|h|h|h|h|h|h|h|h|h|h|h|h|h|h|h|h|h|h|h|h|h|h|h|h|h|h <;> subst h <;> decide
  · rw [trChar_not_mem hm]
    apply trChar_not_mem
    intro hl
    rcases mem_lowerFrom hl with h | h
    · rw [h1] at h; exact Bool.noConfusion h
    · exact h2 h

/-- upper(lower(c)) = c unless `c` is a lower-case letter or '_'. -/
theorem upper_lower_char (c : Char) (h1 : isLower c = false) (h2 : c ≠ '_') :
    trChar Gen.upperFrom Gen.upperTo (trChar Gen.lowerFrom Gen.lowerTo c) = c := by
  by_cases hm : c ∈ Gen.lowerFrom
  · simp only [Gen.lowerFrom, List.mem_cons, List.not_mem_nil, or_false] at hm
    rcases hm with h|h|h|h|h|h|h|h|h|h|h|h|h|h|h|h|h|h|h|h|h|h|h|h|h|h|h <;> subst h <;> decide
  · rw [trChar_not_mem hm]
    apply trChar_not_mem
    intro hl
    rcases mem_upperFrom hl with h | h
    · rw [h1] at h; exact Bool.noConfusion h
    · exact h2 h

theorem lower_upper_str (g : Str) (h : ∀ c ∈ g, isUpper c = false ∧ c ≠ '-') :
    translate Gen.lowerFrom Gen.lowerTo (translate Gen.upperFrom Gen.upperTo g) = g := by
  rw [translate_eq_map, translate_eq_map, List.map_map]
  conv => rhs; rw [← List.map_id g]
  apply List.map_congr_left
  intro c hc; exact lower_upper_char c (h c hc).1 (h c hc).2

theorem upper_lower_str (t : Str) (h : ∀ c ∈ t, isLower c = false ∧ c ≠ '_') :
    translate Gen.upperFrom Gen.upperTo (translate Gen.lowerFrom Gen.lowerTo t) = t := by
  rw [translate_eq_map, translate_eq_map, List.map_map]
  conv => rhs; rw [← List.map_id t]
  apply List.map_congr_left
  intro c hc; exact upper_lower_char c (h c hc).1 (h c hc).2

theorem dGet?_some_mem {κ ν} [DecidableEq κ] {d : List (κ × ν)} {k : κ} {v : ν}
    (h : dGet? d k = some v) : (k, v) ∈ d := by
  induction d with
  | nil => simp [dGet?] at h
  | cons a r ih =>
    obtain ⟨k', v'⟩ := a
    unfold dGet? at h
    split at h
    · rename_i hk; simp at h; subst hk; subst h; simp
    · simp [ih h]

/-- a gap type TPF can carry: what `tpfGapTypeOfText` can return as a fixed point -/
def TpfGapType (g : Str) : Prop :=
  (∀ c ∈ g, isUpper c = false ∧ c ≠ '-') ∧ g ≠ "type_2".toList ∧ g ≠ "type_3".toList

instance (g : Str) : Decidable (TpfGapType g) := by unfold TpfGapType; infer_instance

/-- (c) model gap type → TPF text → model gap type. "scaffold" and "contig" go through the dictionaries
    ("TYPE-2", "TYPE-3"); everything else through upper-casing and `_`→`-`.
    FINDING: the gap types "type_2" and "type_3" do NOT round trip (they come back as "scaffold"/"contig"),
    nor does any gap type containing an upper-case letter or '-'. -/
theorem tpfGapType_roundtrip (g : Str) (h : TpfGapType g) :
    tpfGapTypeOfText (tpfGapTypeToText g) = g := by
  obtain ⟨hc, h2, h3⟩ := h
  unfold tpfGapTypeToText
  cases hf : dGet? Gen.tpfGapFormatDict g with
  | some t =>
    have := dGet?_some_mem hf
    simp only [Gen.tpfGapFormatDict, List.mem_cons, List.not_mem_nil, or_false, Prod.mk.injEq] at this
    rcases this with ⟨rfl, rfl⟩ | ⟨rfl, rfl⟩ <;> decide
  | none =>
    dsimp only
    unfold tpfGapTypeOfText
    cases hp : dGet? Gen.tpfGapParseDict (translate Gen.upperFrom Gen.upperTo g) with
    | none => exact lower_upper_str g hc
    | some x =>
      exfalso
      have hrt := lower_upper_str g hc
      have := dGet?_some_mem hp
      simp only [Gen.tpfGapParseDict, List.mem_cons, List.not_mem_nil, or_false, Prod.mk.injEq] at this
      rcases this with ⟨e, _⟩ | ⟨e, _⟩
      · rw [e] at hrt; exact h2 (hrt.symm.trans (by decide))
      · rw [e] at hrt; exact h3 (hrt.symm.trans (by decide))

theorem tpfGapType_scaffold : tpfGapTypeToText "scaffold".toList = "TYPE-2".toList ∧
    tpfGapTypeOfText "TYPE-2".toList = "scaffold".toList := by decide
theorem tpfGapType_contig : tpfGapTypeToText "contig".toList = "TYPE-3".toList ∧
    tpfGapTypeOfText "TYPE-3".toList = "contig".toList := by decide
/-- the non-round-tripping gap types (finding) -/
theorem tpfGapType_type_2_lost : tpfGapTypeOfText (tpfGapTypeToText "type_2".toList) = "scaffold".toList := by decide
theorem tpfGapType_type_3_lost : tpfGapTypeOfText (tpfGapTypeToText "type_3".toList) = "contig".toList := by decide

/-- canonical TPF gap-type TEXT: what `tpfGapTypeToText` can produce -/
def TpfGapText (t : Str) : Prop :=
  (∀ c ∈ t, isLower c = false ∧ c ≠ '_') ∧ t ≠ "SCAFFOLD".toList ∧ t ≠ "CONTIG".toList

instance (t : Str) : Decidable (TpfGapText t) := by unfold TpfGapText; infer_instance

/-- TPF text → model gap type → TPF text (upper-case-dash form, TYPE-2, TYPE-3). -/
theorem tpfGapText_roundtrip (t : Str) (h : TpfGapText t) :
    tpfGapTypeToText (tpfGapTypeOfText t) = t := by
  obtain ⟨hc, h2, h3⟩ := h
  unfold tpfGapTypeOfText
  cases hf : dGet? Gen.tpfGapParseDict t with
  | some g =>
    have := dGet?_some_mem hf
    simp only [Gen.tpfGapParseDict, List.mem_cons, List.not_mem_nil, or_false, Prod.mk.injEq] at this
    rcases this with ⟨rfl, rfl⟩ | ⟨rfl, rfl⟩ <;> decide
  | none =>
    dsimp only
    unfold tpfGapTypeToText
    cases hp : dGet? Gen.tpfGapFormatDict (translate Gen.lowerFrom Gen.lowerTo t) with
    | none => exact upper_lower_str t hc
    | some x =>
      exfalso
      have hrt := upper_lower_str t hc
      have := dGet?_some_mem hp
      simp only [Gen.tpfGapFormatDict, List.mem_cons, List.not_mem_nil, or_false, Prod.mk.injEq] at this
      rcases this with ⟨e, _⟩ | ⟨e, _⟩
      · rw [e] at hrt; exact h2 (hrt.symm.trans (by decide))
      · rw [e] at hrt; exact h3 (hrt.symm.trans (by decide))

/-- the TPF text of a gap type never contains a tab / newline when the gap type does not -/
theorem trChar_upper_ne (c x : Char) (hx : x ∉ Gen.upperTo) (hc : c ≠ x) :
    trChar Gen.upperFrom Gen.upperTo c ≠ x := by
  by_cases hm : c ∈ Gen.upperFrom
  · simp only [Gen.upperFrom, List.mem_cons, List.not_mem_nil, or_false] at hm
    intro e
    apply hx
    rw [← e]
    rcases hm with h|h|h|h|h|h|h|h|h|h|h|h|h|h|h|h|h|h|h|h|h|h|h|h|h|h|h <;> subst h <;> decide
  · rw [trChar_not_mem hm]; exact hc

/-! strand tables -/
theorem agpStrand_roundtrip (s : Int) (h : s = 0 ∨ s = 1 ∨ s = -1) :
    ∃ t, strandStr Gen.agpStrandStr s = .ok t ∧ lookupStr Gen.agpStrandDict t = .ok s ∧
      '\t' ∉ t ∧ '\n' ∉ t ∧ t ≠ [] ∧ (∀ x ∈ t, isSpace x = false) := by
  rcases h with rfl | rfl | rfl <;> exact ⟨_, rfl, rfl, by decide⟩

theorem tpfStrand_roundtrip (s : Int) (h : s = 1 ∨ s = -1) :
    ∃ t, strandStr Gen.tpfStrandStr s = .ok t ∧ lookupStr Gen.tpfStrandDict t = .ok s ∧
      '\t' ∉ t ∧ '\n' ∉ t ∧ t ≠ [] ∧ (∀ x ∈ t, isCrLf x = false) := by
  rcases h with rfl | rfl <;> exact ⟨_, rfl, rfl, by decide⟩

/-- FINDING: strand 0 is written as "UNKNOWN" in TPF, which the TPF parser rejects (KeyError). -/
theorem tpfStrand_zero_not_parsed :
    strandStr Gen.tpfStrandStr 0 = .ok "UNKNOWN".toList ∧ lookupStr Gen.tpfStrandDict "UNKNOWN".toList = .error .key :=
  ⟨rfl, rfl⟩

/-- strands outside {-1,0,1}: -2 and -3 are silently written (Python negative indexing) — but a `Fragment`
    cannot hold them (`mkFragment`). -/
theorem strandStr_out_of_range (s : Int) (h : s < -3 ∨ 2 < s) : strandStr Gen.agpStrandStr s = .error .index := by
  unfold strandStr pyGet
  simp only [Gen.agpStrandStr, List.length_cons, List.length_nil]
  split <;> simp <;> omega

theorem agp_consts : Gen.agpGapCol5 = "U".toList ∧ Gen.agpGapLinkage = "yes".toList ∧ Gen.agpGapEvidence ≠ [] ∧
    Gen.agpFragCol5 = "W".toList ∧ Gen.agpGapComponentTypes.contains Gen.agpGapCol5 = true ∧
    Gen.agpGapComponentTypes.contains Gen.agpFragCol5 = false := by decide

end AgpTpf.C05
