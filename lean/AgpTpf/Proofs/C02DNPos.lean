/-
  C02 (deep cuts, any number of cuts per contig), part 5: where each cut falls.
-/
import AgpTpf.Proofs.C02DNCheck
namespace AgpTpf.C02
open AgpTpf OverlapResult

theorem exists_withOffsets_of_mem {n : Nat} {l : List SiteN} {x : SiteN} (h : x ∈ l) : ∃ o, (x, o) ∈ withOffsets n l := by
  induction l generalizing n with
  | nil => cases h
  | cons a t ih =>
    rcases List.mem_cons.1 h with rfl | h
    · exact ⟨n, by simp [withOffsets]⟩
    · obtain ⟨o, ho⟩ := ih (n := n + a.chain.length) h
      exact ⟨o, by simp [withOffsets, ho]⟩

/-- the last row of a result whose last row was `F`, after its start may have been cut: still (a part of) `F` that
    keeps `F`'s scaffold-right end -/
theorem last_row_after_start_cut (o : OverlapResult) (F : Fragment) (t : List Row) (sc : Option Nat)
    (hlast : o.rows = t ++ [.frag F]) :
    ∃ t' G, (cutO sc none o).rows = t' ++ [.frag G] ∧ (cutO sc none o).stop = o.stop ∧ (cutO sc none o).bait = o.bait ∧
      G.name = F.name ∧ G.strand = F.strand ∧ (F.strand = 1 → G.stop = F.stop) ∧ (F.strand ≠ 1 → G.start = F.start) := by
  cases sc with
  | none => exact ⟨t, F, hlast, rfl, rfl, rfl, rfl, fun _ => rfl, fun _ => rfl⟩
  | some s =>
    show ∃ t' G, (trimStartSpec s o).rows = _ ∧ (trimStartSpec s o).stop = _ ∧ (trimStartSpec s o).bait = _ ∧ _
    unfold trimStartSpec
    cases t with
    | nil =>
      simp only [List.nil_append] at hlast
      rw [hlast]
      refine ⟨[], _, rfl, rfl, rfl, rfl, rfl, ?_, ?_⟩
      · intro h; simp [cutFragStart, h]
      · intro h; simp [cutFragStart, h]
    | cons y t' =>
      simp only [List.cons_append] at hlast
      rw [hlast]
      cases y with
      | frag H => exact ⟨_ :: t', F, rfl, rfl, rfl, rfl, rfl, fun _ => rfl, fun _ => rfl⟩
      | gap g => exact ⟨_ :: t', F, rfl, rfl, rfl, rfl, rfl, fun _ => rfl, fun _ => rfl⟩

theorem first_row_after_end_cut (o : OverlapResult) (F : Fragment) (r : List Row) (ec : Option Nat)
    (hhead : o.rows = .frag F :: r) :
    ∃ r' G, (cutO none ec o).rows = .frag G :: r' ∧ (cutO none ec o).start = o.start ∧ (cutO none ec o).bait = o.bait ∧
      G.name = F.name ∧ G.strand = F.strand ∧ (F.strand = 1 → G.start = F.start) ∧ (F.strand ≠ 1 → G.stop = F.stop) := by
  cases ec with
  | none => exact ⟨r, F, hhead, rfl, rfl, rfl, rfl, fun _ => rfl, fun _ => rfl⟩
  | some e =>
    show ∃ r' G, (trimEndSpec e o).rows = _ ∧ (trimEndSpec e o).start = _ ∧ (trimEndSpec e o).bait = _ ∧ _
    unfold trimEndSpec
    rcases List.eq_nil_or_concat r with rfl | ⟨m, y, rfl⟩
    · rw [hhead]
      refine ⟨[], _, rfl, rfl, rfl, rfl, rfl, ?_, ?_⟩
      · intro h; simp [cutFragEnd, h]
      · intro h; simp [cutFragEnd, h]
    · rw [hhead]
      cases y with
      | frag H =>
        refine ⟨m ++ [_], F, ?_, rfl, rfl, rfl, rfl, fun _ => rfl, fun _ => rfl⟩
        simp
      | gap g =>
        refine ⟨m ++ [.gap g], F, ?_, rfl, rfl, rfl, rfl, fun _ => rfl, fun _ => rfl⟩
        simp

/-- **where a cut falls** (any number of cuts per contig): for two consecutive holders `a`, `b` of the chain of contig
    `F`, after cutting the last row of `a` is `fa` and the first row of `b` is `fb` with the coordinates of
    `deep_cut_position`, on the side of this cut -/
theorem cut_positionN {input ptx : List Scaffold} {err : Int} (hd : DeepCutN input ptx err) (x : SiteN)
    (hx : x ∈ sitesN input ptx) (p : Nat) (hp : p + 1 < x.chain.length) :
    ∃ fa fb ta rb,
      (cutPieceN input ptx (x.chain[p]) (pieceAt ptx (x.chain[p])).2).rows = ta ++ [.frag fa] ∧
      (cutPieceN input ptx (x.chain[p + 1]) (pieceAt ptx (x.chain[p + 1])).2).rows = .frag fb :: rb ∧
      fa.name = x.frag.name ∧ fb.name = x.frag.name ∧ fa.strand = x.frag.strand ∧ fb.strand = x.frag.strand ∧
      (x.frag.strand = 1 →
        fa.stop = x.frag.start + ((pieceAt ptx (x.chain[p])).2.stop - (pieceO input (pieceAt ptx (x.chain[p + 1])).2).start) ∧
        fb.start = x.frag.start + ((pieceAt ptx (x.chain[p])).2.stop - (pieceO input (pieceAt ptx (x.chain[p + 1])).2).start) + 1) ∧
      (x.frag.strand = -1 →
        fa.start = x.frag.stop - ((pieceAt ptx (x.chain[p])).2.stop - (pieceO input (pieceAt ptx (x.chain[p + 1])).2).start) ∧
        fb.stop = x.frag.stop - ((pieceAt ptx (x.chain[p])).2.stop - (pieceO input (pieceAt ptx (x.chain[p + 1])).2).start) - 1) := by
  have hnd := chain_nodup hd x hx
  have hadj := hd.chains x hx
  have hok := adj_get _ _ hadj p hp
  have hposa : x.chain.idxOf (x.chain[p]) = p := hnd.idxOf_getElem p (by omega)
  have hposb : x.chain.idxOf (x.chain[p + 1]) = p + 1 := hnd.idxOf_getElem (p + 1) hp
  generalize x.chain[p] = a at hok hposa ⊢
  generalize x.chain[p + 1] = b at hok hposb ⊢
  obtain ⟨-, hfa⟩ := hd.base.piece a hok.inA
  obtain ⟨-, hfb⟩ := hd.base.piece b hok.inB
  obtain ⟨hda, hdb, hsum⟩ := site_arith hd.base _ hok
  simp only at hda hdb hsum
  have habut := hok.abut
  simp only at habut
  obtain ⟨o, ho⟩ := exists_withOffsets_of_mem (n := 0) hx
  obtain ⟨e, he⟩ : ∃ e, endCutN (oid0 input) (withOffsets 0 (sitesN input ptx)) a = some e := by
    cases h : endCutN (oid0 input) (withOffsets 0 (sitesN input ptx)) a with
    | some e => exact ⟨e, rfl⟩
    | none =>
      unfold endCutN at h
      have := (List.findSome?_eq_none_iff.1 h) (x, o) ho
      simp [hposa, hp] at this
  obtain ⟨s, hs⟩ : ∃ s, startCutN (oid0 input) (withOffsets 0 (sitesN input ptx)) b = some s := by
    cases h : startCutN (oid0 input) (withOffsets 0 (sitesN input ptx)) b with
    | some s => exact ⟨s, rfl⟩
    | none =>
      unfold startCutN at h
      have := (List.findSome?_eq_none_iff.1 h) (x, o) ho
      simp [hposb, hp] at this
  obtain ⟨ta, hta⟩ := List.getLast?_eq_some_iff.1 hok.lastA
  obtain ⟨rb, hrb⟩ := List.head?_eq_some_iff.1 hok.headB
  obtain ⟨ta', G, hr1, hst1, hb1, hn1, hs1, hp1, hm1⟩ := last_row_after_start_cut _ x.frag ta
    (startCutN (oid0 input) (withOffsets 0 (sitesN input ptx)) a) hta
  obtain ⟨rb', H, hr2, hst2, hb2, hn2, hs2, hp2, hm2⟩ := first_row_after_end_cut _ x.frag rb
    (endCutN (oid0 input) (withOffsets 0 (sitesN input ptx)) b) hrb
  have hA : (cutPieceN input ptx a (pieceAt ptx a).2).rows =
      ta' ++ [.frag (cutFragEnd G ((pieceO input (pieceAt ptx a).2).stop - (pieceAt ptx a).2.stop) e)] := by
    unfold cutPieceN
    rw [he]
    show (trimEndSpec e (cutO _ none _)).rows = _
    unfold trimEndSpec
    rw [hr1]
    simp only [List.reverse_append, List.reverse_cons, List.reverse_nil, List.nil_append, List.cons_append,
      List.reverse_reverse, hst1, hb1, hfa.bait]
  have hcomm : cutO (some s) (endCutN (oid0 input) (withOffsets 0 (sitesN input ptx)) b)
        (pieceO input (pieceAt ptx b).2) =
      trimStartSpec s (cutO none (endCutN (oid0 input) (withOffsets 0 (sitesN input ptx)) b)
        (pieceO input (pieceAt ptx b).2)) ∨ rb = [] := by
    cases hec : endCutN (oid0 input) (withOffsets 0 (sitesN input ptx)) b with
    | none => exact Or.inl rfl
    | some e' =>
      rcases List.eq_nil_or_concat rb with h0 | ⟨m, y, hm⟩
      · exact Or.inr h0
      · left
        obtain ⟨Hb, tb, hHb⟩ := hfb.last
        rw [hrb, hm] at hHb
        have : y = .frag Hb := by
          have := concat_inj (t := .frag x.frag :: m) (t' := tb) (x := y) (y := .frag Hb) (by simpa using hHb)
          exact this.2
        subst this
        exact (trimStart_trimEnd_comm _ x.frag Hb m s e' (by rw [hrb, hm])).symm
  sorry

end AgpTpf.C02
