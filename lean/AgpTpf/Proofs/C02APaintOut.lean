/-
  C02 (aligned maps), part 7: output of the painted variant, and its Bool checker.
-/
import AgpTpf.Proofs.C02APaintBuild
import AgpTpf.Proofs.C02ACheck
namespace AgpTpf.C02
open AgpTpf
open AgpTpf.C08 (junctionSet_ok_of_strands)

theorem expectedFusedP_junctions (input ptx : List Scaffold) (jg : Gap) (err : Int) (ha : AlignedP input ptx err)
    (hstr : ∀ sc ∈ input, ∀ f ∈ sc.fragments, f.strand = 1 ∨ f.strand = -1) :
    ∀ s ∈ expectedFusedP input ptx jg, ∃ J, s.junctionSet = .ok J := by
  intro s hs
  apply junctionSet_ok_of_strands
  unfold expectedFusedP at hs
  rcases List.mem_append.1 hs with h | h
  · obtain ⟨S, hS, rfl⟩ := List.mem_map.1 h
    apply expectedRows_strands
    intro p hp f hf
    obtain ⟨sc, hfind, hfo⟩ := lookupPiece_spec ((ha.scaffolds S hS).pieces p hp).found
    have hsc := List.mem_of_find?_eq_some hfind
    obtain ⟨-, -, -, hinf⟩ := findOverlaps_shape sc.rows p _ (ha.lens sc hsc) hfo
    apply hstr sc hsc f
    rw [Scaffold.fragments, mem_fragmentsOf_iff]
    exact hinf.subset ((mem_fragmentsOf_iff _ _).1 hf)
  · obtain ⟨e, he, rfl⟩ := List.mem_map.1 h
    obtain ⟨sc, hsc, hle⟩ := expectedExtra_mem he
    obtain ⟨-, hrows, -⟩ := leftoverEntry_fields hle
    intro f hf
    rw [Scaffold.fragments, hrows, (leftover_spec _ jg sc.rows).1, List.mem_filter] at hf
    exact hstr sc hsc f hf.1

/-- the scaffolds of the output of a painted aligned map, before sorting -/
def expectedScaffoldsP (prefix_ : Str) (input ptx : List Scaffold) (jg : Gap) : List Scaffold :=
  namedBySize prefix_ (expectedFusedP input ptx jg) ptx.length

theorem remap_alignedP (input ptx : List Scaffold) (prefix_ : Str) (jg : Gap) (err : Int)
    (ha : AlignedP input ptx err) (hnc : NoClashP input ptx jg) (hne : ptx ≠ [])
    (hstr : ∀ sc ∈ input, ∀ f ∈ sc.fragments, f.strand = 1 ∨ f.strand = -1) :
    ∃ stats, remap input ptx prefix_ (some jg) err =
        .ok ([{ key := none, curated := true,
                scaffolds := C20.smartSorted (expectedScaffoldsP prefix_ input ptx jg) }], stats) ∧
      stats.cuts = 0 := by
  obtain ⟨b, hb, hstore, hextra, -, hcuts, hjg, hpre⟩ := remapToInput_alignedP input ptx prefix_ jg err ha
  have hfs := fuseByName_alignedP input ptx jg err ha hnc b hjg hstore hextra
  obtain ⟨st, hst, hc⟩ := assembliesFused_paintedPrefix input b _ ptx.length hfs
    (expectedFusedP_prefix input ptx jg err ha hnc hne)
    (fun sc hsc => junctionSet_ok_of_strands sc (hstr sc hsc))
    (expectedFusedP_junctions input ptx jg err ha hstr)
  rw [hpre] at hst
  refine ⟨st, ?_, by rw [hc, hcuts]⟩
  unfold remap
  simp only [hb, bind, Except.bind, hst]
  rfl

/-! ### checker -/

def pieceAlignedPB (input : List Scaffold) (err : Int) (p : Fragment) : Bool :=
  (lookupPiece input p).isSome && decide ((pieceO input p).startOverhang ≤ err) &&
  decide ((pieceO input p).endOverhang ≤ err) && decide (p.tags = [sPainted])

def scaffoldAlignedPB (input : List Scaffold) (err : Int) (S : Scaffold) : Bool :=
  headIsFrag S.rows && S.fragments.all (pieceAlignedPB input err) && decide (hapPrefixOfName (outName S) = none) &&
  !S.name.isEmpty

def alignedPB (input ptx : List Scaffold) (err : Int) : Bool :=
  decide ((input.map (·.name)).Nodup) &&
  input.all (fun sc => sc.rows.all (fun r => decide (0 ≤ r.length))) &&
  ptx.all (scaffoldAlignedPB input err) &&
  decide ((claimedKeys input ptx).Nodup) &&
  input.all (fun sc => sc.fragments.all (fun f =>
    (claimedKeys input ptx).contains f.keyTuple || (decide (f.tags = []) && decide (hapPrefixOfName f.name = none))))

theorem alignedP_of_check (input ptx : List Scaffold) (err : Int) (h : alignedPB input ptx err = true) :
    AlignedP input ptx err := by
  unfold alignedPB at h
  simp only [Bool.and_eq_true, decide_eq_true_eq, List.all_eq_true, Bool.or_eq_true] at h
  obtain ⟨⟨⟨⟨h1, h2⟩, h3⟩, h4⟩, h5⟩ := h
  refine ⟨h1, h2, ?_, h4, ?_⟩
  · intro S hS
    have := h3 S hS
    unfold scaffoldAlignedPB at this
    simp only [Bool.and_eq_true, decide_eq_true_eq, List.all_eq_true, Bool.not_eq_true'] at this
    obtain ⟨⟨⟨g1, g2⟩, g3⟩, g4⟩ := this
    refine ⟨?_, ?_, g3, ?_⟩
    · cases hr : S.rows with
      | nil => rw [hr] at g1; cases g1
      | cons a r =>
        cases a with
        | frag f => exact ⟨f, r, rfl⟩
        | gap g => rw [hr] at g1; cases g1
    · intro p hp
      have := g2 p hp
      unfold pieceAlignedPB at this
      simp only [Bool.and_eq_true, decide_eq_true_eq] at this
      obtain ⟨⟨⟨k1, k2⟩, k3⟩, k4⟩ := this
      exact ⟨k1, k2, k3, k4⟩
    · intro e; rw [e] at g4; simp at g4
  · intro sc hsc f hf hc
    rcases h5 sc hsc f hf with h | h
    · rw [hc] at h; cases h
    · exact h

end AgpTpf.C02
