/-
  C11 helpers, part 5: the cut counter of `cut_fragments` / `cut_remaining_fragments`.
-/
import AgpTpf.Proofs.C11Extra
namespace AgpTpf.C11
open AgpTpf

theorem foldlM_inv {α β : Type} (f : β → α → R β) (Inv : β → Nat → Prop)
    (hstep : ∀ acc a n acc', Inv acc n → f acc a = .ok acc' → Inv acc' (n + 1))
    (l : List α) (acc : β) (n : Nat) (res : β) (h0 : Inv acc n) (h : l.foldlM f acc = .ok res) :
    Inv res (n + l.length) := by
  induction l generalizing acc n with
  | nil =>
    simp only [List.foldlM_nil, pure, Except.pure, Except.ok.injEq] at h
    subst h; simpa using h0
  | cons a l ih =>
    simp only [List.foldlM_cons] at h
    cases hs : f acc a with
    | error e => rw [hs] at h; simp [bind, Except.bind] at h
    | ok acc' =>
      rw [hs] at h
      simp only [bind, Except.bind] at h
      have := ih acc' (n + 1) (hstep acc a n acc' h0 hs) h
      rw [List.length_cons]
      have e : n + (l.length + 1) = n + 1 + l.length := by omega
      rw [e]; exact this

theorem mapM_length {α β : Type} (f : α → R β) (l : List α) (r : List β) (h : l.mapM f = .ok r) :
    r.length = l.length := by
  induction l generalizing r with
  | nil => simp only [List.mapM_nil, pure, Except.pure, Except.ok.injEq] at h; subst h; rfl
  | cons a l ih =>
    simp only [List.mapM_cons] at h
    cases h1 : f a with
    | error e => rw [h1] at h; simp [bind, Except.bind] at h
    | ok b =>
      cases h2 : l.mapM f with
      | error e => rw [h1, h2] at h; simp [bind, Except.bind] at h
      | ok bs =>
        rw [h1, h2] at h
        simp only [bind, Except.bind, pure, Except.pure, Except.ok.injEq] at h
        subst h
        simp [ih bs h2]

theorem insertBy_length {α : Type} (le : α → α → Bool) (x : α) (l : List α) :
    (insertBy le x l).length = l.length + 1 := by
  induction l with
  | nil => rfl
  | cons y ys ih =>
    unfold insertBy
    by_cases h : le x y <;> simp [h, ih]

theorem stableSort_length {α : Type} (le : α → α → Bool) (l : List α) : (stableSort le l).length = l.length := by
  induction l with
  | nil => rfl
  | cons x xs ih => simp [stableSort, insertBy_length, ih]

/-- `cut_fragments` adds (number of pieces − 1) to the cut counter, one piece per Pretext scaffold in which the
    contig was found, and leaves the `found` index alone. -/
theorem cutFragments_cuts (b b' : Build) (fnd : Found) (h : cutFragments b fnd = .ok b') :
    b'.cuts = b.cuts + ((fnd.scaffolds.length : Int) - 1) ∧ b'.found = b.found := by
  unfold cutFragments at h
  simp only [bind, Except.bind, pure, Except.pure] at h
  split at h
  · simp at h
  · rename_i keyed hk
    split at h
    · simp at h
    · rename_i res hf
      have hinv := foldlM_inv _
        (fun (acc : Build × List Fragment × Nat) n =>
          acc.1.cuts = b.cuts ∧ acc.1.found = b.found ∧ acc.2.1.length = n)
        (by
          intro acc a n acc' hi hs
          split at hs
          · simp at hs
          · simp only [Except.ok.injEq] at hs
            subst hs
            exact ⟨hi.1, hi.2.1, by simp [hi.2.2]⟩)
        _ _ 0 res ⟨rfl, rfl, rfl⟩ hf
      simp only [List.length_map, stableSort_length, Nat.zero_add] at hinv
      rw [mapM_length _ _ _ hk] at hinv
      split at h
      · simp [throw, throwThe, MonadExceptOf.throw] at h
      · simp only [Except.ok.injEq] at h
        subst h
        simp only [hinv.1, hinv.2.1, hinv.2.2, and_self]

/-- pieces − 1 for a multiply-found contig key (0 for a key that is not in the index) -/
def cutsOfKey (found : List (Key × Found)) (k : Key) : Int :=
  match dGet? found k with
  | some fnd => (fnd.scaffolds.length : Int) - 1
  | none => 0

/-- loop body of `cut_remaining_fragments` -/
def cutStep (b : Build) (k : Key) : R Build :=
  match dGet? b.found k with
  | some fnd => cutFragments b fnd
  | none => pure b

theorem cutRemaining_eq (b : Build) :
    cutRemaining b = (do let b ← b.multi.foldlM cutStep b; pure { b with multi := [] }) := rfl

theorem cutRemaining_fold (l : List Key) (b b' : Build) (h : l.foldlM cutStep b = .ok b') :
    b'.cuts = b.cuts + sumInts (l.map (cutsOfKey b.found)) ∧ b'.found = b.found := by
  induction l generalizing b with
  | nil =>
    simp only [List.foldlM_nil, pure, Except.pure, Except.ok.injEq] at h
    subst h; simp [sumInts]
  | cons k l ih =>
    simp only [List.foldlM_cons] at h
    cases hs : cutStep b k with
    | error e => rw [hs] at h; simp [bind, Except.bind] at h
    | ok b1 =>
      rw [hs] at h
      simp only [bind, Except.bind] at h
      obtain ⟨h1, h2⟩ := ih b1 h
      unfold cutStep at hs
      cases hk : dGet? b.found k with
      | none =>
        rw [hk] at hs
        simp only [pure, Except.pure, Except.ok.injEq] at hs
        subst hs
        refine ⟨?_, h2⟩
        simp only [List.map_cons, sumInts, cutsOfKey, hk]
        rw [h1]; omega
      | some fnd =>
        rw [hk] at hs
        obtain ⟨c1, c2⟩ := cutFragments_cuts b b1 fnd hs
        refine ⟨?_, h2.trans c2⟩
        simp only [List.map_cons, sumInts]
        rw [h1, c1, c2]
        simp only [cutsOfKey, hk]
        omega

/-- `cut_remaining_fragments`: the counter grows by Σ (pieces − 1) over the multiply-found contigs -/
theorem cutRemaining_cuts (b b' : Build) (h : cutRemaining b = .ok b') :
    b'.cuts = b.cuts + sumInts (b.multi.map (cutsOfKey b.found)) := by
  rw [cutRemaining_eq] at h
  cases hf : b.multi.foldlM cutStep b with
  | error e => rw [hf] at h; simp [bind, Except.bind] at h
  | ok b1 =>
    rw [hf] at h
    simp only [bind, Except.bind, pure, Except.pure, Except.ok.injEq] at h
    subst h
    exact (cutRemaining_fold _ _ _ hf).1

end AgpTpf.C11
