/-
  C02 — helper lemmas for M7: the order in which `cut_fragments` visits the holders of a shared contig and the
  keep-start / keep-end flags each of them gets.
-/
import AgpTpf.Proofs.C02Fix
import AgpTpf.Proofs.C02Trim
import AgpTpf.Proofs.C01Cut
namespace AgpTpf.C02
open AgpTpf OverlapResult
open AgpTpf.C18
open AgpTpf.C01 (cutStep cutOrder cutSubs)

/-- `(keep_start, keep_end)` handed to `trim_fragment` for the `i`-th holder (0-based) out of `last + 1`:
    first holder keeps the start, last keeps the end — swapped for a minus-strand contig -/
def cutFlags (strand : Int) (i last : Nat) : Bool × Bool :=
  if strand = -1 then (i == last, i == 0) else (i == 0, i == last)

/-- one step of the loop, spelled out -/
theorem cutStep_trace {f : Fragment} {last : Nat} {b b' : Build} {subs subs' : List Fragment} {i i' sid : Nat}
    (h : cutStep f last (b, subs, i) sid = .ok (b', subs', i')) :
    ∃ o' new, (b.store.getD sid default).o.trimFragment f (cutFlags f.strand i last).1 (cutFlags f.strand i last).2 b.nextOid
        = .ok (o', new) ∧
      b' = { b with store := setAt b.store sid { b.store.getD sid default with o := o' }, nextOid := b.nextOid + 1 } ∧
      subs' = subs ++ [new] ∧ i' = i + 1 := by
  unfold cutStep at h
  simp only [bind, Except.bind] at h
  split at h
  · cases h
  · next v hv =>
    obtain ⟨o, new⟩ := v
    simp only [pure, Except.pure, Except.ok.injEq, Prod.mk.injEq] at h
    obtain ⟨rfl, rfl, rfl⟩ := h
    exact ⟨o, new, hv, rfl, rfl, rfl⟩

theorem getD_setAt_ne {α} (l : List α) (i j : Nat) (x d : α) (h : i ≠ j) : (setAt l i x).getD j d = l.getD j d := by
  simp only [setAt, List.getD_eq_getElem?_getD]
  rw [List.getElem?_set_ne h]

/-- the whole loop: the `j`-th holder is trimmed with flags `cutFlags strand (i + j) last` and gets object id
    `nextOid + j`; the result it is applied to is the stored one, untouched unless the same holder id was visited before -/
theorem foldlM_cutStep_trace (f : Fragment) (last : Nat) (l : List Nat) :
    ∀ (b : Build) (subs : List Fragment) (i : Nat) (b' : Build) (subs' : List Fragment) (i' : Nat),
    l.foldlM (cutStep f last) (b, subs, i) = .ok (b', subs', i') →
    ∃ news : List Fragment, subs' = subs ++ news ∧ news.length = l.length ∧ i' = i + l.length ∧
      b'.nextOid = b.nextOid + l.length ∧
      ∀ j sid new, l[j]? = some sid → news[j]? = some new →
        ∃ (bj : Build) (o' : OverlapResult),
          (∀ s, s ∉ l.take j → bj.store.getD s default = b.store.getD s default) ∧
          (bj.store.getD sid default).o.trimFragment f (cutFlags f.strand (i + j) last).1
              (cutFlags f.strand (i + j) last).2 (b.nextOid + j) = .ok (o', new) := by
  induction l with
  | nil =>
    intro b subs i b' subs' i' h
    simp only [List.foldlM_nil, pure, Except.pure, Except.ok.injEq, Prod.mk.injEq] at h
    obtain ⟨rfl, rfl, rfl⟩ := h
    exact ⟨[], by simp, rfl, rfl, rfl, by simp⟩
  | cons sid0 t ih =>
    intro b subs i b' subs' i' h
    rw [List.foldlM_cons] at h
    cases hs : cutStep f last (b, subs, i) sid0 with
    | error e => rw [hs] at h; simp [bind, Except.bind] at h
    | ok r =>
      obtain ⟨b1, subs1, i1⟩ := r
      rw [hs] at h
      simp only [bind, Except.bind] at h
      obtain ⟨o0, new0, htr, hb1, rfl, rfl⟩ := cutStep_trace hs
      obtain ⟨news, rfl, hl, rfl, hoid, hall⟩ := ih _ _ _ _ _ _ h
      have hoid1 : b1.nextOid = b.nextOid + 1 := by rw [hb1]
      refine ⟨new0 :: news, by simp, by simp [hl], by simp; omega, by rw [hoid, hoid1]; simp; omega, ?_⟩
      intro j sid new hj hn
      cases j with
      | zero =>
        simp only [List.getElem?_cons_zero, Option.some.injEq] at hj hn
        subst hj hn
        exact ⟨b, o0, fun _ _ => rfl, by simpa using htr⟩
      | succ j =>
        simp only [List.getElem?_cons_succ] at hj hn
        obtain ⟨bj, o', h1, h2⟩ := hall j sid new hj hn
        refine ⟨bj, o', ?_, ?_⟩
        · intro s hs'
          simp only [List.take_succ_cons, List.mem_cons, not_or] at hs'
          rw [h1 s hs'.2, hb1]
          exact getD_setAt_ne _ _ _ _ _ (fun e => hs'.1 e.symm)
        · rw [hoid1] at h2
          have e1 : i + 1 + j = i + (j + 1) := by omega
          have e2 : b.nextOid + 1 + j = b.nextOid + (j + 1) := by omega
          rw [e1, e2] at h2
          exact h2

/-! ### what the flags mean for the piece -/

theorem trimFragment_rows_ne {o o' : OverlapResult} {f new : Fragment} {ks ke : Bool} {oid : Nat}
    (h : trimFragment o f ks ke oid = .ok (o', new)) : o.rows ≠ [] := by
  intro h0
  rw [trimFragment_empty f ks ke oid h0] at h
  cases h

/-- `keep_start` leaves the side of the contig that lies at the result's start untouched, `keep_end` the other:
    for a plus-strand contig these are `start` / `end`, otherwise `end` / `start` -/
theorem trimFragment_keep {o o' : OverlapResult} {f new : Fragment} {ks ke : Bool} {oid : Nat}
    (h : trimFragment o f ks ke oid = .ok (o', new)) :
    (ks = true → if f.strand = 1 then new.start = f.start else new.stop = f.stop) ∧
    (ke = true → if f.strand = 1 then new.stop = f.stop else new.start = f.start) := by
  have hne := trimFragment_rows_ne h
  obtain ⟨a, hs⟩ := firstIs_ok_of_ne f hne
  obtain ⟨b, he⟩ := lastIs_ok_of_ne f hne
  obtain ⟨d1, d2, h1, h2, _, _, _, _, _, _, _, _, h11, _⟩ := trimFragment_spec hs he h
  constructor
  · intro hk
    have : d1 = 0 := by rw [h1, hk]; simp
    by_cases hs1 : f.strand = 1
    · rw [if_pos hs1] at h11 ⊢; omega
    · rw [if_neg hs1] at h11 ⊢; omega
  · intro hk
    have : d2 = 0 := by rw [h2, hk]; simp
    by_cases hs1 : f.strand = 1
    · rw [if_pos hs1] at h11 ⊢; omega
    · rw [if_neg hs1] at h11 ⊢; omega

/-- first holder: its piece starts where the contig starts (contig coordinates, either strand) -/
theorem first_piece_start {o o' : OverlapResult} {f new : Fragment} {last : Nat} {oid : Nat}
    (hst : f.strand = 1 ∨ f.strand = -1)
    (h : trimFragment o f (cutFlags f.strand 0 last).1 (cutFlags f.strand 0 last).2 oid = .ok (o', new)) :
    new.start = f.start := by
  obtain ⟨h1, h2⟩ := trimFragment_keep h
  rcases hst with hs | hs
  · have : (cutFlags f.strand 0 last).1 = true := by simp [cutFlags, hs]
    have := h1 this
    rwa [if_pos hs] at this
  · have : (cutFlags f.strand 0 last).2 = true := by simp [cutFlags, hs]
    have := h2 this
    rwa [if_neg (by omega)] at this

/-- last holder: its piece ends where the contig ends -/
theorem last_piece_stop {o o' : OverlapResult} {f new : Fragment} {last : Nat} {oid : Nat}
    (hst : f.strand = 1 ∨ f.strand = -1)
    (h : trimFragment o f (cutFlags f.strand last last).1 (cutFlags f.strand last last).2 oid = .ok (o', new)) :
    new.stop = f.stop := by
  obtain ⟨h1, h2⟩ := trimFragment_keep h
  rcases hst with hs | hs
  · have : (cutFlags f.strand last last).2 = true := by simp [cutFlags, hs]
    have := h2 this
    rwa [if_pos hs] at this
  · have : (cutFlags f.strand last last).1 = true := by simp [cutFlags, hs]
    have := h1 this
    rwa [if_neg (by omega)] at this

/-! ### the visiting order -/

/-- the holders are visited in ascending `fragment_start_if_trimmed` (a permutation of the holder list) -/
theorem cutOrder_spec {b : Build} {fnd : Found} {ordered : List Nat} (h : cutOrder b fnd = .ok ordered) :
    ordered.Perm fnd.scaffolds ∧
    ∃ keyed : List (Int × Nat), keyed.map (·.2) = ordered ∧
      (∀ kp ∈ keyed, (getRes b.store kp.2).fragmentStartIfTrimmed fnd.fragment = .ok kp.1) ∧
      keyed.Pairwise (fun a c => a.1 ≤ c.1) := by
  unfold cutOrder at h
  simp only [bind, Except.bind] at h
  split at h
  · cases h
  · rename_i keyed hk
    simp only [pure, Except.pure, Except.ok.injEq] at h
    obtain ⟨h1, h2⟩ := mapM_keyed (fun sid => (getRes b.store sid).fragmentStartIfTrimmed fnd.fragment)
      fnd.scaffolds keyed hk
    have hperm := C01.stableSort_perm (fun (a c : Int × Nat) => decide (a.1 ≤ c.1)) keyed
    refine ⟨?_, stableSort (fun (a c : Int × Nat) => decide (a.1 ≤ c.1)) keyed, h, ?_, ?_⟩
    · rw [← h, ← h1]; exact hperm.map _
    · intro kp hkp; exact h2 kp (hperm.mem_iff.mp hkp)
    · exact stableSort_pairwise (fun (a : Int × Nat) => a.1) keyed

/-- `fragment_start_if_trimmed`, by where the contig sits in the result -/
theorem fragmentStartIfTrimmed_eq {o : OverlapResult} {f : Fragment} {a b : Bool}
    (hs : firstIs o f = .ok a) (he : lastIs o f = .ok b) :
    o.fragmentStartIfTrimmed f =
      .ok (if f.strand = 1 then (if a then f.start + o.startOverhang else f.start)
           else (if b then f.start + o.endOverhang else f.start)) := by
  unfold fragmentStartIfTrimmed
  split
  · rw [hs]; cases a <;> rfl
  · rw [he]; cases b <;> rfl

/-! ### M7 assembled -/

theorem cut_keeps_order_aux (b b' : Build) (fnd : Found) (h : cutFragments b fnd = .ok b') :
    ∃ ordered subs, cutOrder b fnd = .ok ordered ∧ cutSubs b fnd = .ok subs ∧ subs.length = ordered.length ∧
      (∀ j sid new, ordered[j]? = some sid → subs[j]? = some new →
        ∃ (bj : Build) (o' : OverlapResult),
          (∀ s, s ∉ ordered.take j → bj.store.getD s default = b.store.getD s default) ∧
          (bj.store.getD sid default).o.trimFragment fnd.fragment
              (cutFlags fnd.fragment.strand j (ordered.length - 1)).1
              (cutFlags fnd.fragment.strand j (ordered.length - 1)).2 (b.nextOid + j) = .ok (o', new)) ∧
      ((fnd.fragment.strand = 1 ∨ fnd.fragment.strand = -1) →
        (∀ new, subs[0]? = some new → new.start = fnd.fragment.start) ∧
        (∀ new, subs[ordered.length - 1]? = some new → new.stop = fnd.fragment.stop)) := by
  obtain ⟨ordered, b1, subs, n, ho, hf, _, _⟩ := C01.cutFragments_ok b b' fnd h
  obtain ⟨news, hsubs, hlen, _, _, hall⟩ := foldlM_cutStep_trace _ _ _ _ _ _ _ _ _ hf
  simp only [List.nil_append] at hsubs
  subst hsubs
  have htrace : ∀ j sid new, ordered[j]? = some sid → subs[j]? = some new →
        ∃ (bj : Build) (o' : OverlapResult),
          (∀ s, s ∉ ordered.take j → bj.store.getD s default = b.store.getD s default) ∧
          (bj.store.getD sid default).o.trimFragment fnd.fragment
              (cutFlags fnd.fragment.strand j (ordered.length - 1)).1
              (cutFlags fnd.fragment.strand j (ordered.length - 1)).2 (b.nextOid + j) = .ok (o', new) := by
    intro j sid new hj hn
    obtain ⟨bj, o', h1, h2⟩ := hall j sid new hj hn
    rw [Nat.zero_add] at h2
    exact ⟨bj, o', h1, h2⟩
  refine ⟨ordered, subs, ho, ?_, hlen, htrace, ?_⟩
  · unfold cutSubs
    simp only [bind, Except.bind, ho, hf]; rfl
  · intro hst
    constructor
    · intro new hn
      have h0 : 0 < ordered.length := by
        rw [← hlen]; exact (List.getElem?_eq_some_iff.mp hn).1
      obtain ⟨bj, o', _, h2⟩ := htrace 0 ordered[0] new (List.getElem?_eq_getElem h0) hn
      exact first_piece_start hst h2
    · intro new hn
      have h0 : ordered.length - 1 < ordered.length := by
        have := (List.getElem?_eq_some_iff.mp hn).1; omega
      obtain ⟨bj, o', _, h2⟩ := htrace _ ordered[ordered.length - 1] new (List.getElem?_eq_getElem h0) hn
      exact last_piece_stop hst h2

end AgpTpf.C02
