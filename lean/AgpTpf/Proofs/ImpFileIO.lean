/-
  T1c / file I/O kernels — helper lemmas for the ties between the translated `FastaInfo.fai_row`, `FastaIndex.load_index`,
  `FastaIndex.sequence_bytes` (`Gen/Imp3.lean`) and the model's `faiRow`, `loadIndex` (`Model/Cli.lean`), `sequenceBytes`
  (`Model/Fasta.lean`).

  1. `PyRt.forIn` without `break` / `return` is a `foldlM` (the body is a parameter; a side goal asks what one pass returns).
  2. `fai_row`, `load_index`: one pass of the source loop = the model's `loadIndexLine` + `dSet`.
  3. `sequence_bytes`: `PyRt.BinFile` (bytes + cursor) against the model's absolute positions (`readAt`); the whole-lines loop
     against the model's `readWholeLinesChk`, which makes the check the source makes at every relative seek (OSError for a negative
     target; `wholeLinesNeg`, `readWholeLinesChk_eq` in `Proofs/SeekChk.lean`).
-/
import AgpTpf.Gen.Imp3
import AgpTpf.Model.Cli
import AgpTpf.Model.Fasta
import AgpTpf.Proofs.SeekChk
set_option linter.unusedSimpArgs false
set_option linter.unusedVariables false
namespace AgpTpf.ImpFileIO
open AgpTpf

/-! ### 1. `PyRt.forIn` without `break` / `return` -/

/-- a body that may raise and otherwise updates the loop state: the loop is a `foldlM` -/
theorem forIn_foldlM {α σ ρ : Type} (g : σ → α → R σ) (body : α → σ → R (PyRt.Ctl σ ρ))
    (hbody : ∀ x s, body x s = (g s x >>= fun s' => .ok (.next s'))) (xs : List α) (s : σ) :
    PyRt.forIn xs s body = (xs.foldlM g s >>= fun s' => .ok (.fell s')) := by
  induction xs generalizing s with
  | nil => rfl
  | cons x xs ih =>
    rw [PyRt.forIn, hbody, List.foldlM_cons]
    cases g s x with
    | error e => rfl
    | ok s' => exact ih s'

/-! ### 2. `fai_row`, `load_index` -/

/-- the translated `fai_row` never raises and writes the model's row -/
theorem faiRowSrc_eq (i : FastaInfo) (name : Str) : Gen.Imp.FastaInfo_fai_row i name = .ok (faiRow (name, i)) := by
  simp [Gen.Imp.FastaInfo_fai_row, faiRow, joinWith]

/-- `line.rstrip("\n")`: the translator writes the character set as a membership test -/
theorem nl_pred : (fun c => (['\n'] : List Char).contains c) = (· == '\n') := by
  funext c
  cases h : c == '\n' <;> simp [List.contains, List.elem, h]

/-- one pass of the model's loop -/
def loadStep (acc : List (Str × FastaInfo)) (l : Str) : R (List (Str × FastaInfo)) := do
  let e ← loadIndexLine l; pure (dSet acc e.1 e.2)

theorem loadIndex_eq (lines : List Str) : loadIndex lines = lines.foldlM loadStep [] := rfl

/-- `name, a, b, c, d = fields` followed by the four `int(…)` in order, as a function of the field list: `PyRt.unpackN 5` + `getD` is
    the model's five-element `match` -/
theorem unpack5 {β : Type} (fs : List Str) (k : Str → Int → Int → Int → Int → R β) :
    (PyRt.unpackN 5 fs >>= fun un =>
      pyInt (un.getD 1 default) >>= fun t2 => pyInt (un.getD 2 default) >>= fun t3 =>
      pyInt (un.getD 3 default) >>= fun t4 => pyInt (un.getD 4 default) >>= fun t5 =>
      k (un.getD 0 default) t2 t3 t4 t5) =
    (match fs with
     | [n, a, b, c, d] => pyInt a >>= fun t2 => pyInt b >>= fun t3 => pyInt c >>= fun t4 => pyInt d >>= fun t5 => k n t2 t3 t4 t5
     | _ => .error .value) := by
  rcases fs with _ | ⟨n, _ | ⟨a, _ | ⟨b, _ | ⟨c, _ | ⟨d, _ | ⟨e, r⟩⟩⟩⟩⟩⟩ <;>
    simp [PyRt.unpackN, bind, Except.bind]

/-- the model's `loadStep` in the same form -/
theorem loadStep_eq (acc : List (Str × FastaInfo)) (l : Str) :
    loadStep acc l =
      (match splitFaiLine l with
       | [n, a, b, c, d] => pyInt a >>= fun t2 => pyInt b >>= fun t3 => pyInt c >>= fun t4 => pyInt d >>= fun t5 =>
           (.ok (dSet acc n { length := t2, fileOffset := t3, rpl := t4, mll := t5 }) : R _)
       | _ => .error .value) := by
  unfold loadStep loadIndexLine
  generalize splitFaiLine l = fs
  rcases fs with _ | ⟨n, _ | ⟨a, _ | ⟨b, _ | ⟨c, _ | ⟨d, _ | ⟨e, r⟩⟩⟩⟩⟩⟩
  all_goals try rfl
  dsimp only
  cases pyInt a <;> try rfl
  cases pyInt b <;> try rfl
  cases pyInt c <;> try rfl
  cases pyInt d <;> rfl

/-- the translated `load_index` on a not-yet-loaded index: the model's fold -/
theorem loadIndexSrc_eq (lines : List Str) : Gen.Imp.FastaIndex_load_index [] lines = loadIndex lines := by
  unfold Gen.Imp.FastaIndex_load_index
  rw [loadIndex_eq]
  simp only [List.isEmpty_nil, Bool.not_true, Bool.false_eq_true, if_false]
  rw [forIn_foldlM loadStep]
  · cases List.foldlM loadStep [] lines <;> rfl
  · intro line acc
    rw [loadStep_eq, nl_pred]
    have h := unpack5 (splitFaiLine line)
      (fun n t2 t3 t4 t5 => (.ok (.next (dSet acc n { length := t2, fileOffset := t3, rpl := t4, mll := t5 })) :
        R (PyRt.Ctl (List (Str × FastaInfo)) (List (Str × FastaInfo)))))
    unfold splitFaiLine at h ⊢
    rw [h]
    generalize splitOnChar '\t' (rstripBy (· == '\n') line) = fs
    rcases fs with _ | ⟨n, _ | ⟨a, _ | ⟨b, _ | ⟨c, _ | ⟨d, _ | ⟨e, r⟩⟩⟩⟩⟩⟩
    all_goals try rfl
    dsimp only
    cases pyInt a <;> try rfl
    cases pyInt b <;> try rfl
    cases pyInt c <;> try rfl
    cases pyInt d <;> rfl

/-- `if self.index: raise IndexUsageError` -/
theorem loadIndexSrc_twice (idx : List (Str × FastaInfo)) (h : idx ≠ []) (lines : List Str) :
    Gen.Imp.FastaIndex_load_index idx lines = .error .usage := by
  unfold Gen.Imp.FastaIndex_load_index
  cases idx with
  | nil => exact absurd rfl h
  | cons a r => simp

/-! ### 3. `sequence_bytes` -/

/-- `seq.write(d)` with the cursor at the end (where `sequence_bytes` always has it): the bytes are appended -/
theorem write_end (seq : PyRt.BytesIO) (d : List Nat) (h : seq.pos = seq.data.length) :
    PyRt.BytesIO.write seq d = { data := seq.data ++ d, pos := seq.data.length + d.length } := by
  simp [PyRt.BytesIO.write, h]

/-- `fh.read(n)`: the bytes are the model's `readAt` at the handle's position … -/
theorem read_fst (fh : PyRt.BinFile) (n : Int) : (PyRt.BinFile.read fh n).1 = readAt fh.data fh.pos n := by
  simp [PyRt.BinFile.read, readAt]

/-- … and the position moves behind them -/
theorem read_snd (fh : PyRt.BinFile) (n : Int) :
    (PyRt.BinFile.read fh n).2 = { data := fh.data, pos := fh.pos + (readAt fh.data fh.pos n).length } := by
  simp [PyRt.BinFile.read, readAt]

theorem seek_eq (fh : PyRt.BinFile) (p : Int) :
    PyRt.BinFile.seek fh p = if p < 0 then .error .other else .ok { data := fh.data, pos := p.toNat } := rfl

theorem seekRel_eq (fh : PyRt.BinFile) (d : Int) :
    PyRt.BinFile.seekRel fh d =
      if (fh.pos : Int) + d < 0 then .error .other else .ok { data := fh.data, pos := ((fh.pos : Int) + d).toNat } := rfl

/-- the whole-lines loop of the source (`for _ in range(n): seq.write(fh.read(rpl)); fh.seek(leb, 1)`), the body a parameter: it IS
    the model's `readWholeLinesChk` (OSError at the first relative seek with a negative target); the handle is left at the position the
    model computes.  `pk` packs the loop state (ordered by variable name in the generated code). -/
theorem forIn_wholeLines {ι σ ρ : Type} (pk : PyRt.BinFile → PyRt.BytesIO → σ) (rpl leb : Int)
    (body : ι → σ → R (PyRt.Ctl σ ρ))
    (hbody : ∀ i fh seq, body i (pk fh seq) =
      (PyRt.BinFile.seekRel (PyRt.BinFile.read fh rpl).2 leb >>= fun fh' =>
        .ok (.next (pk fh' (PyRt.BytesIO.write seq (PyRt.BinFile.read fh rpl).1)))))
    (xs : List ι) :
    ∀ (fh : PyRt.BinFile) (seq : PyRt.BytesIO) (rs : List Int), seq.pos = seq.data.length →
    PyRt.forIn xs (pk fh seq) body =
      match readWholeLinesChk fh.data rpl leb xs.length fh.pos { data := seq.data, reads := rs } with
      | .error e => .error e
      | .ok r => .ok (.fell (pk { data := fh.data, pos := r.1.toNat } { data := r.2.data, pos := r.2.data.length })) := by
  induction xs with
  | nil =>
    intro fh seq rs hseq
    cases seq with
    | mk d p =>
      simp only at hseq
      subst hseq
      simp [PyRt.forIn, readWholeLinesChk]
  | cons x xs ih =>
    intro fh seq rs hseq
    rw [PyRt.forIn, hbody, seekRel_eq, read_snd, read_fst]
    simp only [List.length_cons, readWholeLinesChk]
    by_cases hneg : ((fh.pos + (readAt fh.data fh.pos rpl).length : Nat) : Int) + leb < 0
    · have hneg' : (fh.pos : Int) + ((readAt fh.data fh.pos rpl).length : Int) + leb < 0 := by omega
      simp [hneg, hneg', bind, Except.bind]
    · have hneg' : ¬ ((fh.pos : Int) + ((readAt fh.data fh.pos rpl).length : Int) + leb < 0) := by omega
      have hpos : ((((fh.pos + (readAt fh.data fh.pos rpl).length : Nat) : Int) + leb).toNat : Int) =
          (fh.pos : Int) + ((readAt fh.data fh.pos rpl).length : Int) + leb := by omega
      simp only [if_neg hneg, if_neg hneg', bind, Except.bind]
      rw [ih _ _ (rs ++ [rpl]) (by rw [write_end _ _ hseq]; simp)]
      simp only [hpos, write_end _ _ hseq]

/-- where the source leaves the file handle when it returns (a position in the file; computed with the model's functions — the
    unchecked `readWholeLines`: when `sequence_bytes` returns, no seek of the loop went negative, `readWholeLinesChk_eq`) -/
def seqEndPos (file : Bytes) (info : FastaInfo) (start1 stop : Int) : Int :=
  let start := start1 - 1
  let rpl := info.rpl
  let mll := info.mll
  let leb := mll - rpl
  let frstLine := pyDiv start rpl
  let lastLine := pyDiv (stop - 1) rpl
  let frstOffset := pyMod start rpl
  let lastOffset := pyMod stop rpl
  let pos0 := info.fileOffset + frstOffset + mll * frstLine
  if frstLine = lastLine then pos0 + (readAt file pos0 (stop - start)).length
  else
    let d1 := readAt file pos0 (rpl - frstOffset)
    let pos1 := pos0 + d1.length + leb
    let lastWhole := if lastOffset = 0 then lastLine else lastLine - 1
    let pos2 := (readWholeLines file rpl leb (lastWhole - frstLine).toNat pos1 { data := d1, reads := [rpl - frstOffset] }).1
    if lastOffset ≠ 0 then pos2 + (readAt file pos2 lastOffset).length else pos2

/-- a relative seek INSIDE the whole-lines loop of `sequence_bytes(info, start1, stop)` has a negative target (the case the model did
    not check before W12; now `sequenceBytes` raises there: `sequenceBytes_loopSeekNeg`) -/
def loopSeekNeg (file : Bytes) (info : FastaInfo) (start1 stop : Int) : Bool :=
  let start := start1 - 1
  let rpl := info.rpl
  let mll := info.mll
  let leb := mll - rpl
  let frstLine := pyDiv start rpl
  let lastLine := pyDiv (stop - 1) rpl
  let frstOffset := pyMod start rpl
  let lastOffset := pyMod stop rpl
  let pos0 := info.fileOffset + frstOffset + mll * frstLine
  let d1 := readAt file pos0 (rpl - frstOffset)
  let pos1 := pos0 + d1.length + leb
  let lastWhole := if lastOffset = 0 then lastLine else lastLine - 1
  decide (frstLine ≠ lastLine) && wholeLinesNeg file rpl leb (lastWhole - frstLine).toNat pos1

theorem rangeUp_length (a b : Int) : (PyRt.rangeUp a b).length = (b - a).toNat := by simp [PyRt.rangeUp]


theorem write_nil (d : List Nat) : PyRt.BytesIO.write { data := [], pos := 0 } d = { data := d, pos := d.length } := by
  simp [PyRt.BytesIO.write]

theorem readAt_toNat (file : Bytes) (p n : Int) : readAt file (p.toNat : Int) n = readAt file p n := by
  unfold readAt; rw [Int.toNat_natCast]

/-- THE TIE, complete result (handle and buffer), for ALL inputs: the translated `sequence_bytes` is the model's `sequenceBytes` —
    same exception class everywhere, including OSError for a relative seek with a negative target inside the whole-lines loop; the
    buffer's cursor is at its end, the file handle is left at `seqEndPos`; the handle's initial position `pos` does not matter.
    (The only proof that unfolds the generated definition.) -/
theorem seqBytesSrc_eq (file : Bytes) (pos : Nat) (info : FastaInfo) (start stop : Int) :
    Gen.Imp.FastaIndex_sequence_bytes_imp { data := file, pos := pos } info start stop =
      match sequenceBytes file info start stop with
      | .error e => .error e
      | .ok log =>
        .ok ({ data := file, pos := (seqEndPos file info start stop).toNat }, { data := log.data, pos := log.data.length }) := by
  unfold Gen.Imp.FastaIndex_sequence_bytes_imp sequenceBytes seqEndPos
  by_cases hr : info.rpl = 0
  · simp [PyRt.floorDiv, hr, bind, Except.bind, throw, throwThe, MonadExceptOf.throw]
  · simp only [PyRt.floorDiv, PyRt.floorMod, if_neg hr, seek_eq, bind, Except.bind, throw, throwThe, MonadExceptOf.throw, pure, Except.pure]
    generalize pyDiv (start - 1) info.rpl = t1
    generalize pyDiv (stop - 1) info.rpl = t2
    generalize pyMod (start - 1) info.rpl = t3
    generalize pyMod stop info.rpl = t4
    generalize stop - (start - 1) = n0
    generalize info.fileOffset + t3 + info.mll * t1 = pos0
    generalize info.rpl = rpl
    generalize info.mll - rpl = leb
    by_cases h0 : pos0 < 0
    · simp only [if_pos h0]
    · simp only [if_neg h0]
      obtain ⟨p0, rfl⟩ := Int.eq_ofNat_of_zero_le (by omega : 0 ≤ pos0)
      simp only [read_fst, read_snd, write_nil, seekRel_eq, Int.toNat_natCast]
      by_cases h12 : t1 = t2
      · simp [h12]
        omega
      · simp only [h12, decide_false, if_false, Bool.false_eq_true, ne_eq, not_false_eq_true, decide_true, Bool.true_and]
        generalize readAt file p0 (rpl - t3) = d1
        rw [Int.natCast_add]
        by_cases h1 : (p0 : Int) + (d1.length : Int) + leb < 0
        · simp only [if_pos h1]
        · simp only [if_neg h1]
          obtain ⟨p1, hp1⟩ := Int.eq_ofNat_of_zero_le (by omega : 0 ≤ (p0 : Int) + (d1.length : Int) + leb)
          rw [hp1]
          simp only [Int.toNat_natCast]
          rw [forIn_wholeLines Prod.mk rpl leb _ (fun i fh seq => rfl) _ { data := file, pos := p1 } { data := d1, pos := d1.length }
            [rpl - t3] rfl]
          simp only [rangeUp_length, Int.sub_zero, decide_eq_true_eq]
          generalize ((if t4 = 0 then t2 else t2 - 1) - t1).toNat = k
          rw [readWholeLinesChk_eq]
          by_cases hneg : wholeLinesNeg file rpl leb k p1 = true
          · simp only [hneg, if_true]
          · have hnn := readWholeLines_nonneg file rpl leb k p1 { data := d1, reads := [rpl - t3] } (by omega) (by simpa using hneg)
            simp only [hneg, if_false, Bool.false_eq_true]
            generalize readWholeLines file rpl leb k p1 { data := d1, reads := [rpl - t3] } = r at hnn ⊢
            by_cases h4 : t4 = 0
            · simp [h4]
            · simp only [h4, not_false_eq_true, decide_true, if_true, readAt_toNat]
              rw [write_end _ _ rfl]
              simp
              omega

/-- what W12 added to the model: where a relative seek inside the whole-lines loop has a negative target (`loopSeekNeg`; needs
    `rpl > mll` and a short read at the end of the file) `sequenceBytes` raises — `.zeroDiv` / `.other` from the earlier checks, else
    `.other` from the loop -/
theorem sequenceBytes_loopSeekNeg (file : Bytes) (info : FastaInfo) (start stop : Int)
    (h : loopSeekNeg file info start stop = true) : ∃ e, sequenceBytes file info start stop = .error e := by
  unfold loopSeekNeg at h
  unfold sequenceBytes
  dsimp only at h
  simp only [bind, Except.bind, throw, throwThe, MonadExceptOf.throw, pure, Except.pure]
  generalize pyDiv (start - 1) info.rpl = t1 at h ⊢
  generalize pyDiv (stop - 1) info.rpl = t2 at h ⊢
  generalize pyMod (start - 1) info.rpl = t3 at h ⊢
  generalize pyMod stop info.rpl = t4 at h ⊢
  generalize info.fileOffset + t3 + info.mll * t1 = pos0 at h ⊢
  simp only [Bool.and_eq_true, decide_eq_true_eq] at h
  by_cases hr : info.rpl = 0
  · exact ⟨.zeroDiv, by simp only [hr, if_true]⟩
  · by_cases h0 : pos0 < 0
    · exact ⟨.other, by simp only [hr, h0, if_true, if_false]⟩
    · by_cases h1 : pos0 + ((readAt file pos0 (info.rpl - t3)).length : Int) + (info.mll - info.rpl) < 0
      · exact ⟨.other, by simp only [hr, h0, h.1, h1, if_true, if_false]⟩
      · refine ⟨.other, ?_⟩
        simp only [hr, h0, h.1, h1, if_false]
        rw [readWholeLinesChk_eq, h.2]
        rfl

/-- with `residues_per_line ≤ max_line_length` (`line_end_bytes ≥ 0`; every index the indexer writes has it) no seek inside the loop
    can go negative once the checks of `pos0`, `pos1` have passed -/
theorem loopSeekNeg_of_le (file : Bytes) (info : FastaInfo) (start stop : Int) (hle : info.rpl ≤ info.mll) (log : ReadLog)
    (hok : sequenceBytes file info start stop = .ok log) : loopSeekNeg file info start stop = false := by
  cases hl : loopSeekNeg file info start stop with
  | false => rfl
  | true =>
    obtain ⟨e, he⟩ := sequenceBytes_loopSeekNeg file info start stop hl
    rw [he] at hok
    cases hok

/-- `write_index`'s rows, as a list: every `fai_row` call succeeds -/
theorem mapM_faiRowSrc (entries : List (Str × FastaInfo)) :
    entries.mapM (fun r => Gen.Imp.FastaInfo_fai_row r.2 r.1) = .ok (entries.map faiRow) := by
  induction entries with
  | nil => rfl
  | cons e es ih => rw [List.mapM_cons, ih, faiRowSrc_eq]; rfl

end AgpTpf.ImpFileIO
