/-
  C08 helpers, part 5 (stage N4): from the build of an unedited map to the output assemblies and statistics.
-/
import AgpTpf.Proofs.C08Remap
import AgpTpf.Proofs.C09Fuse
import AgpTpf.Proofs.C09Split
import AgpTpf.Proofs.C11Extra
import AgpTpf.Proofs.C20Sort
namespace AgpTpf.C08
open AgpTpf
open AgpTpf.C09 (Item fuseStep itemOfRes itemOfExtra fuseItems fuseAcc fuseByName_eq fuseStep_none splitStep splitLoop
  finishAssemblies assembliesFused_eq)
open AgpTpf.C11 (JunctionIn JunctionInOuts)
open AgpTpf.C20 (smartSorted)

/-! ### fusing: every part has its own `(tag, haplotype, name)` key -/

theorem appendRows_nil (rows : List Row) (g : Option Gap) : Scaffold.appendRows [] rows g = rows := by
  cases g <;> simp [Scaffold.appendRows]

/-- the scaffold a fresh item becomes -/
def Item.scaffold (it : Item) : Scaffold := { it.proto with rows := it.rows }

theorem foldl_fuseStep_fresh (items : List Item) (acc : List (C09.FKey × Scaffold))
    (hnd : (items.map (·.key)).Nodup) (hdis : ∀ it ∈ items, it.key ∉ acc.map (·.1))
    (hadd : ∀ it ∈ items, it.add [] = it.rows) :
    items.foldl fuseStep acc = acc ++ items.map (fun it => (it.key, Item.scaffold it)) := by
  induction items generalizing acc with
  | nil => simp
  | cons it r ih =>
    simp only [List.map_cons, List.nodup_cons] at hnd
    have h0 : dGet? acc it.key = none := (Dict.dGet?_none_iff _ _).2 (hdis it (by simp))
    simp only [List.foldl_cons, fuseStep_none acc it h0, hadd it (by simp)]
    rw [ih _ hnd.2]
    · simp [Item.scaffold]
    · intro x hx
      simp only [List.map_append, List.map_cons, List.map_nil, List.mem_append, List.mem_singleton, not_or]
      refine ⟨hdis x (by simp [hx]), ?_⟩
      intro e
      exact hnd.1 (e ▸ List.mem_map_of_mem hx)
    · exact fun x hx => hadd x (by simp [hx])

theorem filterMap_map_some {α β γ : Type} (f : α → β) (g : β → Option γ) (h : α → γ) (l : List α)
    (hh : ∀ x ∈ l, g (f x) = some (h x)) : (l.map f).filterMap g = l.map h := by
  induction l with
  | nil => rfl
  | cons a r ih =>
    simp only [List.map_cons, List.filterMap_cons, hh a (by simp)]
    rw [ih (fun x hx => hh x (by simp [hx]))]

/-- the output scaffold of a presented input scaffold: same name and rows; rank 3, no tag, no haplotype;
    it remembers the Pretext scaffold it came from -/
def presentOut (p : Piece) : Scaffold :=
  { name := p.sc.name, rows := p.sc.rows, tag := none, haplotype := none, rank := 3,
    originalName := some p.pname, originalTags := some [] }

/-- all scaffolds of the fused build: the presented ones in Pretext order, then the absent ones in input order -/
def outScaffolds (input : List Scaffold) (pieces : List Piece) : List Scaffold :=
  pieces.map presentOut ++ (absentOf input pieces).map absentOut

def presItem (jg : Option Gap) (p : Piece) : Item :=
  { key := (none, none, p.sc.name)
    proto := { name := p.sc.name, tag := none, haplotype := none, rank := 3,
               originalName := some p.pname, originalTags := some [] }
    rows := p.sc.rows
    add := fun built => Scaffold.appendRows built p.sc.rows jg }

def absItem (jg : Option Gap) (sc : Scaffold) : Item :=
  { key := (none, none, sc.name)
    proto := { name := sc.name, tag := none, haplotype := none, rank := 3, originalName := none, originalTags := none }
    rows := sc.rows
    add := fun built => built ++ gapsBeforeLeftover jg built none ++ sc.rows }

theorem presItem_add_nil (jg : Option Gap) (p : Piece) : (presItem jg p).add [] = (presItem jg p).rows :=
  appendRows_nil _ _

theorem absItem_add_nil (jg : Option Gap) (sc : Scaffold) : (absItem jg sc).add [] = (absItem jg sc).rows := by
  simp [absItem, gapsBeforeLeftover]

theorem itemOfRes_res (b : Build) (p : Piece) (hne : p.sc.rows ≠ []) : itemOfRes b p.res = some (presItem b.joinGap p) := by
  unfold itemOfRes
  have h1 : p.res.o.rows.isEmpty = false := by
    show p.sc.rows.isEmpty = false
    cases h : p.sc.rows <;> simp_all
  have h2 : ¬ (¬ p.res.added = true ∨ p.res.o.rows.isEmpty = true) := by
    rw [h1]; simp [Piece.res]
  rw [if_neg h2]
  rfl

theorem itemOfExtra_absent (b : Build) (sc : Scaffold) (hne : sc.rows ≠ []) :
    itemOfExtra b (absentOut sc, none) = some (absItem b.joinGap sc) := by
  unfold itemOfExtra
  have h1 : (absentOut sc, (none : Option (Fragment × List Gap))).1.rows.isEmpty = false := by
    show sc.rows.isEmpty = false
    cases h : sc.rows <;> simp_all
  rw [if_neg (by rw [h1]; simp)]
  rfl

theorem absentOf_mem {input : List Scaffold} {pieces : List Piece} {sc : Scaffold} (h : sc ∈ absentOf input pieces) :
    sc ∈ input ∧ isPresent pieces sc = false := by
  unfold absentOf at h
  simpa using h

theorem fuseByName_unedited (input : List Scaffold) (pieces : List Piece) (err : Int) (hu : Unedited input pieces err)
    (b : Build) (hstore : b.store = pieces.map Piece.res)
    (hextra : b.extra = (absentOf input pieces).map (fun sc => (absentOut sc, none))) :
    fuseByName b = outScaffolds input pieces := by
  rw [fuseByName_eq]
  unfold fuseAcc fuseItems
  rw [hstore, hextra]
  rw [filterMap_map_some Piece.res (itemOfRes b) (presItem b.joinGap) pieces
        (fun p hp => itemOfRes_res b p (hu.piecesOk p hp).wf.ne)]
  rw [filterMap_map_some (fun sc => (absentOut sc, (none : Option (Fragment × List Gap)))) (itemOfExtra b)
        (absItem b.joinGap) (absentOf input pieces)
        (fun sc hsc => itemOfExtra_absent b sc (hu.absent sc (absentOf_mem hsc).1 (absentOf_mem hsc).2).ne)]
  rw [foldl_fuseStep_fresh _ [] _ (by simp)]
  · simp only [List.nil_append, List.map_append, List.map_map, outScaffolds]
    rfl
  · intro it hit
    rcases List.mem_append.1 hit with h | h
    · obtain ⟨p, -, rfl⟩ := List.mem_map.1 h; exact presItem_add_nil _ _
    · obtain ⟨sc, -, rfl⟩ := List.mem_map.1 h; exact absItem_add_nil _ _
  · -- all keys different
    rw [List.map_append, List.nodup_append]
    refine ⟨?_, ?_, ?_⟩
    · have := hu.once
      rw [List.map_map]
      have e : (pieces.map ((fun (x : Item) => x.key) ∘ presItem b.joinGap)) =
          (pieces.map (·.sc.name)).map (fun n => ((none : Option Str), (none : Option Str), n)) := by
        rw [List.map_map]; rfl
      rw [e]
      exact List.Pairwise.map _ (fun a b h e => h (by simpa using e)) this
    · rw [List.map_map]
      have e : ((absentOf input pieces).map ((fun (x : Item) => x.key) ∘ absItem b.joinGap)) =
          ((absentOf input pieces).map (·.name)).map (fun n => ((none : Option Str), (none : Option Str), n)) := by
        rw [List.map_map]; rfl
      rw [e]
      have hn : ((absentOf input pieces).map (·.name)).Nodup := by
        unfold absentOf
        exact hu.names.sublist (List.Sublist.map _ List.filter_sublist)
      exact List.Pairwise.map _ (fun a b h e => h (by simpa using e)) hn
    · intro k1 h1 k2 h2 e
      simp only [List.map_map, List.mem_map, Function.comp] at h1 h2
      obtain ⟨p, hp, rfl⟩ := h1
      obtain ⟨sc, hsc, rfl⟩ := h2
      have hname : p.sc.name = sc.name := by
        simp only [presItem, absItem, Prod.mk.injEq, true_and] at e
        exact e
      have := (absentOf_mem hsc).2
      rw [(isPresent_iff pieces sc).2 ⟨p, hp, hname⟩] at this
      cases this

/-! ### the split into assemblies: everything is primary -/

structure PlainSc (s : Scaffold) : Prop where
  tag : s.tag = none
  hap : s.haplotype = none
  rank : s.rank = 3

theorem splitStep_plain (prefix_ : Str) (fs : List Scaffold) (k : Nat) (hk : k < fs.length) (hp : PlainSc fs[k])
    (asms : C09.Asms) :
    splitStep prefix_ (asms, [], [], fs) k = (C09.addAsm asms (none, true) k, [], [], fs) := by
  have hget : fs.getD k default = fs[k] := by
    rw [List.getD_eq_getElem?_getD, List.getElem?_eq_getElem hk]; rfl
  unfold splitStep C09.addAsm
  simp only [hget, hp.tag, hp.hap, hp.rank, truthy]
  simp

theorem splitFold_plain (prefix_ : Str) (fs : List Scaffold) (hp : ∀ s ∈ fs, PlainSc s) (k : Nat) (hk : k ≤ fs.length) :
    (List.range k).foldl (splitStep prefix_) ([], [], [], fs) =
      ((if k = 0 then [] else [(none, (true, List.range k))]), [], [], fs) := by
  induction k with
  | zero => rfl
  | succ k ih =>
    rw [List.range_succ, List.foldl_append, ih (by omega)]
    simp only [List.foldl_cons, List.foldl_nil]
    rw [splitStep_plain prefix_ fs k (by omega) (hp _ (List.getElem_mem _))]
    by_cases h0 : k = 0
    · subst h0; rfl
    · simp [h0, C09.addAsm, dGet?, dSet]

theorem range_map_getD {α} (l : List α) (d : α) : (List.range l.length).map (fun i => l.getD i d) = l := by
  apply List.ext_getElem
  · simp
  · intro i h1 h2
    simp only [List.getElem_map, List.getElem_range, List.getD_eq_getElem?_getD]
    rw [List.getElem?_eq_getElem (by simpa using h1)]; rfl

/-! ### statistics: no breaks, no joins -/

theorem junctionIn_of_fragments (A B : List Scaffold) (h : ∀ sc ∈ A, ∃ sc' ∈ B, sc'.fragments = sc.fragments)
    (j : Junction) (hj : JunctionIn A j) : JunctionIn B j := by
  obtain ⟨sc, hsc, pre, a, b, post, e, ht⟩ := hj
  obtain ⟨sc', hsc', ef⟩ := h sc hsc
  exact ⟨sc', hsc', pre, a, b, post, by rw [ef]; exact e, ht⟩

theorem junctionSet_ok_of_strands (sc : Scaffold) (h : ∀ f ∈ sc.fragments, f.strand = 1 ∨ f.strand = -1) :
    ∃ S, sc.junctionSet = .ok S := by
  obtain ⟨js, hjs⟩ := (C11.jf_ok_iff sc.fragments).2 (by
    intro pre a b post e
    exact ⟨h a (by rw [e]; simp), h b (by rw [e]; simp)⟩)
  exact ⟨_, (C11.junctionSet_ok_iff sc _).2 ⟨js, hjs, rfl⟩⟩

theorem sDiff_eq_nil {α} [DecidableEq α] (s t : List α) (h : ∀ x ∈ s, x ∈ t) : sDiff s t = [] := by
  unfold sDiff
  rw [List.filter_eq_nil_iff]
  intro x hx
  simp [h x hx]

/-- if input and output have the same junction tuples the statistics exist and count nothing -/
theorem makeStats_same (input : List Scaffold) (outs : List OutAsm) (cuts : Int)
    (hin : ∀ sc ∈ input, ∃ S, sc.junctionSet = .ok S)
    (hout : ∀ a ∈ outs, ∀ sc ∈ a.scaffolds, ∃ S, sc.junctionSet = .ok S)
    (hsame : ∀ j, JunctionIn input j ↔ JunctionInOuts outs j) :
    ∃ st, makeStats input outs cuts = .ok st ∧ st.cuts = cuts ∧ st.breaks = 0 ∧ st.joins = 0 := by
  obtain ⟨st, hst⟩ := (C11.makeStats_ok_iff input outs cuts).2 ⟨hin, hout⟩
  refine ⟨st, hst, ?_⟩
  obtain ⟨inSets, outSets, h1, h2, hc, hb, hj⟩ := C11.makeStats_ok input outs cuts st hst
  obtain ⟨-, hI⟩ := C11.junctionsByPrefix_spec input inSets h1
  obtain ⟨-, hO⟩ := C11.outSets_spec outs outSets h2
  have e1 : sDiff (C11.unionOf inSets) (C11.unionOf outSets) = [] := by
    apply sDiff_eq_nil
    intro j hj'
    rw [C11.mem_unionOf, hO, ← hsame, ← hI, ← C11.mem_unionOf]; exact hj'
  have e2 : sDiff (C11.unionOf outSets) (C11.unionOf inSets) = [] := by
    apply sDiff_eq_nil
    intro j hj'
    rw [C11.mem_unionOf, hI, hsame, ← hO, ← C11.mem_unionOf]; exact hj'
  rw [e1] at hb
  rw [e2] at hj
  exact ⟨hc, hb, hj⟩

/-! ### the output -/

theorem outScaffolds_plain (input : List Scaffold) (pieces : List Piece) : ∀ s ∈ outScaffolds input pieces, PlainSc s := by
  intro s hs
  unfold outScaffolds at hs
  rcases List.mem_append.1 hs with h | h
  · obtain ⟨p, -, rfl⟩ := List.mem_map.1 h; exact ⟨rfl, rfl, rfl⟩
  · obtain ⟨sc, -, rfl⟩ := List.mem_map.1 h; exact ⟨rfl, rfl, rfl⟩

/-- every input scaffold comes out (same name, same rows) and nothing else does -/
theorem outScaffolds_mem (input : List Scaffold) (pieces : List Piece) (err : Int) (hu : Unedited input pieces err)
    (nr : Str × List Row) :
    nr ∈ (outScaffolds input pieces).map (fun s => (s.name, s.rows)) ↔ nr ∈ input.map (fun s => (s.name, s.rows)) := by
  simp only [outScaffolds, List.map_append, List.map_map, List.mem_append, List.mem_map, Function.comp]
  constructor
  · rintro (⟨p, hp, rfl⟩ | ⟨sc, hsc, rfl⟩)
    · exact ⟨p.sc, (hu.piecesOk p hp).mem, rfl⟩
    · exact ⟨sc, (absentOf_mem hsc).1, rfl⟩
  · rintro ⟨sc, hsc, rfl⟩
    cases hpr : isPresent pieces sc with
    | true =>
      obtain ⟨p, hp, hname⟩ := (isPresent_iff pieces sc).1 hpr
      have : p.sc = sc := eq_of_name_eq input hu.names _ _ (hu.piecesOk p hp).mem hsc hname
      exact Or.inl ⟨p, hp, by rw [← this]; rfl⟩
    | false =>
      refine Or.inr ⟨sc, ?_, rfl⟩
      unfold absentOf
      simp [hsc, hpr]

theorem outScaffolds_names_nodup (input : List Scaffold) (pieces : List Piece) (err : Int) (hu : Unedited input pieces err) :
    ((outScaffolds input pieces).map (·.name)).Nodup := by
  unfold outScaffolds
  rw [List.map_append, List.nodup_append]
  refine ⟨?_, ?_, ?_⟩
  · rw [List.map_map]; exact hu.once
  · rw [List.map_map]
    unfold absentOf
    exact hu.names.sublist (List.Sublist.map _ List.filter_sublist)
  · intro a ha b hb e
    simp only [List.map_map, List.mem_map, Function.comp] at ha hb
    obtain ⟨p, hp, rfl⟩ := ha
    obtain ⟨sc, hsc, rfl⟩ := hb
    have := (absentOf_mem hsc).2
    rw [(isPresent_iff pieces sc).2 ⟨p, hp, e⟩] at this
    cases this

/-- the output scaffolds are the input scaffolds, compared on `(name, rows)`, in some order -/
theorem outScaffolds_perm (input : List Scaffold) (pieces : List Piece) (err : Int) (hu : Unedited input pieces err) :
    ((outScaffolds input pieces).map (fun s => (s.name, s.rows))).Perm (input.map (fun s => (s.name, s.rows))) := by
  have nd : ∀ l : List Scaffold, (l.map (·.name)).Nodup → (l.map (fun s => (s.name, s.rows))).Nodup := by
    intro l h
    have e : l.map (·.name) = (l.map (fun s => (s.name, s.rows))).map Prod.fst := by rw [List.map_map]; rfl
    rw [e] at h
    exact List.Pairwise.of_map Prod.fst (fun a b h e => h (by rw [e])) h
  exact (List.perm_ext_iff_of_nodup (nd _ (outScaffolds_names_nodup input pieces err hu)) (nd _ hu.names)).2
    (outScaffolds_mem input pieces err hu)

/-- **N4 on the build.** -/
theorem assembliesFused_unedited (input : List Scaffold) (pieces : List Piece) (err : Int) (hu : Unedited input pieces err)
    (hne : input ≠ []) (hstr : ∀ sc ∈ input, ∀ f ∈ sc.fragments, f.strand = 1 ∨ f.strand = -1)
    (b : Build) (hstore : b.store = pieces.map Piece.res)
    (hextra : b.extra = (absentOf input pieces).map (fun sc => (absentOut sc, none))) :
    ∃ st, assembliesFused input b =
        .ok ([{ key := none, curated := true, scaffolds := smartSorted (outScaffolds input pieces) }], st) ∧
      st.cuts = b.cuts ∧ st.breaks = 0 ∧ st.joins = 0 := by
  rw [assembliesFused_eq, fuseByName_unedited input pieces err hu b hstore hextra]
  have hplain := outScaffolds_plain input pieces
  have hlen : (outScaffolds input pieces).length ≠ 0 := by
    intro h0
    have hnil : outScaffolds input pieces = [] := List.eq_nil_of_length_eq_zero h0
    cases input with
    | nil => exact hne rfl
    | cons a r =>
      have := (outScaffolds_mem (a :: r) pieces err hu (a.name, a.rows)).2 (by simp)
      rw [hnil] at this; cases this
  unfold splitLoop
  rw [splitFold_plain _ _ hplain _ (Nat.le_refl _), if_neg hlen]
  unfold finishAssemblies
  -- same junctions in and out
  have hfr : ∀ sc ∈ input, ∃ sc' ∈ outScaffolds input pieces, sc'.fragments = sc.fragments := by
    intro sc hsc
    have := (outScaffolds_mem input pieces err hu (sc.name, sc.rows)).2 (List.mem_map.2 ⟨sc, hsc, rfl⟩)
    obtain ⟨s, hs, e⟩ := List.mem_map.1 this
    refine ⟨s, hs, ?_⟩
    simp only [Prod.mk.injEq] at e
    simp [Scaffold.fragments, e.2]
  have hfr' : ∀ s ∈ outScaffolds input pieces, ∃ sc ∈ input, sc.fragments = s.fragments := by
    intro s hs
    have := (outScaffolds_mem input pieces err hu (s.name, s.rows)).1 (List.mem_map.2 ⟨s, hs, rfl⟩)
    obtain ⟨sc, hsc, e⟩ := List.mem_map.1 this
    refine ⟨sc, hsc, ?_⟩
    simp only [Prod.mk.injEq] at e
    simp [Scaffold.fragments, e.2]
  have hperm : (smartSorted (outScaffolds input pieces)).Perm (outScaffolds input pieces) :=
    C20.stableSort_perm _ _
  obtain ⟨st, hst, hc, hb, hj⟩ := makeStats_same input
    [{ key := none, curated := true, scaffolds := smartSorted (outScaffolds input pieces) }] b.cuts
    (fun sc hsc => junctionSet_ok_of_strands sc (hstr sc hsc))
    (by
      intro a ha sc hsc
      simp only [List.mem_singleton] at ha
      subst ha
      obtain ⟨sc0, hsc0, e⟩ := hfr' sc (hperm.subset hsc)
      apply junctionSet_ok_of_strands
      rw [← e]; exact hstr sc0 hsc0)
    (by
      intro j
      simp only [JunctionInOuts, List.mem_singleton, exists_eq_left]
      constructor
      · intro h
        exact junctionIn_of_fragments _ _ (fun sc hsc => by
          obtain ⟨s, hs, e⟩ := hfr sc hsc
          exact ⟨s, hperm.symm.subset hs, e⟩) j h
      · intro h
        exact junctionIn_of_fragments _ _ (fun s hs => hfr' s (hperm.subset hs)) j h)
  refine ⟨st, ?_, hc, hb, hj⟩
  simp only [List.isEmpty_nil, if_true, pure, Except.pure, bind, Except.bind, List.mapM_cons, List.mapM_nil,
    range_map_getD, C20.smartSort_eq', hst]

end AgpTpf.C08
