/-
  C10 uniqueness (W5), part 10: `find_assembly_overlaps` keeps the store invariant.
-/
import AgpTpf.Proofs.C10UStore
namespace AgpTpf.C10U
open AgpTpf

/-- a fresh lookup result carries no tag -/
theorem findOverlaps_tag_none (rows : List Row) (bait : Fragment) (o : OverlapResult)
    (h : findOverlaps rows bait = .ok (some o)) : o.tag = none := by
  unfold findOverlaps at h
  split at h
  · cases h
  · simp only [] at h
    split at h
    · cases h
    · simp only [bind, Except.bind, pure, Except.pure] at h
      repeat' split at h
      all_goals first | (cases h; rfl) | cases h

/-- one Pretext fragment -/
theorem processBait_step {TG : Par} {p : Str} {N : List Str} {c : Str} (input : List Scaffold) (scTags : List Str)
    (orig : Str) (frs : List Fragment) (b b' : Build) (bait : Fragment) (hfr : bait ∈ frs)
    (hF : FInv TG p N b) (hU : UInv TG p N c b) (hctx : CtxOk TG p N b.namer orig scTags frs c)
    (h : processBait input scTags orig b bait = .ok b') :
    FInv TG p N b' ∧ UInv TG p N c b' ∧ CtxOk TG p N b'.namer orig scTags frs c ∧
    (∃ sc ∈ input, sc.name = bait.name) ∧ SameCore b.namer b'.namer ∧ b'.extra = b.extra := by
  unfold processBait at h
  simp only [bind, Except.bind] at h
  split at h
  · cases h
  · next sc hsc =>
    have hin := C01.lookupScaffold_ok input bait.name sc hsc
    split at h
    · cases h
    · next fo hfo =>
      split at h
      · simp only [pure, Except.pure, Except.ok.injEq] at h; subst h
        exact ⟨hF, hU, hctx, ⟨sc, hin.1, hin.2⟩, SameCore.refl _, rfl⟩
      · next o0 =>
        have ht0 := findOverlaps_tag_none _ _ _ hfo
        split at h
        · cases h
        · next v hv =>
          obtain ⟨n, o1⟩ := v
          have hout := label_out hctx hfr ht0 hv
          simp only at h
          split at h
          · cases h
          · next o2 ho2 =>
            obtain ⟨hf, hnm⟩ := trimLargeOverhangs_fixed _ _ _ ho2
            split at h
            · simp only [pure, Except.pure, Except.ok.injEq] at h
              subst h
              obtain ⟨a1, a2⟩ := append_inv b { b with namer := n, store := b.store ++ [{ o := o2, added := false }] }
                { o := o2, added := false } o1 hF hU rfl hf hnm hout
              exact ⟨a1, a2, hctx.of_sameCore hout.same, ⟨sc, hin.1, hin.2⟩, hout.same, rfl⟩
            · simp only [pure, Except.pure, Except.ok.injEq] at h
              subst h
              rw [C01.storeFragmentsFound_eq]
              obtain ⟨g1, g2, g3, _⟩ := C01.foldl_storeOne_other_fields b.store.length (fragmentsOf o2.rows)
                { b with namer := n, store := b.store ++ [{ o := o2, added := true }] }
              obtain ⟨a1, a2⟩ := append_inv b _ { o := o2, added := true } o1 hF hU g1 hf hnm (by rw [g3]; exact hout)
              exact ⟨a1, a2, by rw [g3]; exact hctx.of_sameCore hout.same, ⟨sc, hin.1, hin.2⟩,
                by rw [g3]; exact hout.same, g2⟩

theorem SameCore.trans {a b c : Namer} (h1 : SameCore a b) (h2 : SameCore b c) : SameCore a c :=
  ⟨h2.1.trans h1.1, h2.2.1.trans h1.2.1, h2.2.2.1.trans h1.2.2.1, h2.2.2.2.1.trans h1.2.2.2.1,
   h2.2.2.2.2.1.trans h1.2.2.2.2.1, h2.2.2.2.2.2.1.trans h1.2.2.2.2.2.1, h2.2.2.2.2.2.2.trans h1.2.2.2.2.2.2⟩

/-- all fragments of one Pretext scaffold -/
theorem processBaits_step {TG : Par} {p : Str} {N : List Str} {c : Str} (input : List Scaffold) (scTags : List Str)
    (orig : Str) (frs : List Fragment) : ∀ (l : List Fragment) (b b' : Build), (∀ f ∈ l, f ∈ frs) →
    FInv TG p N b → UInv TG p N c b → CtxOk TG p N b.namer orig scTags frs c →
    l.foldlM (processBait input scTags orig) b = .ok b' →
    FInv TG p N b' ∧ UInv TG p N c b' ∧ (∀ f ∈ l, ∃ sc ∈ input, sc.name = f.name) ∧ SameCore b.namer b'.namer ∧
    b'.extra = b.extra := by
  intro l
  induction l with
  | nil =>
    intro b b' _ hF hU _ h
    simp only [List.foldlM_nil, pure, Except.pure, Except.ok.injEq] at h; subst h
    exact ⟨hF, hU, fun f hf => (by cases hf), SameCore.refl _, rfl⟩
  | cons f r ih =>
    intro b b' hsub hF hU hctx h
    rw [List.foldlM_cons, C17.bind_eq_ok] at h
    obtain ⟨b1, h1, h2⟩ := h
    obtain ⟨a1, a2, a3, a4, a5, a6⟩ := processBait_step input scTags orig frs b b1 f (hsub f (by simp)) hF hU hctx h1
    obtain ⟨c1, c2, c3, c4, c5⟩ := ih b1 b' (fun g hg => hsub g (by simp [hg])) a1 a2 a3 h2
    refine ⟨c1, c2, ?_, a5.trans c4, c5.trans a6⟩
    intro g hg
    rcases List.mem_cons.1 hg with e | hg
    · subst e; exact a4
    · exact c3 g hg

/-! ### the namer state of one Pretext scaffold -/

theorem firstRowName_ok (rows : List Row) (nm : Str) (h : firstRowName rows = .ok nm) :
    ∃ f r, rows = .frag f :: r ∧ f.name = nm := by
  unfold firstRowName at h
  simp only [bind, Except.bind] at h
  cases rows with
  | nil => simp [pyGet] at h
  | cons x r =>
    rw [C10.pyGet_zero] at h
    simp only at h
    cases x with
    | frag f => simp only [pure, Except.pure, Except.ok.injEq] at h; exact ⟨f, r, rfl, h⟩
    | gap g => cases h

theorem mem_fragNames (l : List Scaffold) (s : Scaffold) (hs : s ∈ l) (f : Fragment) (hf : f ∈ s.fragments) :
    f.name ∈ C10.fragNames l := by
  unfold C10.fragNames
  exact List.mem_flatMap.2 ⟨s, hs, List.mem_map.2 ⟨f, hf, rfl⟩⟩

/-- the namer state left by `make_scaffold_name` satisfies `CtxOk`, given the hypotheses of the theorem (`htag`: the
    condition on Contaminant / FalseDuplicate pieces, supplied by whichever clause 7 is assumed) -/
theorem ctxOk_of_facts {TG : Par} (input ptx : List Scaffold) (p : Str) (H : C10.NamesOutsideGenerated input ptx p)
    (ps : Scaffold) (hps : ps ∈ ptx) (n n' : Namer)
    (hfacts : NameFacts n n' ps.name ps.rows ps.fragmentTags)
    (hfirst : ∀ c, firstRowName ps.rows = .ok c → ∃ sc ∈ input, sc.name = c)
    (htag : ∀ c, n'.currentScaffoldName = some c →
      ∀ tg, (tg = some sContaminant ∨ tg = some sFalseDuplicate) → ∀ suf, SufOk suf →
      (suf = [] ∨ ps.fragmentTags.contains sPainted = true) →
      (specialPiece ps.fragments = true ∨ (n'.targetTags = true ∧ ¬ ps.fragmentTags.contains sTarget = true)) →
      TG.Q { name := c ++ suf, tag := tg, haplotype := n'.currentHaplotype, rank := 3, originalName := some ps.name,
             originalTags := some ps.fragmentTags }) :
    ∃ c, CtxOk TG p (ptx.map (·.name)) n' ps.name ps.fragmentTags ps.fragments c := by
  obtain ⟨c, hc, hcases⟩ := hfacts.cur
  refine ⟨c, hc, hfacts.hap, htag c hc, ?_⟩
  · intro suf hsuf hpaint
    refine ⟨hfacts.hap.ne_nil, hfacts.hap.not_tagWord, Or.inl rfl, fun h => absurd rfl h, ?_, ?_, ?_⟩
    · intro _ hr1
      simp only at hr1
      rcases hcases with ⟨h2, _⟩ | ⟨_, hcn, hpa⟩ | ⟨h3, _⟩
      · rw [h2] at hr1; exact absurd hr1 (by decide)
      · subst hcn
        exact ⟨ps.name, suf, rfl, List.mem_map.2 ⟨ps, hps, rfl⟩, rfl, hsuf,
          unlocFree_of_name _ (H.paintedNamesUnlocFree ps hps hpa)⟩
      · rw [h3] at hr1; exact absurd hr1 (by decide)
    · intro _ hr2
      simp only at hr2
      rcases hcases with ⟨_, hct, hchr⟩ | ⟨h1, _⟩ | ⟨h3, _⟩
      · exact ⟨c, suf, rfl, hchr, H.chrTagsNotNumLetter ps hps c hct hchr, hsuf,
          prefixFree_spec p c (H.chrTagsPrefixFree ps hps c hct hchr) suf hsuf⟩
      · rw [h1] at hr2; exact absurd hr2 (by decide)
      · rw [h3] at hr2; exact absurd hr2 (by decide)
    · intro _ hr1 hr2
      simp only at hr1 hr2
      rcases hcases with ⟨h2, _⟩ | ⟨h1, _⟩ | ⟨_, hfr, hnp⟩
      · exact absurd h2 hr2
      · exact absurd h1 hr1
      · have hs : suf = [] := by
          rcases hpaint with h | h
          · exact h
          · exfalso; apply hnp; rw [← List.contains_iff_mem]; exact h
        subst hs
        obtain ⟨sc, hsc, hn⟩ := hfirst c hfr
        simp only [List.append_nil]
        rw [← hn]; exact H.inputOutsidePrefix sc hsc

end AgpTpf.C10U
