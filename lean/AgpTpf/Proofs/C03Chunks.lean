/-
  Chunk arithmetic of `fwd_chunks`, `rev_chunks`, `get_gap_iter` (fasta/index.py) — helper lemmas for C03 / C13.
-/
import AgpTpf.Model.Fasta
namespace AgpTpf.ChunkProofs
open AgpTpf

/-- `Tiles bs a stop l`: `l` is a list of consecutive non-empty closed intervals, each at most `bs` long, the first
    starting at `a`, each next one starting right after the previous one, the last one ending at `stop`
    (`[]` tiles only the empty range `a = stop + 1`). -/
def Tiles (bs : Int) : Int → Int → List (Int × Int) → Prop
  | a, stop, [] => a = stop + 1
  | a, stop, c :: r => c.1 = a ∧ c.1 ≤ c.2 ∧ c.2 - c.1 + 1 ≤ bs ∧ c.2 ≤ stop ∧ Tiles bs (c.2 + 1) stop r

theorem chunkBounds_succ (start stop bs : Int) (i : Nat) :
    chunkBounds start stop bs (i + 1) = chunkBounds (start + bs) stop bs i := by
  unfold chunkBounds
  have : start + ((i + 1 : Nat) : Int) * bs = start + bs + (i : Int) * bs := by grind
  simp only [this]

theorem map_chunkBounds_succ (start stop bs : Int) (n : Nat) :
    (List.range (n + 1)).map (chunkBounds start stop bs)
      = chunkBounds start stop bs 0 :: (List.range n).map (chunkBounds (start + bs) stop bs) := by
  rw [List.range_succ_eq_map, List.map_cons, List.map_map]
  congr 1
  apply List.map_congr_left
  intro i _
  simp [Function.comp, chunkBounds_succ]

theorem tiles_range (bs stop : Int) (hbs : 1 ≤ bs) :
    ∀ (n : Nat) (start : Int), start + (n : Int) * bs ≤ stop → stop < start + (n : Int) * bs + bs →
      Tiles bs start stop ((List.range (n + 1)).map (chunkBounds start stop bs)) := by
  intro n
  induction n with
  | zero =>
    intro start h1 h2
    simp [chunkBounds, Tiles]
    omega
  | succ n ih =>
    intro start h1 h2
    rw [map_chunkBounds_succ]
    have e : ((n + 1 : Nat) : Int) * bs = (n : Int) * bs + bs := by grind
    rw [e] at h1 h2
    have hn : 0 ≤ (n : Int) * bs := Int.mul_nonneg (by omega) (by omega)
    refine ⟨?_, ?_, ?_, ?_, ?_⟩
    · simp [chunkBounds]
    · simp [chunkBounds]; omega
    · simp [chunkBounds]; omega
    · simp [chunkBounds]; omega
    · have : (chunkBounds start stop bs 0).2 + 1 = start + bs := by
        simp [chunkBounds]; omega
      rw [this]
      apply ih <;> omega

/-- floor division facts for a positive divisor, in the form `omega` can use. -/
theorem pyDiv_spec (a b : Int) (hb : 1 ≤ b) :
    pyDiv a b * b ≤ a ∧ a < pyDiv a b * b + b := by
  unfold pyDiv
  rw [Int.fdiv_eq_ediv_of_nonneg _ (by omega)]
  have h1 := Int.emod_nonneg a (show b ≠ 0 by omega)
  have h2 := Int.emod_lt_of_pos a (show 0 < b by omega)
  have h3 := Int.ediv_mul_add_emod a b
  constructor <;> omega

theorem pyDiv_nonneg (a b : Int) (ha : 0 ≤ a) (hb : 1 ≤ b) : 0 ≤ pyDiv a b := by
  unfold pyDiv
  rw [Int.fdiv_eq_ediv_of_nonneg _ (by omega)]
  exact Int.ediv_nonneg ha (by omega)

theorem pyDiv_neg (a b : Int) (ha : a < 0) (hb : 1 ≤ b) : pyDiv a b < 0 := by
  unfold pyDiv
  rw [Int.fdiv_eq_ediv_of_nonneg _ (by omega)]
  exact Int.ediv_neg_of_neg_of_pos ha (by omega)

/-- the forward chunk list as `range (n+1)` with `n = (stop - start) // bs`. -/
theorem fwdChunkList_eq (start stop bs : Int) (hbs : 1 ≤ bs) (h : start ≤ stop) :
    fwdChunkList start stop bs
      = (List.range ((pyDiv (stop - start) bs).toNat + 1)).map (chunkBounds start stop bs) := by
  unfold fwdChunkList
  have := pyDiv_nonneg (stop - start) bs (by omega) hbs
  have e : (1 + pyDiv (stop - start) bs).toNat = (pyDiv (stop - start) bs).toNat + 1 := by omega
  simp only [e]

theorem fwdChunkList_tiles (start stop bs : Int) (hbs : 1 ≤ bs) (h : start ≤ stop) :
    Tiles bs start stop (fwdChunkList start stop bs) := by
  rw [fwdChunkList_eq start stop bs hbs h]
  have h0 := pyDiv_nonneg (stop - start) bs (by omega) hbs
  have ⟨h1, h2⟩ := pyDiv_spec (stop - start) bs hbs
  have e : (((pyDiv (stop - start) bs).toNat : Nat) : Int) = pyDiv (stop - start) bs := by omega
  apply tiles_range bs stop hbs
  · rw [e]; omega
  · rw [e]; omega

theorem fwdChunkList_ne_nil (start stop bs : Int) (hbs : 1 ≤ bs) (h : start ≤ stop) :
    fwdChunkList start stop bs ≠ [] := by
  rw [fwdChunkList_eq start stop bs hbs h]
  simp [List.range_succ]

theorem revChunkList_eq_reverse (start stop bs : Int) (hbs : 1 ≤ bs) (h : start ≤ stop) :
    revChunkList start stop bs = (fwdChunkList start stop bs).reverse := by
  rw [fwdChunkList_eq start stop bs hbs h]
  unfold revChunkList
  have h0 := pyDiv_nonneg (stop - start) bs (by omega) hbs
  simp only [show ¬ (pyDiv (stop - start) bs < 0) by omega, if_false, List.map_reverse]

/-! ### consequences of `Tiles` -/

theorem Tiles.size_le {bs : Int} : ∀ {l : List (Int × Int)} {a stop : Int}, Tiles bs a stop l →
    ∀ c ∈ l, 1 ≤ c.2 - c.1 + 1 ∧ c.2 - c.1 + 1 ≤ bs
  | [], _, _, _, c, hc => by cases hc
  | d :: r, a, stop, ht, c, hc => by
    obtain ⟨h1, h2, h3, _, h4⟩ := ht
    rcases List.mem_cons.mp hc with rfl | hc
    · omega
    · exact Tiles.size_le h4 c hc

theorem Tiles.within {bs : Int} : ∀ {l : List (Int × Int)} {a stop : Int}, Tiles bs a stop l →
    ∀ c ∈ l, a ≤ c.1 ∧ c.1 ≤ c.2 ∧ c.2 ≤ stop
  | [], _, _, _, c, hc => by cases hc
  | d :: r, a, stop, ht, c, hc => by
    obtain ⟨h1, h2, h3, h5, h4⟩ := ht
    rcases List.mem_cons.mp hc with rfl | hc
    · omega
    · have := Tiles.within h4 c hc
      omega

/-- the first chunk starts at `a`, the last one ends at `stop` -/
theorem Tiles.head {bs : Int} {l : List (Int × Int)} {a stop : Int} (h : Tiles bs a stop l) (hne : l ≠ []) :
    (l.head hne).1 = a := by
  cases l with
  | nil => exact absurd rfl hne
  | cons d r => exact h.1

theorem Tiles.last {bs : Int} : ∀ {l : List (Int × Int)} {a stop : Int}, Tiles bs a stop l → (hne : l ≠ []) →
    (l.getLast hne).2 = stop
  | [], _, _, _, hne => absurd rfl hne
  | [d], a, stop, ht, _ => by
    obtain ⟨h1, h2, h3, _, h4⟩ := ht
    simp only [Tiles] at h4
    simp only [List.getLast_singleton]; omega
  | d :: e :: r, a, stop, ht, _ => by
    rw [List.getLast_cons (by simp)]
    exact Tiles.last ht.2.2.2.2 (by simp)

/-- each chunk starts right after the previous one -/
theorem Tiles.consecutive {bs : Int} : ∀ {l : List (Int × Int)} {a stop : Int}, Tiles bs a stop l →
    ∀ k (h : k + 1 < l.length), (l[k + 1]).1 = (l[k]).2 + 1
  | [], _, _, _, k, h => by simp at h
  | [d], _, _, _, k, h => by simp at h
  | d :: e :: r, a, stop, ht, k, h => by
    cases k with
    | zero => exact ht.2.2.2.2.1
    | succ k => exact Tiles.consecutive ht.2.2.2.2 k (by simpa using h)

/-- total size of a tiling = size of the tiled range -/
theorem Tiles.sum {bs : Int} : ∀ {l : List (Int × Int)} {a stop : Int}, Tiles bs a stop l →
    sumInts (l.map (fun c => c.2 - c.1 + 1)) = stop - a + 1
  | [], a, stop, ht => by simp [Tiles] at ht; simp [sumInts]; omega
  | d :: r, a, stop, ht => by
    obtain ⟨h1, h2, h3, _, h4⟩ := ht
    have := Tiles.sum h4
    simp only [List.map_cons, sumInts, this]
    omega

/-- Gluing: any interval-indexed family `sl` that is additive on adjacent intervals
    (`sl a b ++ sl (b+1) c = sl a c`) glues over a tiling to the value on the whole range. -/
theorem Tiles.glue {bs : Int} (sl : Int → Int → List Nat) (lo : Int)
    (hadd : ∀ a b c, lo ≤ a → a ≤ b → b ≤ c → sl a b ++ sl (b + 1) c = sl a c) :
    ∀ {l : List (Int × Int)} {a stop : Int}, lo ≤ a → Tiles bs a stop l → l ≠ [] →
      (l.map (fun c => sl c.1 c.2)).flatten = sl a stop
  | [], _, _, _, _, hne => absurd rfl hne
  | [d], a, stop, _, ht, _ => by
    obtain ⟨h1, h2, h3, _, h4⟩ := ht
    simp only [Tiles] at h4
    have : d.2 = stop := by omega
    simp [h1, this]
  | d :: e :: r, a, stop, hlo, ht, _ => by
    obtain ⟨h1, h2, h3, h5, h4⟩ := ht
    have ih := Tiles.glue sl lo hadd (by omega) h4 (by simp)
    have hw := Tiles.within h4 e (by simp)
    rw [List.map_cons, List.flatten_cons, ih, ← h1]
    apply hadd <;> omega

/-! ### gap chunks -/

def gapChunk (length bs : Int) (i : Nat) : Int :=
  let cs : Int := (i : Int) * bs; let ce := min length (cs + bs); max 0 (ce - cs)

theorem gapChunkList_eq (length bs : Int) :
    gapChunkList length bs = (List.range (1 + pyDiv length bs).toNat).map (gapChunk length bs) := rfl

theorem gapChunk_succ (length bs : Int) (i : Nat) :
    gapChunk length bs (i + 1) = gapChunk (length - bs) bs i := by
  unfold gapChunk
  have : ((i + 1 : Nat) : Int) * bs = (i : Int) * bs + bs := by grind
  simp only [this]
  omega

theorem gap_range (bs : Int) (hbs : 1 ≤ bs) :
    ∀ (n : Nat) (len : Int), (n : Int) * bs ≤ len → len < (n : Int) * bs + bs →
      sumInts ((List.range (n + 1)).map (gapChunk len bs)) = len ∧
      ∀ c ∈ (List.range (n + 1)).map (gapChunk len bs), 0 ≤ c ∧ c ≤ bs := by
  intro n
  induction n with
  | zero =>
    intro len h1 h2
    simp [gapChunk, sumInts]
    omega
  | succ n ih =>
    intro len h1 h2
    have e : ((n + 1 : Nat) : Int) * bs = (n : Int) * bs + bs := by grind
    rw [e] at h1 h2
    have hn : 0 ≤ (n : Int) * bs := Int.mul_nonneg (by omega) (by omega)
    have hm : (List.range (n + 1 + 1)).map (gapChunk len bs)
        = gapChunk len bs 0 :: (List.range (n + 1)).map (gapChunk (len - bs) bs) := by
      rw [List.range_succ_eq_map, List.map_cons, List.map_map]
      congr 1
      apply List.map_congr_left
      intro i _
      simp [Function.comp, gapChunk_succ]
    have ⟨ih1, ih2⟩ := ih (len - bs) (by omega) (by omega)
    have h0 : gapChunk len bs 0 = bs := by simp [gapChunk]; omega
    rw [hm]
    constructor
    · simp only [sumInts, ih1, h0]; omega
    · intro c hc
      rcases List.mem_cons.mp hc with rfl | hc
      · omega
      · exact ih2 c hc

theorem gapChunkList_spec (len bs : Int) (hbs : 1 ≤ bs) :
    sumInts (gapChunkList len bs) = max 0 len ∧ ∀ c ∈ gapChunkList len bs, 0 ≤ c ∧ c ≤ bs := by
  rw [gapChunkList_eq]
  by_cases hl : 0 ≤ len
  · have h0 := pyDiv_nonneg len bs hl hbs
    have ⟨h1, h2⟩ := pyDiv_spec len bs hbs
    have e : (1 + pyDiv len bs).toNat = (pyDiv len bs).toNat + 1 := by omega
    have e' : (((pyDiv len bs).toNat : Nat) : Int) = pyDiv len bs := by omega
    rw [e]
    have := gap_range bs hbs (pyDiv len bs).toNat len (by rw [e']; omega) (by rw [e']; omega)
    rw [this.1]
    exact ⟨by omega, this.2⟩
  · have h0 := pyDiv_neg len bs (by omega) hbs
    have e : (1 + pyDiv len bs).toNat = 0 := by omega
    rw [e]
    simp [sumInts]
    omega

end AgpTpf.ChunkProofs
