/-
  C02 (script model), part 8: `errLen p q = 1 + ⌊p/q⌋` is what the remapper computes (`errLengthOfText`) from the decimal
  text of β in the Pretext header, when that text denotes β exactly.
-/
import AgpTpf.Proofs.C02SArith
import AgpTpf.Proofs.C02Err
namespace AgpTpf.C02
open AgpTpf AgpTpf.Pretext

theorem digitVal_le (c : Char) (h : isDigit c = true) : digitVal c ≤ 9 := by
  unfold isDigit at h
  simp only [Bool.and_eq_true, decide_eq_true_eq] at h
  have h2 : c.toNat ≤ '9'.toNat := by
    have := h.2
    rw [Char.le_def, UInt32.le_iff_toNat_le] at this
    exact this
  unfold digitVal
  have : '9'.toNat = 57 := by decide
  have : '0'.toNat = 48 := by decide
  omega

/-- a string of `k` digits is worth less than `10^k` (on top of the accumulator) -/
theorem digitsVal_lt (fr : Str) (h : AllDigits fr) (acc : Nat) : digitsVal acc fr < (acc + 1) * 10 ^ fr.length := by
  induction fr generalizing acc with
  | nil => show acc < (acc + 1) * 10 ^ 0; rw [Nat.pow_zero]; omega
  | cons c cs ih =>
    have hc := digitVal_le c (h c (by simp))
    have := ih (fun x hx => h x (by simp [hx])) (acc * 10 + digitVal c)
    show digitsVal (acc * 10 + digitVal c) cs < (acc + 1) * 10 ^ (cs.length + 1)
    rw [Nat.pow_succ]
    have h3 : (acc * 10 + digitVal c + 1) * 10 ^ cs.length ≤ (acc + 1) * (10 ^ cs.length * 10) := by
      rw [← Nat.mul_assoc, Nat.mul_right_comm]
      exact Nat.mul_le_mul_right _ (by omega)
    exact Nat.lt_of_lt_of_le this h3

/-- the value of β does not depend on how the fraction is written -/
theorem errLen_congr (p q p' q' : Nat) (hq : 0 < q) (hq' : 0 < q') (h : p * q' = p' * q) : errLen p q = errLen p' q' := by
  unfold errLen
  have h1 : p / q = p * q' / (q * q') := (Nat.mul_div_mul_right p q hq').symm
  have h2 : p' / q' = p' * q / (q * q') := by rw [Nat.mul_comm q q']; exact (Nat.mul_div_mul_right p' q' hq).symm
  rw [h1, h2, h]

/-- **the link**: the header text `n.fr` (decimal digits `fr`) denotes `β = (n·10^k + val fr) / 10^k`, `k = |fr|`, exactly;
    the remapper's error length for it is `errLen` of that fraction -/
theorem errLen_of_decimal_text (n : Nat) (fr : Str) (hf : ∀ c ∈ fr, isDigit c = true) :
    errLengthOfText (natToStr n ++ '.' :: fr) =
      .ok ((errLen (n * 10 ^ fr.length + digitsVal 0 fr) (10 ^ fr.length) : Nat) : Int) := by
  rw [errLength_frac (allDigits_natToStr n) hf (Or.inl (C05.natToStr_ne_nil n)), C05.digitsVal_natToStr]
  have hlt := digitsVal_lt fr hf 0
  rw [Nat.zero_add, Nat.one_mul] at hlt
  have hP : 0 < 10 ^ fr.length := Nat.pos_of_ne_zero (by intro e; rw [e] at hlt; omega)
  unfold errLen
  rw [Nat.add_comm (n * 10 ^ fr.length), Nat.add_mul_div_right _ _ hP, Nat.div_eq_of_lt hlt]
  simp

/-- an integer header text `n` denotes `β = n/1` -/
theorem errLen_of_integer_text (n : Nat) :
    errLengthOfText (natToStr n) = .ok ((errLen n 1 : Nat) : Int) := by
  rw [errLength_int (allDigits_natToStr n) (C05.natToStr_ne_nil n), C05.digitsVal_natToStr]
  unfold errLen
  simp

/-- for ANY way `p/q` of writing the number the text `n.fr` denotes -/
theorem errLen_of_text (p q n : Nat) (fr : Str) (hq : 0 < q) (hf : ∀ c ∈ fr, isDigit c = true)
    (hexact : p * 10 ^ fr.length = (n * 10 ^ fr.length + digitsVal 0 fr) * q) :
    errLengthOfText (natToStr n ++ '.' :: fr) = .ok ((errLen p q : Nat) : Int) := by
  rw [errLen_of_decimal_text n fr hf]
  have hP : 0 < 10 ^ fr.length := Nat.pos_of_ne_zero (by
    intro e
    have hlt := digitsVal_lt fr hf 0
    rw [e] at hlt; omega)
  rw [errLen_congr p q _ _ hq hP hexact]

end AgpTpf.C02
