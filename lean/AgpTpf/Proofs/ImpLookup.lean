/-
  T1c tie for `IndexedAssembly.find_overlaps`: the loops of the translated source (`Gen.Imp.IndexedAssembly_find_overlaps`,
  over `PyRt.whileLoop` / `PyRt.forIn`) compute what the model's recursive functions (`bsearch`, `extendLeft`, `extendRight`,
  `skipGapsRight`, `skipGapsLeft`, `pySlice`, Model/Lookup.lean) compute.

  Every loop lemma is stated for an ARBITRARY condition / body, described only by what one pass does on in-range values
  (hypotheses `hcond` / `hbody`), so the main proof never mentions the generated lambda terms: it discharges `hcond` / `hbody`
  by `simp` + `omega`.
-/
import AgpTpf.Gen.Imp
import AgpTpf.Proofs.C12
namespace AgpTpf.ImpLookup
open AgpTpf AgpTpf.PyRt

/-! ### index reads -/

theorem pyGet_idxAt (idx : List Int) (k : Nat) (h : k < idx.length) : pyGet idx (k : Int) = .ok (idxAt idx k) := by
  rw [C12.pyGet_nat idx k h]
  simp [idxAt, List.getD, List.getElem?_eq_getElem h]

/-- `idx[m - 1]` for a positive in-range `m` -/
theorem pyGet_pred (idx : List Int) (m : Nat) (h0 : m ≠ 0) (h : m ≤ idx.length) :
    pyGet idx ((m : Int) - 1) = .ok (idxAt idx (m - 1)) := by
  have e : (m : Int) - 1 = ((m - 1 : Nat) : Int) := by omega
  rw [e, pyGet_idxAt idx (m - 1) (by omega)]

/-- Python's `x // 2` is Lean's `x / 2` on `Int` (floor = Euclidean division for a positive divisor): after this rewrite
    `omega` decides any equation between midpoint expressions (`a + (z - a)//2`, `(a + z)//2`, …) -/
theorem pyDiv_two_ediv (x : Int) : pyDiv x 2 = x / 2 := by
  unfold pyDiv
  exact Int.fdiv_eq_ediv_of_nonneg _ (by omega)

/-- `pyDiv (z - a) 2` on naturals `a ≤ z` is `Nat` division -/
theorem pyDiv_two (a z : Nat) (h : a ≤ z) : pyDiv ((z : Int) - (a : Int)) 2 = (((z - a) / 2 : Nat) : Int) := by
  rw [pyDiv_two_ediv]
  omega

/-! ### the binary search -/

/-- the values of `a`, `z` when the `while a < z` loop is over (the source keeps them; nothing reads them afterwards) -/
def bsFinal (idx : List Int) (bs be : Int) (a z : Nat) : Nat × Nat :=
  if h : a < z then
    let m := a + (z - a) / 2
    if idxAt idx m < bs then bsFinal idx bs be (m + 1) z
    else if rowStart idx m > be then bsFinal idx bs be a m
    else (a, z)
  else (a, z)
termination_by z - a
decreasing_by all_goals omega

/-- one pass of the source's search loop, on in-range naturals.  `mk a z ovr` packs the three variables the loop carries
    into the loop state (the translator emits them sorted by type, then by name — `(ovr, a, z)`; nothing here depends on the order). -/
def bsStep {σ : Type} (mk : Int → Int → Option Int → σ) (idx : List Int) (bs be : Int) (a z : Nat) (o : Option Int) :
    Ctl σ (Option OverlapResult) :=
  let m := a + (z - a) / 2
  if idxAt idx m < bs then .next (mk ((m + 1 : Nat) : Int) (z : Int) o)
  else if rowStart idx m > be then .next (mk (a : Int) (m : Int) o)
  else .brk (mk (a : Int) (z : Int) (some (m : Int)))

theorem whileLoop_bsearch {σ : Type} (mk : Int → Int → Option Int → σ) (idx : List Int) (bs be : Int)
    (cond : σ → R Bool)
    (body : σ → R (Ctl σ (Option OverlapResult)))
    (hcond : ∀ (a z : Int) o, cond (mk a z o) = .ok (decide (a < z)))
    (hbody : ∀ (a z : Nat) o, a < z → z ≤ idx.length → body (mk (a : Int) (z : Int) o) = .ok (bsStep mk idx bs be a z o))
    (fuel a z : Nat) (hz : z ≤ idx.length) (hfuel : z - a < fuel)
    (s : σ) (hs : s = mk (a : Int) (z : Int) (none : Option Int)) :
    whileLoop fuel s cond body =
      .ok (.fell (mk ((bsFinal idx bs be a z).1 : Int) ((bsFinal idx bs be a z).2 : Int)
                  ((bsearch idx bs be a z).map Int.ofNat))) := by
  subst hs
  induction fuel generalizing a z with
  | zero => omega
  | succ fuel ih =>
    unfold whileLoop
    rw [hcond]
    unfold bsFinal bsearch
    by_cases h : a < z
    · have h' : ((a : Int) < (z : Int)) := by omega
      simp only [h', decide_true, h, dite_true]
      rw [hbody a z none h hz]
      unfold bsStep
      dsimp only
      by_cases h1 : idxAt idx (a + (z - a) / 2) < bs
      · simp only [h1, if_true]
        exact ih _ _ hz (by omega)
      · simp only [h1, if_false]
        by_cases h2 : rowStart idx (a + (z - a) / 2) > be
        · simp only [h2, if_true]
          exact ih _ _ (by omega) (by omega)
        · simp only [h2, if_false]
          rfl
    · have h' : ¬ ((a : Int) < (z : Int)) := by omega
      simp only [h', decide_false, h, dite_false]
      rfl

/-! ### the extension loops -/

theorem rangeDown_succ (k : Nat) :
    rangeDown (((k + 1 : Nat) : Int) - 1) (-1) = (k : Int) :: rangeDown ((k : Int) - 1) (-1) := by
  unfold rangeDown
  have e1 : (((k + 1 : Nat) : Int) - 1 - -1).toNat = k + 1 := by omega
  have e2 : ((k : Int) - 1 - -1).toNat = k := by omega
  rw [e1, e2, List.range_succ_eq_map]
  simp only [List.map_cons, List.map_map]
  congr 1
  · simp
  · apply List.map_congr_left
    intro x _
    simp only [Function.comp, Int.ofNat_eq_natCast]
    omega

theorem rangeDown_zero : rangeDown (((0 : Nat) : Int) - 1) (-1) = [] := by
  unfold rangeDown; rfl

theorem forIn_extendLeft {ρ : Type} (idx : List Int) (bs : Int) (body : Int → Int → R (Ctl Int ρ))
    (hbody : ∀ (i : Nat) (cur : Int), i < idx.length →
      body (i : Int) cur = .ok (if idxAt idx i < bs then .brk cur else .next (i : Int)))
    (k cur : Nat) (hk : k ≤ idx.length) (xs : List Int) (hxs : xs = rangeDown ((k : Int) - 1) (-1))
    (s : Int) (hs : s = (cur : Int)) :
    PyRt.forIn xs s body = .ok (.fell ((extendLeft idx bs k cur : Nat) : Int)) := by
  subst hxs hs
  induction k generalizing cur with
  | zero => rw [rangeDown_zero]; rfl
  | succ k ih =>
    rw [rangeDown_succ]
    unfold PyRt.forIn extendLeft
    rw [hbody k _ (by omega)]
    by_cases h : idxAt idx k < bs
    · simp only [h, if_true]
    · simp only [h, if_false]
      exact ih k (by omega)

theorem rangeUp_cons (a b : Int) (h : a < b) : rangeUp a b = a :: rangeUp (a + 1) b := by
  unfold rangeUp
  obtain ⟨n, hn⟩ : ∃ n : Nat, (b - a).toNat = n + 1 := ⟨(b - a).toNat - 1, by omega⟩
  have e2 : (b - (a + 1)).toNat = n := by omega
  rw [hn, e2, List.range_succ_eq_map]
  simp only [List.map_cons, List.map_map]
  congr 1
  · simp
  · apply List.map_congr_left
    intro x _
    simp only [Function.comp, Int.ofNat_eq_natCast]
    omega

theorem rangeUp_nil (a b : Int) (h : b ≤ a) : rangeUp a b = [] := by
  unfold rangeUp
  have : (b - a).toNat = 0 := by omega
  rw [this]; rfl

theorem forIn_extendRight_aux {ρ : Type} (idx : List Int) (be : Int) (body : Int → Int → R (Ctl Int ρ))
    (hbody : ∀ (j : Nat) (cur : Int), 0 < j → j < idx.length →
      body (j : Int) cur = .ok (if rowStart idx j > be then .brk cur else .next (j : Int)))
    (n cur : Nat) (hn : cur + 1 + n = idx.length ∨ (n = 0 ∧ idx.length ≤ cur + 1)) :
    PyRt.forIn (rangeUp ((cur : Int) + 1) (idx.length : Int)) (cur : Int) body =
      .ok (.fell ((extendRight idx be n cur : Nat) : Int)) := by
  induction n generalizing cur with
  | zero =>
    rw [rangeUp_nil _ _ (by omega)]; rfl
  | succ n ih =>
    rw [rangeUp_cons _ _ (by omega)]
    unfold PyRt.forIn extendRight
    have e : (cur : Int) + 1 = ((cur + 1 : Nat) : Int) := by omega
    rw [e, hbody (cur + 1) _ (by omega) (by omega)]
    dsimp only
    by_cases h : rowStart idx (cur + 1) > be
    · simp only [h, if_true]
    · simp only [h, if_false]
      exact ih (cur + 1) (by omega)

theorem forIn_extendRight {ρ : Type} (idx : List Int) (be : Int) (body : Int → Int → R (Ctl Int ρ))
    (hbody : ∀ (j : Nat) (cur : Int), 0 < j → j < idx.length →
      body (j : Int) cur = .ok (if rowStart idx j > be then .brk cur else .next (j : Int)))
    (cur : Nat) (xs : List Int) (hxs : xs = rangeUp ((cur : Int) + 1) (idx.length : Int))
    (s : Int) (hs : s = (cur : Int)) :
    PyRt.forIn xs s body =
      .ok (.fell ((extendRight idx be (idx.length - (cur + 1)) cur : Nat) : Int)) := by
  subst hxs hs
  exact forIn_extendRight_aux idx be body hbody _ cur (by omega)

/-! ### the gap-stripping loops -/

theorem whileLoop_skipRight {ρ : Type} (rows : List Row) (j : Int) (cond : Int → R Bool) (body : Int → R (Ctl Int ρ))
    (hcond : ∀ i, cond i = if i ≤ j then (pyGet rows i).map Row.isGap else .ok false)
    (hbody : ∀ i, body i = .ok (.next (i + 1)))
    (f2 f1 : Nat) (i : Int) (h1 : (j + 1 - i).toNat < f1) (h2 : (j + 1 - i).toNat < f2) :
    whileLoop f1 i cond body = (skipGapsRight rows f2 i j).map Done.fell := by
  induction f1 generalizing i f2 with
  | zero => omega
  | succ f1 ih =>
    obtain ⟨f2, rfl⟩ : ∃ k, f2 = k + 1 := ⟨f2 - 1, by omega⟩
    unfold whileLoop skipGapsRight
    rw [hcond, hbody]
    by_cases h : i ≤ j
    · simp only [h, if_true]
      cases hg : pyGet rows i with
      | error e => rfl
      | ok r =>
        simp only [Except.map, bind, Except.bind]
        cases hr : r.isGap with
        | false => rfl
        | true =>
          simp only [if_true]
          exact ih f2 (i + 1) (by omega) (by omega)
    · simp only [h, if_false]
      rfl

theorem whileLoop_skipLeft {ρ : Type} (rows : List Row) (i : Int) (cond : Int → R Bool) (body : Int → R (Ctl Int ρ))
    (hcond : ∀ j, cond j = if j ≥ i then (pyGet rows j).map Row.isGap else .ok false)
    (hbody : ∀ j, body j = .ok (.next (j - 1)))
    (f2 f1 : Nat) (j : Int) (h1 : (j + 1 - i).toNat < f1) (h2 : (j + 1 - i).toNat < f2) :
    whileLoop f1 j cond body = (skipGapsLeft rows f2 i j).map Done.fell := by
  induction f1 generalizing j f2 with
  | zero => omega
  | succ f1 ih =>
    obtain ⟨f2, rfl⟩ : ∃ k, f2 = k + 1 := ⟨f2 - 1, by omega⟩
    unfold whileLoop skipGapsLeft
    rw [hcond, hbody]
    by_cases h : j ≥ i
    · simp only [h, if_true]
      cases hg : pyGet rows j with
      | error e => rfl
      | ok r =>
        simp only [Except.map, bind, Except.bind]
        cases hr : r.isGap with
        | false => rfl
        | true =>
          simp only [if_true]
          exact ih f2 (j - 1) (by omega) (by omega)
    · simp only [h, if_false]
      rfl

/-! ### the slice -/

theorem slice_eq_pySlice {α : Type} (l : List α) (i j : Int) (hi : 0 ≤ i) (hj : 0 ≤ j) :
    PyRt.slice l (some i) (some j) = pySlice l i j := by
  unfold PyRt.slice pySlice clampIdx
  have h1 : ¬ (i < 0) := by omega
  have h2 : ¬ (j < 0) := by omega
  simp only [h1, h2, if_false]
  by_cases hil : i.toNat ≤ l.length
  · rw [Nat.min_eq_left hil, List.take_eq_take_iff]
    simp only [List.length_drop]
    omega
  · have e1 : List.drop (min i.toNat l.length) l = [] := by
      rw [List.drop_eq_nil_iff]; omega
    have e2 : List.drop i.toNat l = [] := by
      rw [List.drop_eq_nil_iff]; omega
    rw [e1, e2]; simp

end AgpTpf.ImpLookup
