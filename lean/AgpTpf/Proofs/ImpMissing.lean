/-
  T1c helper lemmas for `Properties/C01ImpMissing.lean`: `BuildAssembly.add_missing_scaffolds_from_input`
  (assembly/build_assembly.py) against the model's `missingRows` / `addMissing` (Model/Remap.lean).

  (0) the abstraction from the source's `ScaffoldNamer` object (`PyRt.SrcNamer`) to the model's `Namer`;
  (1) a `PyRt.forIn` whose body simulates the step of a `List.foldlM` pass by pass simulates the whole `foldlM`
      (relation between the loop variables and the model's accumulator; same exception);
  (2) the arena of left-over Scaffold objects: writes through the reference to the object created last;
  (3) the separator rows between two left-over contigs: Python's slice with `int` indices = the model's `drop`/`take` on `Nat`;
  (4) the inner loop (`for i, frag in scffld.idx_fragments()`) is the model's `missingRows` loop — it never raises when there
      is a default gap; (5) one pass of the outer loop is the model's `amStep`; (6) the whole method.
  The loop bodies and the continuations are PARAMETERS (only what one pass returns in each reachable situation is asked), and so are
  `make_scaffold_name` and its tie to the model's `makeScaffoldName`: nothing here mentions a generated term.
-/
import AgpTpf.Model.PyRt
import AgpTpf.Model.PyRtHeap
import AgpTpf.Model.Remap
import AgpTpf.Proofs.ImpLeftover
import AgpTpf.Proofs.C01Missing
namespace AgpTpf.ImpMissing
open AgpTpf ImpLeftover
open AgpTpf.C01 (missStep missingRows_eq missStep_gap missStep_found missStep_missing sepBefore)

/-! ### 0. the source's namer object and the model's `Namer` -/

/-- the model's `Namer` of a `ScaffoldNamer` object (a rank that is None reads 0, the counters as naturals) -/
def absNamer (s : PyRt.SrcNamer) : Namer :=
  { autosomePrefix := s.autosome_prefix, currentScaffoldName := s.current_scaffold_name,
    currentRank := s.current_rank.getD 0, currentHaplotype := s.current_haplotype,
    haplotigN := s.haplotig_n.toNat, haplotigScaffolds := s.haplotig_scaffolds,
    primaryHaplotype := s.primary_haplotype, targetTags := s.target_tags,
    unlocN := s.unloc_n.toNat, unlocScaffolds := s.unloc_scaffolds, haplotypeLc := s.haplotype_lc_dict }

/-- the counters of a `ScaffoldNamer` are never negative -/
def WFNamer (s : PyRt.SrcNamer) : Prop := 0 ≤ s.haplotig_n ∧ 0 ≤ s.unloc_n

/-- the tags `make_scaffold_name(scaffold, fragment_tags)` works with: `if not fragment_tags: fragment_tags = scaffold.fragment_tags()` -/
def tagsOf (sc : Scaffold) (ft : Option (List Str)) : List Str :=
  match ft with
  | some (t :: ts) => t :: ts
  | _ => sc.fragmentTags

/-! ### 1. `R` plumbing; a `forIn` that simulates a `foldlM` -/

theorem ok_bind {α β : Type} (a : α) (f : α → R β) : ((Except.ok a : R α) >>= f) = f a := rfl
theorem error_bind {α β : Type} (e : Err) (f : α → R β) : ((Except.error e : R α) >>= f) = .error e := rfl

/-- one pass of a loop body against one step of the model: both fall through to related states, or both raise the same exception -/
def RelC {σ ρ A : Type} (S : σ → A → Prop) : R (PyRt.Ctl σ ρ) → R A → Prop
  | .ok (.next st), .ok a => S st a
  | .error e, .error e' => e = e'
  | _, _ => False

/-- a whole loop against the model's fold: both end in related states, or both raise the same exception -/
def RelD {σ ρ A : Type} (S : σ → A → Prop) : R (PyRt.Done σ ρ) → R A → Prop
  | .ok (.fell st), .ok a => S st a
  | .error e, .error e' => e = e'
  | _, _ => False

theorem forIn_sim {α σ ρ A : Type} (S : σ → A → Prop) (body : α → σ → R (PyRt.Ctl σ ρ)) (step : A → α → R A)
    (h : ∀ x st a, S st a → RelC S (body x st) (step a x)) (xs : List α) :
    ∀ st a, S st a → RelD S (PyRt.forIn xs st body) (xs.foldlM step a) := by
  induction xs with
  | nil => intro st a hs; exact hs
  | cons x xs ih =>
    intro st a hs
    have h1 := h x st a hs
    rw [PyRt.forIn, List.foldlM_cons]
    cases hb : body x st with
    | error e =>
      cases hm : step a x with
      | error e' => rw [hb, hm] at h1; exact h1
      | ok a' => rw [hb, hm] at h1; exact h1.elim
    | ok c =>
      cases hm : step a x with
      | error e' => rw [hb, hm] at h1; cases c <;> exact h1.elim
      | ok a' =>
        rw [hb, hm] at h1
        cases c with
        | next st' => exact ih st' a' h1
        | brk st' => exact h1.elim
        | ret r => exact h1.elim

/-! ### 2. the arena of left-over Scaffold objects -/

theorem loSet_snoc (h0 : List PyRt.Leftover) (x : PyRt.Leftover) (f : Scaffold → Scaffold) :
    PyRt.loSet (h0 ++ [x]) h0.length f = h0 ++ [(f x.1, x.2)] := by
  simp [PyRt.loSet]

theorem loSetPred_snoc (h0 : List PyRt.Leftover) (x : PyRt.Leftover) (p : Option (Row × List Row)) :
    PyRt.loSetPred (h0 ++ [x]) h0.length p = h0 ++ [(x.1, p)] := by
  simp [PyRt.loSetPred]

theorem loGet_snoc (h0 : List PyRt.Leftover) (x : PyRt.Leftover) : PyRt.loGet (h0 ++ [x]) h0.length = x := by
  simp [PyRt.loGet]

/-- the variables of `for row in between: …`: `new_scffld` (a reference into the arena) and the arena.  The ORDER in which the
    translator carries them (alphabetical: `heap_lo`, `new_scffld`) is named here, in `ASt` / `ast`, and nowhere else -/
abbrev ASt := List PyRt.Leftover × Nat
/-- the loop state of `for row in between` with reference `r` and arena `h` -/
abbrev ast (r : Nat) (h : List PyRt.Leftover) : ASt := (h, r)

/-- `for row in between: new_scffld.add_row(row)` on the object created last -/
theorem forIn_addRows {ρ : Type} (body : Row → ASt → R (PyRt.Ctl ASt ρ))
    (hbody : ∀ row r h, body row (ast r h) = .ok (.next (ast r (PyRt.loSet h r (fun sc => { sc with rows := sc.rows ++ [row] })))))
    (between : List Row) (h0 : List PyRt.Leftover) (x : PyRt.Leftover) :
    PyRt.forIn between (ast h0.length (h0 ++ [x])) body
      = .ok (.fell (ast h0.length (h0 ++ [({ x.1 with rows := x.1.rows ++ between }, x.2)]))) := by
  induction between generalizing x with
  | nil => simp [PyRt.forIn]
  | cons row rest ih =>
    rw [PyRt.forIn, hbody, loSet_snoc]
    simp only []
    rw [ih]
    simp

/-! ### 3. the rows put between two left-over contigs -/

/-- the source: `if last_added_i != i - 1: between = rows[last_added_i + 1 : i]; all gaps ? between : [default_gap]` -/
def srcSep (rows : List Row) (g : Gap) (l i : Int) : List Row :=
  if l ≠ i - 1 then
    (if (PyRt.slice rows (some (l + 1)) (some i)).all Row.isGap = true then PyRt.slice rows (some (l + 1)) (some i) else [Row.gap g])
  else []

/-- the model (`sepBefore` with a default gap), indices in `Nat` -/
def sepRows (rows : List Row) (g : Gap) (l i : Nat) : List Row :=
  if l = i - 1 then []
  else if ((rows.drop (l + 1)).take (i - (l + 1))).all Row.isGap then (rows.drop (l + 1)).take (i - (l + 1))
  else [Row.gap g]

theorem slice_between {α : Type} (rows : List α) (l i : Nat) (hl : l < i) (hi : i ≤ rows.length) :
    PyRt.slice rows (some ((l : Int) + 1)) (some (i : Int)) = (rows.drop (l + 1)).take (i - (l + 1)) := by
  unfold PyRt.slice PyRt.clampIdx
  have h1 : ¬ ((l : Int) + 1 < 0) := by omega
  have h2 : ¬ ((i : Int) < 0) := by omega
  simp only [h1, h2, if_false]
  have e1 : min ((l : Int) + 1).toNat rows.length = l + 1 := by omega
  have e2 : min (i : Int).toNat rows.length = i := by omega
  rw [e1, e2]

theorem srcSep_eq (rows : List Row) (g : Gap) (l i : Nat) (hl : l < i) (hi : i ≤ rows.length) :
    srcSep rows g (l : Int) (i : Int) = sepRows rows g l i := by
  unfold srcSep sepRows
  rw [slice_between rows l i hl hi]
  by_cases h : l = i - 1
  · have : ¬ ((l : Int) ≠ (i : Int) - 1) := by omega
    rw [if_neg this, if_pos h]
  · have : (l : Int) ≠ (i : Int) - 1 := by omega
    rw [if_pos this, if_neg h]

theorem sepBefore_some (b : Build) (g : Gap) (hg : b.joinGap = some g) (rows : List Row) (l i : Nat) :
    sepBefore b rows (some l) i = .ok (sepRows rows g l i) := by
  unfold sepBefore sepRows
  simp only [hg]
  split
  · rfl
  · split <;> rfl

/-! ### 4. the inner loop: `for i, frag in scffld.idx_fragments()` = the loop of `missingRows` -/

/-- the variables of the inner loop: `last_added_i`, `new_scffld` (a reference into the arena), the arena.  The ORDER in which the
    translator carries them (alphabetical: `heap_lo`, `last_added_i`, `new_scffld`) is named here, in `ISt` / `ist`, and nowhere else -/
abbrev ISt := List PyRt.Leftover × Option Int × Option Nat
/-- the state of the inner loop with `last_added_i = la`, `new_scffld = r`, arena `h` -/
abbrev ist (la : Option Int) (r : Option Nat) (h : List PyRt.Leftover) : ISt := (h, la, r)
/-- the accumulator of the model's loop: the rows so far, the index of the row added last, the index of the first row added -/
abbrev MAcc := List Row × Option Nat × Option Nat

/-- the left-over object under construction: `Scaffold(scffld.name)`, `rank = 3`, the rows added so far -/
def mkLo (sc : Scaffold) (out : List Row) : Scaffold := { name := sc.name, rows := out, rank := 3 }

/-- the source's loop variables for a state of the model's loop (`h0` = the arena when the loop starts) -/
def enc (sc : Scaffold) (h0 : List PyRt.Leftover) (acc : MAcc) : ISt :=
  match acc.1 with
  | [] => ist none none h0
  | _ :: _ => ist (acc.2.1.map (fun (l : Nat) => (l : Int))) (some h0.length)
      (h0 ++ [(mkLo sc acc.1, (acc.2.2.bind (inputPredecessor sc.rows)).map predToRows)])

/-- reachable states of the model's loop before row `k`: nothing added yet, or something added and the last one before `k` -/
def InnerInv (k : Nat) (acc : MAcc) : Prop :=
  acc = ([], none, none) ∨ ∃ out l fi, out ≠ [] ∧ l < k ∧ acc = (out, some l, some fi)

theorem InnerInv.mono {k k' : Nat} {acc : MAcc} (h : InnerInv k acc) (hk : k ≤ k') : InnerInv k' acc := by
  rcases h with h | ⟨out, l, fi, h1, h2, h3⟩
  · exact Or.inl h
  · exact Or.inr ⟨out, l, fi, h1, by omega, h3⟩

theorem enc_ne (sc : Scaffold) (h0 : List PyRt.Leftover) (out : List Row) (la fi : Option Nat) (h : out ≠ []) :
    enc sc h0 (out, la, fi) = ist (la.map (fun (l : Nat) => (l : Int))) (some h0.length)
      (h0 ++ [(mkLo sc out, (fi.bind (inputPredecessor sc.rows)).map predToRows)]) := by
  cases out with
  | nil => exact (h rfl).elim
  | cons a r => rfl

theorem inner_gen {ρ : Type} (b : Build) (g : Gap) (hg : b.joinGap = some g)
    (found : List (Key × Nat)) (hkeys : ∀ k, (dGet? found k).isSome = dHas b.found k)
    (sc : Scaffold) (h0 : List PyRt.Leftover)
    (body : Int × Fragment → ISt → R (PyRt.Ctl ISt ρ))
    (hfound : ∀ i f st, (dGet? found f.keyTuple).isSome = true → body (i, f) st = .ok (.next st))
    (hnew : ∀ (i : Nat) f, (dGet? found f.keyTuple).isSome = false →
        body ((i : Int), f) (ist none none h0) = .ok (.next (ist (some (i : Int)) (some h0.length)
          (h0 ++ [(mkLo sc [Row.frag f], (inputPredecessor sc.rows i).map predToRows)]))))
    (hmore : ∀ (l i : Int) f x, (dGet? found f.keyTuple).isSome = false →
        body (i, f) (ist (some l) (some h0.length) (h0 ++ [x])) = .ok (.next (ist (some i) (some h0.length)
          (h0 ++ [({ x.1 with rows := x.1.rows ++ srcSep sc.rows g l i ++ [Row.frag f] }, x.2)]))))
    (rs : List Row) : ∀ (k : Nat), k + rs.length ≤ sc.rows.length → ∀ acc, InnerInv k acc →
      ∃ acc', ((List.range' k rs.length).zip rs).foldlM (missStep b sc.rows) acc = .ok acc' ∧
        InnerInv (k + rs.length) acc' ∧
        PyRt.forIn (PyRt.idxFragmentsFrom (k : Int) rs) (enc sc h0 acc) body = .ok (.fell (enc sc h0 acc')) := by
  induction rs with
  | nil => intro k _ acc hinv; exact ⟨acc, rfl, hinv, rfl⟩
  | cons row rs ih =>
    intro k hk acc hinv
    have hlen : k + 1 + rs.length ≤ sc.rows.length := by simp only [List.length_cons] at hk; omega
    have hcast : ((k : Int) + 1) = ((k + 1 : Nat) : Int) := by omega
    have hsum : k + (rs.length + 1) = k + 1 + rs.length := by omega
    rw [List.length_cons, List.range'_succ, List.zip_cons_cons, List.foldlM_cons, hsum]
    cases row with
    | gap g' =>
      obtain ⟨acc', h1, h2, h3⟩ := ih (k + 1) hlen acc (hinv.mono (by omega))
      refine ⟨acc', ?_, h2, ?_⟩
      · rw [missStep_gap]; exact h1
      · rw [PyRt.idxFragmentsFrom, hcast]; exact h3
    | frag f =>
      cases hf : dHas b.found f.keyTuple with
      | true =>
        obtain ⟨acc', h1, h2, h3⟩ := ih (k + 1) hlen acc (hinv.mono (by omega))
        refine ⟨acc', ?_, h2, ?_⟩
        · rw [missStep_found b sc.rows acc k f hf]; exact h1
        · rw [PyRt.idxFragmentsFrom, PyRt.forIn, hfound _ _ _ (by rw [hkeys]; exact hf), hcast]; exact h3
      | false =>
        have hf' : (dGet? found f.keyTuple).isSome = false := by rw [hkeys]; exact hf
        rcases hinv with rfl | ⟨out, l, fi, hne, hl, rfl⟩
        · -- the first left-over contig of this scaffold: the object is created
          obtain ⟨acc', h1, h2, h3⟩ := ih (k + 1) hlen ([Row.frag f], some k, some k)
            (Or.inr ⟨_, k, k, by simp, by omega, rfl⟩)
          refine ⟨acc', ?_, h2, ?_⟩
          · rw [missStep_missing b sc.rows [] none none k f hf]
            exact h1
          · rw [PyRt.idxFragmentsFrom, PyRt.forIn]
            have : enc sc h0 ([], none, none) = ist none none h0 := rfl
            rw [this, hnew k f hf', hcast]
            rw [enc_ne sc h0 [Row.frag f] (some k) (some k) (by simp)] at h3
            exact h3
        · -- a further one: the separator rows, then the contig
          have hsep := sepBefore_some b g hg sc.rows l k
          have hne' : out ++ sepRows sc.rows g l k ++ [Row.frag f] ≠ [] := by simp
          obtain ⟨acc', h1, h2, h3⟩ := ih (k + 1) hlen (out ++ sepRows sc.rows g l k ++ [Row.frag f], some k, some fi)
            (Or.inr ⟨_, k, fi, hne', by omega, rfl⟩)
          refine ⟨acc', ?_, h2, ?_⟩
          · rw [missStep_missing b sc.rows out (some l) (some fi) k f hf, hsep]
            exact h1
          · rw [PyRt.idxFragmentsFrom, PyRt.forIn, enc_ne sc h0 out (some l) (some fi) hne]
            simp only [Option.map_some]
            rw [hmore (l : Int) (k : Int) f _ hf', hcast, srcSep_eq sc.rows g l k hl (by simp only [List.length_cons] at hk; omega)]
            rw [enc_ne sc h0 _ (some k) (some fi) hne'] at h3
            exact h3

/-- the inner loop from the start: the model's `missingRows` succeeds, and the loop ends in the encoding of its result -/
theorem inner_top {ρ : Type} (b : Build) (g : Gap) (hg : b.joinGap = some g)
    (found : List (Key × Nat)) (hkeys : ∀ k, (dGet? found k).isSome = dHas b.found k)
    (sc : Scaffold) (h0 : List PyRt.Leftover)
    (body : Int × Fragment → ISt → R (PyRt.Ctl ISt ρ))
    (hfound : ∀ i f st, (dGet? found f.keyTuple).isSome = true → body (i, f) st = .ok (.next st))
    (hnew : ∀ (i : Nat) f, (dGet? found f.keyTuple).isSome = false →
        body ((i : Int), f) (ist none none h0) = .ok (.next (ist (some (i : Int)) (some h0.length)
          (h0 ++ [(mkLo sc [Row.frag f], (inputPredecessor sc.rows i).map predToRows)]))))
    (hmore : ∀ (l i : Int) f x, (dGet? found f.keyTuple).isSome = false →
        body (i, f) (ist (some l) (some h0.length) (h0 ++ [x])) = .ok (.next (ist (some i) (some h0.length)
          (h0 ++ [({ x.1 with rows := x.1.rows ++ srcSep sc.rows g l i ++ [Row.frag f] }, x.2)])))) :
    ∃ acc : MAcc, missingRows b sc.rows = .ok (acc.1, acc.2.2) ∧ InnerInv sc.rows.length acc ∧
      PyRt.forIn (PyRt.idxFragments sc.rows) (ist none none h0) body = .ok (.fell (enc sc h0 acc)) := by
  obtain ⟨acc, h1, h2, h3⟩ := inner_gen b g hg found hkeys sc h0 body hfound hnew hmore sc.rows 0 (by omega) ([], none, none) (Or.inl rfl)
  refine ⟨acc, ?_, by simpa using h2, ?_⟩
  · rw [missingRows_eq, List.range_eq_range', h1]; rfl
  · exact h3

/-! ### 5. one pass of the outer loop = the model's `amStep` -/

/-- the variables of the outer loop: the arena, the namer object, the references passed to `self.add_scaffold`.  The ORDER in which the
    translator carries them (by the text of their type, then by name: `heap_lo`, `added_lo`, `self_scaffold_namer`) is named here, in `OSt` / `ost`, and nowhere else -/
abbrev OSt := List PyRt.Leftover × List Nat × PyRt.SrcNamer
/-- the state of the outer loop with arena `h`, namer `s`, references `a` -/
abbrev ost (h : List PyRt.Leftover) (s : PyRt.SrcNamer) (a : List Nat) : OSt := (h, a, s)

/-- loop body of the model's `addMissing` (verbatim) -/
def amStep (b : Build) (sc : Scaffold) : R Build := do
  let (rows, first) ← missingRows b sc.rows
  if rows.isEmpty then pure b
  else do
    let tags := ({ name := sc.name, rows := rows } : Scaffold).fragmentTags
    let n ← makeScaffoldName b.namer sc.name rows tags
    let tag := if n.targetTags ∧ ¬ sc.fragmentTags.contains sTarget then some sContaminant else none
    let new : Scaffold := { name := sc.name, rows := rows, rank := 3, tag := tag, haplotype := n.currentHaplotype }
    let pred := match first with | some i => inputPredecessor sc.rows i | none => none
    pure { b with namer := n, extra := b.extra ++ [(new, pred)] }

theorem addMissing_eq (input : List Scaffold) (b : Build) : addMissing input b = input.foldlM amStep b := rfl

/-- a left-over object of the arena as the model keeps it: the Scaffold, and its `input_predecessor` attribute read back as
    `(Fragment, gaps)` (`predOfRows` of Proofs/ImpLeftover.lean) -/
def loModel (x : PyRt.Leftover) : Scaffold × Option (Fragment × List Gap) := (x.1, x.2.bind predOfRows)

/-- … and a pair of the model as the object the source creates -/
def loSrc (e : Scaffold × Option (Fragment × List Gap)) : PyRt.Leftover := (e.1, e.2.map predToRows)

theorem loModel_loSrc (e : Scaffold × Option (Fragment × List Gap)) : loModel (loSrc e) = e := by
  obtain ⟨sc, p⟩ := e
  cases p with
  | none => rfl
  | some p => simp [loModel, loSrc, predOfRows_predToRows]

/-- the loop variables of the source (arena, namer, references) against the model's build state: `b0` = the state before `add_missing` -/
structure OSim' (b0 : Build) (heap : List PyRt.Leftover) (s : PyRt.SrcNamer) (added : List Nat) (b : Build) : Prop where
  added : added = List.range heap.length
  wf : WFNamer s
  eq : b = { b0 with namer := absNamer s, extra := b0.extra ++ heap.map loModel }
  lossless : ∀ x ∈ heap, loSrc (loModel x) = x

/-- … as a relation on the loop state -/
def OSim (b0 : Build) (st : OSt) (b : Build) : Prop := ∃ heap s added, st = ost heap s added ∧ OSim' b0 heap s added b

/-- what the end of a pass does to the object: the `Contaminant` tag when targets are in use and this input scaffold has none, the
    haplotype -/
def finish (sc : Scaffold) (h : List PyRt.Leftover) (r : Nat) (s' : PyRt.SrcNamer) : List PyRt.Leftover :=
  PyRt.loSet
    (if (s'.target_tags && !(sc.fragmentTags.contains "Target".toList)) = true then
      PyRt.loSet h r (fun x => { x with tag := some "Contaminant".toList }) else h)
    r (fun x => { x with haplotype := s'.current_haplotype })

theorem pred_roundtrip (o : Option (Fragment × List Gap)) : (o.map predToRows).bind predOfRows = o := by
  cases o with
  | none => rfl
  | some p => simp [predOfRows_predToRows]

/-- the finished object as the model's pair -/
theorem newPair_eq (sc : Scaffold) (out : List Row) (fi : Nat) (s' : PyRt.SrcNamer) :
    loModel ({ (mkLo sc out) with
        tag := if (s'.target_tags && !(sc.fragmentTags.contains sTarget)) = true then some sContaminant else (mkLo sc out).tag,
        haplotype := s'.current_haplotype }, ((some fi).bind (inputPredecessor sc.rows)).map predToRows)
      = ({ name := sc.name, rows := out, rank := 3,
           tag := if (absNamer s').targetTags = true ∧ ¬ sc.fragmentTags.contains sTarget = true then some sContaminant else none,
           haplotype := (absNamer s').currentHaplotype }, inputPredecessor sc.rows fi) := by
  simp only [loModel, pred_roundtrip, absNamer, mkLo]
  by_cases h1 : s'.target_tags = true <;> by_cases h2 : sc.fragmentTags.contains sTarget = true <;> simp [h1, h2]

/-- the end of a pass on the object created last -/
theorem finish_snoc (sc : Scaffold) (h0 : List PyRt.Leftover) (x : PyRt.Leftover) (s' : PyRt.SrcNamer) :
    finish sc (h0 ++ [x]) h0.length s' = h0 ++ [({ x.1 with
      tag := if (s'.target_tags && !(sc.fragmentTags.contains "Target".toList)) = true then some "Contaminant".toList else x.1.tag,
      haplotype := s'.current_haplotype }, x.2)] := by
  unfold finish
  by_cases hc : (s'.target_tags && !(sc.fragmentTags.contains "Target".toList)) = true
  · simp only [hc, if_true, loSet_snoc]
  · simp only [hc, if_false, loSet_snoc, Bool.false_eq_true]

theorem fragmentTags_mkLo (sc : Scaffold) (out : List Row) :
    (mkLo sc out).fragmentTags = ({ name := sc.name, rows := out } : Scaffold).fragmentTags := rfl

theorem outer_step {ρ₁ ρ₂ : Type} (b0 : Build) (g : Gap) (hg : b0.joinGap = some g)
    (found : List (Key × Nat)) (hkeys : ∀ k, (dGet? found k).isSome = dHas b0.found k)
    (mk : PyRt.SrcNamer → Scaffold → R PyRt.SrcNamer)
    (hmk : ∀ s sc, WFNamer s → (mk s sc).map absNamer = makeScaffoldName (absNamer s) sc.name sc.rows sc.fragmentTags)
    (hwf : ∀ s sc s', WFNamer s → mk s sc = .ok s' → WFNamer s')
    (sc : Scaffold) (heap : List PyRt.Leftover) (s : PyRt.SrcNamer) (added : List Nat) (b : Build)
    (hsim : OSim' b0 heap s added b)
    (body : Int × Fragment → ISt → R (PyRt.Ctl ISt ρ₁))
    (hfound : ∀ i f st, (dGet? found f.keyTuple).isSome = true → body (i, f) st = .ok (.next st))
    (hnew : ∀ (i : Nat) f, (dGet? found f.keyTuple).isSome = false →
        body ((i : Int), f) (ist none none heap) = .ok (.next (ist (some (i : Int)) (some heap.length)
          (heap ++ [(mkLo sc [Row.frag f], (inputPredecessor sc.rows i).map predToRows)]))))
    (hmore : ∀ (l i : Int) f x, (dGet? found f.keyTuple).isSome = false →
        body (i, f) (ist (some l) (some heap.length) (heap ++ [x])) = .ok (.next (ist (some i) (some heap.length)
          (heap ++ [({ x.1 with rows := x.1.rows ++ srcSep sc.rows g l i ++ [Row.frag f] }, x.2)]))))
    (K : PyRt.Done ISt ρ₁ → R (PyRt.Ctl OSt ρ₂))
    (hKnone : ∀ la h, K (.fell (ist la none h)) = .ok (.next (ost h s added)))
    (hKsome : ∀ la r h, K (.fell (ist la (some r) h))
        = (mk s (PyRt.loGet h r).1 >>= fun s' => .ok (.next (ost (finish sc h r s') s' (added ++ [r]))))) :
    RelC (OSim b0) (PyRt.forIn (PyRt.idxFragments sc.rows) (ist none none heap) body >>= K) (amStep b sc) := by
  have hb := hsim.eq
  have hjg : b.joinGap = some g := by rw [hb]; exact hg
  have hfd : b.found = b0.found := by rw [hb]
  obtain ⟨acc, h1, h2, h3⟩ := inner_top b g hjg found (by rw [hfd]; exact hkeys) sc heap body hfound hnew hmore
  rw [h3, ok_bind]
  unfold amStep
  rw [h1]
  rcases h2 with rfl | ⟨out, l, fi, hne, -, rfl⟩
  · -- every contig of this input scaffold was placed: no object, nothing changes
    have : enc sc heap ([], none, none) = ist none none heap := rfl
    rw [this, hKnone]
    exact ⟨heap, s, added, rfl, hsim⟩
  · rw [enc_ne sc heap out (some l) (some fi) hne, hKsome, loGet_snoc]
    have hemp : out.isEmpty = false := by cases out with | nil => exact (hne rfl).elim | cons a r => rfl
    have hnm : absNamer s = b.namer := by rw [hb]
    have hm := hmk s (mkLo sc out) hsim.wf
    rw [fragmentTags_mkLo] at hm
    simp only [ok_bind, hemp, Bool.false_eq_true, if_false]
    show RelC (OSim b0) _ (makeScaffoldName b.namer sc.name out _ >>= _)
    rw [← hnm]
    change (mk s (mkLo sc out)).map absNamer = makeScaffoldName (absNamer s) sc.name out _ at hm
    rw [← hm]
    cases hmk' : mk s (mkLo sc out) with
    | error e => exact rfl
    | ok s' =>
      have hwf' := hwf s _ s' hsim.wf hmk'
      have hadd : added = List.range heap.length := hsim.added
      have hloss : ∀ x ∈ heap, loSrc (loModel x) = x := hsim.lossless
      refine ⟨_, _, _, rfl, ?_⟩
      rw [finish_snoc]
      have htgt : ("Target".toList : Str) = sTarget := by decide
      have hcon : ("Contaminant".toList : Str) = sContaminant := by decide
      rw [htgt, hcon]
      refine ⟨?_, hwf', ?_, ?_⟩
      · -- `added` is still the list of all references
        simp [hadd, List.range_succ]
      · -- the new pair of `extra` is the new object
        subst hb
        simp only [List.map_append, List.map_cons, List.map_nil, List.append_assoc, newPair_eq]
      · intro x hx
        rcases List.mem_append.1 hx with hx | hx
        · exact hloss x hx
        · rw [List.mem_singleton.1 hx]
          simp only [loSrc, loModel, pred_roundtrip]

/-! ### 6. the whole method -/

/-- the outer loop and the end of the method (`outer` = the body of `for scffld in input_asm.scaffolds`, `fin` = what follows the loop):
    when every pass simulates `amStep`, the method refines `addMissing` -/
theorem whole_refines {ρ : Type} (b : Build) (s : PyRt.SrcNamer) (hs : WFNamer s) (habs : absNamer s = b.namer)
    (outer : Scaffold → OSt → R (PyRt.Ctl OSt ρ))
    (hstep : ∀ sc st b', OSim b st b' → RelC (OSim b) (outer sc st) (amStep b' sc))
    (fin : PyRt.Done OSt ρ → R (List PyRt.Leftover × List Nat × PyRt.SrcNamer))
    (hfin : ∀ h s' a, fin (.fell (ost h s' a)) = .ok (h, a, s'))
    (input : List Scaffold) :
    (∀ heap added s', (PyRt.forIn input (ost [] s []) outer >>= fin) = .ok (heap, added, s') →
        added = List.range heap.length ∧ WFNamer s' ∧ (∀ x ∈ heap, loSrc (loModel x) = x) ∧
        addMissing input b = .ok { b with namer := absNamer s', extra := b.extra ++ heap.map loModel }) ∧
    (∀ e, (PyRt.forIn input (ost [] s []) outer >>= fin) = .error e → addMissing input b = .error e) := by
  have hsim0 : OSim b (ost [] s []) b := by
    refine ⟨[], s, [], rfl, rfl, hs, ?_, fun x hx => by cases hx⟩
    show b = { b with namer := absNamer s, extra := b.extra ++ [] }
    rw [habs, List.append_nil]
  have key := forIn_sim (OSim b) outer amStep hstep input (ost [] s []) b hsim0
  rw [addMissing_eq]
  cases hl : PyRt.forIn input (ost [] s []) outer with
  | error e =>
    rw [hl] at key
    cases hm : input.foldlM amStep b with
    | error e' =>
      rw [hm] at key
      refine ⟨fun heap added s' h => (by rw [error_bind] at h; cases h), fun e'' h => ?_⟩
      rw [error_bind] at h
      cases h
      exact congrArg _ (Eq.symm key)
    | ok b' => rw [hm] at key; exact key.elim
  | ok d =>
    rw [hl] at key
    cases hm : input.foldlM amStep b with
    | error e' => rw [hm] at key; cases d <;> exact key.elim
    | ok b' =>
      rw [hm] at key
      cases d with
      | returned r => exact key.elim
      | fell st =>
        obtain ⟨heap, s1, added, rfl, key⟩ : OSim b st b' := key
        rw [ok_bind, hfin]
        refine ⟨fun heap' added' s' h => ?_, fun e h => (by cases h)⟩
        cases h
        exact ⟨key.added, key.wf, key.lossless, congrArg _ key.eq⟩

end AgpTpf.ImpMissing
