/-
  C02 (deep cuts), part 0: specification functions.

  * the registry `find_assembly_overlaps` builds (which contig key is held by which lookup results; `regOf`),
  * the cut sites (`sites`: one per contig shared by two pieces, in the order `cut_remaining_overlaps` visits them),
  * `cutFragStart` / `cutFragEnd` / `trimStartSpec` / `trimEndSpec` / `cutPiece`: a lookup result with its shared terminal
    contigs trimmed to the bait, by plain arithmetic,
  * `expectedStoreDeep`, `expectedRowsDeep`, `expectedScaffoldsDeep`.
-/
import AgpTpf.Proofs.C02ACheck
namespace AgpTpf.C02
open AgpTpf

/-! ### the registry of found contigs -/

/-- `fragments_found` and `multi_scaffold_fragments` -/
abbrev Reg := List (Key × Found) × List Key

/-- one iteration of the loop in `store_fragments_found` -/
def regStep (sid : Nat) (r : Reg) (f : Fragment) : Reg :=
  match dGet? r.1 f.keyTuple with
  | some fnd => (dSet r.1 f.keyTuple { fnd with scaffolds := fnd.scaffolds ++ [sid] }, sAdd r.2 f.keyTuple)
  | none => (r.1 ++ [(f.keyTuple, { fragment := f, scaffolds := [sid] })], r.2)

/-- the Pretext pieces (fragment rows of the Pretext scaffolds) in Pretext order, each with its Pretext scaffold;
    the position in this list is the id of the piece's lookup result in the store -/
def allPieces (ptx : List Scaffold) : List (Scaffold × Fragment) :=
  ptx.flatMap (fun S => S.fragments.map (fun p => (S, p)))

/-- registering the contigs of one piece's lookup result -/
def regPiece (input : List Scaffold) (r : Reg) (x : (Scaffold × Fragment) × Nat) : Reg :=
  (fragmentsOf (pieceO input x.1.2).rows).foldl (regStep x.2) r

/-- the registry after `find_assembly_overlaps` -/
def regFrom (input : List Scaffold) (l : List ((Scaffold × Fragment) × Nat)) (r : Reg) : Reg :=
  l.foldl (regPiece input) r

def regOf (input ptx : List Scaffold) : Reg := regFrom input (allPieces ptx).zipIdx ([], [])

/-- contigs held by two or more lookup results, in the order `cut_remaining_overlaps` visits them -/
def sharedKeys (input ptx : List Scaffold) : List Key := (regOf input ptx).2

/-- ids of the lookup results holding contig `k`, in Pretext order -/
def holdersOf (input ptx : List Scaffold) (k : Key) : List Nat :=
  match dGet? (regOf input ptx).1 k with
  | some fnd => fnd.scaffolds
  | none => []

/-! ### cut sites -/

/-- a contig shared by exactly two pieces: its key, the Fragment object registered for it, the id `a` of the piece that
    ends inside it and the id `b` of the piece that begins inside it (scaffold coordinates: piece `a` ends at `c`, piece
    `b` begins at `c + 1`) -/
structure Site where
  key : Key
  frag : Fragment
  a : Nat
  b : Nat
  deriving DecidableEq, Repr

def pieceAt (ptx : List Scaffold) (i : Nat) : Scaffold × Fragment := (allPieces ptx).getD i (default, default)

def siteOf (ptx : List Scaffold) (found : List (Key × Found)) (k : Key) : Site :=
  match dGet? found k with
  | some fnd =>
    match fnd.scaffolds with
    | [s, t] =>
      if (pieceAt ptx s).2.stop + 1 = (pieceAt ptx t).2.start then ⟨k, fnd.fragment, s, t⟩ else ⟨k, fnd.fragment, t, s⟩
    | _ => ⟨k, fnd.fragment, 0, 0⟩
  | none => ⟨k, default, 0, 0⟩

def sites (input ptx : List Scaffold) : List Site :=
  (sharedKeys input ptx).map (siteOf ptx (regOf input ptx).1)

/-- first object id not used by the input (`BuildAssembly` creates Fragment objects only in `trim_fragment`) -/
def oid0 (input : List Scaffold) : Nat :=
  (input.flatMap Scaffold.fragments).foldl (fun m f => max m (f.oid + 1)) 0

/-- object ids of the two Fragments made at the `j`-th cut site: the holders are visited in contig order, i.e. piece `a`
    first for a forward contig and piece `b` first for a reverse contig -/
def oidA (base : Nat) (x : Site × Nat) : Nat := base + 2 * x.2 + (if x.1.frag.strand = 1 then 0 else 1)
def oidB (base : Nat) (x : Site × Nat) : Nat := base + 2 * x.2 + (if x.1.frag.strand = 1 then 1 else 0)

/-- is the start (resp. end) of lookup result `i` cut at one of the sites `l`?  If so: the id of the new Fragment -/
def startCutIn (base : Nat) (l : List (Site × Nat)) (i : Nat) : Option Nat :=
  (l.find? (fun x => x.1.b = i)).map (oidB base)
def endCutIn (base : Nat) (l : List (Site × Nat)) (i : Nat) : Option Nat :=
  (l.find? (fun x => x.1.a = i)).map (oidA base)

/-! ### trimming a lookup result to its bait -/

/-- contig `F` loses the `d` bases lying at the scaffold-left side: bases `start … start+d-1` of a forward contig,
    bases `stop-d+1 … stop` of a reverse contig.  The new Fragment carries the tag `Cut`. -/
def cutFragStart (F : Fragment) (d : Int) (oid : Nat) : Fragment :=
  { oid := oid, name := F.name,
    start := if F.strand = 1 then F.start + d else F.start,
    stop := if F.strand = 1 then F.stop else F.stop - d,
    strand := F.strand, tags := [Gen.cutTag] }

/-- contig `F` loses the `d` bases lying at the scaffold-right side -/
def cutFragEnd (F : Fragment) (d : Int) (oid : Nat) : Fragment :=
  { oid := oid, name := F.name,
    start := if F.strand = 1 then F.start else F.start + d,
    stop := if F.strand = 1 then F.stop - d else F.stop,
    strand := F.strand, tags := [Gen.cutTag] }

/-- the first row is cut where the bait begins: it loses `bait.start - start` bases, the result then begins at the bait -/
def trimStartSpec (oid : Nat) (o : OverlapResult) : OverlapResult :=
  match o.rows with
  | .frag F :: r => { o with start := o.bait.start, rows := .frag (cutFragStart F (o.bait.start - o.start) oid) :: r }
  | _ => o

/-- the last row is cut where the bait ends: it loses `stop - bait.stop` bases, the result then ends at the bait -/
def trimEndSpec (oid : Nat) (o : OverlapResult) : OverlapResult :=
  match o.rows.reverse with
  | .frag F :: r => { o with stop := o.bait.stop, rows := (Row.frag (cutFragEnd F (o.stop - o.bait.stop) oid) :: r).reverse }
  | _ => o

def cutO (sc ec : Option Nat) (o : OverlapResult) : OverlapResult :=
  let o1 := match sc with | some oid => trimStartSpec oid o | none => o
  match ec with | some oid => trimEndSpec oid o1 | none => o1

/-- **the lookup result of piece number `i` after cutting**: its first row trimmed to the bait if that contig is shared
    with the piece in front (this piece is the `b` of a site), its last row trimmed if shared with the piece behind -/
def cutPieceIn (input : List Scaffold) (base : Nat) (l : List (Site × Nat)) (i : Nat) (p : Fragment) : OverlapResult :=
  cutO (startCutIn base l i) (endCutIn base l i) (pieceO input p)

def cutPiece (input ptx : List Scaffold) (i : Nat) (p : Fragment) : OverlapResult :=
  cutPieceIn input (oid0 input) (sites input ptx).zipIdx i p

/-- what the store holds for piece `i` (piece `p` of Pretext scaffold `S`) once the sites `l` have been cut -/
def resDeepIn (input : List Scaffold) (base : Nat) (l : List (Site × Nat)) (x : (Scaffold × Fragment) × Nat) : Res :=
  { o := cutO (startCutIn base l x.2) (endCutIn base l x.2) (labelled x.1.1 (pieceO input x.1.2)), added := true }

def storeDeepIn (input ptx : List Scaffold) (base : Nat) (l : List (Site × Nat)) : List Res :=
  (allPieces ptx).zipIdx.map (resDeepIn input base l)

/-- **the store after `cut_remaining_overlaps`** -/
def expectedStoreDeep (input ptx : List Scaffold) : List Res :=
  storeDeepIn input ptx (oid0 input) (sites input ptx).zipIdx

/-! ### the output -/

/-- the pieces of every Pretext scaffold with their store ids -/
def groupsFrom : Nat → List Scaffold → List (Scaffold × List (Fragment × Nat))
  | _, [] => []
  | n, S :: r => (S, S.fragments.zipIdx n) :: groupsFrom (n + S.fragments.length) r

/-- rows of the output scaffold of a Pretext scaffold whose pieces (with ids) are `qs` -/
def expectedRowsDeep (input ptx : List Scaffold) (jg : Gap) (qs : List (Fragment × Nat)) : List Row :=
  qs.foldl (fun built q => Scaffold.appendRows built (cutPiece input ptx q.2 q.1).toScaffoldRows (some jg)) []

def pretextOutDeep (input ptx : List Scaffold) (jg : Gap) (g : Scaffold × List (Fragment × Nat)) : Scaffold :=
  { name := outName g.1, rows := expectedRowsDeep input ptx jg g.2, tag := none, haplotype := none, rank := 3,
    originalName := some g.1.name, originalTags := some [] }

/-- all claimed contig keys (with repetitions) -/
theorem claimedKeys_def (input ptx : List Scaffold) :
    claimedKeys input ptx = ptx.flatMap (fun S => S.fragments.flatMap (pieceKeys input)) := rfl

def expectedScaffoldsDeep (input ptx : List Scaffold) (jg : Gap) : List Scaffold :=
  (groupsFrom 0 ptx).map (pretextOutDeep input ptx jg) ++ (expectedExtra (claimedKeys input ptx) jg input).map (·.1)

end AgpTpf.C02
