/- `name_assemblies`: the three branches as pure functions (C09, key → file name) -/
import AgpTpf.Model.Cli
namespace AgpTpf.CliNames
open AgpTpf

def sPrimaryLc : Str := "primary".toList
def sAdditional : Str := "additional_haplotigs".toList
def sAllHaplotigs : Str := "all_haplotigs".toList

/-- `f"{a}.{b}.{c}"` -/
theorem dotJoin3 (a b c : Str) : dotJoin [a, b, c] = a ++ '.' :: (b ++ '.' :: c) := rfl
theorem dotJoin4 (a b c d : Str) : dotJoin [a, b, c, d] = a ++ '.' :: (b ++ '.' :: (c ++ '.' :: d)) := rfl

def HasKey (asms : List OutAsm) (k : Option Str) : Prop := ∃ a ∈ asms, a.key = k

instance (asms : List OutAsm) (k : Option Str) : Decidable (HasKey asms k) := by unfold HasKey; exact inferInstance

theorem any_key_iff (asms : List OutAsm) (k : Option Str) :
    (asms.any (fun a => a.key = k)) = true ↔ HasKey asms k := by
  unfold HasKey; simp [List.any_eq_true]

/-! ### the steps of the model, named -/

def lowerS (k : Option Str) : R Str := match k with
  | some s => .ok (lowerStr s ++ ['s'])
  | none => .error .attribute

def primStep (root version : Str) (a : OutAsm) : R (Option NamedAsm) := do
  if a.key = some sPrimary then
    pure (some ({ key := a.key, name := dotJoin [root, version, "primary".toList], curated := a.curated, scaffolds := a.scaffolds } : NamedAsm))
  else if a.curated then pure none
  else do
    let suffix ← lowerS a.key
    pure (some { key := a.key, name := dotJoin [root, version, suffix], curated := a.curated, scaffolds := a.scaffolds })

def singleStep (root version : Str) (a : OutAsm) : R NamedAsm :=
  match a.key with
  | none => pure { key := none, name := dotJoin [root, version, "primary".toList], curated := a.curated, scaffolds := a.scaffolds }
  | some k =>
    if k = sHaplotig then
      pure { key := some "additional_haplotigs".toList, name := dotJoin [root, version, "additional_haplotigs".toList], curated := true,
             scaffolds := a.scaffolds }
    else pure { key := a.key, name := dotJoin [root, version, lowerStr k ++ ['s']], curated := a.curated, scaffolds := a.scaffolds }

def multiStep (root version : Str) (a : OutAsm) : R NamedAsm :=
  match a.key with
  | none => .error .attribute
  | some k =>
    if a.curated then pure { key := a.key, name := dotJoin [root, lowerStr k, version, "primary".toList], curated := true, scaffolds := a.scaffolds }
    else pure { key := a.key, name := dotJoin [root, version, lowerStr k ++ ['s']], curated := false, scaffolds := a.scaffolds }

/-- the curated assemblies other than `Primary` (merged into `all_haplotigs`) -/
def others (asms : List OutAsm) : List OutAsm := asms.filter (fun a => a.key ≠ some sPrimary ∧ a.curated)

def allHaplotigs (root version : Str) (asms : List OutAsm) : NamedAsm :=
  { key := some "all_haplotigs".toList, name := dotJoin [root, version, "all_haplotigs".toList], curated := true,
    scaffolds := (others asms).flatMap (·.scaffolds) }

theorem nameAssemblies_eq (asms : List OutAsm) (root version : Str) :
    nameAssemblies asms root version =
      if asms.any (fun a => a.key = some sPrimary) then do
        let named ← asms.filterMapM (primStep root version)
        if (others asms).isEmpty then pure named else pure (named ++ [allHaplotigs root version asms])
      else if asms.any (fun a => a.key = none) then asms.mapM (singleStep root version)
      else asms.mapM (multiStep root version) := by
  rfl

/-! ### the pure functions -/

/-- single-haplotype branch -/
def singleName (root version : Str) (a : OutAsm) : NamedAsm :=
  match a.key with
  | none => { key := none, name := dotJoin [root, version, sPrimaryLc], curated := a.curated, scaffolds := a.scaffolds }
  | some k =>
    if k = sHaplotig then
      { key := some sAdditional, name := dotJoin [root, version, sAdditional], curated := true, scaffolds := a.scaffolds }
    else { key := some k, name := dotJoin [root, version, lowerStr k ++ ['s']], curated := a.curated, scaffolds := a.scaffolds }

/-- multi-haplotype branch (keys are `some`) -/
def multiName (root version : Str) (a : OutAsm) : NamedAsm :=
  match a.key with
  | none => { key := none, name := [], curated := a.curated, scaffolds := a.scaffolds }   -- never used
  | some k =>
    if a.curated then { key := some k, name := dotJoin [root, lowerStr k, version, sPrimaryLc], curated := true, scaffolds := a.scaffolds }
    else { key := some k, name := dotJoin [root, version, lowerStr k ++ ['s']], curated := false, scaffolds := a.scaffolds }

/-- `Primary` branch, the assemblies that keep their own file -/
def primaryName (root version : Str) (a : OutAsm) : Option NamedAsm :=
  if a.key = some sPrimary then
    some { key := some sPrimary, name := dotJoin [root, version, sPrimaryLc], curated := a.curated, scaffolds := a.scaffolds }
  else if a.curated then none
  else match a.key with
    | some k => some { key := some k, name := dotJoin [root, version, lowerStr k ++ ['s']], curated := false, scaffolds := a.scaffolds }
    | none => none   -- never used: the model raises here

theorem singleStep_eq (root version : Str) (a : OutAsm) : singleStep root version a = .ok (singleName root version a) := by
  unfold singleStep singleName
  cases h : a.key with
  | none => rfl
  | some k => by_cases hk : k = sHaplotig <;> simp [hk] <;> rfl

theorem multiStep_eq (root version : Str) (a : OutAsm) (h : a.key ≠ none) :
    multiStep root version a = .ok (multiName root version a) := by
  unfold multiStep multiName
  cases hk : a.key with
  | none => exact absurd hk h
  | some k => cases hc : a.curated <;> simp <;> rfl

theorem primStep_eq (root version : Str) (a : OutAsm) (h : a.key = none → a.curated = true) :
    primStep root version a = .ok (primaryName root version a) := by
  unfold primStep primaryName
  by_cases hp : a.key = some sPrimary
  · simp only [hp, if_true]; rfl
  · simp only [hp, if_false]
    cases hc : a.curated with
    | true => simp; rfl
    | false =>
      cases hk : a.key with
      | none => rw [h hk] at hc; cases hc
      | some k => simp [lowerS]; rfl

theorem primStep_error (root version : Str) (a : OutAsm) (e : Err) (h : primStep root version a = .error e) :
    e = .attribute ∧ a.key = none ∧ a.curated = false := by
  cases hc : a.curated with
  | true =>
    rw [primStep_eq root version a (fun _ => hc)] at h; cases h
  | false =>
    cases hk : a.key with
    | some k =>
      rw [primStep_eq root version a (fun h' => by rw [hk] at h'; cases h')] at h; cases h
    | none =>
      unfold primStep at h
      simp [hk, hc, lowerS] at h
      cases h
      exact ⟨rfl, rfl, rfl⟩

theorem primStep_fails (root version : Str) (a : OutAsm) (hk : a.key = none) (hc : a.curated = false) :
    primStep root version a = .error .attribute := by
  unfold primStep
  simp [hk, hc, lowerS]
  rfl

/-! ### `mapM` / `filterMapM` of total steps -/

theorem mapM_of_ok {α β} (f : α → R β) (g : α → β) (l : List α) (h : ∀ a ∈ l, f a = .ok (g a)) :
    l.mapM f = .ok (l.map g) := by
  induction l with
  | nil => rfl
  | cons x xs ih =>
    rw [List.mapM_cons, h x (by simp), ih (fun a ha => h a (by simp [ha]))]; rfl

theorem filterMapM_of_ok {α β} (f : α → R (Option β)) (g : α → Option β) (l : List α) (h : ∀ a ∈ l, f a = .ok (g a)) :
    l.filterMapM f = .ok (l.filterMap g) := by
  induction l with
  | nil => rfl
  | cons x xs ih =>
    rw [List.filterMapM_cons, h x (by simp), ih (fun a ha => h a (by simp [ha]))]
    cases hg : g x with
    | none => simp [List.filterMap_cons, hg]; rfl
    | some b => simp [List.filterMap_cons, hg]; rfl

theorem filterMapM_error {α β} (f : α → R (Option β)) (l : List α) (e : Err)
    (hall : ∀ a ∈ l, ∀ e', f a = .error e' → e' = e) (hex : ∃ a ∈ l, f a = .error e) :
    l.filterMapM f = .error e := by
  induction l with
  | nil => obtain ⟨a, ha, _⟩ := hex; cases ha
  | cons x xs ih =>
    rw [List.filterMapM_cons]
    cases hx : f x with
    | error e' => rw [hall x (by simp) e' hx]; rfl
    | ok o =>
      have hex' : ∃ a ∈ xs, f a = .error e := by
        obtain ⟨a, ha, hfa⟩ := hex
        rcases List.mem_cons.1 ha with rfl | ha
        · rw [hx] at hfa; cases hfa
        · exact ⟨a, ha, hfa⟩
      have := ih (fun a ha => hall a (by simp [ha])) hex'
      cases o with
      | none => simp [this]; rfl
      | some b => simp [this]; rfl

/-! ### the three branches -/

theorem nameAssemblies_single (asms : List OutAsm) (root version : Str)
    (hp : ¬ HasKey asms (some sPrimary)) (hn : HasKey asms none) :
    nameAssemblies asms root version = .ok (asms.map (singleName root version)) := by
  rw [nameAssemblies_eq]
  rw [if_neg (by rw [any_key_iff]; exact hp), if_pos ((any_key_iff _ _).2 hn)]
  exact mapM_of_ok _ _ _ (fun a _ => singleStep_eq root version a)

theorem nameAssemblies_multi (asms : List OutAsm) (root version : Str)
    (hp : ¬ HasKey asms (some sPrimary)) (hn : ¬ HasKey asms none) :
    nameAssemblies asms root version = .ok (asms.map (multiName root version)) := by
  rw [nameAssemblies_eq]
  rw [if_neg (by rw [any_key_iff]; exact hp), if_neg (by rw [any_key_iff]; exact hn)]
  exact mapM_of_ok _ _ _ (fun a ha => multiStep_eq root version a (fun hk => hn ⟨a, ha, hk⟩))

/-- the merged assembly, present iff there is something to merge -/
def mergedPart (root version : Str) (asms : List OutAsm) : List NamedAsm :=
  if (others asms).isEmpty then [] else [allHaplotigs root version asms]

theorem nameAssemblies_primary (asms : List OutAsm) (root version : Str)
    (hp : HasKey asms (some sPrimary)) (hc : ∀ a ∈ asms, a.key = none → a.curated = true) :
    nameAssemblies asms root version =
      .ok (asms.filterMap (primaryName root version) ++ mergedPart root version asms) := by
  rw [nameAssemblies_eq, if_pos ((any_key_iff _ _).2 hp),
    filterMapM_of_ok _ _ _ (fun a ha => primStep_eq root version a (hc a ha))]
  unfold mergedPart
  cases (others asms).isEmpty <;> simp <;> rfl

theorem nameAssemblies_primary_fails (asms : List OutAsm) (root version : Str)
    (hp : HasKey asms (some sPrimary)) (hc : ∃ a ∈ asms, a.key = none ∧ a.curated = false) :
    nameAssemblies asms root version = .error .attribute := by
  rw [nameAssemblies_eq, if_pos ((any_key_iff _ _).2 hp)]
  rw [filterMapM_error (primStep root version) asms .attribute
    (fun a _ e' he => (primStep_error root version a e' he).1)
    (by obtain ⟨a, ha, hk, hcur⟩ := hc; exact ⟨a, ha, primStep_fails root version a hk hcur⟩)]
  rfl

/-! ### scaffolds are conserved -/

def allScaffolds (l : List OutAsm) : List Scaffold := l.flatMap (·.scaffolds)
def allNamedScaffolds (l : List NamedAsm) : List Scaffold := l.flatMap (·.scaffolds)

theorem singleName_scaffolds (root version : Str) (a : OutAsm) : (singleName root version a).scaffolds = a.scaffolds := by
  unfold singleName; split
  · rfl
  · split <;> rfl

theorem multiName_scaffolds (root version : Str) (a : OutAsm) : (multiName root version a).scaffolds = a.scaffolds := by
  unfold multiName; split
  · rfl
  · split <;> rfl

theorem flatMap_map_scaffolds (f : OutAsm → NamedAsm) (l : List OutAsm) (h : ∀ a, (f a).scaffolds = a.scaffolds) :
    allNamedScaffolds (l.map f) = allScaffolds l := by
  unfold allNamedScaffolds allScaffolds
  induction l with
  | nil => rfl
  | cons x xs ih => simp only [List.map_cons, List.flatMap_cons, ih, h]

/-- which assemblies keep their own file in the `Primary` branch -/
def keeps (a : OutAsm) : Bool := a.key = some sPrimary || !a.curated

theorem others_eq (asms : List OutAsm) : others asms = asms.filter (fun a => !keeps a) := by
  unfold others keeps
  congr 1; funext a
  by_cases h : a.key = some sPrimary <;> cases a.curated <;> simp [h]

theorem primaryName_kept (root version : Str) (l : List OutAsm) (hc : ∀ a ∈ l, a.key = none → a.curated = true) :
    allNamedScaffolds (l.filterMap (primaryName root version)) = allScaffolds (l.filter keeps) := by
  unfold allNamedScaffolds allScaffolds
  induction l with
  | nil => rfl
  | cons x xs ih =>
    have ih := ih (fun a ha => hc a (by simp [ha]))
    rw [List.filterMap_cons, List.filter_cons]
    by_cases hp : x.key = some sPrimary
    · have e1 : primaryName root version x = some { key := some sPrimary, name := dotJoin [root, version, sPrimaryLc], curated := x.curated, scaffolds := x.scaffolds } := by unfold primaryName; rw [if_pos hp]
      have e2 : keeps x = true := by unfold keeps; simp [hp]
      rw [e1, e2]; simp only [if_true, List.flatMap_cons, ih]
    · cases hcur : x.curated with
      | true =>
        have e1 : primaryName root version x = none := by unfold primaryName; rw [if_neg hp, if_pos hcur]
        have e2 : keeps x = false := by unfold keeps; simp [hp, hcur]
        rw [e1, e2]; simp only [Bool.false_eq_true, if_false, ih]
      | false =>
        cases hk : x.key with
        | none => have := hc x (by simp) hk; rw [this] at hcur; cases hcur
        | some k =>
          have e1 : primaryName root version x = some { key := some k, name := dotJoin [root, version, lowerStr k ++ ['s']], curated := false, scaffolds := x.scaffolds } := by
            unfold primaryName; rw [if_neg hp, if_neg (by simp [hcur])]; simp [hk]
          have e2 : keeps x = true := by unfold keeps; simp [hcur]
          rw [e1, e2]; simp only [if_true, List.flatMap_cons, ih]

theorem mergedPart_scaffolds (root version : Str) (asms : List OutAsm) :
    allNamedScaffolds (mergedPart root version asms) = allScaffolds (others asms) := by
  unfold mergedPart allNamedScaffolds allScaffolds
  cases h : (others asms).isEmpty with
  | true => simp at h; simp [h]
  | false => simp [allHaplotigs]

theorem primary_perm (root version : Str) (asms : List OutAsm) (hc : ∀ a ∈ asms, a.key = none → a.curated = true) :
    (allNamedScaffolds (asms.filterMap (primaryName root version) ++ mergedPart root version asms)).Perm
      (allScaffolds asms) := by
  have h1 : allNamedScaffolds (asms.filterMap (primaryName root version) ++ mergedPart root version asms) =
      allScaffolds (asms.filter keeps ++ asms.filter (fun a => !keeps a)) := by
    unfold allNamedScaffolds allScaffolds
    rw [List.flatMap_append, List.flatMap_append]
    have a := primaryName_kept root version asms hc
    have b := mergedPart_scaffolds root version asms
    unfold allNamedScaffolds allScaffolds at a b
    rw [a, b, others_eq]
  rw [h1]
  unfold allScaffolds
  exact List.Perm.flatMap_right _ (List.filter_append_perm keeps asms)

end AgpTpf.CliNames
