/-
  C02 "remapping never fails" (task W7-C02NOERR), helper part 4: geometry of one holder of a contig.
  * `lookup_inside`: a query lying wholly inside the span of one contig row returns exactly that row;
  * `holder_geom`: a stored result (before cutting: `KInv` + `RGeo`) that holds the contig row `F` of its scaffold —
    where `F` stands in it, what `first_is` / `last_is` return, and the result's coordinates.
-/
import AgpTpf.Proofs.C02NSolo
import AgpTpf.Proofs.C02SLookup
namespace AgpTpf.C02
open AgpTpf OverlapResult
open AgpTpf.C18 (Inv ids)
open AgpTpf.C12 (rowSpan meets pre meets_iff)

/-! ### the span of a row given by a decomposition -/

theorem rowSpan_of_decomp {src X Y : List Row} {r : Row} (hs : src = X ++ r :: Y) :
    src[X.length]? = some r ∧ (rowSpan src X.length).1 = 1 + rowsLength X ∧
      (rowSpan src X.length).2 = rowsLength X + r.length := by
  subst hs
  refine ⟨by simp, ?_, ?_⟩
  · simp [rowSpan]
  · have : (X ++ r :: Y).take (X.length + 1) = X ++ [r] := by
      rw [List.take_append]; simp [List.take_of_length_le]
    simp only [rowSpan, this, C18.rowsLength_append, C18.rowsLength_singleton]

/-- **a query inside one contig row returns that row** -/
theorem lookup_inside {src X Y : List Row} {F m : Fragment} (hlen : NonNeg src) (hs : src = X ++ .frag F :: Y)
    (h1 : rowsLength X + 1 ≤ m.start) (h2 : m.start ≤ m.stop) (h3 : m.stop ≤ rowsLength X + F.length) :
    ∃ o0, findOverlaps src m = .ok (some o0) ∧ o0.rows = [.frag F] ∧ o0.start = rowsLength X + 1 ∧
      o0.stop = rowsLength X + F.length := by
  obtain ⟨hk, hs1, hs2⟩ := rowSpan_of_decomp hs
  have hmeet : meets src m.start m.stop X.length = true :=
    (meets_iff _ _ _ _).2 ⟨F, hk, by rw [hs1]; omega, by rw [hs2]; simp only [Row.length]; omega⟩
  obtain ⟨o, ho⟩ := lookup_exists hlen X.length hmeet
  obtain ⟨i, j, hi, hj, hall, _, hst, hen, hrows⟩ := lookup_some hlen ho
  obtain ⟨hik, hkj⟩ := hall X.length hmeet
  have hi' : i = X.length := by
    by_cases h : i < X.length
    · exfalso
      obtain ⟨_, _, _, q⟩ := (meets_iff _ _ _ _).1 hi
      have := rowSpan_lt src hlen h
      rw [hs1] at this; omega
    · omega
  have hj' : j = X.length := by
    by_cases h : X.length < j
    · exfalso
      obtain ⟨_, _, q, _⟩ := (meets_iff _ _ _ _).1 hj
      have := rowSpan_lt src hlen h
      rw [hs2] at this; simp only [Row.length] at this; omega
    · omega
  subst hi'
  rw [hj'] at hen hrows
  refine ⟨o, ho, ?_, by rw [hst, hs1]; omega, by rw [hen, hs2]; rfl⟩
  rw [hrows, hs]
  simp

/-! ### one holder -/

/-- rows before a row of a slice end before it -/
theorem rowsLength_nonneg' {l : List Row} (h : NonNeg l) : 0 ≤ rowsLength l := rowsLength_nonneg h

theorem ids_mem_of_frag {l : List Row} {g : Fragment} (h : Row.frag g ∈ l) : g.oid ∈ ids l := by
  induction l with
  | nil => cases h
  | cons r t ih =>
    rcases List.mem_cons.1 h with e | h'
    · subst e; rw [C18.ids_cons_frag]; simp
    · cases r with
      | frag f => rw [C18.ids_cons_frag]; exact List.mem_cons_of_mem _ (ih h')
      | gap g' => rw [C18.ids_cons_gap]; exact ih h'

/-- **where the contig stands in a holder.**  `o` a stored result before cutting (`Inv`, `RGeo` w.r.t. its scaffold
    `src = X ++ F :: Y`), `F ∈ o.rows`.  Then `first_is(F)`, `last_is(F)` return `a`, `c` with:
    `a` ⇒ the result begins where `F` begins; `c` ⇒ it ends where `F` ends; a bait beginning behind `F`'s first base
    forces `a`, a bait ending before `F`'s last base forces `c`; and the bait meets `F`. -/
theorem holder_geom {src X Y : List Row} {F : Fragment} {o : OverlapResult} (hlen : NonNeg src) (hd : (ids src).Nodup)
    (hI : Inv src o) (hG : RGeo src o) (hs : src = X ++ .frag F :: Y) (hm : Row.frag F ∈ o.rows) :
    ∃ a c, firstIs o F = .ok a ∧ lastIs o F = .ok c ∧
      (a = true → o.start = rowsLength X + 1) ∧ (c = true → o.stop = rowsLength X + F.length) ∧
      (rowsLength X + 1 < o.bait.start → a = true) ∧ (o.bait.stop < rowsLength X + F.length → c = true) ∧
      rowsLength X + 1 ≤ o.bait.stop ∧ o.bait.start ≤ rowsLength X + F.length := by
  obtain ⟨L, R, hrows⟩ := List.append_of_mem hm
  obtain ⟨A, B, hsl, hst⟩ := hG.slice
  have hsl' : src = (A ++ L) ++ .frag F :: (R ++ B) := by rw [hsl, hrows]; simp
  have hX : X = A ++ L := decomp_unique hd hs hsl'
  have hmeet := hG.meets X F Y hs hm
  have hnnL : NonNeg L := by
    intro r hr; apply hlen; rw [hsl']; simp [hr]
  have hnnR : NonNeg R := by
    intro r hr; apply hlen; rw [hsl']; simp [hr]
  have hspan := hI.span
  have hdist := hI.distinct
  have hne : o.rows ≠ [] := by rw [hrows]; simp
  obtain ⟨a, ha⟩ := firstIs_ok_of_ne F hne
  obtain ⟨c, hc⟩ := lastIs_ok_of_ne F hne
  -- `a` is true only when nothing stands before `F`
  have haL : a = true → L = [] := by
    intro hat
    cases hL : L with
    | nil => rfl
    | cons l0 L' =>
      exfalso
      rw [hL] at hrows
      rw [C18.firstIs_cons o F l0 (L' ++ .frag F :: R) (by rw [hrows]; simp)] at ha
      cases ha
      obtain ⟨g, rfl, hg⟩ := C01.rowIs_true hat
      rw [hrows] at hdist
      simp only [List.cons_append, C18.ids_cons_frag, C18.ids_append, List.nodup_cons] at hdist
      exact hdist.1 (by rw [hg]; simp)
  have hcR : c = true → R = [] := by
    intro hct
    rcases C18.list_nil_or_concat R with hR | ⟨R', l0, hR⟩
    · exact hR
    · exfalso
      rw [hR] at hrows
      rw [C18.lastIs_concat o F l0 (L ++ .frag F :: R') (by rw [hrows]; simp)] at hc
      cases hc
      obtain ⟨g, rfl, hg⟩ := C01.rowIs_true hct
      rw [hrows] at hdist
      simp only [C18.ids_append, C18.ids_cons_frag] at hdist
      have h2 := (List.nodup_append.mp hdist).2.1
      rw [List.nodup_cons] at h2
      exact h2.1 (by rw [hg]; simp)
  have hLa : L = [] → a = true := by
    intro hL
    rw [hL] at hrows
    rw [C18.firstIs_cons o F (.frag F) R (by rw [hrows]; simp), C18.rowIs_self] at ha
    cases ha; rfl
  have hRc : R = [] → c = true := by
    intro hR
    rw [hR] at hrows
    rw [C18.lastIs_concat o F (.frag F) L hrows, C18.rowIs_self] at hc
    cases hc; rfl
  refine ⟨a, c, ha, hc, ?_, ?_, ?_, ?_, by have := hmeet.1; omega, hmeet.2⟩
  · intro hat
    rw [hst, hX, haL hat]; simp; omega
  · intro hct
    have hR := hcR hct
    rw [hrows, hR, C18.rowsLength_append, C18.rowsLength_singleton] at hspan
    rw [hX, C18.rowsLength_append]
    simp only [Row.length] at hspan
    omega
  · intro hlt
    apply hLa
    cases hL : L with
    | nil => rfl
    | cons l0 L' =>
      exfalso
      -- the first row of the result is a fragment lying wholly before `F`, yet it must meet the bait
      rcases hI.noTerminalGap with h0 | ⟨⟨f, t, hft⟩, _⟩
      · exact hne h0
      · rw [hrows, hL] at hft
        simp only [List.cons_append, List.cons.injEq] at hft
        obtain ⟨rfl, _⟩ := hft
        have hsf : src = A ++ .frag f :: (L' ++ .frag F :: (R ++ B)) := by rw [hsl', hL]; simp
        have := (hG.meets A f _ hsf (by rw [hrows, hL]; simp)).2
        have hnn' : NonNeg L' := fun r hr => hnnL r (by rw [hL]; simp [hr])
        have := rowsLength_nonneg hnn'
        rw [hX, hL, C18.rowsLength_append, C18.rowsLength_cons] at hlt
        simp only [Row.length] at hlt
        omega
  · intro hlt
    apply hRc
    rcases C18.list_nil_or_concat R with hR | ⟨R', l0, hR⟩
    · exact hR
    · exfalso
      rcases hI.noTerminalGap with h0 | ⟨_, ⟨f, t, hft⟩⟩
      · exact hne h0
      · rw [hrows, hR] at hft
        have e : L ++ .frag F :: (R' ++ [l0]) = (L ++ .frag F :: R') ++ [l0] := by simp
        rw [e] at hft
        obtain ⟨_, hl0⟩ := List.append_inj' hft (by simp)
        simp only [List.cons.injEq, and_true] at hl0
        subst hl0
        have hsf : src = (A ++ L ++ .frag F :: R') ++ .frag f :: B := by rw [hsl', hR]; simp
        have h1 := (hG.meets _ f _ hsf (by rw [hrows, hR]; simp)).1
        have hnn' : NonNeg R' := fun r hr => hnnR r (by rw [hR]; simp [hr])
        have h2 := rowsLength_nonneg hnn'
        rw [C18.rowsLength_append, C18.rowsLength_cons, ← hX] at h1
        simp only [Row.length] at h1
        omega

end AgpTpf.C02
