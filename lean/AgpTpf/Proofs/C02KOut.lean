/-
  C02 core (task W6-C02CORE), helper part 9:
  * with the lookup covering every contig base inside the bait (`lookup_covers_bait`, Proofs/C02KSafe.lean), "inside the
    lookup span" can be dropped from `CoreKept` (`coreKept_all`);
  * two output scaffolds of one output assembly that share a contig base are the same scaffold (C01 `remap_exactly_once`);
  * two DIFFERENT stored results never hold the same contig base (C01 `remapToInput_partition`).
-/
import AgpTpf.Proofs.C02KAdded
import AgpTpf.Proofs.C02KRows
import AgpTpf.Proofs.C09RUnique
import AgpTpf.Properties.C01
namespace AgpTpf.C02
open AgpTpf OverlapResult
open AgpTpf.C18 (Inv ids rowsLength_nil rowsLength_cons rowsLength_append rowsLength_singleton)
open AgpTpf.C01 (WFInput inputFrags)

/-- with the lookup covering the bait: EVERY contig base of the scaffold in the core is inside the result's span -/
theorem coreKept_all {src : List Row} {M : Int} {bait : Fragment} {o0 o : OverlapResult} (hlen : NonNeg src) (hM : 0 ≤ M)
    (hl : findOverlaps src bait = .ok (some o0)) (hk : KInv src M o0.start o0.stop bait o) {x : Int}
    (hc : ContigAt src x) (h1 : bait.start + M ≤ x) (h2 : x ≤ bait.stop - M) : o.start ≤ x ∧ x ≤ o.stop := by
  obtain ⟨c1, c2⟩ := lookup_covers_bait hlen hl hc (by omega) (by omega)
  exact hk.core x c1 c2 hc (by rw [hk.bait]; exact h1) (by rw [hk.bait]; exact h2)

/-! ### one scaffold only -/

/-- two scaffolds of one output assembly holding fragments that share a contig base are the same scaffold -/
theorem shared_base_same_scaffold (input ptx : List Scaffold) (prefix_ : Str) (joinGap : Option Gap) (err : Int)
    (outs : List OutAsm) (stats : Stats) (hwf : WFInput input)
    (h : remap input ptx prefix_ joinGap err = .ok (outs, stats))
    (a : OutAsm) (ha : a ∈ outs) (s s' : Scaffold) (hs : s ∈ a.scaffolds) (hs' : s' ∈ a.scaffolds)
    (f f' : Fragment) (hf : Row.frag f ∈ s.rows) (hf' : Row.frag f' ∈ s'.rows)
    (hname : f.name = f'.name) (x : Int) (hx : f.start ≤ x ∧ x ≤ f.stop) (hx' : f'.start ≤ x ∧ x ≤ f'.stop) :
    s = s' := by
  apply Classical.byContradiction
  intro hne
  have hk : f.keyTuple ∈ C01.keysOf s.rows := C09.mem_keysOf_of_frag _ _ hf
  have hk' : f'.keyTuple ∈ C01.keysOf s'.rows := C09.mem_keysOf_of_frag _ _ hf'
  have hkO : f.keyTuple ∈ C01.outputTriples outs := by
    rw [C09.outputTriples_eq]
    exact List.mem_flatMap.mpr ⟨a, ha, List.mem_flatMap.mpr ⟨s, hs, hk⟩⟩
  obtain ⟨_, F, hF, hFn, hF1, hF2⟩ := (C01.remap_partitions input ptx prefix_ joinGap err outs stats hwf h).2 _ hkO
  have hone := C01.remap_exactly_once input ptx prefix_ joinGap err outs stats hwf h F hF x
    (by simp only [Fragment.keyTuple] at hF1; omega) (by simp only [Fragment.keyTuple] at hF2; omega)
  have hFn' : F.name = f.name := hFn
  have hc : C01.coversK F.name x f.keyTuple = true := by
    unfold C01.coversK
    exact decide_eq_true ⟨hFn'.symm, hx.1, hx.2⟩
  have hc' : C01.coversK F.name x f'.keyTuple = true := by
    unfold C01.coversK
    exact decide_eq_true ⟨hname.symm.trans hFn'.symm, hx'.1, hx'.2⟩
  have hperm : outs.Perm (a :: outs.erase a) := List.perm_cons_erase ha
  have hperm2 : a.scaffolds.Perm (s :: s' :: (a.scaffolds.erase s).erase s') := by
    have h1 := List.perm_cons_erase hs
    have hm : s' ∈ a.scaffolds.erase s := (List.mem_erase_of_ne (fun e => hne e.symm)).mpr hs'
    exact h1.trans ((List.perm_cons_erase hm).cons s)
  rw [C09.outputTriples_eq, (hperm.flatMap_right C09.asmTriples).countP_eq] at hone
  simp only [List.flatMap_cons, List.countP_append] at hone
  have hasm : (C09.asmTriples a).countP (C01.coversK F.name x) ≥ 2 := by
    unfold C09.asmTriples
    rw [(hperm2.flatMap_right (fun s => C01.keysOf s.rows)).countP_eq]
    simp only [List.flatMap_cons, List.countP_append]
    have c1 := C09.countP_pos_of_mem (C01.coversK F.name x) _ _ hk hc
    have c2 := C09.countP_pos_of_mem (C01.coversK F.name x) _ _ hk' hc'
    omega
  omega

/-! ### two different stored results never hold the same contig base -/

theorem storeFrags_two {store : List Res} {i j : Nat} {r r' : Res} (hne : i ≠ j) (hi : store[i]? = some r)
    (hj : store[j]? = some r') (q : Fragment → Bool) :
    (C01.resFrags r).countP q + (C01.resFrags r').countP q ≤ (C01.storeFrags store).countP q := by
  have key : ∀ (store : List Res) (i j : Nat) (r r' : Res), i < j → store[i]? = some r → store[j]? = some r' →
      (C01.resFrags r).countP q + (C01.resFrags r').countP q ≤ (C01.storeFrags store).countP q := by
    intro store
    induction store with
    | nil => intro i j r r' _ hi; simp at hi
    | cons a t ih =>
      intro i j r r' hlt hi hj
      unfold C01.storeFrags
      rw [List.flatMap_cons, List.countP_append]
      cases i with
      | zero =>
        simp only [List.getElem?_cons_zero, Option.some.injEq] at hi
        subst hi
        obtain ⟨j', rfl⟩ : ∃ j', j = j' + 1 := ⟨j - 1, by omega⟩
        simp only [List.getElem?_cons_succ] at hj
        have hm : r' ∈ t := List.mem_of_getElem? hj
        have : (C01.resFrags r').countP q ≤ (t.flatMap C01.resFrags).countP q := by
          obtain ⟨t1, t2, rfl⟩ := List.append_of_mem hm
          simp only [List.flatMap_append, List.flatMap_cons, List.countP_append]
          omega
        omega
      | succ i' =>
        obtain ⟨j', rfl⟩ : ∃ j', j = j' + 1 := ⟨j - 1, by omega⟩
        simp only [List.getElem?_cons_succ] at hi hj
        have := ih i' j' r r' (by omega) hi hj
        unfold C01.storeFrags at this
        omega
  rcases Nat.lt_or_gt_of_ne hne with hlt | hlt
  · exact key store i j r r' hlt hi hj
  · have := key store j i r' r hlt hj hi
    omega

/-- for a well-formed input: fragment rows `g`, `g'` of two DIFFERENT stored results (both still having rows) of the
    build returned by `remap_to_input_assembly` do not share a contig base -/
theorem stored_rows_disjoint (input ptx : List Scaffold) (prefix_ : Str) (joinGap : Option Gap) (err : Int) (b : Build)
    (hwf : WFInput input) (h : remapToInput input ptx prefix_ joinGap err = .ok b)
    {i j : Nat} {r r' : Res} (hne : i ≠ j) (hi : b.store[i]? = some r) (hj : b.store[j]? = some r')
    {g g' : Fragment} (hg : Row.frag g ∈ r.o.rows) (hg' : Row.frag g' ∈ r'.o.rows) (hname : g.name = g'.name)
    (x : Int) (hx : g.start ≤ x ∧ x ≤ g.stop) (hx' : g'.start ≤ x ∧ x ≤ g'.stop) : False := by
  have hadd := remapToInput_addedOK input ptx prefix_ joinGap err b h
  have ha : r.added = true := by
    cases hc : r.added with
    | true => rfl
    | false => have := hadd r (List.mem_of_getElem? hi) hc; rw [this] at hg; cases hg
  have ha' : r'.added = true := by
    cases hc : r'.added with
    | true => rfl
    | false => have := hadd r' (List.mem_of_getElem? hj) hc; rw [this] at hg'; cases hg'
  obtain ⟨p1, p2⟩ := C01.remapToInput_partition input ptx prefix_ joinGap err b hwf h
  have hgs : g ∈ C01.storeFrags b.store ++ C01.extraFrags b.extra := by
    apply List.mem_append_left
    unfold C01.storeFrags
    exact List.mem_flatMap.mpr ⟨r, List.mem_of_getElem? hi, by simp [C01.resFrags, ha, C01.mem_fragmentsOf.mpr hg]⟩
  obtain ⟨F, hF, hP⟩ := p2 g hgs
  obtain ⟨q1, q2, _, q4, _⟩ := hP
  have hcov : C01.covers g.name x F = true := by
    simp only [C01.covers, decide_eq_true_eq]
    exact ⟨q4.symm, by omega, by omega⟩
  have hone := hwf.cover_count hF hcov
  have htot := p1 g.name x
  rw [hone, List.countP_append] at htot
  have h2 := storeFrags_two hne hi hj (C01.covers g.name x)
  have c1 : 1 ≤ (C01.resFrags r).countP (C01.covers g.name x) :=
    List.countP_pos_iff.mpr ⟨g, by simp [C01.resFrags, ha, C01.mem_fragmentsOf.mpr hg],
      by unfold C01.covers; exact decide_eq_true ⟨rfl, hx.1, hx.2⟩⟩
  have c2 : 1 ≤ (C01.resFrags r').countP (C01.covers g.name x) :=
    List.countP_pos_iff.mpr ⟨g', by simp [C01.resFrags, ha', C01.mem_fragmentsOf.mpr hg'],
      by unfold C01.covers; exact decide_eq_true ⟨hname.symm, hx'.1, hx'.2⟩⟩
  omega

end AgpTpf.C02
