/-
  C02 (aligned maps), part 3: fusing the pieces of every Pretext scaffold, the split into assemblies, statistics.
-/
import AgpTpf.Proofs.C02ALeft
import AgpTpf.Proofs.C08Out
namespace AgpTpf.C02
open AgpTpf
open AgpTpf.C09 (Item fuseStep itemOfRes itemOfExtra fuseItems fuseAcc fuseByName_eq fuseStep_none fuseStep_some
  splitLoop finishAssemblies assembliesFused_eq)
open AgpTpf.C08 (PlainSc splitFold_plain range_map_getD junctionSet_ok_of_strands filterMap_map_some appendRows_nil)

/-! ### fusing groups of items that share a key -/

theorem dSet_append_last {κ ν : Type} [DecidableEq κ] (acc : List (κ × ν)) (k : κ) (s v : ν) (h : k ∉ acc.map (·.1)) :
    dSet (acc ++ [(k, s)]) k v = acc ++ [(k, v)] := by
  induction acc with
  | nil => simp [dSet]
  | cons a r ih =>
    obtain ⟨k', v'⟩ := a
    simp only [List.map_cons, List.mem_cons, not_or] at h
    have hne : ¬ (k' = k) := fun e => h.1 e.symm
    simp only [List.cons_append, dSet, hne, if_false, ih h.2]

theorem foldl_fuseStep_same (k : C09.FKey) (acc : List (C09.FKey × Scaffold)) (hacc : k ∉ acc.map (·.1))
    (its : List Item) (hk : ∀ it ∈ its, it.key = k) (s : Scaffold) :
    its.foldl fuseStep (acc ++ [(k, s)]) =
      acc ++ [(k, { s with rows := its.foldl (fun built it => it.add built) s.rows })] := by
  induction its generalizing s with
  | nil => rfl
  | cons it r ih =>
    have hkey := hk it (by simp)
    have hget : dGet? (acc ++ [(k, s)]) it.key = some s := by
      rw [hkey, Dict.dGet?_append_single, (Dict.dGet?_none_iff acc k).2 hacc]; simp
    simp only [List.foldl_cons]
    rw [fuseStep_some _ it s hget, hkey, dSet_append_last acc k s _ hacc, ih (fun x hx => hk x (by simp [hx]))]

/-- a group: a key, a prototype and the items (all with that key and prototype) fused under it -/
abbrev Group := C09.FKey × Scaffold × List Item

def Group.ok (g : Group) : Prop := g.2.2 ≠ [] ∧ ∀ it ∈ g.2.2, it.key = g.1 ∧ it.proto = g.2.1

def Group.scaffold (g : Group) : Scaffold :=
  { g.2.1 with rows := g.2.2.foldl (fun built it => it.add built) [] }

theorem foldl_fuseStep_groups (gs : List Group) (acc : List (C09.FKey × Scaffold)) (hok : ∀ g ∈ gs, g.ok)
    (hnd : (gs.map (·.1)).Nodup) (hdis : ∀ g ∈ gs, g.1 ∉ acc.map (·.1)) :
    (gs.flatMap (·.2.2)).foldl fuseStep acc = acc ++ gs.map (fun g => (g.1, g.scaffold)) := by
  induction gs generalizing acc with
  | nil => simp
  | cons g r ih =>
    simp only [List.map_cons, List.nodup_cons] at hnd
    obtain ⟨k, pr, its⟩ := g
    obtain ⟨hne, hits⟩ := hok (k, pr, its) (by simp)
    cases its with
    | nil => exact absurd rfl hne
    | cons it t =>
      have hacc : k ∉ acc.map (·.1) := hdis (k, pr, it :: t) (by simp)
      have h0 : dGet? acc it.key = none := by
        rw [(hits it (by simp)).1]; exact (Dict.dGet?_none_iff _ _).2 hacc
      simp only [List.flatMap_cons, List.foldl_append, List.foldl_cons]
      rw [fuseStep_none acc it h0, (hits it (by simp)).1, (hits it (by simp)).2,
        foldl_fuseStep_same k acc hacc t (fun x hx => (hits x (by simp [hx])).1)]
      rw [ih _ (fun g hg => hok g (by simp [hg])) hnd.2]
      · simp [Group.scaffold]
      · intro g hg
        simp only [List.map_append, List.map_cons, List.map_nil, List.mem_append, List.mem_singleton, not_or]
        refine ⟨hdis g (by simp [hg]), ?_⟩
        intro e
        exact hnd.1 (List.mem_map.2 ⟨g, hg, e⟩)

theorem flatMap_congr' {α β} (l : List α) (f g : α → List β) (h : ∀ a ∈ l, f a = g a) : l.flatMap f = l.flatMap g := by
  induction l with
  | nil => rfl
  | cons a r ih => simp only [List.flatMap_cons, h a (by simp), ih (fun x hx => h x (by simp [hx]))]

/-! ### the fused scaffolds of an aligned map -/

/-- **the rows of the output scaffold of Pretext scaffold `S`**: the rows of its pieces — the input rows of each piece,
    reversed with strands negated iff the piece is on the minus strand (`toScaffoldRows`) — in Pretext order, the join
    gap between consecutive pieces (`Scaffold.append_scaffold`) -/
def expectedRows (input : List Scaffold) (jg : Gap) (S : Scaffold) : List Row :=
  S.fragments.foldl (fun built p => Scaffold.appendRows built (pieceO input p).toScaffoldRows (some jg)) []

def pretextOut (input : List Scaffold) (jg : Gap) (S : Scaffold) : Scaffold :=
  { name := outName S, rows := expectedRows input jg S, tag := none, haplotype := none, rank := 3,
    originalName := some S.name, originalTags := some [] }

/-- all fused scaffolds: one per Pretext scaffold (Pretext order), then the left-over scaffolds (input order) -/
def expectedScaffolds (input ptx : List Scaffold) (jg : Gap) : List Scaffold :=
  ptx.map (pretextOut input jg) ++ (expectedExtra (claimedKeys input ptx) jg input).map (·.1)

def storeItem (input : List Scaffold) (jg : Gap) (S : Scaffold) (p : Fragment) : Item :=
  { key := (none, none, outName S)
    proto := { name := outName S, tag := none, haplotype := none, rank := 3,
               originalName := some S.name, originalTags := some [] }
    rows := (pieceO input p).toScaffoldRows
    add := fun built => Scaffold.appendRows built (pieceO input p).toScaffoldRows (some jg) }

def extraItem (jg : Gap) (e : Scaffold × Option (Fragment × List Gap)) : Item :=
  { key := (e.1.tag, e.1.haplotype, e.1.name)
    proto := { name := e.1.name, tag := e.1.tag, haplotype := e.1.haplotype, rank := e.1.rank,
               originalName := e.1.originalName, originalTags := e.1.originalTags }
    rows := e.1.rows
    add := fun built => built ++ gapsBeforeLeftover (some jg) built e.2 ++ e.1.rows }

theorem itemOfRes_piece (b : Build) (input : List Scaffold) (jg : Gap) (S : Scaffold) (p : Fragment)
    (hj : b.joinGap = some jg) (hne : (pieceO input p).rows ≠ []) :
    itemOfRes b (pieceRes input S p) = some (storeItem input jg S p) := by
  unfold itemOfRes
  have h1 : (pieceRes input S p).o.rows.isEmpty = false := by
    show (pieceO input p).rows.isEmpty = false
    cases h : (pieceO input p).rows <;> simp_all
  have h2 : ¬ (¬ (pieceRes input S p).added = true ∨ (pieceRes input S p).o.rows.isEmpty = true) := by
    rw [h1]; simp [pieceRes]
  rw [if_neg h2, hj]
  rfl

theorem itemOfExtra_entry (b : Build) (jg : Gap) (e : Scaffold × Option (Fragment × List Gap))
    (hj : b.joinGap = some jg) (hne : e.1.rows ≠ []) : itemOfExtra b e = some (extraItem jg e) := by
  unfold itemOfExtra
  have h1 : e.1.rows.isEmpty = false := by cases h : e.1.rows <;> simp_all
  rw [if_neg (by rw [h1]; simp), hj]
  rfl

theorem leftoverEntry_fields {keys : List Key} {jg : Gap} {sc : Scaffold} {e} (h : leftoverEntry keys jg sc = some e) :
    e.1.name = sc.name ∧ e.1.rows = (leftover keys jg sc.rows).1 ∧ e.1.rows ≠ [] ∧ e.1.tag = none ∧
      e.1.haplotype = none ∧ e.1.rank = 3 := by
  unfold leftoverEntry at h
  split at h
  · cases h
  · next hne =>
    cases h
    refine ⟨rfl, rfl, ?_, rfl, rfl, rfl⟩
    intro e; apply hne; simp only at e; rw [e]; rfl

theorem expectedExtra_mem {keys : List Key} {jg : Gap} {input : List Scaffold} {e}
    (h : e ∈ expectedExtra keys jg input) : ∃ sc ∈ input, leftoverEntry keys jg sc = some e := by
  unfold expectedExtra at h
  exact List.mem_filterMap.1 h

/-- pairwise different output names: no two Pretext scaffolds begin with a piece of the same input scaffold, and none
    begins with a piece of an input scaffold that also has left-over contigs (unpainted Pretext scaffolds are named
    after their first row, and `scaffolds_fused_by_name` fuses whatever has the same name) -/
def NoClash (input ptx : List Scaffold) (jg : Gap) : Prop :=
  ((expectedScaffolds input ptx jg).map (·.name)).Nodup

def groupOfS (input : List Scaffold) (jg : Gap) (S : Scaffold) : Group :=
  ((none, none, outName S),
   { name := outName S, tag := none, haplotype := none, rank := 3, originalName := some S.name, originalTags := some [] },
   S.fragments.map (storeItem input jg S))

def groupOfE (jg : Gap) (e : Scaffold × Option (Fragment × List Gap)) : Group :=
  ((e.1.tag, e.1.haplotype, e.1.name), (extraItem jg e).proto, [extraItem jg e])

theorem groupOfS_scaffold (input : List Scaffold) (jg : Gap) (S : Scaffold) :
    (groupOfS input jg S).scaffold = pretextOut input jg S := by
  simp only [Group.scaffold, groupOfS, pretextOut, expectedRows, storeItem, List.foldl_map]

theorem groupOfE_scaffold (jg : Gap) (e : Scaffold × Option (Fragment × List Gap)) :
    (groupOfE jg e).scaffold = e.1 := by
  simp only [Group.scaffold, groupOfE, extraItem, List.foldl_cons, List.foldl_nil, List.nil_append,
    gapsBeforeLeftover, List.isEmpty_nil, if_true]

theorem fuseByName_aligned (input ptx : List Scaffold) (jg : Gap) (err : Int) (ha : Aligned input ptx err)
    (hnc : NoClash input ptx jg) (b : Build) (hj : b.joinGap = some jg) (hstore : b.store = expectedStore input ptx)
    (hextra : b.extra = expectedExtra (claimedKeys input ptx) jg input) :
    fuseByName b = expectedScaffolds input ptx jg := by
  have hrowsne : ∀ S ∈ ptx, ∀ p ∈ S.fragments, (pieceO input p).rows ≠ [] := by
    intro S hS p hp
    obtain ⟨sc, hfind, hfo⟩ := lookupPiece_spec ((ha.scaffolds S hS).pieces p hp).found
    exact (findOverlaps_shape sc.rows p _ (ha.lens sc (List.mem_of_find?_eq_some hfind)) hfo).2.2.1
  rw [fuseByName_eq]
  unfold fuseAcc fuseItems
  rw [hstore, hextra]
  have e1 : (expectedStore input ptx).filterMap (itemOfRes b) = (ptx.map (groupOfS input jg)).flatMap (·.2.2) := by
    unfold expectedStore
    rw [List.filterMap_flatMap, List.flatMap_map]
    apply flatMap_congr'
    intro S hS
    exact filterMap_map_some _ _ _ _ (fun p hp => itemOfRes_piece b input jg S p hj (hrowsne S hS p hp))
  have e2 : (expectedExtra (claimedKeys input ptx) jg input).filterMap (itemOfExtra b) =
      ((expectedExtra (claimedKeys input ptx) jg input).map (groupOfE jg)).flatMap (·.2.2) := by
    rw [List.flatMap_map]
    have h := filterMap_map_some (fun e => e) (itemOfExtra b) (extraItem jg) (expectedExtra (claimedKeys input ptx) jg input)
      (fun e he => by
        obtain ⟨sc, -, hsc⟩ := expectedExtra_mem he
        exact itemOfExtra_entry b jg e hj (leftoverEntry_fields hsc).2.2.1)
    rw [List.map_id'] at h
    rw [h]
    show _ = (expectedExtra (claimedKeys input ptx) jg input).flatMap (fun e => [extraItem jg e])
    generalize expectedExtra (claimedKeys input ptx) jg input = l
    induction l with
    | nil => rfl
    | cons a r ih => simp [ih]
  rw [e1, e2, ← List.flatMap_append]
  rw [foldl_fuseStep_groups _ []]
  · -- the scaffolds
    simp only [List.nil_append, List.map_append, List.map_map, expectedScaffolds]
    congr 1
    · apply List.map_congr_left
      intro S _
      exact groupOfS_scaffold input jg S
  · -- groups are well-formed
    intro g hg
    rcases List.mem_append.1 hg with h | h
    · obtain ⟨S, hS, rfl⟩ := List.mem_map.1 h
      obtain ⟨f0, r0, hrows⟩ := (ha.scaffolds S hS).head
      refine ⟨?_, ?_⟩
      · show S.fragments.map (storeItem input jg S) ≠ []
        simp [Scaffold.fragments, hrows, fragmentsOf]
      · intro it hit
        obtain ⟨p, -, rfl⟩ := List.mem_map.1 hit
        exact ⟨rfl, rfl⟩
    · obtain ⟨e, -, rfl⟩ := List.mem_map.1 h
      refine ⟨by simp [groupOfE], ?_⟩
      intro it hit
      simp only [groupOfE, List.mem_singleton] at hit
      subst hit
      exact ⟨rfl, rfl⟩
  · -- keys are pairwise different
    have hkeys : (ptx.map (groupOfS input jg) ++ (expectedExtra (claimedKeys input ptx) jg input).map (groupOfE jg)).map (·.1) =
        ((expectedScaffolds input ptx jg).map (·.name)).map (fun n => ((none : Option Str), (none : Option Str), n)) := by
      simp only [List.map_append, List.map_map, expectedScaffolds]
      congr 1
      apply List.map_congr_left
      intro e he
      obtain ⟨sc, -, hsc⟩ := expectedExtra_mem he
      obtain ⟨-, -, -, h4, h5, -⟩ := leftoverEntry_fields hsc
      simp [Function.comp, groupOfE, h4, h5]
    rw [hkeys]
    exact List.Pairwise.map _ (fun a b h e => h (by simpa using e)) hnc
  · intro g _; simp

/-! ### everything is primary, rank 3 -/

theorem expectedScaffolds_plain (input ptx : List Scaffold) (jg : Gap) : ∀ s ∈ expectedScaffolds input ptx jg, PlainSc s := by
  intro s hs
  unfold expectedScaffolds at hs
  rcases List.mem_append.1 hs with h | h
  · obtain ⟨S, -, rfl⟩ := List.mem_map.1 h; exact ⟨rfl, rfl, rfl⟩
  · obtain ⟨e, he, rfl⟩ := List.mem_map.1 h
    obtain ⟨sc, -, hsc⟩ := expectedExtra_mem he
    obtain ⟨-, -, -, h4, h5, h6⟩ := leftoverEntry_fields hsc
    exact ⟨h4, h5, h6⟩

/-- the output assemblies for a list of fused scaffolds that are all untagged, without haplotype, rank 3 -/
def primaryOnly (fs : List Scaffold) : List OutAsm :=
  if fs.isEmpty then [] else [{ key := none, curated := true, scaffolds := C20.smartSorted fs }]

theorem assembliesFused_plain (input : List Scaffold) (b : Build) (fs : List Scaffold) (hfs : fuseByName b = fs)
    (hplain : ∀ s ∈ fs, PlainSc s) (hin : ∀ sc ∈ input, ∃ J, sc.junctionSet = .ok J)
    (hout : ∀ s ∈ fs, ∃ J, s.junctionSet = .ok J) :
    ∃ st, assembliesFused input b = .ok (primaryOnly fs, st) ∧ st.cuts = b.cuts := by
  rw [assembliesFused_eq, hfs]
  unfold splitLoop
  rw [splitFold_plain _ _ hplain _ (Nat.le_refl _)]
  unfold finishAssemblies primaryOnly
  have hperm : (C20.smartSorted fs).Perm fs := C20.stableSort_perm _ _
  cases fs with
  | nil =>
    obtain ⟨st, hst⟩ := (C11.makeStats_ok_iff input [] b.cuts).2 ⟨hin, by simp⟩
    obtain ⟨-, -, -, -, hc, -⟩ := C11.makeStats_ok _ _ _ _ hst
    refine ⟨st, ?_, hc⟩
    simp [bind, Except.bind, pure, Except.pure, hst]
  | cons a r =>
    obtain ⟨st, hst⟩ := (C11.makeStats_ok_iff input
      [{ key := none, curated := true, scaffolds := C20.smartSorted (a :: r) }] b.cuts).2 ⟨hin, by
        intro o ho sc hsc
        simp only [List.mem_singleton] at ho
        subst ho
        exact hout sc (hperm.subset hsc)⟩
    obtain ⟨-, -, -, -, hc, -⟩ := C11.makeStats_ok _ _ _ _ hst
    refine ⟨st, ?_, hc⟩
    have hne : ¬ ((a :: r).length = 0) := by simp
    simp only [if_neg hne, List.isEmpty_nil, List.isEmpty_cons, if_true, pure, Except.pure, bind, Except.bind,
      List.mapM_cons, List.mapM_nil, range_map_getD, C20.smartSort_eq', hst, Bool.false_eq_true, if_false]

/-! ### strands of the output, for the statistics -/

theorem mem_fragmentsOf_iff (rows : List Row) (f : Fragment) : f ∈ fragmentsOf rows ↔ Row.frag f ∈ rows := by
  induction rows with
  | nil => simp [fragmentsOf]
  | cons r rs ih => cases r <;> simp [fragmentsOf, ih]

theorem fragmentsOf_appendRows (a b : List Row) (g : Option Gap) :
    fragmentsOf (Scaffold.appendRows a b g) = fragmentsOf a ++ fragmentsOf b := by
  unfold Scaffold.appendRows
  cases g with
  | none => exact C11.fragmentsOf_append a b
  | some g =>
    by_cases h : a.isEmpty = true
    · have : a = [] := by simpa using h
      subst this; simp [fragmentsOf]
    · simp only []
      rw [if_neg h]
      rw [C11.fragmentsOf_append, C11.fragmentsOf_append]
      simp [fragmentsOf]

theorem toScaffoldRows_strands (o : OverlapResult) (h : ∀ f ∈ fragmentsOf o.rows, f.strand = 1 ∨ f.strand = -1) :
    ∀ f ∈ fragmentsOf o.toScaffoldRows, f.strand = 1 ∨ f.strand = -1 := by
  unfold OverlapResult.toScaffoldRows
  split
  · intro f hf
    rw [C11.fragmentsOf_reverse] at hf
    obtain ⟨g, hg, rfl⟩ := List.mem_map.1 hf
    have := h g (by simpa using hg)
    simp only [Fragment.reverse]
    omega
  · exact h

theorem expectedRows_strands (input : List Scaffold) (jg : Gap) (S : Scaffold)
    (h : ∀ p ∈ S.fragments, ∀ f ∈ fragmentsOf (pieceO input p).rows, f.strand = 1 ∨ f.strand = -1) :
    ∀ f ∈ fragmentsOf (expectedRows input jg S), f.strand = 1 ∨ f.strand = -1 := by
  unfold expectedRows
  have key : ∀ (ps : List Fragment) (built : List Row),
      (∀ p ∈ ps, ∀ f ∈ fragmentsOf (pieceO input p).rows, f.strand = 1 ∨ f.strand = -1) →
      (∀ f ∈ fragmentsOf built, f.strand = 1 ∨ f.strand = -1) →
      ∀ f ∈ fragmentsOf (ps.foldl (fun built p => Scaffold.appendRows built (pieceO input p).toScaffoldRows (some jg)) built),
        f.strand = 1 ∨ f.strand = -1 := by
    intro ps
    induction ps with
    | nil => intro built _ hb; exact hb
    | cons p r ih =>
      intro built hp hb
      simp only [List.foldl_cons]
      apply ih _ (fun q hq => hp q (by simp [hq]))
      intro f hf
      rw [fragmentsOf_appendRows] at hf
      rcases List.mem_append.1 hf with hf | hf
      · exact hb f hf
      · exact toScaffoldRows_strands _ (hp p (by simp)) f hf
  exact key S.fragments [] h (by simp [fragmentsOf])

/-- every fused scaffold of an aligned map has a junction set when the input contigs have strands ±1 -/
theorem expectedScaffolds_junctions (input ptx : List Scaffold) (jg : Gap) (err : Int) (ha : Aligned input ptx err)
    (hstr : ∀ sc ∈ input, ∀ f ∈ sc.fragments, f.strand = 1 ∨ f.strand = -1) :
    ∀ s ∈ expectedScaffolds input ptx jg, ∃ J, s.junctionSet = .ok J := by
  intro s hs
  apply junctionSet_ok_of_strands
  unfold expectedScaffolds at hs
  rcases List.mem_append.1 hs with h | h
  · obtain ⟨S, hS, rfl⟩ := List.mem_map.1 h
    apply expectedRows_strands
    intro p hp f hf
    obtain ⟨sc, hfind, hfo⟩ := lookupPiece_spec ((ha.scaffolds S hS).pieces p hp).found
    have hsc := List.mem_of_find?_eq_some hfind
    obtain ⟨-, -, -, hinf⟩ := findOverlaps_shape sc.rows p _ (ha.lens sc hsc) hfo
    apply hstr sc hsc f
    rw [Scaffold.fragments, mem_fragmentsOf_iff]
    exact hinf.subset ((mem_fragmentsOf_iff _ _).1 hf)
  · obtain ⟨e, he, rfl⟩ := List.mem_map.1 h
    obtain ⟨sc, hsc, hle⟩ := expectedExtra_mem he
    obtain ⟨-, hrows, -⟩ := leftoverEntry_fields hle
    intro f hf
    rw [Scaffold.fragments, hrows, (leftover_spec _ jg sc.rows).1, List.mem_filter] at hf
    exact hstr sc hsc f hf.1

/-! ### order of the pieces inside an output scaffold -/

theorem foldl_appendRows_nonempty (jg : Gap) (rs : List (List Row)) (built : List Row) (hb : built ≠ []) :
    rs.foldl (fun built r => Scaffold.appendRows built r (some jg)) built =
      built ++ rs.flatMap (fun r => Row.gap jg :: r) := by
  induction rs generalizing built with
  | nil => simp
  | cons r t ih =>
    have he : built.isEmpty = false := by cases built <;> simp_all
    have h1 : Scaffold.appendRows built r (some jg) = built ++ [Row.gap jg] ++ r := by
      simp [Scaffold.appendRows, he]
    simp only [List.foldl_cons, h1]
    rw [ih _ (by simp)]
    simp

/-- the rows of a Pretext scaffold's output, spelled out: first piece, then join gap + piece, … in Pretext order -/
theorem expectedRows_eq (input : List Scaffold) (jg : Gap) (S : Scaffold) (p0 : Fragment) (ps : List Fragment)
    (hf : S.fragments = p0 :: ps) (hne : (pieceO input p0).rows ≠ []) :
    expectedRows input jg S =
      (pieceO input p0).toScaffoldRows ++ ps.flatMap (fun p => Row.gap jg :: (pieceO input p).toScaffoldRows) := by
  unfold expectedRows
  rw [hf]
  simp only [List.foldl_cons, appendRows_nil]
  have h := foldl_appendRows_nonempty jg (ps.map (fun p => (pieceO input p).toScaffoldRows))
    (pieceO input p0).toScaffoldRows (by
      unfold OverlapResult.toScaffoldRows
      split
      · simpa using hne
      · exact hne)
  rw [List.foldl_map] at h
  rw [h, List.flatMap_map]

/-- every piece is one contiguous run of rows of its Pretext scaffold's output -/
theorem piece_infix (input : List Scaffold) (jg : Gap) (S : Scaffold) (p : Fragment) (hp : p ∈ S.fragments) :
    (pieceO input p).toScaffoldRows <:+: expectedRows input jg S := by
  unfold expectedRows
  have key : ∀ (ps : List Fragment) (built : List Row), p ∈ ps →
      (pieceO input p).toScaffoldRows <:+:
        ps.foldl (fun built p => Scaffold.appendRows built (pieceO input p).toScaffoldRows (some jg)) built := by
    intro ps
    induction ps with
    | nil => intro _ h; cases h
    | cons q r ih =>
      intro built h
      simp only [List.foldl_cons]
      rcases List.mem_cons.1 h with rfl | h
      · have mono : ∀ (l : List Fragment) (b : List Row), b <:+:
            l.foldl (fun built p => Scaffold.appendRows built (pieceO input p).toScaffoldRows (some jg)) b := by
          intro l
          induction l with
          | nil => intro b; exact List.infix_refl _
          | cons x t iht =>
            intro b
            simp only [List.foldl_cons]
            exact (C09.appendRows_prefix b _ _).isInfix.trans (iht _)
        exact (C09.appendRows_suffix built _ _).isInfix.trans (mono r _)
      · exact ih _ h
  exact key S.fragments [] hp

end AgpTpf.C02
