/- C05 (b): `split` / `join` round trips -/
import AgpTpf.Model.Text
namespace AgpTpf.C05
open AgpTpf

theorem splitOnChar_ne_nil (sep : Char) (s : Str) : splitOnChar sep s ≠ [] := by
  induction s with
  | nil => simp [splitOnChar]
  | cons c cs ih =>
    unfold splitOnChar
    split
    · simp
    · split <;> simp

theorem splitOnChar_cons_sep (sep : Char) (s : Str) :
    splitOnChar sep (sep :: s) = [] :: splitOnChar sep s := by
  simp [splitOnChar]

theorem splitOnChar_no_sep (sep : Char) (f : Str) (h : sep ∉ f) : splitOnChar sep f = [f] := by
  induction f with
  | nil => rfl
  | cons c cs ih =>
    have hc : c ≠ sep := fun e => h (by simp [e])
    have hcs : sep ∉ cs := fun e => h (by simp [e])
    rw [splitOnChar]; simp only [hc, if_false, ih hcs]

theorem splitOnChar_append_sep (sep : Char) (f rest : Str) (h : sep ∉ f) :
    splitOnChar sep (f ++ sep :: rest) = f :: splitOnChar sep rest := by
  induction f with
  | nil => simp [splitOnChar]
  | cons c cs ih =>
    have hc : c ≠ sep := fun e => h (by simp [e])
    have hcs : sep ∉ cs := fun e => h (by simp [e])
    show splitOnChar sep (c :: (cs ++ sep :: rest)) = _
    rw [splitOnChar]; simp only [hc, if_false, ih hcs]

/-- (b) `sep.join(fields).split(sep) == fields` when no field contains `sep`. -/
theorem splitOnChar_joinWith (sep : Char) (fields : List Str) (hne : fields ≠ [])
    (h : ∀ f ∈ fields, sep ∉ f) : splitOnChar sep (joinWith sep fields) = fields := by
  induction fields with
  | nil => exact absurd rfl hne
  | cons f fs ih =>
    cases fs with
    | nil => exact splitOnChar_no_sep sep f (h f (by simp))
    | cons g gs =>
      show splitOnChar sep (f ++ sep :: joinWith sep (g :: gs)) = _
      rw [splitOnChar_append_sep sep f _ (h f (by simp)), ih (by simp) (fun x hx => h x (by simp [hx]))]

/-- the converse holds for every text: `sep.join(s.split(sep)) == s`. -/
theorem joinWith_splitOnChar (sep : Char) (s : Str) : joinWith sep (splitOnChar sep s) = s := by
  induction s with
  | nil => rfl
  | cons c cs ih =>
    rw [splitOnChar]
    split
    · rename_i hc
      have := splitOnChar_ne_nil sep cs
      revert this ih
      cases splitOnChar sep cs with
      | nil => intro _ h; exact absurd rfl h
      | cons f fs => intro ih _; subst hc; show [] ++ c :: joinWith c (f :: fs) = _; rw [ih]; rfl
    · have := splitOnChar_ne_nil sep cs
      revert this ih
      cases splitOnChar sep cs with
      | nil => intro _ h; exact absurd rfl h
      | cons f fs =>
        intro ih _
        cases fs with
        | nil => simp only [joinWith] at ih ⊢; rw [ih]
        | cons g gs =>
          show (c :: f) ++ sep :: joinWith sep (g :: gs) = _
          rw [← ih]; rfl

/-- fields produced by `split` never contain the separator. -/
theorem not_mem_of_mem_splitOnChar (sep : Char) (s : Str) : ∀ f ∈ splitOnChar sep s, sep ∉ f := by
  induction s with
  | nil => simp [splitOnChar]
  | cons c cs ih =>
    rw [splitOnChar]
    split
    · intro f hf; simp at hf; rcases hf with rfl | hf; simp; exact ih f hf
    · rename_i hc
      have := splitOnChar_ne_nil sep cs
      revert this ih
      cases splitOnChar sep cs with
      | nil => intro _ h; exact absurd rfl h
      | cons g gs =>
        intro ih _ f hf
        simp at hf
        rcases hf with rfl | hf
        · have := ih g (by simp)
          simp [this, Ne.symm hc]
        · exact ih f (by simp [hf])

theorem joinWith_no_sep_mem (sep c : Char) (fields : List Str) (hc : c ≠ sep)
    (h : ∀ f ∈ fields, c ∉ f) : c ∉ joinWith sep fields := by
  induction fields with
  | nil => simp [joinWith]
  | cons f fs ih =>
    cases fs with
    | nil => exact h f (by simp)
    | cons g gs =>
      show c ∉ f ++ sep :: joinWith sep (g :: gs)
      have := ih (fun x hx => h x (by simp [hx]))
      have hf := h f (by simp)
      simp [hf, hc, this]

end AgpTpf.C05
