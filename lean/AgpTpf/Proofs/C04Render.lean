/-
  C04 helper: rendering the scaffold of a record back from its residues gives the record with every
  non-ACGT symbol replaced by `N`.
-/
import AgpTpf.Proofs.C04Rows
namespace AgpTpf.C04
open AgpTpf

/-- what a forward walk over the rows writes: the addressed residues for a fragment, `N`s for a gap -/
def renderRows (res : Bytes) : List Row → Bytes
  | [] => []
  | .frag f :: rest => (res.drop (f.start - 1).toNat).take (f.stop - f.start + 1).toNat ++ renderRows res rest
  | .gap g :: rest => List.replicate g.length.toNat 78 ++ renderRows res rest

def maskN (b : Nat) : Nat := if isACGT b then b else 78

theorem map_maskN_of_all_true (l : Bytes) (n : Nat) (h : l.map isACGT = List.replicate n true) : l.map maskN = l := by
  rw [List.eq_replicate_iff] at h
  have : ∀ b ∈ l, maskN b = b := by
    intro b hb; simp [maskN, h.2 (isACGT b) (List.mem_map_of_mem hb)]
  rw [List.map_congr_left this, List.map_id']

theorem map_maskN_of_all_false (l : Bytes) (n : Nat) (h : l.map isACGT = List.replicate n false) :
    l.map maskN = List.replicate n 78 := by
  rw [List.eq_replicate_iff] at h ⊢
  refine ⟨by simpa using h.1, ?_⟩
  intro b hb
  obtain ⟨x, hx, rfl⟩ := List.mem_map.mp hb
  simp [maskN, h.2 (isACGT x) (List.mem_map_of_mem hx)]

theorem render_of_tiled (name : Str) (res : Bytes) (rows : List Row) : ∀ (oid o : Nat),
    Tiled name oid (o : Int) rows → rowsMask rows = (res.drop o).map isACGT →
    renderRows res rows = (res.drop o).map maskN := by
  induction rows with
  | nil =>
    intro oid o _ hm
    simp only [rowsMask] at hm
    have : res.drop o = [] := by
      cases h : res.drop o with
      | nil => rfl
      | cons _ _ => rw [h] at hm; simp at hm
    simp [renderRows, this]
  | cons row rest ih =>
    intro oid o ht hm
    cases row with
    | frag f =>
      obtain ⟨hf, hle, hrest⟩ := ht
      have hstart : f.start = (o : Int) + 1 := by rw [hf]
      simp only [rowsMask] at hm
      obtain ⟨l₁, l₂, hsplit, h1, h2⟩ := List.map_eq_append_iff.mp hm.symm
      have hlen : l₁.length = (f.stop - f.start + 1).toNat := by
        have := congrArg List.length h1; simpa using this
      have hstop : f.stop = ((o + (f.stop - f.start + 1).toNat : Nat) : Int) := by omega
      have hl2 : l₂ = res.drop (o + (f.stop - f.start + 1).toNat) := by
        rw [← List.drop_drop, hsplit, List.drop_left' hlen]
      rw [hstop] at hrest
      have ih' := ih (oid + 1) _ hrest (by rw [← hl2]; exact h2.symm)
      have ho : (f.start - 1).toNat = o := by omega
      simp only [renderRows, ho, ih', hsplit, List.map_append]
      rw [← hl2, map_maskN_of_all_true l₁ _ h1, List.take_left' hlen]
    | gap g =>
      obtain ⟨hpos, _, hrest⟩ := ht
      simp only [rowsMask] at hm
      obtain ⟨l₁, l₂, hsplit, h1, h2⟩ := List.map_eq_append_iff.mp hm.symm
      have hlen : l₁.length = g.length.toNat := by
        have := congrArg List.length h1; simpa using this
      have hoff : (o : Int) + g.length = ((o + g.length.toNat : Nat) : Int) := by omega
      have hl2 : l₂ = res.drop (o + g.length.toNat) := by
        rw [← List.drop_drop, hsplit, List.drop_left' hlen]
      rw [hoff] at hrest
      have ih' := ih oid _ hrest (by rw [← hl2]; exact h2.symm)
      simp only [renderRows, ih', hsplit, List.map_append]
      rw [← hl2, map_maskN_of_all_false l₁ _ h1]

/-- **streaming back**: the rows of a record rendered from its own residues reproduce the record with only the
    non-ACGT symbols replaced by `N`. -/
theorem render_specRows (name : Str) (oid : Nat) (res : Bytes) :
    renderRows res (specRows name oid res) = res.map maskN := by
  have := render_of_tiled name res (specRows name oid res) oid 0 (specRows_tiled name oid res)
    (by rw [specRows_mask]; simp)
  simpa using this

end AgpTpf.C04
