/-
  C02 (script model), part 10: the contigs no piece claims form a suffix of the scaffold's rows (S5).
-/
import AgpTpf.Proofs.C02SClaim
namespace AgpTpf.C02
open AgpTpf AgpTpf.Pretext
open AgpTpf.C12 (rowSpan meets meets_iff)

/-- index of the first row that begins behind coordinate `E` (`rows.length` if there is none) -/
def tailStart (rows : List Row) (E : Int) : Nat :=
  (List.range rows.length).findIdx (fun k => decide (E < (rowSpan rows k).1))

theorem tailStart_le (rows : List Row) (E : Int) : tailStart rows E ≤ rows.length := by
  unfold tailStart
  have := List.findIdx_le_length (p := fun k => decide (E < (rowSpan rows k).1)) (xs := List.range rows.length)
  simpa using this

/-- rows before `tailStart` begin at or before `E`, rows from it on begin behind `E` -/
theorem tailStart_spec (rows : List Row) (hlen : ∀ r ∈ rows, 0 ≤ r.length) (E : Int) (k : Nat) (hk : k < rows.length) :
    k < tailStart rows E ↔ (rowSpan rows k).1 ≤ E := by
  unfold tailStart
  constructor
  · intro h
    have := List.not_of_lt_findIdx h
    simp only [List.getElem_range] at this
    have h2 : ¬ (E < (rowSpan rows k).1) := by simpa using this
    omega
  · intro h
    by_cases hlt : k < (List.range rows.length).findIdx (fun k => decide (E < (rowSpan rows k).1))
    · exact hlt
    · exfalso
      have hm : (List.range rows.length).findIdx (fun k => decide (E < (rowSpan rows k).1)) < (List.range rows.length).length := by
        simp only [List.length_range]; omega
      have := List.findIdx_getElem (w := hm)
      simp only [List.getElem_range, decide_eq_true_eq] at this
      have hmono := (rowSpan_mono rows hlen (show (List.range rows.length).findIdx (fun k => decide (E < (rowSpan rows k).1)) ≤ k by omega)).1
      omega

/-- when the registered keys are exactly those of the contig rows before row `m`, the left-over contigs are the contigs
    of `rows.drop m` -/
theorem leftover_suffix (keys : List Key) (rows : List Row) (m : Nat)
    (h : ∀ k f, rows[k]? = some (.frag f) → (keys.contains f.keyTuple = true ↔ k < m)) :
    (fragmentsOf rows).filter (fun f => !keys.contains f.keyTuple) = fragmentsOf (rows.drop m) := by
  conv => lhs; rw [← List.take_append_drop m rows]
  rw [fragmentsOf_append', List.filter_append]
  have h1 : (fragmentsOf (rows.take m)).filter (fun f => !keys.contains f.keyTuple) = [] := by
    rw [List.filter_eq_nil_iff]
    intro f hf
    obtain ⟨k, hk⟩ := List.mem_iff_getElem?.1 (mem_frags.1 hf)
    rw [List.getElem?_take] at hk
    by_cases hkm : k < m
    · rw [if_pos hkm] at hk
      have := (h k f hk).2 hkm
      rw [this]; decide
    · rw [if_neg hkm] at hk; cases hk
  have h2 : (fragmentsOf (rows.drop m)).filter (fun f => !keys.contains f.keyTuple) = fragmentsOf (rows.drop m) := by
    rw [List.filter_eq_self]
    intro f hf
    obtain ⟨k, hk⟩ := List.mem_iff_getElem?.1 (mem_frags.1 hf)
    rw [List.getElem?_drop] at hk
    have := (h (m + k) f hk)
    cases hc : keys.contains f.keyTuple with
    | false => rfl
    | true => have := this.1 hc; omega
  rw [h1, h2, List.nil_append]

/-- **S5.**  The contigs of input scaffold `i` that the map of a well-formed script does not claim are the contigs of the
    rows from `tailStart` on — those beginning behind `⌊T·β⌋` — resp. all contigs when the scaffold is absent. -/
theorem leftovers_suffix {input : List Scaffold} {s : Script} (hw : WfScript input s) (hin : InputBase input)
    (hpos : ∀ sc ∈ input, ∀ f ∈ sc.fragments, 1 ≤ f.length)
    {i : Nat} {sc : Scaffold} {c : ScafScript} (hsc : input[i]? = some sc) (hc : s.scafs[i]? = some c) :
    (fragmentsOf sc.rows).filter (fun f => !(claimedKeys input (ptxOf input s)).contains f.keyTuple) =
      fragmentsOf (sc.rows.drop (if c.present then tailStart sc.rows (coord s.p s.q c.T : Int) else 0)) := by
  have hmem : sc ∈ input := mem_of_getElem? hsc
  apply leftover_suffix
  intro k f hk
  have hcl := claimed_iff hw hin hsc hc hk (hpos sc hmem f (frag_mem_fragments hk))
  have hkl : k < sc.rows.length := by
    by_cases h : k < sc.rows.length
    · exact h
    · rw [List.getElem?_eq_none (by omega)] at hk; cases hk
  rw [List.contains_iff_mem, hcl]
  cases hp : c.present with
  | false => simp
  | true =>
    simp only [true_and, if_true]
    exact (tailStart_spec sc.rows (hin.lens sc hmem) _ k hkl).symm

end AgpTpf.C02
