/-
  Helper lemmas for C20, part C: how `natTokens` behaves under concatenation (prefix `glue`), digit runs,
  numerals, and the resulting key comparisons.
-/
import AgpTpf.Proofs.C20
import AgpTpf.Proofs.C20Order
namespace AgpTpf.C20
open AgpTpf

/-! ### equations for `natTokens` -/

theorem natTokens_IV (r : Str) : natTokens ('I' :: 'V' :: r) = pushMatch ['I', 'V'] (natTokens r) := by
  simp [natTokens]

theorem natTokens_III (r : Str) :
    natTokens ('I' :: 'I' :: 'I' :: r) = pushMatch ['I', 'I', 'I'] (natTokens r) := by
  simp [natTokens]

/-- first character (if any) is not `c` -/
def notHead (c : Char) : Str → Prop
  | [] => True
  | d :: _ => d ≠ c

theorem natTokens_II {r : Str} (h : notHead 'I' r) :
    natTokens ('I' :: 'I' :: r) = pushMatch ['I', 'I'] (natTokens r) := by
  cases r with
  | nil => simp [natTokens]
  | cons d r' =>
    have : d ≠ 'I' := h
    rw [natTokens]
    intro r'' e; simp at e; exact this e.1

theorem natTokens_I {r : Str} (h : notHead 'I' r) (h' : notHead 'V' r) :
    natTokens ('I' :: r) = pushMatch ['I'] (natTokens r) := by
  cases r with
  | nil => simp [natTokens]
  | cons d r' =>
    have h1 : d ≠ 'I' := h
    have h2 : d ≠ 'V' := h'
    rw [natTokens]
    · intro r'' e; simp at e; exact h2 e.1
    · intro r'' e; simp at e; exact h1 e.1
    · intro r'' e; simp at e; exact h1 e.1

theorem natTokens_cons {c : Char} (h : c ≠ 'I') (r : Str) : natTokens (c :: r) = consChar c (natTokens r) := by
  rw [natTokens]
  all_goals first
    | (intro _ e _; exact h e)
    | (intro e; exact h e)


/-! ### `consChar` -/

/-- the split starts with a digit match directly at position 0 -/
def headDigit (t : Toks) : Bool :=
  match t.first, t.rest with
  | [], (d :: _, _) :: _ => isDigit d
  | _, _ => false

/-- prepend a digit to the leading match -/
def mergeHead (c : Char) (t : Toks) : Toks :=
  { first := [], rest := match t.rest with | (m, tx) :: r => (c :: m, tx) :: r | [] => [] }

theorem consChar_nondigit {c : Char} (h : isDigit c = false) (t : Toks) :
    consChar c t = { t with first := c :: t.first } := by
  simp [consChar, h]

theorem consChar_digit {c : Char} (h : isDigit c = true) (t : Toks) :
    consChar c t = if headDigit t then mergeHead c t else pushMatch [c] t := by
  unfold consChar headDigit mergeHead
  simp only [h, if_true]
  split
  · next d m tx r hf hr =>
    rw [hr, hf]
  · next hno =>
    split
    · next d m tx r hf hr =>
      by_cases hd : isDigit d = true
      · exact absurd hr (hno d m tx r hf)
      · simp [hd]
    · simp

def startsDigit : Str → Bool
  | [] => false
  | c :: _ => isDigit c

theorem headDigit_pushMatch_numeral {m : Str} (t : Toks) (h : IsNumeral m) : headDigit (pushMatch m t) = false := by
  rcases h with rfl | rfl | rfl | rfl <;> simp [headDigit, pushMatch] <;> decide

theorem headDigit_natTokens (s : Str) : headDigit (natTokens s) = startsDigit s := by
  fun_cases natTokens s
  case case1 => rfl
  case case2 => simp [headDigit, pushMatch, startsDigit]
  case case3 => simp [headDigit, pushMatch, startsDigit]
  case case4 => simp [headDigit, pushMatch, startsDigit]
  case case5 => simp [headDigit, pushMatch, startsDigit]
  case case6 c r _ _ _ _ =>
    by_cases hc : isDigit c = true
    · rw [consChar_digit hc]
      simp only [startsDigit, hc]
      split
      · next hh =>
        unfold headDigit at hh
        split at hh
        · next d m tx r hf hr => simp [mergeHead, headDigit, hr, hc]
        · simp at hh
      · simp [headDigit, pushMatch, hc]
    · have hc' : isDigit c = false := by simpa using hc
      rw [consChar_nondigit hc']
      simp [headDigit, startsDigit, hc']

/-! ### a digit run followed by a non-digit is one match -/

theorem natTokens_digits {ds : Str} (hne : ds ≠ []) (hd : AllDigits ds) {s : Str} (hs : startsDigit s = false) :
    natTokens (ds ++ s) = pushMatch ds (natTokens s) := by
  induction ds with
  | nil => exact absurd rfl hne
  | cons d ds ih =>
    have hdd := hd d (by simp)
    have hrest : AllDigits ds := fun c hc => hd c (by simp [hc])
    rw [List.cons_append, natTokens_cons (isDigit_ne_I hdd), consChar_digit hdd, headDigit_natTokens]
    cases ds with
    | nil => simp [hs]
    | cons e es =>
      have he := hd e (by simp)
      rw [ih (by simp) hrest]
      simp [startsDigit, he, mergeHead, pushMatch]


/-! ### `natTokens (p ++ x)` for a prefix that ends neither in `I` nor in a digit -/

/-- append the split of the remainder to the split of the prefix: the text after the last match of the prefix
    continues with the leading text of the remainder -/
def glueRest : List (Str × Str) → Toks → List (Str × Str)
  | [], tx => tx.rest
  | [(m, t)], tx => (m, t ++ tx.first) :: tx.rest
  | p :: q :: r, tx => p :: glueRest (q :: r) tx

def glue (tp tx : Toks) : Toks :=
  match tp.rest with
  | [] => { first := tp.first ++ tx.first, rest := tx.rest }
  | q :: r => { first := tp.first, rest := glueRest (q :: r) tx }

theorem glue_nil (tx : Toks) : glue {} tx = tx := by
  cases tx; simp [glue]

theorem glue_pushMatch (m : Str) (t tx : Toks) : glue (pushMatch m t) tx = pushMatch m (glue t tx) := by
  obtain ⟨f, r⟩ := t
  cases r with
  | nil => simp [glue, pushMatch, glueRest]
  | cons q r => simp [glue, pushMatch, glueRest]

theorem glue_consFirst (c : Char) (t tx : Toks) :
    glue { t with first := c :: t.first } tx = { glue t tx with first := c :: (glue t tx).first } := by
  obtain ⟨f, r⟩ := t
  cases r <;> simp [glue]

/-- non-empty split -/
def NonEmptyToks (t : Toks) : Prop := t.first ≠ [] ∨ t.rest ≠ []

theorem headDigit_glue {t : Toks} (h : NonEmptyToks t) (tx : Toks) : headDigit (glue t tx) = headDigit t := by
  obtain ⟨f, r⟩ := t
  cases r with
  | nil =>
    have : f ≠ [] := by rcases h with h | h <;> simp_all
    cases f with
    | nil => exact absurd rfl this
    | cons a as => simp [glue, headDigit]
  | cons q r =>
    obtain ⟨m, t⟩ := q
    cases r with
    | nil => cases f <;> cases m <;> simp [glue, glueRest, headDigit]
    | cons q' r' => cases f <;> cases m <;> simp [glue, glueRest, headDigit]

theorem glue_mergeHead {c : Char} {t : Toks} (h : headDigit t = true) (tx : Toks) :
    glue (mergeHead c t) tx = mergeHead c (glue t tx) := by
  obtain ⟨f, r⟩ := t
  cases r with
  | nil => cases f <;> simp [headDigit] at h
  | cons q r =>
    obtain ⟨m, t⟩ := q
    cases r with
    | nil => simp [glue, glueRest, mergeHead]
    | cons q' r' => simp [glue, glueRest, mergeHead]

theorem glue_consChar (c : Char) {t : Toks} (h : NonEmptyToks t) (tx : Toks) :
    glue (consChar c t) tx = consChar c (glue t tx) := by
  by_cases hc : isDigit c = true
  · rw [consChar_digit hc, consChar_digit hc, headDigit_glue h]
    by_cases hh : headDigit t = true
    · simp only [hh, if_true]; exact glue_mergeHead hh tx
    · simp only [hh]; exact glue_pushMatch _ _ _
  · have hc' : isDigit c = false := by simpa using hc
    rw [consChar_nondigit hc', consChar_nondigit hc']
    exact glue_consFirst c t tx

theorem nonEmpty_pushMatch (m : Str) (t : Toks) : NonEmptyToks (pushMatch m t) := .inr (by simp [pushMatch])

theorem nonEmpty_consChar (c : Char) (t : Toks) : NonEmptyToks (consChar c t) := by
  by_cases hc : isDigit c = true
  · rw [consChar_digit hc]
    split
    · next hh =>
      unfold headDigit at hh
      split at hh
      · next d m tx r hf hr => right; simp [mergeHead, hr]
      · simp at hh
    · exact nonEmpty_pushMatch _ _
  · have hc' : isDigit c = false := by simpa using hc
    rw [consChar_nondigit hc']; left; simp

theorem nonEmpty_natTokens {s : Str} (h : s ≠ []) : NonEmptyToks (natTokens s) := by
  fun_cases natTokens s
  case case1 => exact absurd rfl h
  all_goals first
    | exact nonEmpty_pushMatch _ _
    | exact nonEmpty_consChar _ _

/-- the prefix is empty or its last character is neither `I` nor an ASCII digit -/
def okPrefix : Str → Bool
  | [] => true
  | [c] => c != 'I' && !isDigit c
  | _ :: r => okPrefix r

theorem okPrefix_cons_cons (c d : Char) (r : Str) : okPrefix (c :: d :: r) = okPrefix (d :: r) := by
  simp [okPrefix]

theorem okPrefix_iff (p : Str) :
    okPrefix p = true ↔ ∀ c, p.getLast? = some c → c ≠ 'I' ∧ isDigit c = false := by
  induction p with
  | nil => simp [okPrefix]
  | cons c r ih =>
    cases r with
    | nil => simp [okPrefix]
    | cons d r' => rw [okPrefix_cons_cons, ih, List.getLast?_cons_cons]

theorem natTokens_append {p : Str} (hp : okPrefix p = true) (x : Str) :
    natTokens (p ++ x) = glue (natTokens p) (natTokens x) := by
  fun_induction natTokens p
  case case1 => simp [glue_nil]
  case case2 r ih =>
    have : okPrefix r = true := by cases r <;> simp_all [okPrefix]
    rw [List.cons_append, List.cons_append, natTokens_IV, ih this, glue_pushMatch]
  case case3 r ih =>
    have : okPrefix r = true := by cases r <;> simp_all [okPrefix]
    rw [List.cons_append, List.cons_append, List.cons_append, natTokens_III, ih this, glue_pushMatch]
  case case4 r hr ih =>
    cases r with
    | nil => simp [okPrefix] at hp
    | cons d r' =>
      have hd : d ≠ 'I' := fun e => hr r' (by rw [e])
      have : okPrefix (d :: r') = true := by simpa [okPrefix] using hp
      rw [List.cons_append, List.cons_append, natTokens_II (by exact hd), ih this, glue_pushMatch]
  case case5 r hV hII hI ih =>
    cases r with
    | nil => simp [okPrefix] at hp
    | cons d r' =>
      have hd : d ≠ 'I' := fun e => hI r' (by rw [e])
      have hd' : d ≠ 'V' := fun e => hV r' (by rw [e])
      have : okPrefix (d :: r') = true := by simpa [okPrefix] using hp
      rw [List.cons_append, natTokens_I (by exact hd) (by exact hd'), ih this, glue_pushMatch]
  case case6 c r h1 h2 h3 h4 ih =>
    have hc : c ≠ 'I' := fun e => h4 e
    rw [List.cons_append, natTokens_cons hc]
    cases r with
    | nil =>
      have hcd : isDigit c = false := by simpa [okPrefix, hc] using hp
      simp [natTokens, consChar_nondigit hcd, glue]
    | cons d r' =>
      have : okPrefix (d :: r') = true := by simpa [okPrefix] using hp
      rw [ih this, glue_consChar c (nonEmpty_natTokens (by simp))]


/-! ### key comparisons -/

/-- strict version of `keyLe` (Python `<` on the key tuples) -/
def keyLt (a b : NatKey) : Prop := keyLe a b = true ∧ keyLe b a = false

instance (a b : NatKey) : Decidable (keyLt a b) := by unfold keyLt; infer_instance

/-- key of `match ++ remainder` -/
def kPush (v : Int) (k : NatKey) : NatKey := { first := [], rest := (v, k.first) :: k.rest }

theorem toKey_pushMatch (m : Str) (t : Toks) : toKey (pushMatch m t) = kPush (tokVal m) (toKey t) := by
  simp [toKey, pushMatch, kPush]

theorem keyLe_kPush_same (v : Int) (a b : NatKey) : keyLe (kPush v a) (kPush v b) = keyLe a b := by
  simp [keyLe, kPush, restLe]

theorem keyLt_kPush_of_lt {v w : Int} (h : v < w) (a b : NatKey) : keyLt (kPush v a) (kPush w b) := by
  have h' : ¬ w < v := by omega
  constructor <;> simp [keyLe, kPush, restLe, h, h']

theorem restLe_glueRest (f : Str × Str → Int × Str) (hf : ∀ m t, (f (m, t)).2 = t)
    (hf' : ∀ m t t', (f (m, t)).1 = (f (m, t')).1)
    (q : Str × Str) (r : List (Str × Str)) (tx ty : Toks) :
    restLe ((glueRest (q :: r) tx).map f) ((glueRest (q :: r) ty).map f)
      = (if tx.first = ty.first then restLe (tx.rest.map f) (ty.rest.map f) else strLe tx.first ty.first) := by
  induction r generalizing q with
  | nil =>
    obtain ⟨m, t⟩ := q
    simp only [glueRest, List.map_cons, restLe]
    have e1 : f (m, t ++ tx.first) = ((f (m, t)).1, t ++ tx.first) := Prod.ext (hf' m _ t) (hf m _)
    have e2 : f (m, t ++ ty.first) = ((f (m, t)).1, t ++ ty.first) := Prod.ext (hf' m _ t) (hf m _)
    rw [e1, e2]
    simp only [Int.lt_irrefl, gt_iff_lt, if_false, List.append_cancel_left_eq, strLe_append_left]
  | cons q' r' ih =>
    simp only [glueRest, List.map_cons]
    have := ih q'
    obtain ⟨n, t⟩ := f q
    simp only [restLe, Int.lt_irrefl, gt_iff_lt, if_false, if_true]
    exact this

theorem keyLe_glue (tp tx ty : Toks) :
    keyLe (toKey (glue tp tx)) (toKey (glue tp ty)) = keyLe (toKey tx) (toKey ty) := by
  obtain ⟨f, r⟩ := tp
  cases r with
  | nil => simp only [glue, toKey, keyLe, List.append_cancel_left_eq, strLe_append_left]; rfl
  | cons q r =>
    simp only [glue, toKey, keyLe, if_true]
    exact restLe_glueRest (fun p => (tokVal p.1, p.2)) (fun _ _ => rfl) (fun _ _ _ => rfl) q r tx ty

/-- a common prefix that ends neither in `I` nor in a digit does not influence the comparison -/
theorem keyLe_prefix {p : Str} (hp : okPrefix p = true) (x y : Str) :
    keyLe (keyOf (p ++ x)) (keyOf (p ++ y)) = keyLe (keyOf x) (keyOf y) := by
  unfold keyOf
  rw [natTokens_append hp, natTokens_append hp, keyLe_glue]

theorem keyLt_prefix {p : Str} (hp : okPrefix p = true) {x y : Str} (h : keyLt (keyOf x) (keyOf y)) :
    keyLt (keyOf (p ++ x)) (keyOf (p ++ y)) := by
  unfold keyLt at h ⊢
  rw [keyLe_prefix hp, keyLe_prefix hp]; exact h

/-! ### decimal round trip -/

/- (`rw [digitsVal]` / `simp [digitsVal]` time out while generating the equation lemmas; `rfl` is instant.) -/
theorem digitsVal_nil (acc : Nat) : digitsVal acc [] = acc := by rfl
theorem digitsVal_cons (acc : Nat) (c : Char) (cs : Str) :
    digitsVal acc (c :: cs) = digitsVal (acc * 10 + digitVal c) cs := by rfl

theorem digitsVal_append (acc : Nat) (a b : Str) : digitsVal acc (a ++ b) = digitsVal (digitsVal acc a) b := by
  induction a generalizing acc with
  | nil => rfl
  | cons c cs ih => rw [List.cons_append, digitsVal_cons, digitsVal_cons, ih]

theorem digitVal_digitChar {n : Nat} (h : n < 10) : digitVal n.digitChar = n := by
  unfold digitVal
  rw [Nat.toNat_digitChar_of_lt_ten h]
  have : '0'.toNat = 48 := by decide
  rw [this]
  omega

theorem digitsVal_natToStr (n : Nat) : digitsVal 0 (natToStr n) = n := by
  unfold natToStr
  induction n using Nat.strongRecOn with
  | _ n ih =>
    rw [Nat.toDigits_eq_if (by omega)]
    split
    · next h => rw [digitsVal_cons, digitsVal_nil, digitVal_digitChar h]; omega
    · next h =>
      rw [digitsVal_append, ih (n / 10) (by omega)]
      rw [digitsVal_cons, digitsVal_nil, digitVal_digitChar (Nat.mod_lt _ (by omega))]
      omega

theorem natToStr_ne_nil (n : Nat) : natToStr n ≠ [] := Nat.toDigits_ne_nil

theorem natToStr_allDigits (n : Nat) : AllDigits (natToStr n) := by
  intro c hc
  rw [isDigit_eq_core]
  exact Nat.isDigit_of_mem_toDigits (by omega) (by omega) hc

theorem tokVal_natToStr (n : Nat) : tokVal (natToStr n) = (n : Int) := by
  rw [tokVal_digits (natToStr_ne_nil n) (natToStr_allDigits n), digitsVal_natToStr]

/-- `natToStr` has no leading zero (except for `0` itself) -/
theorem natToStr_no_leading_zero (n : Nat) (h : 0 < n) : (natToStr n).head? ≠ some '0' := by
  unfold natToStr
  induction n using Nat.strongRecOn with
  | _ n ih =>
    rw [Nat.toDigits_eq_if (by omega)]
    split
    · next h' =>
      simp only [List.head?_cons, ne_eq, Option.some.injEq, Nat.digitChar_eq_zero]
      omega
    · next h' =>
      have := ih (n / 10) (by omega) (by omega)
      have hne : Nat.toDigits 10 (n / 10) ≠ [] := Nat.toDigits_ne_nil
      rw [List.head?_append]
      cases hh : Nat.toDigits 10 (n / 10) with
      | nil => exact absurd hh hne
      | cons a as => rw [hh] at this; simpa using this

/-- key of `decimal ++ s` when `s` does not continue the digit run -/
theorem keyOf_natToStr_append (n : Nat) {s : Str} (hs : startsDigit s = false) :
    keyOf (natToStr n ++ s) = kPush n (keyOf s) := by
  unfold keyOf
  rw [natTokens_digits (natToStr_ne_nil n) (natToStr_allDigits n) hs, toKey_pushMatch, tokVal_natToStr]

theorem keyOf_natToStr (n : Nat) : keyOf (natToStr n) = kPush n (keyOf []) := by
  have := keyOf_natToStr_append n (s := []) rfl
  simpa using this


/-! ### anything non-empty sorts after the empty remainder -/

theorem keyLt_nil_of_ne_nil {s : Str} (h : s ≠ []) : keyLt (keyOf []) (keyOf s) := by
  have hne := nonEmpty_natTokens h
  have h0 : keyOf [] = { first := [], rest := [] } := by simp [keyOf, toKey, natTokens]
  rw [h0]
  unfold keyOf toKey keyLt keyLe
  generalize natTokens s = t at hne
  obtain ⟨f, r⟩ := t
  cases f with
  | cons a as => simp [strLe]
  | nil =>
    cases r with
    | nil => rcases hne with h | h <;> simp at h
    | cons q r => simp [restLe]

/-! ### numerals -/

theorem tokVal_I : tokVal ['I'] = 1 := by decide
theorem tokVal_II : tokVal ['I', 'I'] = 2 := by decide
theorem tokVal_III : tokVal ['I', 'I', 'I'] = 3 := by decide
theorem tokVal_IV : tokVal ['I', 'V'] = 4 := by decide

theorem keyOf_I {s : Str} (h : notHead 'I' s) (h' : notHead 'V' s) : keyOf ('I' :: s) = kPush 1 (keyOf s) := by
  unfold keyOf; rw [natTokens_I h h', toKey_pushMatch, tokVal_I]
theorem keyOf_II {s : Str} (h : notHead 'I' s) : keyOf ('I' :: 'I' :: s) = kPush 2 (keyOf s) := by
  unfold keyOf; rw [natTokens_II h, toKey_pushMatch, tokVal_II]
theorem keyOf_III (s : Str) : keyOf ('I' :: 'I' :: 'I' :: s) = kPush 3 (keyOf s) := by
  unfold keyOf; rw [natTokens_III, toKey_pushMatch, tokVal_III]
theorem keyOf_IV (s : Str) : keyOf ('I' :: 'V' :: s) = kPush 4 (keyOf s) := by
  unfold keyOf; rw [natTokens_IV, toKey_pushMatch, tokVal_IV]

theorem notHead_iff (c : Char) (s : Str) : notHead c s ↔ s.head? ≠ some c := by
  cases s <;> simp [notHead]

theorem startsDigit_false_iff (s : Str) : startsDigit s = false ↔ ∀ c, s.head? = some c → isDigit c = false := by
  cases s <;> simp [startsDigit]

end AgpTpf.C20
