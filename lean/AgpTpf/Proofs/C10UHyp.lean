/-
  C10 uniqueness (W5), part 7: the hypotheses of the uniqueness theorem (`NamesOutsideGenerated`,
  `TaggedOneHaplotype`) as explicit, decidable conditions on the input scaffolds, the Pretext scaffolds and the prefix,
  and the small facts that connect them to the proof.
-/
import AgpTpf.Proofs.C10UNamer
namespace AgpTpf.C10
open AgpTpf

/-- names of all fragments: for Pretext scaffolds the input scaffold each piece lies on, for input scaffolds the contigs -/
def fragNames (l : List Scaffold) : List Str := l.flatMap (fun s => s.fragments.map (·.name))

def unlocInfixStr : Str := ['_', 'u', 'n', 'l', 'o', 'c', '_']

/-- `p` is not a prefix of `t` nor of any `t_unloc_<k>`: neither of `p`, `t ++ "_unloc_"` is a prefix of the other -/
def prefixFree (p t : Str) : Bool := !p.isPrefixOf (t ++ unlocInfixStr) && !(t ++ unlocInfixStr).isPrefixOf p

/-- the name has a character that is neither a digit nor one of `_ u n l o c` (every `Scaffold_<n>` has: the `S`) -/
def unlocFreeName (o : Str) : Bool := o.any (fun c => !isDigit c && !(['_', 'u', 'n', 'l', 'o', 'c'].contains c))

/-- clause 1: input scaffold names lie outside the generated `<prefix>…` namespace -/
abbrev InputOutsidePrefix (input : List Scaffold) (prefix_ : Str) : Prop :=
  ∀ sc ∈ input, prefix_.isPrefixOf sc.name = false

/-- clause 2: no name read by `haplotype_from_first_row_name` (`^([^_]+)_.+_\d+$`: the input scaffold names the Pretext
    pieces refer to, the input contig names) yields one of the tag words `Contaminant`, `FalseDuplicate`, `Haplotig`
    as haplotype (finding F16) -/
abbrev NoTagWordHaplotype (input ptx : List Scaffold) : Prop :=
  ∀ nm ∈ fragNames ptx ++ fragNames input, hapPrefixOfName nm ∉ C10U.tagWords

/-- clause 3: the chromosome-name tags used do not run into the prefix (`add_chr_prefix` leaves names alone that
    already start with it) -/
abbrev ChrTagsPrefixFree (ptx : List Scaffold) (prefix_ : Str) : Prop :=
  ∀ ps ∈ ptx, ∀ t ∈ ps.fragmentTags, isChrNameTag t = true → prefixFree prefix_ t = true

/-- clause 4: no chromosome-name tag is `<digits><one character>` — the shape `<n>A`, `<n>B` … that `multi_chr_list`
    generates in multi-haplotype maps -/
abbrev ChrTagsNotNumLetter (ptx : List Scaffold) : Prop :=
  ∀ ps ∈ ptx, ∀ t ∈ ps.fragmentTags, isChrNameTag t = true → C10U.isNumLetter t = false

/-- clause 5: painted Pretext scaffold names cannot occur inside `_unloc_<k>` (`str.replace` replaces every
    occurrence of the Pretext name) -/
abbrev PaintedNamesUnlocFree (ptx : List Scaffold) : Prop :=
  ∀ ps ∈ ptx, sPainted ∈ ps.fragmentTags → unlocFreeName ps.name = true

/-- clause 6, an artefact of the model (`Char.ofNat` on surrogates): at most 55231 Pretext scaffolds -/
abbrev FewScaffolds (ptx : List Scaffold) : Prop := ptx.length ≤ letterBound

/-- **U2.**  The hypothesis of the uniqueness theorem for the curated assemblies and the haplotig assembly. -/
structure NamesOutsideGenerated (input ptx : List Scaffold) (prefix_ : Str) : Prop where
  inputOutsidePrefix : InputOutsidePrefix input prefix_
  noTagWordHaplotype : NoTagWordHaplotype input ptx
  chrTagsPrefixFree : ChrTagsPrefixFree ptx prefix_
  chrTagsNotNumLetter : ChrTagsNotNumLetter ptx
  paintedNamesUnlocFree : PaintedNamesUnlocFree ptx
  fewScaffolds : FewScaffolds ptx

theorem namesOutsideGenerated_iff (input ptx : List Scaffold) (prefix_ : Str) :
    NamesOutsideGenerated input ptx prefix_ ↔
      InputOutsidePrefix input prefix_ ∧ NoTagWordHaplotype input ptx ∧ ChrTagsPrefixFree ptx prefix_ ∧
      ChrTagsNotNumLetter ptx ∧ PaintedNamesUnlocFree ptx ∧ FewScaffolds ptx :=
  ⟨fun h => ⟨h.1, h.2, h.3, h.4, h.5, h.6⟩, fun ⟨a, b, c, d, e, f⟩ => ⟨a, b, c, d, e, f⟩⟩

def hasTarget (s : Scaffold) : Bool := s.fragmentTags.contains sTarget

/-- the tag would be read as a haplotype name by `make_scaffold_name` -/
def isHapTag (t : Str) : Bool := decide (C17.tagClass t = .hap)

/-- no haplotype tag in the scaffold's tag set and no haplotype prefix in its first row's name: its pieces get no
    haplotype -/
def hapFreeSc (ps : Scaffold) : Bool :=
  ps.fragmentTags.all (fun t => !isHapTag t) &&
  (match ps.rows.head? with
   | some (.frag f) => (hapPrefixOfName f.name).isNone
   | _ => true)

/-- some piece of the Pretext scaffold may be tagged Contaminant / FalseDuplicate: it carries such a tag, or the map
    uses Target tags (`target`) and this scaffold has none -/
def mayBeTagged (target : Bool) (ps : Scaffold) : Bool :=
  ps.fragments.any (fun f => f.tags.contains sContaminant || f.tags.contains sFalseDuplicate) || (target && !hasTarget ps)

def fragHapFree (f : Fragment) : Bool := f.tags.all (fun t => t.isEmpty || !isHapTag t) && (hapPrefixOfName f.name).isNone

/-- clause 7a: a Pretext scaffold that may hold a Contaminant / FalseDuplicate piece carries no haplotype -/
abbrev TaggedPiecesNoHaplotype (input ptx : List Scaffold) : Prop :=
  ∀ ps ∈ ptx, mayBeTagged ((ptx ++ input).any hasTarget) ps = true → hapFreeSc ps = true

/-- clause 7b: when Target tags are used (left-overs become contaminants), no input contig carries a haplotype -/
abbrev TargetLeftoversNoHaplotype (input ptx : List Scaffold) : Prop :=
  (ptx ++ input).any hasTarget = true → ∀ sc ∈ input, ∀ f ∈ sc.fragments, fragHapFree f = true

/-- **U2, tagged assemblies.**  "Tagged assemblies: one haplotype": everything that can land in the Contaminant or
    FalseDuplicate assembly carries no haplotype. -/
structure TaggedOneHaplotype (input ptx : List Scaffold) : Prop where
  pieces : TaggedPiecesNoHaplotype input ptx
  leftovers : TargetLeftoversNoHaplotype input ptx

theorem taggedOneHaplotype_iff (input ptx : List Scaffold) :
    TaggedOneHaplotype input ptx ↔ TaggedPiecesNoHaplotype input ptx ∧ TargetLeftoversNoHaplotype input ptx :=
  ⟨fun h => ⟨h.1, h.2⟩, fun ⟨a, b⟩ => ⟨a, b⟩⟩

end AgpTpf.C10

namespace AgpTpf.C10U
open AgpTpf

/-- clause 2 in the form the proofs use -/
theorem noTagWord_of_clause {input ptx : List Scaffold} (h : C10.NoTagWordHaplotype input ptx) (nm : Str)
    (hnm : nm ∈ C10.fragNames ptx ++ C10.fragNames input) (g : Str) (hg : hapPrefixOfName nm = some g) :
    g ∉ tagWordStrs := by
  intro hm
  apply h nm hnm
  rw [hg]
  simp only [tagWordStrs, List.mem_cons, List.not_mem_nil, or_false] at hm
  simp only [tagWords, List.mem_cons, Option.some.injEq, List.not_mem_nil, or_false]
  exact hm

/-! ### `fragment_tags()` -/

theorem mem_foldl_sAdd {α} [DecidableEq α] (l : List α) : ∀ (acc : List α) (x : α),
    x ∈ l.foldl sAdd acc ↔ x ∈ acc ∨ x ∈ l := by
  induction l with
  | nil => intro acc x; simp
  | cons a r ih =>
    intro acc x
    rw [List.foldl_cons, ih, C10.mem_sAdd]
    simp only [List.mem_cons]
    constructor
    · rintro ((h | h) | h)
      · exact Or.inl h
      · exact Or.inr (Or.inl h)
      · exact Or.inr (Or.inr h)
    · rintro (h | h | h)
      · exact Or.inl (Or.inl h)
      · exact Or.inl (Or.inr h)
      · exact Or.inr h

theorem mem_fragmentTags_fold (fs : List Fragment) : ∀ (acc : List Str) (t : Str),
    t ∈ fs.foldl (fun acc f => (f.tags.filter (fun t => !t.isEmpty)).foldl sAdd acc) acc ↔
      t ∈ acc ∨ ∃ f ∈ fs, t ∈ f.tags ∧ t ≠ [] := by
  induction fs with
  | nil => intro acc t; simp
  | cons f r ih =>
    intro acc t
    rw [List.foldl_cons, ih, mem_foldl_sAdd]
    simp only [List.mem_filter, List.mem_cons, Bool.not_eq_true', List.isEmpty_eq_false_iff]
    constructor
    · rintro ((h | h) | ⟨g, hg, h⟩)
      · exact Or.inl h
      · exact Or.inr ⟨f, Or.inl rfl, h⟩
      · exact Or.inr ⟨g, Or.inr hg, h⟩
    · rintro (h | ⟨g, hg | hg, h⟩)
      · exact Or.inl (Or.inl h)
      · subst hg; exact Or.inl (Or.inr h)
      · exact Or.inr ⟨g, hg, h⟩

/-- `fragment_tags()` = the non-empty tags of the fragments -/
theorem mem_fragmentTags (s : Scaffold) (t : Str) : t ∈ s.fragmentTags ↔ ∃ f ∈ s.fragments, t ∈ f.tags ∧ t ≠ [] := by
  unfold Scaffold.fragmentTags
  rw [mem_fragmentTags_fold]
  simp

theorem nil_not_mem_fragmentTags (s : Scaffold) : [] ∉ s.fragmentTags := by
  intro h
  obtain ⟨_, _, _, hne⟩ := (mem_fragmentTags s []).1 h
  exact hne rfl

/-! ### prefix / unloc clauses -/

theorem unlocSuffix_eq (k : Nat) : C10.unlocSuffix k = C10.unlocInfixStr ++ natToStr k := rfl

/-- `prefixFree p t` rules out `p` as a prefix of `t` and of every `t_unloc_<k>` -/
theorem prefixFree_spec (p t : Str) (h : C10.prefixFree p t = true) (suf : Str) (hs : SufOk suf) :
    p.isPrefixOf (t ++ suf) = false := by
  unfold C10.prefixFree at h
  simp only [Bool.and_eq_true, Bool.not_eq_true'] at h
  obtain ⟨h1, h2⟩ := h
  cases hp : p.isPrefixOf (t ++ suf) with
  | false => rfl
  | true =>
    exfalso
    rw [List.isPrefixOf_iff_prefix] at hp
    rcases hs with rfl | ⟨k, rfl⟩
    · have : p <+: t ++ C10.unlocInfixStr := by
        rw [List.append_nil] at hp
        exact hp.trans (List.prefix_append _ _)
      rw [← List.isPrefixOf_iff_prefix] at this
      rw [this] at h1; cases h1
    · rw [unlocSuffix_eq, ← List.append_assoc] at hp
      have hx : t ++ C10.unlocInfixStr <+: t ++ C10.unlocInfixStr ++ natToStr k := List.prefix_append _ _
      by_cases hlen : p.length ≤ (t ++ C10.unlocInfixStr).length
      · have := List.prefix_of_prefix_length_le hp hx hlen
        rw [← List.isPrefixOf_iff_prefix] at this
        rw [this] at h1; cases h1
      · have := List.prefix_of_prefix_length_le hx hp (by omega)
        rw [← List.isPrefixOf_iff_prefix] at this
        rw [this] at h2; cases h2

theorem unlocFree_of_name (o : Str) (h : C10.unlocFreeName o = true) : UnlocFree o := by
  unfold C10.unlocFreeName at h
  rw [List.any_eq_true] at h
  obtain ⟨c, hc, hcc⟩ := h
  simp only [Bool.and_eq_true, Bool.not_eq_true'] at hcc
  intro k
  apply C10.not_occurs_unloc o k c hc hcc.1
  intro hm
  have : (['_', 'u', 'n', 'l', 'o', 'c'].contains c) = true := by
    rw [List.contains_iff_mem]; exact hm
  rw [this] at hcc; exact absurd hcc.2 (by simp)

end AgpTpf.C10U
