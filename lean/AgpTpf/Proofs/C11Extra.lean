/-
  C11 helpers, part 4: scaffold reversal at set level, adjacency (contig-end pair) reading of the junction sets,
  success conditions of `makeStats`.
-/
import AgpTpf.Proofs.C11Stats
namespace AgpTpf.C11
open AgpTpf

/-! ### reversing a scaffold -/

theorem junctionSet_congr (s t : Scaffold) (h : s.fragments = t.fragments) : s.junctionSet = t.junctionSet := by
  unfold Scaffold.junctionSet
  rw [h]

theorem scaffold_reverse_reverse_fragments (s : Scaffold) : s.reverse.reverse.fragments = s.fragments := by
  rw [scaffold_reverse_fragments, scaffold_reverse_fragments, map_reverse_reverse]

theorem junctionSet_reverse_ok (s : Scaffold) (S : List Junction) (h : s.junctionSet = .ok S) :
    ∃ S', s.reverse.junctionSet = .ok S' ∧ S'.Perm S ∧ ∀ j, j ∈ S' ↔ j ∈ S := by
  obtain ⟨js, hjs, rfl⟩ := (junctionSet_ok_iff s _).mp h
  have hr := jf_reverse_ok _ _ hjs
  rw [← scaffold_reverse_fragments] at hr
  have hm : ∀ j, j ∈ js.reverse.foldl sAdd [] ↔ j ∈ js.foldl sAdd [] := by
    intro j; rw [mem_foldl_sAdd_nil, mem_foldl_sAdd_nil, List.mem_reverse]
  refine ⟨js.reverse.foldl sAdd [], (junctionSet_ok_iff _ _).mpr ⟨_, hr, rfl⟩, ?_, hm⟩
  exact (List.perm_ext_iff_of_nodup (nodup_foldl_sAdd_nil _) (nodup_foldl_sAdd_nil _)).mpr hm

theorem junctionSet_reverse_error (s : Scaffold) (e : Err) (h : s.junctionSet = .error e) :
    s.reverse.junctionSet = .error e := by
  cases h' : s.reverse.junctionSet with
  | ok S' =>
    obtain ⟨S'', h2, -, -⟩ := junctionSet_reverse_ok _ _ h'
    rw [junctionSet_congr _ _ (scaffold_reverse_reverse_fragments s), h] at h2
    exact absurd h2 (by simp)
  | error e' => rw [junctionSet_error _ _ h, junctionSet_error _ _ h']

/-- a consecutive pair of the reversed fragment list is a consecutive pair of the original, reversed -/
theorem pair_of_reversed (l : List Fragment) (j : Junction)
    (h : ∃ pre a b post, l.reverse.map Fragment.reverse = pre ++ a :: b :: post ∧ junctionTuple a b = .ok j) :
    ∃ pre a b post, l = pre ++ a :: b :: post ∧ junctionTuple a b = .ok j := by
  obtain ⟨pre, a, b, post, e, ht⟩ := h
  refine ⟨post.reverse.map Fragment.reverse, b.reverse, a.reverse, pre.reverse.map Fragment.reverse, ?_, ?_⟩
  · conv => lhs; rw [← map_reverse_reverse l, e]
    simp
  · rw [junctionTuple_reverse_any]; exact ht

theorem junctionIn_reverse (s : Scaffold) (j : Junction) : JunctionIn [s.reverse] j ↔ JunctionIn [s] j := by
  unfold JunctionIn
  simp only [List.mem_singleton, exists_eq_left]
  constructor
  · intro h
    rw [scaffold_reverse_fragments] at h
    exact pair_of_reversed _ _ h
  · intro h
    apply pair_of_reversed
    rw [← scaffold_reverse_fragments, scaffold_reverse_reverse_fragments]
    exact h

/-- `s'` is `s` or `s` reversed -/
def RevRel (s s' : Scaffold) : Prop := s' = s ∨ s' = s.reverse

/-- the two scaffold collections are the same up to reversing whole scaffolds (and order) -/
def RevEquiv (scs scs' : List Scaffold) : Prop :=
  (∀ s ∈ scs, ∃ s' ∈ scs', RevRel s s') ∧ (∀ s' ∈ scs', ∃ s ∈ scs, RevRel s s')

theorem junctionIn_singleton (scs : List Scaffold) (j : Junction) :
    JunctionIn scs j ↔ ∃ s ∈ scs, JunctionIn [s] j := by
  unfold JunctionIn
  simp only [List.mem_singleton, exists_eq_left]

theorem junctionIn_revRel (s s' : Scaffold) (h : RevRel s s') (j : Junction) :
    JunctionIn [s'] j ↔ JunctionIn [s] j := by
  rcases h with rfl | rfl
  · exact Iff.rfl
  · exact junctionIn_reverse s j

theorem junctionIn_revEquiv (scs scs' : List Scaffold) (h : RevEquiv scs scs') (j : Junction) :
    JunctionIn scs' j ↔ JunctionIn scs j := by
  rw [junctionIn_singleton scs, junctionIn_singleton scs']
  constructor
  · rintro ⟨s', hs', hj⟩
    obtain ⟨s, hs, hr⟩ := h.2 s' hs'
    exact ⟨s, hs, (junctionIn_revRel s s' hr j).mp hj⟩
  · rintro ⟨s, hs, hj⟩
    obtain ⟨s', hs', hr⟩ := h.1 s hs
    exact ⟨s', hs', (junctionIn_revRel s s' hr j).mpr hj⟩

theorem junctionSet_ok_revRel (s s' : Scaffold) (h : RevRel s s') :
    (∃ S, s.junctionSet = .ok S) → ∃ S', s'.junctionSet = .ok S' := by
  rintro ⟨S, hS⟩
  rcases h with rfl | rfl
  · exact ⟨S, hS⟩
  · obtain ⟨S', h', -⟩ := junctionSet_reverse_ok s S hS
    exact ⟨S', h'⟩

/-! ### when the stats computation succeeds -/

theorem asm_fold_ok (scs : List Scaffold) (acc : List Junction)
    (h : ∀ sc ∈ scs, ∃ S, sc.junctionSet = .ok S) :
    ∃ S, scs.foldlM (fun acc (s : Scaffold) => do let js ← s.junctionSet; pure (sUnion acc js)) acc = .ok S := by
  induction scs generalizing acc with
  | nil => exact ⟨acc, rfl⟩
  | cons sc scs ih =>
    obtain ⟨S, hS⟩ := h sc List.mem_cons_self
    simp only [List.foldlM_cons, hS, bind, Except.bind, pure, Except.pure]
    exact ih _ (fun sc' hm => h sc' (List.mem_cons_of_mem _ hm))

theorem asm_fold_ok_inv (scs : List Scaffold) (acc S : List Junction)
    (h : scs.foldlM (fun acc (s : Scaffold) => do let js ← s.junctionSet; pure (sUnion acc js)) acc = .ok S) :
    ∀ sc ∈ scs, ∃ S, sc.junctionSet = .ok S := by
  induction scs generalizing acc with
  | nil => intro sc hsc; simp at hsc
  | cons sc scs ih =>
    simp only [List.foldlM_cons] at h
    cases hs : sc.junctionSet with
    | error e => rw [hs] at h; simp [bind, Except.bind] at h
    | ok js =>
      rw [hs] at h
      simp only [bind, Except.bind, pure, Except.pure] at h
      intro sc' hsc'
      rcases List.mem_cons.mp hsc' with rfl | hm
      · exact ⟨js, hs⟩
      · exact ih _ h sc' hm

theorem asm_junctionSet_ok_iff (a : Assembly) :
    (∃ S, a.junctionSet = .ok S) ↔ ∀ sc ∈ a.scaffolds, ∃ S, sc.junctionSet = .ok S := by
  unfold Assembly.junctionSet
  exact ⟨fun ⟨S, h⟩ => asm_fold_ok_inv _ _ _ h, fun h => asm_fold_ok _ _ h⟩

theorem foldlM_ok_iff {α β : Type} (f : β → α → R β) (P : α → Prop)
    (hf : ∀ acc a, (∃ r, f acc a = .ok r) ↔ P a) (l : List α) (acc : β) :
    (∃ r, l.foldlM f acc = .ok r) ↔ ∀ a ∈ l, P a := by
  induction l generalizing acc with
  | nil => simp [pure, Except.pure]
  | cons a l ih =>
    simp only [List.foldlM_cons, List.mem_cons, forall_eq_or_imp]
    cases h : f acc a with
    | error e =>
      have : ¬ P a := fun hp => by
        obtain ⟨r, hr⟩ := (hf acc a).mpr hp
        rw [h] at hr; exact absurd hr (by simp)
      simp [bind, Except.bind, this]
    | ok b =>
      have : P a := (hf acc a).mp ⟨b, h⟩
      simp only [bind, Except.bind, this, true_and]
      exact ih b

theorem byPrefix_ok_iff (input : List Scaffold) :
    (∃ r, junctionsByPrefix input = .ok r) ↔ ∀ sc ∈ input, ∃ S, sc.junctionSet = .ok S := by
  unfold junctionsByPrefix
  apply foldlM_ok_iff
  intro acc sc
  cases hf : sc.fragments with
  | nil =>
    have : ∃ S, sc.junctionSet = .ok S := ⟨[], junctionSet_of_no_fragments sc hf⟩
    simp [this, pure, Except.pure]
  | cons f rest =>
    cases hs : sc.junctionSet with
    | error e => simp [bind, Except.bind]
    | ok js => simp [bind, Except.bind, pure, Except.pure]

theorem outSetsOf_ok_iff (outs : List OutAsm) :
    (∃ r, outSetsOf outs = .ok r) ↔ ∀ a ∈ outs, ∀ sc ∈ a.scaffolds, ∃ S, sc.junctionSet = .ok S := by
  unfold outSetsOf
  induction outs with
  | nil => simp [pure, Except.pure]
  | cons a outs ih =>
    simp only [List.mapM_cons, List.mem_cons, forall_eq_or_imp]
    rw [← ih, ← asm_junctionSet_ok_iff ({ scaffolds := a.scaffolds } : Assembly)]
    cases hs : ({ scaffolds := a.scaffolds } : Assembly).junctionSet with
    | error e => simp [bind, Except.bind]
    | ok js =>
      cases hr : outs.mapM (fun (a : OutAsm) => do
          let js ← ({ scaffolds := a.scaffolds } : Assembly).junctionSet
          pure (a.key, js)) with
      | error e =>
        simp only [bind, Except.bind, pure, Except.pure] at hr ⊢
        simp
      | ok rest =>
        simp only [bind, Except.bind, pure, Except.pure] at hr ⊢
        simp

theorem makeStats_ok_iff (input : List Scaffold) (outs : List OutAsm) (cuts : Int) :
    (∃ st, makeStats input outs cuts = .ok st) ↔
      (∀ sc ∈ input, ∃ S, sc.junctionSet = .ok S) ∧
      (∀ a ∈ outs, ∀ sc ∈ a.scaffolds, ∃ S, sc.junctionSet = .ok S) := by
  rw [← byPrefix_ok_iff, ← outSetsOf_ok_iff]
  constructor
  · rintro ⟨st, h⟩
    obtain ⟨i, o, h1, h2, -⟩ := makeStats_ok _ _ _ _ h
    exact ⟨⟨i, h1⟩, ⟨o, h2⟩⟩
  · rintro ⟨⟨i, h1⟩, ⟨o, h2⟩⟩
    unfold outSetsOf at h2
    unfold makeStats
    rw [h1, h2]
    simp [bind, Except.bind, pure, Except.pure]

/-! ### adjacency reading -/

/-- the unordered contig-end pair `p` is an adjacency of one of the scaffolds -/
def AdjacencyIn (scs : List Scaffold) (p : End × End) : Prop :=
  ∃ sc ∈ scs, ∃ pre a b post, sc.fragments = pre ++ a :: b :: post ∧ SameAdj (facingEnds a b) p

theorem junctionIn_encode_iff (scs : List Scaffold) (hs : StrandsOk scs) (p : End × End) :
    JunctionIn scs (encodeAdj p) ↔ AdjacencyIn scs p := by
  unfold JunctionIn AdjacencyIn
  constructor
  · rintro ⟨sc, hsc, pre, a, b, post, e, ht⟩
    obtain ⟨ha, hb⟩ := hs sc hsc pre a b post e
    rw [junctionTuple_eq_encodeAdj a b ha hb] at ht
    exact ⟨sc, hsc, pre, a, b, post, e, encodeAdj_inj (Except.ok.inj ht)⟩
  · rintro ⟨sc, hsc, pre, a, b, post, e, hsame⟩
    obtain ⟨ha, hb⟩ := hs sc hsc pre a b post e
    refine ⟨sc, hsc, pre, a, b, post, e, ?_⟩
    rw [junctionTuple_eq_encodeAdj a b ha hb, encodeAdj_congr hsame]

theorem junctionIn_encoded (scs : List Scaffold) (hs : StrandsOk scs) (j : Junction) (h : JunctionIn scs j) :
    ∃ p, encodeAdj p = j := by
  obtain ⟨sc, hsc, pre, a, b, post, e, ht⟩ := h
  obtain ⟨ha, hb⟩ := hs sc hsc pre a b post e
  rw [junctionTuple_eq_encodeAdj a b ha hb] at ht
  exact ⟨_, Except.ok.inj ht⟩

theorem exists_preimage_list (l : List Junction) (h : ∀ j ∈ l, ∃ p, encodeAdj p = j) :
    ∃ ps : List (End × End), ps.map encodeAdj = l := by
  induction l with
  | nil => exact ⟨[], rfl⟩
  | cons j l ih =>
    obtain ⟨p, hp⟩ := h j List.mem_cons_self
    obtain ⟨ps, hps⟩ := ih (fun j' hj' => h j' (List.mem_cons_of_mem _ hj'))
    exact ⟨p :: ps, by simp [hp, hps]⟩

/-- a duplicate-free list of junction tuples that is `{in JI} \ {in JO}` has as many elements as there are
    unordered adjacencies in `AI` and not in `AO`. -/
theorem count_adjacencies (JI JO : Junction → Prop) (AI AO : End × End → Prop)
    (hI : ∀ p, JI (encodeAdj p) ↔ AI p) (hO : ∀ p, JO (encodeAdj p) ↔ AO p)
    (hpre : ∀ j, JI j → ∃ p, encodeAdj p = j)
    (B : List Junction) (hB : B.Nodup) (hmem : ∀ j, j ∈ B ↔ JI j ∧ ¬ JO j) :
    ∃ ps : List (End × End), ps.length = B.length ∧ ps.Pairwise (fun p q => ¬ SameAdj p q) ∧
      ∀ p, (∃ q ∈ ps, SameAdj q p) ↔ AI p ∧ ¬ AO p := by
  obtain ⟨ps, hps⟩ := exists_preimage_list B (fun j hj => hpre j ((hmem j).mp hj).1)
  subst hps
  refine ⟨ps, by simp, ?_, ?_⟩
  · rw [List.nodup_iff_pairwise_ne, List.pairwise_map] at hB
    exact hB.imp (fun hne hsame => hne (encodeAdj_congr hsame))
  · intro p
    constructor
    · rintro ⟨q, hq, hsame⟩
      have := (hmem (encodeAdj q)).mp (List.mem_map_of_mem hq)
      rw [encodeAdj_congr hsame, hI, hO] at this
      exact this
    · intro h
      rw [← hI, ← hO] at h
      have := (hmem (encodeAdj p)).mpr h
      obtain ⟨q, hq, he⟩ := List.mem_map.mp this
      exact ⟨q, hq, encodeAdj_inj he⟩

end AgpTpf.C11
