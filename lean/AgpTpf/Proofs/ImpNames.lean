/-
  T1c / C09 — helper lemmas for the tie between the model's `nameAssemblies` (Model/Cli.lean) and the translated source
  (`Gen.Imp.name_assemblies_imp`, `Gen.Imp.merge_assemblies_imp`, pretext_to_asm.py).

  1. `PyRt.forIn` over a body that always falls through is a fold (`forIn_foldl`); over a body that performs one `mapM` step of the
     model and stores the result it is `mapM` followed by a fold (`forIn_mapM`); the `Primary` loop with its two variables
     (`other_asm`, `ret_asm`) is `filterMapM` + the `others` filter (`primLoop`).  The loop bodies enter through hypotheses
     `∀ x s, body x s = …`, discharged in `name_tie_dict` by `simp` after unfolding the generated definition.
  2. `merge_tie`: `merge_assemblies` = `flatMap` of the scaffolds.
  3. `name_tie_dict`: the source returns `toDict named` = the model's assignments stored one after the other into a dict — for ALL
     inputs (no hypothesis, same exception otherwise).
  4. dictionaries: `toDict named = named.map entry` iff the keys of `named` are pairwise different (`toDict_eq_iff`), and for a
     dict input that is exactly the no-clash condition (`named_keys_nodup_iff`).
     `toDict named` is the model's own `namedDict named` (Model/CliPlan.lean), entry by entry (`toDict_eq_namedDict`).
  5. `name_tie`, `name_tie_iff`, `name_tie_error`: the list form.
-/
import AgpTpf.Model.PyRt
import AgpTpf.Gen.Imp
import AgpTpf.Proofs.CliNames
import AgpTpf.Model.CliPlan
namespace AgpTpf.ImpNames
open AgpTpf AgpTpf.CliNames

/-! ### `PyRt.forIn` without `break` / `return`; `merge_assemblies` -/

theorem forIn_foldl {α σ ρ : Type} (f : σ → α → σ) (body : α → σ → R (PyRt.Ctl σ ρ))
    (hbody : ∀ x s, body x s = .ok (.next (f s x))) (xs : List α) (s : σ) :
    PyRt.forIn xs s body = .ok (.fell (xs.foldl f s)) := by
  induction xs generalizing s with
  | nil => rfl
  | cons x xs ih => rw [PyRt.forIn, hbody]; exact ih _

theorem foldl_addScaffold (l : List Scaffold) (acc : Assembly) :
    l.foldl (fun (acc : Assembly) sc => { acc with scaffolds := acc.scaffolds ++ [sc] }) acc
      = { acc with scaffolds := acc.scaffolds ++ l } := by
  induction l generalizing acc with
  | nil => simp
  | cons x xs ih => rw [List.foldl_cons, ih]; simp

theorem foldl_addScaffolds (l : List Assembly) (acc : Assembly) :
    l.foldl (fun (acc : Assembly) (asm : Assembly) => { acc with scaffolds := acc.scaffolds ++ asm.scaffolds }) acc
      = { acc with scaffolds := acc.scaffolds ++ l.flatMap (·.scaffolds) } := by
  induction l generalizing acc with
  | nil => simp
  | cons x xs ih => rw [List.foldl_cons, ih]; simp

theorem merge_tie (l : List Assembly) :
    Gen.Imp.merge_assemblies_imp l = .ok { name := "merge".toList, scaffolds := l.flatMap (·.scaffolds) } := by
  unfold Gen.Imp.merge_assemblies_imp
  dsimp only
  rw [forIn_foldl (fun (acc : Assembly) (asm : Assembly) => { acc with scaffolds := acc.scaffolds ++ asm.scaffolds })]
  · rw [foldl_addScaffolds]; simp [bind, Except.bind]
  · intro asm acc
    rw [forIn_foldl (fun (acc : Assembly) sc => { acc with scaffolds := acc.scaffolds ++ [sc] }) _ (fun _ _ => rfl)]
    rw [foldl_addScaffold]; rfl

/-! ### `name_assemblies`: source items, model entries, the dict of the model's result -/

/-- the source's view of one input assembly: `(key, Assembly object)`; `n0` = whatever name the object had -/
def item (n0 : Str) (a : OutAsm) : Option Str × Assembly :=
  (a.key, ({ name := n0, curated := a.curated, scaffolds := a.scaffolds } : Assembly))
/-- the dict entry of one of the model's `NamedAsm`s -/
def entry (na : NamedAsm) : Option Str × Assembly :=
  (na.key, ({ name := na.name, curated := na.curated, scaffolds := na.scaffolds } : Assembly))
/-- `ret_asm[na.key] = na` -/
def put (d : List (Option Str × Assembly)) (na : NamedAsm) : List (Option Str × Assembly) :=
  dSet d na.key (entry na).2
/-- the model's assignments stored one after the other: a later one with the same key OVERWRITES the earlier one in place -/
def toDict (named : List NamedAsm) : List (Option Str × Assembly) := named.foldl put []

theorem dGet_item_isSome (n0 : Str) (asms : List OutAsm) (k : Option Str) :
    (dGet? (asms.map (item n0)) k).isSome = asms.any (fun a => a.key = k) := by
  induction asms with
  | nil => rfl
  | cons a r ih =>
    rw [List.map_cons, List.any_cons]
    show (dGet? ((a.key, _) :: _) k).isSome = _
    rw [dGet?]
    by_cases h : a.key = k
    · simp [h]
    · simp [h, ih]

/-- a loop whose body runs one `mapM` step and stores the result: `mapM`, then a fold -/
theorem forIn_mapM {α α' β σ ρ : Type} (g : α → α') (step : α → R β) (f : σ → β → σ) (body : α' → σ → R (PyRt.Ctl σ ρ))
    (hbody : ∀ x s, body (g x) s = match step x with | .error e => .error e | .ok b => .ok (.next (f s b)))
    (xs : List α) (s : σ) :
    PyRt.forIn (xs.map g) s body =
      match xs.mapM step with | .error e => .error e | .ok bs => .ok (.fell (bs.foldl f s)) := by
  induction xs generalizing s with
  | nil => rfl
  | cons x xs ih =>
    rw [List.map_cons, PyRt.forIn, hbody, List.mapM_cons]
    cases hx : step x with
    | error e => rfl
    | ok b =>
      simp only [ih]
      cases hxs : xs.mapM step with
      | error e => rfl
      | ok bs => rfl

theorem primStep_none (root version : Str) (a : OutAsm) (h : primStep root version a = .ok none) :
    (a.key ≠ some sPrimary ∧ a.curated = true) := by
  unfold primStep at h
  by_cases hp : a.key = some sPrimary
  · simp [hp, pure, Except.pure] at h
  · cases hc : a.curated with
    | true => exact ⟨hp, rfl⟩
    | false =>
      cases hk : a.key with
      | none => simp [hc, hk, lowerS, bind, Except.bind] at h
      | some k =>
        have hp' : k ≠ sPrimary := by intro e; exact hp (by rw [hk, e])
        simp [hp', hc, hk, lowerS, pure, Except.pure, bind, Except.bind] at h

theorem primStep_some (root version : Str) (a : OutAsm) (na : NamedAsm) (h : primStep root version a = .ok (some na)) :
    ¬ (a.key ≠ some sPrimary ∧ a.curated = true) := by
  rintro ⟨hp, hc⟩
  unfold primStep at h
  simp [hp, hc, pure, Except.pure] at h

/-- THE place that knows the order of the loop state of the `Primary` loop of `name_assemblies` (the translator sorts the carried
    variables by the Lean text of their type, then by name): `other_asm`, `ret_asm` ↦ the generated tuple -/
abbrev primSt (oth : List Assembly) (ret : List (Option Str × Assembly)) :
    List (Option Str × Assembly) × List Assembly := (ret, oth)

theorem primLoop {σ ρ : Type} (pk : List Assembly → List (Option Str × Assembly) → σ) (n0 root version : Str)
    (body : Option Str × Assembly → σ → R (PyRt.Ctl σ ρ))
    (hbody : ∀ a oth ret, body (item n0 a) (pk oth ret) =
      match primStep root version a with
      | .error e => .error e
      | .ok none => .ok (.next (pk (oth ++ [(item n0 a).2]) ret))
      | .ok (some na) => .ok (.next (pk oth (put ret na))))
    (asms : List OutAsm) (oth : List Assembly) (ret : List (Option Str × Assembly)) :
    PyRt.forIn (asms.map (item n0)) (pk oth ret) body =
      match asms.filterMapM (primStep root version) with
      | .error e => .error e
      | .ok named => .ok (.fell (pk (oth ++ (others asms).map (fun a => (item n0 a).2)) (named.foldl put ret))) := by
  induction asms generalizing oth ret with
  | nil => simp [others]; rfl
  | cons x xs ih =>
    rw [List.map_cons, PyRt.forIn, hbody, List.filterMapM_cons]
    cases hx : primStep root version x with
    | error e => rfl
    | ok o =>
      cases o with
      | none =>
        have := primStep_none root version x hx
        simp only [ih]
        have ho : others (x :: xs) = x :: others xs := by
          unfold others; rw [List.filter_cons, if_pos (by simpa using this)]
        rw [ho]
        cases hxs : xs.filterMapM (primStep root version) with
        | error e => rfl
        | ok bs => simp [bind, Except.bind]
      | some na =>
        have := primStep_some root version x na hx
        simp only [ih]
        have ho : others (x :: xs) = others xs := by
          unfold others; rw [List.filter_cons, if_neg (by simpa using this)]
        rw [ho]
        cases hxs : xs.filterMapM (primStep root version) with
        | error e => rfl
        | ok bs => simp [bind, Except.bind, pure, Except.pure]


theorem sPrimary_eq : "Primary".toList = sPrimary := by decide
theorem sHaplotig_eq : "Haplotig".toList = sHaplotig := by decide

theorem toDict_append_one (named : List NamedAsm) (na : NamedAsm) :
    toDict (named ++ [na]) = dSet (toDict named) na.key (entry na).2 := by
  unfold toDict; rw [List.foldl_append]; rfl

theorem name_tie_dict (asms : List OutAsm) (n0 root version : Str) :
    Gen.Imp.name_assemblies_imp (asms.map (item n0)) root version
      = (nameAssemblies asms root version).map toDict := by
  unfold Gen.Imp.name_assemblies_imp
  dsimp only
  rw [nameAssemblies_eq, dGet_item_isSome, dGet_item_isSome, sPrimary_eq]
  by_cases hP : (asms.any fun a => a.key = some sPrimary) = true
  · rw [if_pos hP, if_pos hP]
    rw [primLoop primSt n0 root version]
    · cases hm : List.filterMapM (primStep root version) asms with
      | error e => rfl
      | ok named =>
        cases ho : others asms with
        | nil => simp [bind, Except.bind, Except.map, pure, Except.pure, toDict]
        | cons o os =>
          simp only [bind, Except.bind, Except.map, pure, Except.pure, merge_tie, List.nil_append, List.map_cons,
            List.isEmpty_cons, Bool.not_false, if_true, Bool.false_eq_true, if_false, toDict_append_one]
          simp [allHaplotigs, entry, ho, dotJoin3, item, toDict, List.flatMap_map]
    · intro a oth ret
      obtain ⟨k, c, sc⟩ := a
      unfold primStep
      by_cases hk : k = some sPrimary
      · simp [hk, item, put, entry, dotJoin3, pure, Except.pure]
      · cases c with
        | true => simp [hk, item, pure, Except.pure]
        | false =>
          cases k with
          | none => simp [item, lowerS, PyRt.needObj, bind, Except.bind]
          | some k =>
            simp [hk, item, lowerS, PyRt.needObj, bind, Except.bind, pure, Except.pure, put, entry, dotJoin3]
  · rw [if_neg hP, if_neg hP]
    by_cases hN : (asms.any fun a => a.key = none) = true
    · rw [if_pos hN, if_pos hN]
      rw [forIn_mapM (item n0) (singleStep root version) put]
      · cases hm : List.mapM (singleStep root version) asms with
        | error e => rfl
        | ok named => rfl
      · intro a ret
        obtain ⟨k, c, sc⟩ := a
        unfold singleStep
        cases k with
        | none => simp [item, put, entry, dotJoin3, pure, Except.pure]
        | some k =>
          by_cases hk : k = sHaplotig
          · simp [hk, sHaplotig_eq, item, put, entry, dotJoin3, pure, Except.pure, bind, Except.bind]
          · simp [hk, sHaplotig_eq, item, put, entry, dotJoin3, pure, Except.pure, bind, Except.bind]
    · rw [if_neg hN, if_neg hN]
      rw [forIn_mapM (item n0) (multiStep root version) put]
      · cases hm : List.mapM (multiStep root version) asms with
        | error e => rfl
        | ok named => rfl
      · intro a ret
        obtain ⟨k, c, sc⟩ := a
        unfold multiStep
        cases k with
        | none => cases c <;> simp [item, PyRt.needObj, bind, Except.bind]
        | some k => cases c <;> simp [item, put, entry, dotJoin3, dotJoin4, PyRt.needObj, pure, Except.pure, bind, Except.bind]

/-! ### dictionaries -/

theorem dSet_fresh {κ ν : Type} [DecidableEq κ] (d : List (κ × ν)) (k : κ) (v : ν) (h : k ∉ d.map (·.1)) :
    dSet d k v = d ++ [(k, v)] := by
  induction d with
  | nil => rfl
  | cons p d ih =>
    obtain ⟨k', v'⟩ := p
    simp only [List.map_cons, List.mem_cons, not_or] at h
    rw [dSet, if_neg (fun e => h.1 e.symm), ih h.2]; rfl

theorem dSet_keys {κ ν : Type} [DecidableEq κ] (d : List (κ × ν)) (k : κ) (v : ν) :
    (dSet d k v).map (·.1) = if k ∈ d.map (·.1) then d.map (·.1) else d.map (·.1) ++ [k] := by
  induction d with
  | nil => simp [dSet]
  | cons p d ih =>
    obtain ⟨k', v'⟩ := p
    by_cases hk : k' = k
    · simp [dSet, hk]
    · have hk' : ¬ k = k' := fun e => hk e.symm
      simp only [dSet, hk, if_false, List.map_cons, ih, List.mem_cons, hk', false_or]
      split <;> simp

theorem dSet_keys_nodup {κ ν : Type} [DecidableEq κ] (d : List (κ × ν)) (k : κ) (v : ν) (h : (d.map (·.1)).Nodup) :
    ((dSet d k v).map (·.1)).Nodup := by
  rw [dSet_keys]
  split
  · exact h
  · rename_i hk
    rw [List.nodup_append]
    refine ⟨h, by simp, ?_⟩
    intro a ha b hb
    simp only [List.mem_singleton] at hb
    subst hb
    intro e; subst e; exact hk ha

theorem foldl_put_keys_nodup (named : List NamedAsm) (d : List (Option Str × Assembly)) (h : (d.map (·.1)).Nodup) :
    ((named.foldl put d).map (·.1)).Nodup := by
  induction named generalizing d with
  | nil => exact h
  | cons x xs ih => exact ih _ (dSet_keys_nodup d _ _ h)

/-- the keys of a dictionary are pairwise different, whatever was stored -/
theorem toDict_keys_nodup (named : List NamedAsm) : ((toDict named).map (·.1)).Nodup :=
  foldl_put_keys_nodup named [] (by simp)

theorem foldl_put_fresh (named : List NamedAsm) (d : List (Option Str × Assembly))
    (h : (d.map (·.1) ++ named.map (·.key)).Nodup) :
    named.foldl put d = d ++ named.map entry := by
  induction named generalizing d with
  | nil => simp
  | cons x xs ih =>
    have hx : x.key ∉ d.map (·.1) := by
      intro hm
      exact (List.nodup_append.mp h).2.2 _ hm _ (by simp) rfl
    rw [List.foldl_cons, put, dSet_fresh d _ _ hx, ih]
    · simp [entry]
    · simpa [List.append_assoc] using h

/-- storing pairwise different keys one after the other: the dictionary lists them in order -/
theorem toDict_of_nodup (named : List NamedAsm) (h : (named.map (·.key)).Nodup) : toDict named = named.map entry := by
  unfold toDict; rw [foldl_put_fresh named [] (by simpa using h)]; simp

/-- … and only then -/
theorem toDict_eq_iff (named : List NamedAsm) : toDict named = named.map entry ↔ (named.map (·.key)).Nodup := by
  constructor
  · intro h
    have := toDict_keys_nodup named
    rw [h, List.map_map] at this
    exact this
  · exact toDict_of_nodup named

/-! ### `toDict` is `Model/CliPlan.lean`'s `namedDict` -/

theorem dSet_entry (d : List (Option Str × NamedAsm)) (n : NamedAsm) (hinv : ∀ e ∈ d, e.1 = e.2.key) :
    (dSet d n.key n).map (fun e => entry e.2) = put (d.map (fun e => entry e.2)) n ∧
    (∀ e ∈ dSet d n.key n, e.1 = e.2.key) := by
  induction d with
  | nil => exact ⟨rfl, by intro e he; simp [dSet] at he; subst he; rfl⟩
  | cons p d ih =>
    obtain ⟨k', v'⟩ := p
    have hk' : k' = v'.key := hinv (k', v') (by simp)
    obtain ⟨ih1, ih2⟩ := ih (fun e he => hinv e (by simp [he]))
    by_cases hk : k' = n.key
    · refine ⟨?_, ?_⟩
      · have hv : v'.key = n.key := hk' ▸ hk
        simp [dSet, put, hk, entry, hv]
      · intro e he
        simp only [dSet, hk, if_true, List.mem_cons] at he
        rcases he with he | he
        · subst he; rfl
        · exact hinv e (by simp [he])
    · refine ⟨?_, ?_⟩
      · have hv : ¬ v'.key = n.key := hk' ▸ hk
        unfold put at ih1 ⊢
        simp only [dSet, hk, if_false, List.map_cons, ih1]
        simp [entry, hv]
      · intro e he
        simp only [dSet, hk, if_false, List.mem_cons] at he
        rcases he with he | he
        · subst he; exact hk'
        · exact ih2 e he

theorem foldl_dSet_entry (l : List NamedAsm) (d : List (Option Str × NamedAsm)) (hinv : ∀ e ∈ d, e.1 = e.2.key) :
    (l.foldl (fun (d : List (Option Str × NamedAsm)) n => dSet d n.key n) d).map (fun e => entry e.2)
      = l.foldl put (d.map (fun e => entry e.2)) := by
  induction l generalizing d with
  | nil => rfl
  | cons n l ih =>
    obtain ⟨h1, h2⟩ := dSet_entry d n hinv
    rw [List.foldl_cons, List.foldl_cons, ih _ h2, h1]

/-- the dict of the model's result, as `Model/CliPlan.lean` defines it -/
theorem toDict_eq_namedDict (named : List NamedAsm) : toDict named = (namedDict named).map entry := by
  unfold toDict namedDict
  rw [List.map_map]
  exact (foldl_dSet_entry named [] (by intro e he; cases he)).symm

/-! ### when are the keys of the model's result pairwise different -/

theorem nodup_map_on {α β : Type} (f : α → β) (l : List α) (hinj : ∀ x ∈ l, ∀ y ∈ l, f x = f y → x = y)
    (h : l.Nodup) : (l.map f).Nodup := by
  unfold List.Nodup at *
  rw [List.pairwise_map]
  exact h.imp_of_mem (fun ha hb hne e => hne (hinj _ ha _ hb e))

theorem inj_on_of_nodup_map {α β : Type} (f : α → β) (l : List α) (h : (l.map f).Nodup) :
    ∀ x ∈ l, ∀ y ∈ l, f x = f y → x = y := by
  induction l with
  | nil => intro x hx; cases hx
  | cons a l ih =>
    rw [List.map_cons, List.nodup_cons] at h
    intro x hx y hy e
    rcases List.mem_cons.1 hx with hx | hx <;> rcases List.mem_cons.1 hy with hy | hy
    · rw [hx, hy]
    · exact absurd (by rw [← hx, e]; exact List.mem_map_of_mem hy) h.1
    · exact absurd (by rw [← hy, ← e]; exact List.mem_map_of_mem hx) h.1
    · exact ih h.2 x hx y hy e

/-- the key the single-haplotype branch stores an assembly under -/
def singleKey (k : Option Str) : Option Str := if k = some sHaplotig then some sAdditional else k

theorem singleName_key (root version : Str) (a : OutAsm) : (singleName root version a).key = singleKey a.key := by
  unfold singleName singleKey
  cases hk : a.key with
  | none => simp
  | some k => by_cases h : k = sHaplotig <;> simp [h]

theorem multiName_key (root version : Str) (a : OutAsm) : (multiName root version a).key = a.key := by
  unfold multiName
  cases hk : a.key with
  | none => rfl
  | some k => cases a.curated <;> rfl

theorem hasKey_iff_mem (asms : List OutAsm) (k : Option Str) : HasKey asms k ↔ k ∈ asms.map (·.key) := by
  unfold HasKey; simp [List.mem_map]

theorem single_keys_nodup_iff (root version : Str) (asms : List OutAsm) (hkeys : (asms.map (·.key)).Nodup) :
    ((asms.map (singleName root version)).map (·.key)).Nodup ↔
      (HasKey asms (some sHaplotig) → ¬ HasKey asms (some sAdditional)) := by
  have e : (asms.map (singleName root version)).map (·.key) = (asms.map (·.key)).map singleKey := by
    simp [List.map_map, Function.comp_def, singleName_key]
  rw [e, hasKey_iff_mem, hasKey_iff_mem]
  constructor
  · intro h h1 h2
    have := inj_on_of_nodup_map singleKey _ h _ h1 _ h2 (by decide)
    exact absurd this (by decide)
  · intro h
    apply nodup_map_on singleKey _ _ hkeys
    intro x hx y hy exy
    unfold singleKey at exy
    by_cases h1 : x = some sHaplotig <;> by_cases h2 : y = some sHaplotig
    · rw [h1, h2]
    · rw [if_pos h1, if_neg h2] at exy
      exact absurd (exy ▸ hy) (h (h1 ▸ hx))
    · rw [if_neg h1, if_pos h2] at exy
      exact absurd (exy ▸ hx) (h (h2 ▸ hy))
    · rw [if_neg h1, if_neg h2] at exy; exact exy

theorem multi_keys_nodup (root version : Str) (asms : List OutAsm) (hkeys : (asms.map (·.key)).Nodup) :
    ((asms.map (multiName root version)).map (·.key)).Nodup := by
  have e : (asms.map (multiName root version)).map (·.key) = asms.map (·.key) := by
    simp [List.map_map, Function.comp_def, multiName_key]
  rw [e]; exact hkeys

theorem primaryName_keys (root version : Str) (l : List OutAsm) (hc : ∀ a ∈ l, a.key = none → a.curated = true) :
    (l.filterMap (primaryName root version)).map (·.key) = (l.filter keeps).map (·.key) := by
  induction l with
  | nil => rfl
  | cons x xs ih =>
    have ih := ih (fun a ha => hc a (by simp [ha]))
    rw [List.filterMap_cons, List.filter_cons]
    by_cases hp : x.key = some sPrimary
    · have e1 : primaryName root version x = some { key := some sPrimary, name := dotJoin [root, version, sPrimaryLc], curated := x.curated, scaffolds := x.scaffolds } := by unfold primaryName; rw [if_pos hp]
      have e2 : keeps x = true := by unfold keeps; simp [hp]
      rw [e1, e2]; simp only [if_true, List.map_cons, ih, hp]
    · cases hcur : x.curated with
      | true =>
        have e1 : primaryName root version x = none := by unfold primaryName; rw [if_neg hp, if_pos hcur]
        have e2 : keeps x = false := by unfold keeps; simp [hp, hcur]
        rw [e1, e2]; simp only [Bool.false_eq_true, if_false, ih]
      | false =>
        cases hk : x.key with
        | none => have := hc x (by simp) hk; rw [this] at hcur; cases hcur
        | some k =>
          have e1 : primaryName root version x = some { key := some k, name := dotJoin [root, version, lowerStr k ++ ['s']], curated := false, scaffolds := x.scaffolds } := by
            unfold primaryName; rw [if_neg hp, if_neg (by simp [hcur])]; simp [hk]
          have e2 : keeps x = true := by unfold keeps; simp [hcur]
          rw [e1, e2]; simp only [if_true, List.map_cons, ih, hk]

theorem primary_keys_nodup_iff (root version : Str) (asms : List OutAsm) (hkeys : (asms.map (·.key)).Nodup)
    (hc : ∀ a ∈ asms, a.key = none → a.curated = true) :
    ((asms.filterMap (primaryName root version) ++ mergedPart root version asms).map (·.key)).Nodup ↔
      ((∃ a ∈ asms, a.key ≠ some sPrimary ∧ a.curated = true) →
        ∀ a ∈ asms, a.key = some sAllHaplotigs → a.curated = true) := by
  rw [List.map_append, primaryName_keys root version asms hc]
  have hsub : ((asms.filter keeps).map (·.key)).Nodup :=
    List.Nodup.sublist (List.Sublist.map _ List.filter_sublist) hkeys
  unfold mergedPart
  cases ho : others asms with
  | nil =>
    simp only [List.isEmpty_nil, if_true, List.map_nil, List.append_nil, hsub, true_iff]
    rintro ⟨a, ha, h1, h2⟩
    have : a ∈ others asms := by unfold others; exact List.mem_filter.2 ⟨ha, by simpa using ⟨h1, h2⟩⟩
    rw [ho] at this; cases this
  | cons o os =>
    have hex : ∃ a ∈ asms, a.key ≠ some sPrimary ∧ a.curated = true := by
      have : o ∈ others asms := by rw [ho]; simp
      unfold others at this
      obtain ⟨h1, h2⟩ := List.mem_filter.1 this
      exact ⟨o, h1, by simpa using h2⟩
    simp only [List.isEmpty_cons, Bool.false_eq_true, if_false, List.map_cons, List.map_nil]
    rw [List.nodup_append]
    constructor
    · rintro ⟨_, _, h3⟩ _ a ha hk
      cases hcur : a.curated with
      | true => rfl
      | false =>
        exfalso
        have hkeep : keeps a = true := by unfold keeps; simp [hcur]
        exact h3 a.key (List.mem_map_of_mem (List.mem_filter.2 ⟨ha, hkeep⟩)) (allHaplotigs root version asms).key
          (by simp) (by rw [hk]; rfl)
    · intro h
      refine ⟨hsub, by simp, ?_⟩
      intro k hk k' hk' e
      simp only [List.mem_singleton] at hk'
      subst hk' e
      obtain ⟨a, ha, hak⟩ := List.mem_map.1 hk
      obtain ⟨ha1, ha2⟩ := List.mem_filter.1 ha
      have hc' := h hex a ha1 hak
      unfold keeps at ha2
      have hne : a.key ≠ some sPrimary := by rw [hak]; show some sAllHaplotigs ≠ some sPrimary; decide
      simp [hne, hc'] at ha2

/-- the model's result has pairwise different keys exactly when no generated key (`additional_haplotigs`, `all_haplotigs`)
    is also the key of an assembly that keeps its own entry -/
theorem named_keys_nodup_iff (asms : List OutAsm) (root version : Str) (named : List NamedAsm)
    (hkeys : (asms.map (·.key)).Nodup) (h : nameAssemblies asms root version = .ok named) :
    (named.map (·.key)).Nodup ↔
      ((¬ HasKey asms (some sPrimary) → HasKey asms none → HasKey asms (some sHaplotig) →
          ¬ HasKey asms (some sAdditional)) ∧
       (HasKey asms (some sPrimary) → (∃ a ∈ asms, a.key ≠ some sPrimary ∧ a.curated = true) →
          ∀ a ∈ asms, a.key = some sAllHaplotigs → a.curated = true)) := by
  by_cases hp : HasKey asms (some sPrimary)
  · by_cases hc : ∀ a ∈ asms, a.key = none → a.curated = true
    · rw [nameAssemblies_primary asms root version hp hc] at h
      injection h with h; subst h
      rw [primary_keys_nodup_iff root version asms hkeys hc]
      exact ⟨fun h => ⟨fun hnp => absurd hp hnp, fun _ => h⟩, fun h => h.2 hp⟩
    · exfalso
      have hex : ∃ a ∈ asms, a.key = none ∧ a.curated = false := by
        apply Classical.byContradiction
        intro hne
        apply hc
        intro a ha hk
        cases hcur : a.curated with
        | true => rfl
        | false => exact absurd ⟨a, ha, hk, hcur⟩ hne
      rw [nameAssemblies_primary_fails asms root version hp hex] at h
      cases h
  · by_cases hn : HasKey asms none
    · rw [nameAssemblies_single asms root version hp hn] at h
      injection h with h; subst h
      rw [single_keys_nodup_iff root version asms hkeys]
      exact ⟨fun h => ⟨fun _ _ => h, fun hp' => absurd hp' hp⟩, fun h => h.1 hp hn⟩
    · rw [nameAssemblies_multi asms root version hp hn] at h
      injection h with h; subst h
      exact ⟨fun _ => ⟨fun _ hn' => absurd hn' hn, fun hp' => absurd hp' hp⟩,
        fun _ => multi_keys_nodup root version asms hkeys⟩

/-! ### the ties in list form -/

theorem name_tie_namedDict (asms : List OutAsm) (n0 root version : Str) :
    Gen.Imp.name_assemblies_imp (asms.map (item n0)) root version =
      (nameAssemblies asms root version).map (fun named => (namedDict named).map entry) := by
  rw [name_tie_dict]
  cases nameAssemblies asms root version with
  | error e => rfl
  | ok named => exact congrArg Except.ok (toDict_eq_namedDict named)

theorem name_tie_iff (asms : List OutAsm) (n0 root version : Str) (named : List NamedAsm)
    (h : nameAssemblies asms root version = .ok named) :
    Gen.Imp.name_assemblies_imp (asms.map (item n0)) root version = .ok (named.map entry) ↔
      (named.map (·.key)).Nodup := by
  rw [name_tie_dict, h, ← toDict_eq_iff]
  simp [Except.map]

theorem name_tie_error (asms : List OutAsm) (n0 root version : Str) (e : Err)
    (h : nameAssemblies asms root version = .error e) :
    Gen.Imp.name_assemblies_imp (asms.map (item n0)) root version = .error e := by
  rw [name_tie_dict, h]; rfl

theorem name_tie (asms : List OutAsm) (n0 root version : Str)
    (hkeys : (asms.map (·.key)).Nodup)
    (hadd : ¬ HasKey asms (some sPrimary) → HasKey asms none → HasKey asms (some sHaplotig) →
      ¬ HasKey asms (some sAdditional))
    (hall : HasKey asms (some sPrimary) → (∃ a ∈ asms, a.key ≠ some sPrimary ∧ a.curated = true) →
      ∀ a ∈ asms, a.key = some sAllHaplotigs → a.curated = true) :
    Gen.Imp.name_assemblies_imp (asms.map (item n0)) root version =
      (nameAssemblies asms root version).map (·.map entry) := by
  cases h : nameAssemblies asms root version with
  | error e => rw [name_tie_error asms n0 root version e h]; rfl
  | ok named =>
    rw [(name_tie_iff asms n0 root version named h).2
      ((named_keys_nodup_iff asms root version named hkeys h).2 ⟨hadd, hall⟩)]
    rfl
end AgpTpf.ImpNames
