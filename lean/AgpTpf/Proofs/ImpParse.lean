/-
  T1c tie for `parse_agp` / `parse_tpf` (assembly/parser.py): lemmas for the translated sources
  `Gen.Imp.parse_agp_imp` / `Gen.Imp.parse_tpf_imp`.

  The source keeps the scaffolds it creates in an arena `heap` and refers to the current one by a reference
  `sc : Option Nat`; `asm.scaffolds` is the list `refs` of references.  The model keeps `st.scaffolds` (current one LAST)
  and the flag `st.haveScaffold`.  `srcState` rebuilds the model's `ParseState` from the source's variables, `ArenaInv`
  is the invariant that makes the two views agree (`refs = [0, …, heap.length)`, `sc` is `none` or the last slot).

  * `forIn_sim`            a `PyRt.forIn` whose body simulates a step function `R`-for-`R` is `List.foldlM` of that step
  * `srcState_switch_*`    `Scaffold(name)` + `asm.add_scaffold` = `switchScaffold`
  * `srcState_addRow_*`    `needObj` + `arenaAddRow` = `ParseState.addRow`
  * small facts            `PyRt.slice l (some 9) none = l.drop 9`, `PyRt.dictGet = lookupStr`, the `str.translate` table
  The only place that looks at the generated text is the proof of the body hypothesis in `Properties/C05ImpParse.lean`.
-/
import AgpTpf.Gen.Imp
import AgpTpf.Model.Text
namespace AgpTpf.C05
open AgpTpf

/-! ### the loop: `for line in file` against `List.foldlM` -/

/-- one pass of a loop body `r` simulates one step `m` of the model: same exception, or the body falls off its end
    (`continue`) in a state related to the model's new state; the body never `break`s or `return`s -/
def StepSim {σ ρ τ : Type} (Rel : σ → τ → Prop) (r : R (PyRt.Ctl σ ρ)) (m : R τ) : Prop :=
  match m with
  | .error e => r = .error e
  | .ok t => ∃ s, r = .ok (.next s) ∧ Rel s t

/-- …and the whole loop: same exception, or the loop is over in a related state -/
def LoopSim {σ ρ τ : Type} (Rel : σ → τ → Prop) (r : R (PyRt.Done σ ρ)) (m : R τ) : Prop :=
  match m with
  | .error e => r = .error e
  | .ok t => ∃ s, r = .ok (.fell s) ∧ Rel s t

theorem stepSim_error {σ ρ τ : Type} {Rel : σ → τ → Prop} (e : Err) :
    StepSim (ρ := ρ) Rel (.error e) (.error e) := rfl

theorem stepSim_next {σ ρ τ : Type} {Rel : σ → τ → Prop} {s : σ} {t : τ} (h : Rel s t) :
    StepSim (ρ := ρ) Rel (.ok (.next s)) (.ok t) := ⟨s, rfl, h⟩

/-- both sides run the same fallible operation `x` first and simulate each other afterwards (the continuation may use
    what `x` returned, e.g. to evaluate a second occurrence of the same expression) -/
theorem stepSim_bind {σ ρ τ α : Type} {Rel : σ → τ → Prop} {x : R α} {f : α → R (PyRt.Ctl σ ρ)} {g : α → R τ}
    (h : ∀ a, x = .ok a → StepSim Rel (f a) (g a)) : StepSim Rel (x >>= f) (x >>= g) := by
  cases x with
  | error e => exact stepSim_error e
  | ok a => exact h a rfl

/-- both sides branch on the same condition (`hcc`: the two ways of writing it agree) -/
theorem stepSim_ite {σ ρ τ : Type} {Rel : σ → τ → Prop} {c c' : Prop} [Decidable c] [Decidable c']
    {a b : R (PyRt.Ctl σ ρ)} {a' b' : R τ} (hcc : c ↔ c')
    (ha : c' → StepSim Rel a a') (hb : ¬ c' → StepSim Rel b b') :
    StepSim Rel (if c then a else b) (if c' then a' else b') := by
  by_cases h : c'
  · rw [if_pos (hcc.mpr h), if_pos h]; exact ha h
  · rw [if_neg (fun hc => h (hcc.mp hc)), if_neg h]; exact hb h

/-- what follows an `if` statement, moved into its two branches -/
theorem ite_bind' {α β : Type} (c : Prop) [Decidable c] (a b : R α) (k : α → R β) :
    ((if c then a else b) >>= k) = if c then a >>= k else b >>= k := by
  by_cases h : c
  · rw [if_pos h, if_pos h]
  · rw [if_neg h, if_neg h]

theorem throw_bind {α β : Type} (e : Err) (k : α → R β) : ((throw e : R α) >>= k) = .error e := rfl

theorem needObj_some {α : Type} (x : α) : PyRt.needObj (some x) = .ok x := rfl
theorem needObj_none {α : Type} : PyRt.needObj (none : Option α) = .error .attribute := rfl

theorem forIn_sim {α σ ρ τ : Type} (Rel : σ → τ → Prop) (step : τ → α → R τ)
    (body : α → σ → R (PyRt.Ctl σ ρ))
    (hbody : ∀ x s t, Rel s t → StepSim Rel (body x s) (step t x))
    (xs : List α) (s : σ) (t : τ) (h : Rel s t) :
    LoopSim Rel (PyRt.forIn xs s body) (xs.foldlM step t) := by
  induction xs generalizing s t with
  | nil => exact ⟨s, rfl, h⟩
  | cons x xs ih =>
    have hb := hbody x s t h
    rw [List.foldlM_cons, PyRt.forIn]
    cases hm : step t x with
    | error e =>
      rw [hm] at hb
      simp only [StepSim] at hb
      rw [hb]; rfl
    | ok t' =>
      rw [hm] at hb
      obtain ⟨s', hs', hrel⟩ := hb
      rw [hs']
      exact ih s' t' hrel

/-- the whole kernel: the loop, then what is done with the loop's final state (`fin`, with the caller's view `g` of the
    result), against the model's fold followed by `finM` -/
theorem forIn_sim_finish {α σ ρ τ β γ : Type} (Rel : σ → τ → Prop) (step : τ → α → R τ)
    (body : α → σ → R (PyRt.Ctl σ ρ)) (xs : List α) (s : σ) (t : τ)
    (fin : PyRt.Done σ ρ → R β) (g : β → γ) (finM : τ → R γ)
    (h : Rel s t)
    (hbody : ∀ x s t, Rel s t → StepSim Rel (body x s) (step t x))
    (hfin : ∀ s t, Rel s t → (fin (.fell s)).map g = finM t) :
    (PyRt.forIn xs s body >>= fin).map g = (xs.foldlM step t >>= finM) := by
  have hl := forIn_sim Rel step body hbody xs s t h
  cases hm : xs.foldlM step t with
  | error e =>
    rw [hm] at hl
    simp only [LoopSim] at hl
    rw [hl]; rfl
  | ok t' =>
    rw [hm] at hl
    obtain ⟨s', hs', hrel⟩ := hl
    rw [hs']
    exact hfin s' t' hrel

/-! ### the two views of the parser's state -/

/-- the model's state, from the source's variables (`scaffold is not None` is the model's flag) -/
def srcState (hdr : List Str) (nm : Str) (sc : Option Nat) (heap : List Scaffold) (oid : Nat) : ParseState :=
  { header := hdr, scaffolds := heap, currentName := nm, haveScaffold := sc.isSome, nextOid := oid }

/-- the arena and `asm.scaffolds` grow together, and the current scaffold is the newest one -/
def ArenaInv (sc : Option Nat) (heap : List Scaffold) (refs : List Nat) : Prop :=
  refs = List.range heap.length ∧ (sc = none ∨ (heap ≠ [] ∧ sc = some (heap.length - 1)))

theorem arenaInv_init : ArenaInv none [] [] := ⟨rfl, .inl rfl⟩

theorem srcState_init : srcState [] [] none [] 0 = {} := rfl

/-- `Scaffold(name)` allocated at the end of the arena, `asm.add_scaffold(ref)` -/
theorem arenaInv_alloc {sc : Option Nat} {heap : List Scaffold} {refs : List Nat} (h : ArenaInv sc heap refs)
    (s : Scaffold) : ArenaInv (some heap.length) (heap ++ [s]) (refs ++ [heap.length]) := by
  refine ⟨?_, .inr ⟨by simp, by simp⟩⟩
  rw [h.1]; simp [List.range_succ]

/-- the model's `switchScaffold`, in the source's variables: a different name opens a new scaffold … -/
theorem srcState_switch_ne (hdr : List Str) (nm : Str) (sc : Option Nat) (heap : List Scaffold) (oid : Nat)
    (name : Str) (h : name ≠ nm) :
    (srcState hdr nm sc heap oid).switchScaffold name =
      srcState hdr name (some heap.length) (heap ++ [{ name := name }]) oid := by
  simp [ParseState.switchScaffold, srcState, h]

/-- … the same name changes nothing -/
theorem srcState_switch_eq (hdr : List Str) (nm : Str) (sc : Option Nat) (heap : List Scaffold) (oid : Nat) :
    (srcState hdr nm sc heap oid).switchScaffold nm = srcState hdr nm sc heap oid := by
  simp [ParseState.switchScaffold, srcState]

theorem srcState_haveScaffold (hdr : List Str) (nm : Str) (sc : Option Nat) (heap : List Scaffold) (oid : Nat) :
    (srcState hdr nm sc heap oid).haveScaffold = sc.isSome := rfl

/-- attribute access on the variable `scaffold` (`scaffold.add_row`: AttributeError on `None`) against the model's
    `if ¬ st.haveScaffold then throw .attribute`, whatever follows -/
theorem stepSim_needObj {σ ρ τ : Type} {Rel : σ → τ → Prop}
    (hdr : List Str) (nm : Str) (sc : Option Nat) (heap : List Scaffold) (oid : Nat)
    {f : Nat → R (PyRt.Ctl σ ρ)} {k : PUnit → R τ} {g : R τ}
    (h : ∀ r, sc = some r → StepSim Rel (f r) g) :
    StepSim Rel (PyRt.needObj sc >>= f)
      (if ¬ (srcState hdr nm sc heap oid).haveScaffold = true then (throw Err.attribute >>= k) else g) := by
  cases sc with
  | none => exact stepSim_error _
  | some r => exact h r rfl

theorem srcState_nextOid (hdr : List Str) (nm : Str) (sc : Option Nat) (heap : List Scaffold) (oid : Nat) :
    (srcState hdr nm sc heap oid).nextOid = oid := rfl

theorem srcState_header (hdr : List Str) (nm : Str) (sc : Option Nat) (heap : List Scaffold) (oid : Nat) :
    (srcState hdr nm sc heap oid).header = hdr := rfl

theorem srcState_scaffolds (hdr : List Str) (nm : Str) (sc : Option Nat) (heap : List Scaffold) (oid : Nat) :
    (srcState hdr nm sc heap oid).scaffolds = heap := rfl

/-- the object counter moves on after a Fragment was created -/
theorem srcState_bump (hdr : List Str) (nm : Str) (sc : Option Nat) (heap : List Scaffold) (oid : Nat) :
    { srcState hdr nm sc heap oid with nextOid := (srcState hdr nm sc heap oid).nextOid + 1 } =
      srcState hdr nm sc heap (oid + 1) := rfl

/-- `asm.add_header_line(h)` -/
theorem srcState_addHeader (hdr : List Str) (nm : Str) (sc : Option Nat) (heap : List Scaffold) (oid : Nat) (h : Str) :
    { srcState hdr nm sc heap oid with header := (srcState hdr nm sc heap oid).header ++ [h] } =
      srcState (hdr ++ [h]) nm sc heap oid := rfl

theorem arenaAddRow_length (heap : List Scaffold) (r : Nat) (row : Row) :
    (PyRt.arenaAddRow heap r row).length = heap.length := by
  unfold PyRt.arenaAddRow
  cases heap[r]? <;> simp

theorem arenaAddRow_ne_nil {heap : List Scaffold} (r : Nat) (row : Row) (h : heap ≠ []) :
    PyRt.arenaAddRow heap r row ≠ [] := by
  intro h'
  have := arenaAddRow_length heap r row
  rw [h'] at this
  exact h (List.eq_nil_of_length_eq_zero this.symm)

/-- `add_row` through a reference keeps the invariant (the arena keeps its size) -/
theorem arenaInv_addRow {sc : Option Nat} {heap : List Scaffold} {refs : List Nat} (h : ArenaInv sc heap refs)
    (r : Nat) (row : Row) : ArenaInv sc (PyRt.arenaAddRow heap r row) refs := by
  refine ⟨by rw [arenaAddRow_length]; exact h.1, ?_⟩
  rcases h.2 with h2 | ⟨hne, h2⟩
  · exact .inl h2
  · exact .inr ⟨arenaAddRow_ne_nil r row hne, by rw [arenaAddRow_length]; exact h2⟩

/-- adding a row to the last slot of the arena is the model's "add to the last scaffold" -/
theorem arenaAddRow_last (init : List Scaffold) (s : Scaffold) (row : Row) :
    PyRt.arenaAddRow (init ++ [s]) ((init ++ [s]).length - 1) row = init ++ [{ s with rows := s.rows ++ [row] }] := by
  unfold PyRt.arenaAddRow
  simp

/-- `scaffold.add_row(row)` on `None`: AttributeError, in the model too -/
theorem srcState_addRow_none (hdr : List Str) (nm : Str) (heap : List Scaffold) (oid : Nat) (row : Row) :
    (srcState hdr nm none heap oid).addRow row = .error .attribute := by
  simp [ParseState.addRow, srcState]

/-- `scaffold.add_row(row)` through the reference: the model's `addRow` -/
theorem srcState_addRow_some (hdr : List Str) (nm : Str) (r : Nat) (heap : List Scaffold) (refs : List Nat) (oid : Nat)
    (row : Row) (h : ArenaInv (some r) heap refs) :
    (srcState hdr nm (some r) heap oid).addRow row = .ok (srcState hdr nm (some r) (PyRt.arenaAddRow heap r row) oid) := by
  rcases h.2 with h2 | ⟨hne, h2⟩
  · cases h2
  · rcases List.eq_nil_or_concat heap with h0 | ⟨init, s, rfl⟩
    · exact absurd h0 hne
    · cases h2
      rw [List.concat_eq_append, arenaAddRow_last]
      simp [ParseState.addRow, srcState]

/-! ### what comes back: `asm.scaffolds` dereferenced -/

theorem map_getD_range {α : Type} (l : List α) (d : α) : (List.range l.length).map (fun i => l.getD i d) = l := by
  apply List.ext_getElem
  · simp
  · intro i h1 h2
    simp [List.getD, List.getElem?_eq_getElem h2]

/-! ### run-time support -/

/-- `fields[9:]` -/
theorem slice_from {α : Type} (l : List α) (k : Nat) : PyRt.slice l (some (k : Int)) none = l.drop k := by
  unfold PyRt.slice PyRt.clampIdx
  simp only []
  have h1 : ¬ ((k : Int) < 0) := by omega
  simp only [h1, if_false, Int.toNat_natCast]
  by_cases h : k ≤ l.length
  · rw [Nat.min_eq_left h, ← List.length_drop]; exact List.take_length
  · have h' : l.length ≤ k := by omega
    rw [Nat.min_eq_right h', List.drop_of_length_le h', List.drop_of_length_le (Nat.le_refl _)]; simp

theorem slice_from_9 {α : Type} (l : List α) : PyRt.slice l (some (9 : Int)) none = l.drop 9 := slice_from l 9

/-- `d[k]` on a dictionary of texts: the model's `lookupStr` -/
theorem dictGet_eq_lookupStr {β : Type} (d : List (Str × β)) (k : Str) : PyRt.dictGet d k = lookupStr d k := rfl

/-- `gap_type_dict.get(t, t.translate(tr))`: the model's `tpfGapTypeOfText`, for the table `tr` of the model -/
theorem tpfGapTypeOfText_eq_getD (t : Str) :
    tpfGapTypeOfText t = (dGet? Gen.tpfGapParseDict t).getD
      (t.map (fun c => match dGet? (Gen.lowerFrom.zip Gen.lowerTo) c with | some d => d | none => c)) := by
  unfold tpfGapTypeOfText
  cases dGet? Gen.tpfGapParseDict t <;> rfl

/-- `line.rstrip("\r\n")`: the character class written as a membership test -/
theorem isCrLf_eq_contains : (fun c => (['\r', '\n'] : List Char).contains c) = isCrLf := by
  funext c
  by_cases h1 : c = '\r'
  · subst h1; rfl
  · by_cases h2 : c = '\n'
    · subst h2; rfl
    · have e1 : (c == '\r') = false := by simp [h1]
      have e2 : (c == '\n') = false := by simp [h2]
      simp [isCrLf, List.contains, List.elem, e1, e2, h1, h2]

/-- `if x:` then `raise` / `throw` in `Except`: plumbing used by the body proofs -/
theorem bind_ok {α β : Type} (a : α) (f : α → R β) : ((Except.ok a : R α) >>= f) = f a := rfl
theorem bind_error {α β : Type} (e : Err) (f : α → R β) : ((Except.error e : R α) >>= f) = .error e := rfl

end AgpTpf.C05
