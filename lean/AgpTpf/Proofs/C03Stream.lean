/-
  `FastaStream.write_scaffold` / `write_assembly` (fasta/stream.py) against a byte-level specification — helper for C03 / C13 / C14.
-/
import AgpTpf.Proofs.C03Chunks
import AgpTpf.Proofs.C03Wrap
import AgpTpf.Proofs.C03Seq
namespace AgpTpf.StreamProofs
open AgpTpf AgpTpf.ChunkProofs AgpTpf.WrapProofs AgpTpf.SeqProofs

/-- the gap character the stream writes (`gap_character=b"N"`, regenerated from the source) -/
def gapByte : Nat := Gen.gapCharacter.headD 78

/-- residues `a..b` of a sequence, 1-based and closed as in AGP rows -/
def slice (res : Bytes) (a b : Int) : Bytes := slice0 res (a - 1).toNat b.toNat

/-- what one AGP row contributes to the sequence of its scaffold -/
def rowBody (resOf : Str → Bytes) : Row → Bytes
  | .gap g => List.replicate g.length.toNat gapByte
  | .frag f => if f.strand = -1 then reverseComplement (slice (resOf f.name) f.start f.stop)
               else slice (resOf f.name) f.start f.stop

/-- "the output AGP applied to the input FASTA": concatenation in row order -/
def rowsBody (resOf : Str → Bytes) (rows : List Row) : Bytes := (rows.map (rowBody resOf)).flatten

/-- the index entry `info` describes where the residues `res` lie in `file` -/
def RecordOK (file : Bytes) (info : FastaInfo) (res : Bytes) : Prop :=
  0 ≤ info.fileOffset ∧ 1 ≤ info.rpl ∧ info.rpl ≤ info.mll ∧
  LaidOut file info.fileOffset.toNat info.rpl.toNat info.mll.toNat res

/-- the fragment names an indexed sequence and lies within it -/
def FragOK (file : Bytes) (idx : List (Str × FastaInfo)) (resOf : Str → Bytes) (f : Fragment) : Prop :=
  ∃ info, getInfo idx f.name = .ok info ∧ RecordOK file info (resOf f.name) ∧
    1 ≤ f.start ∧ f.start ≤ f.stop ∧ f.stop ≤ (resOf f.name).length

def RowOK (file : Bytes) (idx : List (Str × FastaInfo)) (resOf : Str → Bytes) : Row → Prop
  | .gap _ => True
  | .frag f => FragOK file idx resOf f

structure LogInv (bs w : Int) (lg : StreamLog) : Prop where
  want_lo : 1 ≤ lg.want
  want_hi : lg.want ≤ w
  chunks : ∀ c ∈ lg.chunkSizes, (c : Int) ≤ bs
  reads : ∀ r ∈ lg.reads, 0 ≤ r ∧ r ≤ bs

/-- `lg'` is `lg` after the bytes `body` went through the line wrapper -/
def Ext (w : Int) (lg lg' : StreamLog) (body : Bytes) : Prop :=
  lg'.out = lg.out ++ (wrapGo w lg.want body).1 ∧ lg'.want = (wrapGo w lg.want body).2

theorem Ext.refl (w : Int) (lg : StreamLog) : Ext w lg lg [] := by simp [Ext, wrapGo]

theorem Ext.trans {w : Int} {a b c : StreamLog} {x y : Bytes} (h1 : Ext w a b x) (h2 : Ext w b c y) :
    Ext w a c (x ++ y) := by
  unfold Ext at *
  rw [wrapGo_append]
  simp only [h2.1, h1.1, h2.2, h1.2, List.append_assoc, and_self]

/-- writing one chunk -/
theorem write_one {bs w : Int} (hw : 1 ≤ w) {lg : StreamLog} (hi : LogInv bs w lg) (chunk : Bytes)
    (rds : List Int) (hc : (chunk.length : Int) ≤ bs) (hr : ∀ r ∈ rds, 0 ≤ r ∧ r ≤ bs) :
    let lg' : StreamLog :=
      { lg with out := lg.out ++ (writeChunk w (chunk.length + 1) lg.want chunk).1,
                want := (writeChunk w (chunk.length + 1) lg.want chunk).2,
                chunkSizes := lg.chunkSizes ++ [chunk.length], reads := lg.reads ++ rds }
    LogInv bs w lg' ∧ Ext w lg lg' chunk := by
  intro lg'
  have e := writeChunk_eq_wrapGo w (chunk.length + 1) lg.want chunk hi.want_lo hi.want_hi (Nat.le_refl _)
  have hr' := wrapGo_want_range w hw chunk lg.want hi.want_lo hi.want_hi
  refine ⟨⟨?_, ?_, ?_, ?_⟩, ?_, ?_⟩
  · show 1 ≤ (writeChunk w (chunk.length + 1) lg.want chunk).2
    rw [e]; exact hr'.1
  · show (writeChunk w (chunk.length + 1) lg.want chunk).2 ≤ w
    rw [e]; exact hr'.2
  · intro c hc'
    rcases List.mem_append.mp hc' with h | h
    · exact hi.chunks c h
    · simp only [List.mem_singleton] at h; subst h; exact hc
  · intro r hr''
    rcases List.mem_append.mp hr'' with h | h
    · exact hi.reads r h
    · exact hr r h
  · show lg.out ++ (writeChunk w (chunk.length + 1) lg.want chunk).1 = _
    rw [e]
  · show (writeChunk w (chunk.length + 1) lg.want chunk).2 = _
    rw [e]

/-! ### gap rows -/

def gapStep (w : Int) (lg : StreamLog) (n : Int) : StreamLog :=
  let chunk := List.replicate n.toNat (Gen.gapCharacter.headD 78)
  let (o, want) := writeChunk w (chunk.length + 1) lg.want chunk
  { lg with out := lg.out ++ o, want := want, chunkSizes := lg.chunkSizes ++ [chunk.length] }

theorem streamRow_gap (file : Bytes) (idx : List (Str × FastaInfo)) (bs w : Int) (log : StreamLog) (g : Gap) :
    streamRow file idx bs w log (.gap g) = .ok ((gapChunkList g.length bs).foldl (gapStep w) log) := rfl

theorem gap_fold {bs w : Int} (hw : 1 ≤ w) : ∀ (chunks : List Int) (lg : StreamLog), LogInv bs w lg →
    (∀ n ∈ chunks, 0 ≤ n ∧ n ≤ bs) →
    LogInv bs w (chunks.foldl (gapStep w) lg) ∧
    Ext w lg (chunks.foldl (gapStep w) lg) ((chunks.map (fun n => List.replicate n.toNat gapByte)).flatten)
  | [], lg, hi, _ => ⟨hi, Ext.refl w lg⟩
  | n :: rest, lg, hi, hn => by
    have hn0 := hn n (by simp)
    have h1 := write_one hw hi (List.replicate n.toNat gapByte) [] (by simp; omega) (by simp)
    simp only [List.append_nil] at h1
    have h2 := gap_fold hw rest _ h1.1 (fun m hm => hn m (by simp [hm]))
    simp only [List.foldl_cons, List.map_cons, List.flatten_cons]
    exact ⟨h2.1, Ext.trans h1.2 h2.2⟩

theorem replicate_chunks (x : Nat) : ∀ (l : List Int), (∀ c ∈ l, 0 ≤ c) →
    0 ≤ sumInts l ∧ (l.map (fun n => List.replicate n.toNat x)).flatten = List.replicate (sumInts l).toNat x
  | [], _ => by simp [sumInts]
  | a :: r, h => by
    have ha := h a (by simp)
    have ⟨h1, h2⟩ := replicate_chunks x r (fun c hc => h c (by simp [hc]))
    refine ⟨by simp only [sumInts]; omega, ?_⟩
    simp only [List.map_cons, List.flatten_cons, h2, List.replicate_append_replicate, sumInts]
    congr 1
    omega

theorem row_gap {bs w : Int} (hbs : 1 ≤ bs) (hw : 1 ≤ w) (file : Bytes) (idx : List (Str × FastaInfo))
    (resOf : Str → Bytes) (lg : StreamLog) (hi : LogInv bs w lg) (g : Gap) :
    ∃ lg', streamRow file idx bs w lg (.gap g) = .ok lg' ∧ LogInv bs w lg' ∧ Ext w lg lg' (rowBody resOf (.gap g)) := by
  have ⟨hs, hb⟩ := gapChunkList_spec g.length bs hbs
  have h := gap_fold hw (gapChunkList g.length bs) lg hi hb
  have ⟨_, hr⟩ := replicate_chunks gapByte (gapChunkList g.length bs) (fun c hc => (hb c hc).1)
  refine ⟨_, streamRow_gap file idx bs w lg g, h.1, ?_⟩
  have : rowBody resOf (.gap g) = List.replicate (sumInts (gapChunkList g.length bs)).toNat gapByte := by
    simp only [rowBody, hs]
    congr 1
    omega
  rw [this, ← hr]
  exact h.2

/-! ### fragment rows -/

def fragStep (file : Bytes) (info : FastaInfo) (strand w : Int) (lg : StreamLog) (b : Int × Int) : R StreamLog := do
  let rl ← sequenceBytes file info b.1 b.2
  let chunk := if strand = -1 then reverseComplement rl.data else rl.data
  let (o, want) := writeChunk w (chunk.length + 1) lg.want chunk
  pure { lg with out := lg.out ++ o, want := want, chunkSizes := lg.chunkSizes ++ [chunk.length],
                 reads := lg.reads ++ rl.reads }

theorem streamRow_frag (file : Bytes) (idx : List (Str × FastaInfo)) (bs w : Int) (log : StreamLog) (f : Fragment)
    (info : FastaInfo) (hinfo : getInfo idx f.name = .ok info) :
    streamRow file idx bs w log (.frag f)
      = (if f.strand = -1 then revChunkList f.start f.stop bs else fwdChunkList f.start f.stop bs).foldlM
          (fragStep file info f.strand w) log := by
  simp only [streamRow, hinfo, bind, Except.bind]
  rfl

theorem slice_append (res : Bytes) (a b c : Int) (h0 : 1 ≤ a) (h1 : a ≤ b) (h2 : b ≤ c) :
    slice res a b ++ slice res (b + 1) c = slice res a c := by
  unfold slice
  rw [show (b + 1 - 1).toNat = b.toNat by omega]
  exact slice0_append res _ _ _ (by omega) (by omega)

theorem slice_length (res : Bytes) (a b : Int) (h0 : 1 ≤ a) (h1 : a ≤ b) (h2 : b ≤ res.length) :
    ((slice res a b).length : Int) = b - a + 1 := by
  unfold slice
  rw [slice0_length _ _ _ (by omega)]
  omega

/-- one `sequence_bytes` call on a chunk inside an indexed record -/
theorem seq_chunk {file : Bytes} {info : FastaInfo} {res : Bytes} (hrec : RecordOK file info res)
    (a b : Int) (h0 : 1 ≤ a) (h1 : a ≤ b) (h2 : b ≤ res.length) :
    ∃ rl, sequenceBytes file info a b = .ok rl ∧ rl.data = slice res a b ∧
      ∀ r ∈ rl.reads, 0 ≤ r ∧ r ≤ b - a + 1 := by
  obtain ⟨ho, hr, hm, hl⟩ := hrec
  have := sequenceBytes_slice (file := file) (res := res) info
    (show info.fileOffset = (info.fileOffset.toNat : Int) by omega)
    (show info.rpl = (info.rpl.toNat : Int) by omega)
    (show info.mll = (info.mll.toNat : Int) by omega) (by omega) (by omega) hl
    (a - 1).toNat b.toNat (by omega) (by omega)
  rw [show (((a - 1).toNat : Nat) : Int) + 1 = a by omega, show ((b.toNat : Nat) : Int) = b by omega] at this
  obtain ⟨rl, h1', h2', h3'⟩ := this
  refine ⟨rl, h1', h2', ?_⟩
  intro r hr'
  have := h3' r hr'
  omega

def chunkOf (res : Bytes) (strand : Int) (b : Int × Int) : Bytes :=
  if strand = -1 then reverseComplement (slice res b.1 b.2) else slice res b.1 b.2

theorem frag_fold {bs w : Int} (hw : 1 ≤ w) {file : Bytes} {info : FastaInfo} {res : Bytes}
    (hrec : RecordOK file info res) (strand : Int) :
    ∀ (bounds : List (Int × Int)) (lg : StreamLog), LogInv bs w lg →
      (∀ b ∈ bounds, 1 ≤ b.1 ∧ b.1 ≤ b.2 ∧ b.2 ≤ res.length ∧ b.2 - b.1 + 1 ≤ bs) →
      ∃ lg', bounds.foldlM (fragStep file info strand w) lg = .ok lg' ∧ LogInv bs w lg' ∧
        Ext w lg lg' ((bounds.map (chunkOf res strand)).flatten)
  | [], lg, hi, _ => ⟨lg, rfl, hi, Ext.refl w lg⟩
  | b :: rest, lg, hi, hb => by
    obtain ⟨hb1, hb2, hb3, hb4⟩ := hb b (by simp)
    obtain ⟨rl, hs1, hs2, hs3⟩ := seq_chunk hrec b.1 b.2 hb1 hb2 hb3
    have hlen := slice_length res b.1 b.2 hb1 hb2 hb3
    have hcl : ((chunkOf res strand b).length : Int) ≤ bs := by
      unfold chunkOf
      split
      · simp only [reverseComplement, List.length_map, List.length_reverse]; omega
      · omega
    have h1 := write_one hw hi (chunkOf res strand b) rl.reads hcl
      (fun r hr => by have := hs3 r hr; omega)
    have hstep : fragStep file info strand w lg b = .ok
        { lg with out := lg.out ++ (writeChunk w ((chunkOf res strand b).length + 1) lg.want (chunkOf res strand b)).1,
                  want := (writeChunk w ((chunkOf res strand b).length + 1) lg.want (chunkOf res strand b)).2,
                  chunkSizes := lg.chunkSizes ++ [(chunkOf res strand b).length],
                  reads := lg.reads ++ rl.reads } := by
      simp only [fragStep, hs1, bind, Except.bind, hs2]
      rfl
    obtain ⟨lg', hf, hi', he'⟩ := frag_fold hw hrec strand rest _ h1.1 (fun c hc => hb c (by simp [hc]))
    refine ⟨lg', ?_, hi', ?_⟩
    · simp only [List.foldlM_cons, hstep, bind, Except.bind]
      exact hf
    · simp only [List.map_cons, List.flatten_cons]
      exact Ext.trans h1.2 he'

theorem reverseComplement_append (x y : Bytes) :
    reverseComplement (x ++ y) = reverseComplement y ++ reverseComplement x := by
  simp [reverseComplement]

theorem flatten_rc_reverse (g : Int × Int → Bytes) : ∀ (l : List (Int × Int)),
    ((l.reverse).map (fun b => reverseComplement (g b))).flatten = reverseComplement ((l.map g).flatten)
  | [] => by simp [reverseComplement]
  | a :: t => by
    simp only [List.reverse_cons, List.map_append, List.flatten_append, List.map_cons, List.map_nil,
      List.flatten_cons, List.flatten_nil, List.append_nil, flatten_rc_reverse g t, reverseComplement_append]

theorem row_frag {bs w : Int} (hbs : 1 ≤ bs) (hw : 1 ≤ w) (file : Bytes) (idx : List (Str × FastaInfo))
    (resOf : Str → Bytes) (lg : StreamLog) (hi : LogInv bs w lg) (f : Fragment) (hf : FragOK file idx resOf f) :
    ∃ lg', streamRow file idx bs w lg (.frag f) = .ok lg' ∧ LogInv bs w lg' ∧ Ext w lg lg' (rowBody resOf (.frag f)) := by
  obtain ⟨info, hinfo, hrec, h0, h1, h2⟩ := hf
  have ht := fwdChunkList_tiles f.start f.stop bs hbs h1
  have hne := fwdChunkList_ne_nil f.start f.stop bs hbs h1
  have hglue := Tiles.glue (bs := bs) (slice (resOf f.name)) 1
    (fun a b c ha hab hbc => slice_append _ a b c ha hab hbc) h0 ht hne
  have hbnd : ∀ b ∈ fwdChunkList f.start f.stop bs,
      1 ≤ b.1 ∧ b.1 ≤ b.2 ∧ b.2 ≤ ((resOf f.name).length : Int) ∧ b.2 - b.1 + 1 ≤ bs := by
    intro b hb
    have := ht.within b hb
    have := ht.size_le b hb
    omega
  rw [streamRow_frag file idx bs w lg f info hinfo]
  by_cases hs : f.strand = -1
  · simp only [hs, if_true, rowBody]
    rw [revChunkList_eq_reverse f.start f.stop bs hbs h1]
    obtain ⟨lg', hf', hi', he'⟩ := frag_fold hw hrec (-1) (fwdChunkList f.start f.stop bs).reverse lg hi
      (fun b hb => hbnd b (List.mem_reverse.mp hb))
    refine ⟨lg', hf', hi', ?_⟩
    have : (List.map (chunkOf (resOf f.name) (-1)) (fwdChunkList f.start f.stop bs).reverse).flatten
        = reverseComplement (slice (resOf f.name) f.start f.stop) := by
      rw [← hglue]
      exact flatten_rc_reverse (fun b => slice (resOf f.name) b.1 b.2) _
    rw [← this]
    exact he'
  · simp only [hs, if_false, rowBody]
    obtain ⟨lg', hf', hi', he'⟩ := frag_fold hw hrec f.strand (fwdChunkList f.start f.stop bs) lg hi hbnd
    refine ⟨lg', hf', hi', ?_⟩
    have : (List.map (chunkOf (resOf f.name) f.strand) (fwdChunkList f.start f.stop bs)).flatten
        = slice (resOf f.name) f.start f.stop := by
      rw [← hglue]
      congr 1
      apply List.map_congr_left
      intro b _
      simp [chunkOf, hs]
    rw [← this]
    exact he'

/-! ### scaffolds and assemblies -/

theorem rows_fold {bs w : Int} (hbs : 1 ≤ bs) (hw : 1 ≤ w) (file : Bytes) (idx : List (Str × FastaInfo))
    (resOf : Str → Bytes) : ∀ (rows : List Row) (lg : StreamLog), LogInv bs w lg →
      (∀ r ∈ rows, RowOK file idx resOf r) →
      ∃ lg', rows.foldlM (streamRow file idx bs w) lg = .ok lg' ∧ LogInv bs w lg' ∧ Ext w lg lg' (rowsBody resOf rows)
  | [], lg, hi, _ => ⟨lg, rfl, hi, Ext.refl w lg⟩
  | r :: rest, lg, hi, hr => by
    have hrow : ∃ lg', streamRow file idx bs w lg r = .ok lg' ∧ LogInv bs w lg' ∧ Ext w lg lg' (rowBody resOf r) := by
      cases r with
      | gap g => exact row_gap hbs hw file idx resOf lg hi g
      | frag f => exact row_frag hbs hw file idx resOf lg hi f (hr (.frag f) (by simp))
    obtain ⟨lg1, h1, hi1, he1⟩ := hrow
    obtain ⟨lg2, h2, hi2, he2⟩ := rows_fold hbs hw file idx resOf rest lg1 hi1 (fun r' hr' => hr r' (by simp [hr']))
    refine ⟨lg2, ?_, hi2, ?_⟩
    · simp only [List.foldlM_cons, h1, bind, Except.bind]
      exact h2
    · simp only [rowsBody, List.map_cons, List.flatten_cons]
      exact Ext.trans he1 he2

/-- the FASTA record of a scaffold: header line and wrapped body -/
def recordBytes (w : Int) (name : Str) (body : Bytes) : Bytes :=
  [62] ++ strToBytes name ++ [10] ++ wrapBody w body

theorem scaffold_spec {bs w : Int} (hbs : 1 ≤ bs) (hw : 1 ≤ w) (file : Bytes) (idx : List (Str × FastaInfo))
    (resOf : Str → Bytes) (sc : Scaffold) (hr : ∀ r ∈ sc.rows, RowOK file idx resOf r) :
    ∃ lg, streamScaffold file idx bs w sc = .ok lg ∧
      lg.out = recordBytes w sc.name (rowsBody resOf sc.rows) ∧
      (∀ c ∈ lg.chunkSizes, (c : Int) ≤ bs) ∧ (∀ r ∈ lg.reads, 0 ≤ r ∧ r ≤ bs) := by
  have hi0 : LogInv bs w { out := [62] ++ strToBytes sc.name ++ [10], want := w } :=
    ⟨hw, Int.le_refl _, by simp, by simp⟩
  obtain ⟨lg, h1, hi, he⟩ := rows_fold hbs hw file idx resOf sc.rows _ hi0 hr
  simp only [streamScaffold, h1, bind, Except.bind, pure, Except.pure]
  obtain ⟨he1, he2⟩ := he
  simp only at he1 he2
  by_cases hwant : lg.want = w
  · refine ⟨lg, by simp [hwant], ?_, hi.chunks, hi.reads⟩
    rw [he1]
    unfold recordBytes wrapBody
    rw [← he2]
    simp [hwant]
  · refine ⟨{ lg with out := lg.out ++ [10] }, by simp [hwant], ?_, hi.chunks, hi.reads⟩
    show lg.out ++ [10] = _
    rw [he1]
    unfold recordBytes wrapBody
    rw [← he2]
    simp [hwant]

theorem assembly_spec {bs w : Int} (hbs : 1 ≤ bs) (hw : 1 ≤ w) (file : Bytes) (idx : List (Str × FastaInfo))
    (resOf : Str → Bytes) : ∀ (scs : List Scaffold) (acc : StreamLog),
      (∀ sc ∈ scs, ∀ r ∈ sc.rows, RowOK file idx resOf r) →
      (∀ c ∈ acc.chunkSizes, (c : Int) ≤ bs) → (∀ r ∈ acc.reads, 0 ≤ r ∧ r ≤ bs) →
      ∃ lg : StreamLog, scs.foldlM (fun (acc : StreamLog) sc => do
          let lg ← streamScaffold file idx bs w sc
          pure { out := acc.out ++ lg.out, want := w, chunkSizes := acc.chunkSizes ++ lg.chunkSizes,
                 reads := acc.reads ++ lg.reads }) acc = .ok lg ∧
        lg.out = acc.out ++ (scs.map (fun sc => recordBytes w sc.name (rowsBody resOf sc.rows))).flatten ∧
        (∀ c : Nat, c ∈ lg.chunkSizes → (c : Int) ≤ bs) ∧ (∀ r ∈ lg.reads, 0 ≤ r ∧ r ≤ bs)
  | [], acc, _, hc, hr => ⟨acc, rfl, by simp, hc, hr⟩
  | sc :: rest, acc, hok, hc, hr => by
    obtain ⟨lg1, h1, ho1, hc1, hr1⟩ := scaffold_spec hbs hw file idx resOf sc (hok sc (by simp))
    obtain ⟨lg2, h2, ho2, hc2, hr2⟩ := assembly_spec hbs hw file idx resOf rest
      { out := acc.out ++ lg1.out, want := w, chunkSizes := acc.chunkSizes ++ lg1.chunkSizes,
        reads := acc.reads ++ lg1.reads }
      (fun s hs => hok s (by simp [hs]))
      (fun c hc' => by rcases List.mem_append.mp hc' with h | h; exact hc c h; exact hc1 c h)
      (fun r hr' => by rcases List.mem_append.mp hr' with h | h; exact hr r h; exact hr1 r h)
    refine ⟨lg2, ?_, ?_, hc2, hr2⟩
    · simp only [List.foldlM_cons, h1, bind, Except.bind, pure, Except.pure]
      exact h2
    · rw [ho2]
      simp only [ho1, List.map_cons, List.flatten_cons, List.append_assoc]

end AgpTpf.StreamProofs
