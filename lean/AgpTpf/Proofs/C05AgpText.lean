/- C05 (f): AGP at text level; writers ignore object ids -/
import AgpTpf.Proofs.C05File
namespace AgpTpf.C05
open AgpTpf AgpTpf.C06

theorem agpRowCols_no_nl (name : Str) (p i : Int) (row : Row) (cols : List Str) (hn : '\n' ∉ name)
    (hr : RowNoNl row) (hc : agpRowCols name p i row = .ok cols) : ∀ c ∈ cols, '\n' ∉ c := by
  cases row with
  | gap g =>
    simp only [agpRowCols] at hc; cases hc
    intro c hc
    simp only [List.cons_append, List.nil_append, List.mem_cons, List.not_mem_nil, or_false] at hc
    rcases hc with rfl | rfl | rfl | rfl | rfl | rfl | rfl | rfl | rfl
    · exact hn
    · exact intToStr_no_nl _
    · exact intToStr_no_nl _
    · exact intToStr_no_nl _
    · decide
    · exact intToStr_no_nl _
    · exact hr
    · decide
    · decide
  | frag f =>
    simp only [agpRowCols] at hc
    cases hss : strandStr Gen.agpStrandStr f.strand with
    | error e => rw [hss] at hc; cases hc
    | ok ss =>
      rw [hss] at hc; cases hc
      have hmem := pyGet_mem _ _ _ hss
      have hssn : '\n' ∉ ss := by
        simp only [Gen.agpStrandStr, List.mem_cons, List.not_mem_nil, or_false] at hmem
        rcases hmem with rfl | rfl | rfl <;> decide
      intro c hc
      simp only [List.cons_append, List.nil_append, List.mem_cons] at hc
      rcases hc with rfl | rfl | rfl | rfl | rfl | rfl | rfl | rfl | rfl | hc
      · exact hn
      · exact intToStr_no_nl _
      · exact intToStr_no_nl _
      · exact intToStr_no_nl _
      · decide
      · exact hr.1
      · exact intToStr_no_nl _
      · exact intToStr_no_nl _
      · exact hssn
      · exact hr.2 c hc

theorem mem_flatten_of_forall2 {α β} {P : α → β → Prop} {Q : β → Prop} {l : List α} {ys : List β}
    (h : Forall2 P l ys) (hq : ∀ x y, x ∈ l → P x y → Q y) : ∀ y ∈ ys, Q y := by
  induction l generalizing ys with
  | nil => cases ys with | nil => intro y hy; cases hy | cons _ _ => exact h.elim
  | cons x xs ih =>
    cases ys with
    | nil => exact h.elim
    | cons y t =>
      intro z hz
      simp only [List.mem_cons] at hz
      rcases hz with rfl | hz
      · exact hq x _ (by simp) h.1
      · exact ih h.2 (fun a b ha => hq a b (by simp [ha])) z hz

/-- (f, AGP, text level) writing the lines to a file and iterating over the file gives the lines back -/
theorem agp_roundtrip_text (a : Assembly) (h : WFAgp a) (hnl : NoNewlines a) :
    ∃ lines, formatAgp a = .ok lines ∧ pyLines lines.flatten = lines ∧
      parseAgp (pyLines lines.flatten) = .ok (canonAssembly a) := by
  obtain ⟨lines, h1, h2⟩ := agp_roundtrip_lines a h
  obtain ⟨hh, hch, hsc⟩ := h
  obtain ⟨bodies, hfmt, hall⟩ := formatAgp_cols a (fun s hs r hr => ((hsc s hs).2.2 r hr).strandOk)
  rw [h1] at hfmt; cases hfmt
  have hpl : pyLines (a.header.map (fun h => Gen.agpHeaderPrefix ++ h ++ ['\n']) ++
      (bodies.map (List.map lineOfCols)).flatten).flatten = _ := pyLines_flatten _ (by
    intro l hl
    rw [List.mem_append] at hl
    rcases hl with hl | hl
    · rw [List.mem_map] at hl
      obtain ⟨hd, hdm, rfl⟩ := hl
      exact headerLine_lineOk _ _ (by decide) (hh hd hdm)
    · rw [List.mem_flatten] at hl
      obtain ⟨body, hb, hlb⟩ := hl
      rw [List.mem_map] at hb
      obtain ⟨colss, hcm, rfl⟩ := hb
      rw [List.mem_map] at hlb
      obtain ⟨cols, hcols, rfl⟩ := hlb
      apply lineOfCols_lineOk
      have := mem_flatten_of_forall2 (Q := fun colss => ∀ cols ∈ colss, ∀ c ∈ cols, '\n' ∉ c) hall (by
        intro s colss hs hc
        have hrows := agpCols_rows _ _ _ _ _ hc
        exact mem_flatten_of_forall2 (Q := fun cols => ∀ c ∈ cols, '\n' ∉ c) hrows.flip (by
          intro row cols hrow ⟨p, i, hcols⟩
          exact agpRowCols_no_nl s.name p i row cols (hnl s hs).1 ((hnl s hs).2 row hrow) hcols))
      exact this colss hcm cols hcols)
  exact ⟨_, h1, hpl, by rw [hpl]; exact h2⟩

/-! ### the writers do not look at object ids or at scaffold attributes other than name and rows -/

theorem renumRows_length (k : Nat) (rows : List Row) : (renumRows k rows).length = rows.length := by
  induction rows generalizing k with
  | nil => rfl
  | cons r t ih => cases r <;> simp [renumRows, ih]

theorem formatAgpRows_renum (name : Str) (p i : Int) (k : Nat) (rows : List Row) :
    formatAgpRows name p i (renumRows k rows) = formatAgpRows name p i rows := by
  induction rows generalizing p i k with
  | nil => rfl
  | cons r t ih =>
    cases r with
    | gap g =>
      simp only [renumRows]
      unfold formatAgpRows
      rw [ih]
    | frag f =>
      simp only [renumRows]
      unfold formatAgpRows
      simp only [Row.length, Fragment.length]
      rw [ih]

theorem mapM_congr_forall2 {α β} (f g : α → R β) (l l' : List α)
    (h : Forall2 (fun x y => f x = g y) l l') : l.mapM f = l'.mapM g := by
  induction l generalizing l' with
  | nil => cases l' with | nil => rfl | cons _ _ => exact h.elim
  | cons x xs ih =>
    cases l' with
    | nil => exact h.elim
    | cons y t => rw [List.mapM_cons, List.mapM_cons, h.1, ih _ h.2]

theorem canonScaffolds_forall2 (P : Scaffold → Scaffold → Prop)
    (hP : ∀ s k, P { name := s.name, rows := renumRows k s.rows } s) (k : Nat) (scs : List Scaffold) :
    Forall2 P (canonScaffolds k scs) scs := by
  induction scs generalizing k with
  | nil => trivial
  | cons s t ih => exact ⟨hP s k, ih _⟩

/-- formatting what the reader rebuilt writes the same AGP (so: re-formatting parsed written AGP reproduces it
    byte for byte, `agp_format_parse_format`) -/
theorem formatAgp_canon (a : Assembly) : formatAgp (canonAssembly a) = formatAgp a := by
  unfold formatAgp canonAssembly
  simp only
  rw [mapM_congr_forall2 _ (fun s => formatAgpRows s.name 0 0 s.rows) _ a.scaffolds
    (canonScaffolds_forall2 _ (fun s k => formatAgpRows_renum s.name 0 0 k s.rows) 0 a.scaffolds)]

end AgpTpf.C05
