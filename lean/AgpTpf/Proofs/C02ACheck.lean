/-
  C02 (aligned maps), part 4: a Bool checker for `Aligned` (to show the hypotheses satisfiable on concrete maps).
-/
import AgpTpf.Proofs.C02AOut
namespace AgpTpf.C02
open AgpTpf

def pieceAlignedB (input : List Scaffold) (err : Int) (p : Fragment) : Bool :=
  (lookupPiece input p).isSome && decide ((pieceO input p).startOverhang ≤ err) &&
  decide ((pieceO input p).endOverhang ≤ err) && decide (p.tags = [])

def headIsFrag : List Row → Bool
  | .frag _ :: _ => true
  | _ => false

def scaffoldAlignedB (input : List Scaffold) (err : Int) (S : Scaffold) : Bool :=
  headIsFrag S.rows && S.fragments.all (pieceAlignedB input err) && decide (hapPrefixOfName (outName S) = none)

def alignedB (input ptx : List Scaffold) (err : Int) : Bool :=
  decide ((input.map (·.name)).Nodup) &&
  input.all (fun sc => sc.rows.all (fun r => decide (0 ≤ r.length))) &&
  ptx.all (scaffoldAlignedB input err) &&
  decide ((claimedKeys input ptx).Nodup) &&
  input.all (fun sc => sc.fragments.all (fun f =>
    (claimedKeys input ptx).contains f.keyTuple || (decide (f.tags = []) && decide (hapPrefixOfName f.name = none))))

theorem aligned_of_check (input ptx : List Scaffold) (err : Int) (h : alignedB input ptx err = true) :
    Aligned input ptx err := by
  unfold alignedB at h
  simp only [Bool.and_eq_true, decide_eq_true_eq, List.all_eq_true, Bool.or_eq_true] at h
  obtain ⟨⟨⟨⟨h1, h2⟩, h3⟩, h4⟩, h5⟩ := h
  refine ⟨h1, h2, ?_, h4, ?_⟩
  · intro S hS
    have := h3 S hS
    unfold scaffoldAlignedB at this
    simp only [Bool.and_eq_true, decide_eq_true_eq, List.all_eq_true] at this
    obtain ⟨⟨g1, g2⟩, g3⟩ := this
    refine ⟨?_, ?_, g3⟩
    · cases hr : S.rows with
      | nil => rw [hr] at g1; cases g1
      | cons a r =>
        cases a with
        | frag f => exact ⟨f, r, rfl⟩
        | gap g => rw [hr] at g1; cases g1
    · intro p hp
      have := g2 p hp
      unfold pieceAlignedB at this
      simp only [Bool.and_eq_true, decide_eq_true_eq] at this
      obtain ⟨⟨⟨k1, k2⟩, k3⟩, k4⟩ := this
      exact ⟨k1, k2, k3, k4⟩
  · intro sc hsc f hf hc
    rcases h5 sc hsc f hf with h | h
    · rw [hc] at h; cases h
    · exact h

end AgpTpf.C02
