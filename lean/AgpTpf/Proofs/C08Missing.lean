/-
  C08 helpers, part 3 (back half of stage N3): nothing to resolve, nothing to cut, and the input scaffolds that are
  absent from the Pretext map (shorter than a texel) come back whole through `add_missing`.
-/
import AgpTpf.Proofs.C08Find
import AgpTpf.Proofs.C01Missing
namespace AgpTpf.C08
open AgpTpf
open AgpTpf.C01 (missStep missingRows_eq missStep_gap missStep_found missStep_missing sepBefore)

/-! ### `missingRows` when every / no contig of the scaffold is registered -/

theorem frag_mem_fragmentsOf (rows : List Row) (f : Fragment) (hm : Row.frag f ∈ rows) : f ∈ fragmentsOf rows := by
  induction rows with
  | nil => cases hm
  | cons r rs ih =>
    rcases List.mem_cons.1 hm with e | hm'
    · subst e; simp [fragmentsOf]
    · cases r <;> simp [fragmentsOf, ih hm']

theorem foldlM_missStep_found (b : Build) (rows : List Row) (l : List (Nat × Row)) (acc)
    (h : ∀ p ∈ l, ∀ f, p.2 = .frag f → dHas b.found f.keyTuple = true) :
    l.foldlM (missStep b rows) acc = .ok acc := by
  induction l generalizing acc with
  | nil => rfl
  | cons p r ih =>
    obtain ⟨i, row⟩ := p
    have hstep : missStep b rows acc (i, row) = .ok acc := by
      cases row with
      | gap g => exact missStep_gap b rows acc i g
      | frag f => exact missStep_found b rows acc i f (h (i, .frag f) (by simp) f rfl)
    simp only [List.foldlM_cons, hstep, bind, Except.bind]
    exact ih acc (fun p hp => h p (by simp [hp]))

/-- a scaffold all of whose contigs are held by a stored result leaves nothing over -/
theorem missingRows_all_found (b : Build) (rows : List Row)
    (h : ∀ f ∈ fragmentsOf rows, dHas b.found f.keyTuple = true) :
    missingRows b rows = .ok ([], none) := by
  rw [missingRows_eq, foldlM_missStep_found]
  · rfl
  · intro p hp f hf
    apply h
    have : p.2 ∈ rows := (List.of_mem_zip hp).2
    rw [hf] at this
    exact frag_mem_fragmentsOf rows f this

/-- loop invariant of `missingRows` on a scaffold none of whose contigs is registered: the last contig written is row
    `l`, everything up to it has been written, and only gap rows have been seen since -/
def MissInv (rows : List Row) (k : Nat) (st : List Row × Option Nat × Option Nat) : Prop :=
  (k = 0 ∧ st = ([], none, none)) ∨
  (∃ l, l < k ∧ st.2.2 = some 0 ∧ st.2.1 = some l ∧ st.1 = rows.take (l + 1) ∧
    ∀ j, l < j → j < k → ∃ g, rows[j]? = some (.gap g))

theorem zip_range_take_succ (rows : List Row) (k : Nat) (hk : k < rows.length) :
    ((List.range rows.length).zip rows).take (k + 1) = ((List.range rows.length).zip rows).take k ++ [(k, rows[k])] := by
  have hl : k < ((List.range rows.length).zip rows).length := by simp [hk]
  rw [List.take_succ_eq_append_getElem hl]
  simp

theorem all_isGap_between (rows : List Row) (l k : Nat) (hk : k ≤ rows.length)
    (h : ∀ j, l < j → j < k → ∃ g, rows[j]? = some (.gap g)) :
    ((rows.drop (l + 1)).take (k - (l + 1))).all Row.isGap = true := by
  rw [List.all_eq_true]
  intro x hx
  obtain ⟨t, ht, rfl⟩ := List.mem_iff_getElem.1 hx
  simp only [List.length_take, List.length_drop] at ht
  simp only [List.getElem_take, List.getElem_drop]
  obtain ⟨g, hg⟩ := h (l + 1 + t) (by omega) (by omega)
  have hlt : l + 1 + t < rows.length := by omega
  rw [List.getElem?_eq_getElem hlt] at hg
  have : rows[l + 1 + t] = .gap g := by simpa using hg
  rw [this]; rfl

theorem take_between (rows : List Row) (l k : Nat) (hlk : l + 1 ≤ k) :
    rows.take (l + 1) ++ (rows.drop (l + 1)).take (k - (l + 1)) = rows.take k := by
  have e : k = (l + 1) + (k - (l + 1)) := by omega
  conv => rhs; rw [e, List.take_add]

theorem missInv_step (b : Build) (rows : List Row) (k : Nat) (hk : k < rows.length)
    (hhead : ∃ f, rows[0]? = some (.frag f))
    (hnone : ∀ f ∈ fragmentsOf rows, dHas b.found f.keyTuple = false)
    (st) (hinv : MissInv rows k st) :
    ∃ st', missStep b rows st (k, rows[k]) = .ok st' ∧ MissInv rows (k + 1) st' := by
  have hgetk : rows[k]? = some rows[k] := List.getElem?_eq_getElem hk
  have htake : rows.take (k + 1) = rows.take k ++ [rows[k]] := List.take_succ_eq_append_getElem hk
  have hfragmem : ∀ f, rows[k] = .frag f → f ∈ fragmentsOf rows := by
    intro f hf
    exact frag_mem_fragmentsOf rows f (hf ▸ List.getElem_mem hk)
  obtain ⟨out, la, fi⟩ := st
  cases hrow : rows[k] with
  | gap g =>
    refine ⟨(out, la, fi), missStep_gap b rows _ k g, ?_⟩
    rcases hinv with ⟨rfl, -⟩ | ⟨l, hl, hfi, hla, ho, hgaps⟩
    · obtain ⟨f, hf⟩ := hhead
      rw [hgetk, hrow] at hf; cases hf
    · right
      refine ⟨l, by omega, hfi, hla, ho, ?_⟩
      intro j h1 h2
      by_cases hj : j = k
      · subst hj; exact ⟨g, by rw [hgetk, hrow]⟩
      · exact hgaps j h1 (by omega)
  | frag f =>
    have hmiss := missStep_missing b rows out la fi k f (hnone f (hfragmem f hrow))
    rcases hinv with ⟨rfl, hst⟩ | ⟨l, hl, hfi, hla, ho, hgaps⟩
    · simp only [Prod.mk.injEq] at hst
      obtain ⟨rfl, rfl, rfl⟩ := hst
      refine ⟨_, by rw [hmiss]; rfl, ?_⟩
      right
      refine ⟨0, by omega, rfl, rfl, ?_, fun j h1 h2 => by omega⟩
      simp [htake, hrow]
    · simp only at hfi hla ho
      subst hfi hla ho
      by_cases hlk : l = k - 1
      · have hsep : sepBefore b rows (some l) k = .ok [] := by simp [sepBefore, hlk]
        refine ⟨_, by rw [hmiss, hsep]; rfl, ?_⟩
        right
        refine ⟨k, by omega, rfl, rfl, ?_, fun j h1 h2 => by omega⟩
        have e : l + 1 = k := by omega
        simp [htake, hrow, e]
      · have hall := all_isGap_between rows l k (by omega) hgaps
        have hsep : sepBefore b rows (some l) k = .ok ((rows.drop (l + 1)).take (k - (l + 1))) := by
          simp only [sepBefore, hlk, if_false, hall, if_true]
        refine ⟨_, by rw [hmiss, hsep]; rfl, ?_⟩
        right
        refine ⟨k, by omega, rfl, rfl, ?_, fun j h1 h2 => by omega⟩
        show rows.take (l + 1) ++ (rows.drop (l + 1)).take (k - (l + 1)) ++ [Row.frag f] = rows.take (k + 1)
        rw [take_between rows l k (by omega), htake, hrow]

theorem missInv_fold (b : Build) (rows : List Row)
    (hhead : ∃ f, rows[0]? = some (.frag f))
    (hnone : ∀ f ∈ fragmentsOf rows, dHas b.found f.keyTuple = false) (k : Nat) (hk : k ≤ rows.length) :
    ∃ st, (((List.range rows.length).zip rows).take k).foldlM (missStep b rows) ([], none, none) = .ok st ∧
      MissInv rows k st := by
  induction k with
  | zero => exact ⟨_, rfl, Or.inl ⟨rfl, rfl⟩⟩
  | succ k ih =>
    obtain ⟨st, hst, hinv⟩ := ih (by omega)
    obtain ⟨st', hs', hinv'⟩ := missInv_step b rows k (by omega) hhead hnone st hinv
    refine ⟨st', ?_, hinv'⟩
    rw [zip_range_take_succ rows k (by omega), List.foldlM_append, hst]
    simp only [bind, Except.bind, List.foldlM_cons, List.foldlM_nil, hs']
    rfl

/-- a scaffold that begins and ends with a contig and none of whose contigs is registered is left over WHOLE — with every
    gap row, also consecutive ones (since fix 43566b8) — its first left-over contig being row 0 -/
theorem missingRows_none_found (b : Build) (rows : List Row) (hne : rows ≠ [])
    (hhead : ∃ f, rows.head? = some (.frag f)) (hlast : ∃ f, rows.getLast? = some (.frag f))
    (hnone : ∀ f ∈ fragmentsOf rows, dHas b.found f.keyTuple = false) :
    missingRows b rows = .ok (rows, some 0) := by
  have hhead' : ∃ f, rows[0]? = some (.frag f) := by
    obtain ⟨f, hf⟩ := hhead; exact ⟨f, by rw [← List.head?_eq_getElem?]; exact hf⟩
  obtain ⟨st, hst, hinv⟩ := missInv_fold b rows hhead' hnone rows.length (Nat.le_refl _)
  have hlen : ((List.range rows.length).zip rows).length = rows.length := by simp
  rw [List.take_of_length_le (by omega)] at hst
  rw [missingRows_eq, hst]
  have hpos : 0 < rows.length := by cases rows <;> simp_all
  rcases hinv with ⟨h0, -⟩ | ⟨l, hl, hfi, hla, ho, hgaps⟩
  · omega
  · obtain ⟨out, la, fi⟩ := st
    simp only at hfi hla ho
    subst hfi hla ho
    have hl1 : l = rows.length - 1 := by
      by_cases h : l = rows.length - 1
      · exact h
      · obtain ⟨g, hg⟩ := hgaps (rows.length - 1) (by omega) (by omega)
        obtain ⟨f, hf⟩ := hlast
        rw [List.getLast?_eq_getElem?, hg] at hf
        cases hf
    have e : l + 1 = rows.length := by omega
    simp [bind, Except.bind, pure, Except.pure, e]

/-! ### `add_missing` -/

/-- loop body of `add_missing` (verbatim) -/
def amStep (b : Build) (sc : Scaffold) : R Build := do
  let (rows, first) ← missingRows b sc.rows
  if rows.isEmpty then pure b
  else do
    let tags := ({ name := sc.name, rows := rows } : Scaffold).fragmentTags
    let n ← makeScaffoldName b.namer sc.name rows tags
    let tag := if n.targetTags ∧ ¬ sc.fragmentTags.contains sTarget then some sContaminant else none
    let new : Scaffold := { name := sc.name, rows := rows, rank := 3, tag := tag, haplotype := n.currentHaplotype }
    let pred := match first with | some i => inputPredecessor sc.rows i | none => none
    pure { b with namer := n, extra := b.extra ++ [(new, pred)] }

theorem addMissing_eq (input : List Scaffold) (b : Build) : addMissing input b = input.foldlM amStep b := rfl

/-- hypotheses on an input scaffold that is absent from the Pretext map -/
structure AbsentOk (sc : Scaffold) : Prop where
  ne : sc.rows ≠ []
  headFrag : ∃ f, sc.rows.head? = some (.frag f)
  lastFrag : ∃ f, sc.rows.getLast? = some (.frag f)
  untagged : sc.fragmentTags = []
  noHap : ∀ f, sc.rows.head? = some (.frag f) → hapPrefixOfName f.name = none

/-- the left-over scaffold `add_missing` makes of an absent input scaffold -/
def absentOut (sc : Scaffold) : Scaffold := { name := sc.name, rows := sc.rows, rank := 3 }

theorem amStep_present (b : Build) (sc : Scaffold) (h : ∀ f ∈ sc.fragments, dHas b.found f.keyTuple = true) :
    amStep b sc = .ok b := by
  unfold amStep
  rw [missingRows_all_found b sc.rows h]
  rfl

theorem amStep_absent (b : Build) (sc : Scaffold) (hplain : NamerPlain b.namer) (hab : AbsentOk sc)
    (h : ∀ f ∈ sc.fragments, dHas b.found f.keyTuple = false) :
    ∃ n, NamerPlain n ∧ n.autosomePrefix = b.namer.autosomePrefix ∧
      amStep b sc = .ok { b with namer := n, extra := b.extra ++ [(absentOut sc, none)] } := by
  obtain ⟨f0, hf0⟩ := hab.headFrag
  obtain ⟨rest, hrows⟩ : ∃ rest, sc.rows = .frag f0 :: rest := by
    cases hr : sc.rows with
    | nil => rw [hr] at hf0; cases hf0
    | cons a r => rw [hr] at hf0; simp at hf0; exact ⟨r, by rw [hf0]⟩
  refine ⟨namedPlain b.namer f0.name, namedPlain_plain hplain _, rfl, ?_⟩
  unfold amStep
  rw [missingRows_none_found b sc.rows hab.ne hab.headFrag hab.lastFrag h]
  have hemp : sc.rows.isEmpty = false := by rw [hrows]; rfl
  have htags : ({ name := sc.name, rows := sc.rows } : Scaffold).fragmentTags = [] := hab.untagged
  have hname : makeScaffoldName b.namer sc.name sc.rows [] = .ok (namedPlain b.namer f0.name) :=
    makeScaffoldName_plain b.namer _ f0.name _ hplain.primary (by rw [hrows]; exact firstRowName_cons_frag _ _)
      (hab.noHap f0 hf0)
  have hpred : inputPredecessor sc.rows 0 = none := by
    unfold inputPredecessor; simp [inputPredecessor.go]
  simp only [bind, Except.bind, hemp, Bool.false_eq_true, if_false, htags, hname, pure, Except.pure, hpred]
  simp [namedPlain, hplain.target, absentOut]

/-- `add_missing` on a build in which every input scaffold is either wholly registered (`present`) or not at all:
    exactly the absent scaffolds are appended, whole, in input order, with no recorded predecessor -/
theorem addMissing_unedited (present : Scaffold → Bool) (l : List Scaffold) (b : Build) (hplain : NamerPlain b.namer)
    (hp : ∀ sc ∈ l, present sc = true → ∀ f ∈ sc.fragments, dHas b.found f.keyTuple = true)
    (ha : ∀ sc ∈ l, present sc = false → AbsentOk sc ∧ ∀ f ∈ sc.fragments, dHas b.found f.keyTuple = false) :
    ∃ b', l.foldlM amStep b = .ok b' ∧
      b'.extra = b.extra ++ (l.filter (fun sc => !present sc)).map (fun sc => (absentOut sc, none)) ∧
      b'.store = b.store ∧ b'.found = b.found ∧ b'.multi = b.multi ∧ b'.cuts = b.cuts ∧ b'.joinGap = b.joinGap ∧
      b'.err = b.err ∧ NamerPlain b'.namer ∧ b'.namer.autosomePrefix = b.namer.autosomePrefix := by
  induction l generalizing b with
  | nil => exact ⟨b, rfl, by simp, rfl, rfl, rfl, rfl, rfl, rfl, hplain, rfl⟩
  | cons sc r ih =>
    cases hpr : present sc with
    | true =>
      have hstep := amStep_present b sc (hp sc (by simp) hpr)
      obtain ⟨b', e, h1, h2⟩ := ih b hplain (fun s hs => hp s (by simp [hs])) (fun s hs => ha s (by simp [hs]))
      refine ⟨b', ?_, ?_, h2⟩
      · simp only [List.foldlM_cons, hstep, bind, Except.bind]; exact e
      · rw [h1]; simp [hpr]
    | false =>
      obtain ⟨hab, hnone⟩ := ha sc (by simp) hpr
      obtain ⟨n, hn, hpre, hstep⟩ := amStep_absent b sc hplain hab hnone
      obtain ⟨b', e, h1, h2, h3, h4, h5, h6, h7, h8, h9⟩ :=
        ih { b with namer := n, extra := b.extra ++ [(absentOut sc, none)] } hn
          (fun s hs => hp s (by simp [hs])) (fun s hs => ha s (by simp [hs]))
      refine ⟨b', ?_, ?_, h2, h3, h4, h5, h6, h7, h8, by rw [h9]; exact hpre⟩
      · simp only [List.foldlM_cons, hstep, bind, Except.bind]; exact e
      · rw [h1]; simp [hpr]

end AgpTpf.C08
