/-
  C08 helpers, part 6: Bool checkers for the hypotheses (to show them satisfiable on concrete values by `decide`),
  and the arithmetic of Pretext's rounding of a scaffold end to a texel boundary.
-/
import AgpTpf.Proofs.C08Out
namespace AgpTpf.C08
open AgpTpf

def isFragRow : Option Row → Bool
  | some (.frag _) => true
  | _ => false

def wfRowsB (rows : List Row) : Bool :=
  !rows.isEmpty && isFragRow rows.head? && isFragRow rows.getLast? &&
  rows.all (fun r => decide (0 ≤ r.length)) &&
  rows.all (fun r => match r with | .frag f => decide (1 ≤ f.length) | .gap _ => true)

theorem isFragRow_iff (r : Option Row) : isFragRow r = true ↔ ∃ f, r = some (.frag f) := by
  cases r with
  | none => simp [isFragRow]
  | some x => cases x <;> simp [isFragRow]

theorem wfRows_of_check (rows : List Row) (h : wfRowsB rows = true) : WfRows rows := by
  unfold wfRowsB at h
  simp only [Bool.and_eq_true, Bool.not_eq_true', List.all_eq_true, decide_eq_true_eq] at h
  obtain ⟨⟨⟨⟨h1, h2⟩, h3⟩, h4⟩, h5⟩ := h
  refine ⟨?_, (isFragRow_iff _).1 h2, (isFragRow_iff _).1 h3, h4, ?_⟩
  · intro e; subst e; simp at h1
  · intro f hf
    have := h5 _ hf
    simpa using this

def absentOkB (sc : Scaffold) : Bool :=
  !sc.rows.isEmpty && isFragRow sc.rows.head? && isFragRow sc.rows.getLast? &&
  decide (sc.fragmentTags = []) &&
  (match sc.rows.head? with | some (.frag f) => decide (hapPrefixOfName f.name = none) | _ => true)

theorem absentOk_of_check (sc : Scaffold) (h : absentOkB sc = true) : AbsentOk sc := by
  unfold absentOkB at h
  simp only [Bool.and_eq_true, Bool.not_eq_true', decide_eq_true_eq] at h
  obtain ⟨⟨⟨⟨h1, h2⟩, h3⟩, h5⟩, h6⟩ := h
  refine ⟨?_, (isFragRow_iff _).1 h2, (isFragRow_iff _).1 h3, h5, ?_⟩
  · intro e; rw [e] at h1; simp at h1
  · intro f hf
    rw [hf] at h6
    simpa using h6

def pieceOkB (input : List Scaffold) (err : Int) (p : Piece) : Bool :=
  decide (p.sc ∈ input) && wfRowsB p.sc.rows && decide (lastFragmentStart p.sc.rows ≤ p.stop) &&
  decide (p.sc.length - p.stop ≤ err) && decide (hapPrefixOfName p.sc.name = none)

theorem pieceOk_of_check (input : List Scaffold) (err : Int) (p : Piece) (h : pieceOkB input err p = true) :
    PieceOk input err p := by
  unfold pieceOkB at h
  simp only [Bool.and_eq_true, decide_eq_true_eq] at h
  obtain ⟨⟨⟨⟨h1, h2⟩, h3⟩, h4⟩, h5⟩ := h
  exact ⟨h1, wfRows_of_check _ h2, h3, h4, h5⟩

def uneditedB (input : List Scaffold) (pieces : List Piece) (err : Int) : Bool :=
  decide ((input.map (·.name)).Nodup) &&
  decide (((input.flatMap Scaffold.fragments).map Fragment.keyTuple).Nodup) &&
  decide (0 ≤ err) && pieces.all (pieceOkB input err) &&
  decide ((pieces.map (·.sc.name)).Nodup) &&
  input.all (fun sc => isPresent pieces sc || absentOkB sc)

theorem unedited_of_check (input : List Scaffold) (pieces : List Piece) (err : Int) (h : uneditedB input pieces err = true) :
    Unedited input pieces err := by
  unfold uneditedB at h
  simp only [Bool.and_eq_true, decide_eq_true_eq, List.all_eq_true, Bool.or_eq_true] at h
  obtain ⟨⟨⟨⟨⟨h1, h2⟩, h3⟩, h4⟩, h5⟩, h6⟩ := h
  refine ⟨h1, h2, h3, fun p hp => pieceOk_of_check _ _ _ (h4 p hp), h5, ?_⟩
  intro sc hsc hpr
  rcases h6 sc hsc with h | h
  · rw [hpr] at h; cases h
  · exact absentOk_of_check sc h

/-! ### Pretext's rounding of the scaffold end -/

theorem lastFragmentStart_eq (rows : List Row) (r : Row) (h : rows.getLast? = some r) :
    lastFragmentStart rows = rowsLength rows - r.length + 1 := by
  unfold lastFragmentStart
  obtain ⟨ys, rfl⟩ := List.getLast?_eq_some_iff.1 h
  rw [List.dropLast_concat, C12.rowsLength_append]
  simp [rowsLength, sumInts]
  omega

/-- integer model of the rounding: a scaffold of `L` bases covers `k = ⌊L/t⌋` or `⌈L/t⌉` texels of `t` bases and
    Pretext reports the end `E = t·k`.  If the last contig is at least one texel long, `E` reaches into it, and `E` is
    within one texel of `L` on either side — so with the error length `err = t + 1` (`1 + ⌊bp/texel⌋` in the code) the
    end overhang `L − E` is below `err`. -/
theorem texel_rounding (L t lastLen k : Int) (ht : 1 ≤ t) (hlast : t ≤ lastLen)
    (hk : k = L / t ∨ k = (L + t - 1) / t) :
    L - lastLen + 1 ≤ t * k ∧ L - t * k < t ∧ t * k - L < t := by
  have ht0 : t ≠ 0 := by omega
  have htp : 0 < t := by omega
  rcases hk with rfl | rfl
  · have h1 := Int.ediv_mul_le L ht0
    have h2 := Int.lt_ediv_add_one_mul_self L htp
    rw [Int.mul_comm t (L / t)]
    rw [Int.add_mul] at h2
    generalize L / t * t = m at h1 h2 ⊢
    omega
  · have h1 := Int.ediv_mul_le (L + t - 1) ht0
    have h2 := Int.lt_ediv_add_one_mul_self (L + t - 1) htp
    rw [Int.mul_comm t ((L + t - 1) / t)]
    rw [Int.add_mul] at h2
    generalize (L + t - 1) / t * t = m at h1 h2 ⊢
    omega

/-- hence the hypotheses on a piece hold for ANY texel size `t ≥ 1` and either rounding of the texel count, provided the
    scaffold's last contig is at least one texel long -/
theorem pieceOk_of_texel (input : List Scaffold) (sc : Scaffold) (pname : Str) (oid : Nat) (t k : Int)
    (hm : sc ∈ input) (hw : WfRows sc.rows) (hnh : hapPrefixOfName sc.name = none) (ht : 1 ≤ t)
    (hk : k = sc.length / t ∨ k = (sc.length + t - 1) / t)
    (hlast : ∀ r, sc.rows.getLast? = some r → t ≤ r.length) :
    PieceOk input (t + 1) { pname := pname, sc := sc, stop := t * k, oid := oid } := by
  obtain ⟨f, hf⟩ := hw.lastFrag
  have h := texel_rounding sc.length t (Row.frag f).length k ht (hlast _ hf) hk
  refine ⟨hm, hw, ?_, ?_, hnh⟩
  · show lastFragmentStart sc.rows ≤ t * k
    rw [lastFragmentStart_eq _ _ hf]
    exact h.1
  · show sc.length - t * k ≤ t + 1
    omega

end AgpTpf.C08
