/-
  C09 routing, part 7: the haplotype of the pieces of a Pretext scaffold.
  * `make_scaffold_name` with exactly one haplotype-class tag `t` (and no Primary tag): the current haplotype is the
    spelling registered for `lowerStr t`, else `t` (with the Primary substitution);
  * every result created for Pretext scaffold `S` carries the haplotype `make_scaffold_name` computed for `S`, and keeps
    it to the end of `remap_to_input_assembly`.
-/
import AgpTpf.Model.Remap
import AgpTpf.Proofs.C09RLeft
import AgpTpf.Proofs.C09RMain
namespace AgpTpf.C09
open AgpTpf

/-! ### tags that are neither haplotype-class nor Primary leave the haplotype state alone -/

def HapSame (st st' : Namer × TagScan) : Prop :=
  st'.1.haplotypeLc = st.1.haplotypeLc ∧ st'.1.primaryHaplotype = st.1.primaryHaplotype ∧
  st'.2.haplotype = st.2.haplotype ∧ st'.2.primaryTag = st.2.primaryTag

theorem scanTag_hapSame (st st' : Namer × TagScan) (t : Str)
    (hh : hapClassTag t = false) (hp : t ≠ sPrimary) (h : scanTag st t = .ok st') : HapSame st st' := by
  obtain ⟨m, s⟩ := st
  rw [C17.scanTag_eq] at h
  have k1 := tagClass_hap t
  have k2 := tagClass_primary t
  cases hc : C17.tagClass t <;> simp only [hc] at h k1 k2
  · cases h; exact ⟨rfl, rfl, rfl, rfl⟩
  · cases h; exact ⟨rfl, rfl, rfl, rfl⟩
  · exact absurd (k2.1 trivial) hp
  · split at h
    · cases h
    · cases h; exact ⟨rfl, rfl, rfl, rfl⟩
  · have := k1.1 trivial
    rw [hh] at this; cases this
  · cases h; exact ⟨rfl, rfl, rfl, rfl⟩

theorem foldlM_scanTag_hapSame (tags : List Str) (hh : ∀ t ∈ tags, hapClassTag t = false) (hp : sPrimary ∉ tags) :
    ∀ (st st' : Namer × TagScan), tags.foldlM scanTag st = .ok st' → HapSame st st' := by
  induction tags with
  | nil => intro st st' h; cases h; exact ⟨rfl, rfl, rfl, rfl⟩
  | cons t r ih =>
    intro st st' h
    rw [List.foldlM_cons, C17.bind_eq_ok] at h
    obtain ⟨st1, h1, h2⟩ := h
    obtain ⟨a1, a2, a3, a4⟩ := scanTag_hapSame st st1 t (hh t (by simp)) (fun e => hp (by simp [e])) h1
    obtain ⟨b1, b2, b3, b4⟩ := ih (fun x hx => hh x (by simp [hx])) (fun hx => hp (by simp [hx])) st1 st' h2
    exact ⟨b1.trans a1, b2.trans a2, b3.trans a3, b4.trans a4⟩

theorem registeredOr_congr (n m : Namer) (g : Str) (h : m.haplotypeLc = n.haplotypeLc) :
    registeredOr m g = registeredOr n g := by
  unfold registeredOr; rw [h]

theorem namerOk_congr (n m : Namer) (h : m.haplotypeLc = n.haplotypeLc) (hn : C17.NamerOk n) : C17.NamerOk m := by
  unfold C17.NamerOk; rw [h]; exact hn

/-- **One haplotype tag.**  `make_scaffold_name` on a tag set `pre ++ t :: post` in which `t` is the only
    haplotype-class tag and there is no Primary tag: the current haplotype is `leftoverHaplotype n t` — the spelling
    registered for `lowerStr t`, else `t` itself, replaced by "Primary" when that is the primary haplotype. -/
theorem makeScaffoldName_haptag (n n' : Namer) (scName : Str) (rows : List Row) (pre post : List Str) (t : Str)
    (hn : C17.NamerOk n) (ht : t ≠ []) (htc : hapClassTag t = true)
    (hh : ∀ x ∈ pre ++ post, hapClassTag x = false) (hp : sPrimary ∉ pre ++ post)
    (h : makeScaffoldName n scName rows (pre ++ t :: post) = .ok n') :
    n'.currentHaplotype = leftoverHaplotype n t ∧
    dGet? n'.haplotypeLc (lowerStr t) = some (registeredOr n t) := by
  rw [C17.makeScaffoldName_eq, C17.bind_eq_ok] at h
  obtain ⟨⟨n1, s⟩, h1, h⟩ := h
  rw [C17.bind_eq_ok] at h
  obtain ⟨⟨n2, hap⟩, h2, h⟩ := h
  rw [C17.bind_eq_ok] at h
  obtain ⟨n3, h3, h⟩ := h
  rw [C17.bind_eq_ok] at h
  obtain ⟨p, _, h⟩ := h
  cases h
  -- the scan: `pre`, then `t`, then `post`
  rw [List.foldlM_append, C17.bind_eq_ok] at h1
  obtain ⟨st0, hpre, h1⟩ := h1
  rw [List.foldlM_cons, C17.bind_eq_ok] at h1
  obtain ⟨st1, ht1, hpost⟩ := h1
  obtain ⟨a1, a2, a3, a4⟩ := foldlM_scanTag_hapSame pre (fun x hx => hh x (by simp [hx])) (fun hx => hp (by simp [hx]))
    (n, {}) st0 hpre
  obtain ⟨m0, s0⟩ := st0
  simp only at a1 a2 a3 a4
  rw [C17.scanTag_eq, (tagClass_hap t).2 htc] at ht1
  simp only [a3, truthy, Bool.false_eq_true, if_false] at ht1
  cases ht1
  obtain ⟨b1, b2, b3, b4⟩ := foldlM_scanTag_hapSame post (fun x hx => hh x (by simp [hx])) (fun hx => hp (by simp [hx]))
    _ (n1, s) hpost
  simp only at b1 b2 b3 b4
  obtain ⟨v1, v2⟩ := getSet_value m0 t
  have hreg : registeredOr m0 t = registeredOr n t := registeredOr_congr n m0 t a1
  have hvne : registeredOr n t ≠ [] := by
    rw [← hreg, ← v1]; exact C17.getSet_snd_ne m0 t (namerOk_congr n m0 a1 hn) ht
  have hs : s.haplotype = some (registeredOr n t) := by rw [b3, v1, hreg]
  have hprim : n1.primaryHaplotype = n.primaryHaplotype := by rw [b2, C17.getSet_primary, a2]
  have htr : truthy s.haplotype = true := by rw [hs]; exact (C17.truthy_some _).2 hvne
  have e2 : n2 = n1 ∧ hap = s.haplotype := by
    unfold C17.hapStage at h2
    rw [if_pos htr] at h2
    simp only [pure, Except.pure, Except.ok.injEq, Prod.mk.injEq] at h2
    exact ⟨h2.1.symm, h2.2.symm⟩
  have e3 : n3 = n2 := by
    unfold C17.primStage at h3
    rw [b4, a4] at h3
    simp only [Bool.false_eq_true, false_and, if_false, pure, Except.pure, Except.ok.injEq] at h3
    exact h3.symm
  obtain ⟨e2a, e2b⟩ := e2
  rw [e3, e2a, e2b, hs]
  constructor
  · show (C17.finishName n1 (some (registeredOr n t)) p).currentHaplotype = _
    unfold C17.finishName leftoverHaplotype
    dsimp only
    rw [hprim]
    by_cases hpp : truthy n.primaryHaplotype = true
    · by_cases he : some (registeredOr n t) = n.primaryHaplotype
      · rw [if_pos hpp, if_pos he, if_pos ⟨hpp, he⟩]
      · rw [if_pos hpp, if_neg he, if_neg (fun hc => he hc.2)]
    · rw [if_neg hpp, if_neg (fun hc => hpp hc.1)]
  · show dGet? n1.haplotypeLc (lowerStr t) = _
    rw [b1, v2, hreg]

/-- no haplotype-class tag, no Primary tag, and the first row's name has no haplotype prefix: no haplotype -/
theorem makeScaffoldName_nohap (n n' : Namer) (scName nm : Str) (rows : List Row) (tags : List Str)
    (hh : ∀ t ∈ tags, hapClassTag t = false) (hp : sPrimary ∉ tags)
    (hfirst : firstRowName rows = .ok nm) (hg : hapPrefixOfName nm = none)
    (h : makeScaffoldName n scName rows tags = .ok n') :
    n'.currentHaplotype = none := by
  rw [C17.makeScaffoldName_eq, C17.bind_eq_ok] at h
  obtain ⟨⟨n1, s⟩, h1, h⟩ := h
  rw [C17.bind_eq_ok] at h
  obtain ⟨⟨n2, hap⟩, h2, h⟩ := h
  rw [C17.bind_eq_ok] at h
  obtain ⟨n3, h3, h⟩ := h
  rw [C17.bind_eq_ok] at h
  obtain ⟨p, _, h⟩ := h
  cases h
  obtain ⟨_, _, q3, _⟩ := foldlM_scanTag_hapSame tags hh hp (n, {}) (n1, s) h1
  simp only at q3
  have e2 : hap = none := by
    unfold C17.hapStage at h2
    rw [q3] at h2
    simp only [truthy, Bool.false_eq_true, if_false, hfirst, bind, Except.bind, hg, pure, Except.pure,
      Except.ok.injEq, Prod.mk.injEq] at h2
    exact h2.2.symm
  subst e2
  show (C17.finishName n3 none p).currentHaplotype = none
  unfold C17.finishName
  dsimp only
  by_cases hpp : truthy n3.primaryHaplotype = true
  · rw [if_pos hpp]
    by_cases he : none = n3.primaryHaplotype
    · rw [← he] at hpp; cases hpp
    · rw [if_neg he]
  · rw [if_neg hpp]

/-! ### the results created for one Pretext scaffold -/

theorem processBaits_news (input : List Scaffold) (scTags : List Str) (orig : Str) (ps : List Fragment) :
    ∀ (b b' : Build), ps.foldlM (processBait input scTags orig) b = .ok b' →
      SameMode b.namer b'.namer ∧
      ∃ news, b'.store = b.store ++ news ∧ ∀ r ∈ news, r.o.haplotype = b.namer.currentHaplotype := by
  induction ps with
  | nil =>
    intro b b' h
    simp only [List.foldlM_nil, pure, Except.pure, Except.ok.injEq] at h; subst h
    exact ⟨SameMode.refl _, [], by simp, fun r hr => by cases hr⟩
  | cons p t ih =>
    intro b b' h
    rw [List.foldlM_cons, C17.bind_eq_ok] at h
    obtain ⟨b1, h1, h2⟩ := h
    obtain ⟨s1, _, hcase⟩ := processBait_label input scTags orig b b1 p h1
    obtain ⟨s2, news, hst, hnews⟩ := ih b1 b' h2
    refine ⟨s1.trans s2, ?_⟩
    rcases hcase with ⟨_, e⟩ | ⟨_, r, e, _, r2, _⟩
    · refine ⟨news, by rw [hst, e], fun r hr => ?_⟩
      rw [hnews r hr, s1.2.1]
    · refine ⟨r :: news, by rw [hst, e]; simp, fun x hx => ?_⟩
      rcases List.mem_cons.mp hx with rfl | hx
      · exact r2
      · rw [hnews x hx, s1.2.1]

/-- one Pretext scaffold inside `find_assembly_overlaps` (the loop body, verbatim) -/
def findStep (input : List Scaffold) (b : Build) (ps : Scaffold) : R Build := do
  let tags := ps.fragmentTags
  let n ← makeScaffoldName b.namer ps.name ps.rows tags
  let b := { b with namer := n }
  let b ← ps.fragments.foldlM (processBait input tags ps.name) b
  pure { b with store := renameBySize b.store b.namer.unlocScaffolds }

theorem findAssemblyOverlaps_eq (input ptx : List Scaffold) (b : Build) :
    findAssemblyOverlaps input ptx b = ptx.foldlM (findStep input) b := rfl

theorem nil_not_mem_fragmentTags' (s : Scaffold) : [] ∉ s.fragmentTags := by
  unfold Scaffold.fragmentTags
  have inner : ∀ (l : List Str), (∀ t ∈ l, t ≠ []) → ∀ a : List Str, [] ∉ a → [] ∉ l.foldl sAdd a := by
    intro l
    induction l with
    | nil => intro _ a ha; exact ha
    | cons x r ih =>
      intro hl a ha
      rw [List.foldl_cons]
      apply ih (fun t ht => hl t (by simp [ht]))
      unfold sAdd
      split
      · exact ha
      · intro hm
        rcases List.mem_append.mp hm with hm | hm
        · exact ha hm
        · simp only [List.mem_cons, List.not_mem_nil, or_false] at hm
          exact hl x (by simp) hm.symm
  refine C07.foldl_inv (fun acc : List Str => [] ∉ acc) _ s.fragments ?_ [] (by simp)
  intro acc f hacc
  apply inner _ _ acc hacc
  intro t ht
  simp only [List.mem_filter, Bool.not_eq_true', List.isEmpty_eq_false_iff] at ht
  exact ht.2

/-- One Pretext scaffold `S`: `make_scaffold_name` runs once, giving namer `n`; the store grows by `news`, one result per
    fragment of `S` whose lookup finds something, each with haplotype `n.currentHaplotype` (older results keep their
    label fields: `rename_by_size` changes names only); the namer's haplotype state afterwards is still that of `n`. -/
theorem findStep_haplotype (input : List Scaffold) (b b' : Build) (S : Scaffold) (h : findStep input b S = .ok b') :
    ∃ n, makeScaffoldName b.namer S.name S.rows S.fragmentTags = .ok n ∧ SameMode n b'.namer ∧
      (C17.NamerOk b.namer → C17.NamerOk b'.namer) ∧
      ∃ news : List Res, b'.store.map fixedOf = (b.store ++ news).map fixedOf ∧
        ∀ r ∈ news, r.o.haplotype = n.currentHaplotype := by
  unfold findStep at h
  rw [C17.bind_eq_ok] at h
  obtain ⟨n, hn, h⟩ := h
  rw [C17.bind_eq_ok] at h
  obtain ⟨b2, hb2, h⟩ := h
  simp only [pure, Except.pure, Except.ok.injEq] at h
  subst h
  obtain ⟨sm, news, hst, hnews⟩ := processBaits_news input S.fragmentTags S.name S.fragments { b with namer := n } b2 hb2
  refine ⟨n, hn, sm, ?_, news, ?_, hnews⟩
  · intro hok
    have h1 : C17.NamerOk n := C17.makeScaffoldName_ok _ _ _ _ _ (nil_not_mem_fragmentTags' S) hok hn
    exact namerOk_congr n b2.namer sm.2.2.2.1 h1
  · show (renameBySize b2.store b2.namer.unlocScaffolds).map fixedOf = _
    rw [renameBySize_fixedOf, hst]

theorem findAssemblyOverlaps_split (input pre post : List Scaffold) (S : Scaffold) (b b' : Build)
    (h : findAssemblyOverlaps input (pre ++ S :: post) b = .ok b') :
    ∃ b1 b2, findAssemblyOverlaps input pre b = .ok b1 ∧ findStep input b1 S = .ok b2 ∧
      findAssemblyOverlaps input post b2 = .ok b' := by
  rw [findAssemblyOverlaps_eq, List.foldlM_append, C17.bind_eq_ok] at h
  obtain ⟨b1, h1, h2⟩ := h
  rw [List.foldlM_cons, C17.bind_eq_ok] at h2
  obtain ⟨b2, h2, h3⟩ := h2
  exact ⟨b1, b2, h1, h2, h3⟩

theorem findAssemblyOverlaps_namerOk (input ptx : List Scaffold) (b b' : Build) (hok : C17.NamerOk b.namer)
    (h : findAssemblyOverlaps input ptx b = .ok b') : C17.NamerOk b'.namer := by
  rw [findAssemblyOverlaps_eq] at h
  exact C01.foldlM_inv (fun x : Build => C17.NamerOk x.namer) _ ptx
    (fun x S x' hx hs => by
      obtain ⟨_, _, _, hk, _⟩ := findStep_haplotype input x x' S hs
      exact hk hx) b b' hok h


theorem namerOk_start (input : List Scaffold) (prefix_ : Str) (joinGap : Option Gap) (err : Int) :
    C17.NamerOk (startBuild input prefix_ joinGap err).namer := by
  intro kv h; cases h

/-- **The pieces of a Pretext scaffold keep the scaffold's haplotype to the end.**  For the Pretext scaffold `S` at any
    position of the map: with `bA` the build when `S` is reached and `bB` the build after it, the stored results with
    index `bA.store.length ≤ sid < bB.store.length` — those created for `S` — have, in the build finally returned, the
    haplotype `make_scaffold_name` computed for `S`. -/
theorem remapToInput_piece_haplotype (input pre post : List Scaffold) (S : Scaffold) (prefix_ : Str)
    (joinGap : Option Gap) (err : Int) (b : Build)
    (h : remapToInput input (pre ++ S :: post) prefix_ joinGap err = .ok b) :
    ∃ bA bB n, findAssemblyOverlaps input pre (startBuild input prefix_ joinGap err) = .ok bA ∧
      findStep input bA S = .ok bB ∧ C17.NamerOk bA.namer ∧
      makeScaffoldName bA.namer S.name S.rows S.fragmentTags = .ok n ∧
      bA.store.length ≤ bB.store.length ∧ bB.store.length ≤ b.store.length ∧
      ∀ (sid : Nat) (r : Res), bA.store.length ≤ sid → sid < bB.store.length → b.store[sid]? = some r →
        r.o.haplotype = n.currentHaplotype := by
  obtain ⟨b1, _, h1, _, hfin, _, _, _, _⟩ := remapToInput_summary input (pre ++ S :: post) prefix_ joinGap err b h
  obtain ⟨bA, bB, hA, hB, hP⟩ := findAssemblyOverlaps_split input pre post S _ b1 h1
  obtain ⟨n, hn, _, _, news, hst, hnews⟩ := findStep_haplotype input bA bB S hB
  have hokA := findAssemblyOverlaps_namerOk input pre _ bA (namerOk_start input prefix_ joinGap err) hA
  obtain ⟨tail, htail⟩ := findAssemblyOverlaps_fixed_prefix input post bB b1 hP
  have hlenB : bB.store.length = bA.store.length + news.length := by
    have := congrArg List.length hst
    simpa using this
  have hall : b.store.map fixedOf = bA.store.map fixedOf ++ (news.map fixedOf ++ tail) := by
    rw [hfin, ← htail, hst, List.map_append, List.append_assoc]
  have hlenb : b.store.length = bA.store.length + (news.length + tail.length) := by
    have := congrArg List.length hall
    simpa using this
  refine ⟨bA, bB, n, hA, hB, hokA, hn, by omega, by omega, ?_⟩
  intro sid r h1 h2 hr
  have hx : (b.store.map fixedOf)[sid]? = some (fixedOf r) := by rw [List.getElem?_map, hr]; rfl
  rw [hall, List.getElem?_append_right (by simpa using h1),
    List.getElem?_append_left (by simp; omega), List.getElem?_map] at hx
  simp only [List.length_map] at hx
  cases hnw : news[sid - bA.store.length]? with
  | none => rw [hnw] at hx; cases hx
  | some r' =>
    rw [hnw] at hx
    simp only [Option.map_some, Option.some.injEq] at hx
    have hh : r'.o.haplotype = r.o.haplotype := congrArg (fun x => x.1.2.1) hx
    rw [← hh]
    exact hnews r' (List.mem_of_getElem? hnw)

end AgpTpf.C09
