/-
  W8-C02RET, part 4: assembly.
  * the label fields of a fused scaffold are those of a stored result or of a left-over (`fuse_labels`);
  * the Pretext scaffolds of a script satisfy `ScOK`;
  * `remap` returns for every well-formed script (unpainted, or no haplotype-shaped input scaffold name).
-/
import AgpTpf.Proofs.C09Fuse
import AgpTpf.Proofs.C02NMain
import AgpTpf.Proofs.C02RTail
import AgpTpf.Proofs.C02RStrand
import AgpTpf.Proofs.C02RLabel
namespace AgpTpf.C02R
open AgpTpf AgpTpf.Pretext
open AgpTpf.C01 (WFInput inputFrags)
open AgpTpf.C02 (InputNonNeg PtxScafOk)

/-! ### the labels of a fused scaffold -/

def SameLabel (s t : Scaffold) : Prop :=
  s.tag = t.tag ∧ s.haplotype = t.haplotype ∧ s.rank = t.rank ∧ s.originalName = t.originalName

theorem fuseFold_labels (all : List C09.Item) : ∀ (items : List C09.Item) (acc : List (C09.FKey × Scaffold)),
    (∀ it ∈ items, it ∈ all) → (∀ p ∈ acc, ∃ it ∈ all, SameLabel p.2 it.proto) →
    ∀ p ∈ items.foldl C09.fuseStep acc, ∃ it ∈ all, SameLabel p.2 it.proto := by
  intro items
  induction items with
  | nil => intro acc _ h; exact h
  | cons it r ih =>
    intro acc hsub hacc
    rw [List.foldl_cons]
    apply ih _ (fun x hx => hsub x (by simp [hx]))
    intro p hp
    cases hg : dGet? acc it.key with
    | none =>
      rw [C09.fuseStep_none acc it hg] at hp
      rcases List.mem_append.1 hp with hp | hp
      · exact hacc p hp
      · simp only [List.mem_cons, List.not_mem_nil, or_false] at hp
        subst hp
        exact ⟨it, hsub it (by simp), rfl, rfl, rfl, rfl⟩
    | some s =>
      rw [C09.fuseStep_some acc it s hg] at hp
      rcases C01.mem_dSet _ _ _ _ hp with hp | hp
      · exact hacc p hp
      · subst hp
        obtain ⟨it', h1, h2⟩ := hacc _ (C01.dGet?_mem _ _ _ hg)
        exact ⟨it', h1, h2⟩

/-- every fused scaffold has the `tag, haplotype, rank, original_name` of an added, non-empty stored result, or of a
    left-over scaffold -/
theorem fuse_labels (b : Build) : ∀ s ∈ fuseByName b,
    (∃ r ∈ b.store, r.added = true ∧ s.tag = r.o.tag ∧ s.haplotype = r.o.haplotype ∧ s.rank = r.o.rank ∧
      s.originalName = r.o.originalName) ∨
    (∃ e ∈ b.extra, SameLabel s e.1) := by
  intro s hs
  rw [C09.fuseByName_eq] at hs
  obtain ⟨p, hp, rfl⟩ := List.mem_map.1 hs
  unfold C09.fuseAcc at hp
  obtain ⟨it, hit, hl⟩ := fuseFold_labels (C09.fuseItems b) (C09.fuseItems b) [] (fun _ h => h)
    (fun p hp => by cases hp) p hp
  unfold C09.fuseItems at hit
  rcases List.mem_append.1 hit with hit | hit
  · left
    obtain ⟨r, hr, e⟩ := List.mem_filterMap.1 hit
    unfold C09.itemOfRes at e
    split at e
    · cases e
    · rename_i hc
      cases e
      refine ⟨r, hr, ?_, hl.1, hl.2.1, hl.2.2.1, hl.2.2.2⟩
      cases ha : r.added with
      | true => rfl
      | false => exact absurd (Or.inl (by simp [ha])) hc
  · right
    obtain ⟨e, he, e'⟩ := List.mem_filterMap.1 hit
    unfold C09.itemOfExtra at e'
    split at e'
    · cases e'
    · cases e'
      exact ⟨e, he, hl⟩

/-! ### `assemblies_with_scaffolds_fused` returns on a build with plain labels -/

/-- store results untagged, with an original name, and (all of rank 3, or all with one and the same haplotype `h0`);
    left-overs of rank 3 -/
theorem assembliesFused_ok_of_labels (input : List Scaffold) (b : Build) (unp : Bool) (hp : Option (Option Str))
    (hmode : unp = true ∨ ∃ h0, hp = some h0)
    (hstore : ∀ r ∈ b.store, LabOK unp hp r) (hextra : ∀ e ∈ b.extra, e.1.rank = 3)
    (hfs : ∀ s ∈ fuseByName b, StrOK s.rows) (hin : ∀ sc ∈ input, StrOK sc.rows) :
    ∃ outs stats, assembliesFused input b = .ok (outs, stats) := by
  rcases hmode with hu | ⟨h0, hn⟩
  · apply assembliesFused_ok_single input b sNone _ hfs hin
    intro s hs hr
    rcases fuse_labels b s hs with ⟨r, hrm, _, _, _, e3, _⟩ | ⟨e, he, _, _, e3, _⟩
    · obtain ⟨_, _, l3, _⟩ := hstore r hrm
      have h3 : r.o.rank = 3 := l3 hu
      rw [e3, h3] at hr; exact absurd hr (by decide)
    · rw [e3, hextra e he] at hr; exact absurd hr (by decide)
  · apply assembliesFused_ok_single input b (pyStrOpt (C09.routeKey none h0)) _ hfs hin
    intro s hs hr
    rcases fuse_labels b s hs with ⟨r, hrm, _, e1, e2, e3, e4⟩ | ⟨e, he, _, _, e3, _⟩
    · obtain ⟨l1, l2, _, l4⟩ := hstore r hrm
      have h4 : r.o.haplotype = h0 := l4 h0 hn
      have h1 : r.o.tag = none := l1
      have h2 : truthy r.o.originalName = true := l2
      rw [e1, e2, e4, h1, h4]
      exact ⟨rfl, h2⟩
    · rw [e3, hextra e he] at hr; exact absurd hr (by decide)

/-! ### scripts -/

theorem scaffoldName_ne_nil (n : Nat) : scaffoldName n ≠ [] := by
  unfold scaffoldName sScaffold_; simp

/-- the Pretext scaffolds of a well-formed script: `unp` = no group is painted, `hp = some h0` = every input scaffold
    name yields the haplotype `h0` (`none`: no name has the haplotype shape `<hap>_…_<digits>`) -/
theorem script_scOK {input : List Scaffold} {s : Script} (hw : C02.WfScript input s) (unp : Bool)
    (hp : Option (Option Str))
    (hu : unp = true → ∀ g ∈ s.groups, g.painted = false)
    (hn : ∀ h0, hp = some h0 → ∀ sc ∈ input, hapPrefixOfName sc.name = h0) :
    ∀ S ∈ ptxOf input s, ScOK unp hp S := by
  intro S hS
  have hok := C02.script_ptx_ok hw S hS
  obtain ⟨g, n, hg, hname, _, hfr⟩ := C02.mem_ptxOf hS
  have hgm : g ∈ s.groups := List.mem_of_getElem? hg
  have hstags : S.fragmentTags = [] ∨ S.fragmentTags = [sPainted] := by
    rcases hok.tags with h | ⟨hne, h⟩
    · exact Or.inl (C02.fragmentTags_nil_of_untagged' S h)
    · exact Or.inr (C02.fragmentTags_painted S hne h)
  refine ⟨by rw [hname]; exact scaffoldName_ne_nil _, hstags, ?_, ?_, ?_⟩
  · intro hunp
    apply C02.fragmentTags_nil_of_untagged' S
    intro p hp
    rw [hfr] at hp
    unfold groupFrags at hp
    obtain ⟨x, _, hx⟩ := List.mem_filterMap.1 hp
    obtain ⟨sc, c, ab, _, _, _, e⟩ := C02.pieceFrag_eq_some hx
    rw [e, hu hunp g hgm]; rfl
  · intro p hp
    rcases hok.tags with h | ⟨_, h⟩
    · exact Or.inl (h p hp)
    · exact Or.inr (h p hp)
  · obtain ⟨f, t, hrows⟩ := hok.head
    refine ⟨f.name, ?_, ?_⟩
    · unfold firstRowName; rw [hrows]; rfl
    · intro h0 hno
      have hf : f ∈ S.fragments := by
        unfold Scaffold.fragments; rw [hrows]; simp [fragmentsOf]
      obtain ⟨sc, hsc, e⟩ := hok.names f hf
      rw [← e]; exact hn h0 hno sc hsc

theorem leftover_rank (input ptx : List Scaffold) (prefix_ : Str) (joinGap : Option Gap) (err : Int) (b : Build)
    (h : remapToInput input ptx prefix_ joinGap err = .ok b) : ∀ e ∈ b.extra, e.1.rank = 3 := by
  obtain ⟨b1, b4, _, h4, _, _, _, he4, _⟩ := C09.remapToInput_summary input ptx prefix_ joinGap err b h
  intro e he
  rcases (C09.addMissing_leftovers input b4 b h4).2 e he with h0 | ⟨sc, _, hok⟩
  · rw [he4] at h0; cases h0
  · exact hok.2.2.1

/-- **`assemblies_with_scaffolds_fused` returns on the build of any map of plain scaffolds** -/
theorem assembliesFused_ok_of_remapToInput (input ptx : List Scaffold) (prefix_ : Str) (joinGap : Option Gap) (err : Int)
    (b : Build) (unp : Bool) (hp : Option (Option Str)) (hmode : unp = true ∨ ∃ h0, hp = some h0)
    (hwf : WFInput input) (hstr : ∀ f ∈ inputFrags input, f.strand = 1 ∨ f.strand = -1)
    (hsc : ∀ S ∈ ptx, ScOK unp hp S) (h : remapToInput input ptx prefix_ joinGap err = .ok b) :
    ∃ outs stats, assembliesFused input b = .ok (outs, stats) := by
  apply assembliesFused_ok_of_labels input b unp hp hmode
  · exact remapToInput_labOK unp hp input ptx prefix_ joinGap err b hsc h
  · exact leftover_rank input ptx prefix_ joinGap err b h
  · intro s hs
    exact strOK_of_fromInput input s.rows hstr (fused_fromInput input ptx prefix_ joinGap err b hwf h s hs)
  · exact input_strOK input hstr

theorem remap_eq_of (input ptx : List Scaffold) (prefix_ : Str) (joinGap : Option Gap) (err : Int) (b : Build)
    (res : List OutAsm × Stats) (h : remapToInput input ptx prefix_ joinGap err = .ok b)
    (h2 : assembliesFused input b = .ok res) : remap input ptx prefix_ joinGap err = .ok res := by
  unfold remap
  rw [h]
  exact h2

end AgpTpf.C02R
