/-
  C02 (script model), part 9: Bool checkers for the hypotheses on scripts (to show them satisfiable on concrete values by
  `decide`).
-/
import AgpTpf.Proofs.C02SAligned
import AgpTpf.Proofs.C02SNull
import AgpTpf.Proofs.C08Check
namespace AgpTpf.C02
open AgpTpf AgpTpf.Pretext
open AgpTpf.C12 (rowSpan meets)

/-- a Bool test on every contig row (index and fragment) -/
def fragRowsAll (rows : List Row) (P : Nat → Fragment → Bool) : Bool :=
  (List.range rows.length).all (fun k => match rows[k]? with
    | some (.frag f) => P k f
    | _ => true)

theorem fragRowsAll_spec {rows : List Row} {P : Nat → Fragment → Bool} (h : fragRowsAll rows P = true) :
    ∀ k f, rows[k]? = some (.frag f) → P k f = true := by
  intro k f hk
  unfold fragRowsAll at h
  rw [List.all_eq_true] at h
  have hlt : k < rows.length := by
    by_cases h' : k < rows.length
    · exact h'
    · rw [List.getElem?_eq_none (by omega)] at hk; cases hk
  have := h k (List.mem_range.2 hlt)
  rw [hk] at this
  exact this

/-- a Bool test on every (input scaffold, its script) pair -/
def pairsAll (input : List Scaffold) (scafs : List ScafScript) (P : Scaffold → ScafScript → Bool) : Bool :=
  (input.zip scafs).all (fun x => P x.1 x.2)

theorem pairsAll_spec {input : List Scaffold} {scafs : List ScafScript} {P : Scaffold → ScafScript → Bool}
    (h : pairsAll input scafs P = true) :
    ∀ (i : Nat) (sc : Scaffold) (c : ScafScript), input[i]? = some sc → scafs[i]? = some c → P sc c = true := by
  intro i sc c hi hc
  unfold pairsAll at h
  rw [List.all_eq_true] at h
  exact h (sc, c) (List.mem_iff_getElem?.2 ⟨i, List.getElem?_zip_eq_some.2 ⟨hi, hc⟩⟩)

def cleanAtB (rows : List Row) (c : Int) : Bool :=
  fragRowsAll rows (fun k _ => decide ((rowSpan rows k).2 ≤ c ∨ c < (rowSpan rows k).1))

theorem cleanAt_of_check {rows : List Row} {c : Int} (h : cleanAtB rows c = true) : CleanAt rows c := by
  intro k f hk
  have := fragRowsAll_spec h k f hk
  simpa using this

def scafCleanB (p q : Nat) (sc : Scaffold) (c : ScafScript) : Bool :=
  c.cuts.all (fun t => cleanAtB sc.rows (coord p q t)) &&
  fragRowsAll sc.rows (fun k _ => decide ((rowSpan sc.rows k).1 ≤ (coord p q c.T : Int) →
    (rowSpan sc.rows k).2 - (coord p q c.T : Int) ≤ (errLen p q : Int))) &&
  (c.spans p q).all (fun ab => (List.range sc.rows.length).any (fun k => meets sc.rows ab.1 ab.2 k))

theorem scafClean_of_check {p q : Nat} {sc : Scaffold} {c : ScafScript} (h : scafCleanB p q sc c = true) :
    ScafClean p q sc c := by
  unfold scafCleanB at h
  simp only [Bool.and_eq_true, List.all_eq_true] at h
  obtain ⟨⟨h1, h2⟩, h3⟩ := h
  refine ⟨fun t ht => cleanAt_of_check (h1 t ht), ?_, ?_⟩
  · intro k f hk
    have := fragRowsAll_spec h2 k f hk
    exact of_decide_eq_true this
  · intro ab hab
    have := h3 ab hab
    rw [List.any_eq_true] at this
    obtain ⟨k, -, hk⟩ := this
    exact ⟨k, hk⟩

def cleanScriptB (input : List Scaffold) (s : Script) : Bool :=
  pairsAll input s.scafs (fun sc c => !c.present || scafCleanB s.p s.q sc c)

theorem cleanScript_of_check {input : List Scaffold} {s : Script} (h : cleanScriptB input s = true) :
    CleanScript input s := by
  intro i sc c hi hc hp
  have := pairsAll_spec h i sc c hi hc
  rw [hp] at this
  exact scafClean_of_check (by simpa using this)

def headsOkB (input : List Scaffold) (s : Script) : Bool :=
  s.groups.all (fun g => match g.items.head? with
    | some x => (match input[x.sc]? with
      | some sc => decide (hapPrefixOfName sc.name = none)
      | none => true)
    | none => true)

theorem headsOk_of_check {input : List Scaffold} {s : Script} (h : headsOkB input s = true) : HeadsOk input s := by
  intro g hg x hx sc hsc
  unfold headsOkB at h
  rw [List.all_eq_true] at h
  have := h g hg
  rw [hx] at this
  simp only [hsc, decide_eq_true_eq] at this
  exact this

def tailOkB (input : List Scaffold) (s : Script) : Bool :=
  pairsAll input s.scafs (fun sc c => fragRowsAll sc.rows (fun k f =>
    !(!c.present || decide ((coord s.p s.q c.T : Int) < (rowSpan sc.rows k).1)) ||
      (decide (f.tags = []) && decide (hapPrefixOfName f.name = none))))

theorem tailOk_of_check {input : List Scaffold} {s : Script} (h : tailOkB input s = true) : TailOk input s := by
  intro i sc c hi hc k f hk hor
  have := fragRowsAll_spec (pairsAll_spec h i sc c hi hc) k f hk
  simp only [Bool.or_eq_true, Bool.not_eq_true', Bool.and_eq_true, decide_eq_true_eq, Bool.not_eq_false',
    Bool.or_eq_false_iff, decide_eq_false_iff_not] at this
  rcases this with ⟨h1, h2⟩ | h3
  · rcases hor with e | e
    · rw [e] at h1; cases h1
    · exact absurd e h2
  · exact h3

def inputOkB (input : List Scaffold) : Bool :=
  decide ((input.map (·.name)).Nodup) &&
  input.all (fun sc => sc.rows.all (fun r => decide (0 ≤ r.length))) &&
  decide (((input.flatMap Scaffold.fragments).map Fragment.keyTuple).Nodup) &&
  input.all (fun sc => sc.fragments.all (fun f => decide (1 ≤ f.length)))

theorem inputOk_of_check {input : List Scaffold} (h : inputOkB input = true) : InputOk input := by
  unfold inputOkB at h
  simp only [Bool.and_eq_true, decide_eq_true_eq, List.all_eq_true] at h
  obtain ⟨⟨⟨h1, h2⟩, h3⟩, h4⟩ := h
  exact ⟨⟨h1, h2, h3⟩, h4⟩

def nullInputOkB (input : List Scaffold) (p q : Nat) (Ts : List (Option Nat)) : Bool :=
  decide ((input.map (·.name)).Nodup) &&
  decide (((input.flatMap Scaffold.fragments).map Fragment.keyTuple).Nodup) &&
  (input.zip Ts).all (fun x => match x.2 with
    | some T => C08.wfRowsB x.1.rows && decide (hapPrefixOfName x.1.name = none) &&
        decide (C08.lastFragmentStart x.1.rows ≤ (coord p q T : Int))
    | none => C08.absentOkB x.1)

theorem nullInputOk_of_check {input : List Scaffold} {p q : Nat} {Ts : List (Option Nat)}
    (h : nullInputOkB input p q Ts = true) : NullInputOk input p q Ts := by
  unfold nullInputOkB at h
  simp only [Bool.and_eq_true, decide_eq_true_eq, List.all_eq_true] at h
  obtain ⟨⟨h1, h2⟩, h3⟩ := h
  refine ⟨h1, h2, ?_, ?_⟩
  · intro sc T hm
    have := h3 _ hm
    simp only [Bool.and_eq_true, decide_eq_true_eq] at this
    exact ⟨C08.wfRows_of_check _ this.1.1, this.1.2, this.2⟩
  · intro sc hm
    exact C08.absentOk_of_check _ (h3 _ hm)

end AgpTpf.C02
