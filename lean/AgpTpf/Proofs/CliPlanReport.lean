/- `chromosomes_report_csv` against `chromosome_name_csv` (C10 R1): the two loops run in lock step -/
import AgpTpf.Model.CliPlan
import AgpTpf.Proofs.C10Csv
namespace AgpTpf.C10
open AgpTpf

/-- the loop body of `chromosomes_report_csv` -/
def repStep (prefix_ hap : Str) (acc : List ReportRow × List (Option Str × Str)) (s : Scaffold) :
    List ReportRow × List (Option Str × Str) :=
  let (out, seen) := acc
  if s.rank = (1 : Int) ∨ s.rank = (2 : Int) then
    match (if truthy s.originalName then dGet? seen s.originalName else none) with
    | some cn => (out ++ [{ assembly := hap, seqName := s.name, chromosome := cn, localised := false,
                            pretextScaffold := s.originalName, length := s.length, lengthMinusGaps := s.fragmentsLength }], seen)
    | none =>
      let cn := replaceFirst prefix_ [] s.name
      (out ++ [{ assembly := hap, seqName := s.name, chromosome := cn, localised := true,
                 pretextScaffold := s.originalName, length := s.length, lengthMinusGaps := s.fragmentsLength }],
       dSet seen s.originalName cn)
  else acc

theorem chromosomesReportAsm_eq (prefix_ hap : Str) (scs : List Scaffold) :
    chromosomesReportAsm prefix_ hap scs = (scs.foldl (repStep prefix_ hap) ([], [])).1 := rfl

/-- a report row from the scaffold and its chromosome-list line `(name, chr_name, localised)` -/
def mkRow (hap : Str) (s : Scaffold) (t : Str × Str × Bool) : ReportRow :=
  { assembly := hap, seqName := t.1, chromosome := t.2.1, localised := t.2.2,
    pretextScaffold := s.originalName, length := s.length, lengthMinusGaps := s.fragmentsLength }

/-- the chromosome-list line inside a report row -/
def rowLine (r : ReportRow) : Str × Str × Bool := (r.seqName, r.chromosome, r.localised)

theorem rowLine_mkRow (hap : Str) (s : Scaffold) (t : Str × Str × Bool) : rowLine (mkRow hap s t) = t := rfl

/-- what one step of either loop appends, and the dict afterwards -/
def stepLines (prefix_ : Str) (seen : List (Option Str × Str)) (s : Scaffold) : List (Str × Str × Bool) :=
  (csvStep prefix_ ([], seen) s).1

theorem csvStep_split (prefix_ : Str) (out : List (Str × Str × Bool)) (seen : List (Option Str × Str)) (s : Scaffold) :
    csvStep prefix_ (out, seen) s = (out ++ stepLines prefix_ seen s, (csvStep prefix_ ([], seen) s).2) := by
  unfold stepLines csvStep
  by_cases hr : s.rank = (1 : Int) ∨ s.rank = (2 : Int)
  · simp only [if_pos hr]
    split <;> simp
  · simp only [if_neg hr]; simp

theorem repStep_split (prefix_ hap : Str) (out : List ReportRow) (seen : List (Option Str × Str)) (s : Scaffold) :
    repStep prefix_ hap (out, seen) s =
      (out ++ (stepLines prefix_ seen s).map (mkRow hap s), (csvStep prefix_ ([], seen) s).2) := by
  unfold stepLines csvStep repStep
  by_cases hr : s.rank = (1 : Int) ∨ s.rank = (2 : Int)
  · simp only [if_pos hr]
    generalize (if truthy s.originalName = true then dGet? seen s.originalName else none) = m
    cases m <;> simp [mkRow]
  · simp only [if_neg hr]; simp

theorem stepLines_length (prefix_ : Str) (seen : List (Option Str × Str)) (s : Scaffold) :
    (stepLines prefix_ seen s).map (fun _ => s) = if isChrRank s then [s] else [] := by
  unfold stepLines csvStep isChrRank
  by_cases hr : s.rank = (1 : Int) ∨ s.rank = (2 : Int)
  · simp only [if_pos hr, decide_eq_true hr, if_true]
    generalize (if truthy s.originalName = true then dGet? seen s.originalName else none) = m
    cases m <;> simp
  · simp only [if_neg hr, decide_eq_false hr]; simp

/-- the two loops in lock step: the same dict, and line by line the same `(name, chr_name, localised)` -/
theorem lockstep (prefix_ hap : Str) (scs : List Scaffold) :
    ∀ (out : List ReportRow) (out' : List (Str × Str × Bool)) (seen : List (Option Str × Str)),
      ∃ lines : List (Scaffold × (Str × Str × Bool)),
        scs.foldl (csvStep prefix_) (out', seen) =
          (out' ++ lines.map (·.2), (scs.foldl (csvStep prefix_) (out', seen)).2) ∧
        scs.foldl (repStep prefix_ hap) (out, seen) =
          (out ++ lines.map (fun p => mkRow hap p.1 p.2), (scs.foldl (csvStep prefix_) (out', seen)).2) ∧
        lines.map (·.1) = scs.filter isChrRank := by
  induction scs with
  | nil => intro out out' seen; exact ⟨[], by simp, by simp, rfl⟩
  | cons s r ih =>
    intro out out' seen
    simp only [List.foldl_cons]
    rw [csvStep_split prefix_ out' seen s, repStep_split prefix_ hap out seen s]
    obtain ⟨lines, h1, h2, h3⟩ := ih (out ++ (stepLines prefix_ seen s).map (mkRow hap s)) (out' ++ stepLines prefix_ seen s)
      (csvStep prefix_ ([], seen) s).2
    refine ⟨(stepLines prefix_ seen s).map (fun t => (s, t)) ++ lines, ?_, ?_, ?_⟩
    · rw [h1]; simp [List.map_map, Function.comp_def]
    · rw [h2]; simp [List.map_map, Function.comp_def]
    · rw [List.map_append, h3, List.map_map, List.filter_cons]
      have := stepLines_length prefix_ seen s
      simp only [Function.comp_def]
      rw [this]
      cases isChrRank s <;> simp

theorem zip_map_fst_snd {α β} : ∀ (l : List (α × β)), (l.map (·.1)).zip (l.map (·.2)) = l
  | [] => rfl
  | (a, b) :: r => by simp [zip_map_fst_snd r]

/-- the report rows of one assembly: one per rank-1/2 scaffold, built from the scaffold and its chromosome-list line -/
theorem chromosomesReportAsm_spec (prefix_ hap : Str) (scs : List Scaffold) :
    chromosomesReportAsm prefix_ hap scs =
      ((scs.filter isChrRank).zip (chromosomeNameCsv prefix_ scs)).map (fun p => mkRow hap p.1 p.2) := by
  obtain ⟨lines, h1, h2, h3⟩ := lockstep prefix_ hap scs [] [] []
  rw [chromosomesReportAsm_eq, chromosomeNameCsv_eq, h2, h1, ← h3]
  simp only [List.nil_append]
  rw [zip_map_fst_snd]

end AgpTpf.C10
