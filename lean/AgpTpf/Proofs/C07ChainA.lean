/-
  C07, first clause chained end to end — part A: contig ends of adjacencies, list lemmas.
    `inputAdj` / `IsInputAdj`   the (unordered) pairs of facing contig ends of directly adjacent fragment rows of the input
    A1 `slice_adjacent_aux`         adjacencies inside a contiguous slice are adjacencies of the whole
    A2 `trim_keeps_inner_ends_aux`  a result that satisfies the C18 content invariant (contiguous run, only the terminal fragments
                                shortened, only at their OUTER end) has only adjacencies whose facing ends are those of an
                                adjacency of the source
    A3 `reverse_adjacent_aux`       reversing a run (minus bait) maps every adjacency to the same unordered pair of ends
-/
import AgpTpf.Proofs.C07Lemmas
import AgpTpf.Proofs.C18
import AgpTpf.Proofs.C11Order
namespace AgpTpf.C07
open AgpTpf
open AgpTpf.C11 (End leftFacing rightFacing facingEnds SameAdj)

/-- strand is `+1` or `-1` -/
def StrandPM (f : Fragment) : Prop := f.strand = 1 ∨ f.strand = -1

/-- the facing contig ends `((name, coordinate, isTail), (name, coordinate, isTail))` of every pair of fragment rows
    that are directly adjacent (NO gap row between them) in an input scaffold.  A cut piece keeps the contig's
    outer end: the facing end of a piece is (name, coordinate, kind) of the piece itself. -/
def inputAdj (input : List Scaffold) : List (End × End) :=
  input.flatMap (fun sc => (adjPairs sc.rows).map (fun p => facingEnds p.1 p.2))

/-- `p`, read as an UNORDERED pair of contig ends, is an input adjacency -/
def IsInputAdj (input : List Scaffold) (p : End × End) : Prop := ∃ q ∈ inputAdj input, SameAdj p q

theorem mem_inputAdj (input : List Scaffold) (q : End × End) :
    q ∈ inputAdj input ↔ ∃ sc ∈ input, ∃ a b, (a, b) ∈ adjPairs sc.rows ∧ q = facingEnds a b := by
  unfold inputAdj
  simp only [List.mem_flatMap, List.mem_map, Prod.exists]
  constructor
  · rintro ⟨sc, hsc, a, b, hab, rfl⟩; exact ⟨sc, hsc, a, b, hab, rfl⟩
  · rintro ⟨sc, hsc, a, b, hab, rfl⟩; exact ⟨sc, hsc, a, b, hab, rfl⟩

theorem isInputAdj_of (input : List Scaffold) (sc : Scaffold) (hsc : sc ∈ input) (a0 b0 : Fragment)
    (h0 : (a0, b0) ∈ adjPairs sc.rows) (p : End × End) (hp : SameAdj p (facingEnds a0 b0)) : IsInputAdj input p :=
  ⟨_, (mem_inputAdj input _).mpr ⟨sc, hsc, a0, b0, h0, rfl⟩, hp⟩

theorem seam_mem (l r : List Row) (a b : Fragment) :
    (a, b) ∈ seam l r ↔ l.getLast? = some (.frag a) ∧ r.head? = some (.frag b) := by
  unfold seam
  split
  · next a' b' h1 h2 =>
    rw [h1, h2]; simp only [List.mem_cons, Prod.mk.injEq, List.not_mem_nil, or_false, Option.some.injEq, Row.frag.injEq]
    constructor <;> (rintro ⟨rfl, rfl⟩; exact ⟨rfl, rfl⟩)
  · next hno =>
    constructor
    · intro h; cases h
    · rintro ⟨h1, h2⟩; exact absurd h2 (hno a b h1)

/-! ### A1 -/

/-- adjacencies inside a contiguous run of rows are adjacencies of the whole list -/
theorem infix_adjacent {l src : List Row} (h : l <:+: src) : ∀ pr ∈ adjPairs l, pr ∈ adjPairs src := by
  obtain ⟨p, s, rfl⟩ := h
  intro pr hp
  rw [adjPairs_append, adjPairs_append]
  simp only [List.mem_append]
  exact Or.inl (Or.inl (Or.inr hp))

/-- A1: gapless adjacencies inside the slice `src[i : i+n]` of an input scaffold's rows are input adjacencies -/
theorem slice_adjacent_aux (src : List Row) (i n : Nat) : ∀ pr ∈ adjPairs ((src.drop i).take n), pr ∈ adjPairs src :=
  infix_adjacent ((List.take_prefix _ _).isInfix.trans (List.drop_suffix _ _).isInfix)

theorem slice_adjacent_input (input : List Scaffold) (sc : Scaffold) (hsc : sc ∈ input) (i n : Nat) :
    ∀ pr ∈ adjPairs ((sc.rows.drop i).take n), IsInputAdj input (facingEnds pr.1 pr.2) := by
  rintro ⟨a, b⟩ hp
  exact isInputAdj_of input sc hsc a b (slice_adjacent_aux _ _ _ _ hp) _ (SameAdj.refl _)

/-! ### A2 -/

theorem short_left {f g : Fragment} {dl : Int} (h : C18.Short (.frag f) (.frag g) dl 0) :
    leftFacing f = leftFacing g ∧ f.strand = g.strand := by
  obtain ⟨f', g', hf, hg, hn, hs, hc⟩ := h
  cases hf; cases hg
  refine ⟨?_, hs⟩
  unfold leftFacing
  rw [hs, hn]
  split at hc
  · next h1 => simp only [h1, if_true]; rw [hc.2]; simp
  · next h1 => simp only [h1, if_false]; rw [hc.1]; simp

theorem short_right {f g : Fragment} {dr : Int} (h : C18.Short (.frag f) (.frag g) 0 dr) :
    rightFacing f = rightFacing g ∧ f.strand = g.strand := by
  obtain ⟨f', g', hf, hg, hn, hs, hc⟩ := h
  cases hf; cases hg
  refine ⟨?_, hs⟩
  unfold rightFacing
  rw [hs, hn]
  split at hc
  · next h1 => simp only [h1, if_true]; rw [hc.1]; simp
  · next h1 => simp only [h1, if_false]; rw [hc.2]; simp

/-- the source adjacency an adjacency `(a, b)` of a result comes from: same facing ends, same strands -/
def FromAdj (src : List Row) (a b : Fragment) : Prop :=
  ∃ a0 b0, (a0, b0) ∈ adjPairs src ∧ leftFacing a = leftFacing a0 ∧ rightFacing b = rightFacing b0 ∧
    a.strand = a0.strand ∧ b.strand = b0.strand

theorem adjPairs_cons_concat (x y : Row) (mid : List Row) :
    adjPairs (x :: mid ++ [y]) = seam [x] (mid ++ [y]) ++ (adjPairs mid ++ seam mid [y]) := by
  rw [List.cons_append, adjPairs_cons, adjPairs_append, adjPairs_single, List.append_nil]

/-- A2: `trim_fragment` shortens a terminal fragment only at its OUTER end (C18 `Short … dl 0` / `Short … 0 dr`), and
    `discard_start/end` only remove rows at the ends, so in a result satisfying the C18 content invariant the end of
    a terminal fragment that faces its inner neighbour is the source fragment's end: every adjacency of the result
    has the facing ends (and strands) of an adjacency of the source scaffold. -/
theorem trim_keeps_inner_ends_aux {src : List Row} {o : OverlapResult} (hc : C18.Content src o) :
    ∀ a b, (a, b) ∈ adjPairs o.rows → FromAdj src a b := by
  intro a b hab
  cases hc with
  | empty h _ => rw [h] at hab; cases hab
  | one A B s r dl dr _ hr _ _ _ _ _ => rw [hr, adjPairs_single] at hab; cases hab
  | many A B mid s0 s1 r0 r1 dl dr hs hr h0 h1 _ _ _ _ =>
    obtain ⟨f0, g0, rfl, rfl, _⟩ := id h0
    obtain ⟨f1, g1, rfl, rfl, _⟩ := id h1
    have hinf : (Row.frag g0 :: mid ++ [Row.frag g1]) <:+: src :=
      ⟨A, B, by rw [hs]; simp⟩
    have hsrc : ∀ pr ∈ adjPairs (Row.frag g0 :: mid ++ [Row.frag g1]), pr ∈ adjPairs src := infix_adjacent hinf
    obtain ⟨hl0, hst0⟩ := short_left h0
    obtain ⟨hr1, hst1⟩ := short_right h1
    rw [hr, adjPairs_cons_concat] at hab
    simp only [adjPairs_cons_concat, List.mem_append] at hab hsrc
    rcases hab with hab | hab | hab
    · obtain ⟨e1, e2⟩ := (seam_mem _ _ _ _).mp hab
      simp only [List.getLast?_singleton, Option.some.injEq, Row.frag.injEq] at e1
      subst e1
      cases mid with
      | nil =>
        simp only [List.nil_append, List.head?_cons, Option.some.injEq, Row.frag.injEq] at e2
        subst e2
        exact ⟨g0, g1, hsrc _ (Or.inl ((seam_mem _ _ _ _).mpr ⟨by simp, by simp⟩)), hl0, hr1, hst0, hst1⟩
      | cons m t =>
        simp only [List.cons_append, List.head?_cons, Option.some.injEq] at e2
        subst e2
        exact ⟨g0, b, hsrc _ (Or.inl ((seam_mem _ _ _ _).mpr ⟨by simp, by simp⟩)), hl0, rfl, hst0, rfl⟩
    · exact ⟨a, b, hsrc _ (Or.inr (Or.inl hab)), rfl, rfl, rfl, rfl⟩
    · obtain ⟨e1, e2⟩ := (seam_mem _ _ _ _).mp hab
      simp only [List.head?_cons, Option.some.injEq, Row.frag.injEq] at e2
      subst e2
      exact ⟨a, g1, hsrc _ (Or.inr (Or.inr ((seam_mem _ _ _ _).mpr ⟨e1, by simp⟩))), rfl, hr1, rfl, hst1⟩

/-! ### A3 -/

theorem leftFacing_reverse (b : Fragment) (hb : StrandPM b) : leftFacing b.reverse = rightFacing b := by
  unfold leftFacing rightFacing Fragment.reverse
  rcases hb with h | h <;> simp [h]

theorem rightFacing_reverse (a : Fragment) (ha : StrandPM a) : rightFacing a.reverse = leftFacing a := by
  unfold leftFacing rightFacing Fragment.reverse
  rcases ha with h | h <;> simp [h]

/-- mirroring a pair (as `to_scaffold` does for a minus bait) gives the same two facing ends, swapped -/
theorem facingEnds_mirror (a b : Fragment) (ha : StrandPM a) (hb : StrandPM b) :
    facingEnds (mirror (a, b)).1 (mirror (a, b)).2 = (facingEnds a b).swap := by
  unfold facingEnds mirror
  simp only [Prod.swap, leftFacing_reverse b hb, rightFacing_reverse a ha]

/-- A3: reversing a run (order and strands, as for a minus bait) maps every adjacency to an adjacency of the run with
    the same UNORDERED pair of facing ends (for strands ±1). -/
theorem reverse_adjacent_aux (l : List Row) :
    ∀ pr ∈ adjPairs (l.reverse.map Row.reverse), ∃ q ∈ adjPairs l, pr = mirror q ∧
      (StrandPM q.1 → StrandPM q.2 → SameAdj (facingEnds pr.1 pr.2) (facingEnds q.1 q.2)) := by
  intro pr hp
  rw [adjPairs_reverse_map] at hp
  obtain ⟨q, hq, rfl⟩ := List.mem_map.mp hp
  refine ⟨q, List.mem_reverse.mp hq, rfl, fun h1 h2 => ?_⟩
  obtain ⟨a, b⟩ := q
  rw [facingEnds_mirror a b h1 h2]
  exact (SameAdj.swap _).symm

/-- adjacencies of `to_scaffold`'s rows, traced to the source scaffold -/
theorem toScaffoldRows_adjacent {src : List Row} {o : OverlapResult} (hc : C18.Content src o)
    (hsrc : ∀ pr ∈ adjPairs src, StrandPM pr.1 ∧ StrandPM pr.2) :
    ∀ pr ∈ adjPairs o.toScaffoldRows, ∃ q ∈ adjPairs src, SameAdj (facingEnds pr.1 pr.2) (facingEnds q.1 q.2) := by
  intro pr hp
  have key : ∀ a b, (a, b) ∈ adjPairs o.rows →
      ∃ q ∈ adjPairs src, facingEnds a b = facingEnds q.1 q.2 ∧ StrandPM a ∧ StrandPM b := by
    intro a b hab
    obtain ⟨a0, b0, h0, e1, e2, s1, s2⟩ := trim_keeps_inner_ends_aux hc a b hab
    obtain ⟨p1, p2⟩ := hsrc _ h0
    refine ⟨(a0, b0), h0, by simp [facingEnds, e1, e2], ?_, ?_⟩
    · unfold StrandPM; rw [s1]; exact p1
    · unfold StrandPM; rw [s2]; exact p2
  unfold OverlapResult.toScaffoldRows at hp
  split at hp
  · obtain ⟨⟨a, b⟩, hq, rfl, hsame⟩ := reverse_adjacent_aux _ pr hp
    obtain ⟨q0, hq0, e, sa, sb⟩ := key a b hq
    exact ⟨q0, hq0, e ▸ hsame sa sb⟩
  · obtain ⟨a, b⟩ := pr
    obtain ⟨q0, hq0, e, _, _⟩ := key a b hp
    exact ⟨q0, hq0, e ▸ SameAdj.refl _⟩

/-! ### the left-over seam -/

/-- the facing-end test of `gap_before_leftover` is equality of left-facing contig ends (strand ±1) -/
theorem facingEnd_leftFacing (last prev : Fragment) (hp : StrandPM prev) (h : FacingEnd last prev) :
    leftFacing last = leftFacing prev := by
  obtain ⟨hn, hs, hc⟩ := h
  unfold leftFacing
  rw [hs, hn]
  rcases hp with h1 | h1
  · simp only [h1, if_true] at hc ⊢
    have : ¬ ((1 : Int) = -1) := by decide
    simp only [this, if_false] at hc
    rw [hc]
  · have h2 : ¬ (prev.strand = 1) := by rw [h1]; decide
    simp only [h1, if_true] at hc
    simp only [h2, if_false]
    rw [hc]

/-- consecutive fragment rows are consecutive in the fragment list -/
theorem adjPairs_fragmentsOf (rows : List Row) (a b : Fragment) (h : (a, b) ∈ adjPairs rows) :
    ∃ pre post, fragmentsOf rows = pre ++ a :: b :: post := by
  induction rows with
  | nil => cases h
  | cons x t ih =>
    cases x with
    | gap g =>
      obtain ⟨pre, post, e⟩ := ih (by simpa using h)
      exact ⟨pre, post, by simpa [fragmentsOf] using e⟩
    | frag c =>
      cases t with
      | nil => simp at h
      | cons y t' =>
        cases y with
        | gap g =>
          rw [adjPairs_frag_gap] at h
          obtain ⟨pre, post, e⟩ := ih (by simpa using h)
          exact ⟨c :: pre, post, by simp only [fragmentsOf] at e ⊢; rw [e]; rfl⟩
        | frag d =>
          rw [adjPairs_frag_frag] at h
          rcases List.mem_cons.mp h with e | h'
          · cases e; exact ⟨[], fragmentsOf t', by simp [fragmentsOf]⟩
          · obtain ⟨pre, post, e⟩ := ih h'
            exact ⟨c :: pre, post, by simp only [fragmentsOf] at e ⊢; rw [e]; rfl⟩

end AgpTpf.C07
