/-
  T1c tie for `format_tpf` (assembly/format.py): loop lemmas for the translated source `Gen.Imp.format_tpf_imp`,
  and the model's gap-type translation written as a per-character table.

  The loop lemmas are stated over an ARBITRARY loop body `body` with a hypothesis `hbody` that says what one pass
  of the body does, so the only place that looks at the generated text is the proof of `hbody` in the tie theorem
  (`Properties/C05Imp.lean`: one `cases row <;> simp`).  Self-contained (core Lean + the model).
-/
import AgpTpf.Gen.Imp
import AgpTpf.Model.Text
import AgpTpf.Proofs.C05Tables
namespace AgpTpf.C05
open AgpTpf

/-! ### `Except` plumbing -/

theorem imp_map_ok {α β} (f : α → β) (a : α) : (Except.ok a : R α).map f = .ok (f a) := rfl
theorem imp_map_error {α β} (f : α → β) (e : Err) : (Except.error e : R α).map f = .error e := rfl

/-! ### `PyRt.forIn` over a body that only appends text to the output -/

/-- a loop whose body appends ONE line `l x` to the output and cannot fail, `break` or `return` -/
theorem imp_forIn_line {α ρ : Type} (l : α → Str) (xs : List α) (file : Str)
    (body : α → Str → R (PyRt.Ctl Str ρ))
    (hbody : ∀ x file, body x file = .ok (PyRt.Ctl.next (file ++ l x))) :
    PyRt.forIn xs file body = .ok (PyRt.Done.fell (file ++ (xs.map l).flatten)) := by
  induction xs generalizing file with
  | nil => simp [PyRt.forIn]
  | cons x xs ih => rw [PyRt.forIn, hbody]; simp [ih, List.append_assoc]

/-- a loop whose body appends the text `T (L x)` of a value `L x` it computes (or raises what `L x` raises), and
    never `break`s / `return`s, where `T` of a list of values is the concatenation (`hT`): the result is the text
    of all the values, in order; the first exception wins. -/
theorem imp_forIn_mapM {α β ρ : Type} (L : α → R β) (T : β → Str) (xs : List α) (file : Str)
    (body : α → Str → R (PyRt.Ctl Str ρ))
    (hbody : ∀ x file, body x file = (L x).map (fun v => PyRt.Ctl.next (file ++ T v))) :
    PyRt.forIn xs file body =
      (xs.mapM L).map (fun vs => PyRt.Done.fell (file ++ (vs.map T).flatten)) := by
  induction xs generalizing file with
  | nil => simp [PyRt.forIn, imp_map_ok, pure, Except.pure]
  | cons x xs ih =>
    rw [PyRt.forIn, hbody, List.mapM_cons]
    cases hL : L x with
    | error e => simp [imp_map_error, bind, Except.bind]
    | ok v =>
      simp only [imp_map_ok, ih, bind, Except.bind]
      cases xs.mapM L with
      | error e => simp [imp_map_error]
      | ok vs => simp [imp_map_ok, pure, Except.pure, List.append_assoc]

/-- the rows loop: one line per row -/
theorem imp_forIn_rows {α ρ : Type} (l : α → R Str) (xs : List α) (file : Str)
    (body : α → Str → R (PyRt.Ctl Str ρ))
    (hbody : ∀ x file, body x file = (l x).map (fun ln => PyRt.Ctl.next (file ++ ln))) :
    PyRt.forIn xs file body = (xs.mapM l).map (fun ls => PyRt.Done.fell (file ++ ls.flatten)) := by
  have h := imp_forIn_mapM l id xs file body (by simpa using hbody)
  simpa using h

/-- the scaffolds loop: a list of lines per scaffold -/
theorem imp_forIn_scaffolds {α ρ : Type} (L : α → R (List Str)) (xs : List α) (file : Str)
    (body : α → Str → R (PyRt.Ctl Str ρ))
    (hbody : ∀ x file, body x file = (L x).map (fun ls => PyRt.Ctl.next (file ++ ls.flatten))) :
    PyRt.forIn xs file body = (xs.mapM L).map (fun lss => PyRt.Done.fell (file ++ lss.flatten.flatten)) := by
  have h := imp_forIn_mapM L List.flatten xs file body hbody
  simpa [List.flatten_flatten] using h

/-! ### the gap-type text: dictionary lookup, else the per-character `str.translate` table -/

/-- the model's `tpfGapTypeToText` is `gap_type_dict.get(g, g.translate(tr))` with `tr` the character map
    `trChar Gen.upperFrom Gen.upperTo` (`C05Tables`), by unfolding alone -/
theorem tpfGapTypeToText_eq_getD (g : Str) :
    tpfGapTypeToText g = (dGet? Gen.tpfGapFormatDict g).getD (g.map (trChar Gen.upperFrom Gen.upperTo)) := by
  unfold tpfGapTypeToText
  cases dGet? Gen.tpfGapFormatDict g <;> rfl

/-- `"\n"` written after the row text is the `++ ['\n']` of the model's line -/
theorem imp_newline : ("\n".toList : Str) = ['\n'] := rfl

end AgpTpf.C05
