/-
  Helper lemmas for C20, part D: `smartSort` / `sortedByName` as a stable sort over pure keys.
-/
import AgpTpf.Proofs.C20
import AgpTpf.Proofs.C20Order
namespace AgpTpf.C20
open AgpTpf

/-- `(rank, natural_key)` of a scaffold -/
def smartKey (s : Scaffold) : Int × NatKey := (s.rank, keyOf s.name)

theorem smartSort_eq (scs : List Scaffold) :
    smartSort scs = .ok ((stableSort (fun a b => smartLe a.1 b.1) (scs.map (fun s => (smartKey s, s)))).map (·.2)) := by
  unfold smartSort
  have := mapM_ok (fun (s : Scaffold) => (do let k ← naturalKey s.name; pure ((s.rank, k), s) : R _))
    (fun s => (smartKey s, s)) scs (by intro s _; rw [naturalKey_eq]; rfl)
  rw [this]; rfl

theorem sortedByName_eq (scs : List Scaffold) :
    sortedByName scs
      = .ok ((stableSort (fun a b => keyLe a.1 b.1) (scs.map (fun s => (keyOf s.name, s)))).map (·.2)) := by
  unfold sortedByName
  have := mapM_ok (fun (s : Scaffold) => (do let k ← naturalKey s.name; pure (k, s) : R _))
    (fun s => (keyOf s.name, s)) scs (by intro s _; rw [naturalKey_eq]; rfl)
  rw [this]; rfl

/-- sorting decorated pairs `(key x, x)` and stripping the decoration = sorting by the key -/
theorem stableSort_decorated {α κ} (le : κ → κ → Bool) (key : α → κ) (l : List α) :
    (stableSort (fun a b => le a.1 b.1) (l.map (fun x => (key x, x)))).map (·.2)
      = stableSort (fun a b => le (key a) (key b)) l := by
  have hins : ∀ (x : α) (m : List α),
      insertBy (fun (a b : κ × α) => le a.1 b.1) (key x, x) (m.map (fun x => (key x, x)))
        = (insertBy (fun a b => le (key a) (key b)) x m).map (fun x => (key x, x)) := by
    intro x m
    induction m with
    | nil => rfl
    | cons y ys ih =>
      simp only [List.map_cons, insertBy]
      split
      · simp
      · simp [ih]
  have : stableSort (fun (a b : κ × α) => le a.1 b.1) (l.map (fun x => (key x, x)))
      = (stableSort (fun a b => le (key a) (key b)) l).map (fun x => (key x, x)) := by
    induction l with
    | nil => rfl
    | cons x xs ih => simp only [List.map_cons, stableSort, ih, hins]
  rw [this, List.map_map]
  exact List.map_id _

theorem totalPreorder_comap {α κ} {le : κ → κ → Bool} (h : TotalPreorder le) (key : α → κ) :
    TotalPreorder (fun a b => le (key a) (key b)) :=
  ⟨fun _ _ => h.total _ _, fun _ _ _ => h.trans _ _ _⟩

theorem smartLe_totalPreorder : TotalPreorder smartLe :=
  ⟨smartLe_total', fun _ _ _ => smartLe_trans'⟩

theorem keyLe_totalPreorder : TotalPreorder keyLe :=
  ⟨keyLe_total', fun _ _ _ => keyLe_trans'⟩

/-- the list `smart_sort_scaffolds` leaves behind -/
def smartSorted (scs : List Scaffold) : List Scaffold :=
  stableSort (fun a b => smartLe (smartKey a) (smartKey b)) scs

theorem smartSort_eq' (scs : List Scaffold) : smartSort scs = .ok (smartSorted scs) := by
  rw [smartSort_eq]
  exact congrArg Except.ok (stableSort_decorated smartLe smartKey scs)

def nameSorted (scs : List Scaffold) : List Scaffold :=
  stableSort (fun a b => keyLe (keyOf a.name) (keyOf b.name)) scs

theorem sortedByName_eq' (scs : List Scaffold) : sortedByName scs = .ok (nameSorted scs) := by
  rw [sortedByName_eq]
  exact congrArg Except.ok (stableSort_decorated keyLe (fun (s : Scaffold) => keyOf s.name) scs)


theorem inj_of_nodup_map {α β} (f : α → β) : ∀ (l : List α), (l.map f).Nodup →
    ∀ a ∈ l, ∀ b ∈ l, f a = f b → a = b := by
  intro l
  induction l with
  | nil => intro _ a ha; simp at ha
  | cons x xs ih =>
    intro hn a ha b hb hab
    rw [List.map_cons, List.nodup_cons] at hn
    rcases List.mem_cons.mp ha with e1 | ha'
    · rcases List.mem_cons.mp hb with e2 | hb'
      · rw [e1, e2]
      · subst e1; exact absurd (hab ▸ List.mem_map_of_mem hb') hn.1
    · rcases List.mem_cons.mp hb with e2 | hb'
      · subst e2; exact absurd (hab ▸ List.mem_map_of_mem ha') hn.1
      · exact ih hn.2 a ha' b hb' hab

/-- with pairwise distinct keys the sorted output does not depend on the initial order at all -/
theorem stableSort_perm_invariant_of_nodup {α κ} {le : κ → κ → Bool} (h : TotalPreorder le)
    (anti : ∀ a b, le a b = true → le b a = true → a = b) (key : α → κ) {l₁ l₂ : List α}
    (hp : l₁.Perm l₂) (hn : (l₁.map key).Nodup) :
    stableSort (fun a b => le (key a) (key b)) l₁ = stableSort (fun a b => le (key a) (key b)) l₂ := by
  have h' := totalPreorder_comap h key
  have p1 := stableSort_perm (fun a b => le (key a) (key b)) l₁
  have p2 := stableSort_perm (fun a b => le (key a) (key b)) l₂
  refine List.Perm.eq_of_pairwise (le := fun a b => le (key a) (key b) = true) ?_
    (stableSort_sorted h' l₁) (stableSort_sorted h' l₂) (p1.trans (hp.trans p2.symm))
  intro a b ha hb hab hba
  exact inj_of_nodup_map key l₁ hn a (p1.subset ha) b (hp.symm.subset (p2.subset hb)) (anti _ _ hab hba)

end AgpTpf.C20
