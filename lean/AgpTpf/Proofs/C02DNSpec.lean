/-
  C02 (deep cuts, any number of cuts per contig), part 0: specification functions.
  A shared contig now has a CHAIN of holders (`SiteN.chain`, in scaffold order): the first ends inside the contig, the
  last begins inside it, the middle ones lie wholly inside it.
-/
import AgpTpf.Proofs.C02DChain
import AgpTpf.Proofs.C02DOut
namespace AgpTpf.C02
open AgpTpf

structure SiteN where
  key : Key
  frag : Fragment
  chain : List Nat
  deriving DecidableEq, Repr

/-- the holders of a shared contig, sorted by where their baits begin -/
def siteOfN (ptx : List Scaffold) (found : List (Key × Found)) (k : Key) : SiteN :=
  match dGet? found k with
  | some fnd => ⟨k, fnd.fragment, sortByIntKey (fun s => (pieceAt ptx s).2.start) fnd.scaffolds⟩
  | none => ⟨k, default, []⟩

def sitesN (input ptx : List Scaffold) : List SiteN :=
  (sharedKeys input ptx).map (siteOfN ptx (regOf input ptx).1)

/-- each site with the number of object ids used by the sites before it -/
def withOffsets : Nat → List SiteN → List (SiteN × Nat)
  | _, [] => []
  | n, x :: r => (x, n) :: withOffsets (n + x.chain.length) r

/-- object id of the Fragment made for the holder at chain position `p`: holders are visited in contig order -/
def oidAt (base : Nat) (y : SiteN × Nat) (p : Nat) : Nat :=
  base + y.2 + (if y.1.frag.strand = 1 then p else y.1.chain.length - 1 - p)

/-- the start of result `i` is cut iff `i` is in a chain but not its first element; the end iff it is not the last -/
def startCutN (base : Nat) (l : List (SiteN × Nat)) (i : Nat) : Option Nat :=
  l.findSome? (fun y =>
    if 0 < y.1.chain.idxOf i ∧ y.1.chain.idxOf i < y.1.chain.length then some (oidAt base y (y.1.chain.idxOf i)) else none)
def endCutN (base : Nat) (l : List (SiteN × Nat)) (i : Nat) : Option Nat :=
  l.findSome? (fun y =>
    if y.1.chain.idxOf i + 1 < y.1.chain.length then some (oidAt base y (y.1.chain.idxOf i)) else none)

def resDeepN (input : List Scaffold) (base : Nat) (l : List (SiteN × Nat)) (x : (Scaffold × Fragment) × Nat) : Res :=
  { o := cutO (startCutN base l x.2) (endCutN base l x.2) (labelled x.1.1 (pieceO input x.1.2)), added := true }

def storeDeepN (input ptx : List Scaffold) (base : Nat) (l : List (SiteN × Nat)) : List Res :=
  (allPieces ptx).zipIdx.map (resDeepN input base l)

def expectedStoreDeepN (input ptx : List Scaffold) : List Res :=
  storeDeepN input ptx (oid0 input) (withOffsets 0 (sitesN input ptx))

def cutPieceN (input ptx : List Scaffold) (i : Nat) (p : Fragment) : OverlapResult :=
  cutO (startCutN (oid0 input) (withOffsets 0 (sitesN input ptx)) i)
    (endCutN (oid0 input) (withOffsets 0 (sitesN input ptx)) i) (pieceO input p)

def expectedRowsDeepN (input ptx : List Scaffold) (jg : Gap) (qs : List (Fragment × Nat)) : List Row :=
  qs.foldl (fun built q => Scaffold.appendRows built (cutPieceN input ptx q.2 q.1).toScaffoldRows (some jg)) []

def pretextOutDeepN (input ptx : List Scaffold) (jg : Gap) (g : Scaffold × List (Fragment × Nat)) : Scaffold :=
  { name := outName g.1, rows := expectedRowsDeepN input ptx jg g.2, tag := none, haplotype := none, rank := 3,
    originalName := some g.1.name, originalTags := some [] }

def expectedScaffoldsDeepN (input ptx : List Scaffold) (jg : Gap) : List Scaffold :=
  (groupsFrom 0 ptx).map (pretextOutDeepN input ptx jg) ++ (expectedExtra (claimedKeys input ptx) jg input).map (·.1)

end AgpTpf.C02
