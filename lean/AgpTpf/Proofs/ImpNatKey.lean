/-
  T1c helper lemmas for `Assembly.name_natural_key` (assembly.py) — the one-expression body
  `tuple((NEMATODE_CHR_INT.get(x) or int(x)) if i % 2 else x for i, x in enumerate(re.split(…, obj.name)))`.

  Nothing here mentions a generated term: `mapM_enum_split` is about `PyRt.enumerateFrom`, `List.mapM` over an ARBITRARY body `f`
  with two hypotheses on what one evaluation of the body returns (even index: the text; odd index: `tokenValue` wrapped in `.num`),
  and the model's `natTokens` shape `first, (match, text)*`.  The hypotheses are discharged at the use site by `simp`.
-/
import AgpTpf.Gen.Imp
import AgpTpf.Model.NaturalKey
namespace AgpTpf.ImpNatKey
open AgpTpf

theorem bind_ok {α : Type} (x : R α) : (x >>= fun t => (Except.ok t : R α)) = x := by cases x <;> rfl

theorem bind_ok_eq_map {α β : Type} (x : R α) (f : α → β) : (x >>= fun a => (Except.ok (f a) : R β)) = x.map f := by
  cases x <;> rfl

/-- `i % 2` of Python for the literal 2 is the Euclidean remainder -/
theorem pyMod_two (i : Int) : pyMod i 2 = i % 2 := Int.fmod_eq_emod_of_nonneg i (by decide)

/-! ### the chromosome table: a hit is never 0, so `d.get(x) or int(x)` = `d[x] if x in d else int(x)` = `tokenValue x`

  The source may spell the odd-index value either way; both are met through the two facts below (what `tokenValue` is on a hit and on a
  miss of the table), after a case split on the lookup `dGet? Gen.nematodeChrInt x` — never through the shape of the generated term. -/

/-- a successful lookup returns a value stored in the table -/
theorem dGet?_mem {κ ν : Type} [DecidableEq κ] : ∀ (d : List (κ × ν)) (k : κ) (v : ν), dGet? d k = some v → (k, v) ∈ d
  | [], _, _, h => by simp [dGet?] at h
  | (k', v') :: r, k, v, h => by
    unfold dGet? at h
    by_cases hk : k' = k
    · simp only [hk, if_true, Option.some.injEq] at h
      simp [hk, h]
    · simp only [hk, if_false] at h
      exact List.mem_cons_of_mem _ (dGet?_mem r k v h)

/-- no value of the extracted constant `NEMATODE_CHR_INT` is 0 (a fact about the table, by evaluation) -/
theorem nematodeChrInt_values_ne_zero : ∀ p ∈ Gen.nematodeChrInt, p.2 ≠ 0 := by decide

/-- … so a hit in the table is never falsy -/
theorem nematode_hit_ne_zero {x : Str} {v : Int} (h : dGet? Gen.nematodeChrInt x = some v) : v ≠ 0 :=
  nematodeChrInt_values_ne_zero (x, v) (dGet?_mem _ _ _ h)

/-- `tokenValue` on a hit: the table's value (the `or int(x)` arm is dead) -/
theorem tokenValue_hit {x : Str} {v : Int} (h : dGet? Gen.nematodeChrInt x = some v) : tokenValue x = .ok v := by
  unfold tokenValue
  simp only [h, nematode_hit_ne_zero h, ne_eq, not_false_eq_true, if_true]

/-- `tokenValue` on a miss: `int(x)` -/
theorem tokenValue_miss {x : Str} (h : dGet? Gen.nematodeChrInt x = none) : tokenValue x = pyInt x := by
  unfold tokenValue
  simp only [h]

/-- the model's per-match step of `naturalKey` (named once here) -/
def keyStep (p : Str × Str) : R (Int × Str) := do let v ← tokenValue p.1; pure (v, p.2)

/-- the flat tuple Python builds from `first` and the `(value, text)` pairs -/
def flatToks (first : Str) (rest : List (Int × Str)) : List PyRt.KeyTok :=
  .txt first :: rest.flatMap (fun p => [.num p.1, .txt p.2])

/-- `naturalKey` through the named step -/
theorem naturalKey_eq_keyStep (name : Str) :
    naturalKey name =
      ((natTokens name).rest.mapM keyStep).map (fun r => ({ first := (natTokens name).first, rest := r } : NatKey)) := by
  unfold naturalKey
  have hf : (fun (x : Str × Str) => (match x with | (m, tx) => do let v ← tokenValue m; pure (v, tx) : R (Int × Str))) = keyStep := by
    funext ⟨m, tx⟩; rfl
  simp only [] at hf ⊢
  rw [hf]
  cases ((natTokens name).rest.mapM keyStep) <;> rfl

/-- the comprehension over the enumerated flat split, for an arbitrary body that returns the text at even indices and the
    token value at odd indices: exactly the model's `mapM keyStep` over the `(match, text)` pairs, flattened -/
theorem mapM_enum_split (f : Int × Str → R PyRt.KeyTok)
    (heven : ∀ i x, i % 2 = 0 → f (i, x) = .ok (.txt x))
    (hodd : ∀ i x, i % 2 = 1 → f (i, x) = (tokenValue x).map .num)
    (rest : List (Str × Str)) : ∀ (k : Int) (t : Str), k % 2 = 0 →
      (PyRt.enumerateFrom k (t :: rest.flatMap (fun p => [p.1, p.2]))).mapM f
        = (rest.mapM keyStep).map (flatToks t) := by
  induction rest with
  | nil =>
    intro k t hk
    simp only [List.flatMap_nil, PyRt.enumerateFrom, List.mapM_cons, List.mapM_nil, heven k t hk]
    rfl
  | cons p r ih =>
    intro k t hk
    obtain ⟨m, tx⟩ := p
    have h1 : (k + 1) % 2 = 1 := by omega
    have h2 : (k + 1 + 1) % 2 = 0 := by omega
    have ih' := ih (k + 1 + 1) tx h2
    simp only [PyRt.enumerateFrom, List.mapM_cons] at ih'
    simp only [List.flatMap_cons, List.cons_append, List.nil_append, PyRt.enumerateFrom, List.mapM_cons, heven k t hk,
      hodd (k + 1) m h1, ih', keyStep]
    cases tokenValue m with
    | error e => rfl
    | ok v =>
      cases r.mapM keyStep with
      | error e => rfl
      | ok rs => rfl

/-- the same from index 0 over `PyRt.natSplitList`, against `naturalKey` -/
theorem mapM_natSplitList (f : Int × Str → R PyRt.KeyTok)
    (heven : ∀ i x, i % 2 = 0 → f (i, x) = .ok (.txt x))
    (hodd : ∀ i x, i % 2 = 1 → f (i, x) = (tokenValue x).map .num) (name : Str) :
    (PyRt.enumerate (PyRt.natSplitList name)).mapM f = (naturalKey name).map (fun k => flatToks k.first k.rest) := by
  rw [naturalKey_eq_keyStep]
  unfold PyRt.enumerate PyRt.natSplitList
  simp only []
  rw [mapM_enum_split f heven hodd _ 0 _ (by decide)]
  cases ((natTokens name).rest.mapM keyStep) <;> rfl

/-! ### `flatToks` is injective -/

theorem flatMap_pair_inj : ∀ (a b : List (Int × Str)),
    a.flatMap (fun p => [PyRt.KeyTok.num p.1, PyRt.KeyTok.txt p.2]) = b.flatMap (fun p => [PyRt.KeyTok.num p.1, PyRt.KeyTok.txt p.2]) →
    a = b
  | [], [], _ => rfl
  | [], _ :: _, h => by simp at h
  | _ :: _, [], h => by simp at h
  | (n, s) :: a, (n', s') :: b, h => by
    simp only [List.flatMap_cons, List.cons_append, List.nil_append, List.cons.injEq, PyRt.KeyTok.num.injEq,
      PyRt.KeyTok.txt.injEq] at h
    obtain ⟨rfl, rfl, h⟩ := h
    rw [flatMap_pair_inj a b h]

theorem flatToks_inj (f f' : Str) (r r' : List (Int × Str)) (h : flatToks f r = flatToks f' r') : f = f' ∧ r = r' := by
  unfold flatToks at h
  simp only [List.cons.injEq, PyRt.KeyTok.txt.injEq] at h
  exact ⟨h.1, flatMap_pair_inj r r' h.2⟩

end AgpTpf.ImpNatKey
