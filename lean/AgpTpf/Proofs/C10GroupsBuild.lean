/-
  C10, single-haplotype chromosome numbering, part 2: `buildGroups` with one haplotype key returns one group per
  maximal run of consecutive entries with the same `originalName`.
-/
import AgpTpf.Model.Remap
import AgpTpf.Proofs.C09Split
namespace AgpTpf.C10
open AgpTpf

/-! ### the run decomposition (specification) -/

abbrev Run := Str × List Nat

/-- put the piece `c` in front of an already grouped list: it joins the first run when the names agree -/
def mergeRun (c : Run) : List Run → List Run
  | [] => [c]
  | (o', ids') :: gs => if c.1 = o' then (c.1, c.2 ++ ids') :: gs else c :: (o', ids') :: gs

/-- maximal runs of consecutive `(name, id)` pairs with the same name -/
def groupRuns : List (Str × Nat) → List Run
  | [] => []
  | (o, i) :: r => mergeRun (o, [i]) (groupRuns r)

/-- the `(name, id)` pairs a list of runs stands for -/
def flattenRuns (rs : List Run) : List (Str × Nat) := rs.flatMap (fun r => r.2.map (fun i => (r.1, i)))

/-- neighbouring runs have different names -/
def AdjDistinct : List Run → Prop
  | [] => True
  | [_] => True
  | a :: b :: r => a.1 ≠ b.1 ∧ AdjDistinct (b :: r)

theorem mergeRun_nil (c : Run) : mergeRun c [] = [c] := rfl
theorem mergeRun_cons (c : Run) (o' : Str) (ids' : List Nat) (gs : List Run) :
    mergeRun c ((o', ids') :: gs) = if c.1 = o' then (c.1, c.2 ++ ids') :: gs else c :: (o', ids') :: gs := rfl

theorem mergeRun_ne_nil (c : Run) (rs : List Run) : mergeRun c rs ≠ [] := by
  cases rs with
  | nil => simp [mergeRun]
  | cons g gs => obtain ⟨o', ids'⟩ := g; rw [mergeRun_cons]; split <;> simp

theorem mergeRun_head (c : Run) (rs : List Run) : ∃ ids t, mergeRun c rs = (c.1, ids) :: t ∧ (c.2 ≠ [] → ids ≠ []) := by
  cases rs with
  | nil => exact ⟨c.2, [], rfl, id⟩
  | cons g gs =>
    obtain ⟨o', ids'⟩ := g
    rw [mergeRun_cons]
    split
    · exact ⟨c.2 ++ ids', gs, rfl, fun h => by simp [h]⟩
    · exact ⟨c.2, (o', ids') :: gs, rfl, id⟩

theorem flatten_mergeRun (c : Run) (rs : List Run) :
    flattenRuns (mergeRun c rs) = c.2.map (fun i => (c.1, i)) ++ flattenRuns rs := by
  cases rs with
  | nil => simp [mergeRun, flattenRuns]
  | cons g gs =>
    obtain ⟨o', ids'⟩ := g
    rw [mergeRun_cons]
    split
    · rename_i e
      simp [flattenRuns, e]
    · simp [flattenRuns]

theorem adj_mergeRun (c : Run) (rs : List Run) (h : AdjDistinct rs) : AdjDistinct (mergeRun c rs) := by
  cases rs with
  | nil => trivial
  | cons g gs =>
    obtain ⟨o', ids'⟩ := g
    rw [mergeRun_cons]
    split
    · rename_i e
      cases gs with
      | nil => trivial
      | cons g2 gs2 => exact ⟨by rw [e]; exact h.1, h.2⟩
    · rename_i e
      exact ⟨e, h⟩

theorem nonempty_mergeRun (c : Run) (rs : List Run) (hc : c.2 ≠ []) (h : ∀ r ∈ rs, r.2 ≠ []) :
    ∀ r ∈ mergeRun c rs, r.2 ≠ [] := by
  cases rs with
  | nil => intro r hr; simp [mergeRun] at hr; subst hr; exact hc
  | cons g gs =>
    obtain ⟨o', ids'⟩ := g
    rw [mergeRun_cons]
    split
    · intro r hr
      rcases List.mem_cons.1 hr with e | hr
      · subst e; simp [hc]
      · exact h r (List.mem_cons_of_mem _ hr)
    · intro r hr
      rcases List.mem_cons.1 hr with e | hr
      · subst e; exact hc
      · exact h r hr

/-- **`groupRuns` is the decomposition into maximal runs**: concatenating the runs gives back the list, no run is
    empty, neighbouring runs have different names (these three facts determine the decomposition). -/
theorem groupRuns_spec (l : List (Str × Nat)) :
    flattenRuns (groupRuns l) = l ∧ (∀ r ∈ groupRuns l, r.2 ≠ []) ∧ AdjDistinct (groupRuns l) := by
  induction l with
  | nil => exact ⟨rfl, fun _ h => (by cases h), trivial⟩
  | cons p r ih =>
    obtain ⟨o, i⟩ := p
    unfold groupRuns
    refine ⟨?_, nonempty_mergeRun _ _ (by simp) ih.2.1, adj_mergeRun _ _ ih.2.2⟩
    rw [flatten_mergeRun, ih.1]; rfl

theorem groupRuns_ne_nil (l : List (Str × Nat)) (h : l ≠ []) : groupRuns l ≠ [] := by
  cases l with
  | nil => exact absurd rfl h
  | cons p r => obtain ⟨o, i⟩ := p; exact mergeRun_ne_nil _ _

theorem mergeRun_mergeRun_same (o : Str) (ids : List Nat) (sid : Nat) (X : List Run) :
    mergeRun (o, ids) (mergeRun (o, [sid]) X) = mergeRun (o, ids ++ [sid]) X := by
  cases X with
  | nil => simp [mergeRun]
  | cons g gs =>
    obtain ⟨o', ids'⟩ := g
    by_cases e : o = o'
    · subst e; simp [mergeRun]
    · simp [mergeRun, e]

theorem mergeRun_mergeRun_diff (o o2 : Str) (ids : List Nat) (sid : Nat) (X : List Run) (hne : o2 ≠ o) :
    mergeRun (o, ids) (mergeRun (o2, [sid]) X) = (o, ids) :: mergeRun (o2, [sid]) X := by
  obtain ⟨ids2, t, e, _⟩ := mergeRun_head (o2, [sid]) X
  rw [e]
  simp only [mergeRun]
  rw [if_neg (fun h => hne h.symm)]

/-! ### the loop of `buildGroups` -/

/-- the loop body of `ChrNamer.build_groups` (verbatim from the model) -/
def bgStep (fs : List Scaffold) (haps : List Str) (st : GroupScan) (e : Str × Nat) : R GroupScan := do
    let others := haps.drop 1
    let (hap, sid) := e
    let sc := fs.getD sid default
    let orig ← match sc.originalName with
      | some (c :: r) => pure (c :: r)
      | _ => throw Err.value
    let hd := (dGet? st.cur hap).getD []
    let st ←
      if ¬ hd.isEmpty then
        if ¬ others.isEmpty then
          if some hap ≠ st.lastHap then pure { st with groups := st.groups ++ [st.cur], cur := newGroup haps }
          else if some orig ≠ st.lastOrig then do
            let lo := st.lastOrig.getD []
            match dGet? hd lo with
            | none => throw Err.key
            | some ids =>
              let first ← pyGet ids 0
              let tags := ((fs.getD first default).originalTags).getD []
              if tags.contains sSingleton then pure { st with groups := st.groups ++ [st.cur], cur := newGroup haps }
              else pure st
          else pure st
        else if some orig ≠ st.lastOrig then pure { st with groups := st.groups ++ [st.cur], cur := newGroup haps }
        else pure st
      else pure st
    pure { st with cur := groupAdd st.cur hap orig sid, lastHap := some hap, lastOrig := some orig }

theorem buildGroups_eq (fs : List Scaffold) (haps : List Str) (entries : List (Str × Nat)) :
    buildGroups fs haps entries =
      (entries.foldlM (bgStep fs haps) { groups := [], cur := newGroup haps }) >>= fun st => pure (st.groups ++ [st.cur]) := rfl

/-- Pretext scaffold name of the fused scaffold `sid` (`[]` when absent) -/
def origOf (fs : List Scaffold) (sid : Nat) : Str := ((fs.getD sid default).originalName).getD []

/-- the group `ChrGroup(data={h: {orig: ids}})` -/
def mkGroup (h : Str) (r : Run) : GroupData := [(h, [r])]

theorem truthy_cases (o : Option Str) : (truthy o = true ∧ ∃ c r, o = some (c :: r)) ∨ (truthy o = false ∧ (o = none ∨ o = some [])) := by
  cases o with
  | none => right; exact ⟨rfl, Or.inl rfl⟩
  | some s =>
    cases s with
    | nil => right; exact ⟨rfl, Or.inr rfl⟩
    | cons c r => left; exact ⟨rfl, c, r, rfl⟩

/-- one haplotype: an entry without original name raises `ValueError`, whatever the state -/
theorem bgStep_bad (fs : List Scaffold) (haps : List Str) (st : GroupScan) (hap : Str) (sid : Nat)
    (hbad : truthy (fs.getD sid default).originalName = false) : bgStep fs haps st (hap, sid) = .error .value := by
  rcases truthy_cases (fs.getD sid default).originalName with ⟨h, _⟩ | ⟨_, h | h⟩
  · rw [h] at hbad; cases hbad
  · unfold bgStep; simp only [h]; rfl
  · unfold bgStep; simp only [h]; rfl

/-- one haplotype, first entry: it opens the first group -/
theorem bgStep_first (fs : List Scaffold) (h : Str) (sid : Nat)
    (hgood : truthy (fs.getD sid default).originalName = true) :
    bgStep fs [h] { groups := [], cur := newGroup [h] } (h, sid) =
      .ok { groups := [], cur := mkGroup h (origOf fs sid, [sid]), lastHap := some h, lastOrig := some (origOf fs sid) } := by
  rcases truthy_cases (fs.getD sid default).originalName with ⟨_, c, r, e⟩ | ⟨e, _⟩
  · unfold bgStep origOf
    simp only [e]
    simp [newGroup, dGet?, groupAdd, dSet, mkGroup, pure, Except.pure, bind, Except.bind]
  · rw [e] at hgood; cases hgood

/-- one haplotype, later entry: same name → joins the current group, other name → the current group is closed -/
theorem bgStep_next (fs : List Scaffold) (h : Str) (G : List GroupData) (o : Str) (ids : List Nat) (lh : Option Str)
    (sid : Nat) (hgood : truthy (fs.getD sid default).originalName = true) :
    bgStep fs [h] { groups := G, cur := mkGroup h (o, ids), lastHap := lh, lastOrig := some o } (h, sid) =
      .ok (if origOf fs sid = o then
             { groups := G, cur := mkGroup h (o, ids ++ [sid]), lastHap := some h, lastOrig := some o }
           else
             { groups := G ++ [mkGroup h (o, ids)], cur := mkGroup h (origOf fs sid, [sid]), lastHap := some h,
               lastOrig := some (origOf fs sid) }) := by
  rcases truthy_cases (fs.getD sid default).originalName with ⟨_, c, r, e⟩ | ⟨e, _⟩
  · unfold bgStep origOf
    simp only [e]
    by_cases ho : c :: r = o
    · subst ho
      simp [dGet?, groupAdd, dSet, mkGroup, pure, Except.pure, bind, Except.bind]
    · simp [newGroup, dGet?, groupAdd, dSet, mkGroup, pure, Except.pure, bind, Except.bind, ho]
  · rw [e] at hgood; cases hgood

/-- `(name, id)` pairs of the entries -/
def origPairs (fs : List Scaffold) (entries : List (Str × Nat)) : List (Str × Nat) :=
  entries.map (fun e => (origOf fs e.2, e.2))

theorem fold_single (fs : List Scaffold) (h : Str) : ∀ (r : List (Str × Nat)) (G : List GroupData) (o : Str)
    (ids : List Nat) (lh : Option Str),
    (∀ e ∈ r, e.1 = h) → (∀ e ∈ r, truthy (fs.getD e.2 default).originalName = true) →
    ∃ st', r.foldlM (bgStep fs [h]) { groups := G, cur := mkGroup h (o, ids), lastHap := lh, lastOrig := some o } = .ok st' ∧
      st'.groups ++ [st'.cur] = G ++ (mergeRun (o, ids) (groupRuns (origPairs fs r))).map (mkGroup h) := by
  intro r
  induction r with
  | nil =>
    intro G o ids lh _ _
    exact ⟨_, rfl, rfl⟩
  | cons e r ih =>
    intro G o ids lh hh hg
    obtain ⟨hap, sid⟩ := e
    have e1 : hap = h := hh (hap, sid) (by simp)
    subst e1
    have hgood := hg (hap, sid) (by simp)
    have hh' : ∀ e ∈ r, e.1 = hap := fun e he => hh e (List.mem_cons_of_mem _ he)
    have hg' : ∀ e ∈ r, truthy (fs.getD e.2 default).originalName = true := fun e he => hg e (List.mem_cons_of_mem _ he)
    rw [List.foldlM_cons, bgStep_next fs hap G o ids lh sid hgood]
    show ∃ st', (List.foldlM (bgStep fs [hap]) _ r) = .ok st' ∧ _
    simp only [origPairs, List.map_cons, groupRuns]
    by_cases ho : origOf fs sid = o
    · rw [if_pos ho]
      obtain ⟨st', h1, h2⟩ := ih G o (ids ++ [sid]) (some hap) hh' hg'
      refine ⟨st', h1, ?_⟩
      rw [h2, ho, mergeRun_mergeRun_same]; rfl
    · rw [if_neg ho]
      obtain ⟨st', h1, h2⟩ := ih (G ++ [mkGroup hap (o, ids)]) (origOf fs sid) [sid] (some hap) hh' hg'
      refine ⟨st', h1, ?_⟩
      rw [h2, mergeRun_mergeRun_diff _ _ _ _ _ ho]
      simp [origPairs]

theorem fold_single_bad (fs : List Scaffold) (h : Str) : ∀ (r : List (Str × Nat)) (G : List GroupData) (o : Str)
    (ids : List Nat) (lh : Option Str),
    (∀ e ∈ r, e.1 = h) → (∃ e ∈ r, truthy (fs.getD e.2 default).originalName = false) →
    r.foldlM (bgStep fs [h]) { groups := G, cur := mkGroup h (o, ids), lastHap := lh, lastOrig := some o } = .error .value := by
  intro r
  induction r with
  | nil => intro G o ids lh _ hb; obtain ⟨e, he, _⟩ := hb; cases he
  | cons e r ih =>
    intro G o ids lh hh hb
    obtain ⟨hap, sid⟩ := e
    have e1 : hap = h := hh (hap, sid) (by simp)
    subst e1
    have hh' : ∀ e ∈ r, e.1 = hap := fun e he => hh e (List.mem_cons_of_mem _ he)
    rw [List.foldlM_cons]
    cases hgood : truthy (fs.getD sid default).originalName with
    | false => rw [bgStep_bad fs [hap] _ hap sid hgood]; rfl
    | true =>
      have hb' : ∃ e ∈ r, truthy (fs.getD e.2 default).originalName = false := by
        obtain ⟨e, he, hbad⟩ := hb
        rcases List.mem_cons.1 he with e2 | he
        · subst e2; rw [hgood] at hbad; cases hbad
        · exact ⟨e, he, hbad⟩
      rw [bgStep_next fs hap G o ids lh sid hgood]
      show List.foldlM (bgStep fs [hap]) _ r = _
      by_cases ho : origOf fs sid = o
      · rw [if_pos ho]; exact ih _ _ _ _ hh' hb'
      · rw [if_neg ho]; exact ih _ _ _ _ hh' hb'

/-- **G1** one haplotype key, all entries good: one group per maximal run, in order -/
theorem buildGroups_single_ok (fs : List Scaffold) (h : Str) (entries : List (Str × Nat)) (hne : entries ≠ [])
    (hh : ∀ e ∈ entries, e.1 = h) (hg : ∀ e ∈ entries, truthy (fs.getD e.2 default).originalName = true) :
    buildGroups fs [h] entries = .ok ((groupRuns (origPairs fs entries)).map (mkGroup h)) := by
  cases entries with
  | nil => exact absurd rfl hne
  | cons e r =>
    obtain ⟨hap, sid⟩ := e
    have e1 : hap = h := hh (hap, sid) (by simp)
    subst e1
    have hgood := hg (hap, sid) (by simp)
    rw [buildGroups_eq, List.foldlM_cons, bgStep_first fs hap sid hgood]
    obtain ⟨st', h1, h2⟩ := fold_single fs hap r [] (origOf fs sid) [sid] (some hap)
      (fun e he => hh e (List.mem_cons_of_mem _ he)) (fun e he => hg e (List.mem_cons_of_mem _ he))
    show (List.foldlM (bgStep fs [hap]) _ r >>= _) = _
    rw [h1]
    show Except.ok (st'.groups ++ [st'.cur]) = _
    rw [h2]; rfl

/-- **G1** one haplotype key, some entry without original name: `ValueError` -/
theorem buildGroups_single_bad (fs : List Scaffold) (h : Str) (entries : List (Str × Nat))
    (hh : ∀ e ∈ entries, e.1 = h) (hb : ∃ e ∈ entries, truthy (fs.getD e.2 default).originalName = false) :
    buildGroups fs [h] entries = .error .value := by
  cases entries with
  | nil => obtain ⟨e, he, _⟩ := hb; cases he
  | cons e r =>
    obtain ⟨hap, sid⟩ := e
    have e1 : hap = h := hh (hap, sid) (by simp)
    subst e1
    rw [buildGroups_eq, List.foldlM_cons]
    cases hgood : truthy (fs.getD sid default).originalName with
    | false => rw [bgStep_bad fs [hap] _ hap sid hgood]; rfl
    | true =>
      have hb' : ∃ e ∈ r, truthy (fs.getD e.2 default).originalName = false := by
        obtain ⟨e, he, hbad⟩ := hb
        rcases List.mem_cons.1 he with e2 | he
        · subst e2; rw [hgood] at hbad; cases hbad
        · exact ⟨e, he, hbad⟩
      rw [bgStep_first fs hap sid hgood]
      show (List.foldlM (bgStep fs [hap]) _ r >>= _) = _
      rw [fold_single_bad fs hap r [] (origOf fs sid) [sid] (some hap)
        (fun e he => hh e (List.mem_cons_of_mem _ he)) hb']
      rfl

/-- the result passes `check_groups` -/
theorem groupsHaveErrors_single (h : Str) (rs : List Run) : groupsHaveErrors (rs.map (mkGroup h)) = false := by
  unfold groupsHaveErrors
  rw [List.any_eq_false]
  intro g hg
  obtain ⟨r, _, rfl⟩ := List.mem_map.1 hg
  simp [mkGroup]

end AgpTpf.C10
