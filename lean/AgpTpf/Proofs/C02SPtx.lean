/-
  C02 (script model), part 3: the shape of `ptxOf` and what `wfScript` says, in Prop form.
-/
import AgpTpf.Proofs.C02SArith
import AgpTpf.Proofs.C02SLookup
namespace AgpTpf.C02
open AgpTpf AgpTpf.Pretext

/-! ### rows of a Pretext scaffold -/

theorem fragmentsOf_joinRows (g : Gap) (l : List Fragment) : fragmentsOf (joinRows g l) = l := by
  induction l with
  | nil => rfl
  | cons f r ih =>
    cases r with
    | nil => rfl
    | cons f' r' =>
      show f :: fragmentsOf (joinRows g (f' :: r')) = f :: f' :: r'
      rw [ih]

theorem joinRows_cons (g : Gap) (f : Fragment) (r : List Fragment) : ∃ t, joinRows g (f :: r) = .frag f :: t := by
  cases r with
  | nil => exact ⟨[], rfl⟩
  | cons f' r' => exact ⟨_, rfl⟩

/-- a scaffold of the map: group number `n` (from 0), named `Scaffold_<n+1>`, its fragment rows are the group's pieces -/
theorem mem_ptxOf {input : List Scaffold} {s : Script} {S : Scaffold} (h : S ∈ ptxOf input s) :
    ∃ g n, s.groups[n]? = some g ∧ S.name = scaffoldName (n + 1) ∧
      S.rows = joinRows s.gap (groupFrags input s g) ∧ S.fragments = groupFrags input s g := by
  unfold ptxOf at h
  obtain ⟨x, hx, rfl⟩ := List.mem_map.1 h
  refine ⟨x.1, x.2, List.mem_zipIdx_iff_getElem?.1 hx, rfl, rfl, ?_⟩
  show fragmentsOf (joinRows s.gap (groupFrags input s x.1)) = _
  rw [fragmentsOf_joinRows]

theorem ptxOf_length (input : List Scaffold) (s : Script) : (ptxOf input s).length = s.groups.length := by
  simp [ptxOf]

/-! ### `wfScript`, as a proposition -/

structure WfScript (input : List Scaffold) (s : Script) : Prop where
  hq : 1 ≤ s.q
  hpq : s.q ≤ s.p
  len : s.scafs.length = input.length
  scaf : ∀ (i : Nat) (sc : Scaffold) (c : ScafScript), input[i]? = some sc → s.scafs[i]? = some c → c.wf s.p s.q (scafLen sc) = true
  groupsNe : ∀ g ∈ s.groups, g.items ≠ []
  perm : (s.placed.map (fun x => (x.sc, x.k))).Perm s.ids

theorem wfScript_spec {input : List Scaffold} {s : Script} (h : wfScript input s = true) : WfScript input s := by
  unfold wfScript at h
  simp only [Bool.and_eq_true, decide_eq_true_eq, beq_iff_eq, List.all_eq_true] at h
  obtain ⟨⟨⟨⟨⟨h1, h2⟩, h3⟩, h4⟩, h5⟩, h6⟩ := h
  refine ⟨h1, h2, h3, ?_, ?_, List.isPerm_iff.1 h6⟩
  · intro i sc c hi hc
    have : (sc, c) ∈ input.zip s.scafs := by
      rw [List.mem_iff_getElem?]
      exact ⟨i, List.getElem?_zip_eq_some.2 ⟨hi, hc⟩⟩
    exact h4 _ this
  · intro g hg e
    have := h5 g hg
    rw [e] at this
    simp at this

/-! ### piece identifiers -/

theorem mem_pieceIds {p q : Nat} {scafs : List ScafScript} {i k : Nat} :
    (i, k) ∈ pieceIds p q scafs ↔ ∃ c, scafs[i]? = some c ∧ k < (c.spans p q).length := by
  unfold pieceIds
  simp only [List.mem_flatMap, List.mem_map, List.mem_range, Prod.mk.injEq]
  constructor
  · rintro ⟨x, hx, k', hk', rfl, rfl⟩
    exact ⟨x.1, List.mem_zipIdx_iff_getElem?.1 hx, hk'⟩
  · rintro ⟨c, hc, hk⟩
    exact ⟨(c, i), List.mem_zipIdx_iff_getElem?.2 hc, k, hk, rfl, rfl⟩

theorem pieceIds_nodup (p q : Nat) (scafs : List ScafScript) : (pieceIds p q scafs).Nodup := by
  unfold pieceIds
  rw [List.nodup_iff_pairwise_ne, List.pairwise_flatMap]
  constructor
  · intro x _
    rw [List.pairwise_map]
    exact List.Pairwise.imp (fun h e => h (by simpa using e)) List.nodup_range
  · -- different scaffolds: different first components
    have hnd : (scafs.zipIdx.map Prod.snd).Nodup := by
      rw [List.zipIdx_map_snd]; exact List.nodup_range'
    rw [List.nodup_iff_pairwise_ne, List.pairwise_map] at hnd
    refine List.Pairwise.imp ?_ hnd
    intro a b hab x hx y hy e
    obtain ⟨_, _, rfl⟩ := List.mem_map.1 hx
    obtain ⟨_, _, rfl⟩ := List.mem_map.1 hy
    exact hab (by simpa using congrArg Prod.fst e)

/-- the spans of a scaffold that has pieces: it is present -/
theorem present_of_span {p q : Nat} {c : ScafScript} {k : Nat} (h : k < (c.spans p q).length) : c.present = true := by
  unfold ScafScript.spans at h
  cases hp : c.present with
  | true => rfl
  | false => rw [hp] at h; simp at h

theorem spans_present {p q : Nat} {c : ScafScript} (hp : c.present = true) :
    c.spans p q = spansFrom p q 0 (c.cuts ++ [c.T]) := by
  unfold ScafScript.spans; rw [if_pos hp]

/-! ### the placed pieces -/

/-- everything known about a placed piece of a well-formed script -/
theorem pieceFrag_some {input : List Scaffold} {s : Script} (hw : WfScript input s) (b : Bool) {x : Placed}
    (hx : x ∈ s.placed) :
    ∃ pf sc c ab, pieceFrag input s b x = some pf ∧ input[x.sc]? = some sc ∧ s.scafs[x.sc]? = some c ∧
      c.present = true ∧ (c.spans s.p s.q)[x.k]? = some ab ∧ ab ∈ c.spans s.p s.q ∧
      pf.name = sc.name ∧ pf.start = (ab.1 : Int) ∧ pf.stop = (ab.2 : Int) ∧
      pf.tags = (if b then [sPainted] else []) ∧ pf.strand = (if x.minus then -1 else 1) := by
  have hid : (x.sc, x.k) ∈ s.ids := hw.perm.subset (List.mem_map.2 ⟨x, hx, rfl⟩)
  obtain ⟨c, hc, hk⟩ := mem_pieceIds.1 hid
  have hi : x.sc < input.length := by
    rw [← hw.len]
    by_cases h : x.sc < s.scafs.length
    · exact h
    · rw [List.getElem?_eq_none (by omega)] at hc; cases hc
  have hsc : input[x.sc]? = some input[x.sc] := List.getElem?_eq_getElem hi
  have hab : (c.spans s.p s.q)[x.k]? = some (c.spans s.p s.q)[x.k] := List.getElem?_eq_getElem hk
  refine ⟨{ oid := 0, name := input[x.sc].name, start := (((c.spans s.p s.q)[x.k]).1 : Int),
             stop := (((c.spans s.p s.q)[x.k]).2 : Int), strand := if x.minus then -1 else 1,
             tags := if b then [sPainted] else [] },
    input[x.sc], c, (c.spans s.p s.q)[x.k], ?_, hsc, hc, present_of_span hk, hab,
    List.getElem_mem hk, rfl, rfl, rfl, rfl, rfl⟩
  unfold pieceFrag
  rw [hsc, hc]
  simp only [hab]

theorem pieceFrag_eq_some {input : List Scaffold} {s : Script} {b : Bool} {x : Placed} {pf : Fragment}
    (h : pieceFrag input s b x = some pf) :
    ∃ sc c ab, input[x.sc]? = some sc ∧ s.scafs[x.sc]? = some c ∧ (c.spans s.p s.q)[x.k]? = some ab ∧
      pf = { oid := 0, name := sc.name, start := (ab.1 : Int), stop := (ab.2 : Int),
             strand := if x.minus then -1 else 1, tags := if b then [sPainted] else [] } := by
  unfold pieceFrag at h
  split at h
  · next sc c hsc hc =>
    split at h
    · next ab hab =>
      cases h
      exact ⟨sc, c, ab, hsc, hc, hab, rfl⟩
    · cases h
  · cases h

/-- the placed pieces with the paint flag of their group, in map order -/
def itemsT (s : Script) : List (Bool × Placed) := s.groups.flatMap (fun g => g.items.map (fun x => (g.painted, x)))

theorem itemsT_snd (s : Script) : (itemsT s).map Prod.snd = s.placed := by
  unfold itemsT Script.placed
  rw [List.map_flatMap]
  congr 1
  funext g
  rw [List.map_map]
  exact List.map_id' _

theorem mem_itemsT {s : Script} {bx : Bool × Placed} (h : bx ∈ itemsT s) : bx.2 ∈ s.placed := by
  rw [← itemsT_snd]; exact List.mem_map_of_mem h

/-- different positions in the map hold different pieces -/
theorem itemsT_pairwise {input : List Scaffold} {s : Script} (hw : WfScript input s) :
    (itemsT s).Pairwise (fun a b => (a.2.sc, a.2.k) ≠ (b.2.sc, b.2.k)) := by
  have h1 : ((itemsT s).map (fun bx => (bx.2.sc, bx.2.k))).Nodup := by
    have : (itemsT s).map (fun bx => (bx.2.sc, bx.2.k)) = s.placed.map (fun x => (x.sc, x.k)) := by
      rw [← itemsT_snd, List.map_map]; rfl
    rw [this]
    exact (hw.perm.nodup_iff).2 (pieceIds_nodup _ _ _)
  rw [List.nodup_iff_pairwise_ne, List.pairwise_map] at h1
  exact h1

/-- the contig keys a placed piece claims -/
def itemKeys (input : List Scaffold) (s : Script) (bx : Bool × Placed) : List Key :=
  match pieceFrag input s bx.1 bx.2 with
  | some pf => pieceKeys input pf
  | none => []

theorem filterMap_flatMap {α β γ} (f : α → Option β) (g : β → List γ) (l : List α) :
    (l.filterMap f).flatMap g = l.flatMap (fun a => match f a with | some b => g b | none => []) := by
  induction l with
  | nil => rfl
  | cons a r ih =>
    cases h : f a with
    | none => simp [h, ih]
    | some b => simp [h, ih]

/-- **the claimed keys of a script's map**, piece by piece in map order -/
theorem claimedKeys_ptxOf (input : List Scaffold) (s : Script) :
    claimedKeys input (ptxOf input s) = (itemsT s).flatMap (itemKeys input s) := by
  unfold claimedKeys ptxOf itemsT
  rw [List.flatMap_map, List.flatMap_assoc]
  have h1 : ∀ (l : List Pretext.Group) (n : Nat),
      (l.zipIdx n).flatMap (fun x => Scaffold.fragments
        ({ name := scaffoldName (x.2 + 1), rows := joinRows s.gap (groupFrags input s x.1) } : Scaffold) |>.flatMap
          (pieceKeys input)) =
      l.flatMap (fun g => (g.items.map (fun x => (g.painted, x))).flatMap (itemKeys input s)) := by
    intro l
    induction l with
    | nil => intro n; rfl
    | cons g r ih =>
      intro n
      rw [List.zipIdx_cons, List.flatMap_cons, List.flatMap_cons, ih]
      congr 1
      show (fragmentsOf (joinRows s.gap (groupFrags input s g))).flatMap (pieceKeys input) = _
      rw [fragmentsOf_joinRows, List.flatMap_map]
      unfold groupFrags
      rw [filterMap_flatMap]
      congr 1
      funext a
      unfold itemKeys
      cases pieceFrag input s g.painted a <;> rfl
  exact h1 s.groups 0

end AgpTpf.C02
