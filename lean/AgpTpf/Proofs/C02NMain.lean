/-
  C02 "remapping never fails" (task W7-C02NOERR), helper part 11: `remap_to_input_assembly` as a whole never raises on a
  tiling map whose scaffolds are `PtxScafOk`; the map of a well-formed script is such a map.
-/
import AgpTpf.Proofs.C02NFront
import AgpTpf.Proofs.C02NScript
namespace AgpTpf.C02
open AgpTpf AgpTpf.Pretext OverlapResult
open AgpTpf.C01 (WFInput inputFrags)

/-- the whole cutting loop succeeds after the lookup stage and the resolver (Proofs-level form of N1c) -/
theorem cut_remaining_ok_for_tiling' (input ptx : List Scaffold) (prefix_ : Str) (joinGap : Option Gap) (err : Int)
    (hwf : WFInput input) (hnn : InputNonNeg input) (hstr : ∀ f ∈ inputFrags input, f.strand = 1 ∨ f.strand = -1)
    (herr : 0 ≤ err) (hT : Tiling err ptx) (b1 b2 : Build) (fuel : Nat)
    (h1 : findAssemblyOverlaps input ptx (C09.startBuild input prefix_ joinGap err) = .ok b1)
    (h2 : discardOverhanging fuel b1 = .ok b2) :
    ∃ b3, cutRemaining b2 = .ok b3 := by
  have hctx := holdCtx_after_resolver input ptx prefix_ joinGap err hwf hnn hstr herr hT b1 b2 fuel h1 h2
  apply cutRemaining_ok hctx
  have hn1 := C01.findAssemblyOverlaps_nextOid input ptx _ b1 h1
  obtain ⟨hm1, _⟩ := C01.reg_after_find_aux input ptx _ b1 ⟨rfl, rfl, rfl⟩ h1
  obtain ⟨_, _, hn2, _⟩ := C01.discardOverhanging_mid input hwf fuel b1 b2 hm1 h2
  intro f hf
  rw [hn2, hn1]
  exact (C07.inputOK_of_nodup input hwf.2.1).lt f hf

/-- **`remap_to_input_assembly` never raises** on a tiling map over a well-formed, untagged input -/
theorem remapToInput_ok_of_tiling (input ptx : List Scaffold) (prefix_ : Str) (jg : Gap) (err : Int)
    (hwf : WFInput input) (hnn : InputNonNeg input) (hstr : ∀ f ∈ inputFrags input, f.strand = 1 ∨ f.strand = -1)
    (hrows : ∀ sc ∈ input, sc.rows ≠ []) (hut : ∀ sc ∈ input, ∀ f ∈ sc.fragments, f.tags = [])
    (herr : 0 ≤ err) (hT : Tiling err ptx) (hp : ∀ S ∈ ptx, PtxScafOk input S) :
    ∃ b, remapToInput input ptx prefix_ (some jg) err = .ok b := by
  unfold remapToInput
  have hdup := C08.dupCheck_ok input [] hwf.1 (by simp)
  simp only [bind, Except.bind, hdup]
  obtain ⟨b1, h1⟩ := findAssemblyOverlaps_ok hwf.1 hnn hrows ptx hp (C09.startBuild input prefix_ (some jg) err)
  have h1' : findAssemblyOverlaps input ptx
      { namer := { autosomePrefix := prefix_ },
        nextOid := (input.flatMap Scaffold.fragments).foldl (fun m f => max m (f.oid + 1)) 0,
        joinGap := some jg, err := err } = .ok b1 := h1
  simp only [h1']
  obtain ⟨hm1, _, hj1, _, _⟩ := C01.reg_after_find_aux input ptx _ b1 ⟨rfl, rfl, rfl⟩ h1
  obtain ⟨b2, h2⟩ := discardOverhanging_ok hwf (totalRows b1.store + 2) b1 hm1 (by omega)
  simp only [h2]
  obtain ⟨b3, h3⟩ := cut_remaining_ok_for_tiling' input ptx prefix_ (some jg) err hwf hnn hstr herr hT b1 b2 _ h1 h2
  simp only [h3]
  have hj3 : b3.joinGap = some jg := by
    have k2 := (C09.discardOverhanging_keeps _ b1 b2 h2).2.2.2
    have k3 := (C09.cutRemaining_keeps b2 b3 h3).2.2.2
    rw [k3, k2, hj1]; rfl
  rw [C08.addMissing_eq]
  exact addMissing_ok jg input _ hj3 hut

/-- every scaffold of a script's map is `PtxScafOk` -/
theorem script_ptx_ok {input : List Scaffold} {s : Script} (hw : WfScript input s) :
    ∀ S ∈ ptxOf input s, PtxScafOk input S := by
  intro S hS
  obtain ⟨g, n, hg, _, hrows, hfr⟩ := mem_ptxOf hS
  have hgm : g ∈ s.groups := mem_of_getElem? hg
  have hitems : ∀ x ∈ g.items, x ∈ s.placed := by
    intro x hx
    unfold Script.placed
    exact List.mem_flatMap.2 ⟨g, hgm, hx⟩
  have hall : ∀ pf ∈ groupFrags input s g, (pf.tags = if g.painted then [sPainted] else []) ∧
      ∃ sc ∈ input, sc.name = pf.name := by
    intro pf hpf
    unfold groupFrags at hpf
    obtain ⟨x, hx, hp⟩ := List.mem_filterMap.1 hpf
    obtain ⟨pf', sc, c, ab, h1, h2, _, _, _, _, h7, _, _, h10, _⟩ := pieceFrag_some hw g.painted (hitems x hx)
    rw [hp] at h1; cases h1
    exact ⟨h10, sc, mem_of_getElem? h2, h7.symm⟩
  have hne : groupFrags input s g ≠ [] := by
    cases hi : g.items with
    | nil => exact absurd hi (hw.groupsNe g hgm)
    | cons x t =>
      obtain ⟨pf, _, _, _, h1, _⟩ := pieceFrag_some hw g.painted (hitems x (by rw [hi]; simp))
      unfold groupFrags
      rw [hi, List.filterMap_cons, h1]
      simp
  refine ⟨?_, ?_, ?_⟩
  · cases hf : groupFrags input s g with
    | nil => exact absurd hf hne
    | cons f r =>
      obtain ⟨t, ht⟩ := joinRows_cons s.gap f r
      exact ⟨f, t, by rw [hrows, hf, ht]⟩
  · rw [hfr]
    cases hpt : g.painted with
    | false =>
      left
      intro p hp
      have := (hall p hp).1
      rw [hpt] at this; exact this
    | true =>
      right
      refine ⟨hne, ?_⟩
      intro p hp
      have := (hall p hp).1
      rw [hpt] at this; exact this
  · rw [hfr]
    intro p hp
    exact (hall p hp).2

end AgpTpf.C02
