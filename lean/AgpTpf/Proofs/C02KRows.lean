/-
  C02 core (task W6-C02CORE), helper part 7: the row-level reading of `KInv`.
  A contig row of the source scaffold that has a base in the core (and in the lookup span) is still a row of the result,
  at its scaffold position; an inner row is the source row itself; a terminal row may have been shortened, and then only
  outside the bait: the result then begins / ends exactly at the bait coordinate.
-/
import AgpTpf.Proofs.C02KOps
namespace AgpTpf.C02
open AgpTpf OverlapResult
open AgpTpf.C18 (Inv Content Short ids rowsLength_nil rowsLength_cons rowsLength_append rowsLength_singleton)

theorem NonNeg.of_eq_append3 {src X Y : List Row} {r : Row} (h : NonNeg src) (hs : src = X ++ r :: Y) :
    NonNeg X ∧ 0 ≤ r.length ∧ NonNeg Y := by
  subst hs
  exact ⟨h.append_left, h r (by simp), fun y hy => h y (by simp [hy])⟩

/-- the row covering a position is unique (non-negative row lengths) -/
theorem pos_unique {src X Y A B : List Row} {r s : Row} (hlen : NonNeg src) (h1 : src = X ++ r :: Y)
    (h2 : src = A ++ s :: B) {x : Int} (hx1 : rowsLength X < x) (hx2 : x ≤ rowsLength X + r.length)
    (ha1 : rowsLength A < x) (ha2 : x ≤ rowsLength A + s.length) : X = A ∧ r = s ∧ Y = B := by
  have h : X ++ r :: Y = A ++ s :: B := h1.symm.trans h2
  rcases List.append_eq_append_iff.mp h with ⟨C, hA, hB⟩ | ⟨C, hX, hB⟩
  · cases C with
    | nil =>
      simp only [List.nil_append, List.cons.injEq] at hB
      exact ⟨by simpa using hA.symm, hB.1, hB.2⟩
    | cons c C' =>
      exfalso
      simp only [List.cons_append, List.cons.injEq] at hB
      obtain ⟨rfl, hY⟩ := hB
      have hn : NonNeg C' := by
        intro y hy
        exact hlen y (by rw [h1, hY]; simp [hy])
      have := rowsLength_nonneg hn
      rw [hA, rowsLength_append, rowsLength_cons] at ha1
      omega
  · cases C with
    | nil =>
      simp only [List.nil_append, List.cons.injEq] at hB
      exact ⟨by simpa using hX, hB.1.symm, hB.2.symm⟩
    | cons c C' =>
      exfalso
      simp only [List.cons_append, List.cons.injEq] at hB
      obtain ⟨rfl, hY⟩ := hB
      have hn : NonNeg C' := by
        intro y hy
        exact hlen y (by rw [h2, hY]; simp [hy])
      have := rowsLength_nonneg hn
      rw [hX, rowsLength_append, rowsLength_cons] at hx1
      omega

/-- a position inside a list of rows lies in one of them -/
theorem pos_in_list : ∀ (l : List Row), NonNeg l → ∀ y : Int, 0 < y → y ≤ rowsLength l →
    ∃ l1 r l2, l = l1 ++ r :: l2 ∧ rowsLength l1 < y ∧ y ≤ rowsLength l1 + r.length
  | [], _, y, h1, h2 => by rw [rowsLength_nil] at h2; omega
  | a :: t, hn, y, h1, h2 => by
    by_cases hy : y ≤ a.length
    · exact ⟨[], a, t, rfl, by rw [rowsLength_nil]; omega, by rw [rowsLength_nil]; omega⟩
    · rw [rowsLength_cons] at h2
      obtain ⟨l1, r, l2, e, q1, q2⟩ := pos_in_list t (fun z hz => hn z (List.mem_cons_of_mem _ hz)) (y - a.length)
        (by omega) (by omega)
      exact ⟨a :: l1, r, l2, by rw [e]; rfl, by rw [rowsLength_cons]; omega, by rw [rowsLength_cons]; omega⟩

theorem boundary_in_row_left {src A B : List Row} {s : Row} (hlen : NonNeg src) (hs : src = A ++ s :: B) {y : Int}
    (hb : Boundary src y) (h1 : rowsLength A ≤ y) (h2 : y < rowsLength A + s.length) : y = rowsLength A := by
  obtain ⟨X', Y', hs', rfl⟩ := hb
  have h : X' ++ Y' = A ++ s :: B := hs'.symm.trans hs
  rcases List.append_eq_append_iff.mp h with ⟨C, hA, _⟩ | ⟨C, hX, hB⟩
  · have hn : NonNeg C := by
      intro z hz; exact hlen z (by rw [hs, hA]; simp [hz])
    have := rowsLength_nonneg hn
    rw [hA, rowsLength_append] at h1 ⊢
    omega
  · cases C with
    | nil => rw [hX]; simp
    | cons c C' =>
      exfalso
      simp only [List.cons_append, List.cons.injEq] at hB
      obtain ⟨rfl, hY⟩ := hB
      have hn : NonNeg C' := by
        intro z hz; exact hlen z (by rw [hs, hY]; simp [hz])
      have := rowsLength_nonneg hn
      rw [hX, rowsLength_append, rowsLength_cons] at h2
      omega

theorem boundary_in_row_right {src A B : List Row} {s : Row} (hlen : NonNeg src) (hs : src = A ++ s :: B) {y : Int}
    (hb : Boundary src y) (h1 : rowsLength A < y) (h2 : y ≤ rowsLength A + s.length) : y = rowsLength A + s.length := by
  obtain ⟨X', Y', hs', rfl⟩ := hb
  have h : X' ++ Y' = A ++ s :: B := hs'.symm.trans hs
  rcases List.append_eq_append_iff.mp h with ⟨C, hA, _⟩ | ⟨C, hX, hB⟩
  · exfalso
    have hn : NonNeg C := by
      intro z hz; exact hlen z (by rw [hs, hA]; simp [hz])
    have := rowsLength_nonneg hn
    rw [hA, rowsLength_append] at h1
    omega
  · cases C with
    | nil => exfalso; rw [hX] at h1; simp at h1
    | cons c C' =>
      simp only [List.cons_append, List.cons.injEq] at hB
      obtain ⟨rfl, hY⟩ := hB
      have hn : NonNeg C' := by
        intro z hz; exact hlen z (by rw [hs, hY]; simp [hz])
      have := rowsLength_nonneg hn
      rw [hX, rowsLength_append, rowsLength_cons] at h2 ⊢
      omega

/-- what the row-level statement says about the row `r` of the result that stands for the source contig row `f`
    (which lies at scaffold positions `xs + 1 … xs + f.length`): `r` is `f` shortened by `dl ≥ 0` positions at its
    scaffold-left side and `dr ≥ 0` at its right side; only a first row can have `dl ≠ 0`, only a last row `dr ≠ 0`; an
    inner row is the source row itself; a shortened side was cut exactly at the bait coordinate (so what was clipped lies
    outside the bait, left of `bait.start` resp. right of `bait.stop`); the row sits at its scaffold position. -/
structure RowKept (o : OverlapResult) (f : Fragment) (xs : Int) (L : List Row) (r : Row) (R : List Row) (dl dr : Int) :
    Prop where
  rows : o.rows = L ++ r :: R
  short : Short r (.frag f) dl dr
  dl0 : 0 ≤ dl
  dr0 : 0 ≤ dr
  inner : L ≠ [] → R ≠ [] → r = .frag f
  left : L ≠ [] → dl = 0
  right : R ≠ [] → dr = 0
  cutL : dl ≠ 0 → o.start = o.bait.start
  cutR : dr ≠ 0 → o.stop = o.bait.stop
  pos : o.start + rowsLength L = xs + 1 + dl
  posR : o.stop - rowsLength R = xs + f.length - dr

/-- **row level.**  `src = X ++ f :: Y`; `x` is a base of the contig row `f` that lies inside `[o.start, o.stop]`. -/
theorem row_kept_at {src : List Row} {o : OverlapResult} (hlen : NonNeg src) (hI : Inv src o) (hedge : EdgeOK src o)
    {X Y : List Row} {f : Fragment} (hs : src = X ++ .frag f :: Y) {x : Int}
    (hx1 : rowsLength X < x) (hx2 : x ≤ rowsLength X + f.length) (hlo : o.start ≤ x) (hhi : x ≤ o.stop) :
    ∃ L r R dl dr, RowKept o f (rowsLength X) L r R dl dr := by
  have hfl : (Row.frag f).length = f.length := rfl
  cases hI.content with
  | empty hr he => omega
  | one A B s r dl dr hs' hr hsh d0 d1 hst hen =>
    obtain ⟨rfl, rfl, rfl⟩ := pos_unique hlen hs hs' hx1 hx2 (by omega) (by omega)
    rcases hedge with he | ⟨eL, eR⟩
    · rw [hr] at he; cases he
    · refine ⟨[], r, [], dl, dr, ⟨by rw [hr]; rfl, hsh, d0, d1, fun h => absurd rfl h, fun h => absurd rfl h,
        fun h => absurd rfl h, ?_, ?_, by rw [rowsLength_nil]; omega, by rw [rowsLength_nil]; rw [hfl] at hen; omega⟩⟩
      · intro hne
        rcases eL with eL | eL
        · have := boundary_in_row_left hlen hs eL (by omega) (by omega); omega
        · exact eL
      · intro hne
        rcases eR with eR | eR
        · have := boundary_in_row_right hlen hs eR (by omega) (by omega); omega
        · exact eR
  | many A B mid s0' s1' r0 r1 dl dr hs' hr hs0 hs1 d0 d1 hst hen =>
    have hl0 := hs0.length
    have hl1 := hs1.length
    have hs'' : src = A ++ s0' :: (mid ++ s1' :: B) := by rw [hs']; simp
    obtain ⟨nA, n0, nrest⟩ := hlen.of_eq_append3 hs''
    have nmid : NonNeg mid := nrest.append_left
    rcases hedge with he | ⟨eL, eR⟩
    · rw [hr] at he; cases he
    by_cases c1 : x ≤ rowsLength A + s0'.length
    · -- the first row
      obtain ⟨rfl, rfl, _⟩ := pos_unique hlen hs hs'' hx1 hx2 (by omega) c1
      refine ⟨[], r0, mid ++ [r1], dl, 0, ⟨by rw [hr]; rfl, hs0, d0, Int.le_refl _, fun h => absurd rfl h,
        fun h => absurd rfl h, fun _ => rfl, ?_, fun h => absurd rfl h, by rw [rowsLength_nil]; omega, ?_⟩⟩
      · intro hne
        rcases eL with eL | eL
        · have := boundary_in_row_left hlen hs eL (by omega) (by omega); omega
        · exact eL
      · rw [rowsLength_append, rowsLength_singleton, hfl] at *; omega
    · by_cases c2 : x ≤ rowsLength A + s0'.length + rowsLength mid
      · -- an inner row
        obtain ⟨m1, r, m2, em, q1, q2⟩ := pos_in_list mid nmid (x - (rowsLength A + s0'.length)) (by omega) (by omega)
        have hs3 : src = (A ++ s0' :: m1) ++ r :: (m2 ++ s1' :: B) := by rw [hs', em]; simp
        obtain ⟨rfl, rfl, _⟩ := pos_unique hlen hs hs3 hx1 hx2
          (by rw [rowsLength_append, rowsLength_cons]; omega) (by rw [rowsLength_append, rowsLength_cons]; omega)
        refine ⟨r0 :: m1, .frag f, m2 ++ [r1], 0, 0, ⟨by rw [hr, em]; simp, Short.refl f, Int.le_refl _, Int.le_refl _,
          fun _ _ => rfl, fun _ => rfl, fun _ => rfl, fun h => absurd rfl h, fun h => absurd rfl h, ?_, ?_⟩⟩
        · rw [rowsLength_cons, rowsLength_append, rowsLength_cons]; omega
        · rw [em] at hen
          simp only [rowsLength_append, rowsLength_cons, rowsLength_nil, hfl] at hen ⊢
          omega
      · -- the last row
        have hs3 : src = (A ++ s0' :: mid) ++ s1' :: B := hs'
        have hxle : x ≤ rowsLength A + s0'.length + rowsLength mid + s1'.length := by omega
        obtain ⟨rfl, rfl, _⟩ := pos_unique hlen hs hs3 hx1 hx2
          (by rw [rowsLength_append, rowsLength_cons]; omega) (by rw [rowsLength_append, rowsLength_cons]; omega)
        refine ⟨r0 :: mid, r1, [], 0, dr, ⟨hr, hs1, Int.le_refl _, d1, fun _ h => absurd rfl h,
          fun _ => rfl, fun h => absurd rfl h, fun h => absurd rfl h, ?_, ?_, ?_⟩⟩
        · intro hne
          rcases eR with eR | eR
          · have := boundary_in_row_right hlen hs3 eR
              (by rw [rowsLength_append, rowsLength_cons]; omega) (by rw [rowsLength_append, rowsLength_cons]; omega)
            rw [rowsLength_append, rowsLength_cons] at this
            omega
          · exact eR
        · rw [rowsLength_cons, rowsLength_append, rowsLength_cons]; omega
        · rw [rowsLength_nil, rowsLength_append, rowsLength_cons]; omega

/-- `x` a base of the contig row `f`, inside the lookup span and inside the core -/
theorem core_row_kept {src : List Row} {M s0 e0 : Int} {p : Fragment} {o : OverlapResult} (hlen : NonNeg src)
    (hk : KInv src M s0 e0 p o) {X Y : List Row} {f : Fragment} (hs : src = X ++ .frag f :: Y) {x : Int}
    (hx1 : rowsLength X < x) (hx2 : x ≤ rowsLength X + f.length) (h0 : s0 ≤ x) (h1 : x ≤ e0)
    (hc1 : p.start + M ≤ x) (hc2 : x ≤ p.stop - M) :
    ∃ L r R dl dr, RowKept o f (rowsLength X) L r R dl dr := by
  have hxpos : 1 ≤ x := by
    have := rowsLength_nonneg (hlen.of_eq_append3 hs).1; omega
  have hcontig : ContigAt src x := ⟨hxpos, f, rowAt_frag hs hlen hx1 hx2⟩
  have hb := hk.bait
  obtain ⟨hlo, hhi⟩ := hk.core x h0 h1 hcontig (by rw [hb]; exact hc1) (by rw [hb]; exact hc2)
  exact row_kept_at hlen hk.inv hk.edge hs hx1 hx2 hlo hhi

end AgpTpf.C02
