/-
  C02 (script model), part 5: which contigs a script's map claims (S5), and that clean cuts claim no contig twice.
-/
import AgpTpf.Proofs.C02SKeys
namespace AgpTpf.C02
open AgpTpf AgpTpf.Pretext
open AgpTpf.C12 (rowSpan meets meets_iff)

/-! ### the claimed contigs (S5) -/

theorem mem_claimedKeys_ptxOf {input : List Scaffold} {s : Script} (key : Key) :
    key ∈ claimedKeys input (ptxOf input s) ↔ ∃ bx ∈ itemsT s, key ∈ itemKeys input s bx := by
  rw [claimedKeys_ptxOf, List.mem_flatMap]

/-- a piece identifier of the script is placed somewhere in the map -/
theorem placed_of_id {input : List Scaffold} {s : Script} (hw : WfScript input s) {i k : Nat} {c : ScafScript}
    (hc : s.scafs[i]? = some c) (hk : k < (c.spans s.p s.q).length) :
    ∃ bx ∈ itemsT s, bx.2.sc = i ∧ bx.2.k = k := by
  have hid : (i, k) ∈ s.ids := mem_pieceIds.2 ⟨c, hc, hk⟩
  obtain ⟨x, hx, e⟩ := List.mem_map.1 (hw.perm.symm.subset hid)
  rw [← itemsT_snd] at hx
  obtain ⟨bx, hbx, rfl⟩ := List.mem_map.1 hx
  simp only [Prod.mk.injEq] at e
  exact ⟨bx, hbx, e.1, e.2⟩

/-- **S5, core.**  The contig in row `k` of input scaffold `i` (at least 1 bp long) is claimed by the map of a well-formed
    script iff the scaffold is present and the contig begins at or before `⌊T·β⌋`. -/
theorem claimed_iff {input : List Scaffold} {s : Script} (hw : WfScript input s) (hin : InputBase input)
    {i : Nat} {sc : Scaffold} {c : ScafScript} (hsc : input[i]? = some sc) (hc : s.scafs[i]? = some c)
    {k : Nat} {f : Fragment} (hk : sc.rows[k]? = some (.frag f)) (hpos : 1 ≤ f.length) :
    f.keyTuple ∈ claimedKeys input (ptxOf input s) ↔
      c.present = true ∧ (rowSpan sc.rows k).1 ≤ (coord s.p s.q c.T : Int) := by
  have hmem : sc ∈ input := mem_of_getElem? hsc
  have hlen := hin.lens sc hmem
  rw [mem_claimedKeys_ptxOf]
  constructor
  · rintro ⟨bx, hbx, hkey⟩
    obtain ⟨sc', c', ab, k', f', hsc', hc', hab, hk', hm, e⟩ := (mem_itemKeys hw hin hbx _).1 hkey
    have hi : bx.2.sc = i := keys_same_scaffold hin.keys hsc' hsc (frag_mem_fragments hk') (frag_mem_fragments hk) e
    rw [hi] at hsc' hc'
    rw [hsc] at hsc'; cases hsc'
    rw [hc] at hc'; cases hc'
    have hkk : k' = k := keys_same_row (hin.keys.within sc hmem) hk' hk e
    subst hkk
    have hlt : bx.2.k < (c.spans s.p s.q).length := by
      by_cases h : bx.2.k < (c.spans s.p s.q).length
      · exact h
      · rw [List.getElem?_eq_none (by omega)] at hab; cases hab
    have hp := present_of_span hlt
    refine ⟨hp, ?_⟩
    have habm : ab ∈ spansFrom s.p s.q 0 (c.cuts ++ [c.T]) := by
      rw [← spans_present hp]; exact mem_of_getElem? hab
    have hb := spansFrom_bounds hw.hq hw.hpq (wf_inc (hw.scaf i sc c hsc hc) hp) habm
    obtain ⟨_, _, h1, _⟩ := (meets_iff _ _ _ _).1 hm
    omega
  · rintro ⟨hp, hle⟩
    have h1 := rowSpan_fst_pos sc.rows hlen k
    have h2 := rowSpan_len sc.rows k _ hk
    simp only [Row.length] at h2
    -- the piece containing the first base of the contig
    obtain ⟨ab, habm, hz1, hz2⟩ := spansFrom_cover (p := s.p) (q := s.q) (a := 0) (T := c.T) (cuts := c.cuts)
      ((rowSpan sc.rows k).1.toNat) (by rw [coord_zero]; omega) (by omega)
    rw [← spans_present hp] at habm
    obtain ⟨n, hn, hab⟩ := List.mem_iff_getElem.1 habm
    obtain ⟨bx, hbx, e1, e2⟩ := placed_of_id hw hc hn
    refine ⟨bx, hbx, (mem_itemKeys hw hin hbx _).2 ⟨sc, c, ab, k, f, by rw [e1]; exact hsc, by rw [e1]; exact hc, ?_, hk, ?_, rfl⟩⟩
    · rw [e2, List.getElem?_eq_getElem hn, hab]
    · exact (meets_iff _ _ _ _).2 ⟨f, hk, by omega, by omega⟩

/-! ### clean cuts -/

/-- no contig of `rows` contains both base `c` and base `c + 1` -/
def CleanAt (rows : List Row) (c : Int) : Prop :=
  ∀ k f, rows[k]? = some (.frag f) → (rowSpan rows k).2 ≤ c ∨ c < (rowSpan rows k).1

/-- two pieces of the same scaffold claim no common contig when every interior cut is clean -/
theorem no_common_row {p q : Nat} (hq : 1 ≤ q) (hpq : q ≤ p) {rows : List Row} {c : ScafScript}
    (hinc : Inc 0 (c.cuts ++ [c.T])) (hclean : ∀ t ∈ c.cuts, CleanAt rows (coord p q t))
    {n n' : Nat} {ab ab' : Nat × Nat} (hn : (spansFrom p q 0 (c.cuts ++ [c.T]))[n]? = some ab)
    (hn' : (spansFrom p q 0 (c.cuts ++ [c.T]))[n']? = some ab') (hlt : n < n') {k : Nat}
    (hm : meets rows ab.1 ab.2 k = true) (hm' : meets rows ab'.1 ab'.2 k = true) : False := by
  have hpw := spansFrom_pairwise hq hpq hinc
  have hl : n < (spansFrom p q 0 (c.cuts ++ [c.T])).length := by
    by_cases h : n < (spansFrom p q 0 (c.cuts ++ [c.T])).length
    · exact h
    · rw [List.getElem?_eq_none (by omega)] at hn; cases hn
  have hl' : n' < (spansFrom p q 0 (c.cuts ++ [c.T])).length := by
    by_cases h : n' < (spansFrom p q 0 (c.cuts ++ [c.T])).length
    · exact h
    · rw [List.getElem?_eq_none (by omega)] at hn'; cases hn'
  have h1 := List.pairwise_iff_getElem.1 hpw n n' hl hl' hlt
  rw [List.getElem?_eq_getElem hl] at hn
  rw [List.getElem?_eq_getElem hl'] at hn'
  cases hn; cases hn'
  generalize hab : (spansFrom p q 0 (c.cuts ++ [c.T]))[n] = ab at h1 hm
  generalize hab' : (spansFrom p q 0 (c.cuts ++ [c.T]))[n'] = ab' at h1 hm'
  have habm : ab ∈ spansFrom p q 0 (c.cuts ++ [c.T]) := hab ▸ List.getElem_mem hl
  have habm' : ab' ∈ spansFrom p q 0 (c.cuts ++ [c.T]) := hab' ▸ List.getElem_mem hl'
  have hb' := spansFrom_bounds hq hpq hinc habm'
  obtain ⟨f, hf, ha1, ha2⟩ := (meets_iff _ _ _ _).1 hm
  obtain ⟨_, _, hb1, hb2⟩ := (meets_iff _ _ _ _).1 hm'
  -- `ab.2` is an interior cut coordinate (it is smaller than `coord T`)
  rcases (mem_spansFrom habm).2 with e | ⟨t, ht, e⟩
  · omega
  · rcases hclean t ht k f hf with h | h
    · omega
    · omega

end AgpTpf.C02
